(* Proof/Compact.v -- lemmas about Model/Compact.v (C38). *)
From Coq Require Import ZArith List Bool Lia ZifyBool.
From VF Require Import Model.Compact.
Import ListNotations.
Local Open Scope Z_scope.

(* ================= arrays ================= *)
Section ArrLemmas.
  Context {T : Type}.
  Lemma updn_length : forall (l : list T) k v, length (updn k v l) = length l.
  Proof. induction l; intros [|k] v; cbn; auto. Qed.

  Lemma nth_updn : forall (l : list T) k v j d,
    nth j (updn k v l) d = if (Nat.eqb k j) && (Nat.ltb k (length l)) then v else nth j l d.
  Proof.
    induction l; intros k v j d.
    - cbn. destruct j; rewrite andb_false_r; reflexivity.
    - destruct k, j; cbn [updn nth length]; try reflexivity.
      rewrite IHl. cbn [Nat.eqb]. replace (S k <? S (length l))%nat with (k <? length l)%nat; [reflexivity|].
      destruct (Nat.ltb_spec k (length l)), (Nat.ltb_spec (S k) (S (length l))); try reflexivity; lia.
  Qed.

  Lemma cset_length : forall (l : list T) i v, length (cset l i v) = length l.
  Proof. intros. unfold cset. destruct (i <? 0); [reflexivity|apply updn_length]. Qed.

  Lemma cgetd_cset : forall d (l : list T) i v j, 0 <= j ->
    cgetd d (cset l i v) j = if (i =? j) && (0 <=? i) && (i <? Z.of_nat (length l)) then v else cgetd d l j.
  Proof.
    intros d l i v j Hj. unfold cgetd, cset. destruct (Z.ltb_spec i 0).
    - replace (0 <=? i) with false by lia. rewrite andb_false_r. reflexivity.
    - rewrite nth_updn. replace (0 <=? i) with true by lia. rewrite andb_true_r.
      replace (Z.to_nat i =? Z.to_nat j)%nat with (i =? j) by lia.
      replace (Z.to_nat i <? length l)%nat with (i <? Z.of_nat (length l)) by lia. reflexivity.
  Qed.

  Lemma cgetd_cset_eq : forall d (l : list T) i v, 0 <= i < Z.of_nat (length l) -> cgetd d (cset l i v) i = v.
  Proof. intros. rewrite cgetd_cset by lia. replace ((i =? i) && (0 <=? i) && (i <? Z.of_nat (length l))) with true by lia. reflexivity. Qed.

  Lemma cgetd_cset_neq : forall d (l : list T) i v j, 0 <= j -> i <> j -> cgetd d (cset l i v) j = cgetd d l j.
  Proof. intros. rewrite cgetd_cset by lia. replace (i =? j) with false by lia. reflexivity. Qed.
End ArrLemmas.

(* ================= zseq ================= *)
Lemma zseq_length : forall n, length (zseq n) = Z.to_nat n.
Proof. intros. unfold zseq. rewrite map_length, seq_length. reflexivity. Qed.

Lemma zseq_nth : forall n k d, (k < Z.to_nat n)%nat -> nth k (zseq n) d = Z.of_nat k.
Proof.
  intros n k d H. unfold zseq. rewrite (nth_indep _ d (Z.of_nat 0)) by (rewrite map_length, seq_length; exact H).
  rewrite map_nth, seq_nth by exact H. reflexivity.
Qed.

Lemma zseq_In : forall n x, In x (zseq n) <-> 0 <= x < n.
Proof.
  intros n x. unfold zseq. rewrite in_map_iff. split.
  - intros (k & <- & Hk). apply in_seq in Hk. lia.
  - intros H. exists (Z.to_nat x). split; [lia|]. apply in_seq. lia.
Qed.

Lemma zseq_succ : forall n, 0 <= n -> zseq (n + 1) = zseq n ++ [n].
Proof.
  intros n Hn. unfold zseq. replace (Z.to_nat (n + 1)) with (S (Z.to_nat n)) by lia.
  rewrite seq_S, map_app. cbn. f_equal. f_equal. lia.
Qed.

Lemma zseq_nonpos : forall n, n <= 0 -> zseq n = [].
Proof. intros. unfold zseq. replace (Z.to_nat n) with 0%nat by lia. reflexivity. Qed.

Lemma cgetd_map_zseq : forall {T} (f : Z -> T) n d i, 0 <= i < n -> cgetd d (map f (zseq n)) i = f i.
Proof.
  intros T f n d i H. unfold cgetd.
  rewrite (nth_indep _ d (f 0)) by (rewrite map_length, zseq_length; lia).
  rewrite map_nth. rewrite zseq_nth by lia. f_equal. lia.
Qed.

Lemma seq_map_add : forall n a, seq a n = map (fun k => (a + k)%nat) (seq 0 n).
Proof.
  induction n; intros a; cbn; [reflexivity|]. f_equal; [lia|].
  rewrite (IHn (S a)), (IHn 1%nat), map_map. apply map_ext. intros; lia.
Qed.

Lemma zseq_app : forall a b, 0 <= a -> 0 <= b -> zseq (a + b) = zseq a ++ map (fun j => a + j) (zseq b).
Proof.
  intros a b Ha Hb. unfold zseq. replace (Z.to_nat (a + b)) with (Z.to_nat a + Z.to_nat b)%nat by lia.
  rewrite seq_app, map_app. f_equal. cbn [plus]. rewrite (seq_map_add (Z.to_nat b) (Z.to_nat a)), !map_map.
  apply map_ext. intros; lia.
Qed.

(* ================= increasing lists ================= *)
Definition incr (l : list Z) : Prop := forall i j, (i < j < length l)%nat -> nth i l 0 < nth j l 0.

Lemma incr_nil : incr [].
Proof. intros i j H. cbn in H. lia. Qed.

Lemma incr_app : forall l1 l2, incr l1 -> incr l2 -> (forall x y, In x l1 -> In y l2 -> x < y) -> incr (l1 ++ l2).
Proof.
  intros l1 l2 H1 H2 H12 i j Hij. rewrite app_length in Hij.
  destruct (Nat.lt_ge_cases j (length l1)).
  - rewrite !app_nth1 by lia. apply H1. lia.
  - destruct (Nat.lt_ge_cases i (length l1)).
    + rewrite app_nth1 by lia. rewrite app_nth2 by lia. apply H12; apply nth_In; lia.
    + rewrite !app_nth2 by lia. apply H2. lia.
Qed.

Lemma incr_block : forall a m, incr (map (fun j => a + j) (zseq m)).
Proof.
  intros a m i j Hij. rewrite map_length, zseq_length in Hij.
  rewrite !(nth_indep _ 0 (a + 0)) by (rewrite map_length, zseq_length; lia).
  rewrite !(map_nth (fun j => a + j)). rewrite !zseq_nth by lia. lia.
Qed.

Lemma incr_inj : forall l i j, incr l -> (i < length l)%nat -> (j < length l)%nat -> nth i l 0 = nth j l 0 -> i = j.
Proof.
  intros l i j H Hi Hj E. destruct (Nat.lt_trichotomy i j) as [L|[L|L]]; [|exact L|].
  - specialize (H i j ltac:(lia)). lia.
  - specialize (H j i ltac:(lia)). lia.
Qed.

Lemma incr_NoDup : forall l, incr l -> NoDup l.
Proof.
  intros l H. apply (NoDup_nth l 0). intros i j Hi Hj E. eapply incr_inj; eauto.
Qed.

(* ================= the visit list ================= *)
Lemma fold_left_map : forall {A B C} (f : A -> C -> A) (g : B -> C) l s,
  fold_left (fun s x => f s (g x)) l s = fold_left f (map g l) s.
Proof. induction l; intros; cbn; auto. Qed.

Lemma fold_left_flat_map : forall {A B C} (f : A -> C -> A) (g : B -> list C) l s,
  fold_left (fun s x => fold_left f (g x) s) l s = fold_left f (flat_map g l) s.
Proof. induction l; intros; cbn; auto. rewrite fold_left_app. apply IHl. Qed.

Lemma fold_left_ext : forall {A B} (f g : A -> B -> A) l s, (forall s x, f s x = g s x) -> fold_left f l s = fold_left g l s.
Proof. induction l; intros; cbn; auto. rewrite H. apply IHl. exact H. Qed.

Lemma tree_step_block : forall nvmax adr num aw s t,
  tree_step nvmax adr num aw s t = fold_left (dof_step nvmax) (tree_block adr num aw t) s.
Proof.
  intros. unfold tree_step, tree_block. destruct (cget aw t =? 1); [|reflexivity].
  apply (fold_left_map (dof_step nvmax) (fun j => cget adr t + j)).
Qed.

Lemma compact_loop_flat : forall nvmax ntree adr num aw s,
  fold_left (tree_step nvmax adr num aw) (zseq ntree) s = fold_left (dof_step nvmax) (awake_dofs ntree adr num aw) s.
Proof.
  intros. unfold awake_dofs. rewrite <- fold_left_flat_map.
  apply fold_left_ext. intros. apply tree_step_block.
Qed.

(* ================= the compaction invariant ================= *)
Lemma nth_repeat_lt : forall {T} (v d : T) n i, (i < n)%nat -> nth i (repeat v n) d = v.
Proof. induction n; intros i H; [lia|]. destruct i; cbn; [reflexivity|apply IHn; lia]. Qed.

Lemma nth_repeat_any : forall {T} (v d : T) n i, nth i (repeat v n) d = if (i <? n)%nat then v else d.
Proof.
  induction n; intros i; [destruct i; reflexivity|]. destruct i; cbn [repeat nth]; [reflexivity|].
  rewrite IHn. reflexivity.
Qed.

Lemma cget_repeat : forall n v i, 0 <= i < Z.of_nat n -> cget (repeat v n) i = v.
Proof. intros. unfold cget, cgetd. apply nth_repeat_lt. lia. Qed.

Section Maps.
  Variables (nvmax nv nvp : Z).
  Hypothesis Hnvmax : 0 <= nvmax <= nvp.

  (* state after the dofs of the list p (in this order) have been visited *)
  Record CInv (p : list Z) (s : cstate) : Prop := {
    ci_count : count s = Z.of_nat (length p);
    ci_ldc : length (dc s) = Z.to_nat nv;
    ci_lcd : length (cd s) = Z.to_nat nvp;
    ci_range : forall x, In x p -> 0 <= x < nv;
    ci_fwd : forall k, (k < length p)%nat -> Z.of_nat k < nvmax ->
               cget (cd s) (Z.of_nat k) = nth k p 0 /\ cget (dc s) (nth k p 0) = Z.of_nat k;
    ci_dc_other : forall d, 0 <= d < nv -> (forall k, (k < length p)%nat -> Z.of_nat k < nvmax -> nth k p 0 <> d) ->
               cget (dc s) d = -1;
    ci_cd_other : forall c, 0 <= c < nvp -> Z.min (Z.of_nat (length p)) nvmax <= c -> cget (cd s) c = -1;
  }.

  Lemma CInv_init : CInv [] (mkC 0 (repeat (-1) (Z.to_nat nv)) (repeat (-1) (Z.to_nat nvp))).
  Proof.
    constructor; cbn [count dc cd length]; try rewrite repeat_length; try reflexivity.
    - intros x [].
    - intros k Hk. lia.
    - intros d Hd _. apply cget_repeat. lia.
    - intros c Hc _. apply cget_repeat. lia.
  Qed.

  Lemma CInv_step : forall p s d, CInv p s -> 0 <= d < nv -> ~ In d p -> CInv (p ++ [d]) (dof_step nvmax s d).
  Proof.
    intros p s d [Hc Hl1 Hl2 Hr Hf Ho1 Ho2] Hd Hnin. unfold dof_step.
    assert (forall x, In x (p ++ [d]) -> 0 <= x < nv) as Hr'.
    { intros x Hx. apply in_app_or in Hx. destruct Hx as [Hx|[<-|[]]]; [apply Hr; exact Hx|exact Hd]. }
    destruct (Z.ltb_spec (count s) nvmax) as [Hlt|Hge].
    - (* room left: both maps are written *)
      constructor; cbn [count dc cd]; rewrite ?cset_length, ?app_length; cbn [length]; try lia; try assumption.
      + intros k Hk Hkn. destruct (Nat.eq_dec k (length p)) as [->|Hne].
        * rewrite app_nth2 by lia. rewrite Nat.sub_diag. cbn [nth]. rewrite <- Hc. unfold cget. split.
          -- apply cgetd_cset_eq. lia.
          -- apply cgetd_cset_eq. lia.
        * assert (k < length p)%nat as Hk' by lia. rewrite app_nth1 by lia.
          destruct (Hf k Hk' Hkn) as [F1 F2]. unfold cget in *.
          assert (In (nth k p 0) p) as HIn by (apply nth_In; exact Hk').
          pose proof (Hr _ HIn) as Hrng.
          assert (nth k p 0 <> d) by (intros E; apply Hnin; rewrite <- E; exact HIn).
          split.
          -- rewrite cgetd_cset_neq by lia. exact F1.
          -- rewrite cgetd_cset_neq by lia. exact F2.
      + intros d' Hd' Hno. unfold cget.
        assert (d' <> d).
        { intros ->. apply (Hno (length p)); [lia|lia|]. rewrite app_nth2 by lia. rewrite Nat.sub_diag. reflexivity. }
        rewrite cgetd_cset_neq by lia. apply Ho1; [exact Hd'|].
        intros k Hk Hkn E. apply (Hno k); [lia|exact Hkn|]. rewrite app_nth1 by lia. exact E.
      + intros c Hcr Hmin. unfold cget. rewrite cgetd_cset_neq by lia. apply Ho2; [exact Hcr|lia].
    - (* full: only the count advances *)
      constructor; cbn [count dc cd]; rewrite ?app_length; cbn [length]; try lia; try assumption.
      + intros k Hk Hkn. assert (k < length p)%nat as Hk' by lia. rewrite app_nth1 by lia. apply Hf; assumption.
      + intros d' Hd' Hno. apply Ho1; [exact Hd'|]. intros k Hk Hkn E. apply (Hno k); [lia|exact Hkn|].
        rewrite app_nth1 by lia. exact E.
      + intros c Hcr Hmin. apply Ho2; [exact Hcr|lia].
  Qed.

  Lemma CInv_fold : forall q p s, CInv p s -> NoDup (p ++ q) -> (forall x, In x q -> 0 <= x < nv) ->
    CInv (p ++ q) (fold_left (dof_step nvmax) q s).
  Proof.
    induction q as [|d q IH]; intros p s H ND Hq.
    - rewrite app_nil_r. exact H.
    - cbn [fold_left]. replace (p ++ d :: q) with ((p ++ [d]) ++ q) by (rewrite <- app_assoc; reflexivity).
      apply IH.
      + apply CInv_step; [exact H|apply Hq; now left|].
        apply NoDup_remove_2 in ND. intros Hin. apply ND. apply in_or_app. now left.
      + rewrite <- app_assoc. exact ND.
      + intros x Hx. apply Hq. now right.
  Qed.

  Lemma CInv_final : forall vs, NoDup vs -> (forall x, In x vs -> 0 <= x < nv) ->
    CInv vs (fold_left (dof_step nvmax) vs (mkC 0 (repeat (-1) (Z.to_nat nv)) (repeat (-1) (Z.to_nat nvp)))).
  Proof. intros vs ND Hr. apply (CInv_fold vs [] _ CInv_init); assumption. Qed.
End Maps.

(* ================= tree tables ================= *)
Definition tends (adr num : list Z) (t : Z) : Z := cget adr t + cget num t.

(* the trees occupy increasing, pairwise disjoint dof ranges inside [0, nv) *)
Definition wf_trees (ntree nv : Z) (adr num : list Z) : Prop :=
  (forall t, 0 <= t < ntree -> 0 <= cget adr t /\ 0 <= cget num t /\ tends adr num t <= nv) /\
  (forall t, 0 <= t -> t + 1 < ntree -> tends adr num t <= cget adr (t + 1)).

(* ... and tile it exactly (MuJoCo: every dof belongs to exactly one tree, trees are contiguous) *)
Definition tile_trees (ntree nv : Z) (adr num : list Z) : Prop :=
  (forall t, 0 <= t < ntree -> 0 <= cget num t) /\
  (0 < ntree -> cget adr 0 = 0) /\
  (forall t, 0 <= t -> t + 1 < ntree -> cget adr (t + 1) = tends adr num t) /\
  (0 < ntree -> tends adr num (ntree - 1) = nv) /\ (ntree <= 0 -> nv <= 0).

Section Trees.
  Variables (ntree nv : Z) (adr num aw : list Z).

  Lemma awake_dofs_succ : forall n, 0 <= n ->
    awake_dofs (n + 1) adr num aw = awake_dofs n adr num aw ++ tree_block adr num aw n.
  Proof.
    intros n Hn. unfold awake_dofs. rewrite zseq_succ by exact Hn. rewrite flat_map_app. cbn. rewrite app_nil_r. reflexivity.
  Qed.

  Lemma in_block : forall t x, In x (tree_block adr num aw t) <-> cget aw t = 1 /\ cget adr t <= x < tends adr num t.
  Proof.
    intros t x. unfold tree_block, tends. destruct (Z.eqb_spec (cget aw t) 1) as [E|NE].
    - rewrite in_map_iff. split.
      + intros (j & <- & Hj). apply zseq_In in Hj. lia.
      + intros [_ H]. exists (x - cget adr t). split; [lia|]. apply zseq_In. lia.
    - split; [intros []|intros [E _]; contradiction].
  Qed.

  (* membership: d is visited iff it is a dof of an awake tree *)
  Lemma awake_In : forall n x, In x (awake_dofs n adr num aw) <->
    exists t, 0 <= t < n /\ cget aw t = 1 /\ cget adr t <= x < tends adr num t.
  Proof.
    intros n x. unfold awake_dofs. rewrite in_flat_map. split.
    - intros (t & Ht & Hx). exists t. apply zseq_In in Ht. apply in_block in Hx. tauto.
    - intros (t & Ht & Hx). exists t. split; [apply zseq_In; exact Ht|apply in_block; exact Hx].
  Qed.

  Hypothesis WF : wf_trees ntree nv adr num.

  Lemma tends_mono : forall t t', 0 <= t -> t < t' -> t' < ntree -> tends adr num t <= cget adr t'.
  Proof.
    intros t t' Ht Hlt Hn. destruct WF as [W1 W2].
    replace t' with (t + 1 + (t' - t - 1)) by lia.
    assert (0 <= t' - t - 1) as Hk by lia. assert (t + 1 + (t' - t - 1) < ntree) as Hb by lia.
    revert Hb. generalize (t' - t - 1) Hk. intros k Hk'. pattern k. apply natlike_ind; [| |exact Hk'].
    - intros Hb. rewrite Z.add_0_r. apply W2; lia.
    - intros x Hx IH Hb. specialize (IH ltac:(lia)).
      assert (tends adr num (t + 1 + x) <= cget adr (t + 1 + x + 1)) by (apply W2; lia).
      destruct (W1 (t + 1 + x) ltac:(lia)) as (_ & Hnum & _). unfold tends in *.
      replace (t + 1 + Z.succ x) with (t + 1 + x + 1) by lia. lia.
  Qed.

  Lemma awake_range : forall x, In x (awake_dofs ntree adr num aw) -> 0 <= x < nv.
  Proof.
    intros x Hx. apply awake_In in Hx. destruct Hx as (t & Ht & _ & Hx). destruct WF as [W1 _].
    destruct (W1 t Ht) as (A & B & C). lia.
  Qed.

  Lemma awake_incr_prefix : forall n, 0 <= n -> n <= ntree -> incr (awake_dofs n adr num aw).
  Proof.
    intros n Hn. pattern n. apply natlike_ind; [| |exact Hn].
    - intros _. unfold awake_dofs. cbn. apply incr_nil.
    - intros k Hk IH Hle. replace (Z.succ k) with (k + 1) by lia. rewrite awake_dofs_succ by exact Hk.
      apply incr_app.
      + apply IH. lia.
      + unfold tree_block. destruct (cget aw k =? 1); [apply incr_block|apply incr_nil].
      + intros x y Hx Hy. apply awake_In in Hx. destruct Hx as (t & Ht & _ & Hx). apply in_block in Hy.
        pose proof (tends_mono t k ltac:(lia) ltac:(lia) ltac:(lia)). lia.
  Qed.

  Lemma awake_incr : incr (awake_dofs ntree adr num aw).
  Proof.
    destruct (Z.le_gt_cases 0 ntree).
    - apply awake_incr_prefix; lia.
    - unfold awake_dofs. rewrite zseq_nonpos by lia. apply incr_nil.
  Qed.
End Trees.

Lemma awake_all_tiles : forall ntree nv adr num aw, tile_trees ntree nv adr num ->
  (forall t, 0 <= t < ntree -> cget aw t = 1) -> awake_dofs ntree adr num aw = zseq nv.
Proof.
  intros ntree nv adr num aw (T1 & T2 & T3 & T4 & T5) Haw.
  destruct (Z.le_gt_cases ntree 0) as [Hz|Hpos].
  - unfold awake_dofs. rewrite zseq_nonpos by lia. rewrite zseq_nonpos by (apply T5; lia). reflexivity.
  - assert (forall n, 0 <= n -> n + 1 <= ntree ->
              awake_dofs (n + 1) adr num aw = zseq (tends adr num n) /\ 0 <= cget adr n) as P.
    { intros n Hn. pattern n. apply natlike_ind; [| |exact Hn].
      - intros Hle. rewrite awake_dofs_succ by lia. unfold awake_dofs at 1. cbn [zseq Z.to_nat seq map flat_map app].
        unfold tree_block. rewrite Haw by lia. cbn [Z.eqb Pos.eqb]. unfold tends. rewrite (T2 Hpos).
        split; [|lia]. specialize (T1 0 ltac:(lia)).
        replace (cget num 0) with (0 + cget num 0) at 2 by lia. rewrite zseq_app by lia. reflexivity.
      - intros k Hk IH Hle. destruct (IH ltac:(lia)) as [IH1 IH2].
        replace (Z.succ k + 1) with ((k + 1) + 1) by lia. rewrite awake_dofs_succ by lia. rewrite IH1.
        replace (Z.succ k) with (k + 1) by lia.
        unfold tree_block. rewrite Haw by lia. cbn [Z.eqb Pos.eqb].
        rewrite (T3 k ltac:(lia) ltac:(lia)).
        pose proof (T1 k ltac:(lia)). pose proof (T1 (k + 1) ltac:(lia)).
        assert (0 <= tends adr num k) by (unfold tends; lia).
        split; [|lia]. unfold tends at 3. rewrite (T3 k ltac:(lia) ltac:(lia)). rewrite zseq_app by lia. reflexivity. }
    destruct (P (ntree - 1) ltac:(lia) ltac:(lia)) as [E _]. replace (ntree - 1 + 1) with ntree in E by lia.
    rewrite E, (T4 Hpos). reflexivity.
Qed.

(* ================= theorems about update_active_dofs ================= *)
Section CompactThm.
  Variables (ntree nv nvmax nvp ovf : Z) (adr num aw : list Z).
  Hypothesis Hnvmax : 0 <= nvmax <= nvp.
  Hypothesis WF : wf_trees ntree nv adr num.

  Let vs := awake_dofs ntree adr num aw.
  Let r := compact_dofs ntree adr num aw nvmax nv nvp ovf.
  Let nact := Z.of_nat (length vs).       (* number of active dofs *)

  Lemma compact_inv : CInv nvmax nv nvp vs (mkC (needed r) (dof_cdof r) (cdof_dof r)).
  Proof.
    unfold r, compact_dofs. rewrite compact_loop_flat. fold vs.
    pose proof (CInv_final nvmax nv nvp Hnvmax vs (incr_NoDup _ (awake_incr ntree nv adr num aw WF))
                  (awake_range ntree nv adr num aw WF)) as H.
    destruct (fold_left (dof_step nvmax) vs _) as [c a b] eqn:E.
    cbn [count dc cd] in *. destruct (c >? nvmax); cbn [needed dof_cdof cdof_dof]; exact H.
  Qed.

  (* the kernel's final count is the number of dofs of awake trees *)
  Theorem needed_is_active_count : needed r = nact.
  Proof. exact (ci_count _ _ _ _ _ compact_inv). Qed.

  Theorem ncdof_is_min : ncdof r = Z.min nact nvmax.
  Proof.
    pose proof needed_is_active_count as N. unfold r, compact_dofs in *.
    destruct (fold_left _ _ _) as [c a b]. cbn [count] in *.
    destruct (Z.gtb_spec c nvmax); cbn [ncdof needed] in *; lia.
  Qed.

  (* NVMAX overflow bit (entered clear) <-> more active dofs than capacity; the word is otherwise kept *)
  Theorem nvmax_bit_iff : Z.testbit ovf NVMAX_BIT = false ->
    (Z.testbit (overflow r) NVMAX_BIT = true <-> nact > nvmax).
  Proof.
    intros Hclr. pose proof needed_is_active_count as N. unfold r, compact_dofs in *.
    destruct (fold_left _ _ _) as [c a b]. cbn [count] in *.
    destruct (Z.gtb_spec c nvmax); cbn [overflow needed] in *.
    - rewrite Z.lor_spec. replace (Z.testbit NVMAX NVMAX_BIT) with true by reflexivity. rewrite orb_true_r. split; [lia|reflexivity].
    - rewrite Hclr. split; [discriminate|lia].
  Qed.

  Theorem overflow_word : overflow r = if nact >? nvmax then Z.lor ovf NVMAX else ovf.
  Proof.
    pose proof needed_is_active_count as N. unfold r, compact_dofs in *.
    destruct (fold_left _ _ _) as [c a b]. cbn [count] in *.
    destruct (Z.gtb_spec c nvmax), (Z.gtb_spec nact nvmax); cbn [overflow needed] in *; try reflexivity; lia.
  Qed.

  Theorem map_lengths : length (dof_cdof r) = Z.to_nat nv /\ length (cdof_dof r) = Z.to_nat nvp.
  Proof. split; [exact (ci_ldc _ _ _ _ _ compact_inv)|exact (ci_lcd _ _ _ _ _ compact_inv)]. Qed.

  (* d is a dof of an awake tree *)
  Definition awake_dof (d : Z) : Prop :=
    exists t, 0 <= t < ntree /\ cget aw t = 1 /\ cget adr t <= d < tends adr num t.

  Lemma awake_dof_In : forall d, awake_dof d <-> In d vs.
  Proof. intros. unfold awake_dof, vs. symmetry. apply awake_In. Qed.

  Lemma vs_index : forall d, In d vs -> exists k, (k < length vs)%nat /\ nth k vs 0 = d.
  Proof. intros d H. apply In_nth. exact H. Qed.

  (* ---- general form (also under overflow): the maps are mutually inverse on the first
          min(nact, nvmax) visited dofs and -1 elsewhere ---- *)
  Theorem compact_maps_prefix :
    (forall k, (k < length vs)%nat -> Z.of_nat k < nvmax ->
        cget (cdof_dof r) (Z.of_nat k) = nth k vs 0 /\ cget (dof_cdof r) (nth k vs 0) = Z.of_nat k) /\
    (forall d, 0 <= d < nv -> (forall k, (k < length vs)%nat -> Z.of_nat k < nvmax -> nth k vs 0 <> d) -> cget (dof_cdof r) d = -1) /\
    (forall c, Z.min nact nvmax <= c < nvp -> cget (cdof_dof r) c = -1).
  Proof.
    destruct compact_inv as [_ _ _ _ F O1 O2]. cbn [dc cd] in *. split; [exact F|]. split; [exact O1|].
    intros c Hc. apply O2; unfold nact in *; lia.
  Qed.

  (* ---- no overflow: the statement of DESIGN C38 ---- *)
  Hypothesis Hfit : nact <= nvmax.

  Theorem compact_maps_inverse :
    (* awake dofs: forward then backward is the identity, compacted ids fill [0, nact) *)
    (forall d, awake_dof d -> 0 <= cget (dof_cdof r) d < nact /\ cget (cdof_dof r) (cget (dof_cdof r) d) = d) /\
    (* compacted ids: backward then forward is the identity and lands on an awake dof *)
    (forall c, 0 <= c < nact -> awake_dof (cget (cdof_dof r) c) /\ cget (dof_cdof r) (cget (cdof_dof r) c) = c) /\
    (* -1 elsewhere *)
    (forall d, 0 <= d < nv -> ~ awake_dof d -> cget (dof_cdof r) d = -1) /\
    (forall c, nact <= c < nvp -> cget (cdof_dof r) c = -1) /\
    (* order preserving *)
    (forall d1 d2, awake_dof d1 -> awake_dof d2 -> d1 < d2 -> cget (dof_cdof r) d1 < cget (dof_cdof r) d2) /\
    ncdof r = nact.
  Proof.
    destruct compact_maps_prefix as (F & O1 & O2). unfold nact in *.
    assert (forall k, (k < length vs)%nat -> Z.of_nat k < nvmax) as Hall by (intros; lia).
    repeat split.
    - apply awake_dof_In in H. destruct (vs_index d H) as (k & Hk & <-). destruct (F k Hk (Hall k Hk)) as [_ E]. rewrite E. lia.
    - apply awake_dof_In in H. destruct (vs_index d H) as (k & Hk & <-). destruct (F k Hk (Hall k Hk)) as [_ E]. rewrite E. lia.
    - apply awake_dof_In in H. destruct (vs_index d H) as (k & Hk & <-). destruct (F k Hk (Hall k Hk)) as [E1 E]. rewrite E. exact E1.
    - apply awake_dof_In. assert (Z.to_nat c < length vs)%nat as Hk by lia.
      destruct (F _ Hk (Hall _ Hk)) as [E1 _]. replace (Z.of_nat (Z.to_nat c)) with c in E1 by lia. rewrite E1. apply nth_In. exact Hk.
    - assert (Z.to_nat c < length vs)%nat as Hk by lia.
      destruct (F _ Hk (Hall _ Hk)) as [E1 E2]. replace (Z.of_nat (Z.to_nat c)) with c in E1 by lia. rewrite E1, E2. lia.
    - intros d Hd Hna. apply O1; [exact Hd|]. intros k Hk _ E. apply Hna. apply awake_dof_In. rewrite <- E. apply nth_In. exact Hk.
    - intros c Hc. apply O2. lia.
    - intros d1 d2 H1 H2 Hlt. apply awake_dof_In in H1, H2.
      destruct (vs_index d1 H1) as (k1 & Hk1 & <-). destruct (vs_index d2 H2) as (k2 & Hk2 & <-).
      destruct (F k1 Hk1 (Hall k1 Hk1)) as [_ E1]. destruct (F k2 Hk2 (Hall k2 Hk2)) as [_ E2]. rewrite E1, E2.
      pose proof (awake_incr ntree nv adr num aw WF) as Inc. fold vs in Inc.
      destruct (Nat.lt_trichotomy k1 k2) as [L|[L|L]]; [lia|subst; lia|].
      specialize (Inc k2 k1 ltac:(lia)). lia.
    - rewrite ncdof_is_min. unfold nact. lia.
  Qed.
End CompactThm.

(* ---- every tree awake and enough capacity: both maps are the identity ---- *)
Theorem all_active_identity : forall ntree nv nvmax nvp ovf adr num aw,
  0 <= nvmax <= nvp -> wf_trees ntree nv adr num -> tile_trees ntree nv adr num ->
  (forall t, 0 <= t < ntree -> cget aw t = 1) -> nv <= nvmax ->
  let r := compact_dofs ntree adr num aw nvmax nv nvp ovf in
  ncdof r = Z.max nv 0 /\ overflow r = ovf /\
  (forall d, 0 <= d < nv -> cget (dof_cdof r) d = d /\ cget (cdof_dof r) d = d) /\
  (forall c, nv <= c < nvp -> 0 <= c -> cget (cdof_dof r) c = -1).
Proof.
  intros ntree nv nvmax nvp ovf adr num aw Hn WF TL Haw Hfit r.
  pose proof (awake_all_tiles ntree nv adr num aw TL Haw) as VS.
  destruct (compact_maps_prefix ntree nv nvmax nvp ovf adr num aw Hn WF) as (F & O1 & O2).
  fold r in F, O1, O2. rewrite VS in F, O1, O2. rewrite zseq_length in *.
  pose proof (ncdof_is_min ntree nv nvmax nvp ovf adr num aw Hn WF) as NC. fold r in NC. rewrite VS, zseq_length in NC.
  pose proof (overflow_word ntree nv nvmax nvp ovf adr num aw Hn WF) as OW. fold r in OW. rewrite VS, zseq_length in OW.
  split; [lia|]. split.
  - rewrite OW. destruct (Z.gtb_spec (Z.of_nat (Z.to_nat nv)) nvmax); [lia|reflexivity].
  - split.
    + intros d Hd. assert (Z.to_nat d < Z.to_nat nv)%nat as Hk by lia.
      destruct (F (Z.to_nat d) Hk ltac:(lia)) as [E1 E2]. rewrite zseq_nth in E1, E2 by exact Hk.
      replace (Z.of_nat (Z.to_nat d)) with d in * by lia. split; assumption.
    + intros c Hc Hc0. apply O2. lia.
Qed.

(* ================= gathers ================= *)
Section GatherThm.
  Context {T : Type}.
  Variables (zero one : T).

  Lemma fold_left_inv : forall {A B} (P : A -> Prop) (f : A -> B -> A) l s,
    P s -> (forall s x, In x l -> P s -> P (f s x)) -> P (fold_left f l s).
  Proof.
    induction l; intros s Hs Hstep; cbn; [exact Hs|].
    apply IHl; [apply Hstep; [now left|exact Hs]|]. intros s' x Hx. apply Hstep. now right.
  Qed.

  Lemma mget_mset_other : forall (m : mat) i j v i' j', 0 <= i' -> 0 <= j' -> (i <> i' \/ j <> j') ->
    mget zero (mset m i j v) i' j' = mget zero m i' j'.
  Proof.
    intros m i j v i' j' Hi Hj Hne. unfold mget, mset. rewrite cgetd_cset by exact Hi.
    destruct ((i =? i') && (0 <=? i) && (i <? Z.of_nat (length m))) eqn:E; [|reflexivity].
    assert (i = i') by lia. subst i'. rewrite cgetd_cset_neq by lia. reflexivity.
  Qed.

  Lemma mget_init : forall ncdof nvp i j, 0 <= i < nvp -> 0 <= j < nvp ->
    mget zero (init_inertia zero one ncdof nvp) i j = if (i =? j) && (i >=? ncdof) then one else zero.
  Proof.
    intros. unfold mget, init_inertia. rewrite (cgetd_map_zseq _ nvp [] i) by lia. rewrite cgetd_map_zseq by lia. reflexivity.
  Qed.

  Lemma mget_zeros : forall rows cols i j, mget zero (zeros zero rows cols) i j = zero.
  Proof.
    intros. unfold mget, zeros, cgetd. rewrite nth_repeat_any.
    destruct (Z.to_nat i <? Z.to_nat rows)%nat.
    - rewrite nth_repeat_any. destruct (Z.to_nat j <? Z.to_nat cols)%nat; reflexivity.
    - destruct (Z.to_nat j); reflexivity.
  Qed.

  (* the gather of M writes only entries (ci, cj) with both compacted ids produced by dof_cdof;
     if these are all below n, every entry with a row or column index >= n keeps its initial value.
     M_colind entries of the rows that are read must be dof ids. *)
  Theorem gather_M_outside : forall nv rownnz rowadr colind (M : list T) dofc cM0 n,
    (forall d, 0 <= d < nv -> cget dofc d < n) ->
    (forall t k, 0 <= t < nv -> 0 <= k < cget rownnz t -> 0 <= cget colind (cget rowadr t + k) < nv) ->
    forall i j, 0 <= i -> 0 <= j -> (n <= i \/ n <= j) ->
    mget zero (gather_M zero nv rownnz rowadr colind M dofc cM0) i j = mget zero cM0 i j.
  Proof.
    intros nv rownnz rowadr colind M dofc cM0 n Hb Hcol i j Hi Hj Hout. unfold gather_M.
    apply (fold_left_inv (fun cM => mget zero cM i j = mget zero cM0 i j)); [reflexivity|].
    intros cM t Ht HP. apply zseq_In in Ht. unfold gather_M_task. destruct (cget dofc t <? 0) eqn:E; [exact HP|].
    apply (fold_left_inv (fun cM => mget zero cM i j = mget zero cM0 i j)); [exact HP|].
    intros cM' k Hk HP'. apply zseq_In in Hk. cbv zeta.
    destruct (cget dofc (cget colind (cget rowadr t + k)) >=? 0) eqn:E2; [|exact HP'].
    pose proof (Hb t Ht). pose proof (Hb _ (Hcol t k Ht Hk)).
    rewrite !mget_mset_other by lia. exact HP'.
  Qed.

  Theorem gather_J_dense_outside : forall njmax nefc nv nvp dofc (J : mat) n,
    (forall d, 0 <= d < nv -> cget dofc d < n) ->
    forall r j, 0 <= r -> 0 <= j -> n <= j -> mget zero (gather_J_dense zero njmax nefc nv nvp dofc J) r j = zero.
  Proof.
    intros njmax nefc nv nvp dofc J n Hb r j Hr Hj Hout. unfold gather_J_dense.
    apply (fold_left_inv (fun cJ => mget zero cJ r j = zero)); [apply mget_zeros|].
    intros cJ e _ HP. unfold gather_J_dense_task. destruct (e >=? nefc); [exact HP|].
    apply (fold_left_inv (fun cJ => mget zero cJ r j = zero)); [exact HP|].
    intros cJ' c Hc HP'. apply zseq_In in Hc. cbv zeta. destruct (cget dofc c >=? 0) eqn:E; [|exact HP'].
    pose proof (Hb c Hc). rewrite mget_mset_other by lia. exact HP'.
  Qed.

  Theorem gather_J_sparse_outside : forall njmax nefc nv nvp dofc rownnz rowadr colind (J : list T) n,
    (forall d, 0 <= d < nv -> cget dofc d < n) ->
    (forall e k, 0 <= e < njmax -> 0 <= k < cget rownnz e -> 0 <= cget colind (cget rowadr e + k) < nv) ->
    forall r j, 0 <= r -> 0 <= j -> n <= j ->
    mget zero (gather_J_sparse zero njmax nefc nvp dofc rownnz rowadr colind J) r j = zero.
  Proof.
    intros njmax nefc nv nvp dofc rownnz rowadr colind J n Hb Hcol r j Hr Hj Hout. unfold gather_J_sparse.
    apply (fold_left_inv (fun cJ => mget zero cJ r j = zero)); [apply mget_zeros|].
    intros cJ e He HP. apply zseq_In in He. unfold gather_J_sparse_task. destruct (e >=? nefc); [exact HP|].
    apply (fold_left_inv (fun cJ => mget zero cJ r j = zero)); [exact HP|].
    intros cJ' k Hk HP'. apply zseq_In in Hk. cbv zeta.
    destruct (cget dofc (cget colind (cget rowadr e + k)) >=? 0) eqn:E; [|exact HP'].
    pose proof (Hb _ (Hcol e k He Hk)). rewrite mget_mset_other by lia. exact HP'.
  Qed.

  (* vectors *)
  Theorem gather_vec_spec : forall nvp cdofd (v : list T) c, 0 <= c < nvp ->
    cgetd zero (gather_vec zero nvp cdofd v) c = if cget cdofd c >=? 0 then cgetd zero v (cget cdofd c) else zero.
  Proof. intros. unfold gather_vec. rewrite cgetd_map_zseq by lia. reflexivity. Qed.

  Theorem scatter_vec_spec : forall nv dofc (x : list T) i, 0 <= i < nv ->
    cgetd zero (scatter_vec zero nv dofc x) i = if cget dofc i >=? 0 then cgetd zero x (cget dofc i) else zero.
  Proof. intros. unfold scatter_vec. rewrite cgetd_map_zseq by lia. reflexivity. Qed.

  (* frozen dofs: an inactive dof (map entry -1) receives exactly zero *)
  Theorem frozen_zero_vec : forall nv dofc (x : list T) i, 0 <= i < nv -> cget dofc i < 0 ->
    cgetd zero (scatter_vec zero nv dofc x) i = zero.
  Proof. intros. rewrite scatter_vec_spec by lia. replace (cget dofc i >=? 0) with false by lia. reflexivity. Qed.
End GatherThm.

Lemma classic_index : forall (vs : list Z) nvmax d,
  (exists k, (k < length vs)%nat /\ Z.of_nat k < nvmax /\ nth k vs 0 = d) \/
  (forall k, (k < length vs)%nat -> Z.of_nat k < nvmax -> nth k vs 0 <> d).
Proof.
  intros vs nvmax d.
  assert (forall n, (exists k, (k < n)%nat /\ Z.of_nat k < nvmax /\ nth k vs 0 = d) \/
                    (forall k, (k < n)%nat -> Z.of_nat k < nvmax -> nth k vs 0 <> d)) as H.
  { induction n as [|n [(k & A & B & C)|IH]].
    - right. intros; lia.
    - left. exists k. repeat split; try assumption; lia.
    - destruct (Z.eq_dec (nth n vs 0) d) as [E|NE], (Z_lt_dec (Z.of_nat n) nvmax) as [L|NL].
      + left. exists n. repeat split; try assumption; lia.
      + right. intros k Hk Hkn. destruct (Nat.eq_dec k n) as [->|]; [lia|apply IH; [lia|exact Hkn]].
      + right. intros k Hk Hkn. destruct (Nat.eq_dec k n) as [->|]; [exact NE|apply IH; [lia|exact Hkn]].
      + right. intros k Hk Hkn. destruct (Nat.eq_dec k n) as [->|]; [exact NE|apply IH; [lia|exact Hkn]]. }
  apply H.
Qed.

(* every entry of dof_cdof (read at any index, in range or not) is below max(ncdof, 1)... we need < ncdof:
   in-range entries are -1 or a compacted id below min(nact, nvmax) *)
Lemma dofc_bounded : forall ntree nv nvmax nvp ovf adr num aw,
  0 <= nvmax <= nvp -> wf_trees ntree nv adr num ->
  let r := compact_dofs ntree adr num aw nvmax nv nvp ovf in
  forall d, 0 <= d < nv -> -1 <= cget (dof_cdof r) d < ncdof r.
Proof.
  intros ntree nv nvmax nvp ovf adr num aw Hn WF r d Hd.
  destruct (compact_maps_prefix ntree nv nvmax nvp ovf adr num aw Hn WF) as (F & O1 & _). fold r in F, O1.
  pose proof (ncdof_is_min ntree nv nvmax nvp ovf adr num aw Hn WF) as NC. fold r in NC.
  set (vs := awake_dofs ntree adr num aw) in *.
  destruct (classic_index vs nvmax d) as [(k & Hk & Hkn & E)|Hno].
  - destruct (F k Hk Hkn) as [_ E2]. rewrite E in E2. rewrite E2, NC. lia.
  - rewrite (O1 d Hd Hno). rewrite NC. pose proof (Zle_0_nat (length vs)). lia.
Qed.

(* ================= the padded problem built by _compact_gather ================= *)
Section Padding.
  Context {T : Type}.
  Variables (zero one : T).
  Variables (ntree nv nvmax nvp ovf : Z) (adr num aw : list Z).
  Hypothesis Hnvmax : 0 <= nvmax <= nvp.
  Hypothesis WF : wf_trees ntree nv adr num.
  Let r := compact_dofs ntree adr num aw nvmax nv nvp ovf.

  (* cM = (gathered active block) (+) identity on [ncdof, nvmax_pad) *)
  Theorem compact_inertia_padding : forall rownnz rowadr colind (M : list T),
    (forall t k, 0 <= t < nv -> 0 <= k < cget rownnz t -> 0 <= cget colind (cget rowadr t + k) < nv) ->
    forall i j, 0 <= i < nvp -> 0 <= j < nvp -> (ncdof r <= i \/ ncdof r <= j) ->
    mget zero (compact_inertia zero one nv nvp (ncdof r) rownnz rowadr colind M (dof_cdof r)) i j
    = if i =? j then one else zero.
  Proof.
    intros rownnz rowadr colind M Hcol i j Hi Hj Hout. unfold compact_inertia.
    rewrite (gather_M_outside zero nv rownnz rowadr colind M (dof_cdof r) _ (ncdof r)); try lia; try assumption.
    - rewrite mget_init by lia. destruct (Z.eqb_spec i j); [subst; replace (j >=? ncdof r) with true by lia; reflexivity|reflexivity].
    - intros d Hd. apply (dofc_bounded ntree nv nvmax nvp ovf adr num aw Hnvmax WF d Hd).
  Qed.

  (* cJ = (gathered active columns) (+) zero columns *)
  Theorem compact_J_dense_padding : forall njmax nefc (J : mat) e j, 0 <= e -> 0 <= j -> ncdof r <= j ->
    mget zero (gather_J_dense zero njmax nefc nv nvp (dof_cdof r) J) e j = zero.
  Proof.
    intros. apply (gather_J_dense_outside zero njmax nefc nv nvp (dof_cdof r) J (ncdof r)); try assumption.
    intros d Hd. apply (dofc_bounded ntree nv nvmax nvp ovf adr num aw Hnvmax WF d Hd).
  Qed.

  Theorem compact_J_sparse_padding : forall njmax nefc rownnz rowadr colind (J : list T),
    (forall e k, 0 <= e < njmax -> 0 <= k < cget rownnz e -> 0 <= cget colind (cget rowadr e + k) < nv) ->
    forall e j, 0 <= e -> 0 <= j -> ncdof r <= j ->
    mget zero (gather_J_sparse zero njmax nefc nvp (dof_cdof r) rownnz rowadr colind J) e j = zero.
  Proof.
    intros njmax nefc rownnz rowadr colind J Hcol e j He Hj Hout.
    apply (gather_J_sparse_outside zero njmax nefc nv nvp (dof_cdof r) rownnz rowadr colind J (ncdof r)); try assumption.
    intros d Hd. apply (dofc_bounded ntree nv nvmax nvp ovf adr num aw Hnvmax WF d Hd).
  Qed.

  (* gathered dof vectors are zero on the padding *)
  Theorem compact_vec_padding : forall (v : list T) c, ncdof r <= c < nvp -> 0 <= c ->
    cgetd zero (gather_vec zero nvp (cdof_dof r) v) c = zero.
  Proof.
    intros v c Hc Hc0. rewrite gather_vec_spec by lia.
    destruct (compact_maps_prefix ntree nv nvmax nvp ovf adr num aw Hnvmax WF) as (_ & _ & O2). fold r in O2.
    pose proof (ncdof_is_min ntree nv nvmax nvp ovf adr num aw Hnvmax WF) as NC. fold r in NC.
    rewrite O2 by lia. reflexivity.
  Qed.

  (* frozen dofs: a dof of a tree that is not awake gets exactly zero from the scatter
     (qacc, qfrc_constraint in _scatter_dof_vecs; qacc_smooth in _scatter_solution) *)
  Theorem frozen_zero : forall (x : list T) d, 0 <= d < nv -> ~ awake_dof ntree adr num aw d ->
    cgetd zero (scatter_vec zero nv (dof_cdof r) x) d = zero.
  Proof.
    intros x d Hd Hna. apply frozen_zero_vec; [exact Hd|].
    destruct (compact_maps_prefix ntree nv nvmax nvp ovf adr num aw Hnvmax WF) as (_ & O1 & _). fold r in O1.
    rewrite O1; [lia|exact Hd|].
    intros k Hk _ E. apply Hna. apply (awake_dof_In ntree adr num aw). rewrite <- E. apply nth_In. exact Hk.
  Qed.

  (* ... and an awake dof gets back the compacted entry that was gathered from it (no overflow) *)
  Theorem scatter_gather_roundtrip : forall (v : list T) d,
    Z.of_nat (length (awake_dofs ntree adr num aw)) <= nvmax -> awake_dof ntree adr num aw d ->
    cgetd zero (scatter_vec zero nv (dof_cdof r) (gather_vec zero nvp (cdof_dof r) v)) d = cgetd zero v d.
  Proof.
    intros v d Hfit Ha.
    destruct (compact_maps_inverse ntree nv nvmax nvp ovf adr num aw Hnvmax WF Hfit) as (A & _). fold r in A.
    destruct (A d Ha) as [Hr E].
    assert (0 <= d < nv) as Hd.
    { apply (awake_dof_In ntree adr num aw) in Ha. apply (awake_range ntree nv adr num aw WF). exact Ha. }
    rewrite scatter_vec_spec by exact Hd. replace (cget (dof_cdof r) d >=? 0) with true by lia.
    rewrite gather_vec_spec by lia. rewrite E. replace (d >=? 0) with true by lia. reflexivity.
  Qed.
End Padding.

(* ================= the padded quadratic problem separates (over R) ================= *)
From Coq Require Import Reals Lra.
From VF Require Import Base.Scalar Base.ScalarR Gen.solver_term.
Local Open Scope R_scope.

Fixpoint rsum (f : nat -> R) (n : nat) : R := match n with O => 0 | S k => rsum f k + f k end.

Lemma rsum_ext : forall n f g, (forall i, (i < n)%nat -> f i = g i) -> rsum f n = rsum g n.
Proof. induction n; intros f g H; cbn; [reflexivity|]. rewrite (IHn f g), H by (intros; try apply H; lia). reflexivity. Qed.

Lemma rsum_zero : forall n f, (forall i, (i < n)%nat -> f i = 0) -> rsum f n = 0.
Proof. induction n; intros f H; cbn; [reflexivity|]. rewrite IHn, H by (intros; try apply H; lia). lra. Qed.

Lemma rsum_split : forall n p f, rsum f (n + p) = rsum f n + rsum (fun k => f (n + k)%nat) p.
Proof.
  induction p; intros f; cbn.
  - rewrite Nat.add_0_r. lra.
  - replace (n + S p)%nat with (S (n + p)) by lia. cbn. rewrite IHp. lra.
Qed.

Lemma rsum_plus : forall n f g, rsum (fun i => f i + g i) n = rsum f n + rsum g n.
Proof. induction n; intros; cbn; [lra|]. rewrite IHn. lra. Qed.

Lemma rsum_single : forall n i g, rsum (fun j => if Nat.eqb i j then g j else 0) n = if (i <? n)%nat then g i else 0.
Proof.
  induction n; intros i g; cbn [rsum]; [reflexivity|]. rewrite IHn.
  destruct (Nat.eqb_spec i n) as [->|NE].
  - replace (n <? n)%nat with false by (symmetry; apply Nat.ltb_irrefl). replace (n <? S n)%nat with true by (symmetry; apply Nat.ltb_lt; lia). lra.
  - destruct (Nat.ltb_spec i n), (Nat.ltb_spec i (S n)); try lra; lia.
Qed.

Lemma rsum_nonneg : forall n f, (forall i, (i < n)%nat -> 0 <= f i) -> 0 <= rsum f n.
Proof. induction n; intros f H; cbn; [lra|]. pose proof (IHn f ltac:(intros; apply H; lia)). pose proof (H n ltac:(lia)). lra. Qed.

Lemma rsum_nonneg_zero : forall n f, (forall i, (i < n)%nat -> 0 <= f i) -> rsum f n = 0 -> forall i, (i < n)%nat -> f i = 0.
Proof.
  induction n; intros f H E i Hi; [lia|]. cbn in E.
  pose proof (rsum_nonneg n f ltac:(intros; apply H; lia)). pose proof (H n ltac:(lia)).
  destruct (Nat.eq_dec i n) as [->|]; [lra|]. apply IHn; try lia; [intros; apply H; lia|lra].
Qed.

Section Separable.
  (* vectors and matrices as functions of natural indices; N = nvmax_pad, n = ncdof *)
  Variables (n p : nat).
  Let N := (n + p)%nat.
  Variables (M : nat -> nat -> R) (b : nat -> R) (J : list (nat -> R)).
  Variable S : list R -> R.          (* ANY cost of the constraint rows J x (convex or not) *)

  Definition dotN (k : nat) (a x : nat -> R) : R := rsum (fun i => a i * x i) k.
  Definition quadN (k : nat) (x : nat -> R) : R := rsum (fun i => rsum (fun j => x i * M i j * x j) k) k.
  (* 1/2 x'Mx - b'x + S(Jx): the Gauss cost 1/2 (Mx - b)'(x - x0) + s(Jx - aref) with M x0 = b,
     up to the constant 1/2 b'x0 (the offset aref is folded into S) *)
  Definition costN (k : nat) (x : nat -> R) : R :=
    / 2 * quadN k x - dotN k b x + S (map (fun row => dotN k row x) J).

  Hypothesis HM : forall i j, (i < N)%nat -> (j < N)%nat -> (n <= i \/ n <= j)%nat -> M i j = if Nat.eqb i j then 1 else 0.
  Hypothesis Hb : forall i, (n <= i < N)%nat -> b i = 0.
  Hypothesis HJ : forall row, In row J -> forall j, (n <= j < N)%nat -> row j = 0.

  Lemma dot_pad : forall a x, (forall i, (n <= i < N)%nat -> a i = 0) -> dotN N a x = dotN n a x.
  Proof.
    intros a x Ha. unfold dotN, N. rewrite rsum_split. rewrite (rsum_zero p); [lra|].
    intros i Hi. rewrite Ha by (unfold N; lia). lra.
  Qed.

  Lemma quad_pad : forall x, quadN N x = quadN n x + rsum (fun k => x (n + k)%nat * x (n + k)%nat) p.
  Proof.
    intros x. unfold quadN, N. rewrite rsum_split. f_equal.
    - apply rsum_ext. intros i Hi. rewrite rsum_split. rewrite (rsum_zero p); [lra|].
      intros k Hk. rewrite HM by (unfold N; lia). replace (Nat.eqb i (n + k)) with false by (symmetry; apply Nat.eqb_neq; lia). lra.
    - apply rsum_ext. intros k Hk.
      rewrite (rsum_ext (n + p) _ (fun j => if Nat.eqb (n + k) j then x (n + k)%nat * x j else 0)).
      + rewrite rsum_single. replace (n + k <? n + p)%nat with true by (symmetry; apply Nat.ltb_lt; lia). reflexivity.
      + intros j Hj. rewrite HM by (unfold N; lia). destruct (Nat.eqb (n + k) j); lra.
  Qed.

  (* the padded cost is the active cost plus 1/2 |z|^2 *)
  Theorem padded_problem_separable : forall x,
    costN N x = costN n x + / 2 * rsum (fun k => x (n + k)%nat * x (n + k)%nat) p.
  Proof.
    intros x. unfold costN. rewrite quad_pad, (dot_pad b x Hb).
    replace (map (fun row => dotN N row x) J) with (map (fun row => dotN n row x) J).
    - lra.
    - apply map_ext_in. intros row Hrow. symmetry. apply dot_pad. apply HJ. exact Hrow.
  Qed.

  Definition pad0 (x : nat -> R) : nat -> R := fun i => if (i <? n)%nat then x i else 0.

  Lemma cost_active_pad0 : forall x, costN n (pad0 x) = costN n x.
  Proof.
    intros x. unfold costN, quadN, dotN, pad0. f_equal; [f_equal; [f_equal|]|].
    - apply rsum_ext. intros i Hi. apply rsum_ext. intros j Hj.
      replace (i <? n)%nat with true by (symmetry; apply Nat.ltb_lt; lia).
      replace (j <? n)%nat with true by (symmetry; apply Nat.ltb_lt; lia). reflexivity.
    - apply rsum_ext. intros i Hi. replace (i <? n)%nat with true by (symmetry; apply Nat.ltb_lt; lia). reflexivity.
    - f_equal. apply map_ext. intros row. apply rsum_ext. intros i Hi.
      replace (i <? n)%nat with true by (symmetry; apply Nat.ltb_lt; lia). reflexivity.
  Qed.

  (* zeroing the padding never increases the cost, and strictly decreases it unless the padding is zero *)
  Theorem padded_minimiser_has_zero_padding : forall x,
    costN N (pad0 x) <= costN N x /\ (costN N (pad0 x) = costN N x -> forall k, (k < p)%nat -> x (n + k)%nat = 0).
  Proof.
    intros x. rewrite !padded_problem_separable, cost_active_pad0.
    assert (rsum (fun k => pad0 x (n + k)%nat * pad0 x (n + k)%nat) p = 0) as Z0.
    { apply rsum_zero. intros i Hi. unfold pad0. replace (n + i <? n)%nat with false by (symmetry; apply Nat.ltb_ge; lia). lra. }
    rewrite Z0.
    assert (forall i, (i < p)%nat -> 0 <= x (n + i)%nat * x (n + i)%nat) as Hsq by (intros; nra).
    pose proof (rsum_nonneg p _ Hsq). split; [lra|].
    intros E k Hk. assert (rsum (fun k => x (n + k)%nat * x (n + k)%nat) p = 0) as E0 by lra.
    pose proof (rsum_nonneg_zero p _ Hsq E0 k Hk) as Hz. cbv beta in Hz. nra.
  Qed.

  (* (argmin of the active cost, 0) minimises the padded cost *)
  Theorem padded_argmin : forall a, (forall y, costN n a <= costN n y) -> forall x, costN N (pad0 a) <= costN N x.
  Proof.
    intros a Hmin x. destruct (padded_minimiser_has_zero_padding x) as [Hx _].
    rewrite padded_problem_separable, cost_active_pad0.
    assert (rsum (fun k => pad0 a (n + k)%nat * pad0 a (n + k)%nat) p = 0) as Z0.
    { apply rsum_zero. intros i Hi. unfold pad0. replace (n + i <? n)%nat with false by (symmetry; apply Nat.ltb_ge; lia). lra. }
    rewrite Z0. rewrite padded_problem_separable in Hx. rewrite cost_active_pad0 in Hx.
    assert (rsum (fun k => pad0 x (n + k)%nat * pad0 x (n + k)%nat) p = 0) as Z1.
    { apply rsum_zero. intros i Hi. unfold pad0. replace (n + i <? n)%nat with false by (symmetry; apply Nat.ltb_ge; lia). lra. }
    rewrite Z1 in Hx. pose proof (Hmin x). lra.
  Qed.
End Separable.

(* the separability theorem applied to the arrays _compact_gather builds (dense-J path; values in R) *)
Theorem compact_gather_separable :
  forall (ntree nv nvmax nvp ovf : Z) (adr num aw rownnz rowadr colind : list Z) (Mv : list R)
         (njmax nefc : Z) (Jd : list (list R)) (qfrc : list R) (S : list R -> R) (x : nat -> R),
  (0 <= nvmax <= nvp)%Z -> wf_trees ntree nv adr num ->
  (forall t k, (0 <= t < nv)%Z -> (0 <= k < cget rownnz t)%Z -> (0 <= cget colind (cget rowadr t + k) < nv)%Z) ->
  let r := compact_dofs ntree adr num aw nvmax nv nvp ovf in
  let n := Z.to_nat (ncdof r) in
  let p := (Z.to_nat nvp - n)%nat in
  let cM := compact_inertia 0 1 nv nvp (ncdof r) rownnz rowadr colind Mv (dof_cdof r) in
  let cb := gather_vec 0 nvp (cdof_dof r) qfrc in
  let cJ := gather_J_dense 0 njmax nefc nv nvp (dof_cdof r) Jd in
  let Mf := fun i j => mget 0 cM (Z.of_nat i) (Z.of_nat j) in
  let bf := fun i => cgetd 0 cb (Z.of_nat i) in
  let Jf := map (fun e => fun j => mget 0 cJ e (Z.of_nat j)) (zseq njmax) in
  costN Mf bf Jf S (n + p) x = costN Mf bf Jf S n x + / 2 * rsum (fun k => x (n + k)%nat * x (n + k)%nat) p.
Proof.
  intros ntree nv nvmax nvp ovf adr num aw rownnz rowadr colind Mv njmax nefc Jd qfrc S x Hn WF Hcol r n p cM cb cJ Mf bf Jf.
  pose proof (ncdof_is_min ntree nv nvmax nvp ovf adr num aw Hn WF) as NC. fold r in NC.
  assert (0 <= ncdof r <= nvp)%Z as Hnc by (rewrite NC; pose proof (Zle_0_nat (length (awake_dofs ntree adr num aw))); lia).
  assert (n + p = Z.to_nat nvp)%nat as HN by (unfold p, n; lia).
  apply padded_problem_separable.
  - intros i j Hi Hj Hout. unfold Mf, cM.
    rewrite (compact_inertia_padding 0 1 ntree nv nvmax nvp ovf adr num aw Hn WF rownnz rowadr colind Mv Hcol); try (fold r; unfold n in *; lia).
    replace (Z.of_nat i =? Z.of_nat j)%Z with (Nat.eqb i j) by lia. reflexivity.
  - intros i Hi. unfold bf, cb.
    apply (compact_vec_padding 0 ntree nv nvmax nvp ovf adr num aw Hn WF qfrc); fold r; unfold n in *; lia.
  - intros row Hrow j Hj. unfold Jf in Hrow. apply in_map_iff in Hrow. destruct Hrow as (e & <- & He). apply zseq_In in He.
    unfold cJ. apply (compact_J_dense_padding 0 ntree nv nvmax nvp ovf adr num aw Hn WF njmax nefc Jd); fold r; unfold n in *; lia.
Qed.

(* ================= tolerance rescaling ================= *)
(* solve_compact: ctol[i] = m.opt.tolerance[i] * (float(m.nv) / float(nvp))  (Model: compact_tolerance),
   computed from the CURRENT Model at every solve; ls_tolerance is passed through unchanged.
   The stock solver then runs with m.nv := nvmax_pad, opt.tolerance := ctol: its termination tests
     _rescale(nvmax_pad, meaninertia, value) < ctol   are the full solve's   _rescale(nv, ..) < tol.
   [_rescale] is the definition regenerated from solver.py (Gen/solver_term.v), at the real instance. *)
Theorem compact_tolerance_equiv : forall (nv nvp : Z) (mi value tol : R),
  (0 < nv)%Z -> (0 < nvp)%Z -> 0 < mi ->
  (sltb (_rescale nvp mi value) (compact_tolerance tol nv nvp) = true <-> sltb (_rescale nv mi value) tol = true).
Proof.
  intros nv nvp mi value tol Hnv Hnvp Hmi. unfold _rescale, compact_tolerance. sR. rewrite !Rltb_true.
  assert (0 < IZR nv) by (apply IZR_lt; exact Hnv). assert (0 < IZR nvp) by (apply IZR_lt; exact Hnvp).
  replace (value / (mi * IZR nvp)) with (value / (mi * IZR nv) * (IZR nv / IZR nvp)) by (field; lra).
  assert (0 < IZR nv / IZR nvp) by (apply Rdiv_lt_0_compat; assumption).
  split; intros HH; nra.
Qed.

(* the linesearch gradient tolerance gtol = max(tolerance * ls_tolerance * snorm * meaninertia * nv, 1e-6)
   (Model: ls_gtol) is ALSO the full solve's: the factor nv/nvmax_pad carried by the tolerance cancels the
   kernel's nv = nvmax_pad, and ls_tolerance is not rescaled *)
Theorem compact_ls_gtol_equiv : forall (nv nvp : Z) (mi tol lstol snorm : R), (0 < nvp)%Z ->
  ls_gtol nvp mi (compact_tolerance tol nv nvp) lstol snorm = ls_gtol nv mi tol lstol snorm.
Proof.
  intros nv nvp mi tol lstol snorm Hnvp. unfold ls_gtol, compact_tolerance.
  assert (0 < IZR nvp) by (apply IZR_lt; exact Hnvp).
  replace (smul (smul (smul (smul tol (sdiv (sofZ nv) (sofZ nvp))) lstol) snorm) (smul mi (sofZ nvp)))
    with (smul (smul (smul tol lstol) snorm) (smul mi (sofZ nv))); [reflexivity|].
  sR. field. lra.
Qed.

(* regression witness of the repaired defect: had ls_tolerance been rescaled by nv/nvmax_pad as well
   (the code before the fix), the compact linesearch tolerance would differ from the full solve's *)
Theorem ls_tolerance_must_not_be_rescaled : exists (nv nvp : Z) (mi tol lstol snorm : R),
  (0 < nv)%Z /\ nvp = nvmax_pad nv /\ 0 < mi /\
  ls_gtol nvp mi (compact_tolerance tol nv nvp) (compact_tolerance lstol nv nvp) snorm <> ls_gtol nv mi tol lstol snorm.
Proof.
  exists 8%Z, 16%Z, 1, 1, 1, 1. split; [lia|]. split; [reflexivity|]. split; [lra|].
  unfold ls_gtol, compact_tolerance. sR.
  replace (1 * (8 / 16) * (1 * (8 / 16)) * 1 * (1 * 16)) with 4 by field.
  replace (1 * 1 * 1 * (1 * 8)) with 8 by field.
  replace (1 / 1000000) with (/ 1000000) by field.
  unfold Rltb. destruct (Rlt_dec 4 (/ 1000000)) as [A|A]; destruct (Rlt_dec 8 (/ 1000000)) as [B|B]; lra.
Qed.

(* ================= worlds without constraint rows (nefc = 0) ================= *)
(* Over a sparse full model the sparse qfrc_constraint builders leave the buffer untouched when nefc = 0.
   _solve passes `m.is_sparse or _sparse_compact(ctx)` to _solve_init_dof, so under solve_compact (dense
   shadow model over a sparse full model) the compacted qfrc_constraint workspace is overwritten with
   zeros whatever it held (it is allocated with wp.empty) ... *)
Theorem nefc0_workspace_overwritten : forall {T} (zero : T) warmstart (ws sm garbage : list T) i d,
  (i < length garbage)%nat ->
  nth i (snd (solve_init_dof zero warmstart (init_dof_sparse_flag false true) 0 ws sm garbage)) d = zero.
Proof.
  intros T zero warmstart ws sm garbage i d Hi. unfold solve_init_dof, init_dof_sparse_flag. cbn [orb andb Z.eqb snd].
  rewrite (nth_indep _ d zero) by (rewrite map_length; exact Hi).
  rewrite (map_nth (fun _ => zero) garbage zero). reflexivity.
Qed.

(* ... whereas with the shadow model's own flag (False, the code before the fix) it would survive *)
Theorem nefc0_dense_flag_keeps_workspace : forall {T} (zero : T) warmstart (ws sm garbage : list T),
  snd (solve_init_dof zero warmstart false 0 ws sm garbage) = garbage.
Proof. reflexivity. Qed.

(* io._nvmax_pad: a multiple of 16 strictly above max(nvmax, 1) - 1, i.e. >= nvmax + 1 (the augmented column) *)
Theorem nvmax_pad_spec : forall nvmax : Z, (0 <= nvmax)%Z ->
  (nvmax < nvmax_pad nvmax /\ nvmax_pad nvmax <= Z.max nvmax 1 + 16 /\ (nvmax_pad nvmax) mod 16 = 0)%Z.
Proof.
  intros nvmax H. unfold nvmax_pad.
  pose proof (Z.div_mod (Z.max nvmax 1 + 16) 16 ltac:(lia)). pose proof (Z.mod_pos_bound (Z.max nvmax 1 + 16) 16 ltac:(lia)).
  split; [lia|]. split; [lia|]. apply Z.mod_mul. lia.
Qed.

(* non-vacuity / sanity: the maps of a 4-tree model (arm 2, free 6, free 6, slide 1), tree 1 asleep *)
Example compact_example :
  obs_compact (compact_dofs 4 [0;2;8;14]%Z [2;6;6;1]%Z [1;0;1;1]%Z 9 15 16 0)
  = ([9; 0] ++ [0;1;-1;-1;-1;-1;-1;-1;2;3;4;5;6;7;8] ++ [0;1;8;9;10;11;12;13;14;-1;-1;-1;-1;-1;-1;-1])%Z
  /\ wf_trees 4 15 [0;2;8;14]%Z [2;6;6;1]%Z /\ tile_trees 4 15 [0;2;8;14]%Z [2;6;6;1]%Z.
Proof.
  split; [vm_compute; reflexivity|]. split.
  - split.
    + intros t Ht. assert (t = 0 \/ t = 1 \/ t = 2 \/ t = 3)%Z as [ -> | [ -> | [ -> | -> ] ] ] by lia; vm_compute; intuition discriminate.
    + intros t Ht Ht2. assert (t = 0 \/ t = 1 \/ t = 2)%Z as [ -> | [ -> | -> ] ] by lia; vm_compute; discriminate.
  - repeat split.
    + intros t Ht. assert (t = 0 \/ t = 1 \/ t = 2 \/ t = 3)%Z as [ -> | [ -> | [ -> | -> ] ] ] by lia; vm_compute; discriminate.
    + intros t Ht Ht2. assert (t = 0 \/ t = 1 \/ t = 2)%Z as [ -> | [ -> | -> ] ] by lia; reflexivity.
    + lia.
Qed.

(* ================= the reset of the maps (they persist on Data between calls) ================= *)
Local Open Scope Z_scope.
Lemma fold_reset_component : forall (n : Z) dimn (l0 : list Z),
  let f := fun (l : list Z) idx => if idx <? n then cset l idx (-1) else l in
  length (fold_left f (zseq (Z.of_nat dimn)) l0) = length l0 /\
  forall j, (j < length l0)%nat ->
    nth j (fold_left f (zseq (Z.of_nat dimn)) l0) 0 = if (Z.of_nat j <? Z.min (Z.of_nat dimn) n) then -1 else nth j l0 0.
Proof.
  intros n dimn l0 f. induction dimn as [|k IH].
  - cbn. split; [reflexivity|]. intros j Hj. destruct (Z.ltb_spec (Z.of_nat j) (Z.min 0 n)); [lia|reflexivity].
  - replace (Z.of_nat (S k)) with (Z.of_nat k + 1) by lia. rewrite zseq_succ by lia. rewrite fold_left_app. cbn [fold_left].
    destruct IH as [IL IN]. set (l := fold_left f (zseq (Z.of_nat k)) l0) in *. unfold f.
    destruct (Z.ltb_spec (Z.of_nat k) n) as [Hk|Hk].
    + split; [rewrite cset_length; exact IL|]. intros j Hj.
      change (nth j (cset l (Z.of_nat k) (-1)) 0) with (cgetd 0 (cset l (Z.of_nat k) (-1)) (Z.of_nat j)) at 1 || idtac.
      assert (nth j (cset l (Z.of_nat k) (-1)) 0 = cgetd 0 (cset l (Z.of_nat k) (-1)) (Z.of_nat j)) as E by (unfold cgetd; rewrite Nat2Z.id; reflexivity).
      rewrite E, cgetd_cset by lia.
      destruct (Z.eqb_spec (Z.of_nat k) (Z.of_nat j)) as [Ekj|Nkj].
      * replace (0 <=? Z.of_nat k) with true by lia. replace (Z.of_nat k <? Z.of_nat (length l)) with true by lia. cbn [andb].
        destruct (Z.ltb_spec (Z.of_nat j) (Z.min (Z.of_nat k + 1) n)); [reflexivity|lia].
      * cbn [andb]. unfold cgetd. rewrite Nat2Z.id. rewrite IN by exact Hj.
        destruct (Z.ltb_spec (Z.of_nat j) (Z.min (Z.of_nat k) n)), (Z.ltb_spec (Z.of_nat j) (Z.min (Z.of_nat k + 1) n)); try reflexivity; lia.
    + split; [exact IL|]. intros j Hj. rewrite IN by exact Hj.
      destruct (Z.ltb_spec (Z.of_nat j) (Z.min (Z.of_nat k) n)), (Z.ltb_spec (Z.of_nat j) (Z.min (Z.of_nat k + 1) n)); try reflexivity; lia.
Qed.

Lemma reset_maps_components : forall dim nv nvp dc0 cd0,
  reset_maps dim nv nvp dc0 cd0 =
  (fold_left (fun l idx => if idx <? nv then cset l idx (-1) else l) (zseq dim) dc0,
   fold_left (fun l idx => if idx <? nvp then cset l idx (-1) else l) (zseq dim) cd0).
Proof.
  intros dim nv nvp. unfold reset_maps. generalize (zseq dim). induction l; intros dc0 cd0; cbn [fold_left fst snd]; [reflexivity|apply IHl].
Qed.

(* launched over max(nv, nvmax_pad) the reset clears EVERY entry of both maps, whatever they held *)
Theorem reset_maps_full : forall nv nvp dc0 cd0, 0 <= nv -> 0 <= nvp ->
  length dc0 = Z.to_nat nv -> length cd0 = Z.to_nat nvp ->
  reset_maps (reset_dim nv nvp) nv nvp dc0 cd0 = (repeat (-1) (Z.to_nat nv), repeat (-1) (Z.to_nat nvp)).
Proof.
  intros nv nvp dc0 cd0 Hnv Hnvp L1 L2. rewrite reset_maps_components. unfold reset_dim.
  replace (Z.max nv nvp) with (Z.of_nat (Z.to_nat (Z.max nv nvp))) by lia.
  destruct (fold_reset_component nv (Z.to_nat (Z.max nv nvp)) dc0) as [A1 A2].
  destruct (fold_reset_component nvp (Z.to_nat (Z.max nv nvp)) cd0) as [B1 B2]. cbv zeta in *.
  f_equal; apply (nth_ext _ _ 0 0); rewrite ?repeat_length; try lia.
  - intros j Hj. rewrite A2 by lia. rewrite nth_repeat_lt by lia.
    destruct (Z.ltb_spec (Z.of_nat j) (Z.min (Z.of_nat (Z.to_nat (Z.max nv nvp))) nv)); [reflexivity|lia].
  - intros j Hj. rewrite B2 by lia. rewrite nth_repeat_lt by lia.
    destruct (Z.ltb_spec (Z.of_nat j) (Z.min (Z.of_nat (Z.to_nat (Z.max nv nvp))) nvp)); [reflexivity|lia].
Qed.

(* hence update_active_dofs does not depend on what the maps held: it IS compact_dofs, and every
   theorem above applies to a Data that is reused from step to step *)
Theorem update_active_dofs_stateless : forall ntree adr num aw nvmax nv nvp ovf dc0 cd0, 0 <= nv -> 0 <= nvp ->
  length dc0 = Z.to_nat nv -> length cd0 = Z.to_nat nvp ->
  update_active_dofs (reset_dim nv nvp) ntree adr num aw nvmax nv nvp ovf dc0 cd0 = compact_dofs ntree adr num aw nvmax nv nvp ovf.
Proof.
  intros. unfold update_active_dofs. rewrite reset_maps_full by assumption. reflexivity.
Qed.

(* in particular (nv > nvmax_pad included): after update_active_dofs every dof of a tree that is not
   awake maps to -1, whatever compacted id it held before *)
Theorem sleeping_dofs_unmapped : forall ntree adr num aw nvmax nv nvp ovf dc0 cd0,
  0 <= nvmax <= nvp -> 0 <= nv -> wf_trees ntree nv adr num ->
  length dc0 = Z.to_nat nv -> length cd0 = Z.to_nat nvp ->
  Z.of_nat (length (awake_dofs ntree adr num aw)) <= nvmax ->
  forall d, 0 <= d < nv -> ~ awake_dof ntree adr num aw d ->
  cget (dof_cdof (update_active_dofs (reset_dim nv nvp) ntree adr num aw nvmax nv nvp ovf dc0 cd0)) d = -1.
Proof.
  intros ntree adr num aw nvmax nv nvp ovf dc0 cd0 Hn Hnv WF L1 L2 Hfit d Hd Hna.
  rewrite update_active_dofs_stateless by (assumption || lia).
  destruct (compact_maps_inverse ntree nv nvmax nvp ovf adr num aw Hn WF Hfit) as (_ & _ & C & _). apply C; assumption.
Qed.

(* regression witness: launched over nvmax_pad only (nv = 20 > nvmax_pad = 16) a stale entry survives *)
Example reset_over_nvmax_pad_only_keeps_stale_entry :
  cget (dof_cdof (update_active_dofs 16 2 [0; 14] [14; 6] [0; 0] 12 20 16 0 (repeat 5 20) (repeat 7 16))) 18 = 5
  /\ cget (dof_cdof (update_active_dofs (reset_dim 20 16) 2 [0; 14] [14; 6] [0; 0] 12 20 16 0 (repeat 5 20) (repeat 7 16))) 18 = -1.
Proof. split; vm_compute; reflexivity. Qed.
