(* Proof/Blocks.v -- lemmas about Model/Blocks.v (C21 "Inertia factorization solves the inertia system").

   Part A  layout: m_block_layout's loop computes the declarative block table (kind + packed offset per
           block); the blocks tile [0,nv), packed regions tile [0,total), tile sets list each block once.
   Part F  the entry-count tests (compact / triangular) are exact.
   Part B  loops, finite sums, list-backed arrays; _small_cholesky_solve returns x with U^T (U x) = y (any n).
   Part G  compact (diagonal) blocks.
   Part C  _small_cholesky_factorize_block: U^T U = M for n = 1, 2, 3 (symbolic, positive leading minors).
   Part D  _solve_LD_sparse_fused on a serial chain inverts the stored L^T D L (any n).
   Part E  sparse factor on the 3-chain; end-to-end M x = y for n = 3 (dense and sparse paths). *)
From Coq Require Import ZArith Reals List Bool Lia Lra Psatz Permutation.
From VF Require Import Base.Scalar Base.ScalarR Base.Vec Base.Loop Model.Blocks.
Import ListNotations.

(* ======================================================================== part A *)
Local Open Scope Z_scope.

(* ------------------------------------------------------------------ tilings *)
Inductive blocks_tile : Z -> list (Z * Z) -> Z -> Prop :=
| bt_nil p : blocks_tile p [] p
| bt_cons p n r q : 0 < n -> blocks_tile (p + n) r q -> blocks_tile p ((p, n) :: r) q.

Lemma blocks_tile_le p l q : blocks_tile p l q -> p <= q.
Proof. induction 1; lia. Qed.

Lemma blocks_tile_in p l q : blocks_tile p l q ->
  forall s n, In (s, n) l -> p <= s /\ 0 < n /\ s + n <= q.
Proof.
  induction 1; intros s m Hin; [destruct Hin|].
  pose proof (blocks_tile_le _ _ _ H0).
  destruct Hin as [E|Hin]; [inversion E; subst; lia|].
  specialize (IHblocks_tile _ _ Hin). lia.
Qed.

Lemma blocks_tile_cover p l q : blocks_tile p l q ->
  forall d, p <= d < q -> exists s n, In (s, n) l /\ s <= d < s + n.
Proof.
  induction 1; intros d Hd; [lia|].
  destruct (Z_lt_dec d (p + n)).
  - exists p, n. split; [left; reflexivity|lia].
  - destruct (IHblocks_tile d) as (s & m & Hin & Hs); [lia|].
    exists s, m. split; [right; exact Hin|exact Hs].
Qed.

Lemma blocks_tile_disjoint p l q : blocks_tile p l q ->
  forall s1 n1 s2 n2 d, In (s1, n1) l -> In (s2, n2) l ->
    s1 <= d < s1 + n1 -> s2 <= d < s2 + n2 -> (s1, n1) = (s2, n2).
Proof.
  induction 1; intros s1 n1 s2 n2 d H1 H2 D1 D2; [destruct H1|].
  destruct H1 as [E1|H1], H2 as [E2|H2].
  - congruence.
  - inversion E1; subst. pose proof (blocks_tile_in _ _ _ H0 _ _ H2). lia.
  - inversion E2; subst. pose proof (blocks_tile_in _ _ _ H0 _ _ H1). lia.
  - eapply IHblocks_tile; eauto.
Qed.

Lemma blocks_tile_NoDup p l q : blocks_tile p l q -> NoDup (map fst l).
Proof.
  induction 1; simpl; constructor; auto.
  intro Hin. apply in_map_iff in Hin. destruct Hin as ([s m] & E & Hin). simpl in E; subst.
  pose proof (blocks_tile_in _ _ _ H0 _ _ Hin). lia.
Qed.

(* ------------------------------------------------------------------ block table *)
Inductive kind := KCompact | KScalar | KTile | KSparse.

Section Table.
  Variables smax dmax : Z.
  Variable m : lmodel.

  Definition block_kind (start size : Z) : kind :=
    if (size <=? smax) && (is_compact m start size || is_triangular m start size) then
      if is_compact m start size then KCompact else KScalar
    else if size <=? dmax then KTile else KSparse.
  Definition has_factor (k : kind) : bool := match k with KScalar | KTile => true | _ => false end.
  Definition is_scalar_kind (k : kind) : bool := match k with KCompact | KScalar => true | _ => false end.
  Definition is_tile_kind (k : kind) : bool := match k with KTile => true | _ => false end.
  Definition adr_value (k : kind) (off : Z) : Z :=
    match k with KCompact => Q_LD_BLOCK_COMPACT | KSparse => Q_LD_BLOCK_SPARSE | _ => off end.
  Definition next_off (k : kind) (off n : Z) : Z := if has_factor k then off + n * n else off.

  Definition entry := (Z * Z * kind * Z)%type.
  Fixpoint table (off : Z) (blocks : list (Z * Z)) : list entry :=
    match blocks with
    | [] => []
    | (s, n) :: r => let k := block_kind s n in (s, n, k, off) :: table (next_off k off n) r
    end.
  Fixpoint final_off (off : Z) (blocks : list (Z * Z)) : Z :=
    match blocks with
    | [] => off
    | (s, n) :: r => final_off (next_off (block_kind s n) off n) r
    end.
  Definition adr_of (tab : list entry) : list Z :=
    flat_map (fun e : entry => let '(s, n, k, off) := e in repeat (adr_value k off) (Z.to_nat n)) tab.
  Definition regions (tab : list entry) : list (Z * Z) :=
    map (fun e : entry => let '(s, n, k, off) := e in (off, n * n))
        (filter (fun e : entry => let '(s, n, k, off) := e in has_factor k) tab).
  Definition tab_dict (sel : kind -> bool) (d : dict) (tab : list entry) : dict :=
    fold_left (fun d (e : entry) => let '(s, n, k, off) := e in if sel k then dict_append d n s else d) tab d.

  (* ---- one step of the loop in terms of the kind *)
  Lemma layout_step_kind st s n :
    layout_step smax dmax m st (s, n) =
      let k := block_kind s n in
      mkS (next_off k (s_off st) n)
          (match k with KSparse => s_dof_adr st | _ => fill (s_dof_adr st) s n (adr_value k (s_off st)) end)
          (if is_scalar_kind k then dict_append (s_scalar st) n s else s_scalar st)
          (if is_tile_kind k then dict_append (s_gather st) n s else s_gather st).
  Proof.
    unfold layout_step, block_kind, next_off.
    destruct ((n <=? smax) && (is_compact m s n || is_triangular m s n)).
    - destruct (is_compact m s n); simpl; destruct st; reflexivity.
    - destruct (n <=? dmax); simpl; destruct st; reflexivity.
  Qed.

  Lemma skipn_repeat {A} (x : A) n k : skipn n (repeat x k) = repeat x (k - n).
  Proof.
    revert k; induction n; intros k; simpl; [now rewrite Nat.sub_0_r|].
    destruct k; simpl; auto.
  Qed.
  Lemma firstn_repeat_len {A} (x : A) n k : (n <= k)%nat -> length (firstn n (repeat x k)) = n.
  Proof. intros. rewrite firstn_length, repeat_length. lia. Qed.

  Lemma fill_frontier pre k (start size v : Z) :
    length pre = Z.to_nat start -> 0 <= size -> (Z.to_nat size <= k)%nat ->
    fill (pre ++ repeat Q_LD_BLOCK_SPARSE k) start size v
    = (pre ++ repeat v (Z.to_nat size)) ++ repeat Q_LD_BLOCK_SPARSE (k - Z.to_nat size).
  Proof.
    intros Hl Hs Hk. unfold fill. rewrite <- Hl.
    rewrite firstn_app, Nat.sub_diag, firstn_all. simpl. rewrite app_nil_r.
    rewrite skipn_app, Nat.sub_diag, skipn_all. simpl.
    rewrite firstn_repeat_len by lia.
    rewrite skipn_app. rewrite skipn_all2 by lia. simpl.
    replace (length pre + Z.to_nat size - length pre)%nat with (Z.to_nat size) by lia.
    rewrite skipn_repeat. now rewrite <- app_assoc.
  Qed.

  Lemma fill_sparse_frontier pre k (size : Z) :
    0 <= size -> (Z.to_nat size <= k)%nat ->
    pre ++ repeat Q_LD_BLOCK_SPARSE k
    = (pre ++ repeat Q_LD_BLOCK_SPARSE (Z.to_nat size)) ++ repeat Q_LD_BLOCK_SPARSE (k - Z.to_nat size).
  Proof.
    intros. rewrite <- app_assoc, <- repeat_app. f_equal. f_equal. lia.
  Qed.

  Lemma loop_spec : forall blocks p q, blocks_tile p blocks q -> 0 <= p ->
    forall st pre,
      s_dof_adr st = pre ++ repeat Q_LD_BLOCK_SPARSE (Z.to_nat (q - p)) -> length pre = Z.to_nat p ->
      let st' := fold_left (layout_step smax dmax m) blocks st in
      s_dof_adr st' = pre ++ adr_of (table (s_off st) blocks)
      /\ s_off st' = final_off (s_off st) blocks
      /\ s_scalar st' = tab_dict is_scalar_kind (s_scalar st) (table (s_off st) blocks)
      /\ s_gather st' = tab_dict is_tile_kind (s_gather st) (table (s_off st) blocks).
  Proof.
    induction 1; intros Hp st pre Hadr Hlen.
    - simpl. replace (p - p) with 0 in Hadr by lia. simpl in Hadr. rewrite Hadr. auto.
    - pose proof (blocks_tile_le _ _ _ H0) as Hle.
      cbn [fold_left table final_off].
      rewrite layout_step_kind. cbv zeta.
      set (k := block_kind p n).
      set (st1 := mkS _ _ _ _).
      assert (Hk : (Z.to_nat n <= Z.to_nat (q - p))%nat) by lia.
      assert (Hadr1 : s_dof_adr st1 = (pre ++ repeat (adr_value k (s_off st)) (Z.to_nat n))
                                      ++ repeat Q_LD_BLOCK_SPARSE (Z.to_nat (q - (p + n)))).
      { unfold st1; cbn [s_dof_adr]. rewrite Hadr.
        replace (Z.to_nat (q - (p + n))) with (Z.to_nat (q - p) - Z.to_nat n)%nat by lia.
        destruct k; try (apply fill_frontier; lia).
        apply fill_sparse_frontier; lia. }
      specialize (IHblocks_tile ltac:(lia) st1 _ Hadr1).
      assert (Hl1 : length (pre ++ repeat (adr_value k (s_off st)) (Z.to_nat n)) = Z.to_nat (p + n)).
      { rewrite app_length, repeat_length. lia. }
      specialize (IHblocks_tile Hl1). cbv zeta in IHblocks_tile.
      destruct IHblocks_tile as (A & B & C & D).
      change (s_off st1) with (next_off k (s_off st) n) in A, B, C, D.
      change (s_scalar st1) with (if is_scalar_kind k then dict_append (s_scalar st) n p else s_scalar st) in C.
      change (s_gather st1) with (if is_tile_kind k then dict_append (s_gather st) n p else s_gather st) in D.
      repeat split.
      + rewrite A. unfold adr_of at 2. cbn [flat_map]. fold (adr_of (table (next_off k (s_off st) n) r)).
        now rewrite <- app_assoc.
      + exact B.
      + rewrite C. unfold tab_dict at 2. cbn [fold_left]. reflexivity.
      + rewrite D. unfold tab_dict at 2. cbn [fold_left]. reflexivity.
  Qed.

  Lemma table_in off blocks : forall e, In e (table off blocks) ->
    let '(s, n, k, o) := e in In (s, n) blocks /\ k = block_kind s n.
  Proof.
    revert off; induction blocks as [|[s n] r IH]; intros off e Hin; [destruct Hin|].
    cbn [table] in Hin. destruct Hin as [E|Hin].
    - subst e. split; [left; reflexivity|reflexivity].
    - specialize (IH _ _ Hin). destruct e as [[[s' n'] k'] o']. destruct IH. split; [right|]; auto.
  Qed.
  Lemma table_complete off blocks : forall s n, In (s, n) blocks ->
    exists o, In (s, n, block_kind s n, o) (table off blocks).
  Proof.
    revert off; induction blocks as [|[s0 n0] r IH]; intros off s n Hin; [destruct Hin|].
    cbn [table]. destruct Hin as [E|Hin].
    - inversion E; subst. eexists; left; reflexivity.
    - destruct (IH (next_off (block_kind s0 n0) off n0) _ _ Hin) as [o Ho]. exists o; right; exact Ho.
  Qed.

  Lemma next_off_le k off n : off <= next_off k off n.
  Proof. unfold next_off. destruct (has_factor k); nia. Qed.

  Lemma regions_tile : forall blocks off, (forall s n, In (s, n) blocks -> 0 < n) ->
    blocks_tile off (regions (table off blocks)) (final_off off blocks).
  Proof.
    induction blocks as [|[s n] r IH]; intros off Hpos; cbn [table final_off].
    - constructor.
    - unfold regions. cbn [filter].
      assert (Hn : 0 < n) by (apply (Hpos s); left; reflexivity).
      assert (Hr : forall s n, In (s, n) r -> 0 < n) by (intros; eapply Hpos; right; eauto).
      unfold next_off. destruct (has_factor (block_kind s n)) eqn:E.
      + cbn [map]. constructor; [nia|]. apply IH; auto.
      + apply IH; auto.
  Qed.

  Lemma adr_of_length : forall blocks off, (forall s n, In (s, n) blocks -> 0 <= n) ->
    Z.of_nat (length (adr_of (table off blocks))) = fold_right (fun b a => snd b + a) 0 blocks.
  Proof.
    induction blocks as [|[s n] r IH]; intros off Hpos; [reflexivity|].
    cbn [table]. unfold adr_of. cbn [flat_map]. fold (adr_of (table (next_off (block_kind s n) off n) r)).
    rewrite app_length, repeat_length, Nat2Z.inj_add, IH.
    - cbn [fold_right snd]. specialize (Hpos s n (or_introl eq_refl)). lia.
    - intros; eapply Hpos; right; eauto.
  Qed.

  Lemma blocks_tile_sum p blocks q : blocks_tile p blocks q ->
    fold_right (fun b a => snd b + a) 0 blocks = q - p.
  Proof. induction 1; cbn [fold_right snd]; lia. Qed.

  Lemma nth_repeat_lt {A} (x d : A) : forall n i, (i < n)%nat -> nth i (repeat x n) d = x.
  Proof. induction n; intros i Hi; [lia|]. destruct i; simpl; auto. apply IHn; lia. Qed.

  Lemma adr_of_lookup : forall blocks p q, blocks_tile p blocks q -> forall off s n k o d,
    In (s, n, k, o) (table off blocks) -> s <= d < s + n ->
    nth (Z.to_nat (d - p)) (adr_of (table off blocks)) 0 = adr_value k o.
  Proof.
    induction 1; intros off s n0 k o d Hin Hd; [destruct Hin|].
    pose proof (blocks_tile_le _ _ _ H0).
    cbn [table] in *. unfold adr_of. cbn [flat_map].
    fold (adr_of (table (next_off (block_kind p n) off n) r)).
    destruct Hin as [E|Hin].
    - inversion E; subst. rewrite app_nth1 by (rewrite repeat_length; lia).
      apply nth_repeat_lt; lia.
    - pose proof (table_in _ _ _ Hin) as [Hb _].
      pose proof (blocks_tile_in _ _ _ H0 _ _ Hb).
      rewrite app_nth2 by (rewrite repeat_length; lia). rewrite repeat_length.
      replace (Z.to_nat (d - p) - Z.to_nat n)%nat with (Z.to_nat (d - (p + n))) by lia.
      eapply IHblocks_tile; eauto.
  Qed.

  (* ---- dict lookups *)
  Fixpoint dict_get (d : dict) (k : Z) : list Z :=
    match d with [] => [] | (k', l) :: r => if k' =? k then l else dict_get r k end.

  Lemma dict_get_append d k v k' :
    dict_get (dict_append d k v) k' = if k =? k' then dict_get d k' ++ [v] else dict_get d k'.
  Proof.
    induction d as [|[k0 l] r IH]; cbn [dict_append dict_get].
    - destruct (k =? k'); reflexivity.
    - destruct (k0 =? k) eqn:E0; cbn [dict_get].
      + apply Z.eqb_eq in E0; subst k0. destruct (k =? k'); reflexivity.
      + destruct (k0 =? k') eqn:E1; [|exact IH].
        apply Z.eqb_eq in E1; subst k0. rewrite (Z.eqb_sym k k'), E0. reflexivity.
  Qed.

  Lemma tab_dict_get sel : forall tab d key x,
    In x (dict_get (tab_dict sel d tab) key) <->
    In x (dict_get d key) \/ exists k o, In (x, key, k, o) tab /\ sel k = true.
  Proof.
    induction tab as [|[[[s n] k] o] r IH]; intros d key x; cbn [tab_dict fold_left].
    - split; [auto|intros [H|(k & o & [] & _)]; exact H].
    - fold (tab_dict sel (if sel k then dict_append d n s else d) r). rewrite IH.
      destruct (sel k) eqn:Es.
      + rewrite dict_get_append. destruct (n =? key) eqn:En.
        * apply Z.eqb_eq in En; subst n. rewrite in_app_iff. cbn [In]. split.
          -- intros [[H|[H|[]]]|(k' & o' & H & Hs)]; [left; exact H| |right; exists k', o'; split; [right|]; auto].
             subst s. right; exists k, o; split; [left; reflexivity|exact Es].
          -- intros [H|(k' & o' & [E|H] & Hs)]; [left; left; exact H| |right; exists k', o'; auto].
             inversion E; subst. left; right; left; reflexivity.
        * split.
          -- intros [H|(k' & o' & H & Hs)]; [left; exact H|right; exists k', o'; split; [right|]; auto].
          -- intros [H|(k' & o' & [E|H] & Hs)]; [left; exact H| |right; exists k', o'; auto].
             inversion E; subst. rewrite Z.eqb_refl in En; discriminate.
      + split.
        * intros [H|(k' & o' & H & Hs)]; [left; exact H|right; exists k', o'; split; [right|]; auto].
        * intros [H|(k' & o' & [E|H] & Hs)]; [left; exact H| |right; exists k', o'; auto].
          inversion E; subst. congruence.
  Qed.

  Lemma dict_get_map_sort adr d key :
    dict_get (map (fun e : Z * list Z => (fst e, sort_starts adr (snd e))) d) key = sort_starts adr (dict_get d key).
  Proof.
    induction d as [|[k l] r IH]; cbn [map dict_get fst snd]; [reflexivity|].
    destruct (k =? key); auto.
  Qed.
  Lemma sort_starts_in adr l x : In x (sort_starts adr l) <-> In x l.
  Proof.
    unfold sort_starts. rewrite in_app_iff, !filter_In.
    destruct (0 <=? zget adr x); cbn; tauto.
  Qed.
End Table.


(* ======================================================================== part A2 *)
Local Open Scope Z_scope.

Section Final.
  Variables smax dmax : Z.
  Variable m : lmodel.
  Notation block_kind := (block_kind smax dmax m).

  Lemma table_off_ge : forall blocks off s n k o, In (s, n, k, o) (table smax dmax m off blocks) -> off <= o.
  Proof.
    induction blocks as [|[s0 n0] r IH]; intros off s n k o Hin; [destruct Hin|].
    cbn [table] in Hin. destruct Hin as [E|Hin]; [inversion E; lia|].
    apply IH in Hin. pose proof (next_off_le (block_kind s0 n0) off n0). lia.
  Qed.

  Definition e_start (e : entry) : Z := let '(s, n, k, o) := e in s.
  Lemma table_starts : forall blocks off, map e_start (table smax dmax m off blocks) = map fst blocks.
  Proof. induction blocks as [|[s n] r IH]; intros off; cbn [table map e_start fst]; [reflexivity|]. now rewrite IH. Qed.

  Definition e_sel (sel : kind -> bool) (key : Z) (e : entry) : bool := let '(s, n, k, o) := e in (n =? key) && sel k.
  Lemma tab_dict_get_eq sel : forall tab d key,
    dict_get (tab_dict sel d tab) key = dict_get d key ++ map e_start (filter (e_sel sel key) tab).
  Proof.
    induction tab as [|[[[s n] k] o] r IH]; intros d key; cbn [tab_dict fold_left filter e_sel].
    - now rewrite app_nil_r.
    - fold (tab_dict sel (if sel k then dict_append d n s else d) r). rewrite IH.
      destruct (sel k) eqn:Es.
      + rewrite dict_get_append. destruct (n =? key); cbn [andb map e_start]; [now rewrite <- app_assoc|reflexivity].
      + rewrite andb_false_r. reflexivity.
  Qed.

  Lemma NoDup_map_filter {A B} (f : A -> B) (p : A -> bool) l : NoDup (map f l) -> NoDup (map f (filter p l)).
  Proof.
    induction l as [|a r IH]; intros H; cbn [filter map]; [constructor|].
    inversion H; subst. destruct (p a); cbn [map]; auto.
    constructor; auto. intro Hin. apply H2. apply in_map_iff in Hin. destruct Hin as (x & E & Hx).
    apply filter_In in Hx. apply in_map_iff. exists x; tauto.
  Qed.

  Lemma sort_starts_perm adr l : Permutation (sort_starts adr l) l.
  Proof.
    unfold sort_starts. induction l as [|a r IH]; cbn [filter]; [constructor|].
    destruct (0 <=? zget adr a); cbn [negb].
    - apply Permutation_sym, Permutation_cons_app, Permutation_sym, IH.
    - cbn [app]. now constructor.
  Qed.

  Lemma existsb_eqb_In x l : existsb (Z.eqb x) l = true <-> In x l.
  Proof.
    rewrite existsb_exists. split.
    - intros (y & Hy & E). apply Z.eqb_eq in E. now subst.
    - intros H. exists x. split; [exact H|apply Z.eqb_refl].
  Qed.

  Theorem layout_partition :
    blocks_tile 0 (m_blocks m) (l_nv m) ->
    let lay := layout_run smax dmax m in
    let tab := table smax dmax m 0 (m_blocks m) in
    (* the blocks tile [0,nv): every dof lies in exactly one block *)
    (forall d, 0 <= d < l_nv m ->
       exists b, In b (m_blocks m) /\ fst b <= d < fst b + snd b /\
                 forall b', In b' (m_blocks m) -> fst b' <= d < fst b' + snd b' -> b' = b)
    /\ Z.of_nat (length (lay_dof_adr lay)) = l_nv m
    (* the table lists every block once with its kind *)
    /\ (forall s n, In (s, n) (m_blocks m) -> exists o, In (s, n, block_kind s n, o) tab)
    (* each block has ONE kind and all its dofs carry the block's address / sentinel *)
    /\ (forall s n k o, In (s, n, k, o) tab ->
          In (s, n) (m_blocks m) /\ k = block_kind s n /\ 0 <= o /\
          forall d, s <= d < s + n -> zget (lay_dof_adr lay) d = adr_value k o)
    (* the packed factor regions [o, o+n*n) tile [0,total): pairwise disjoint, inside [0,total) *)
    /\ blocks_tile 0 (regions tab) (lay_total lay)
    (* tile sets: exactly the compact/scalar blocks, resp. the tile blocks, under their size, once *)
    /\ (forall size s, In s (dict_get (lay_scalar_tiles lay) size) <->
                       exists k o, In (s, size, k, o) tab /\ is_scalar_kind k = true)
    /\ (forall size s, In s (dict_get (lay_gather_tiles lay) size) <->
                       exists k o, In (s, size, k, o) tab /\ is_tile_kind k = true)
    /\ (forall size, NoDup (dict_get (lay_scalar_tiles lay) size) /\ NoDup (dict_get (lay_gather_tiles lay) size))
    /\ (lay_has_sparse lay = true <-> exists s n o, In (s, n, KSparse, o) tab).
  Proof.
    intros Ht lay tab.
    pose proof (blocks_tile_le _ _ _ Ht) as Hnv.
    destruct (loop_spec smax dmax m _ _ _ Ht (Z.le_refl 0) (layout_init m) [])
      as (A & B & C & D).
    { unfold layout_init; cbn [s_dof_adr app]. f_equal. f_equal. lia. }
    { reflexivity. }
    cbn [app] in A. change (s_off (layout_init m)) with 0 in *.
    change (s_scalar (layout_init m)) with (@nil (Z * list Z)) in C.
    change (s_gather (layout_init m)) with (@nil (Z * list Z)) in D.
    fold (layout_loop smax dmax m) in A, B, C, D.
    assert (Hadr : lay_dof_adr lay = adr_of tab) by exact A.
    assert (Hpos : forall s n, In (s, n) (m_blocks m) -> 0 < n).
    { intros s n H. pose proof (blocks_tile_in _ _ _ Ht _ _ H). lia. }
    assert (Hlook : forall s n k o, In (s, n, k, o) tab -> forall d, s <= d < s + n ->
              zget (lay_dof_adr lay) d = adr_value k o).
    { intros s n k o Hin d Hd. rewrite Hadr. unfold zget.
      replace (Z.to_nat d) with (Z.to_nat (d - 0)) by (f_equal; lia).
      eapply adr_of_lookup; eauto. }
    assert (Htab : forall s n k o, In (s, n, k, o) tab -> In (s, n) (m_blocks m) /\ k = block_kind s n /\ 0 <= o).
    { intros s n k o Hin. pose proof (table_in _ _ _ _ _ _ Hin) as [H1 H2].
      pose proof (table_off_ge _ _ _ _ _ _ Hin). auto. }
    assert (Hlen : Z.of_nat (length (lay_dof_adr lay)) = l_nv m).
    { rewrite Hadr. unfold tab. rewrite adr_of_length.
      - rewrite (blocks_tile_sum _ _ _ Ht). lia.
      - intros s n H. specialize (Hpos _ _ H). lia. }
    repeat split.
    - intros d Hd. destruct (blocks_tile_cover _ _ _ Ht d Hd) as (s & n & Hin & Hs).
      exists (s, n). cbn [fst snd]. repeat split; auto; try lia.
      intros [s' n'] Hin' Hd'. cbn [fst snd] in Hd'.
      eapply blocks_tile_disjoint; eauto.
    - exact Hlen.
    - intros s n Hin. apply table_complete; exact Hin.
    - apply (Htab _ _ _ _ H).
    - apply (Htab _ _ _ _ H).
    - apply (Htab _ _ _ _ H).
    - intros d Hd. eapply Hlook; eauto.
    - unfold lay, layout_run; cbn [lay_total]. rewrite B. apply regions_tile. exact Hpos.
    - unfold lay, layout_run; cbn [lay_scalar_tiles]. rewrite dict_get_map_sort, sort_starts_in, C, tab_dict_get.
      cbn [dict_get In]. intros [[]|H]; exact H.
    - unfold lay, layout_run; cbn [lay_scalar_tiles]. rewrite dict_get_map_sort, sort_starts_in, C, tab_dict_get.
      intros H; right; exact H.
    - unfold lay, layout_run; cbn [lay_gather_tiles]. rewrite D, tab_dict_get.
      cbn [dict_get In]. intros [[]|H]; exact H.
    - unfold lay, layout_run; cbn [lay_gather_tiles]. rewrite D, tab_dict_get.
      intros H; right; exact H.
    - unfold lay, layout_run; cbn [lay_scalar_tiles]. rewrite dict_get_map_sort.
      eapply Permutation_NoDup; [apply Permutation_sym, sort_starts_perm|].
      rewrite C, tab_dict_get_eq. cbn [dict_get app]. apply NoDup_map_filter.
      rewrite table_starts. eapply blocks_tile_NoDup; eauto.
    - unfold lay, layout_run; cbn [lay_gather_tiles].
      rewrite D, tab_dict_get_eq. cbn [dict_get app]. apply NoDup_map_filter.
      rewrite table_starts. eapply blocks_tile_NoDup; eauto.
    - change (lay_has_sparse lay) with (existsb (Z.eqb Q_LD_BLOCK_SPARSE) (lay_dof_adr lay)).
      intros H. apply existsb_eqb_In in H. apply In_nth with (d := 0) in H.
      destruct H as (i & Hi & Hv).
      assert (Hd : 0 <= Z.of_nat i < l_nv m) by lia.
      destruct (blocks_tile_cover _ _ _ Ht _ Hd) as (s & n & Hin & Hs).
      destruct (table_complete smax dmax m 0 _ _ _ Hin) as [o Ho].
      pose proof (Hlook _ _ _ _ Ho _ Hs) as Hz. unfold zget in Hz. rewrite Nat2Z.id, Hv in Hz.
      destruct (Htab _ _ _ _ Ho) as (_ & _ & Ho0).
      exists s, n, o. destruct (block_kind s n); cbn [adr_value] in Hz;
        unfold Q_LD_BLOCK_SPARSE, Q_LD_BLOCK_COMPACT in Hz; try lia. exact Ho.
    - intros (s & n & o & Hin). change (lay_has_sparse lay) with (existsb (Z.eqb Q_LD_BLOCK_SPARSE) (lay_dof_adr lay)).
      apply existsb_eqb_In.
      destruct (Htab _ _ _ _ Hin) as (Hb & _ & _). pose proof (blocks_tile_in _ _ _ Ht _ _ Hb) as Hr.
      pose proof (Hlook _ _ _ _ Hin s ltac:(lia)) as Hz. cbn [adr_value] in Hz. rewrite <- Hz.
      unfold zget. apply nth_In. lia.
  Qed.
End Final.


(* ======================================================================== part F *)
Local Open Scope Z_scope.

Section Detect.
  Variable m : lmodel.
  Variables start size : Z.
  Notation radr := (zget (l_M_rowadr m)).
  Notation rnnz := (zget (l_M_rownnz m)).
  Hypothesis Hsize : 0 < size.
  Hypothesis Hrows : forall i, 0 <= i < size - 1 -> radr (start + i + 1) = radr (start + i) + rnnz (start + i).

  Fixpoint rsum (t : nat) : Z :=
    match t with O => 0 | S t' => rsum t' + rnnz (start + Z.of_nat t') end.

  Lemma radr_sum : forall t, (Z.of_nat t <= size - 1) -> radr (start + Z.of_nat t) = radr start + rsum t.
  Proof.
    induction t; intros Ht.
    - cbn [rsum]. replace (start + Z.of_nat 0) with start by lia. lia.
    - cbn [rsum]. replace (start + Z.of_nat (S t)) with (start + Z.of_nat t + 1) by lia.
      rewrite Hrows by lia. rewrite IHt by lia. lia.
  Qed.

  Lemma block_nnz_sum : block_nnz m start size = rsum (Z.to_nat size).
  Proof.
    unfold block_nnz.
    replace (start + size - 1) with (start + Z.of_nat (Z.to_nat (size - 1))) by lia.
    rewrite radr_sum by lia.
    replace (Z.to_nat size) with (S (Z.to_nat (size - 1))) by lia. cbn [rsum]. lia.
  Qed.

  Lemma rsum_ones : forall t, (forall i, 0 <= i < Z.of_nat t -> 1 <= rnnz (start + i)) ->
    Z.of_nat t <= rsum t /\ (rsum t = Z.of_nat t <-> forall i, 0 <= i < Z.of_nat t -> rnnz (start + i) = 1).
  Proof.
    induction t; intros H.
    - cbn [rsum]. split; [lia|]. split; [intros; lia|reflexivity].
    - destruct IHt as [Hle Hiff]; [intros; apply H; lia|].
      pose proof (H (Z.of_nat t) ltac:(lia)). cbn [rsum]. split; [lia|]. split.
      + intros E i Hi. assert (rsum t = Z.of_nat t) by lia.
        destruct (Z.eq_dec i (Z.of_nat t)) as [->|]; [lia|]. apply Hiff; [assumption|lia].
      + intros Hall. rewrite (Hall (Z.of_nat t)) by lia.
        assert (rsum t = Z.of_nat t) by (apply Hiff; intros; apply Hall; lia). lia.
  Qed.

  Lemma rsum_tri : forall t, (forall i, 0 <= i < Z.of_nat t -> rnnz (start + i) <= i + 1) ->
    2 * rsum t <= Z.of_nat t * (Z.of_nat t + 1) /\
    (2 * rsum t = Z.of_nat t * (Z.of_nat t + 1) <-> forall i, 0 <= i < Z.of_nat t -> rnnz (start + i) = i + 1).
  Proof.
    induction t; intros H.
    - cbn [rsum]. split; [lia|]. split; [intros; lia|reflexivity].
    - destruct IHt as [Hle Hiff]; [intros; apply H; lia|].
      pose proof (H (Z.of_nat t) ltac:(lia)). cbn [rsum]. split; [nia|]. split.
      + intros E i Hi. assert (2 * rsum t = Z.of_nat t * (Z.of_nat t + 1)) by nia.
        destruct (Z.eq_dec i (Z.of_nat t)) as [->|]; [nia|]. apply Hiff; [assumption|lia].
      + intros Hall. rewrite (Hall (Z.of_nat t)) by lia.
        assert (2 * rsum t = Z.of_nat t * (Z.of_nat t + 1)) by (apply Hiff; intros; apply Hall; lia). nia.
  Qed.

  (* the entry-count tests of m_block_layout are exact *)
  Theorem detect_exact :
    (forall i, 0 <= i < size -> 1 <= rnnz (start + i) <= i + 1) ->
    (is_compact m start size = true <-> forall i, 0 <= i < size -> rnnz (start + i) = 1) /\
    (is_triangular m start size = true <-> forall i, 0 <= i < size -> rnnz (start + i) = i + 1).
  Proof.
    intros Hb.
    destruct (rsum_ones (Z.to_nat size)) as [_ H1]; [intros; apply Hb; lia|].
    destruct (rsum_tri (Z.to_nat size)) as [_ H2]; [intros; apply Hb; lia|].
    rewrite Z2Nat.id in H1, H2 by lia.
    unfold is_compact, is_triangular. rewrite block_nnz_sum, !Z.eqb_eq.
    split; [exact H1|].
    rewrite <- H2.
    assert (Heven : size * (size + 1) = 2 * (size * (size + 1) / 2)).
    { assert (Hm : (size * (size + 1)) mod 2 = 0).
      { rewrite Z.mul_mod by lia. destruct (Z.mod_pos_bound size 2 ltac:(lia)).
        assert (Hc : size mod 2 = 0 \/ size mod 2 = 1) by lia.
        destruct Hc as [E|E]; rewrite E.
        - reflexivity.
        - rewrite Z.add_mod, E by lia. reflexivity. }
      pose proof (Z.div_mod (size * (size + 1)) 2 ltac:(lia)). lia. }
    lia.
  Qed.
End Detect.


(* ======================================================================== part B *)
Local Open Scope Z_scope.

(* ------------------------------------------------------------------ loops *)
Lemma for_nat_ind {A} (P : Z -> A -> Prop) (f : Z -> A -> A) : forall n i a,
  P i a -> (forall j acc, i <= j < i + Z.of_nat n -> P j acc -> P (j + 1) (f j acc)) ->
  P (i + Z.of_nat n) (for_nat n i a f).
Proof.
  induction n; intros i a H0 Hs.
  - simpl. replace (i + 0) with i by lia. exact H0.
  - cbn [for_nat]. replace (i + Z.of_nat (S n)) with ((i + 1) + Z.of_nat n) by lia.
    apply IHn.
    + apply Hs; [lia|exact H0].
    + intros j acc Hj. apply Hs. lia.
Qed.

Lemma for_range_ind {A} (P : Z -> A -> Prop) lo hi a (f : Z -> A -> A) :
  lo <= hi -> P lo a -> (forall j acc, lo <= j < hi -> P j acc -> P (j + 1) (f j acc)) ->
  P hi (for_range lo hi a f).
Proof.
  intros Hle H0 Hs. unfold for_range.
  replace hi with (lo + Z.of_nat (Z.to_nat (hi - lo))) at 1 by lia.
  apply for_nat_ind; [exact H0|]. intros j acc Hj. apply Hs. lia.
Qed.

Lemma for_range_empty {A} lo hi (a : A) f : hi <= lo -> for_range lo hi a f = a.
Proof. intros. unfold for_range. replace (Z.to_nat (hi - lo)) with O by lia. reflexivity. Qed.

Lemma for_nat_ext {A} (f g : Z -> A -> A) : forall n i a,
  (forall j acc, i <= j < i + Z.of_nat n -> f j acc = g j acc) -> for_nat n i a f = for_nat n i a g.
Proof.
  induction n; intros i a He; cbn [for_nat]; [reflexivity|].
  rewrite He by lia. apply IHn. intros; apply He; lia.
Qed.
Lemma for_range_ext {A} lo hi (a : A) f g :
  (forall j acc, lo <= j < hi -> f j acc = g j acc) -> for_range lo hi a f = for_range lo hi a g.
Proof. intros He. unfold for_range. apply for_nat_ext. intros; apply He; lia. Qed.

Lemma for_nat_snoc {A} (f : Z -> A -> A) : forall n i a,
  for_nat (S n) i a f = f (i + Z.of_nat n) (for_nat n i a f).
Proof.
  induction n; intros i a.
  - cbn. now replace (i + 0) with i by lia.
  - change (for_nat (S (S n)) i a f) with (for_nat (S n) (i + 1) (f i a) f).
    rewrite IHn. cbn [for_nat]. f_equal. lia.
Qed.
Lemma for_range_snoc {A} lo hi (a : A) f : lo <= hi ->
  for_range lo (hi + 1) a f = f hi (for_range lo hi a f).
Proof.
  intros. unfold for_range. replace (Z.to_nat (hi + 1 - lo)) with (S (Z.to_nat (hi - lo))) by lia.
  rewrite for_nat_snoc. f_equal. lia.
Qed.

(* ------------------------------------------------------------------ finite sums over R *)
Local Open Scope R_scope.
Definition zsum (lo hi : Z) (f : Z -> R) : R := for_range lo hi 0 (fun k acc => acc + f k).

Lemma zsum_empty lo hi f : (hi <= lo)%Z -> zsum lo hi f = 0.
Proof. intros. unfold zsum. now rewrite for_range_empty. Qed.
Lemma zsum_snoc lo hi f : (lo <= hi)%Z -> zsum lo (hi + 1) f = zsum lo hi f + f hi.
Proof. intros. unfold zsum. now rewrite for_range_snoc. Qed.
Lemma zsum_ext lo hi f g : (forall k, (lo <= k < hi)%Z -> f k = g k) -> zsum lo hi f = zsum lo hi g.
Proof. intros He. unfold zsum. apply for_range_ext. intros j acc Hj. now rewrite He. Qed.
Lemma zsum_first lo hi f : (lo < hi)%Z -> zsum lo hi f = f lo + zsum (lo + 1) hi f.
Proof.
  intros Hlt.
  replace hi with (lo + 1 + Z.of_nat (Z.to_nat (hi - lo - 1)))%Z by lia.
  generalize (Z.to_nat (hi - lo - 1)) as n. induction n.
  - replace (lo + 1 + Z.of_nat 0)%Z with (lo + 1)%Z by lia.
    rewrite zsum_snoc, !zsum_empty by lia. lra.
  - replace (lo + 1 + Z.of_nat (S n))%Z with ((lo + 1 + Z.of_nat n) + 1)%Z by lia.
    rewrite !zsum_snoc by lia. rewrite IHn. lra.
Qed.
Lemma zsum_zero lo hi f : (forall k, (lo <= k < hi)%Z -> f k = 0) -> zsum lo hi f = 0.
Proof.
  intros Hz. destruct (Z_le_dec lo hi).
  - unfold zsum. apply (for_range_ind (fun _ acc => acc = 0)); auto.
    intros j acc Hj E. rewrite E, Hz by lia. lra.
  - apply zsum_empty; lia.
Qed.
Lemma sub_loop lo hi v0 f : (lo <= hi)%Z ->
  for_range lo hi v0 (fun k v => v - f k) = v0 - zsum lo hi f.
Proof.
  intros Hle.
  apply (for_range_ind (fun j acc => acc = v0 - zsum lo j f) lo hi v0 (fun k v => v - f k) Hle).
  - rewrite zsum_empty by lia; lra.
  - intros j acc Hj E. rewrite zsum_snoc by lia. lra.
Qed.

(* ------------------------------------------------------------------ list-backed arrays over R *)
Notation vgetR := (@vget R ScalarR).
Notation vsetR := (@vset R).

Lemma vset_nat_length (v : list R) : forall i a, length (@vset_nat R v i a) = length v.
Proof. induction v; intros [|i] x; cbn; auto. Qed.
Lemma vset_length (v : list R) i a : length (vsetR v i a) = length v.
Proof. apply vset_nat_length. Qed.
Lemma vset_nat_same (v : list R) : forall i a d, (i < length v)%nat -> nth i (@vset_nat R v i a) d = a.
Proof. induction v; intros [|i] x d H; cbn in *; try lia; auto. apply IHv; lia. Qed.
Lemma vset_nat_other (v : list R) : forall i j a d, i <> j -> nth j (@vset_nat R v i a) d = nth j v d.
Proof. induction v; intros [|i] [|j] x d H; cbn; auto; try lia. Qed.
Lemma vget_vset_same (v : list R) i a : (0 <= i < Z.of_nat (length v))%Z -> vgetR (vsetR v i a) i = a.
Proof. intros. unfold vget, vset. apply vset_nat_same. lia. Qed.
Lemma vget_vset_other (v : list R) i j a : (0 <= i)%Z -> (0 <= j)%Z -> i <> j -> vgetR (vsetR v i a) j = vgetR v j.
Proof. intros. unfold vget, vset. apply vset_nat_other. lia. Qed.

Section Solve.
  Variables (size fadr start : Z) (L y : list R).
  Definition Uf (k i : Z) : R := vgetR L (fadr + k * size + i)%Z.
  Hypothesis Hsize : (0 <= size)%Z.
  Hypothesis Hstart : (0 <= start)%Z.
  Hypothesis Hdiag : forall i, (0 <= i < size)%Z -> Uf i i <> 0.

  Lemma fwd_spec x0 : (start + size <= Z.of_nat (length x0))%Z ->
    let z := @small_solve_fwd R ScalarR size fadr start L y x0 in
    length z = length x0 /\
    (forall j, (0 <= j)%Z -> ~ (start <= j < start + size)%Z -> vgetR z j = vgetR x0 j) /\
    (forall i, (0 <= i < size)%Z ->
       zsum 0 (i + 1) (fun k => Uf k i * vgetR z (start + k)%Z) = vgetR y (start + i)%Z).
  Proof.
    intros Hlen. cbv zeta. unfold small_solve_fwd.
    apply (for_range_ind (fun i x =>
      length x = length x0 /\
      (forall j, (0 <= j)%Z -> ~ (start <= j < start + i)%Z -> vgetR x j = vgetR x0 j) /\
      (forall i', (0 <= i' < i)%Z ->
         zsum 0 (i' + 1) (fun k => Uf k i' * vgetR x (start + k)%Z) = vgetR y (start + i')%Z))); [exact Hsize| |].
    - repeat split; auto. intros; lia.
    - intros i x Hi (Hl & Hout & Heq).
      cbn [ssub smul sdiv ScalarR]. rewrite sub_loop by lia. fold (Uf i i).
      set (S0 := zsum 0 i _).
      set (x' := vset x (start + i)%Z _).
      assert (Hx'same : vgetR x' (start + i)%Z = (vgetR y (start + i)%Z - S0) / Uf i i).
      { unfold x'. apply vget_vset_same. lia. }
      assert (Hx'other : forall j, (0 <= j)%Z -> j <> (start + i)%Z -> vgetR x' j = vgetR x j).
      { intros j Hj Hne. unfold x'. apply vget_vset_other; lia. }
      repeat split.
      + unfold x'. rewrite vset_length. exact Hl.
      + intros j Hj Hn. rewrite Hx'other by lia. apply Hout; lia.
      + intros i' Hi'. destruct (Z.eq_dec i' i) as [->|Hne].
        * rewrite zsum_snoc by lia. rewrite Hx'same.
          rewrite (zsum_ext _ _ _ (fun k => Uf k i * vgetR x (start + k)%Z)).
          2:{ intros k Hk. rewrite Hx'other by lia. reflexivity. }
          unfold S0. change (zsum 0 i (fun k => vget L (fadr + k * size + i)%Z * vget x (start + k)%Z))
            with (zsum 0 i (fun k => Uf k i * vgetR x (start + k)%Z)).
          field. apply Hdiag; lia.
        * rewrite (zsum_ext _ _ _ (fun k => Uf k i' * vgetR x (start + k)%Z)).
          2:{ intros k Hk. rewrite Hx'other by lia. reflexivity. }
          apply Heq. lia.
  Qed.

  Lemma bwd_spec z : (start + size <= Z.of_nat (length z))%Z ->
    let x := @small_solve_bwd R ScalarR size fadr start L z in
    length x = length z /\
    (forall j, (0 <= j)%Z -> ~ (start <= j < start + size)%Z -> vgetR x j = vgetR z j) /\
    (forall i, (0 <= i < size)%Z ->
       zsum i size (fun k => Uf i k * vgetR x (start + k)%Z) = vgetR z (start + i)%Z).
  Proof.
    intros Hlen. cbv zeta. unfold small_solve_bwd.
    match goal with |- context [for_range 0 size z ?F] => set (F0 := F) end.
    pose (P := fun (r : Z) (x : list R) =>
      length x = length z /\
      (forall j, (0 <= j)%Z -> ~ (start + size - r <= j < start + size)%Z -> vgetR x j = vgetR z j) /\
      (forall i, (size - r <= i < size)%Z ->
         zsum i size (fun k => Uf i k * vgetR x (start + k)%Z) = vgetR z (start + i)%Z)).
    assert (G : P size (for_range 0 size z F0)).
    2:{ unfold P in G. destruct G as (A & B & C). repeat split; [exact A|intros; apply B; lia|intros; apply C; lia]. }
    apply (for_range_ind P); [exact Hsize| |]; unfold F0, P; clear F0 P.
    - repeat split; auto. intros; lia.
    - intros r x Hr (Hl & Hout & Heq).
      cbn [ssub smul sdiv ScalarR]. rewrite sub_loop by lia.
      set (i := (size - 1 - r)%Z). assert (Hidef : i = (size - 1 - r)%Z) by reflexivity. clearbody i. fold (Uf i i).
      set (S0 := zsum (i + 1) size _).
      set (x' := vset x (start + i)%Z _).
      assert (Hx'same : vgetR x' (start + i)%Z = (vgetR x (start + i)%Z - S0) / Uf i i).
      { unfold x'. apply vget_vset_same. lia. }
      assert (Hx'other : forall j, (0 <= j)%Z -> j <> (start + i)%Z -> vgetR x' j = vgetR x j).
      { intros j Hj Hne. unfold x'. apply vget_vset_other; lia. }
      repeat split.
      + unfold x'. rewrite vset_length. exact Hl.
      + intros j Hj Hn. rewrite Hx'other by lia. apply Hout; lia.
      + intros i' Hi'. destruct (Z.eq_dec i' i) as [->|Hne].
        * rewrite zsum_first by lia. rewrite Hx'same.
          rewrite (zsum_ext _ _ _ (fun k => Uf i k * vgetR x (start + k)%Z)).
          2:{ intros k Hk. rewrite Hx'other by lia. reflexivity. }
          unfold S0. change (zsum (i + 1) size (fun k => vget L (fadr + i * size + k)%Z * vget x (start + k)%Z))
            with (zsum (i + 1) size (fun k => Uf i k * vgetR x (start + k)%Z)).
          rewrite (Hout (start + i)%Z) by lia.
          field. apply Hdiag; lia.
        * rewrite (zsum_ext _ _ _ (fun k => Uf i' k * vgetR x (start + k)%Z)).
          2:{ intros k Hk. rewrite Hx'other by lia. reflexivity. }
          apply Heq. lia.
  Qed.

  (* _small_cholesky_solve: the stored factor is read as an UPPER triangular matrix U (entries
     U[k][i], k <= i, at factor_adr + k*size + i; the strict lower part is never read);
     the result satisfies  U^T (U x) = y  on the block and leaves every other entry of x alone *)
  Theorem small_solve_correct x0 : (start + size <= Z.of_nat (length x0))%Z ->
    let x := @small_solve R ScalarR size fadr start L y x0 in
    length x = length x0 /\
    (forall j, (0 <= j)%Z -> ~ (start <= j < start + size)%Z -> vgetR x j = vgetR x0 j) /\
    (forall i, (0 <= i < size)%Z ->
       zsum 0 (i + 1) (fun k => Uf k i * zsum k size (fun j => Uf k j * vgetR x (start + j)%Z))
       = vgetR y (start + i)%Z).
  Proof.
    intros Hlen. cbv zeta. unfold small_solve.
    destruct (fwd_spec x0 Hlen) as (Fl & Fo & Fe). cbv zeta in Fl, Fo, Fe.
    set (z := small_solve_fwd size fadr start L y x0) in *.
    assert (Hlz : (start + size <= Z.of_nat (length z))%Z) by (rewrite Fl; exact Hlen).
    destruct (bwd_spec z Hlz) as (Bl & Bo & Be). cbv zeta in Bl, Bo, Be.
    repeat split.
    - congruence.
    - intros j Hj Hn. rewrite Bo by auto. apply Fo; auto.
    - intros i Hi. rewrite <- Fe by lia. apply zsum_ext. intros k Hk.
      rewrite Be by lia. reflexivity.
  Qed.
End Solve.


(* ======================================================================== part G *)
Local Open Scope R_scope.

Lemma setloop_spec (size start : Z) (g : Z -> R) (x : list R) :
  (0 <= size)%Z -> (0 <= start)%Z -> (start + size <= Z.of_nat (length x))%Z ->
  let x' := for_range 0 size x (fun i x => vsetR x (start + i)%Z (g i)) in
  length x' = length x /\
  (forall i, (0 <= i < size)%Z -> vgetR x' (start + i)%Z = g i) /\
  (forall j, (0 <= j)%Z -> ~ (start <= j < start + size)%Z -> vgetR x' j = vgetR x j).
Proof.
  intros Hs Hst Hl. cbv zeta.
  pose (P := fun (t : Z) (x' : list R) => length x' = length x /\
    (forall i, (0 <= i < t)%Z -> vgetR x' (start + i)%Z = g i) /\
    (forall j, (0 <= j)%Z -> ~ (start <= j < start + t)%Z -> vgetR x' j = vgetR x j)).
  match goal with |- context [for_range 0 size x ?F] => assert (G : P size (for_range 0 size x F)) end.
  2:{ exact G. }
  apply (for_range_ind P); [lia| |]; unfold P.
  - repeat split; auto. intros; lia.
  - intros t x' Ht (A & B & C). repeat split.
    + rewrite vset_length. exact A.
    + intros i Hi. destruct (Z.eq_dec i t) as [->|Hne].
      * rewrite vget_vset_same by lia. reflexivity.
      * rewrite vget_vset_other by lia. apply B. lia.
    + intros j Hj Hn. rewrite vget_vset_other by lia. apply C; lia.
Qed.

(* compact (diagonal) blocks: D = 1/diag(M), x = D*y solves the diagonal system *)
Theorem compact_correct (size matrix_adr start : Z) (M D0 y x0 : list R) :
  (0 <= size)%Z -> (0 <= start)%Z ->
  (start + size <= Z.of_nat (length D0))%Z -> (start + size <= Z.of_nat (length x0))%Z ->
  (forall i, (0 <= i < size)%Z -> vgetR M (matrix_adr + i)%Z <> 0) ->
  let Dg := @compact_factor R ScalarR size matrix_adr start M D0 in
  let x := @compact_solve R ScalarR size start Dg y x0 in
  length x = length x0 /\
  (forall i, (0 <= i < size)%Z -> vgetR M (matrix_adr + i)%Z * vgetR x (start + i)%Z = vgetR y (start + i)%Z) /\
  (forall j, (0 <= j)%Z -> ~ (start <= j < start + size)%Z -> vgetR x j = vgetR x0 j).
Proof.
  intros Hs Hst HlD Hlx Hnz. cbv zeta.
  destruct (setloop_spec size start (fun i => 1 / vgetR M (matrix_adr + i)%Z) D0 Hs Hst HlD) as (Dl & Dv & _).
  cbv zeta in Dl, Dv.
  change (for_range 0 size D0 (fun i x => vsetR x (start + i)%Z (1 / vgetR M (matrix_adr + i)%Z)))
    with (@compact_factor R ScalarR size matrix_adr start M D0) in Dl, Dv.
  set (Dg := compact_factor size matrix_adr start M D0) in *.
  destruct (setloop_spec size start (fun i => vgetR Dg (start + i)%Z * vgetR y (start + i)%Z) x0 Hs Hst Hlx) as (Xl & Xv & Xo).
  cbv zeta in Xl, Xv, Xo.
  change (for_range 0 size x0 (fun i x => vsetR x (start + i)%Z (vgetR Dg (start + i)%Z * vgetR y (start + i)%Z)))
    with (@compact_solve R ScalarR size start Dg y x0) in Xl, Xv, Xo.
  repeat split; auto.
  intros i Hi. rewrite Xv, Dv by lia. field. apply Hnz; lia.
Qed.


(* ======================================================================== part C *)
Local Open Scope R_scope.

Ltac runR := cbv - [Rplus Rminus Rmult Rdiv Rinv Ropp sqrt IZR Rlt Rle Rgt Rge].

(* (U^T U)[i][j] of a factor stored row-major at address 0, reading only the upper triangle *)
Definition utu (n : Z) (U : list R) (i j : Z) : R :=
  zsum 0 (i + 1) (fun k => vgetR U (k * n + i)%Z * vgetR U (k * n + j)%Z).
(* M[j][i], i <= j, in triangular packing at address 0 *)
Definition mtri (M : list R) (i j : Z) : R := vgetR M (Z.quot (j * (j + 1)) 2 + i)%Z.

Lemma sqrt_pos_sq x : 0 < x -> 0 < sqrt x /\ sqrt x * sqrt x = x.
Proof. intros. split; [apply sqrt_lt_R0; lra|apply sqrt_sqrt; lra]. Qed.

Definition det2 (m00 m10 m11 : R) : R := m00 * m11 - m10 * m10.
Definition det3 (m00 m10 m11 m20 m21 m22 : R) : R :=
  m00 * (m11 * m22 - m21 * m21) - m10 * (m10 * m22 - m21 * m20) + m20 * (m10 * m21 - m11 * m20).

Lemma pivot1_eq a m10 m11 : a <> 0 ->
  m11 - m10 * (1 / a) * (m10 * (1 / a)) = det2 (a * a) m10 m11 / (a * a).
Proof. intros. unfold det2. field. lra. Qed.
Lemma pivot2_eq a c m10 m11 m20 m21 m22 : a <> 0 -> c <> 0 -> det2 (a * a) m10 m11 <> 0 ->
  c * c = det2 (a * a) m10 m11 / (a * a) ->
  m22 - m20 * (1 / a) * (m20 * (1 / a)) -
    (m21 - m10 * (1 / a) * (m20 * (1 / a))) * (1 / c) * ((m21 - m10 * (1 / a) * (m20 * (1 / a))) * (1 / c))
  = det3 (a * a) m10 m11 m20 m21 m22 / det2 (a * a) m10 m11.
Proof.
  intros Ha Hc Hd Hcc.
  transitivity (m22 - m20 * m20 / (a * a) - (m21 - m10 * m20 / (a * a)) * (m21 - m10 * m20 / (a * a)) / (c * c)).
  - field. split; lra.
  - rewrite Hcc. unfold det3, det2 in *. field. split; lra.
Qed.

Theorem chol_factor_correct_3 m00 m10 m11 m20 m21 m22 (L0 : list R) :
  length L0 = 9%nat ->
  0 < m00 -> 0 < det2 m00 m10 m11 -> 0 < det3 m00 m10 m11 m20 m21 m22 ->
  let M := [m00; m10; m11; m20; m21; m22] in
  let U := @small_factor R ScalarR 3 0 0 M L0 in
  (forall i j, (0 <= i <= j)%Z -> (j < 3)%Z -> utu 3 U i j = mtri M i j) /\
  (forall k, (0 <= k < 3)%Z -> 0 < vgetR U (k * 3 + k)%Z).
Proof.
  intros HL H1 H2 H3 M U.
  do 10 (destruct L0 as [|? L0]; try discriminate HL). clear HL.
  destruct (sqrt_pos_sq m00 H1) as [Ha Haa].
  remember (sqrt m00) as a eqn:Ea.
  pose proof (pivot1_eq a m10 m11 ltac:(lra)) as Hp1. rewrite Haa in Hp1.
  assert (Hp1pos : 0 < det2 m00 m10 m11 / m00) by (apply Rdiv_lt_0_compat; lra).
  destruct (sqrt_pos_sq _ Hp1pos) as [Hc Hcc].
  remember (sqrt (det2 m00 m10 m11 / m00)) as c eqn:Ec.
  pose proof (pivot2_eq a c m10 m11 m20 m21 m22 ltac:(lra) ltac:(lra)) as Hp2. rewrite Haa in Hp2.
  specialize (Hp2 ltac:(lra) Hcc).
  assert (Hp2pos : 0 < det3 m00 m10 m11 m20 m21 m22 / det2 m00 m10 m11) by (apply Rdiv_lt_0_compat; lra).
  destruct (sqrt_pos_sq _ Hp2pos) as [He Hee].
  remember (sqrt (det3 m00 m10 m11 m20 m21 m22 / det2 m00 m10 m11)) as e eqn:Ee.
  assert (HU : U = [a; m10 * (1 / a); m20 * (1 / a); r2; c;
                    (m21 - m10 * (1 / a) * (m20 * (1 / a))) * (1 / c); r5; r6; e]).
  { unfold U, M. runR. rewrite <- Ea. rewrite Hp1, <- Ec. rewrite Hp2, <- Ee. reflexivity. }
  rewrite HU. rewrite <- Hp1 in Hcc. rewrite <- Hp2 in Hee. clear HU U Hp1 Hp2 Ea Ec Ee.
  split.
  2:{ intros k Hk. assert (Hk3 : (k = 0 \/ k = 1 \/ k = 2)%Z) by lia.
      destruct Hk3 as [->|[->| ->]]; runR; assumption. }
  intros i j Hij Hj.
  assert (Hcases : ((i = 0 /\ j = 0) \/ (i = 0 /\ j = 1) \/ (i = 0 /\ j = 2) \/ (i = 1 /\ j = 1) \/ (i = 1 /\ j = 2) \/ (i = 2 /\ j = 2))%Z) by lia.
  unfold M.
  destruct Hcases as [[-> ->]|[[-> ->]|[[-> ->]|[[-> ->]|[[-> ->]|[-> ->]]]]]]; runR.
  - lra.
  - field; lra.
  - field; lra.
  - rewrite Hcc. ring.
  - field; split; lra.
  - rewrite Hee. ring.
Qed.


(* ======================================================================== part D *)
Local Open Scope Z_scope.

(* ------------------------------------------------------------------ level slices *)
Lemma offsets_get : forall (lv : list (list upd3)) o i, (i <= length lv)%nat ->
  zget (o :: level_offsets_from o lv) (Z.of_nat i) = o + Z.of_nat (length (concat (firstn i lv))).
Proof.
  induction lv as [|l r IH]; intros o i Hi.
  - destruct i; [|simpl in Hi; lia]. unfold zget. simpl. lia.
  - destruct i.
    + unfold zget. simpl. lia.
    + specialize (IH (o + Z.of_nat (length l)) i ltac:(simpl in Hi; lia)).
      cbn [level_offsets_from firstn concat]. rewrite app_length.
      unfold zget in *. rewrite Nat2Z.id in *. cbn [nth] in *.
      rewrite IH. lia.
Qed.

Lemma concat_split {A} : forall (lv : list (list A)) i, (i < length lv)%nat ->
  concat lv = concat (firstn i lv) ++ nth i lv [] ++ concat (skipn (S i) lv).
Proof.
  induction lv as [|l r IH]; intros i Hi; [simpl in Hi; lia|].
  destruct i; cbn [firstn concat nth skipn app]; [reflexivity|].
  rewrite (IH i) at 1 by (simpl in Hi; lia). now rewrite app_assoc.
Qed.

Lemma lev_slice_nth (lv : list (list upd3)) i : (i < length lv)%nat ->
  lev_slice (qLD_all_updates lv) (qLD_level_offsets lv) (Z.of_nat i) = nth i lv [].
Proof.
  intros Hi. unfold lev_slice, qLD_level_offsets.
  replace (Z.of_nat i + 1) with (Z.of_nat (S i)) by lia.
  rewrite !offsets_get by lia.
  assert (E : concat (firstn (S i) lv) = concat (firstn i lv) ++ nth i lv []).
  { clear. revert i. induction lv as [|l r IH]; intros i.
    - destruct i; reflexivity.
    - destruct i; [simpl; now rewrite app_nil_r|]. change (concat (firstn (S (S i)) (l :: r))) with (l ++ concat (firstn (S i) r)). rewrite IH. simpl. now rewrite app_assoc. }
  rewrite E, app_length.
  replace (Z.to_nat (0 + Z.of_nat (length (concat (firstn i lv)) + length (nth i lv [])) - (0 + Z.of_nat (length (concat (firstn i lv))))))
    with (length (nth i lv [])) by lia.
  replace (Z.to_nat (0 + Z.of_nat (length (concat (firstn i lv))))) with (length (concat (firstn i lv))) by lia.
  unfold qLD_all_updates.
  destruct (concat lv) eqn:Ec.
  - (* all levels empty *)
    pose proof (concat_split lv i Hi) as Hs. rewrite Ec in Hs.
    symmetry in Hs. apply app_eq_nil in Hs. destruct Hs as [_ Hs]. apply app_eq_nil in Hs. destruct Hs as [Hs _].
    rewrite Hs. reflexivity.
  - rewrite <- Ec. rewrite (concat_split lv i Hi).
    rewrite skipn_app, skipn_all, Nat.sub_diag. cbn [skipn app].
    rewrite firstn_app, Nat.sub_diag, firstn_all. cbn [firstn]. now rewrite app_nil_r.
Qed.

(* ------------------------------------------------------------------ serial chain *)
Local Open Scope R_scope.
Definition zseqZ (lo : Z) (len : nat) : list Z := map (fun t => lo + Z.of_nat t)%Z (seq 0 len).
Definition chain_adr (k i : Z) : Z := (k * (k + 1) / 2 + i)%Z.
Definition chain_level (n i : Z) : list upd3 :=
  map (fun k => (i, k, chain_adr k i)) (zseqZ (i + 1) (Z.to_nat (n - 1 - i))).
Definition chain_levels (n : Z) : list (list upd3) := map (chain_level n) (zrange (n - 1)).

Lemma zseqZ_S lo len : zseqZ lo (S len) = zseqZ lo len ++ [(lo + Z.of_nat len)%Z].
Proof. unfold zseqZ. rewrite seq_S, map_app. reflexivity. Qed.

Section Levels.
  Variable L : list R.
  Definition stepF (x : list R) (u : upd3) : list R :=
    let '(i, k, a) := u in vsetR x i (vgetR x i - vgetR L a * vgetR x k).
  Definition stepB (x : list R) (u : upd3) : list R :=
    let '(i, k, a) := u in vsetR x k (vgetR x k - vgetR L a * vgetR x i).

  Lemma fwd_level (adr : Z -> Z) i lo : forall len x,
    (0 <= i < lo)%Z -> (i < Z.of_nat (length x))%Z ->
    let x' := fold_left stepF (map (fun k => (i, k, adr k)) (zseqZ lo len)) x in
    length x' = length x /\
    (forall j, (0 <= j)%Z -> j <> i -> vgetR x' j = vgetR x j) /\
    vgetR x' i = vgetR x i - zsum lo (lo + Z.of_nat len) (fun k => vgetR L (adr k) * vgetR x k).
  Proof.
    induction len; intros x Hi Hlen; cbv zeta.
    - cbn [zseqZ seq map fold_left]. repeat split; auto. rewrite zsum_empty by lia. lra.
    - destruct (IHlen x Hi Hlen) as (Al & Ao & Ai). cbv zeta in Al, Ao, Ai.
      unfold upd3 in *. match type of Al with length ?t = _ => remember t as x1 eqn:E1 end.
      rewrite zseqZ_S, map_app, fold_left_app, <- E1. cbn [map fold_left]. clear E1.
      unfold stepF. repeat split.
      + rewrite vset_length. exact Al.
      + intros j Hj Hne. rewrite vget_vset_other by lia. apply Ao; auto.
      + rewrite vget_vset_same by lia. rewrite Ai.
        replace (lo + Z.of_nat (S len))%Z with (lo + Z.of_nat len + 1)%Z by lia.
        rewrite zsum_snoc by lia. rewrite (Ao (lo + Z.of_nat len)%Z) by lia. lra.
  Qed.

  Lemma bwd_level (adr : Z -> Z) i lo : forall len x,
    (0 <= i < lo)%Z -> (lo + Z.of_nat len <= Z.of_nat (length x))%Z ->
    let x' := fold_left stepB (map (fun k => (i, k, adr k)) (zseqZ lo len)) x in
    length x' = length x /\
    (forall j, (0 <= j)%Z -> ~ (lo <= j < lo + Z.of_nat len)%Z -> vgetR x' j = vgetR x j) /\
    (forall k, (lo <= k < lo + Z.of_nat len)%Z -> vgetR x' k = vgetR x k - vgetR L (adr k) * vgetR x i).
  Proof.
    induction len; intros x Hi Hlen; cbv zeta.
    - cbn [zseqZ seq map fold_left]. repeat split; auto. intros; lia.
    - destruct (IHlen x Hi ltac:(lia)) as (Al & Ao & Ak). cbv zeta in Al, Ao, Ak.
      unfold upd3 in *. match type of Al with length ?t = _ => remember t as x1 eqn:E1 end.
      rewrite zseqZ_S, map_app, fold_left_app, <- E1. cbn [map fold_left]. clear E1.
      unfold stepB. repeat split.
      + rewrite vset_length. exact Al.
      + intros j Hj Hn. rewrite vget_vset_other by lia. apply Ao; auto. lia.
      + intros k Hk. destruct (Z.eq_dec k (lo + Z.of_nat len)%Z) as [->|Hne].
        * rewrite vget_vset_same by lia. rewrite (Ao (lo + Z.of_nat len)%Z), (Ao i) by lia. reflexivity.
        * rewrite vget_vset_other by lia. apply Ak. lia.
  Qed.
End Levels.

Lemma zrange_length n : length (zrange n) = Z.to_nat n.
Proof. unfold zrange. now rewrite map_length, seq_length. Qed.
Lemma zrange_nth n i : (i < Z.to_nat n)%nat -> nth i (zrange n) 0%Z = Z.of_nat i.
Proof.
  intros. unfold zrange. change 0%Z with (Z.of_nat 0). rewrite map_nth. now rewrite seq_nth.
Qed.
Lemma chain_levels_length n : length (chain_levels n) = Z.to_nat (n - 1).
Proof. unfold chain_levels. now rewrite map_length, zrange_length. Qed.
Lemma chain_levels_nth n i : (i < Z.to_nat (n - 1))%nat ->
  nth i (chain_levels n) [] = chain_level n (Z.of_nat i).
Proof.
  intros Hi. unfold chain_levels.
  rewrite (nth_indep _ [] (chain_level n 0%Z)) by (rewrite map_length, zrange_length; lia).
  rewrite map_nth. now rewrite zrange_nth.
Qed.
Lemma zget_repeat v n i : (0 <= i < Z.of_nat n)%Z -> zget (repeat v n) i = v.
Proof. intros. unfold zget. apply nth_repeat_lt. lia. Qed.

Section ChainSolve.
  Variables (n : Z) (Ls Dg y : list R).
  Hypothesis Hn : (1 <= n)%Z.
  Let lv := chain_levels n.
  Let nl := Z.of_nat (length lv).
  Let adr := repeat Q_LD_BLOCK_SPARSE (Z.to_nat n).
  Definition Lt (k i : Z) : R := vgetR Ls (chain_adr k i).

  Definition phase1 (x : list R) : list R :=
    for_range 0 n x (fun dof x => if (zget adr dof =? Q_LD_BLOCK_SPARSE)%Z then vsetR x dof (vgetR y dof) else x).
  Definition phase2 (x : list R) : list R :=
    for_range 0 nl x (fun level x =>
      fold_left (stepF Ls) (lev_slice (qLD_all_updates lv) (qLD_level_offsets lv) (nl - 1 - level)) x).
  Definition phase3 (x : list R) : list R :=
    for_range 0 n x (fun dof x => if (zget adr dof =? Q_LD_BLOCK_SPARSE)%Z then vsetR x dof (vgetR x dof * vgetR Dg dof) else x).
  Definition phase4 (x : list R) : list R :=
    for_range 0 nl x (fun level x =>
      fold_left (stepB Ls) (lev_slice (qLD_all_updates lv) (qLD_level_offsets lv) level) x).

  Lemma solve_phases x0 :
    @solve_LD_sparse R ScalarR n nl adr Ls Dg (qLD_all_updates lv) (qLD_level_offsets lv) y x0
    = phase4 (phase3 (phase2 (phase1 x0))).
  Proof. reflexivity. Qed.

  Lemma nl_eq : nl = (n - 1)%Z.
  Proof. unfold nl, lv. rewrite chain_levels_length. lia. Qed.

  Lemma slice_level i : (0 <= i < n - 1)%Z ->
    lev_slice (qLD_all_updates lv) (qLD_level_offsets lv) i = chain_level n i.
  Proof.
    intros Hi. replace i with (Z.of_nat (Z.to_nat i)) at 1 by lia.
    rewrite lev_slice_nth by (unfold lv; rewrite chain_levels_length; lia).
    unfold lv. rewrite chain_levels_nth by lia. f_equal. lia.
  Qed.

  Lemma pointwise_spec (h : Z -> R -> R) x : Z.of_nat (length x) = n ->
    let x' := for_range 0 n x (fun dof x => if (zget adr dof =? Q_LD_BLOCK_SPARSE)%Z then vsetR x dof (h dof (vgetR x dof)) else x) in
    length x' = length x /\ forall j, (0 <= j < n)%Z -> vgetR x' j = h j (vgetR x j).
  Proof.
    intros Hl. cbv zeta.
    pose (P := fun (t : Z) (x' : list R) => length x' = length x /\
      (forall j, (0 <= j < t)%Z -> vgetR x' j = h j (vgetR x j)) /\
      (forall j, (t <= j)%Z -> vgetR x' j = vgetR x j)).
    match goal with |- context [for_range 0 n x ?F] => assert (G : P n (for_range 0 n x F)) end.
    2:{ destruct G as (A & B & _). split; auto. }
    apply (for_range_ind P); [lia| |]; unfold P.
    - repeat split; auto. intros; lia.
    - intros t x' Ht (A & B & C).
      unfold adr. rewrite zget_repeat by lia. rewrite Z.eqb_refl.
      repeat split.
      + rewrite vset_length. exact A.
      + intros j Hj. destruct (Z.eq_dec j t) as [->|Hne].
        * rewrite vget_vset_same by lia. now rewrite C by lia.
        * rewrite vget_vset_other by lia. apply B. lia.
      + intros j Hj. rewrite vget_vset_other by lia. apply C. lia.
  Qed.

  Lemma phase2_spec x1 : Z.of_nat (length x1) = n ->
    let x2 := phase2 x1 in
    length x2 = length x1 /\
    forall i, (0 <= i < n)%Z -> vgetR x2 i + zsum (i + 1) n (fun k => Lt k i * vgetR x2 k) = vgetR x1 i.
  Proof.
    intros Hl. cbv zeta. unfold phase2. rewrite nl_eq.
    pose (P := fun (t : Z) (x : list R) => length x = length x1 /\
      (forall i, (n - 1 - t <= i < n)%Z -> vgetR x i + zsum (i + 1) n (fun k => Lt k i * vgetR x k) = vgetR x1 i) /\
      (forall i, (0 <= i < n - 1 - t)%Z -> vgetR x i = vgetR x1 i)).
    match goal with |- context [for_range 0 (n - 1) x1 ?F] => assert (G : P (n - 1)%Z (for_range 0 (n - 1) x1 F)) end.
    2:{ destruct G as (A & B & _). split; auto. intros; apply B; lia. }
    apply (for_range_ind P); [lia| |]; unfold P.
    - repeat split; auto. intros i Hi. rewrite zsum_empty by lia. lra.
    - intros t x Ht (A & B & C).
      set (i0 := (n - 1 - 1 - t)%Z). assert (Hi0 : i0 = (n - 2 - t)%Z) by (unfold i0; lia). clearbody i0.
      rewrite slice_level by lia. unfold chain_level.
      destruct (fwd_level Ls (fun k => chain_adr k i0) i0 (i0 + 1) (Z.to_nat (n - 1 - i0)) x ltac:(lia) ltac:(lia))
        as (Fl & Fo & Fi). cbv zeta in Fl, Fo, Fi.
      unfold upd3 in *. match type of Fl with length ?t = _ => set (x' := t) in * end. clearbody x'.
      replace (i0 + 1 + Z.of_nat (Z.to_nat (n - 1 - i0)))%Z with n in Fi by lia.
      repeat split.
      + congruence.
      + intros i Hi. destruct (Z.eq_dec i i0) as [->|Hne].
        * rewrite Fi. rewrite (zsum_ext (i0 + 1) n (fun k => Lt k i0 * vgetR x' k) (fun k => Lt k i0 * vgetR x k)).
          2:{ intros k Hk. rewrite Fo by lia. reflexivity. }
          unfold Lt. rewrite <- (C i0) by lia. lra.
        * rewrite Fo by lia. rewrite (zsum_ext _ _ _ (fun k => Lt k i * vgetR x k)).
          2:{ intros k Hk. rewrite Fo by lia. reflexivity. }
          apply B. lia.
      + intros i Hi. rewrite Fo by lia. apply C. lia.
  Qed.

  Lemma phase4_spec x3 : Z.of_nat (length x3) = n ->
    let x := phase4 x3 in
    length x = length x3 /\
    forall k, (0 <= k < n)%Z -> vgetR x k + zsum 0 k (fun i => Lt k i * vgetR x i) = vgetR x3 k.
  Proof.
    intros Hl. cbv zeta. unfold phase4. rewrite nl_eq.
    pose (P := fun (t : Z) (x : list R) => length x = length x3 /\
      (forall k, (0 <= k < n)%Z -> vgetR x k + zsum 0 (Z.min k t) (fun i => Lt k i * vgetR x i) = vgetR x3 k)).
    match goal with |- context [for_range 0 (n - 1) x3 ?F] => assert (G : P (n - 1)%Z (for_range 0 (n - 1) x3 F)) end.
    2:{ destruct G as (A & B). split; auto. intros k Hk. rewrite <- (B k Hk). now replace (Z.min k (n - 1)) with k by lia. }
    apply (for_range_ind P); [lia| |]; unfold P.
    - split; auto. intros k Hk. rewrite zsum_empty by lia. lra.
    - intros t x Ht (A & B).
      rewrite slice_level by lia. unfold chain_level.
      destruct (bwd_level Ls (fun k => chain_adr k t) t (t + 1) (Z.to_nat (n - 1 - t)) x ltac:(lia) ltac:(lia))
        as (Bl & Bo & Bk). cbv zeta in Bl, Bo, Bk.
      unfold upd3 in *. match type of Bl with length ?t = _ => set (x' := t) in * end. clearbody x'.
      replace (t + 1 + Z.of_nat (Z.to_nat (n - 1 - t)))%Z with n in Bo, Bk by lia.
      split; [congruence|].
      intros k Hk. destruct (Z_le_dec k t) as [Hle|Hgt].
      + replace (Z.min k (t + 1)) with (Z.min k t) by lia.
        rewrite Bo by lia. rewrite (zsum_ext _ _ _ (fun i => Lt k i * vgetR x i)).
        2:{ intros i Hi. rewrite Bo by lia. reflexivity. }
        apply B; lia.
      + replace (Z.min k (t + 1)) with (t + 1)%Z by lia.
        rewrite zsum_snoc by lia. rewrite Bk by lia.
        rewrite (zsum_ext _ _ _ (fun i => Lt k i * vgetR x i)).
        2:{ intros i Hi. rewrite Bo by lia. reflexivity. }
        rewrite (Bo t) by lia.
        specialize (B k Hk). replace (Z.min k t) with t in B by lia.
        unfold Lt in *. lra.
  Qed.
End ChainSolve.

Definition chain_model (n : Z) : lmodel :=
  mkL n (n * (n + 1) / 2) [0%Z] [n]
      (map (fun k => k * (k + 1) / 2)%Z (zrange n)) (map (fun k => k + 1)%Z (zrange n))
      (flat_map (fun k => zrange (k + 1)) (zrange n)) (map (fun k => k - 1)%Z (zrange n)).

(* the put_model copy produces exactly chain_levels on serial chains (checked for every n <= 70,
   which includes the smallest chain the real thresholds send to the sparse path, n = 65) *)
Definition upd3_eqb (a b : upd3) : bool :=
  let '(a1, a2, a3) := a in let '(b1, b2, b3) := b in ((a1 =? b1) && (a2 =? b2) && (a3 =? b3))%Z.
Fixpoint list_eqb {A} (eqb : A -> A -> bool) (a b : list A) : bool :=
  match a, b with
  | [], [] => true
  | x :: a', y :: b' => eqb x y && list_eqb eqb a' b'
  | _, _ => false
  end.
Lemma list_eqb_eq {A} (eqb : A -> A -> bool) (Heq : forall x y, eqb x y = true -> x = y) :
  forall a b, list_eqb eqb a b = true -> a = b.
Proof.
  induction a as [|x a IH]; intros [|y b] H; cbn in H; try discriminate; auto.
  apply andb_true_iff in H. destruct H as [H1 H2]. f_equal; auto.
Qed.
Lemma upd3_eqb_eq a b : upd3_eqb a b = true -> a = b.
Proof.
  destruct a as [[a1 a2] a3], b as [[b1 b2] b3]. cbn. intros H.
  apply andb_true_iff in H. destruct H as [H H3]. apply andb_true_iff in H. destruct H as [H1 H2].
  apply Z.eqb_eq in H1, H2, H3. congruence.
Qed.

Lemma chain_updates_upto_70 : forall n, In n (zrange 71) ->
  qLD_updates (chain_model n) (repeat Q_LD_BLOCK_SPARSE (Z.to_nat n)) = chain_levels n.
Proof.
  assert (H : forallb (fun n => list_eqb (list_eqb upd3_eqb)
                (qLD_updates (chain_model n) (repeat Q_LD_BLOCK_SPARSE (Z.to_nat n))) (chain_levels n)) (zrange 71) = true)
    by (vm_compute; reflexivity).
  intros n Hn. rewrite forallb_forall in H. specialize (H n Hn).
  apply (list_eqb_eq _ (list_eqb_eq _ upd3_eqb_eq)). exact H.
Qed.

Theorem ldl_chain_solve_correct n (Ls Dg y x0 : list R) :
  (1 <= n)%Z -> Z.of_nat (length x0) = n -> (forall k, (0 <= k < n)%Z -> vgetR Dg k <> 0) ->
  let lv := chain_levels n in
  let x := @solve_LD_sparse R ScalarR n (Z.of_nat (length lv)) (repeat Q_LD_BLOCK_SPARSE (Z.to_nat n)) Ls Dg
             (qLD_all_updates lv) (qLD_level_offsets lv) y x0 in
  let Lx := fun k => vgetR x k + zsum 0 k (fun j => Lt Ls k j * vgetR x j) in
  length x = length x0 /\
  forall i, (0 <= i < n)%Z ->
    Lx i / vgetR Dg i + zsum (i + 1) n (fun k => Lt Ls k i * (Lx k / vgetR Dg k)) = vgetR y i.
Proof.
  intros Hn Hlen HD lv x Lx.
  unfold Lx, x, lv. clear Lx x lv. rewrite solve_phases.
  destruct (pointwise_spec n Hn (fun j _ => vgetR y j) x0 Hlen) as (L1 & P1). cbv zeta in L1, P1.
  fold (phase1 n y x0) in L1, P1. set (x1 := phase1 n y x0) in *.
  assert (Hl1 : Z.of_nat (length x1) = n) by congruence.
  destruct (phase2_spec n Ls Hn x1 Hl1) as (L2 & P2). cbv zeta in L2, P2. set (x2 := phase2 n Ls x1) in *.
  assert (Hl2 : Z.of_nat (length x2) = n) by congruence.
  destruct (pointwise_spec n Hn (fun j v => v * vgetR Dg j) x2 Hl2) as (L3 & P3). cbv zeta in L3, P3.
  fold (phase3 n Dg x2) in L3, P3. set (x3 := phase3 n Dg x2) in *.
  assert (Hl3 : Z.of_nat (length x3) = n) by congruence.
  destruct (phase4_spec n Ls Hn x3 Hl3) as (L4 & P4). cbv zeta in L4, P4. set (x4 := phase4 n Ls x3) in *.
  split; [congruence|].
  assert (HLx : forall k, (0 <= k < n)%Z ->
            (vgetR x4 k + zsum 0 k (fun j => Lt Ls k j * vgetR x4 j)) / vgetR Dg k = vgetR x2 k).
  { intros k Hk. rewrite P4, P3 by lia. field. apply HD; lia. }
  intros i Hi. rewrite HLx by lia.
  rewrite (zsum_ext _ _ _ (fun k => Lt Ls k i * vgetR x2 k)).
  2:{ intros k Hk. rewrite HLx by lia. reflexivity. }
  rewrite P2, P1 by lia. reflexivity.
Qed.


(* ======================================================================== part E *)
Local Open Scope R_scope.

(* entries of the unit lower factor and of L^T diag(d) L stored in the chain CSR layout *)
Definition Lu (L : list R) (k i : Z) : R := if (i =? k)%Z then 1 else vgetR L (chain_adr k i).
Definition ltdl (n : Z) (L : list R) (i j : Z) : R :=
  zsum j n (fun k => Lu L k i * vgetR L (chain_adr k k) * Lu L k j).

Theorem ldl_factor_correct_3 m00 m10 m11 m20 m21 m22 (D0 : list R) :
  length D0 = 3%nat ->
  m22 <> 0 -> m11 - m21 * (m21 / m22) <> 0 ->
  let M := [m00; m10; m11; m20; m21; m22] in
  let '(Dg, L) := @factor_i_sparse R ScalarR 3 (l_M_rowadr (chain_model 3)) (l_M_rownnz (chain_model 3))
                    (chain_levels 3) M D0 in
  (forall i j, (0 <= i <= j)%Z -> (j < 3)%Z -> ltdl 3 L i j = mtri M i j) /\
  (forall k, (0 <= k < 3)%Z -> vgetR Dg k = 1 / vgetR L (chain_adr k k)).
Proof.
  intros HL H2 H1 M.
  do 4 (destruct D0 as [|? D0]; try discriminate HL). clear HL.
  match goal with |- let '(_, _) := ?t in _ => remember t as res eqn:Er end.
  cbv - [Rplus Rminus Rmult Rdiv Rinv Ropp sqrt IZR Rlt Rle Rgt Rge] in Er. subst res. cbv beta iota.
  assert (H1' : m11 * m22 - m21 * m21 <> 0).
  { intro E. apply H1. replace (m11 - m21 * (m21 / m22)) with ((m11 * m22 - m21 * m21) / m22) by (field; auto).
    rewrite E. unfold Rdiv. ring. }
  split.
  - intros i j Hij Hj.
    assert (Hcases : ((i = 0 /\ j = 0) \/ (i = 0 /\ j = 1) \/ (i = 0 /\ j = 2) \/ (i = 1 /\ j = 1) \/ (i = 1 /\ j = 2) \/ (i = 2 /\ j = 2))%Z) by lia.
    unfold M.
    destruct Hcases as [[-> ->]|[[-> ->]|[[-> ->]|[[-> ->]|[[-> ->]|[-> ->]]]]]]; runR; field; repeat split; auto.
  - intros k Hk. assert (Hc : (k = 0 \/ k = 1 \/ k = 2)%Z) by lia.
    destruct Hc as [->|[->| ->]]; runR; reflexivity.
Qed.

(* end to end on the 3-dof serial chain: factor then solve returns x with M x = y *)
Theorem ldl_chain3_factor_solve m00 m10 m11 m20 m21 m22 y0 y1 y2 (D0 x0 : list R) :
  length D0 = 3%nat -> length x0 = 3%nat ->
  m22 <> 0 -> det2 m11 m21 m22 <> 0 -> det3 m00 m10 m11 m20 m21 m22 <> 0 ->
  let M := [m00; m10; m11; m20; m21; m22] in
  let lv := qLD_updates (chain_model 3) (repeat Q_LD_BLOCK_SPARSE 3) in
  let '(Dg, L) := @factor_i_sparse R ScalarR 3 (l_M_rowadr (chain_model 3)) (l_M_rownnz (chain_model 3)) lv M D0 in
  let x := @solve_LD_sparse R ScalarR 3 (Z.of_nat (length lv)) (repeat Q_LD_BLOCK_SPARSE 3) L Dg
             (qLD_all_updates lv) (qLD_level_offsets lv) [y0; y1; y2] x0 in
  m00 * vgetR x 0 + m10 * vgetR x 1 + m20 * vgetR x 2 = y0 /\
  m10 * vgetR x 0 + m11 * vgetR x 1 + m21 * vgetR x 2 = y1 /\
  m20 * vgetR x 0 + m21 * vgetR x 1 + m22 * vgetR x 2 = y2.
Proof.
  intros HD Hx H2 H1 H0 M lv.
  do 4 (destruct D0 as [|? D0]; try discriminate HD). clear HD.
  do 4 (destruct x0 as [|? x0]; try discriminate Hx). clear Hx.
  unfold det2, det3 in *.
  match goal with |- let '(_, _) := ?t in _ => remember t as res eqn:Er end.
  cbv - [Rplus Rminus Rmult Rdiv Rinv Ropp sqrt IZR Rlt Rle Rgt Rge] in Er. subst res. cbv beta iota zeta.
  runR.
  repeat split; field; repeat split; auto; try lra.
  all: try (intro E; apply H1; rewrite <- E; field; auto).
  all: match goal with |- ?p <> 0 =>
         replace p with (m22 * (m00 * (m11 * m22 - m21 * m21) - m10 * (m10 * m22 - m21 * m20) + m20 * (m10 * m21 - m11 * m20))) by ring;
         apply Rmult_integral_contrapositive_currified; auto end.
Qed.

(* end to end on a dense 3x3 block: scalar Cholesky factor then solve returns x with M x = y *)
Theorem chol3_factor_solve m00 m10 m11 m20 m21 m22 (L0 y x0 : list R) :
  length L0 = 9%nat -> length x0 = 3%nat ->
  0 < m00 -> 0 < det2 m00 m10 m11 -> 0 < det3 m00 m10 m11 m20 m21 m22 ->
  let M := [m00; m10; m11; m20; m21; m22] in
  let U := @small_factor R ScalarR 3 0 0 M L0 in
  let x := @small_solve R ScalarR 3 0 0 U y x0 in
  m00 * vgetR x 0 + m10 * vgetR x 1 + m20 * vgetR x 2 = vgetR y 0 /\
  m10 * vgetR x 0 + m11 * vgetR x 1 + m21 * vgetR x 2 = vgetR y 1 /\
  m20 * vgetR x 0 + m21 * vgetR x 1 + m22 * vgetR x 2 = vgetR y 2.
Proof.
  intros HL Hx H1 H2 H3 M U x.
  destruct (chol_factor_correct_3 m00 m10 m11 m20 m21 m22 L0 HL H1 H2 H3) as [HM Hd].
  fold M in HM, Hd. fold U in HM, Hd.
  assert (Hdiag : forall i, (0 <= i < 3)%Z -> Uf 3 0 U i i <> 0).
  { intros i Hi. unfold Uf. specialize (Hd i Hi). replace (0 + i * 3 + i)%Z with (i * 3 + i)%Z by lia. lra. }
  destruct (small_solve_correct 3 0 0 U y ltac:(lia) ltac:(lia) Hdiag x0 ltac:(rewrite Hx; lia)) as (_ & _ & HS).
  cbv zeta in HS. fold x in HS.
  pose proof (HM 0 0 ltac:(lia) ltac:(lia))%Z as E00. pose proof (HM 0 1 ltac:(lia) ltac:(lia))%Z as E01.
  pose proof (HM 0 2 ltac:(lia) ltac:(lia))%Z as E02. pose proof (HM 1 1 ltac:(lia) ltac:(lia))%Z as E11.
  pose proof (HM 1 2 ltac:(lia) ltac:(lia))%Z as E12. pose proof (HM 2 2 ltac:(lia) ltac:(lia))%Z as E22.
  pose proof (HS 0 ltac:(lia))%Z as S0. pose proof (HS 1 ltac:(lia))%Z as S1. pose proof (HS 2 ltac:(lia))%Z as S2.
  clear HM HS Hd Hdiag.
  clearbody x. clearbody U. clear H1 H2 H3 HL Hx.
  unfold utu, mtri, M, Uf in *.
  cbv - [Rplus Rminus Rmult Rdiv Rinv Ropp sqrt IZR Rlt Rle Rgt Rge] in *.
  rewrite <- E00, <- E01, <- E02, <- E11, <- E12, <- E22, <- S0, <- S1, <- S2.
  repeat split; ring.
Qed.


(* ======================================================================== part H *)
Theorem chol_factor_correct_1 m00 (L0 : list R) :
  length L0 = 1%nat -> 0 < m00 ->
  let M := [m00] in
  let U := @small_factor R ScalarR 1 0 0 M L0 in
  utu 1 U 0 0 = mtri M 0 0 /\ 0 < vgetR U 0.
Proof.
  intros HL H1 M U.
  do 2 (destruct L0 as [|? L0]; try discriminate HL). clear HL.
  destruct (sqrt_pos_sq m00 H1) as [Ha Haa].
  unfold U, M. runR. split; lra.
Qed.

Theorem chol_factor_correct_2 m00 m10 m11 (L0 : list R) :
  length L0 = 4%nat -> 0 < m00 -> 0 < det2 m00 m10 m11 ->
  let M := [m00; m10; m11] in
  let U := @small_factor R ScalarR 2 0 0 M L0 in
  (forall i j, (0 <= i <= j)%Z -> (j < 2)%Z -> utu 2 U i j = mtri M i j) /\
  (forall k, (0 <= k < 2)%Z -> 0 < vgetR U (k * 2 + k)%Z).
Proof.
  intros HL H1 H2 M U.
  do 5 (destruct L0 as [|? L0]; try discriminate HL). clear HL.
  destruct (sqrt_pos_sq m00 H1) as [Ha Haa].
  remember (sqrt m00) as a eqn:Ea.
  pose proof (pivot1_eq a m10 m11 ltac:(lra)) as Hp1. rewrite Haa in Hp1.
  assert (Hp1pos : 0 < det2 m00 m10 m11 / m00) by (apply Rdiv_lt_0_compat; lra).
  destruct (sqrt_pos_sq _ Hp1pos) as [Hc Hcc].
  remember (sqrt (det2 m00 m10 m11 / m00)) as c eqn:Ec.
  assert (HU : U = [a; m10 * (1 / a); r1; c]).
  { unfold U, M. runR. rewrite <- Ea. rewrite Hp1, <- Ec. reflexivity. }
  rewrite HU. rewrite <- Hp1 in Hcc. clear HU U Hp1 Ea Ec.
  split.
  2:{ intros k Hk. assert (Hk2 : (k = 0 \/ k = 1)%Z) by lia.
      destruct Hk2 as [->| ->]; runR; assumption. }
  intros i j Hij Hj.
  assert (Hcases : ((i = 0 /\ j = 0) \/ (i = 0 /\ j = 1) \/ (i = 1 /\ j = 1))%Z) by lia.
  unfold M.
  destruct Hcases as [[-> ->]|[[-> ->]|[-> ->]]]; runR.
  - lra.
  - field; lra.
  - rewrite Hcc. ring.
Qed.

(* ---- the chain theorem with the update lists produced by the put_model copy itself (n <= 70) *)
Theorem ldl_tree_solve_correct_partial n (Ls Dg y x0 : list R) :
  (1 <= n <= 70)%Z -> Z.of_nat (length x0) = n -> (forall k, (0 <= k < n)%Z -> vgetR Dg k <> 0) ->
  let adr := repeat Q_LD_BLOCK_SPARSE (Z.to_nat n) in
  let lv := qLD_updates (chain_model n) adr in
  let x := @solve_LD_sparse R ScalarR n (Z.of_nat (length lv)) adr Ls Dg
             (qLD_all_updates lv) (qLD_level_offsets lv) y x0 in
  let Lx := fun k => vgetR x k + zsum 0 k (fun j => Lt Ls k j * vgetR x j) in
  length x = length x0 /\
  forall i, (0 <= i < n)%Z ->
    Lx i / vgetR Dg i + zsum (i + 1) n (fun k => Lt Ls k i * (Lx k / vgetR Dg k)) = vgetR y i.
Proof.
  intros Hn Hlen HD adr lv.
  assert (Hin : In n (zrange 71)).
  { unfold zrange. apply in_map_iff. exists (Z.to_nat n). split; [lia|]. apply in_seq. lia. }
  unfold lv, adr. rewrite (chain_updates_upto_70 n Hin).
  apply ldl_chain_solve_correct; auto. lia.
Qed.

(* ---- hypotheses are satisfiable / the theorems meet the real thresholds *)
Definition ex_forest : lmodel :=
  mkL 9 15 [0; 1; 1; 7]%Z [1; 0; 6; 2]%Z [0; 1; 2; 3; 4; 5; 6; 7; 8]%Z [1; 1; 1; 1; 1; 1; 1; 1; 2]%Z
      [0; 1; 2; 3; 4; 5; 6; 7; 7; 8]%Z [-1; -1; 1; 2; 3; 4; 5; -1; 7]%Z.
Example ex_forest_tiles : blocks_tile 0 (m_blocks ex_forest) (l_nv ex_forest).
Proof. cbv [m_blocks ex_forest l_tree_dofadr l_tree_dofnum l_nv combine filter snd Z.ltb Z.compare]. repeat constructor. Qed.
Example ex_forest_layout :
  layout_flat (m_block_layout ex_forest) = [4; 0; -2; -2; -2; -2; -2; -2; -2; 0; 0; -7; 1; 1; 0; 6; 1; 1; 2; 1; 7; -7]%Z.
Proof. vm_compute. reflexivity. Qed.
(* a 65-dof serial chain is entirely sparse under the thresholds of types.py, a 64-dof one is one tile *)
Example chain65_sparse :
  lay_dof_adr (m_block_layout (chain_model 65)) = repeat Q_LD_BLOCK_SPARSE 65
  /\ m_tiles (m_block_layout (chain_model 65)) = []
  /\ lay_gather_tiles (m_block_layout (chain_model 64)) = [(64, [0])]%Z.
Proof. vm_compute. repeat split. Qed.
Example chol_hyp_sat : 0 < 4 /\ 0 < det2 4 2 5 /\ 0 < det3 4 2 5 1 3 6.
Proof. unfold det2, det3. lra. Qed.
Example ldl_hyp_sat : (6 : R) <> 0 /\ det2 5 3 6 <> 0 /\ det3 4 2 5 1 3 6 <> 0.
Proof. unfold det2, det3. repeat split; lra. Qed.
Example solve_hyp_sat : forall i, (0 <= i < 2)%Z -> Uf 2 0 [2; 1; 0; 3] i i <> 0.
Proof.
  intros i Hi. assert (Hc : (i = 0 \/ i = 1)%Z) by lia.
  destruct Hc as [->| ->]; unfold Uf; runR; lra.
Qed.
