(* Proof/Integrate.v -- lemmas about Model/Integrate.v (time integration, C08) over the reals,
   and the vm_compute facts that tie the model's stage order to forward.py (S tie).

   Contents
   1. kernel launches as folds of disjoint stores: a launch whose input and output arrays alias
      equals the launch on a separate copy when the tasks' slots are pairwise disjoint;
   2. _next_position: every free/ball quaternion written has unit norm (Rot.quat_integrate_unit),
      every other slot is  q + h v s;
   3. _advance / euler: semi-implicit update (position reads the NEW velocity), time, warmstart;
   4. rungekutta4 = classical RK4 with nodes (0, 1/2, 1/2, 1), also for a time-dependent forward()
      (hinge/slide models, plain actuators), and a worked time-dependent example;
   5. the kernels of the model are equal to the machine translations Gen/kforward.v, Gen/support_act.v;
   6. stage-order facts about the regenerated skeleton. *)
From Coq Require Import ZArith Reals List Bool Lra Lia Psatz FinFun.
From VF Require Import Base.Scalar Base.ScalarR Base.Vec Base.Loop Gen.math Proof.Rot Model.Integrate.
Import ListNotations.
Lemma NoDup_app_inv {A} (a b : list A) :
  NoDup (a ++ b) -> NoDup a /\ NoDup b /\ (forall x, In x a -> In x b -> False).
Proof.
  induction a as [|x a IH]; simpl; intros Hn.
  - repeat split; auto. constructor.
  - inversion Hn; subst. destruct (IH H2) as (Ha & Hb & Hd). repeat split; auto.
    + constructor; auto. intros Hc. apply H1, in_or_app; auto.
    + intros y [E|Hy] Hyb.
      * subst. apply H1, in_or_app; auto.
      * eapply Hd; eauto.
Qed.

Section Generic.
Context {S : Type} `{Scalar S}.
Local Open Scope Z_scope.

Lemma vset_nat_length (v : list S) i x : length (vset_nat v i x) = length v.
Proof. revert i; induction v; intros [|i]; simpl; auto. Qed.

Lemma nth_vset_nat_same (v : list S) i x d : (i < length v)%nat -> nth i (vset_nat v i x) d = x.
Proof. revert i; induction v; intros [|i] Hl; simpl in *; try lia; auto. apply IHv. lia. Qed.

Lemma nth_vset_nat_other (v : list S) i k x d : i <> k -> nth k (vset_nat v i x) d = nth k v d.
Proof.
  revert i k; induction v; intros [|i] [|k] Hne; simpl; auto; try lia.
Qed.

Lemma vset_length (v : list S) i x : length (vset v i x) = length v.
Proof. apply vset_nat_length. Qed.

Lemma vget_vset_same (v : list S) i x : 0 <= i < Z.of_nat (length v) -> vget (vset v i x) i = x.
Proof. intros Hi. unfold vget, vset. apply nth_vset_nat_same. lia. Qed.

Lemma vget_vset_other (v : list S) i k x : 0 <= i -> 0 <= k -> i <> k -> vget (vset v i x) k = vget v k.
Proof. intros Hi Hk Hne. unfold vget, vset. apply nth_vset_nat_other. lia. Qed.

Definition in_range (n : nat) (l : list Z) : Prop := Forall (fun i => 0 <= i < Z.of_nat n) l.

Lemma vset_all_length (ws : list (Z * S)) (o : list S) : length (vset_all o ws) = length o.
Proof. revert o; induction ws as [|[i x] r IH]; intros o; simpl; auto. rewrite IH. apply vset_length. Qed.

Lemma vget_vset_all_notin (ws : list (Z * S)) (o : list S) k :
  0 <= k -> Forall (fun i => 0 <= i) (map fst ws) -> ~ In k (map fst ws) ->
  vget (vset_all o ws) k = vget o k.
Proof.
  revert o; induction ws as [|[i x] r IH]; intros o Hk Hnn Hni; simpl in *; auto.
  inversion Hnn; subst. rewrite IH; auto. apply vget_vset_other; auto. 
Qed.

Lemma vget_vset_all_in (ws : list (Z * S)) (o : list S) k x :
  in_range (length o) (map fst ws) -> NoDup (map fst ws) -> In (k, x) ws ->
  vget (vset_all o ws) k = x.
Proof.
  revert o; induction ws as [|[i y] r IH]; intros o Hr Hnd Hin; simpl in *; [tauto|].
  inversion Hr; subst. inversion Hnd; subst.
  destruct Hin as [E|Hin].
  - inversion E; subst. rewrite vget_vset_all_notin; auto; try lia.
    + apply vget_vset_same; auto.
    + eapply Forall_impl; [|exact H3]. simpl. intros; lia.
  - apply IH; auto. unfold in_range. rewrite vset_length. exact H3.
Qed.

(* ---- launches as folds of disjoint writes ---- *)
Section Run.
  Context {T : Type}.
  Variable wr : list S -> T -> list (Z * S).
  Variable idx : T -> list Z.
  Hypothesis wr_idx : forall q t, map fst (wr q t) = idx t.

  Lemma run_sep_length tasks qin out : length (run_sep wr tasks qin out) = length out.
  Proof.
    unfold run_sep. revert out; induction tasks; intros; simpl; auto.
    rewrite IHtasks. apply vset_all_length.
  Qed.

  Lemma run_sep_other tasks qin out k :
    0 <= k -> Forall (fun i => 0 <= i) (flat_map idx tasks) -> ~ In k (flat_map idx tasks) ->
    vget (run_sep wr tasks qin out) k = vget out k.
  Proof.
    unfold run_sep. revert out; induction tasks as [|t ts IH]; intros out Hk Hnn Hni; simpl in *; auto.
    apply Forall_app in Hnn. destruct Hnn as [Hn1 Hn2].
    rewrite IH; auto.
    - apply vget_vset_all_notin; auto; rewrite wr_idx; auto. intros Hc. apply Hni, in_or_app; auto.
    - intros Hc. apply Hni, in_or_app; auto.
  Qed.

  Lemma run_sep_get tasks qin out t k x :
    in_range (length out) (flat_map idx tasks) -> NoDup (flat_map idx tasks) ->
    In t tasks -> In (k, x) (wr qin t) ->
    vget (run_sep wr tasks qin out) k = x.
  Proof.
    unfold run_sep. revert out; induction tasks as [|t0 ts IH]; intros out Hr Hnd Ht Hin; simpl in *; [tauto|].
    unfold in_range in Hr. apply Forall_app in Hr. destruct Hr as [Hr1 Hr2].
    destruct (NoDup_app_inv _ _ Hnd) as (Hnd1 & Hnd2 & Hdis).
    destruct Ht as [E|Ht].
    - subst t0.
      assert (Hk : In k (idx t)). { rewrite <- (wr_idx qin t). apply (in_map fst) in Hin. exact Hin. }
      fold (run_sep wr ts qin (vset_all out (wr qin t))).
      rewrite run_sep_other.
      + apply vget_vset_all_in; auto; rewrite wr_idx; auto.
      + rewrite Forall_forall in Hr1. specialize (Hr1 _ Hk). lia.
      + eapply Forall_impl; [|exact Hr2]. simpl; intros; lia.
      + intros Hc. eapply Hdis; eauto.
    - apply IH; auto. unfold in_range. rewrite vset_all_length. exact Hr2.
  Qed.

  Hypothesis wr_local : forall a b t, (forall k, In k (idx t) -> vget a k = vget b k) -> wr a t = wr b t.

  Lemma run_inplace_sep_gen tasks q acc :
    Forall (fun i => 0 <= i) (flat_map idx tasks) -> NoDup (flat_map idx tasks) ->
    (forall k, In k (flat_map idx tasks) -> vget acc k = vget q k) ->
    fold_left (fun o t => vset_all o (wr o t)) tasks acc = run_sep wr tasks q acc.
  Proof.
    unfold run_sep. revert acc; induction tasks as [|t ts IH]; intros acc Hnn Hnd Hag; simpl in *; auto.
    apply Forall_app in Hnn. destruct Hnn as [Hn1 Hn2].
    assert (E : wr acc t = wr q t).
    { apply wr_local. intros k Hk. apply Hag, in_or_app; auto. }
    destruct (NoDup_app_inv _ _ Hnd) as (Hnd1 & Hnd2 & Hdis).
    rewrite E. apply IH; auto.
    - intros k Hk. rewrite vget_vset_all_notin.
      + apply Hag, in_or_app; auto.
      + rewrite Forall_forall in Hn2. apply Hn2; auto.
      + rewrite wr_idx; auto.
      + rewrite wr_idx. intros Hc. eapply Hdis; eauto.
  Qed.

  Lemma run_inplace_sep tasks q :
    Forall (fun i => 0 <= i) (flat_map idx tasks) -> NoDup (flat_map idx tasks) ->
    run_inplace wr tasks q = run_sep wr tasks q q.
  Proof. intros. unfold run_inplace. apply run_inplace_sep_gen; auto. Qed.
End Run.
End Generic.

Section JointsGeneric.
Context {S : Type} `{Scalar S}.
Local Open Scope Z_scope.

Lemma npos_idx h scale qvel q j : map fst (npos_writes h scale qvel q j) = jslots j.
Proof.
  unfold npos_writes, jslots, jwidth.
  destruct (jtype j =? 0); [|destruct (jtype j =? 1)];
    change (Z.to_nat 7) with 7%nat; change (Z.to_nat 4) with 4%nat; change (Z.to_nat 1) with 1%nat;
    cbn [map fst seq]; repeat (f_equal; try lia).
Qed.

Lemma npos_local h scale qvel a b j :
  (forall k, In k (jslots j) -> vget a k = vget b k) ->
  npos_writes h scale qvel a j = npos_writes h scale qvel b j.
Proof.
  intros Hag. unfold npos_writes.
  assert (K : forall o, 0 <= o < jwidth j -> vget a (qposadr j + o) = vget b (qposadr j + o)).
  { intros o Ho. apply Hag. unfold jslots. apply in_map_iff. exists (Z.to_nat o). split; [lia|].
    apply in_seq. lia. }
  unfold jwidth in K.
  destruct (jtype j =? 0).
  - pose proof (K 0 ltac:(lia)) as K0. rewrite Z.add_0_r in K0.
    rewrite K0, (K 1), (K 2), (K 3), (K 4), (K 5), (K 6) by lia. reflexivity.
  - destruct (jtype j =? 1).
    + pose proof (K 0 ltac:(lia)) as K0. rewrite Z.add_0_r in K0.
      rewrite K0, (K 1), (K 2), (K 3) by lia. reflexivity.
    + pose proof (K 0 ltac:(lia)) as K0. rewrite Z.add_0_r in K0. rewrite K0. reflexivity.
Qed.

Lemma nact_idx h ad scale lim q (u : actuator S) : map fst (nact_writes h ad scale lim q u) = aslots u.
Proof. unfold nact_writes, aslots. rewrite map_map. reflexivity. Qed.

Lemma nact_local h ad scale lim a b (u : actuator S) :
  (forall k, In k (aslots u) -> vget a k = vget b k) ->
  nact_writes h ad scale lim a u = nact_writes h ad scale lim b u.
Proof.
  intros Hag. unfold nact_writes. apply map_ext_in. intros k Hk.
  rewrite Hag; auto. unfold aslots. apply in_map_iff. exists k. auto.
Qed.

(* a launch whose input and output arrays are the same array behaves like the launch with a
   separate copy of the input, provided the tasks' slots are pairwise disjoint *)
Lemma next_position_inplace_sep h scale joints q v :
  Forall (fun i => 0 <= i) (flat_map jslots joints) -> NoDup (flat_map jslots joints) ->
  next_position_inplace h scale joints q v = next_position h scale joints q v q.
Proof.
  intros. unfold next_position_inplace, next_position.
  apply (run_inplace_sep _ jslots); auto.
  - intros; apply npos_idx.
  - intros; apply npos_local; auto.
Qed.

Lemma next_activation_inplace_sep h acts a ad scale lim :
  Forall (fun i => 0 <= i) (flat_map aslots acts) -> NoDup (flat_map aslots acts) ->
  next_activation_inplace h acts a ad scale lim = next_activation h acts a ad scale lim a.
Proof.
  intros. unfold next_activation_inplace, next_activation.
  apply (run_inplace_sep _ aslots); auto.
  - intros; apply nact_idx.
  - intros; apply nact_local; auto.
Qed.

Lemma next_position_length h scale joints qin v out :
  length (next_position h scale joints qin v out) = length out.
Proof. apply run_sep_length. Qed.
Lemma next_activation_length h acts a ad scale lim out :
  length (next_activation h acts a ad scale lim out) = length out.
Proof. apply run_sep_length. Qed.
End JointsGeneric.

(* ------------------------------------------------------------------------------------------ *)
Local Open Scope R_scope.

Lemma quat_integrate_shape (q v : list R) (dt : R) :
  exists a b c d, quat_integrate q v dt = [a; b; c; d].
Proof.
  unfold quat_integrate. cbv zeta.
  destruct (mul_quat_shape (qnormalize q) (axis_angle_to_quat (vnormalize v) (smul dt (vlen v))))
    as (a & b & c & d & E).
  rewrite E. unfold q4, qnormalize.
  destruct (sltb s0 (vlen [a; b; c; d])); cbn; do 4 eexists; reflexivity.
Qed.

Lemma quat_integrate_slots_unit (q v : list R) (dt : R) :
  let qn := quat_integrate q v dt in
  nrm2 [vget qn 0; vget qn 1; vget qn 2; vget qn 3] = 1.
Proof.
  intros qn. pose proof (quat_integrate_unit q v dt) as U. fold qn in U.
  destruct (quat_integrate_shape q v dt) as (a & b & c & d & E). fold qn in E.
  rewrite E in *. exact U.
Qed.

(* well-formed qpos layout: the joints' slots are in range and pairwise disjoint *)
Definition layout_ok (n : nat) (joints : list joint) : Prop :=
  in_range n (flat_map jslots joints) /\ NoDup (flat_map jslots joints).

Section Slots.
  Variables (h scale : R) (joints : list joint) (qin v out : list R).
  Hypothesis Hok : layout_ok (length out) joints.
  Let r := next_position h scale joints qin v out.

  Lemma npos_get j k x : In j joints -> In (k, x) (npos_writes h scale v qin j) -> vget r k = x.
  Proof.
    destruct Hok as [Hr Hnd]. intros Hj Hin. unfold r, next_position.
    eapply (run_sep_get _ jslots); eauto. intros; apply npos_idx.
  Qed.

  Lemma next_position_hinge_slide j :
    In j joints -> jtype j <> 0%Z -> jtype j <> 1%Z ->
    vget r (qposadr j) = vget qin (qposadr j) + h * vget v (dofadr j) * scale.
  Proof.
    intros Hj H0 H1. apply (npos_get j); auto. unfold npos_writes.
    apply Z.eqb_neq in H0, H1. rewrite H0, H1. left. reflexivity.
  Qed.

  Lemma next_position_ball j :
    In j joints -> jtype j = 1%Z ->
    let a := qposadr j in
    nrm2 [vget r a; vget r (a + 1); vget r (a + 2); vget r (a + 3)] = 1.
  Proof.
    intros Hj H1 a.
    set (ws := npos_writes h scale v qin j).
    assert (E : exists qn, ws = [(a, vget qn 0); ((a + 1)%Z, vget qn 1); ((a + 2)%Z, vget qn 2); ((a + 3)%Z, vget qn 3)]
                /\ nrm2 [vget qn 0; vget qn 1; vget qn 2; vget qn 3] = 1).
    { unfold ws, npos_writes. rewrite H1. cbn [Z.eqb]. eexists. split; [reflexivity|].
      apply quat_integrate_slots_unit. }
    destruct E as (qn & Ews & U).
    rewrite (npos_get j a (vget qn 0)), (npos_get j (a+1)%Z (vget qn 1)),
            (npos_get j (a+2)%Z (vget qn 2)), (npos_get j (a+3)%Z (vget qn 3)); auto;
      fold ws; rewrite Ews; simpl; auto.
  Qed.

  Lemma next_position_free j :
    In j joints -> jtype j = 0%Z ->
    let a := qposadr j in let d := dofadr j in
    nrm2 [vget r (a + 3); vget r (a + 4); vget r (a + 5); vget r (a + 6)] = 1 /\
    vget r a = vget qin a + h * (vget v d * scale) /\
    vget r (a + 1) = vget qin (a + 1) + h * (vget v (d + 1) * scale) /\
    vget r (a + 2) = vget qin (a + 2) + h * (vget v (d + 2) * scale).
  Proof.
    intros Hj H0 a d.
    set (ws := npos_writes h scale v qin j).
    assert (E : exists qn, ws = [(a, vget qin a + h * (vget v d * scale));
                                 ((a + 1)%Z, vget qin (a + 1) + h * (vget v (d + 1) * scale));
                                 ((a + 2)%Z, vget qin (a + 2) + h * (vget v (d + 2) * scale));
                                 ((a + 3)%Z, vget qn 0); ((a + 4)%Z, vget qn 1); ((a + 5)%Z, vget qn 2); ((a + 6)%Z, vget qn 3)]
                /\ nrm2 [vget qn 0; vget qn 1; vget qn 2; vget qn 3] = 1).
    { unfold ws, npos_writes. rewrite H0. cbn [Z.eqb]. eexists. split; [reflexivity|].
      apply quat_integrate_slots_unit. }
    destruct E as (qn & Ews & U).
    rewrite (npos_get j (a+3)%Z (vget qn 0)), (npos_get j (a+4)%Z (vget qn 1)),
            (npos_get j (a+5)%Z (vget qn 2)), (npos_get j (a+6)%Z (vget qn 3)); auto;
      try (fold ws; rewrite Ews; simpl; tauto).
    split; [exact U|].
    repeat split; apply (npos_get j); auto; fold ws; rewrite Ews; simpl; tauto.
  Qed.

  (* slots no joint owns keep the previous content of the output array *)
  Lemma next_position_untouched k :
    (0 <= k)%Z -> ~ In k (flat_map jslots joints) -> vget r k = vget out k.
  Proof.
    destruct Hok as [Hr Hnd]. intros Hk Hn. unfold r, next_position.
    apply (run_sep_other _ jslots); auto.
    - intros; apply npos_idx.
    - eapply Forall_impl; [|exact Hr]. simpl; intros; lia.
  Qed.
End Slots.

Local Open Scope R_scope.

(* ---- vectors as pointwise tables -------------------------------------------------------- *)
Definition pw (n : nat) (f : nat -> R) : list R := map f (seq 0 n).

Lemma pw_length n f : length (pw n f) = n.
Proof. unfold pw. rewrite map_length, seq_length. reflexivity. Qed.

Lemma pw_nth n f i : (i < n)%nat -> nth i (pw n f) 0 = f i.
Proof.
  intros Hi. unfold pw. rewrite (nth_indep _ 0 (f 0%nat)) by (rewrite map_length, seq_length; lia).
  rewrite map_nth. rewrite seq_nth by lia. reflexivity.
Qed.

Lemma pw_ext n f g : (forall i, (i < n)%nat -> f i = g i) -> pw n f = pw n g.
Proof. intros E. unfold pw. apply map_ext_in. intros i Hi. apply in_seq in Hi. apply E. lia. Qed.

Lemma pw_of_list (l : list R) : l = pw (length l) (fun i => nth i l 0).
Proof.
  apply (nth_ext _ _ 0 0).
  - rewrite pw_length. reflexivity.
  - intros i Hi. rewrite pw_nth; auto.
Qed.

Lemma vmap2_length (g : R -> R -> R) a b : length (vmap2 g a b) = Nat.min (length a) (length b).
Proof. revert b; induction a; intros [|y b]; simpl; auto. Qed.

Lemma vmap2_nth (g : R -> R -> R) a b i :
  (i < length a)%nat -> (i < length b)%nat -> nth i (vmap2 g a b) 0 = g (nth i a 0) (nth i b 0).
Proof.
  revert b i; induction a; intros [|y b] [|i] Ha Hb; simpl in *; try lia; auto.
  apply IHa; lia.
Qed.

Lemma vmap2_pw (g : R -> R -> R) n f1 f2 :
  vmap2 g (pw n f1) (pw n f2) = pw n (fun i => g (f1 i) (f2 i)).
Proof.
  apply (nth_ext _ _ 0 0).
  - rewrite vmap2_length, !pw_length. lia.
  - intros i Hi. rewrite vmap2_length, !pw_length in Hi.
    rewrite vmap2_nth by (rewrite pw_length; lia). rewrite !pw_nth by lia. reflexivity.
Qed.

Lemma map_pw (g : R -> R) n f : map g (pw n f) = pw n (fun i => g (f i)).
Proof. unfold pw. rewrite map_map. reflexivity. Qed.

Lemma vget_pw n f (i : nat) : (i < n)%nat -> vget (pw n f) (Z.of_nat i) = f i.
Proof. intros Hi. unfold vget. rewrite Nat2Z.id. apply pw_nth; auto. Qed.

(* ---- hinge/slide-only models: qpos is a vector space ------------------------------------ *)
Definition idents (n : nat) : list Z := map Z.of_nat (seq 0 n).

Definition hinge_slide_layout (n : nat) (jl : list joint) : Prop :=
  map qposadr jl = idents n /\ map dofadr jl = idents n /\
  Forall (fun j => jtype j <> 0%Z /\ jtype j <> 1%Z) jl.

(* one activation variable per actuator, no exact filter, no user dynamics, no DC motor, no clamp *)
Definition plain_acts (n : nat) (al : list (actuator R)) : Prop :=
  map actadr al = idents n /\
  Forall (fun u => actnum u = 1%Z /\ dyntype u <> 3%Z /\ dyntype u <> 7%Z /\ actlimited u = false) al.

Lemma idents_nodup n : NoDup (idents n).
Proof.
  unfold idents. apply FinFun.Injective_map_NoDup; [|apply seq_NoDup].
  intros a b E. lia.
Qed.
Lemma idents_range n : in_range n (idents n).
Proof.
  unfold in_range, idents. apply Forall_forall. intros x Hx. apply in_map_iff in Hx.
  destruct Hx as (k & E & Hk). apply in_seq in Hk. lia.
Qed.

Lemma flat_map_singleton {A B} (f : A -> B) (g : A -> list B) l :
  (forall x, In x l -> g x = [f x]) -> flat_map g l = map f l.
Proof. induction l; simpl; intros E; auto. rewrite E by auto. simpl. f_equal. apply IHl. auto. Qed.

Lemma hs_slots n jl : hinge_slide_layout n jl -> flat_map jslots jl = idents n.
Proof.
  intros (Hq & _ & Hty). rewrite <- Hq. apply flat_map_singleton.
  intros j Hj. rewrite Forall_forall in Hty. destruct (Hty j Hj) as [H0 H1].
  unfold jslots, jwidth. apply Z.eqb_neq in H0, H1. rewrite H0, H1. change (Z.to_nat 1) with 1%nat. cbn [map seq]. f_equal. lia.
Qed.

Lemma plain_slots n al : plain_acts n al -> flat_map aslots al = idents n.
Proof.
  intros (Hq & Hty). rewrite <- Hq. apply flat_map_singleton.
  intros u Hu. rewrite Forall_forall in Hty. destruct (Hty u Hu) as (H1 & _).
  unfold aslots. rewrite H1. change (Z.to_nat 1) with 1%nat. cbn [map seq]. f_equal. lia.
Qed.

Lemma hs_layout_ok n jl : hinge_slide_layout n jl -> layout_ok n jl.
Proof. intros Hl. unfold layout_ok. rewrite (hs_slots n jl Hl). split; [apply idents_range|apply idents_nodup]. Qed.

Lemma nth_map_idents {A} (f : A -> Z) (l : list A) n i d :
  map f l = idents n -> (i < n)%nat -> (i < length l)%nat /\ f (nth i l d) = Z.of_nat i.
Proof.
  intros E Hi.
  assert (Hl : length l = n). { rewrite <- (map_length f), E. unfold idents. rewrite map_length, seq_length. auto. }
  split; [lia|].
  assert (E2 : nth i (map f l) (f d) = nth i (idents n) (f d)) by (rewrite E; auto).
  rewrite map_nth in E2. rewrite E2. unfold idents.
  rewrite (nth_indep _ (f d) (Z.of_nat 0)) by (rewrite map_length, seq_length; lia).
  rewrite map_nth, seq_nth by lia. reflexivity.
Qed.

(* _next_position on a hinge/slide model is  q + h v s  component by component *)
Lemma next_position_hs h scale n jl fq fv out :
  hinge_slide_layout n jl -> length out = n ->
  next_position h scale jl (pw n fq) (pw n fv) out = pw n (fun i => fq i + h * fv i * scale).
Proof.
  intros Hl Hlen. apply (nth_ext _ _ 0 0).
  - rewrite next_position_length, pw_length. auto.
  - intros i Hi. rewrite next_position_length, Hlen in Hi. rewrite pw_nth by auto.
    pose proof Hl as (Hq & Hd & Hty).
    set (j := nth i jl {| jtype := 3; qposadr := 0; dofadr := 0 |}).
    destruct (nth_map_idents qposadr jl n i {| jtype := 3; qposadr := 0; dofadr := 0 |} Hq Hi) as [Hil Eq].
    destruct (nth_map_idents dofadr jl n i {| jtype := 3; qposadr := 0; dofadr := 0 |} Hd Hi) as [_ Ed].
    fold j in Eq, Ed.
    assert (Hj : In j jl) by (apply nth_In; auto).
    rewrite Forall_forall in Hty. destruct (Hty j Hj) as [H0 H1].
    pose proof (next_position_hinge_slide h scale jl (pw n fq) (pw n fv) out
                  ltac:(rewrite Hlen; apply hs_layout_ok; auto) j Hj H0 H1) as K.
    rewrite Eq, Ed in K. rewrite !vget_pw in K by auto.
    unfold vget in K. rewrite Nat2Z.id in K. exact K.
Qed.

Lemma next_position_inplace_hs h n jl fq fv :
  hinge_slide_layout n jl ->
  next_position_inplace h 1 jl (pw n fq) (pw n fv) = pw n (fun i => fq i + h * fv i).
Proof.
  intros Hl. rewrite next_position_inplace_sep.
  - rewrite (next_position_hs h 1 n jl fq fv); auto using pw_length.
    apply pw_ext. intros. ring.
  - rewrite (hs_slots n jl Hl). eapply Forall_impl; [|apply (idents_range n)]. simpl; intros; lia.
  - rewrite (hs_slots n jl Hl). apply idents_nodup.
Qed.

(* _next_activation on plain actuators is  a + s adot h *)
Lemma next_activation_plain h scale lim n al fa fd out :
  plain_acts n al -> length out = n ->
  next_activation h al (pw n fa) (pw n fd) scale lim out = pw n (fun i => fa i + scale * fd i * h).
Proof.
  intros Hl Hlen. apply (nth_ext _ _ 0 0).
  - rewrite next_activation_length, pw_length. auto.
  - intros i Hi. rewrite next_activation_length, Hlen in Hi. rewrite pw_nth by auto.
    pose proof Hl as (Hq & Hty).
    set (d0 := {| dyntype := 0%Z; actadr := 0%Z; actnum := 1%Z; dynprm0 := 0; rlo := 0; rhi := 0; actlimited := false |}).
    set (u := nth i al d0).
    destruct (nth_map_idents actadr al n i d0 Hq Hi) as [Hil Eq]. fold u in Eq.
    assert (Hu : In u al) by (apply nth_In; auto).
    rewrite Forall_forall in Hty. destruct (Hty u Hu) as (H1 & H3 & H7 & Hlm).
    cut (vget (next_activation h al (pw n fa) (pw n fd) scale lim out) (Z.of_nat i) = fa i + scale * fd i * h).
    { intros G. unfold vget in G. rewrite Nat2Z.id in G. exact G. }
    unfold next_activation.
    eapply (run_sep_get _ aslots).
    + intros; apply nact_idx.
    + rewrite Hlen, (plain_slots n al Hl). apply idents_range.
    + rewrite (plain_slots n al Hl). apply idents_nodup.
    + exact Hu.
    + unfold nact_writes. rewrite H1. cbn [Z.to_nat Pos.to_nat Pos.iter_op seq map Nat.add].
      left. rewrite Eq. replace (Z.of_nat i + Z.of_nat 0)%Z with (Z.of_nat i) by lia.
      f_equal. rewrite !vget_pw by auto. unfold next_act.
      apply Z.eqb_neq in H3, H7. rewrite H3, H7, Hlm, andb_false_r. reflexivity.
Qed.

Lemma next_activation_inplace_plain h n al fa fd :
  plain_acts n al ->
  next_activation_inplace h al (pw n fa) (pw n fd) 1 true = pw n (fun i => fa i + h * fd i).
Proof.
  intros Hl. rewrite next_activation_inplace_sep.
  - rewrite (next_activation_plain h 1 true n al fa fd); auto using pw_length.
    apply pw_ext. intros. ring.
  - rewrite (plain_slots n al Hl). eapply Forall_impl; [|apply (idents_range n)]. simpl; intros; lia.
  - rewrite (plain_slots n al Hl). apply idents_nodup.
Qed.

Local Open Scope R_scope.

(* ---- the textbook integrators on (q, v, a) for a field given by forward() ------------------ *)
Section Classical.
  Variable fwd : list R -> list R -> list R -> R -> list R * list R.
  Definition X := (list R * list R * list R)%type.
  (* d/dt (q, v, a) = (v, qacc, act_dot) *)
  Definition field (t : R) (x : X) : X :=
    let '(q, v, a) := x in (v, fst (fwd q v a t), snd (fwd q v a t)).
  Definition axpy (s : R) (k x : list R) : list R := vmap2 (fun xi ki => xi + s * ki) x k.
  Definition xaxpy (s : R) (k x : X) : X :=
    let '(kq, kv, ka) := k in let '(q, v, a) := x in (axpy s kq q, axpy s kv v, axpy s ka a).
  Definition comb (h : R) (x k1 k2 k3 k4 : list R) : list R :=
    pw (length x) (fun i => nth i x 0 + h / 6 * (nth i k1 0 + 2 * nth i k2 0 + 2 * nth i k3 0 + nth i k4 0)).
  Definition xcomb (h : R) (x k1 k2 k3 k4 : X) : X :=
    let '(q, v, a) := x in
    let '(q1, v1, a1) := k1 in let '(q2, v2, a2) := k2 in
    let '(q3, v3, a3) := k3 in let '(q4, v4, a4) := k4 in
    (comb h q q1 q2 q3 q4, comb h v v1 v2 v3 v4, comb h a a1 a2 a3 a4).
  (* explicit RK4 with nodes c = (0, c2, c3, c4); the classical method has c = (0, 1/2, 1/2, 1) *)
  Definition rk4_nodes (c2 c3 c4 : R) (h t : R) (x : X) : X :=
    let k1 := field t x in
    let k2 := field (t + c2 * h) (xaxpy (h / 2) k1 x) in
    let k3 := field (t + c3 * h) (xaxpy (h / 2) k2 x) in
    let k4 := field (t + c4 * h) (xaxpy h k3 x) in
    xcomb h x k1 k2 k3 k4.
  Definition classical_rk4 := rk4_nodes (1 / 2) (1 / 2) 1.
End Classical.

Definition fwd_shape (fwd : list R -> list R -> list R -> R -> list R * list R) : Prop :=
  forall q v a t, length (fst (fwd q v a t)) = length v /\ length (snd (fwd q v a t)) = length a.

Lemma axpy_pw s n fk fx : axpy s (pw n fk) (pw n fx) = pw n (fun i => fx i + s * fk i).
Proof. unfold axpy. apply (vmap2_pw (fun xi ki => xi + s * ki)). Qed.

Lemma comb_pw h n fx f1 f2 f3 f4 :
  comb h (pw n fx) (pw n f1) (pw n f2) (pw n f3) (pw n f4)
  = pw n (fun i => fx i + h / 6 * (f1 i + 2 * f2 i + 2 * f3 i + f4 i)).
Proof. unfold comb. rewrite pw_length. apply pw_ext. intros i Hi. rewrite !pw_nth by auto. reflexivity. Qed.

Ltac pwize L n f :=
  let E := fresh "E" in
  assert (E : L = pw n (fun i => nth i L 0)) by (etransitivity; [apply pw_of_list|f_equal; auto]);
  set (f := fun i : nat => nth i L 0) in E; rewrite E in *; clear E.

Section RK4.
  Variable m : model R.
  Variable fwd : list R -> list R -> list R -> R -> list R * list R.
  Variables (n na : nat).
  Hypothesis Hj : hinge_slide_layout n (joints m).
  Hypothesis Ha : plain_acts na (acts m).
  Hypothesis Hf : fwd_shape fwd.

  Let h := timestep m.

  Lemma accum_pw b k f g : accum b (pw k f) (pw k g) = pw k (fun i => f i + b * g i).
  Proof. unfold accum. apply (vmap2_pw (fun r v => r + b * v)). Qed.

  Lemma next_velocity_pw k f g s : next_velocity h (pw k f) (pw k g) s = pw k (fun i => f i + s * g i * h).
  Proof. unfold next_velocity. apply (vmap2_pw (fun v a => v + s * a * h)). Qed.

  Definition sQ (Q Vc : nat -> R) (a : R) := pw n (fun k => Q k + h * Vc k * a).
  Definition sV (V Ac : nat -> R) (a : R) := pw n (fun k => V k + a * Ac k * h).
  Definition sA (A Dc : nat -> R) (a : R) := pw na (fun k => A k + a * Dc k * h).

  Lemma axpy_sQ s a Q Vc : s = h * a -> axpy s (pw n Vc) (pw n Q) = sQ Q Vc a.
  Proof. intros E. rewrite axpy_pw. unfold sQ. apply pw_ext. intros. rewrite E. ring. Qed.
  Lemma axpy_sV s a V Ac : s = h * a -> axpy s (pw n Ac) (pw n V) = sV V Ac a.
  Proof. intros E. rewrite axpy_pw. unfold sV. apply pw_ext. intros. rewrite E. ring. Qed.
  Lemma axpy_sA s a A Dc : s = h * a -> axpy s (pw na Dc) (pw na A) = sA A Dc a.
  Proof. intros E. rewrite axpy_pw. unfold sA. apply pw_ext. intros. rewrite E. ring. Qed.

  (* one pass of the loop body of rungekutta4 on pointwise data *)
  Lemma rk_stage_pw i Q V A qp Vc Ac ac Dc tc t0 w rv ra rd :
    length qp = n -> length ac = na ->
    let t := t0 + vget rkA i * h in
    rk_stage m fwd i
      ({| qpos := qp; qvel := pw n Vc; act := ac; time := tc; qacc := pw n Ac; act_dot := pw na Dc; warmstart := w |},
       (pw n rv, pw n ra, pw na rd)) (pw n Q) (pw n V) (pw na A) t0
    = ({| qpos := sQ Q Vc (vget rkA i); qvel := sV V Ac (vget rkA i); act := sA A Dc (vget rkA i); time := t;
          qacc := fst (fwd (sQ Q Vc (vget rkA i)) (sV V Ac (vget rkA i)) (sA A Dc (vget rkA i)) t);
          act_dot := snd (fwd (sQ Q Vc (vget rkA i)) (sV V Ac (vget rkA i)) (sA A Dc (vget rkA i)) t);
          warmstart := w |},
       (pw n (fun k => rv k + vget rkB (i + 1)%Z * (V k + vget rkA i * Ac k * h)),
        accum (vget rkB (i + 1)%Z) (pw n ra) (fst (fwd (sQ Q Vc (vget rkA i)) (sV V Ac (vget rkA i)) (sA A Dc (vget rkA i)) t)),
        accum (vget rkB (i + 1)%Z) (pw na rd) (snd (fwd (sQ Q Vc (vget rkA i)) (sV V Ac (vget rkA i)) (sA A Dc (vget rkA i)) t)))).
  Proof.
    intros Hq Hac t.
    unfold rk_stage, rk_perturb, do_forward, rk_stage_time. cbn [qpos qvel act time qacc act_dot warmstart].
    fold h. change (@sadd R ScalarR t0 (@smul R ScalarR (vget rkA i) h)) with t.
    rewrite (next_position_hs h (vget rkA i) n (joints m) Q Vc qp Hj Hq).
    rewrite next_velocity_pw.
    unfold rk_perturb_activation.
    rewrite (vmap2_pw (fun a ad => a + vget rkA i * ad * h) na A Dc).
    fold (sQ Q Vc (vget rkA i)) (sV V Ac (vget rkA i)) (sA A Dc (vget rkA i)).
    destruct (fwd (sQ Q Vc (vget rkA i)) (sV V Ac (vget rkA i)) (sA A Dc (vget rkA i)) t) as [A' D'] eqn:E. cbn [fst snd].
    unfold rk_accumulate. cbn [qpos qvel act time qacc act_dot warmstart].
    unfold sV. rewrite accum_pw. reflexivity.
  Qed.

  Lemma fwd_len_pw kq kv ka (fq fv fa : nat -> R) t :
    length (fst (fwd (pw kq fq) (pw kv fv) (pw ka fa) t)) = kv /\
    length (snd (fwd (pw kq fq) (pw kv fv) (pw ka fa) t)) = ka.
  Proof. destruct (Hf (pw kq fq) (pw kv fv) (pw ka fa) t) as [x y]. rewrite pw_length in x, y. auto. Qed.

  Theorem rk4_is_classical_pw Q V A t w qa0 ad0 :
    let d := {| qpos := pw n Q; qvel := pw n V; act := pw na A; time := t;
                qacc := qa0; act_dot := ad0; warmstart := w |} in
    let d' := step_rk4 m fwd d in
    (qpos d', qvel d', act d') = classical_rk4 fwd (timestep m) t (pw n Q, pw n V, pw na A).
  Proof.
    intros d d'. unfold d', step_rk4, rk4_step, do_forward, d. cbn [qpos qvel act time qacc act_dot warmstart].
    fold h.
    unfold classical_rk4, rk4_nodes, field.
    destruct (fwd (pw n Q) (pw n V) (pw na A) t) as [A1 D1] eqn:E1.
    cbn [qpos qvel act time qacc act_dot warmstart fst snd].
    destruct (fwd_len_pw n n na Q V A t) as [LA1 LD1]. rewrite E1 in LA1, LD1. cbn [fst snd] in LA1, LD1.
    clear E1. pwize A1 n fa1. pwize D1 na fd1.
    match goal with |- (qpos (let '(_, _) := ?st in _), _, _) = _ => remember st as ST eqn:EST end.
    unfold rk_accumulate at 1 in EST. cbn [qpos qvel act time qacc act_dot warmstart] in EST.
    rewrite !map_pw, !accum_pw in EST.
    unfold for_range in EST. change (Z.to_nat (3 - 0)) with 3%nat in EST. cbn [for_nat] in EST.
    unfold xaxpy, xcomb. cbv beta iota zeta.
    (* stage 2 *)
    rewrite rk_stage_pw in EST by apply pw_length.
    change (vget rkA 0) with (1 / 2) in EST. change (vget rkB 0) with (1 / 6) in EST.
    change (vget rkB (0 + 1)) with (1 / 3) in EST. change (@s0 R ScalarR) with 0 in EST.
    rewrite !(axpy_sQ (h / 2) (1 / 2) Q V) by field.
    rewrite !(axpy_sV (h / 2) (1 / 2) V fa1) by field.
    rewrite !(axpy_sA (h / 2) (1 / 2) A fd1) by field.
    destruct (fwd_len_pw n n na (fun k => Q k + h * V k * (1 / 2)) (fun k => V k + 1 / 2 * fa1 k * h)
                (fun k => A k + 1 / 2 * fd1 k * h) (t + 1 / 2 * h)) as [LA2 LD2].
    fold (sQ Q V (1 / 2)) (sV V fa1 (1 / 2)) (sA A fd1 (1 / 2)) in LA2, LD2.
    remember (fst (fwd (sQ Q V (1 / 2)) (sV V fa1 (1 / 2)) (sA A fd1 (1 / 2)) (t + 1 / 2 * h))) as A2 eqn:EA2 in *.
    remember (snd (fwd (sQ Q V (1 / 2)) (sV V fa1 (1 / 2)) (sA A fd1 (1 / 2)) (t + 1 / 2 * h))) as D2 eqn:ED2 in *.
    clear EA2 ED2. pwize A2 n fa2. pwize D2 na fd2.
    unfold sQ, sV, sA in *. rewrite !accum_pw in EST.
    (* stage 3 *)
    rewrite rk_stage_pw in EST by apply pw_length.
    change (vget rkA (0 + 1)) with (1 / 2) in EST. change (vget rkB (0 + 1 + 1)) with (1 / 3) in EST.
    rewrite ?(axpy_sQ (h / 2) (1 / 2) Q) by field.
    rewrite ?(axpy_sV (h / 2) (1 / 2) V) by field.
    rewrite ?(axpy_sA (h / 2) (1 / 2) A) by field.
    match type of EST with context [fst (fwd ?a ?b ?c ?tt)] =>
      destruct (Hf a b c tt) as [LA3 LD3];
      remember (fst (fwd a b c tt)) as A3 eqn:EA3 in *; remember (snd (fwd a b c tt)) as D3 eqn:ED3 in * end.
    unfold sV, sA in LA3, LD3; rewrite pw_length in LA3, LD3.
    clear EA3 ED3. pwize A3 n fa3. pwize D3 na fd3.
    unfold sQ, sV, sA in *. rewrite !accum_pw in EST.
    (* stage 4 *)
    rewrite rk_stage_pw in EST by apply pw_length.
    change (vget rkA (0 + 1 + 1)) with 1 in EST. change (vget rkB (0 + 1 + 1 + 1)) with (1 / 6) in EST.
    rewrite ?(axpy_sQ h 1 Q) by field.
    rewrite ?(axpy_sV h 1 V) by field.
    rewrite ?(axpy_sA h 1 A) by field.
    match type of EST with context [fst (fwd ?a ?b ?c ?tt)] =>
      destruct (Hf a b c tt) as [LA4 LD4];
      remember (fst (fwd a b c tt)) as A4 eqn:EA4 in *; remember (snd (fwd a b c tt)) as D4 eqn:ED4 in * end.
    unfold sV, sA in LA4, LD4; rewrite pw_length in LA4, LD4.
    clear EA4 ED4. pwize A4 n fa4. pwize D4 na fd4.
    unfold sQ, sV, sA in *. rewrite !accum_pw in EST.
    (* final advance *)
    rewrite EST. cbv beta iota zeta. unfold advance. cbn [qpos qvel act time qacc act_dot warmstart].
    fold h. change (@s1 R ScalarR) with 1.
    rewrite next_velocity_pw.
    rewrite (next_position_inplace_hs h n (joints m) Q _ Hj).
    rewrite (next_activation_inplace_plain h na (acts m) A _ Ha).
    rewrite !comb_pw.
    f_equal; [f_equal|]; apply pw_ext; intros i Hi; field.
  Qed.

End RK4.

Lemma pw_nth_id (l : list R) n : length l = n -> pw n (fun i => nth i l 0) = l.
Proof. intros E. subst n. symmetry. apply pw_of_list. Qed.

(* the stages move d.time, the copy d.time <- time_t0 restores it, _advance adds one timestep *)
Lemma step_rk4_time (m : model R) fwd d : time (step_rk4 m fwd d) = time d + timestep m.
Proof.
  unfold step_rk4, rk4_step.
  set (d1 := do_forward fwd d).
  assert (T1 : time d1 = time d). { unfold d1, do_forward. destruct (fwd _ _ _ _). reflexivity. }
  match goal with |- time (let '(_, _) := ?st in _) = _ => destruct st as [d0 [[vr ar] adr]] end.
  unfold advance. cbn [time]. rewrite T1. reflexivity.
Qed.

(* MJWarp's rungekutta4 (after step()'s forward) on a hinge/slide model with plain actuators IS the
   classical RK4 method  x + h/6 (k1 + 2 k2 + 2 k3 + k4),  k_i = f(t0 + c_i h, x + a_i h k_{i-1}),
   c = (0, 1/2, 1/2, 1), for the (possibly time-dependent) field
   f(t, x) = (qvel, qacc(x, t), act_dot(x, t)) given by forward() *)
Theorem rk4_is_classical (m : model R) fwd (n na : nat) (d : data R) :
  hinge_slide_layout n (joints m) -> plain_acts na (acts m) -> fwd_shape fwd ->
  length (qpos d) = n -> length (qvel d) = n -> length (act d) = na ->
  let d' := step_rk4 m fwd d in
  (qpos d', qvel d', act d') = classical_rk4 fwd (timestep m) (time d) (qpos d, qvel d, act d)
  /\ time d' = time d + timestep m.
Proof.
  intros Hj Ha Hf Lq Lv La d'. split; [|apply step_rk4_time].
  destruct d as [q v a t qa ad w]. cbn [qpos qvel act time] in *.
  pose proof (rk4_is_classical_pw m fwd n na Hj Ha Hf (fun i => nth i q 0) (fun i => nth i v 0)
                (fun i => nth i a 0) t w qa ad) as K.
  cbv zeta in K. rewrite !pw_nth_id in K by auto. exact K.
Qed.

(* ---- the intermediate stages are evaluated at t0 + c_i h -------------------------------------- *)
Definition ex_model : model R :=
  {| timestep := 1; joints := [ {| jtype := 2; qposadr := 0; dofadr := 0 |} ]; acts := [] |}.
(* a force that grows with time: qacc = time *)
Definition ex_fwd (q v a : list R) (t : R) : list R * list R := (map (fun _ => t) v, map (fun _ => 0) a).
Definition ex_data : data R :=
  {| qpos := [0]; qvel := [0]; act := []; time := 0; qacc := []; act_dot := []; warmstart := [] |}.

Lemma ex_layout : hinge_slide_layout 1 (joints ex_model) /\ plain_acts 0 (acts ex_model) /\ fwd_shape ex_fwd.
Proof.
  repeat split; cbn; try reflexivity.
  - repeat constructor; discriminate.
  - constructor.
  - unfold ex_fwd. cbn. apply map_length.
  - unfold ex_fwd. cbn. apply map_length.
Qed.

(* for qacc = t, x(0) = v(0) = 0, h = 1 the model of rungekutta4 gives v(1) = 1/2, the exact value
   (a method that evaluated every stage at t0 would give 0; this was finding
   C08:rk4:stage-time-not-advanced before the repair) *)
Theorem rk4_time_dependent_example :
  qvel (step_rk4 ex_model ex_fwd ex_data) = [1 / 2].
Proof.
  destruct ex_layout as (Hj & Ha & Hf).
  destruct (rk4_is_classical ex_model ex_fwd 1 0 ex_data Hj Ha Hf eq_refl eq_refl eq_refl) as [K _].
  cbv zeta in K.
  assert (E : qvel (step_rk4 ex_model ex_fwd ex_data)
              = snd (fst (classical_rk4 ex_fwd (timestep ex_model) (time ex_data) (qpos ex_data, qvel ex_data, act ex_data)))).
  { rewrite <- K. reflexivity. }
  rewrite E.
  cbv [classical_rk4 rk4_nodes field xaxpy axpy xcomb comb pw vmap2 map seq length nth fst snd
       ex_fwd ex_model ex_data qpos qvel act time timestep].
  f_equal. field.
Qed.

(* ---- Euler ------------------------------------------------------------------------------- *)
Lemma vmap2_ext (f g : R -> R -> R) a b : (forall x y, f x y = g x y) -> vmap2 f a b = vmap2 g a b.
Proof. intros E. revert b; induction a; intros [|y b]; simpl; auto. rewrite E, IHa. reflexivity. Qed.

(* _advance(m, d, qacc): semi-implicit Euler.  The position update reads the NEW velocity. *)
Theorem advance_update (m : model R) (d : data R) (qa : list R) :
  let h := timestep m in
  let d' := advance m d qa None in
  qvel d' = vmap2 (fun v a => v + h * a) (qvel d) qa /\
  qpos d' = next_position_inplace h 1 (joints m) (qpos d) (qvel d') /\
  act d' = next_activation_inplace h (acts m) (act d) (act_dot d) 1 true /\
  time d' = time d + h /\
  warmstart d' = qacc d.
Proof.
  intros h d'. unfold d', advance. cbn [qpos qvel act time qacc act_dot warmstart]. fold h.
  repeat split. unfold next_velocity. apply vmap2_ext. intros. sR. ring.
Qed.

Theorem euler_update (m : model R) (d : data R) :
  let h := timestep m in
  let d' := euler_step m d in
  qvel d' = vmap2 (fun v a => v + h * a) (qvel d) (qacc d) /\
  qpos d' = next_position_inplace h 1 (joints m) (qpos d) (qvel d') /\
  act d' = next_activation_inplace h (acts m) (act d) (act_dot d) 1 true /\
  time d' = time d + h /\
  warmstart d' = qacc d.
Proof. apply advance_update. Qed.

(* ---- _next_position keeps every quaternion of qpos unit, moves the rest linearly ------------- *)
Theorem next_position_unit (h scale : R) (joints : list joint) (qin v out : list R) :
  layout_ok (length out) joints ->
  let r := next_position h scale joints qin v out in
  forall j, In j joints ->
    let a := qposadr j in let d := dofadr j in
    (jtype j = 0%Z ->
       nrm2 [vget r (a + 3); vget r (a + 4); vget r (a + 5); vget r (a + 6)] = 1 /\
       vget r a = vget qin a + h * (vget v d * scale) /\
       vget r (a + 1) = vget qin (a + 1) + h * (vget v (d + 1) * scale) /\
       vget r (a + 2) = vget qin (a + 2) + h * (vget v (d + 2) * scale)) /\
    (jtype j = 1%Z -> nrm2 [vget r a; vget r (a + 1); vget r (a + 2); vget r (a + 3)] = 1) /\
    (jtype j <> 0%Z -> jtype j <> 1%Z -> vget r a = vget qin a + h * vget v d * scale).
Proof.
  intros Hok r j Hj a d. repeat split.
  - apply (next_position_free h scale joints qin v out Hok j Hj H).
  - apply (next_position_free h scale joints qin v out Hok j Hj H).
  - apply (next_position_free h scale joints qin v out Hok j Hj H).
  - apply (next_position_free h scale joints qin v out Hok j Hj H).
  - intros H1. apply (next_position_ball h scale joints qin v out Hok j Hj H1).
  - intros H0 H1. apply (next_position_hinge_slide h scale joints qin v out Hok j Hj H0 H1).
Qed.

(* the in-place launch of _advance (input array = output array) is the same function *)
Theorem next_position_inplace_unit (h scale : R) (joints : list joint) (q v : list R) :
  layout_ok (length q) joints ->
  next_position_inplace h scale joints q v = next_position h scale joints q v q.
Proof.
  intros [Hr Hnd]. apply next_position_inplace_sep; auto.
  eapply Forall_impl; [|exact Hr]. simpl; intros; lia.
Qed.

(* non-vacuity: a free + ball + hinge layout is well formed; a 2-hinge model with one plain actuator *)
Example layout_ok_example :
  layout_ok 12 [ {| jtype := 0; qposadr := 0; dofadr := 0 |}; {| jtype := 1; qposadr := 7; dofadr := 6 |};
                 {| jtype := 3; qposadr := 11; dofadr := 9 |} ].
Proof.
  split.
  - unfold in_range. apply Forall_forall. intros x Hx. vm_compute in Hx.
    repeat (destruct Hx as [<-|Hx]; [lia|]). contradiction.
  - assert (E : flat_map jslots
        [ {| jtype := 0; qposadr := 0; dofadr := 0 |}; {| jtype := 1; qposadr := 7; dofadr := 6 |};
          {| jtype := 3; qposadr := 11; dofadr := 9 |} ] = idents 12) by (vm_compute; reflexivity).
    rewrite E. apply idents_nodup.
Qed.

Example rk4_hypotheses_example :
  hinge_slide_layout 2 [ {| jtype := 3; qposadr := 0; dofadr := 0 |}; {| jtype := 2; qposadr := 1; dofadr := 1 |} ]
  /\ plain_acts 1 [ {| dyntype := 2%Z; actadr := 0%Z; actnum := 1%Z; dynprm0 := 1; rlo := 0; rhi := 0; actlimited := false |} ]
  /\ fwd_shape (fun q v a t => (v, a)).
Proof.
  repeat split; cbn; try reflexivity; repeat constructor; try discriminate.
Qed.

(* ---- T tie: the hand-written kernels of Model/Integrate.v are the machine translations --------- *)
From VF Require Import Base.Kernel.
From VF Require Gen.kforward Gen.support_act.
From Coq Require String.
Import Coq.Strings.String.StringSyntax.
Local Open Scope string_scope.
Local Open Scope list_scope.

Section TTie.
Context {S : Type} `{Scalar S}.
Local Open Scope Z_scope.

(* the hand transcription of one _next_position task IS the machine translation of the kernel
   (Gen/kforward.v, regenerated from forward.py on every run): same stores, same order *)
Lemma npos_writes_is_kernel (w jid : Z) (h scale : S) (jnt_type jnt_qposadr jnt_dofadr : Z -> Z)
    (qpos qvel : list S) (qpos_out : Z -> Z -> S) (orc : nat -> Z) (ts : Z -> S) (nts : Z) :
  ts (Z.rem w nts) = h ->
  Gen.kforward.k__next_position w jid ts jnt_type jnt_qposadr jnt_dofadr
      (fun _ i => vget qpos i) (fun _ i => vget qvel i) scale qpos_out orc nts
  = map (fun p => mkW "qpos_out" [w; fst p] KSet (VS (snd p)))
        (npos_writes h scale qvel qpos
           {| jtype := jnt_type jid; qposadr := jnt_qposadr jid; dofadr := jnt_dofadr jid |}).
Proof.
  intros Hh. unfold Gen.kforward.k__next_position, npos_writes. cbv zeta. rewrite Hh.
  cbn [jtype qposadr dofadr].
  destruct (jnt_type jid =? 0); [|destruct (jnt_type jid =? 1)];
    cbn [fst snd map app]; rewrite ?Z.add_0_r; reflexivity.
Qed.

Lemma vmap2_vget (g : S -> S -> S) (a b : list S) (i : Z) :
  0 <= i < Z.of_nat (length a) -> 0 <= i < Z.of_nat (length b) ->
  vget (vmap2 g a b) i = g (vget a i) (vget b i).
Proof.
  intros Ha Hb. unfold vget.
  assert (Ha' : (Z.to_nat i < length a)%nat) by lia.
  assert (Hb' : (Z.to_nat i < length b)%nat) by lia.
  clear Ha Hb. revert b Ha' Hb'. generalize (Z.to_nat i) as k. induction a; intros k [|y b] Ha Hb; simpl in *; try lia.
  destruct k; auto. apply IHa; lia.
Qed.

(* ... and _next_velocity: task (w, i) stores the i-th component of the model's result *)
Lemma next_velocity_is_kernel (w i : Z) (h scale : S) (qvel qacc : list S) (out : Z -> Z -> S)
    (orc : nat -> Z) (ts : Z -> S) (nts : Z) :
  ts (Z.rem w nts) = h ->
  0 <= i < Z.of_nat (length qvel) -> 0 <= i < Z.of_nat (length qacc) ->
  Gen.kforward.k__next_velocity w i ts (fun _ k => vget qvel k) (fun _ k => vget qacc k) scale out orc nts
  = [mkW "qvel_out" [w; i] KSet (VS (vget (next_velocity h qvel qacc scale) i))].
Proof.
  intros Hh Hv Ha. unfold Gen.kforward.k__next_velocity, next_velocity. cbv zeta. rewrite Hh.
  rewrite vmap2_vget by auto. reflexivity.
Qed.

(* support.next_act, machine-translated (Gen/support_act.v), is the model's next_act *)
Lemma next_act_is_translated (h : S) (dyn : Z) (prm : list S) (lo hi a ad s : S) (c : bool) :
  Gen.support_act.next_act h dyn prm [lo; hi] a ad s c
  = next_act h dyn (vget prm 0) lo hi a ad s c.
Proof.
  unfold Gen.support_act.next_act, next_act, MJ_MINVAL. cbv zeta.
  destruct (dyn =? 3); [|destruct (dyn =? 7)]; destruct c; reflexivity.
Qed.
End TTie.

Local Close Scope string_scope.

(* ---- euler(): implicit polynomial joint damping -------------------------------------------------- *)
Local Open Scope string_scope.
Local Open Scope list_scope.
Section TTieDamp.
Context {S : Type} `{Scalar S}.
Local Open Scope Z_scope.

(* util_misc._poly_force_deriv with flg_odd = 1 is the model's damping_deriv *)
Lemma damping_deriv_is_translated (d p0 p1 v : S) :
  Gen.kforward._poly_force_deriv d [p0; p1] v 1 = damping_deriv d p0 p1 v.
Proof. reflexivity. Qed.

(* the kernel _compute_damping_deriv stores damping_deriv (flag 1: |v|) of its dof *)
Lemma compute_damping_deriv_is_kernel (w i : Z) (damp : Z -> Z -> S) (dpoly : Z -> Z -> list S)
    (qvel : Z -> Z -> S) (out : Z -> Z -> S) (orc : nat -> Z) (n1 n2 : Z) (p0 p1 : S) :
  dpoly (Z.rem w n2) i = [p0; p1] ->
  Gen.kforward.k__compute_damping_deriv w i damp dpoly qvel out orc n1 n2
  = [mkW "deriv_out" [w; i] KSet (VS (damping_deriv (damp (Z.rem w n1) i) p0 p1 (qvel w i)))].
Proof. intros E. unfold Gen.kforward.k__compute_damping_deriv. cbv zeta. rewrite E. reflexivity. Qed.

(* the kernel _euler_damp_qfrc adds timestep * deriv to the entry rowadr + rownnz - 1 of the cloned M *)
Lemma euler_damp_qfrc_is_kernel (w t : Z) (ts : Z -> S) (h : S) (rownnz rowadr : Z -> Z)
    (deriv : Z -> Z -> S) (M : Z -> Z -> S) (orc : nat -> Z) (nts : Z) :
  ts (Z.rem w nts) = h ->
  let adr := rowadr t + rownnz t - 1 in
  Gen.kforward.k__euler_damp_qfrc w t ts rownnz rowadr deriv M orc nts
  = [mkW "M_integration_out" [w; adr] KSet (VS (sadd (M w adr) (smul h (deriv w t))))].
Proof. intros E adr. unfold Gen.kforward.k__euler_damp_qfrc. cbv zeta. rewrite E. reflexivity. Qed.
End TTieDamp.

Local Close Scope string_scope.
Local Open Scope R_scope.

(* value of the damper derivative for EVERY velocity: it depends on |v| only (the damper force
   v (d + p0 |v| + p1 v^2) is odd, its derivative even) *)
Lemma damping_deriv_formula (d p0 p1 v : R) :
  damping_deriv d p0 p1 v = d + 2 * p0 * Rabs v + 3 * p1 * (v * v).
Proof.
  assert (E : Rabs v * Rabs v = v * v).
  { rewrite <- Rabs_mult. apply Rabs_pos_eq. nra. }
  unfold damping_deriv. sR. cbv zeta.
  replace (IZR 3 * p1 * Rabs v * Rabs v) with (3 * p1 * (Rabs v * Rabs v)) by ring.
  rewrite E. ring.
Qed.

Lemma damping_deriv_even (d p0 p1 v : R) : damping_deriv d p0 p1 (- v) = damping_deriv d p0 p1 v.
Proof. rewrite !damping_deriv_formula, Rabs_Ropp. ring. Qed.

(* it is the derivative of the damper force f(v) = v (d + p0 |v| + p1 v^2) away from 0 on either side *)
Lemma damping_deriv_is_slope_pos (d p0 p1 v : R) : 0 < v ->
  derivable_pt_lim (fun x => x * (d + p0 * x + p1 * (x * x))) v (damping_deriv d p0 p1 v).
Proof.
  intros Hv. rewrite damping_deriv_formula, (Rabs_pos_eq v) by lra.
  replace (d + 2 * p0 * v + 3 * p1 * (v * v))
    with (1 * (d + p0 * v + p1 * (v * v)) + v * (0 + p0 * 1 + p1 * (1 * v + v * 1))) by ring.
  apply (derivable_pt_lim_mult (fun x => x) (fun x => d + p0 * x + p1 * (x * x))).
  - apply derivable_pt_lim_id.
  - apply (derivable_pt_lim_plus (fun x => d + p0 * x) (fun x => p1 * (x * x))).
    + apply (derivable_pt_lim_plus (fun _ => d) (fun x => p0 * x)).
      * apply derivable_pt_lim_const.
      * apply (derivable_pt_lim_scal (fun x => x) p0 v 1). apply derivable_pt_lim_id.
    + apply (derivable_pt_lim_scal (fun x => x * x) p1 v (1 * v + v * 1)).
      apply (derivable_pt_lim_mult (fun x => x) (fun x => x)); apply derivable_pt_lim_id.
Qed.

Lemma damping_deriv_is_slope_neg (d p0 p1 v : R) : v < 0 ->
  derivable_pt_lim (fun x => x * (d + p0 * (- x) + p1 * (x * x))) v (damping_deriv d p0 p1 v).
Proof.
  intros Hv. rewrite damping_deriv_formula, (Rabs_left v) by lra.
  replace (d + 2 * p0 * - v + 3 * p1 * (v * v))
    with (1 * (d + p0 * (- v) + p1 * (v * v)) + v * (0 + p0 * (- 1) + p1 * (1 * v + v * 1))) by ring.
  apply (derivable_pt_lim_mult (fun x => x) (fun x => d + p0 * (- x) + p1 * (x * x))).
  - apply derivable_pt_lim_id.
  - apply (derivable_pt_lim_plus (fun x => d + p0 * (- x)) (fun x => p1 * (x * x))).
    + apply (derivable_pt_lim_plus (fun _ => d) (fun x => p0 * (- x))).
      * apply derivable_pt_lim_const.
      * apply (derivable_pt_lim_scal (fun x => - x) p0 v (- 1)).
        apply (derivable_pt_lim_opp (fun x => x) v 1). apply derivable_pt_lim_id.
    + apply (derivable_pt_lim_scal (fun x => x * x) p1 v (1 * v + v * 1)).
      apply (derivable_pt_lim_mult (fun x => x) (fun x => x)); apply derivable_pt_lim_id.
Qed.

Local Close Scope R_scope.

(* ---- S tie: the host code of forward.py has the stage order the model copies ------------------- *)
From Coq Require String.
Import Coq.Strings.String.StringSyntax.
From VF Require Import Model.Pipeline Gen.Skel_pipeline Model.IntegrateFacts.
Local Open Scope string_scope.

(* _advance: activation, velocity (from the qacc argument, in place), `qvel or d.qvel`, position
   (in place, reading qvel_in), ctrl history, time, warmstart <- d.qacc, sleep tail *)
Lemma advance_order_fact :
  flat_of false no_val "forward._advance" ["m"; "d"; "qacc"] = advance_events "qacc"
  /\ advance_params = advance_params_expected.
Proof. split; vm_compute; reflexivity. Qed.

Lemma euler_order_fact : flat_of true no_val "forward.euler" ["m"; "d"] = euler_events.
Proof. vm_compute. reflexivity. Qed.

Lemma implicit_order_fact : flat_of true no_val "forward.implicit" ["m"; "d"] = implicit_events.
Proof. vm_compute. reflexivity. Qed.

(* rungekutta4: tableau text, B[0] accumulation first, three passes (perturb from qpos_t0 / qvel_t0 /
   act_t0 with scale a, forward, accumulate b), restore t0 state, act_dot <- act_dot_rk,
   _advance(m, d, qacc_rk, qvel_rk) *)
Lemma rk4_order_fact : flat_of true no_val "forward.rungekutta4" ["m"; "d"] = rk4_events.
Proof. vm_compute. reflexivity. Qed.

Lemma step_order_fact : flat_of true no_val "forward.step" ["m"; "d"] = step_events.
Proof. vm_compute. reflexivity. Qed.

(* a step with integrator = RK4 evaluates forward() exactly four times, and _advance once *)
Lemma rk4_forward_count_fact :
  count_in "forward.forward" step_rk4_flat = 4%nat /\ evs_ok step_rk4_flat = true /\
  count_in "forward._advance" (flat_of true val_rk4 "forward.step" ["m"; "d"]) = 0%nat /\
  count_in "forward._advance" (flat_of true no_val "forward.rungekutta4" ["m"; "d"]) = 1%nat.
Proof. vm_compute. repeat split; reflexivity. Qed.
