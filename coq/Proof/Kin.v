(* Proof/Kin.v -- C01: forward kinematics and subtree accumulation, proofs over R about the
   executable models of Model/Kin.v.

   Main results
     branches_cover_proof        every non-world body lies on a branch; each branch is a root-to-leaf
                                 chain closed under parents ([closed])
     fk_steps_eq_spec            ANY sequence of stored-parent body steps in which no step precedes the
                                 step of its parent and which covers all bodies ends, from ANY stored
                                 poses, in the poses of mj_kinematics ([fk_spec])
     fk_branch_eq_spec_proof     ... hence every permutation of the branch tasks of _kinematics_branch
     fk_interleaved_eq_spec_proof ... and every interleaving of their steps (concurrent tasks)
     tree_accumulate             generic: pushing values leaf-to-root, each body once, children before
                                 parents, in any such order, gives the recursive subtree sum
     tree_accumulate_levels      ... instantiated to put_model's body_tree levels, any order inside a level
     subtree_com_levels_proof    ... instantiated to com_pos
     fk_zero_quat_agrees_proof   zero free quaternion: model = specification = identity (regression of the
                                 repaired finding C01:zero-quaternion-normalize)
   Since /repo uses math.normalize_quat in _kinematics_branch, no hypothesis on the norm of the state's
   free / ball / mocap quaternions is needed ([nq_agree]: normalize_quat = mju_normalize4 everywhere). *)
From Coq Require Import ZArith Reals List Bool Arith Lia Lra Psatz Permutation Sorted.
From VF Require Import Base.Scalar Base.ScalarR Base.Vec Base.Loop Gen.math Proof.Rot Model.Kin.
Import ListNotations.

(* ==================== part 1 ==================== *)
(* ------------------------------------------------------------ list utilities *)
Lemma upd_length {A} (l : list A) i x : length (upd l i x) = length l.
Proof. revert i; induction l; intros [|i]; simpl; auto. Qed.

Lemma nth_upd_eq {A} (l : list A) i x d : i < length l -> nth i (upd l i x) d = x.
Proof. revert i; induction l; intros [|i] Hi; simpl in *; try lia; auto. apply IHl; lia. Qed.

Lemma nth_upd_neq {A} (l : list A) i j x d : i <> j -> nth j (upd l i x) d = nth j l d.
Proof. revert i j; induction l; intros [|i] [|j] Hij; simpl; auto; try lia. Qed.

Lemma fold_left_concat {A B} (f : A -> B -> A) (ls : list (list B)) (a : A) :
  fold_left (fun acc l => fold_left f l acc) ls a = fold_left f (concat ls) a.
Proof. revert a; induction ls; intros; simpl; auto. rewrite fold_left_app. apply IHls. Qed.

(* lists built by appending one element computed from the prefix *)
Section Build.
  Context {A X : Type}.
  Variable g : list A -> X -> A.
  Definition build (xs : list X) (acc : list A) : list A :=
    fold_left (fun acc x => acc ++ [g acc x]) xs acc.

  Lemma build_length xs acc : length (build xs acc) = length acc + length xs.
  Proof.
    revert acc; induction xs; intros; simpl; [lia|].
    unfold build in *. simpl. rewrite IHxs, app_length. simpl. lia.
  Qed.

  Lemma build_prefix xs acc k d : k < length acc -> nth k (build xs acc) d = nth k acc d.
  Proof.
    revert acc; induction xs; intros; simpl; auto.
    unfold build in *; simpl. rewrite IHxs by (rewrite app_length; simpl; lia).
    apply app_nth1; auto.
  Qed.

  Lemma build_app xs ys acc : build (xs ++ ys) acc = build ys (build xs acc).
  Proof. unfold build. apply fold_left_app. Qed.

  (* the element produced for xs[i] is g applied to the list built so far *)
  Lemma build_nth xs acc i d dx :
    i < length xs ->
    nth (length acc + i) (build xs acc) d = g (build (firstn i xs) acc) (nth i xs dx).
  Proof.
    intros Hi.
    destruct (nth_split xs dx Hi) as (l1 & l2 & E & L1).
    rewrite E at 1. rewrite build_app.
    assert (F : firstn i xs = l1).
    { rewrite E, <- L1. rewrite firstn_app, Nat.sub_diag, firstn_all. simpl. apply app_nil_r. }
    rewrite F.
    change (build (nth i xs dx :: l2) (build l1 acc)) with (build l2 (build l1 acc ++ [g (build l1 acc) (nth i xs dx)])).
    rewrite build_prefix.
    2:{ rewrite app_length, build_length, L1. simpl. lia. }
    rewrite app_nth2 by (rewrite build_length; lia).
    rewrite build_length, L1, Nat.sub_diag. reflexivity.
  Qed.

  Lemma build_firstn_nth xs acc i k d :
    k < length acc + i -> nth k (build (firstn i xs) acc) d = nth k (build xs acc) d.
  Proof.
    intros Hk. rewrite <- (firstn_skipn i xs) at 2. rewrite build_app.
    destruct (le_lt_dec (length xs) i).
    - rewrite skipn_all2 by auto. reflexivity.
    - symmetry. apply build_prefix. rewrite build_length, firstn_length. lia.
  Qed.
End Build.

(* ------------------------------------------------------------ topology *)
Section Topo.
  Variable ps : list nat.
  Local Notation n := (length ps).
  Definition wf_par : Prop := forall b, 0 < b < n -> par ps b < b.
  Hypothesis WF : wf_par.

  (* a list of body steps is [closed] w.r.t. the already written set [done] when no step
     touches the world or leaves the tree and every step finds its parent written *)
  Fixpoint closed (done l : list nat) : Prop :=
    match l with
    | [] => True
    | x :: r => x <> 0 /\ x < n /\ In (par ps x) done /\ closed (x :: done) r
    end.

  Lemma closed_incl d1 d2 l : incl d1 d2 -> closed d1 l -> closed d2 l.
  Proof.
    revert d1 d2; induction l; simpl; auto. intros d1 d2 Hi (H0 & H1 & H2 & H3).
    repeat split; auto. eapply IHl; [|exact H3]. intros y [->|Hy]; simpl; auto.
  Qed.

  Lemma closed_app d l1 l2 : closed d l1 -> closed (rev l1 ++ d) l2 -> closed d (l1 ++ l2).
  Proof.
    revert d; induction l1; simpl; auto. intros d (H0 & H1 & H2 & H3) H4.
    repeat split; auto. apply IHl1; auto.
    eapply closed_incl; [|exact H4]. intros y Hy. rewrite in_app_iff in *. simpl.
    destruct Hy as [Hy|Hy]; auto. rewrite in_app_iff in Hy. simpl in Hy. intuition.
  Qed.

  Lemma closed_in d l x : closed d l -> In x l -> x <> 0 /\ x < n.
  Proof.
    revert d; induction l; simpl; [tauto|]. intros d (H0 & H1 & H2 & H3) [->|Hx]; auto. eauto.
  Qed.

  Lemma chain_last f b : b <> 0 -> b <= f -> exists l, ancestor_chain f ps b = l ++ [b].
  Proof.
    intros Hb Hf. destruct f; [lia|]. simpl. destruct (Nat.eqb_spec b 0); [lia|]. eauto.
  Qed.

  (* each branch is a root-to-leaf chain: no world, inside the tree, every body preceded by its parent *)
  Lemma chain_closed f b : b < n -> b <= f -> closed [0] (ancestor_chain f ps b).
  Proof.
    revert b; induction f; intros b Hb Hf; simpl; auto.
    destruct (Nat.eqb_spec b 0); simpl; auto.
    assert (Hp : par ps b < b) by (apply WF; lia).
    apply closed_app; [apply IHf; lia|].
    simpl. repeat split; auto.
    destruct (Nat.eq_dec (par ps b) 0) as [E|E].
    - rewrite E. apply in_or_app. right. simpl. auto.
    - destruct (chain_last f (par ps b)) as (l & El); auto; [lia|].
      rewrite El. apply in_or_app. left. rewrite rev_app_distr. simpl. auto.
  Qed.

  Lemma chain_self f b : b <> 0 -> b <= f -> In b (ancestor_chain f ps b).
  Proof. intros. destruct (chain_last f b) as (l & ->); auto. apply in_or_app. right. simpl. auto. Qed.

  Lemma chain_parent f b : b <> 0 -> b < n -> b <= f -> par ps b <> 0 ->
    forall x, In x (ancestor_chain f ps (par ps b)) -> In x (ancestor_chain (Datatypes.S f) ps b).
  Proof.
    intros. simpl. destruct (Nat.eqb_spec b 0); [lia|]. apply in_or_app. auto.
  Qed.

  (* fuel: any fuel >= b gives the same chain *)
  Lemma chain_fuel f1 f2 b : b < n -> b <= f1 -> b <= f2 -> ancestor_chain f1 ps b = ancestor_chain f2 ps b.
  Proof.
    revert f2 b; induction f1; intros f2 b Hb H1 H2.
    - assert (b = 0) by lia. subst. destruct f2; simpl; auto.
    - destruct f2; simpl.
      + assert (b = 0) by lia. subst. reflexivity.
      + destruct (Nat.eqb_spec b 0); auto.
        assert (Hp : par ps b < b) by (apply WF; lia).
        f_equal. apply IHf1; lia.
  Qed.

  (* ancestors are on the chain: if c is on the chain of l then so is its parent (unless the world) *)
  Lemma chain_parent_closed f l c : l < n -> l <= f -> In c (ancestor_chain f ps l) -> par ps c <> 0 ->
    In (par ps c) (ancestor_chain f ps l).
  Proof.
    revert l; induction f; intros l Hl Hf Hc Hp; simpl in *; [tauto|].
    destruct (Nat.eqb_spec l 0); simpl in *; [tauto|].
    assert (Hpl : par ps l < l) by (apply WF; lia).
    apply in_app_or in Hc. destruct Hc as [Hc|[<-|[]]].
    - apply in_or_app. left. apply IHf; auto; lia.
    - apply in_or_app. left. apply chain_self; auto. lia.
  Qed.

  Lemma leaves_spec b : In b (leaves ps) <-> (0 < b < n /\ children_count ps b = 0).
  Proof.
    unfold leaves. rewrite filter_In, in_seq, Nat.eqb_eq. lia.
  Qed.

  Lemma children_count_pos b c : 0 < c < n -> par ps c = b -> children_count ps b <> 0.
  Proof.
    intros Hc Hp. unfold children_count.
    assert (In (par ps c) (filter (fun p => Nat.eqb p b) (tl ps))).
    { apply filter_In. split; [|apply Nat.eqb_eq; auto].
      unfold par. destruct ps as [|p0 r]; simpl in *; [lia|].
      destruct c; [lia|]. apply nth_In. lia. }
    destruct (filter _ _); simpl in *; [tauto|lia].
  Qed.

  Lemma children_count_zero b : children_count ps b = 0 -> forall c, 0 < c < n -> par ps c <> b.
  Proof. intros Hz c Hc Hp. eapply children_count_pos; eauto. Qed.

  (* if b has a child, it has one: decidable search *)
  Lemma child_or_leaf b : children_count ps b = 0 \/ exists c, 0 < c < n /\ par ps c = b.
  Proof.
    destruct (Nat.eq_dec (children_count ps b) 0) as [E|E]; auto. right.
    unfold children_count in E.
    destruct (filter (fun p => Nat.eqb p b) (tl ps)) as [|p l] eqn:F; [simpl in E; lia|].
    assert (Hin : In p (filter (fun p => Nat.eqb p b) (tl ps))) by (rewrite F; simpl; auto).
    apply filter_In in Hin. destruct Hin as (Hin & Hpb). apply Nat.eqb_eq in Hpb. subst p.
    destruct (In_nth _ _ 0 Hin) as (k & Hk & Ek).
    exists (Datatypes.S k). unfold par. destruct ps; simpl in *; [lia|]. split; auto. lia.
  Qed.

  (* every non-world body lies on some branch *)
  Lemma branches_cover_aux k : forall b, 0 < b < n -> n - b <= k ->
    exists l, In l (leaves ps) /\ In b (ancestor_chain n ps l).
  Proof.
    induction k; intros b Hb Hk; [lia|].
    destruct (child_or_leaf b) as [Hz|(c & Hc & Hp)].
    - exists b. split; [apply leaves_spec; auto|]. apply chain_self; lia.
    - assert (Hcb : b < c) by (rewrite <- Hp; apply WF; auto).
      destruct (IHk c) as (l & Hl & Hin); auto; [lia|].
      exists l. split; auto. rewrite <- Hp.
      apply leaves_spec in Hl. apply chain_parent_closed; auto; lia.
  Qed.

  Theorem branches_cover_proof :
    (forall b, 0 < b < n -> exists br, In br (branches ps) /\ In b br) /\
    (forall br, In br (branches ps) -> closed [0] br).
  Proof.
    split.
    - intros b Hb. destruct (branches_cover_aux (n - b) b Hb) as (l & Hl & Hin); auto.
      exists (ancestor_chain n ps l). split; auto. unfold branches. apply in_map. auto.
    - intros br Hbr. unfold branches in Hbr. apply in_map_iff in Hbr. destruct Hbr as (l & <- & Hl).
      apply leaves_spec in Hl. apply chain_closed; lia.
  Qed.
End Topo.

(* ==================== part 2 ==================== *)
Local Open Scope R_scope.

(* ------------------------------------------------------------ quaternion facts *)
Definition unitq (q : list R) : Prop := exists a b c d, q = [a; b; c; d] /\ a*a + b*b + c*c + d*d = 1.
Definition is3 (v : list R) : Prop := exists x y z, v = [x; y; z].
Definition is4 (q : list R) : Prop := exists a b c d, q = [a; b; c; d].
(* norm at least mjMINVAL: where Warp's wp.normalize and mju_normalize4 agree ([qnorm_agree]); no longer a
   hypothesis of the kinematics theorems since the kernel uses math.normalize_quat *)
Definition qnorm_ok (q : list R) : Prop := @mj_minval R _ <= @vlen R _ q.

Lemma minval_pos : 0 < @mj_minval R _.
Proof. unfold mj_minval. sR. lra. Qed.
Lemma minval_lt1 : @mj_minval R _ < 1.
Proof. unfold mj_minval. sR. lra. Qed.

Lemma vlen_q4 a b c d : @vlen R _ [a; b; c; d] = sqrt (a*a + b*b + c*c + d*d).
Proof. unfold vlen. reflexivity. Qed.

Lemma unitq_world : unitq (oxquat (@world_out R _)).
Proof. exists 1, 0, 0, 0. split; [reflexivity|ring]. Qed.

Lemma unitq_vlen q : unitq q -> @vlen R _ q = 1.
Proof. intros (a & b & c & d & -> & E). rewrite vlen_q4, E. apply sqrt_1. Qed.

(* the two normalisations agree away from zero *)
Lemma qnorm_agree q : qnorm_ok q -> qnormalize q = qnormalize_mj q.
Proof.
  unfold qnorm_ok, qnormalize, qnormalize_mj. intros Hq.
  pose proof minval_pos.
  change (@sltb R ScalarR s0 (vlen q)) with (Rltb 0 (vlen q)).
  change (@sltb R ScalarR (vlen q) mj_minval) with (Rltb (vlen q) mj_minval).
  destruct (Rltb 0 (vlen q)) eqn:E1.
  - destruct (Rltb (vlen q) mj_minval) eqn:E2; [apply Rltb_true in E2; lra|reflexivity].
  - apply Rltb_false in E1. lra.
Qed.

(* the repaired kernel's normalisation (math.normalize_quat, regenerated in Gen/math.v) IS
   mju_normalize4 as written in the specification, for every quaternion, zero included *)
Lemma nq_agree q : normalize_quat q = qnormalize_mj q.
Proof.
  unfold normalize_quat, qnormalize_mj, qnormalize.
  change (@slit R ScalarR 1 1000000000000000) with (@mj_minval R ScalarR).
  change (@sltb R ScalarR (vlen q) mj_minval) with (Rltb (vlen q) mj_minval).
  change (@sltb R ScalarR s0 (vlen q)) with (Rltb 0 (vlen q)).
  pose proof minval_pos.
  destruct (Rltb (vlen q) mj_minval) eqn:E1; [reflexivity|].
  apply Rltb_false in E1.
  destruct (Rltb 0 (vlen q)) eqn:E2; [reflexivity|]. apply Rltb_false in E2. lra.
Qed.

Lemma qnormalize_mj_unit a b c d : unitq (qnormalize_mj [a; b; c; d]).
Proof.
  unfold qnormalize_mj.
  change (@sltb R ScalarR (vlen [a;b;c;d]) mj_minval) with (Rltb (vlen [a;b;c;d]) mj_minval).
  destruct (Rltb _ _) eqn:E.
  - exists 1, 0, 0, 0. split; [reflexivity|]. ring.
  - apply Rltb_false in E. pose proof minval_pos as Hm.
    set (l := @vlen R _ [a;b;c;d]) in *.
    assert (Hl : l * l = a*a+b*b+c*c+d*d).
    { unfold l. rewrite vlen_q4. apply sqrt_sqrt. nra. }
    exists (a * (1 / l)), (b * (1 / l)), (c * (1 / l)), (d * (1 / l)). split.
    + unfold vscaler. simpl. sR. reflexivity.
    + replace (a * (1 / l) * (a * (1 / l)) + b * (1 / l) * (b * (1 / l)) + c * (1 / l) * (c * (1 / l)) + d * (1 / l) * (d * (1 / l)))
        with ((a*a+b*b+c*c+d*d) * (1 / l) * (1 / l)) by ring.
      rewrite <- Hl. field. lra.
Qed.

Lemma qnormalize_mj_id q : unitq q -> qnormalize_mj q = q.
Proof.
  intros Hu. pose proof (unitq_vlen q Hu) as Hl. destruct Hu as (a & b & c & d & -> & E).
  unfold qnormalize_mj. rewrite Hl.
  change (@sltb R ScalarR 1 mj_minval) with (Rltb 1 mj_minval).
  pose proof minval_lt1. destruct (Rltb 1 mj_minval) eqn:E2; [apply Rltb_true in E2; lra|].
  unfold vscaler. simpl. sR. repeat f_equal; field.
Qed.

Lemma qnorm_ok_unit q : unitq q -> qnorm_ok q.
Proof. intros Hu. unfold qnorm_ok. rewrite (unitq_vlen q Hu). pose proof minval_lt1. lra. Qed.

Lemma unitq_mul p q : unitq p -> unitq q -> unitq (mul_quat p q).
Proof.
  intros (a & b & c & d & -> & E1) (e & f & g & h & -> & E2).
  destruct (mul_quat_shape [a;b;c;d] [e;f;g;h]) as (x & y & z & w & E).
  exists x, y, z, w. split; [exact E|].
  pose proof (mul_quat_norm a b c d e f g h) as N. unfold q4 in *. rewrite E in N.
  change (nrm2 [x;y;z;w]) with (nrm2 (q4 x y z w)) in N;
    change (nrm2 [a;b;c;d]) with (nrm2 (q4 a b c d)) in N; change (nrm2 [e;f;g;h]) with (nrm2 (q4 e f g h)) in N;
    rewrite !nrm2_q4 in N.
  rewrite N, E1, E2. ring.
Qed.

Lemma unitq_qnormalize_mj_at q a : unitq (qnormalize_mj (@quat_at R _ q a)).
Proof. unfold quat_at. apply qnormalize_mj_unit. Qed.

Lemma unitq_axis_angle x y z t : x*x + y*y + z*z = 1 -> unitq (axis_angle_to_quat [x; y; z] t).
Proof.
  intros Hu. pose proof (axis_angle_unit x y z t Hu) as N.
  unfold axis_angle_to_quat in *. cbv zeta beta iota in *.
  match goal with |- unitq ?q => match q with [?a; ?b; ?c; ?d] =>
    exists a, b, c, d; split; [reflexivity|] end end.
  change (nrm2 (q4 (scos (smul t (slit 1 2))) (vget (vscaler [x;y;z] (ssin (smul t (slit 1 2)))) 0)
                   (vget (vscaler [x;y;z] (ssin (smul t (slit 1 2)))) 1)
                   (vget (vscaler [x;y;z] (ssin (smul t (slit 1 2)))) 2)) = 1) in N.
  rewrite nrm2_q4 in N. exact N.
Qed.

(* rotation by the identity quaternion / parent composition identities *)
Lemma rot_ident x y z : vadd (rot_vec_quat [x; y; z] [1; 0; 0; 0]) [0; 0; 0] = [x; y; z].
Proof. vsimp. repeat (f_equal; try ring). Qed.
Lemma mul_ident a b c d : mul_quat [1; 0; 0; 0] [a; b; c; d] = [a; b; c; d].
Proof. vsimp. repeat (f_equal; try ring). Qed.

(* ==================== part 3 ==================== *)
Local Open Scope R_scope.

(* ------------------------------------------------------------ well-formed trees *)
Section FK.
  Variable st : state R.

  (* a joint inside the joint loop *)
  Definition wf_joint (j : joint R) : Prop :=
    match jtyp j with
    | JFree => False                                       (* a free joint is the only joint of its body *)
    | JBall => True
    | JSlide => True
    | JHinge => exists x y z, jaxis j = [x; y; z] /\ x*x + y*y + z*z = 1   (* compiler normalises jnt_axis *)
    end.

  Definition wf_body (b : body R) (i : nat) : Prop :=
    (bparent b < i)%nat /\
    match single_free b with
    | Some j => True
    | None =>
        Forall wf_joint (bjoints b) /\
        match bmocap b with
        | Some mid =>                                      (* mocap bodies: children of the world, no joints *)
            bparent b = 0%nat /\ bjoints b = [] /\ is3 (nth mid (mocap_pos st) []) /\
            is4 (nth mid (mocap_quat st) [])
        | None => is3 (bpos b) /\ unitq (bquat b)          (* compiler normalises body_quat *)
        end
    end.

  Definition wf_tree (t : list (body R)) : Prop :=
    t <> [] /\ forall i, (0 < i < length t)%nat -> wf_body (getb t i) i.

  (* ---- the joint loop does the same under both normalisations and keeps unit quaternions *)
  Lemma joint_step_agree (j : joint R) p q outs :
    wf_joint j -> unitq q ->
    joint_step normalize_quat st ((p, q), outs) j = joint_step qnormalize_mj st ((p, q), outs) j /\
    unitq (snd (fst (joint_step qnormalize_mj st ((p, q), outs) j))).
  Proof.
    intros Wj Hq. unfold joint_step, wf_joint in *. destruct (jtyp j); simpl.
    - tauto.
    - rewrite nq_agree. split; [reflexivity|].
      apply unitq_mul; auto. apply unitq_qnormalize_mj_at.
    - split; auto.
    - split; [reflexivity|]. destruct Wj as (x & y & z & -> & Hu).
      apply unitq_mul; auto. apply unitq_axis_angle; auto.
  Qed.

  Lemma joints_agree (js : list (joint R)) : forall p q outs,
    Forall wf_joint js -> unitq q ->
    fold_left (joint_step normalize_quat st) js ((p, q), outs) = fold_left (joint_step qnormalize_mj st) js ((p, q), outs) /\
    unitq (snd (fst (fold_left (joint_step qnormalize_mj st) js ((p, q), outs)))).
  Proof.
    induction js as [|j js IH]; intros p q outs Wf Hq; cbn [fold_left]; [simpl; auto|].
    inversion Wf; subst.
    destruct (joint_step_agree j p q outs H1 Hq) as (E & U).
    rewrite E. destruct (joint_step qnormalize_mj st (p, q, outs) j) as ((p', q'), outs'). simpl in U.
    apply IH; auto.
  Qed.

  Lemma finish_agree (b : body R) p q :
    Forall wf_joint (bjoints b) -> unitq q ->
    finish_body normalize_quat st b (p, q) = finish_body qnormalize_mj st b (p, q) /\
    unitq (oxquat (finish_body qnormalize_mj st b (p, q))).
  Proof.
    intros Wf Hq. unfold finish_body.
    destruct (joints_agree (bjoints b) p q [] Wf Hq) as (E & U).
    rewrite E. clear E. revert U. destruct (fold_left _ _ _) as ((p', q'), outs'). simpl. intros U.
    rewrite nq_agree. split; auto.
    rewrite (qnormalize_mj_id q' U). exact U.
  Qed.

  (* ---- recomputing a body from the specification's pose of its parent gives the
          specification's pose of the body *)
  Lemma body_step_eq_spec (b : body R) (i : nat) (pp : bout R) :
    wf_body b i -> unitq (oxquat pp) -> (bparent b = 0%nat -> pp = world_out) ->
    body_step st b pp = spec_body st b pp /\ unitq (oxquat (spec_body st b pp)).
  Proof.
    intros (Hpar & Wb) Hpq Hw. unfold body_step, spec_body.
    destruct (single_free b) as [j|].
    - unfold free_out. rewrite nq_agree. split; [reflexivity|]. simpl. apply unitq_qnormalize_mj_at.
    - destruct Wb as (Wj & Wm).
      destruct (bmocap b) as [mid|].
      + destruct Wm as (Hp0 & Hj & (x & y & z & Ep) & (a & b' & c & d & Eq)).
        rewrite Hp0. simpl. rewrite (Hw Hp0). simpl oxquat. simpl oxpos.
        rewrite Ep, Eq. change (@s0 R _) with 0. change (@s1 R _) with 1.
        rewrite rot_ident, mul_ident.
        unfold finish_body. rewrite Hj. simpl.
        rewrite <- Eq in *.
        pose proof (qnormalize_mj_unit a b' c d) as U. rewrite <- Eq in U.
        rewrite (qnormalize_mj_id _ U). rewrite nq_agree. split; [reflexivity|exact U].
      + destruct Wm as ((x & y & z & Ep) & Hbq).
        destruct (Nat.eqb_spec (bparent b) 0) as [E0|E0].
        * rewrite (Hw E0). simpl oxquat. simpl oxpos.
          destruct Hbq as (a & b' & c & d & Eq & Hn).
          rewrite Ep, Eq. change (@s0 R _) with 0. change (@s1 R _) with 1.
          rewrite rot_ident, mul_ident.
          apply finish_agree; auto. exists a, b', c, d. auto.
        * destruct Hpq as (a & b' & c & d & Eq & Hn). rewrite Eq, Ep.
          pose proof (rot_mat_agree a b' c d x y z) as RM. unfold q4 in RM. rewrite RM. clear RM.
          apply finish_agree; auto. apply unitq_mul; auto. exists a, b', c, d. auto.
  Qed.

  (* ---- the specification unfolds along the parent relation *)
  Variable t : list (body R).
  Hypothesis WF : wf_tree t.
  Local Notation n := (length t).
  Local Notation spec := (fk_spec t st).

  Lemma spec_length : length spec = n.
  Proof.
    destruct WF as (Hne & _). destruct t as [|w r]; [tauto|]. unfold fk_spec, fk_spec_go.
    change (length (build (fun acc b => spec_body st b (nth (bparent b) acc dout)) r [world_out]) = length (w :: r)).
    rewrite build_length. reflexivity.
  Qed.

  Lemma spec_world : nth 0 spec dout = world_out.
  Proof.
    destruct WF as (Hne & _). destruct t as [|w r]; [tauto|]. unfold fk_spec, fk_spec_go.
    change (nth 0 (build (fun acc b => spec_body st b (nth (bparent b) acc dout)) r [world_out]) dout = world_out).
    rewrite build_prefix; simpl; auto.
  Qed.

  Lemma spec_nth i : (0 < i < n)%nat ->
    nth i spec dout = spec_body st (getb t i) (nth (bparent (getb t i)) spec dout).
  Proof.
    intros Hi. destruct WF as (Hne & Wb). specialize (Wb i Hi). destruct Wb as (Hp & _).
    unfold getb in *. destruct t as [|w r]; [tauto|].
    set (g := fun (acc : list (bout R)) (b : body R) => spec_body st b (nth (bparent b) acc dout)).
    assert (E : fk_spec (w :: r) st = build g r [world_out]) by reflexivity.
    rewrite E. clear E.
    destruct i as [|k]; [lia|]. simpl in Hi.
    change (nth (Datatypes.S k) (w :: r) dbody) with (nth k r dbody) in *.
    change (Datatypes.S k) with (length [@world_out R _] + k)%nat at 1.
    rewrite (build_nth g r [world_out] k dout dbody) by lia.
    unfold g at 1. f_equal.
    apply build_firstn_nth. simpl in *. lia.
  Qed.

  Lemma spec_unit : forall k i, (i <= k)%nat -> (i < n)%nat -> unitq (oxquat (nth i spec dout)).
  Proof.
    induction k; intros i Hk Hi.
    - assert (i = 0)%nat by lia. subst. rewrite spec_world. apply unitq_world.
    - destruct (Nat.eq_dec i 0) as [->|Hi0]; [rewrite spec_world; apply unitq_world|].
      rewrite spec_nth by lia.
      pose proof (proj2 WF i ltac:(lia)) as Wb.
      assert (Hp : (bparent (getb t i) < i)%nat) by (destruct Wb; auto).
      eapply body_step_eq_spec; eauto.
      + apply IHk; lia.
      + intros ->. apply spec_world.
  Qed.

  (* one stored-parent step on a store whose parent entry is already right *)
  Definition inv (store : list (bout R)) (done : list nat) : Prop :=
    length store = n /\ forall x, In x done -> nth x store dout = nth x spec dout.

  Lemma kin_step_inv store done x :
    inv store done -> x <> 0%nat -> (x < n)%nat -> In (par (parents t) x) done ->
    inv (kin_step t st store x) (x :: done).
  Proof.
    intros (HL & Hd) Hx0 Hxn Hp.
    assert (Epar : par (parents t) x = bparent (getb t x)).
    { unfold par, parents, getb. rewrite <- (map_nth bparent). reflexivity. }
    rewrite Epar in Hp.
    pose proof (proj2 WF x ltac:(lia)) as Wb.
    assert (Hpx : (bparent (getb t x) < x)%nat) by (destruct Wb; auto).
    assert (Hx : (0 < x < n)%nat) by (clear - Hx0 Hxn; lia).
    assert (Hxs : (x < length store)%nat) by (rewrite HL; exact Hxn).
    assert (Hpn : (bparent (getb t x) < n)%nat) by (clear - Hpx Hxn; lia).
    assert (Hnew : nth x (kin_step t st store x) dout = nth x spec dout).
    { unfold kin_step. rewrite nth_upd_eq by exact Hxs.
      rewrite (Hd _ Hp), (spec_nth x Hx).
      eapply body_step_eq_spec; eauto.
      - apply (spec_unit (bparent (getb t x))); auto.
      - intros ->. apply spec_world. }
    split; [unfold kin_step; rewrite upd_length; auto|].
    intros y [<-|Hy]; auto.
    destruct (Nat.eq_dec x y) as [<-|Hxy]; auto.
    unfold kin_step. rewrite nth_upd_neq by auto. auto.
  Qed.

  Lemma steps_inv sched : forall store done,
    inv store done -> closed (parents t) done sched ->
    inv (fold_left (kin_step t st) sched store) (rev sched ++ done).
  Proof.
    induction sched as [|x r IH]; intros store done Hi Hc; simpl; auto.
    destruct Hc as (H0 & H1 & H2 & H3). unfold parents in H1. rewrite map_length in H1.
    rewrite <- app_assoc. simpl. apply IH; auto. apply kin_step_inv; auto.
  Qed.

  (* ---- main theorem in its most general form: ANY sequence of stored-parent body steps
     in which no step precedes the step of its parent, covering all bodies, from ANY stored
     poses (world entry excepted), ends in the specification's poses *)
  Theorem fk_steps_eq_spec (sched : list nat) (init : list (bout R)) :
    length init = n -> nth 0 init dout = world_out ->
    closed (parents t) [0%nat] sched ->
    (forall b, (0 < b < n)%nat -> In b sched) ->
    fold_left (kin_step t st) sched init = spec.
  Proof.
    intros HL H0 Hc Hcov.
    assert (I0 : inv init [0%nat]).
    { split; auto. intros x [<-|[]]. rewrite H0, spec_world. reflexivity. }
    destruct (steps_inv sched init [0%nat] I0 Hc) as (HL' & Hd).
    apply (nth_ext _ _ dout dout); [rewrite HL', spec_length; auto|].
    intros i Hi. apply Hd. apply in_or_app.
    destruct (Nat.eq_dec i 0) as [->|]; [right; simpl; auto|].
    left. apply -> in_rev. apply Hcov. lia.
  Qed.
End FK.

(* ---- schedules of branch tasks *)
(* an interleaving of the steps of several tasks (each task's own steps stay in order) *)
Inductive interleave {A : Type} : list (list A) -> list A -> Prop :=
| il_done : forall ls, Forall (fun l => l = []) ls -> interleave ls []
| il_step : forall ls1 x l ls2 s, interleave (ls1 ++ l :: ls2) s -> interleave (ls1 ++ (x :: l) :: ls2) (x :: s).

Lemma interleave_in {A} (ls : list (list A)) s : interleave ls s ->
  forall l x, In l ls -> In x l -> In x s.
Proof.
  induction 1; intros l0 y Hl Hy.
  - rewrite Forall_forall in H. rewrite (H _ Hl) in Hy. destruct Hy.
  - apply in_app_or in Hl. destruct Hl as [Hl|[<-|Hl]].
    + right. apply (IHinterleave l0); auto. apply in_or_app; auto.
    + destruct Hy as [<-|Hy]; [left; auto|]. right. apply (IHinterleave l); auto. apply in_or_app; simpl; auto.
    + right. apply (IHinterleave l0); auto. apply in_or_app; simpl; auto.
Qed.

Lemma interleave_closed ps (ls : list (list nat)) s : interleave ls s ->
  forall done, Forall (closed ps done) ls -> closed ps done s.
Proof.
  induction 1; intros done Hf; simpl; auto.
  rewrite Forall_app in Hf. destruct Hf as (F1 & F2). inversion F2 as [|? ? Hx F3]; subst.
  simpl in Hx. destruct Hx as (H0 & H1 & H2 & H3). repeat split; auto.
  apply IHinterleave. apply Forall_app. split; [|constructor; auto].
  - eapply Forall_impl; [|exact F1]. intros l'. apply closed_incl. intros y; simpl; auto.
  - eapply Forall_impl; [|exact F3]. intros l'. apply closed_incl. intros y; simpl; auto.
Qed.

Lemma concat_closed ps (ls : list (list nat)) : forall done, Forall (closed ps done) ls -> closed ps done (concat ls).
Proof.
  induction ls; intros done Hf; simpl; auto. inversion Hf; subst.
  apply closed_app; auto. apply IHls. eapply Forall_impl; [|eassumption].
  intros l. apply closed_incl. intros y Hy. apply in_or_app; auto.
Qed.

Section FKsched.
  Variable st : state R.
  Variable t : list (body R).
  Hypothesis WF : wf_tree st t.

  Lemma wf_tree_par : wf_par (parents t).
  Proof.
    intros b Hb. unfold parents in *. rewrite map_length in Hb.
    destruct (proj2 WF b Hb) as (Hp & _). unfold par, getb in *. rewrite <- (map_nth bparent) in Hp. exact Hp.
  Qed.

  (* every order of the branch tasks *)
  Theorem fk_branch_eq_spec_proof (sched : list (list nat)) (init : list (bout R)) :
    length init = length t -> nth 0 init dout = world_out ->
    Permutation (branches (parents t)) sched ->
    launch (kin_task t st) sched init = fk_spec t st.
  Proof.
    intros HL H0 Hperm. unfold launch, kin_task. rewrite fold_left_concat.
    destruct (branches_cover_proof (parents t) wf_tree_par) as (Hcov & Hcl).
    apply fk_steps_eq_spec; auto.
    - apply concat_closed. rewrite Forall_forall. intros br Hbr. apply Hcl.
      eapply Permutation_in; [apply Permutation_sym; exact Hperm|exact Hbr].
    - intros b Hb. destruct (Hcov b) as (br & Hbr & Hin); [unfold parents; rewrite map_length; auto|].
      apply in_concat. exists br. split; auto. eapply Permutation_in; eauto.
  Qed.

  (* every interleaving of the body steps of the branch tasks (concurrent tasks) *)
  Theorem fk_interleaved_eq_spec_proof (steps : list nat) (init : list (bout R)) :
    length init = length t -> nth 0 init dout = world_out ->
    interleave (branches (parents t)) steps ->
    fold_left (kin_step t st) steps init = fk_spec t st.
  Proof.
    intros HL H0 Hil.
    destruct (branches_cover_proof (parents t) wf_tree_par) as (Hcov & Hcl).
    apply fk_steps_eq_spec; auto.
    - eapply interleave_closed; eauto. rewrite Forall_forall. auto.
    - intros b Hb. destruct (Hcov b) as (br & Hbr & Hin); [unfold parents; rewrite map_length; auto|].
      eapply interleave_in; eauto.
  Qed.
End FKsched.

(* ==================== part 4 ==================== *)
Local Close Scope R_scope.
(* ================= leaf-to-root accumulation: generic schedule-independence =================
   Shared by com_pos (_subtree_com_acc), crb (_crb_accumulate) and rne (_cfrc_backward):
   values in a commutative semigroup (on the carrier P) are pushed from every body into its
   parent, each body once, children before their parent; the result is the recursive subtree
   sum whatever the order. *)
Lemma NoDup_app_l {A} (l1 l2 : list A) : NoDup (l1 ++ l2) -> NoDup l1.
Proof.
  induction l1; simpl; intros Hn; [constructor|]. inversion Hn; subst. constructor; auto.
  intros Hi. apply H1. apply in_or_app. auto.
Qed.

Section TreeAcc.
  Context {V : Type}.
  Variable add : V -> V -> V.
  Variable dflt : V.
  Variable P : V -> Prop.
  Hypothesis P_add : forall a b, P a -> P b -> P (add a b).
  Hypothesis add_comm : forall a b, P a -> P b -> add a b = add b a.
  Hypothesis add_assoc : forall a b c, P a -> P b -> P c -> add (add a b) c = add a (add b c).

  Lemma fold_add_P l : forall a, P a -> Forall P l -> P (fold_left add l a).
  Proof. induction l; intros a0 Ha Hl; simpl; auto. inversion Hl; subst. apply IHl; auto. Qed.

  Lemma fold_add_cons l : forall a x, P a -> P x -> Forall P l ->
    fold_left add l (add a x) = add (fold_left add l a) x.
  Proof.
    induction l; intros a0 x Ha Hx Hl; simpl; auto. inversion Hl; subst.
    rewrite <- IHl by auto. f_equal.
    rewrite !add_assoc by auto. f_equal. apply add_comm; auto.
  Qed.

  Lemma fold_add_perm l l' : Permutation l l' -> forall a, P a -> Forall P l ->
    fold_left add l a = fold_left add l' a.
  Proof.
    induction 1; intros a0 Ha Hl; simpl; auto.
    - inversion Hl; subst. apply IHPermutation; auto.
    - inversion Hl as [|? ? Hy Hl']; subst. inversion Hl' as [|? ? Hx Hl'']; subst.
      f_equal. rewrite !add_assoc by auto. f_equal. apply add_comm; auto.
    - rewrite IHPermutation1 by auto. apply IHPermutation2; auto.
      eapply Permutation_Forall; eauto.
  Qed.

  Variable ps : list nat.
  Local Notation n := (length ps).
  Hypothesis WF : wf_par ps.
  Variable val : list V.
  Hypothesis val_len : length val = n.
  Hypothesis val_P : Forall P val.

  Local Notation T := (subtree_sum add dflt n ps val).

  Lemma val_nth_P b : b < n -> P (nth b val dflt).
  Proof. intros. rewrite Forall_forall in val_P. apply val_P. apply nth_In. lia. Qed.

  Lemma children_spec b c : In c (children ps b) <-> (0 < c < n /\ par ps c = b).
  Proof. unfold children. rewrite filter_In, in_seq, Nat.eqb_eq. lia. Qed.

  Lemma children_NoDup b : NoDup (children ps b).
  Proof. unfold children. apply NoDup_filter. apply seq_NoDup. Qed.

  Lemma ss_fuel : forall f1 f2 b, b < n -> n - b <= f1 -> n - b <= f2 ->
    subtree_sum add dflt f1 ps val b = subtree_sum add dflt f2 ps val b.
  Proof.
    induction f1; intros f2 b Hb H1 H2; [lia|]. destruct f2; [lia|]. simpl. f_equal.
    apply map_ext_in. intros c Hc. apply children_spec in Hc. destruct Hc as (Hc & Hp).
    assert (b < c) by (rewrite <- Hp; apply WF; auto).
    apply IHf1; lia.
  Qed.

  Lemma ss_P : forall f b, b < n -> P (subtree_sum add dflt f ps val b).
  Proof.
    induction f; intros b Hb; simpl; [apply val_nth_P; auto|].
    apply fold_add_P; [apply val_nth_P; auto|]. rewrite Forall_forall. intros v Hv.
    apply in_map_iff in Hv. destruct Hv as (c & <- & Hc). apply children_spec in Hc. apply IHf. lia.
  Qed.

  (* the recursive subtree sum: own value plus the sums of the children *)
  Lemma T_unfold b : b < n -> T b = fold_left add (map T (children ps b)) (nth b val dflt).
  Proof.
    intros Hb. rewrite (ss_fuel n (Datatypes.S n) b) by lia. reflexivity.
  Qed.

  (* children of b already pushed, in push order *)
  Definition kids (b : nat) (done : list nat) : list nat :=
    filter (fun c => Nat.eqb (par ps c) b && negb (Nat.eqb c 0)) done.

  (* a push sequence is [ordered] when every body is pushed after all its children *)
  Fixpoint ordered (done l : list nat) : Prop :=
    match l with
    | [] => True
    | b :: r => (forall c, In c (children ps b) -> In c done) /\ ordered (done ++ [b]) r
    end.

  Definition ainv (acc : list V) (done : list nat) : Prop :=
    length acc = n /\
    forall b, b < n -> nth b acc dflt = fold_left add (map T (kids b done)) (nth b val dflt).

  Lemma kids_perm b done : b < n -> NoDup done -> (forall x, In x done -> x < n) ->
    (forall c, In c (children ps b) -> In c done) -> Permutation (kids b done) (children ps b).
  Proof.
    intros Hb Hnd Hr Hc. apply NoDup_Permutation.
    - unfold kids. apply NoDup_filter. auto.
    - apply children_NoDup.
    - intros c. unfold kids. rewrite filter_In, children_spec, andb_true_iff, Nat.eqb_eq, negb_true_iff, Nat.eqb_neq.
      split.
      + intros (Hd & Hp & H0). split; auto. specialize (Hr c Hd). lia.
      + intros (Hc0 & Hp). split; [|split; auto; lia]. apply Hc. apply children_spec. auto.
  Qed.

  Lemma T_map_P l : (forall c, In c l -> c < n) -> Forall P (map T l).
  Proof.
    intros Hl. rewrite Forall_forall. intros v Hv. apply in_map_iff in Hv.
    destruct Hv as (c & <- & Hc). apply ss_P. auto.
  Qed.

  Lemma kids_range b done : (forall x, In x done -> x < n) -> forall c, In c (kids b done) -> c < n.
  Proof. intros Hr c Hc. unfold kids in Hc. apply filter_In in Hc. apply Hr. tauto. Qed.

  Lemma push_inv acc done x :
    ainv acc done -> x < n -> NoDup (done ++ [x]) -> (forall y, In y done -> y < n) ->
    (forall c, In c (children ps x) -> In c done) ->
    ainv (acc_push add dflt ps acc x) (done ++ [x]).
  Proof.
    intros (HL & Hv) Hx Hnd Hr Hc. unfold acc_push.
    assert (Hnd' : NoDup done) by (apply NoDup_app_l in Hnd; auto).
    destruct (Nat.eqb_spec x 0) as [->|Hx0].
    - split; auto. intros b Hb. rewrite (Hv b Hb). unfold kids. rewrite filter_app. simpl.
      rewrite andb_false_r. rewrite app_nil_r. reflexivity.
    - assert (Hp : par ps x < x) by (apply WF; lia).
      split; [rewrite upd_length; auto|].
      intros b Hb.
      assert (Ex : nth x acc dflt = T x).
      { rewrite (Hv x Hx), (T_unfold x Hx). apply fold_add_perm.
        - apply Permutation_map. apply kids_perm; auto.
        - apply val_nth_P; auto.
        - apply T_map_P. apply kids_range; auto. }
      destruct (Nat.eq_dec (par ps x) b) as [E|E].
      + subst b. rewrite nth_upd_eq by lia. rewrite Ex, (Hv _ Hb).
        unfold kids. rewrite filter_app. simpl. rewrite Nat.eqb_refl.
        destruct (Nat.eqb_spec x 0); [lia|]. simpl.
        rewrite map_app, fold_left_app. reflexivity.
      + rewrite nth_upd_neq by auto. rewrite (Hv _ Hb).
        unfold kids. rewrite filter_app. simpl.
        destruct (Nat.eqb_spec (par ps x) b); [lia|]. simpl. rewrite app_nil_r. reflexivity.
  Qed.

  Lemma pushes_inv l : forall acc done,
    ainv acc done -> NoDup (done ++ l) -> (forall y, In y (done ++ l) -> y < n) -> ordered done l ->
    ainv (fold_left (acc_push add dflt ps) l acc) (done ++ l).
  Proof.
    induction l as [|x r IH]; intros acc done Hi Hnd Hr Ho; simpl.
    - rewrite app_nil_r. auto.
    - destruct Ho as (Hc & Ho).
      replace (done ++ x :: r) with ((done ++ [x]) ++ r) in * by (rewrite <- app_assoc; reflexivity).
      apply IH; auto. apply push_inv; auto.
      + apply Hr. apply in_or_app. left. apply in_or_app. simpl. auto.
      + apply NoDup_app_l in Hnd. auto.
      + intros y Hy. apply Hr. apply in_or_app. left. apply in_or_app. auto.
  Qed.

  (* ---- the generic theorem *)
  Theorem tree_accumulate (pushes : list nat) :
    NoDup pushes -> (forall x, In x pushes -> x < n) -> (forall c, 0 < c < n -> In c pushes) ->
    ordered [] pushes ->
    fold_left (acc_push add dflt ps) pushes val = map T (seq 0 n).
  Proof.
    intros Hnd Hr Hcov Ho.
    assert (I0 : ainv val []). { split; auto. }
    destruct (pushes_inv pushes val [] I0 Hnd Hr Ho) as (HL & Hv). simpl in *.
    assert (Hgoal : forall b, b < n -> nth b (fold_left (acc_push add dflt ps) pushes val) dflt = T b).
    { intros b Hb. rewrite (Hv b Hb), (T_unfold b Hb). apply fold_add_perm.
      - apply Permutation_map. apply kids_perm; auto. intros c Hc. apply Hcov. apply children_spec in Hc. tauto.
      - apply val_nth_P; auto.
      - apply T_map_P. apply kids_range; auto. }
    apply (nth_ext _ _ dflt (T 0)); [rewrite map_length, seq_length; auto|].
    intros b Hb. rewrite HL in Hb.
    rewrite map_nth, seq_nth by auto. simpl. auto.
  Qed.

  (* monotonicity / composition of [ordered] *)
  Lemma ordered_incl d1 d2 l : incl d1 d2 -> ordered d1 l -> ordered d2 l.
  Proof.
    revert d1 d2; induction l; simpl; auto. intros d1 d2 Hi (H1 & H2). split; auto.
    eapply IHl; [|exact H2]. intros y Hy. apply in_app_or in Hy. apply in_or_app. destruct Hy; auto.
  Qed.

  Lemma ordered_app d l1 l2 : ordered d l1 -> ordered (d ++ l1) l2 -> ordered d (l1 ++ l2).
  Proof.
    revert d; induction l1; intros d H1 H2; simpl in *; [rewrite app_nil_r in H2; auto|].
    destruct H1 as (Ha & H1). split; auto. apply IHl1; auto. rewrite <- app_assoc. auto.
  Qed.

  Lemma ordered_flat d l : (forall b, In b l -> forall c, In c (children ps b) -> In c d) -> ordered d l.
  Proof.
    revert d; induction l; intros d Hl; simpl; auto. split; [apply Hl; simpl; auto|].
    apply IHl. intros b Hb c Hc. apply in_or_app. left. apply (Hl b); simpl; auto.
  Qed.

  (* a list of launches, each of which only needs bodies pushed by earlier launches *)
  Lemma ordered_concat (Ls : list (list nat)) : forall d,
    (forall i b c, i < length Ls -> In b (nth i Ls []) -> In c (children ps b) ->
       In c d \/ exists j, j < i /\ In c (nth j Ls [])) ->
    ordered d (concat Ls).
  Proof.
    induction Ls as [|L Ls IH]; intros d H; simpl; auto.
    apply ordered_app.
    - apply ordered_flat. intros b Hb c Hc.
      destruct (H 0 b c) as [Hd|(j & Hj & _)]; simpl; auto; lia.
    - apply IH. intros i b c Hi Hb Hc.
      destruct (H (Datatypes.S i) b c) as [Hd|(j & Hj & Hin)]; simpl; auto; [lia| |].
      + left. apply in_or_app. auto.
      + destruct j; simpl in Hin.
        * left. apply in_or_app. auto.
        * right. exists j. split; auto. lia.
  Qed.
End TreeAcc.

(* ==================== part 5 ==================== *)
(* ================= body_tree levels are a valid push schedule ================= *)
Lemma nodup_app {A} (l1 l2 : list A) :
  NoDup l1 -> NoDup l2 -> (forall x, In x l1 -> ~ In x l2) -> NoDup (l1 ++ l2).
Proof.
  induction l1; simpl; intros H1 H2 Hd; auto. inversion H1; subst. constructor.
  - intros Hi. apply in_app_or in Hi. destruct Hi; [tauto|]. apply (Hd a); auto.
  - apply IHl1; auto.
Qed.

Lemma ssorted_app {A} (R : A -> A -> Prop) (l1 l2 : list A) :
  StronglySorted R l1 -> StronglySorted R l2 -> (forall a b, In a l1 -> In b l2 -> R a b) ->
  StronglySorted R (l1 ++ l2).
Proof.
  induction l1; simpl; intros H1 H2 Hc; auto. inversion H1; subst. constructor.
  - apply IHl1; auto.
  - rewrite Forall_forall in *. intros x Hx. apply in_app_or in Hx. destruct Hx; auto.
Qed.

Lemma ssorted_const {A} (R : A -> A -> Prop) (l : list A) :
  (forall a b, In a l -> In b l -> R a b) -> StronglySorted R l.
Proof.
  induction l; intros H; constructor.
  - apply IHl. intros; apply H; simpl; auto.
  - rewrite Forall_forall. intros; apply H; simpl; auto.
Qed.

Section Levels.
  Variable ps : list nat.
  Local Notation n := (length ps).
  Hypothesis WF : wf_par ps.
  Local Notation depth := (fun i => nth i (depths ps) 0).
  Local Notation gdep := (fun (acc : list nat) (p : nat) => match acc with [] => 0 | _ => Datatypes.S (nth p acc 0) end).

  Lemma depths_build : depths ps = build gdep ps [].
  Proof. reflexivity. Qed.

  Lemma depths_length : length (depths ps) = n.
  Proof. rewrite depths_build, build_length. reflexivity. Qed.

  Lemma depth_child c : 0 < c < n -> depth c = Datatypes.S (depth (par ps c)).
  Proof.
    intros Hc. cbv beta. rewrite depths_build.
    change c with (length (@nil nat) + c) at 1.
    rewrite (build_nth gdep ps [] c 0 0) by lia.
    pose proof (build_length gdep (firstn c ps) []) as HL. rewrite firstn_length in HL. simpl in HL.
    destruct (build gdep (firstn c ps) []) as [|a l] eqn:E; [simpl in HL; lia|].
    rewrite <- E. f_equal. apply build_firstn_nth. simpl. apply WF. auto.
  Qed.

  Definition lev (d : nat) : list nat := filter (fun i => Nat.eqb (depth i) d) (seq 0 n).

  Lemma lev_spec d x : In x (lev d) <-> (x < n /\ depth x = d).
  Proof. unfold lev. rewrite filter_In, in_seq, Nat.eqb_eq. lia. Qed.

  Lemma levels_eq : levels ps = map lev (seq 0 (Datatypes.S (list_max (depths ps)))).
  Proof. reflexivity. Qed.

  Lemma depth_le_max x : x < n -> depth x <= list_max (depths ps).
  Proof.
    intros Hx. pose proof (proj1 (list_max_le (depths ps) (list_max (depths ps))) (le_n _)) as F.
    rewrite Forall_forall in F. apply F. apply nth_In. rewrite depths_length. auto.
  Qed.

  (* launching the levels deepest first: sorted by non-increasing depth, no duplicates, all bodies *)
  Lemma rev_levels_props : forall len k sched,
    Forall2 (@Permutation nat) (map lev (seq k len)) sched ->
    StronglySorted (fun a b => depth b <= depth a) (concat (rev sched)) /\
    NoDup (concat (rev sched)) /\
    (forall x, In x (concat (rev sched)) <-> (x < n /\ k <= depth x < k + len)).
  Proof.
    induction len; intros k sched HF; simpl in HF.
    - inversion HF; subst. simpl. split; [constructor|]. split; [constructor|]. intros x. split; [tauto|lia].
    - inversion HF as [|L S0 Ls rest HP HF']; subst.
      destruct (IHlen (Datatypes.S k) rest HF') as (HS & HN & HM).
      simpl. rewrite concat_app. simpl. rewrite app_nil_r.
      assert (HinS : forall x, In x S0 <-> (x < n /\ depth x = k)).
      { intros x. rewrite <- lev_spec. split; apply Permutation_in; [apply Permutation_sym|]; auto. }
      split; [|split].
      + apply ssorted_app; auto.
        * apply ssorted_const. intros a b Ha Hb. apply HinS in Ha. apply HinS in Hb. lia.
        * intros a b Ha Hb. apply HM in Ha. apply HinS in Hb. lia.
      + apply nodup_app; auto.
        * eapply Permutation_NoDup; [exact HP|]. unfold lev. apply NoDup_filter, seq_NoDup.
        * intros x Hx Hx'. apply HM in Hx. apply HinS in Hx'. lia.
      + intros x. split.
        * intros Hx. apply in_app_or in Hx. destruct Hx as [Hx|Hx]; [apply HM in Hx|apply HinS in Hx]; lia.
        * intros (Hx & Hd). apply in_or_app.
          destruct (Nat.eq_dec (depth x) k); [right; apply HinS; auto|left; apply HM; lia].
  Qed.

  Lemma ordered_of_sorted l : forall done,
    (forall c, 0 < c < n -> In c done \/ In c l) ->
    StronglySorted (fun a b => depth b <= depth a) l ->
    ordered ps done l.
  Proof.
    induction l as [|b r IH]; intros done Hcov HS; simpl; auto.
    inversion HS as [|? ? HS' HF]; subst. rewrite Forall_forall in HF. split.
    - intros c Hc. unfold children in Hc. apply filter_In in Hc. destruct Hc as (Hc & Hp).
      apply in_seq in Hc. apply Nat.eqb_eq in Hp.
      assert (Hc' : 0 < c < n) by lia.
      pose proof (depth_child c Hc') as Hd. rewrite Hp in Hd.
      destruct (Hcov c Hc') as [|[<-|Hr]]; auto; [simpl in Hd; lia|].
      specialize (HF c Hr). simpl in *. lia.
    - apply IH; auto. intros c Hc. destruct (Hcov c Hc) as [|[<-|]]; auto.
      + left. apply in_or_app; auto.
      + left. apply in_or_app; simpl; auto.
  Qed.

  Lemma levels_valid sched : Forall2 (@Permutation nat) (levels ps) sched ->
    NoDup (concat (rev sched)) /\ (forall x, In x (concat (rev sched)) -> x < n) /\
    (forall c, 0 < c < n -> In c (concat (rev sched))) /\ ordered ps [] (concat (rev sched)).
  Proof.
    intros HF. rewrite levels_eq in HF.
    destruct (rev_levels_props _ _ _ HF) as (HS & HN & HM).
    assert (Hcov : forall c, 0 < c < n -> In c (concat (rev sched))).
    { intros c Hc. apply HM. pose proof (depth_le_max c ltac:(lia)). simpl in *. lia. }
    repeat split; auto.
    - intros x Hx. apply HM in Hx. tauto.
    - apply ordered_of_sorted; auto.
  Qed.
End Levels.

(* ---- generic: level-by-level accumulation, any order inside a level = recursive subtree sum *)
Section LevelAcc.
  Context {V : Type}.
  Variable add : V -> V -> V.
  Variable dflt : V.
  Variable P : V -> Prop.
  Hypothesis P_add : forall a b, P a -> P b -> P (add a b).
  Hypothesis add_comm : forall a b, P a -> P b -> add a b = add b a.
  Hypothesis add_assoc : forall a b c, P a -> P b -> P c -> add (add a b) c = add a (add b c).

  Theorem tree_accumulate_levels (ps : list nat) (val : list V) (sched : list (list nat)) :
    wf_par ps -> length val = length ps -> Forall P val ->
    Forall2 (@Permutation nat) (levels ps) sched ->
    acc_levels add dflt ps sched val = map (subtree_sum add dflt (length ps) ps val) (seq 0 (length ps)).
  Proof.
    intros WF HL HP HF. unfold acc_levels, launch. rewrite fold_left_concat.
    destruct (levels_valid ps WF sched HF) as (HN & HR & HC & HO).
    apply (tree_accumulate add dflt P); auto.
  Qed.
End LevelAcc.

(* ================= instance: subtree centre of mass ================= *)
Local Open Scope R_scope.
Definition len3 (v : list R) : Prop := length v = 3%nat.

Lemma len3_inv v : len3 v -> exists x y z, v = [x; y; z].
Proof. unfold len3. destruct v as [|x [|y [|z [|w r]]]]; simpl; intros; try discriminate. eauto. Qed.

Lemma vadd3_len a b : len3 a -> len3 b -> len3 (vadd a b).
Proof. intros Ha Hb. destruct (len3_inv a Ha) as (x & y & z & ->). destruct (len3_inv b Hb) as (u & v & w & ->). reflexivity. Qed.
Lemma vadd3_comm a b : len3 a -> len3 b -> vadd a b = vadd b a.
Proof.
  intros Ha Hb. destruct (len3_inv a Ha) as (x & y & z & ->). destruct (len3_inv b Hb) as (u & v & w & ->).
  unfold vadd. simpl. sR. repeat (f_equal; try ring).
Qed.
Lemma vadd3_assoc a b c : len3 a -> len3 b -> len3 c -> vadd (vadd a b) c = vadd a (vadd b c).
Proof.
  intros Ha Hb Hc. destruct (len3_inv a Ha) as (x & y & z & ->). destruct (len3_inv b Hb) as (u & v & w & ->).
  destruct (len3_inv c Hc) as (p & q & r & ->).
  unfold vadd. simpl. sR. repeat (f_equal; try ring).
Qed.

Lemma map2_length {A B C} (f : A -> B -> C) (a : list A) (b : list B) :
  length a = length b -> length (@map2 A B C f a b) = length a.
Proof. revert b; induction a; destruct b; simpl; intros; try discriminate; auto. Qed.

Lemma parents_length (t : list (body R)) : length (parents t) = length t.
Proof. apply map_length. Qed.

(* com_pos = com_spec for every order inside each level *)
Theorem subtree_com_levels_proof (t : list (body R)) (outs : list (bout R)) (sched : list (list nat)) :
  wf_par (parents t) -> length outs = length t ->
  Forall len3 (com_init t outs) ->                    (* positions and inertial offsets are 3-vectors *)
  Forall2 (@Permutation nat) (levels (parents t)) sched ->
  com_pos t sched outs = com_spec t outs.
Proof.
  intros WF HL H3 HF. unfold com_pos, com_spec. f_equal.
  rewrite <- (parents_length t).
  apply (tree_accumulate_levels vadd [] len3 vadd3_len vadd3_comm vadd3_assoc); auto.
  rewrite parents_length. unfold com_init. apply map2_length. auto.
Qed.

(* the 3-vector hypothesis follows from 3-vector poses and offsets *)
Lemma rot3_len v q : len3 v -> len3 (rot_vec_quat v q).
Proof. intros Hv. destruct (len3_inv v Hv) as (x & y & z & ->). reflexivity. Qed.

Lemma com_init_len3 (t : list (body R)) : forall outs,
  Forall (fun b => len3 (bipos b)) t -> Forall (fun o => len3 (oxpos o)) outs ->
  Forall len3 (com_init t outs).
Proof.
  unfold com_init. induction t as [|b t IH]; intros [|o outs] Ht Ho; simpl; try constructor.
  - inversion Ht; inversion Ho; subst.
    unfold xipos_of. pose proof (vadd3_len (oxpos o) (rot_vec_quat (bipos b) (oxquat o)) H5 (rot3_len _ _ H1)) as L.
    destruct (len3_inv _ L) as (x & y & z & ->). reflexivity.
  - inversion Ht; inversion Ho; subst. apply IH; auto.
Qed.

(* ================= geoms / sites use the same map as MuJoCo's mj_local2Global ================= *)
Lemma local_to_global_spec (o : bout R) x y z a b c d e f g h :
  oxquat o = [a; b; c; d] ->
  local_to_global [x; y; z] [e; f; g; h] o =
  (vadd (oxpos o) (mat_vec 3 3 (xmat_of o) [x; y; z]),
   mat_mat 3 3 3 (xmat_of o) (quat_to_mat [e; f; g; h])).
Proof.
  intros E. unfold local_to_global, xmat_of. rewrite E.
  pose proof (rot_mat_agree a b c d x y z) as RM. pose proof (quat_to_mat_mul a b c d e f g h) as QM.
  unfold q4 in *. rewrite RM, QM. reflexivity.
Qed.

(* ================= the zero quaternion (regression of finding C01:zero-quaternion-normalize) =================
   Before the repair of /repo the kernel used wp.normalize (zero -> slots (0,0,0,1), a half turn about z)
   where mju_normalize4 gives the identity; with math.normalize_quat model and specification agree. *)
Lemma qnormalize_mj_zero : @qnormalize_mj R _ [0; 0; 0; 0] = [1; 0; 0; 0].
Proof.
  unfold qnormalize_mj.
  assert (E : @vlen R _ [0; 0; 0; 0] = 0).
  { rewrite vlen_q4. replace (0*0+0*0+0*0+0*0) with 0 by ring. apply sqrt_0. }
  rewrite E. change (@sltb R ScalarR 0 mj_minval) with (Rltb 0 mj_minval).
  pose proof minval_pos. destruct (Rltb 0 mj_minval) eqn:E1; [reflexivity|apply Rltb_false in E1; lra].
Qed.

Lemma normalize_quat_zero : @normalize_quat R _ [0; 0; 0; 0] = [1; 0; 0; 0].
Proof. rewrite nq_agree. apply qnormalize_mj_zero. Qed.

(* one free body at height 1 whose qpos quaternion is zero, a geom at x = 1/2 in the body frame *)
Definition zq_tree : list (body R) :=
  [ mkBody 0%nat [0;0;0] [1;0;0;0] None [] [0;0;0] 0 1;
    mkBody 0%nat [0;0;1] [1;0;0;0] None [mkJoint JFree [0;0;0] [0;0;1] 0%Z] [0;0;0] 1 1 ].
Definition zq_state : state R := mkState [0;0;1; 0;0;0;0] [0;0;1; 1;0;0;0] [] [].
Definition zq_init : list (bout R) := [world_out; dout].

Lemma zq_wf : wf_tree zq_state zq_tree.
Proof.
  split; [discriminate|]. intros i Hi. simpl in Hi.
  destruct i as [|[|i]]; try lia. unfold getb; simpl nth. unfold wf_body; simpl. split; [lia|exact I].
Qed.

Theorem fk_zero_quat_agrees_proof :
  let m := nth 1%nat (fk_branch zq_tree zq_state zq_init) dout in
  let s := nth 1%nat (fk_spec zq_tree zq_state) dout in
  m = s /\ oxquat m = [1; 0; 0; 0] /\
  fst (local_to_global [1/2; 0; 0] [1; 0; 0; 0] m) = [1/2; 0; 1].
Proof.
  assert (Em : nth 1%nat (fk_branch zq_tree zq_state zq_init) dout
               = mkOut [0;0;1] (normalize_quat [0;0;0;0]) [([0;0;1], [0;0;1])]) by reflexivity.
  assert (Es : nth 1%nat (fk_spec zq_tree zq_state) dout
               = mkOut [0;0;1] (qnormalize_mj [0;0;0;0]) [([0;0;1], [0;0;1])]) by reflexivity.
  cbv zeta. rewrite Em, Es, normalize_quat_zero, qnormalize_mj_zero. clear Em Es.
  split; [reflexivity|]. split; [reflexivity|].
  unfold local_to_global. cbn [fst oxpos oxquat]. vsimp. repeat (f_equal; try field).
Qed.

(* ================= hypotheses are satisfiable ================= *)
(* a hinge+slide body carrying a ball-jointed child whose qpos quaternion is ZERO, and a mocap
   body with an unnormalised mocap quaternion *)
Definition ex_tree : list (body R) :=
  [ mkBody 0%nat [0;0;0] [1;0;0;0] None [] [0;0;0] 0 3;
    mkBody 0%nat [0;0;1] [1;0;0;0] None [mkJoint JHinge [0;0;0] [0;1;0] 0%Z; mkJoint JSlide [0;0;0] [1;0;0] 1%Z] [0;0;0] 1 2;
    mkBody 1%nat [0;0;1] [0;1;0;0] None [mkJoint JBall [0;0;0] [0;0;1] 2%Z] [0;0;0] 1 1;
    mkBody 0%nat [1;0;0] [1;0;0;0] (Some 0%nat) [] [0;0;0] 1 1 ].
Definition ex_state : state R := mkState [1; 2; 0;0;0;0] [0; 0; 1;0;0;0] [[1;1;1]] [[0;0;3;0]].

Example wf_tree_example : wf_tree ex_state ex_tree.
Proof.
  split; [discriminate|]. intros i Hi. simpl in Hi.
  destruct i as [|[|[|[|i]]]]; try lia; unfold getb; simpl nth; unfold wf_body; simpl.
  - split; [lia|]. split.
    + constructor; [|constructor; [exact I|constructor]]. unfold wf_joint; simpl. exists 0, 1, 0. split; [reflexivity|ring].
    + split; [exists 0, 0, 1; reflexivity|]. exists 1, 0, 0, 0. split; [reflexivity|ring].
  - split; [lia|]. split.
    + constructor; [exact I|constructor].
    + split; [exists 0, 0, 1; reflexivity|]. exists 0, 1, 0, 0. split; [reflexivity|ring].
  - split; [lia|]. split; [constructor|]. repeat split.
    + exists 1, 1, 1; reflexivity.
    + exists 0, 0, 3, 0; reflexivity.
Qed.

Example wf_par_example : wf_par (parents ex_tree).
Proof. apply (wf_tree_par ex_state). apply wf_tree_example. Qed.
