(* Proof/Sleep.v -- lemmas about Model/Sleep.v (the executable model of the integer logic of
   /repo/mujoco_warp/_src/sleep.py).  Contents:
   1  arrays, chains, wake_loop walks a chain
   2  cycles_wf: the non-negative entries of tree_asleep are disjoint cyclic lists; frame lemmas;
      _wake_tree wakes exactly one cycle and preserves cycles_wf
   3  every wake launch preserves WF (any task list = any schedule)
   4  wake_inv: closed form of the state during a wake launch relative to the state at launch start
   5-9 schedule theorems for wake_collision (awake set; countdowns refuted), wake, wake_tendon, wake_equality
   10-11 sleep(): sweep, island check, build cycles; new cycles are the sleeping islands; sleep_needs_all
   12 reachable states, update_sleep index lists
   13 countdown range invariant *)
From Coq Require Import ZArith List Bool Lia ZifyBool Permutation.
From VF Require Import Model.Sleep.
Import ListNotations.
Local Open Scope Z_scope.

(* ======================= part 1 ======================= *)
(* ---------- arrays ---------- *)
Lemma set_nth_length l k v : length (set_nth l k v) = length l.
Proof. revert k; induction l; intros [|k]; simpl; auto. Qed.

Lemma nth_set_nth_eq l k v d : (k < length l)%nat -> nth k (set_nth l k v) d = v.
Proof. revert k; induction l; intros [|k]; simpl; intros; try lia; auto. apply IHl; lia. Qed.

Lemma nth_set_nth_neq l k j v d : k <> j -> nth j (set_nth l k v) d = nth j l d.
Proof. revert k j; induction l; intros [|k] [|j]; simpl; intros; try congruence; auto. Qed.

Lemma zlen_setZ l i v : zlen (setZ l i v) = zlen l.
Proof. unfold zlen, setZ. now rewrite set_nth_length. Qed.

Lemma getZ_setZ_eq l i v : 0 <= i < zlen l -> getZ (setZ l i v) i = v.
Proof. unfold zlen, getZ, setZ; intros. apply nth_set_nth_eq. lia. Qed.

Lemma getZ_setZ_neq l i j v : 0 <= i -> 0 <= j -> i <> j -> getZ (setZ l i v) j = getZ l j.
Proof. unfold getZ, setZ; intros. apply nth_set_nth_neq. lia. Qed.

Lemma getZ_setZ_cases l i j v : 0 <= i -> 0 <= j ->
  getZ (setZ l i v) j = getZ l j \/ getZ (setZ l i v) j = v.
Proof.
  intros. destruct (Z.eq_dec i j).
  - subst. destruct (Z_lt_dec j (zlen l)).
    + right. apply getZ_setZ_eq; lia.
    + left. unfold getZ, setZ, zlen in *.
      rewrite !nth_overflow; auto; rewrite ?set_nth_length; lia.
  - left. now apply getZ_setZ_neq.
Qed.

Lemma list_eq_getZ (a b : list Z) :
  zlen a = zlen b -> (forall u, 0 <= u < zlen a -> getZ a u = getZ b u) -> a = b.
Proof.
  unfold zlen, getZ. intros Hl H. apply nth_ext with (d := 0) (d' := 0). lia.
  intros k Hk. specialize (H (Z.of_nat k)). rewrite Nat2Z.id in H. apply H. lia.
Qed.

Lemma zrange_In n t : In t (zrange n) <-> 0 <= t < n.
Proof.
  unfold zrange. rewrite in_map_iff. split.
  - intros (k & <- & Hk). apply in_seq in Hk. lia.
  - intros. exists (Z.to_nat t). split. lia. apply in_seq. lia.
Qed.

Lemma zrange_NoDup n : NoDup (zrange n).
Proof.
  unfold zrange. apply FinFun.Injective_map_NoDup. intros x y; lia. apply seq_NoDup.
Qed.

Lemma zrange_length n : length (zrange n) = Z.to_nat n.
Proof. unfold zrange. now rewrite map_length, seq_length. Qed.

(* a duplicate-free list of indices below n has at most n elements *)
Lemma NoDup_range_length (l : list Z) n :
  NoDup l -> (forall t, In t l -> 0 <= t < n) -> (length l <= Z.to_nat n)%nat.
Proof.
  intros Hnd Hr. rewrite <- zrange_length.
  apply NoDup_incl_length; auto. intros t Ht. apply zrange_In. auto.
Qed.

Lemma NoDup_app_iff {A} (l1 l2 : list A) :
  NoDup (l1 ++ l2) <-> NoDup l1 /\ NoDup l2 /\ (forall x, In x l1 -> ~ In x l2).
Proof.
  induction l1; simpl.
  - split. intros; repeat split; auto. constructor. tauto.
  - split.
    + intros H. inversion H; subst. apply IHl1 in H3 as (H1 & H2' & H3').
      repeat split; auto.
      * constructor; auto. intro. apply H2. apply in_or_app; auto.
      * intros x [<-|Hx] Hin. apply H2. apply in_or_app; auto. eapply H3'; eauto.
    + intros (H1 & H2 & H3). inversion H1; subst. constructor.
      * intro Hin. apply in_app_or in Hin as [|]; auto. eapply H3; eauto.
      * apply IHl1. repeat split; auto.
Qed.

(* ---------- chains and cycles ---------- *)
Fixpoint chain (ta : list Z) (a : Z) (l : list Z) (b : Z) : Prop :=
  match l with
  | [] => getZ ta a = b
  | y :: l' => getZ ta a = y /\ chain ta y l' b
  end.

Lemma chain_app ta a l1 y l2 b :
  chain ta a (l1 ++ y :: l2) b <-> chain ta a l1 y /\ chain ta y l2 b.
Proof. revert a; induction l1; simpl; intros; [tauto | rewrite IHl1; tauto]. Qed.

Lemma chain_ext ta ta' a l b :
  (forall u, In u (a :: l) -> getZ ta' u = getZ ta u) -> chain ta a l b -> chain ta' a l b.
Proof.
  revert a; induction l; simpl; intros a0 H.
  - intros <-. apply H; auto.
  - intros [<- Hc]. split. apply H; auto. apply IHl; [|exact Hc]. intros. apply H. simpl in *. tauto.
Qed.

Definition set_all (ta : list Z) (L : list Z) (w : Z) : list Z :=
  fold_left (fun ta u => setZ ta u w) L ta.

Lemma zlen_set_all L : forall ta w, zlen (set_all ta L w) = zlen ta.
Proof.
  induction L; intros ta w.
  - reflexivity.
  - unfold set_all in *. simpl. rewrite IHL. apply zlen_setZ.
Qed.

Lemma getZ_set_all_notin L : forall ta w u, 0 <= u -> (forall x, In x L -> 0 <= x) -> ~ In u L ->
  getZ (set_all ta L w) u = getZ ta u.
Proof.
  induction L; intros ta w u Hu Hr Hn.
  - reflexivity.
  - unfold set_all in *; simpl. rewrite IHL.
    + apply getZ_setZ_neq; auto. apply Hr; simpl; auto. intro; subst; apply Hn; simpl; auto.
    + auto.
    + intros; apply Hr; simpl; auto.
    + intro; apply Hn; simpl; auto.
Qed.

Lemma getZ_set_all_in L : forall ta w u, (forall x, In x L -> 0 <= x < zlen ta) -> In u L ->
  getZ (set_all ta L w) u = w.
Proof.
  induction L; simpl; intros ta w u Hr Hin. tauto.
  unfold set_all in *; simpl.
  destruct (in_dec Z.eq_dec u L) as [Hi|Hn].
  - apply IHL; auto. intros. rewrite zlen_setZ. auto.
  - destruct Hin as [->|]; [|tauto].
    fold (set_all (setZ ta u w) L w).
    rewrite getZ_set_all_notin; auto. apply getZ_setZ_eq; auto.
    apply (Hr u); auto. intros; apply (Hr x); auto.
Qed.

(* walking a chain that returns to treeid wakes exactly the chain *)
Lemma wake_loop_chain L : forall fuel ta n t w cur,
  n = zlen ta -> chain ta cur L t -> NoDup (cur :: L) -> ~ In t L ->
  (forall x, In x (t :: cur :: L) -> 0 <= x < n) -> (length L < fuel)%nat ->
  wake_loop fuel ta n t w cur = set_all ta (cur :: L) w.
Proof.
  induction L; intros fuel ta n t w cur Hn Hc Hnd Hnt Hr Hf;
    (destruct fuel; [simpl in Hf; lia|]); simpl in Hc |- *.
  - rewrite Hc. assert (0 <= t < n) by (apply Hr; simpl; auto).
    replace ((t <? 0) || (t >=? n)) with false by lia.
    rewrite Z.eqb_refl. reflexivity.
  - destruct Hc as [Ha Hc]. rewrite Ha.
    assert (0 <= a < n) by (apply Hr; simpl; auto).
    assert (0 <= cur < n) by (apply Hr; simpl; auto).
    replace ((a <? 0) || (a >=? n)) with false by lia.
    assert (a <> t) by (intro; subst; apply Hnt; simpl; auto).
    replace (a =? t) with false by lia.
    rewrite (IHL fuel (setZ ta cur w) n t w a).
    + reflexivity.
    + now rewrite zlen_setZ.
    + inversion Hnd; subst. eapply chain_ext; [|exact Hc]. intros u Hu.
      apply getZ_setZ_neq; try lia. apply (Hr u); simpl in *; tauto.
      intro; subst; tauto.
    + inversion Hnd; auto.
    + intro; apply Hnt; simpl; auto.
    + intros x Hx. apply Hr. simpl in *. tauto.
    + simpl in Hf. lia.
Qed.

(* ======================= part 2 ======================= *)
Definition is_cycle (ta : list Z) (c : list Z) : Prop :=
  match c with [] => False | x :: l => chain ta x l x end.

(* the non-negative entries of ta are exactly the members of the disjoint cyclic lists cs,
   and ta maps every member to its cyclic successor *)
Record cycles_wf (ta : list Z) (cs : list (list Z)) : Prop := {
  wf_nodup : NoDup (concat cs);
  wf_range : forall t, In t (concat cs) -> 0 <= t < zlen ta;
  wf_cover : forall t, 0 <= t < zlen ta -> 0 <= getZ ta t -> In t (concat cs);
  wf_cyc : forall c, In c cs -> is_cycle ta c }.

Definition WF (ta : list Z) : Prop := exists cs, cycles_wf ta cs.

Lemma in_concat_iff {A} (x : A) ls : In x (concat ls) <-> exists l, In l ls /\ In x l.
Proof.
  induction ls; simpl. split; [tauto|intros (l & [] & _)].
  rewrite in_app_iff, IHls. split.
  - intros [H|(l & H1 & H2)]; eauto.
  - intros (l & [<-|H1] & H2); eauto.
Qed.

Lemma NoDup_concat_in {A} (ls : list (list A)) l : NoDup (concat ls) -> In l ls -> NoDup l.
Proof.
  induction ls; simpl; intros Hn []; subst; apply NoDup_app_iff in Hn as (H1 & H2 & H3); auto.
Qed.

Lemma concat_unique {A} (ls : list (list A)) l1 l2 x :
  NoDup (concat ls) -> In l1 ls -> In l2 ls -> In x l1 -> In x l2 -> l1 = l2.
Proof.
  induction ls; simpl; intros Hn H1 H2 Hx1 Hx2. tauto.
  apply NoDup_app_iff in Hn as (Ha & Hb & Hc).
  destruct H1 as [<-|H1], H2 as [<-|H2]; auto.
  - exfalso. apply (Hc x Hx1). apply in_concat_iff; eauto.
  - exfalso. apply (Hc x Hx2). apply in_concat_iff; eauto.
Qed.

Lemma chain_next_in ta : forall l a b t, chain ta a l b -> In t (a :: l) -> In (getZ ta t) (l ++ [b]).
Proof.
  induction l; simpl; intros a0 b t Hc Hin.
  - destruct Hin as [<-|[]]. auto.
  - destruct Hc as [Ha Hc]. destruct Hin as [<-|Hin]; auto.
    right. eapply IHl; eauto.
Qed.

Lemma cycle_next_in ta c t : is_cycle ta c -> In t c -> In (getZ ta t) c.
Proof.
  destruct c as [|x l]; simpl. tauto. intros Hc Hin.
  pose proof (chain_next_in ta l x x t Hc Hin) as H.
  apply in_app_or in H as [H|[<-|[]]]; auto.
Qed.

Lemma member_asleep ta cs t : cycles_wf ta cs -> In t (concat cs) ->
  0 <= getZ ta t < zlen ta /\ In (getZ ta t) (concat cs).
Proof.
  intros W Hin. apply in_concat_iff in Hin as (c & Hc & Ht).
  assert (In (getZ ta t) (concat cs)).
  { apply in_concat_iff. exists c. split; auto. apply cycle_next_in; auto. apply (wf_cyc _ _ W); auto. }
  split; auto. apply (wf_range _ _ W); auto.
Qed.

(* a cycle can be entered at any of its members *)
Lemma cycle_rotate ta c t : is_cycle ta c -> In t c ->
  exists L, chain ta t L t /\ Permutation (t :: L) c.
Proof.
  destruct c as [|x l]; simpl. tauto. intros Hc [->|Hin].
  - exists l. split; auto.
  - apply in_split in Hin as (l1 & l2 & ->).
    apply chain_app in Hc as [H1 H2].
    exists (l2 ++ x :: l1). split.
    + apply chain_app. auto.
    + change (Permutation ((t :: l2) ++ x :: l1) (x :: l1 ++ t :: l2)).
      rewrite Permutation_app_comm. simpl. constructor. reflexivity.
Qed.

Lemma wake_tree_cycle ta cs c t w : cycles_wf ta cs -> In c cs -> In t c ->
  exists L, Permutation (t :: L) c /\ wake_tree ta t w = set_all ta (t :: L) w.
Proof.
  intros W Hc Ht.
  assert (Hin : In t (concat cs)) by (apply in_concat_iff; eauto).
  destruct (member_asleep _ _ _ W Hin) as [Hs _].
  pose proof (wf_range _ _ W _ Hin) as Hr.
  destruct (cycle_rotate ta c t (wf_cyc _ _ W _ Hc) Ht) as (L & Hch & Hp).
  exists L. split; auto.
  assert (Hnd : NoDup (t :: L)).
  { eapply Permutation_NoDup. symmetry; exact Hp. eapply NoDup_concat_in; eauto. apply (wf_nodup _ _ W). }
  assert (Hrange : forall x, In x (t :: L) -> 0 <= x < zlen ta).
  { intros x Hx. apply (wf_range _ _ W). apply in_concat_iff. exists c. split; auto.
    eapply Permutation_in; eauto. }
  unfold wake_tree.
  replace ((t <? 0) || (t >=? zlen ta)) with false by lia.
  replace (getZ ta t <? 0) with false by lia.
  apply wake_loop_chain; auto.
  - inversion Hnd; auto.
  - intros x [<-|Hx]; auto.
  - pose proof (NoDup_range_length (t :: L) (zlen ta) Hnd Hrange). simpl in H. lia.
Qed.

Lemma wake_tree_cycle_in ta cs c t w u : cycles_wf ta cs -> In c cs -> In t c -> In u c ->
  getZ (wake_tree ta t w) u = w.
Proof.
  intros W Hc Ht Hu. destruct (wake_tree_cycle ta cs c t w W Hc Ht) as (L & Hp & ->).
  apply getZ_set_all_in.
  - intros x Hx. apply (wf_range _ _ W). apply in_concat_iff. exists c; split; auto.
    eapply Permutation_in; eauto.
  - eapply Permutation_in. symmetry; eauto. auto.
Qed.

Lemma wake_tree_cycle_notin ta cs c t w u : cycles_wf ta cs -> In c cs -> In t c -> 0 <= u -> ~ In u c ->
  getZ (wake_tree ta t w) u = getZ ta u.
Proof.
  intros W Hc Ht Hu0 Hu. destruct (wake_tree_cycle ta cs c t w W Hc Ht) as (L & Hp & ->).
  apply getZ_set_all_notin; auto.
  - intros x Hx. apply (wf_range _ _ W x). apply in_concat_iff. exists c; split; auto.
    eapply Permutation_in; eauto.
  - intro. apply Hu. eapply Permutation_in; eauto.
Qed.

Lemma zlen_wake_loop fuel : forall ta n t w cur, zlen (wake_loop fuel ta n t w cur) = zlen ta.
Proof.
  induction fuel; simpl; intros; auto.
  destruct ((getZ ta cur <? 0) || (getZ ta cur >=? n)); auto.
  destruct (getZ ta cur =? t). apply zlen_setZ. rewrite IHfuel. apply zlen_setZ.
Qed.

Lemma zlen_wake_tree ta t w : zlen (wake_tree ta t w) = zlen ta.
Proof.
  unfold wake_tree. destruct ((t <? 0) || (t >=? zlen ta)); auto.
  destruct (getZ ta t <? 0). destruct (w <? getZ ta t); auto. apply zlen_setZ.
  apply zlen_wake_loop.
Qed.

(* every entry is either untouched or equal to the wake value (no well-formedness needed) *)
Lemma wake_loop_entry fuel : forall ta n t w cur u, 0 <= u ->
  getZ (wake_loop fuel ta n t w cur) u = getZ ta u \/ getZ (wake_loop fuel ta n t w cur) u = w.
Proof.
  induction fuel; simpl; intros; auto.
  destruct ((getZ ta cur <? 0) || (getZ ta cur >=? n)) eqn:E; auto.
  assert (Hc : 0 <= cur \/ cur < 0) by lia.
  assert (Hs : getZ (setZ ta cur w) u = getZ ta u \/ getZ (setZ ta cur w) u = w).
  { destruct Hc. apply getZ_setZ_cases; auto.
    replace (setZ ta cur w) with (setZ ta 0 w). apply getZ_setZ_cases; lia.
    unfold setZ. f_equal. lia. }
  destruct (getZ ta cur =? t); auto.
  destruct (IHfuel (setZ ta cur w) n t w (getZ ta cur) u H) as [->| ->]; auto.
Qed.

Lemma wake_tree_entry ta t w u : 0 <= u ->
  getZ (wake_tree ta t w) u = getZ ta u \/ getZ (wake_tree ta t w) u = w.
Proof.
  intros. unfold wake_tree. destruct ((t <? 0) || (t >=? zlen ta)) eqn:E; auto.
  destruct (getZ ta t <? 0). destruct (w <? getZ ta t); auto.
  apply getZ_setZ_cases; auto; lia.
  apply wake_loop_entry; auto.
Qed.

(* ---------- frame lemmas ---------- *)
Lemma cycles_wf_same ta ta' cs : cycles_wf ta cs -> zlen ta' = zlen ta ->
  (forall u, 0 <= u < zlen ta -> getZ ta' u = getZ ta u \/ (getZ ta u < 0 /\ getZ ta' u < 0)) ->
  cycles_wf ta' cs.
Proof.
  intros W Hl H. 
  assert (Hm : forall u, In u (concat cs) -> getZ ta' u = getZ ta u).
  { intros u Hu. destruct (member_asleep _ _ _ W Hu) as [Hs _].
    destruct (H u (wf_range _ _ W _ Hu)) as [|[]]; auto. lia. }
  constructor.
  - apply (wf_nodup _ _ W).
  - intros. rewrite Hl. apply (wf_range _ _ W); auto.
  - intros t Ht Hs. rewrite Hl in Ht. apply (wf_cover _ _ W); auto.
    destruct (H t Ht) as [<-|[]]; auto. lia.
  - intros c Hc. pose proof (wf_cyc _ _ W c Hc) as Hy. destruct c as [|x l]; simpl in *; auto.
    eapply chain_ext; [|exact Hy]. intros u Hu. apply Hm. apply in_concat_iff. exists (x :: l); auto.
Qed.

Lemma concat_remove_in {A} (cs1 : list (list A)) c cs2 x :
  In x (concat (cs1 ++ c :: cs2)) <-> In x c \/ In x (concat (cs1 ++ cs2)).
Proof. rewrite !concat_app. simpl. rewrite !in_app_iff. tauto. Qed.

Lemma cycles_wf_remove ta ta' cs1 c cs2 : cycles_wf ta (cs1 ++ c :: cs2) -> zlen ta' = zlen ta ->
  (forall u, 0 <= u -> ~ In u c -> getZ ta' u = getZ ta u) ->
  (forall u, In u c -> getZ ta' u < 0) ->
  cycles_wf ta' (cs1 ++ cs2).
Proof.
  intros W Hl Hout Hin.
  pose proof (wf_nodup _ _ W) as Hnd. rewrite concat_app in Hnd. simpl in Hnd.
  apply NoDup_app_iff in Hnd as (N1 & N2 & N3). apply NoDup_app_iff in N2 as (N2 & N4 & N5).
  assert (Hdis : forall u, In u (concat (cs1 ++ cs2)) -> ~ In u c).
  { intros u Hu Hc. rewrite concat_app in Hu. apply in_app_or in Hu as [Hu|Hu].
    - apply (N3 u Hu). apply in_or_app; auto.
    - apply (N5 u Hc Hu). }
  constructor.
  - rewrite concat_app. apply NoDup_app_iff. repeat split; auto.
    intros x Hx Hx2. apply (N3 x Hx). apply in_or_app; auto.
  - intros t Ht. rewrite Hl. apply (wf_range _ _ W). apply concat_remove_in; auto.
  - intros t Ht Hs. rewrite Hl in Ht.
    destruct (in_dec Z.eq_dec t c) as [Hc|Hc].
    + specialize (Hin t Hc). lia.
    + rewrite Hout in Hs by (auto; lia).
      pose proof (wf_cover _ _ W t Ht Hs) as H. apply concat_remove_in in H as [|]; tauto.
  - intros c' Hc'. assert (Hc2 : In c' (cs1 ++ c :: cs2)).
    { apply in_app_or in Hc' as [|]; apply in_or_app; simpl; auto. }
    pose proof (wf_cyc _ _ W c' Hc2) as Hy. destruct c' as [|x l]; simpl in *; auto.
    eapply chain_ext; [|exact Hy]. intros u Hu.
    assert (In u (concat (cs1 ++ cs2))) by (apply in_concat_iff; exists (x :: l); auto).
    apply Hout; auto. 
    assert (0 <= u < zlen ta); [|lia]. apply (wf_range _ _ W). apply concat_remove_in; auto.
Qed.

Lemma cycles_wf_add ta ta' cs c : cycles_wf ta cs -> zlen ta' = zlen ta ->
  (forall u, 0 <= u -> ~ In u c -> getZ ta' u = getZ ta u) ->
  is_cycle ta' c -> NoDup c ->
  (forall u, In u c -> 0 <= u < zlen ta /\ ~ In u (concat cs)) ->
  cycles_wf ta' (cs ++ [c]).
Proof.
  intros W Hl Hout Hy Hnd Hc.
  assert (E : forall x, In x (concat (cs ++ [c])) <-> In x (concat cs) \/ In x c).
  { intros. rewrite concat_app. simpl. rewrite app_nil_r. apply in_app_iff. }
  constructor.
  - rewrite concat_app. simpl. rewrite app_nil_r. apply NoDup_app_iff. repeat split; auto.
    apply (wf_nodup _ _ W). intros x Hx Hx2. apply (Hc x); auto.
  - intros t Ht. rewrite Hl. apply E in Ht as [Ht|Ht]. apply (wf_range _ _ W); auto. apply Hc; auto.
  - intros t Ht Hs. rewrite Hl in Ht. apply E.
    destruct (in_dec Z.eq_dec t c) as [|Hn]; auto. left.
    rewrite Hout in Hs by (auto; lia). apply (wf_cover _ _ W); auto.
  - intros c' Hc'. apply in_app_or in Hc' as [Hc'|[<-|[]]]; auto.
    pose proof (wf_cyc _ _ W c' Hc') as Hy'. destruct c' as [|x l]; simpl in *; auto.
    eapply chain_ext; [|exact Hy']. intros u Hu.
    assert (Hu2 : In u (concat cs)) by (apply in_concat_iff; exists (x :: l); auto).
    apply Hout. apply (wf_range _ _ W); auto. intro Hx. apply (Hc u); auto.
Qed.

(* ---------- _wake_tree preserves well-formedness (any tree id, any negative wake value) ---------- *)
Lemma wake_tree_wf ta cs t w : cycles_wf ta cs -> w < 0 ->
  exists cs', cycles_wf (wake_tree ta t w) cs' /\ incl cs' cs.
Proof.
  intros W Hw.
  destruct (Z_lt_dec t 0) as [|Ht0].
  { exists cs. split. unfold wake_tree. replace ((t <? 0) || (t >=? zlen ta)) with true by lia. auto. apply incl_refl. }
  destruct (Z_ge_dec t (zlen ta)) as [|Ht1].
  { exists cs. split. unfold wake_tree. replace ((t <? 0) || (t >=? zlen ta)) with true by lia. auto. apply incl_refl. }
  destruct (Z_lt_dec (getZ ta t) 0) as [Ha|Ha].
  - exists cs. split; [|apply incl_refl].
    apply cycles_wf_same with ta; auto. apply zlen_wake_tree.
    intros u Hu. unfold wake_tree.
    replace ((t <? 0) || (t >=? zlen ta)) with false by lia.
    replace (getZ ta t <? 0) with true by lia.
    destruct (w <? getZ ta t); auto.
    destruct (Z.eq_dec t u).
    + subst. right. rewrite getZ_setZ_eq; lia.
    + left. apply getZ_setZ_neq; lia.
  - assert (Hin : In t (concat cs)) by (apply (wf_cover _ _ W); lia).
    apply in_concat_iff in Hin as (c & Hc & Htc).
    destruct (in_split _ _ Hc) as (cs1 & cs2 & ->).
    exists (cs1 ++ cs2). split.
    + apply cycles_wf_remove with ta c; auto. apply zlen_wake_tree.
      * intros. eapply wake_tree_cycle_notin; eauto.
      * intros. erewrite wake_tree_cycle_in; eauto.
    + intros x Hx. apply in_app_or in Hx as [|]; apply in_or_app; simpl; auto.
Qed.

(* ======================= part 3 ======================= *)
Definition same_cycle (cs : list (list Z)) (t u : Z) : Prop := exists c, In c cs /\ In t c /\ In u c.

(* after _wake_tree(t, w) every tree of t's sleep cycle holds the (negative) wake value,
   every other entry is untouched *)
Lemma wake_tree_wakes_cycle ta cs t w u :
  cycles_wf ta cs -> same_cycle cs t u -> getZ (wake_tree ta t w) u = w.
Proof. intros W (c & Hc & Ht & Hu). eapply wake_tree_cycle_in; eauto. Qed.

Lemma wake_tree_other_untouched ta cs t w u :
  cycles_wf ta cs -> In t (concat cs) -> 0 <= u -> ~ same_cycle cs t u ->
  getZ (wake_tree ta t w) u = getZ ta u.
Proof.
  intros W Ht Hu Hn. apply in_concat_iff in Ht as (c & Hc & Ht).
  eapply wake_tree_cycle_notin; eauto. intro. apply Hn. exists c; auto.
Qed.

Lemma wake_tree_neg ta t w u : w < 0 -> 0 <= u -> getZ ta u < 0 -> getZ (wake_tree ta t w) u < 0.
Proof. intros. destruct (wake_tree_entry ta t w u H0) as [-> | ->]; auto. Qed.

Lemma wake_tree_WF ta t w : WF ta -> w < 0 -> WF (wake_tree ta t w).
Proof. intros [cs W] Hw. destruct (wake_tree_wf ta cs t w W Hw) as (cs' & H & _). exists cs'; auto. Qed.

(* ---------- generic fold ---------- *)
Lemma fold_left_inv {A T} (F : A -> T -> A) (I : A -> Prop) (l : list T) :
  (forall a c, I a -> I (F a c)) -> forall a, I a -> I (fold_left F l a).
Proof. intros H. induction l; simpl; auto. Qed.

(* ---------- _wake_kernel ---------- *)
Lemma wake_task_WF aw can0 t ta : WF ta -> WF (wake_task aw can0 t ta).
Proof.
  intros. unfold wake_task. destruct (getZ ta t >=? 0); auto.
  destruct ((getZ aw t =? 1) || negb (getB can0 t)); auto. apply wake_tree_WF; auto. reflexivity.
Qed.

Lemma wake_launch_WF aw can0 tasks ta : WF ta -> WF (wake_launch aw can0 tasks ta).
Proof. unfold wake_launch. apply fold_left_inv. intros; now apply wake_task_WF. Qed.

(* ---------- _wake_tendon_kernel ---------- *)
Lemma tendon_pass1_le aw ta trees : snd (tendon_pass1 aw ta trees) <= K_AWAKE.
Proof.
  unfold tendon_pass1.
  apply (fold_left_inv _ (fun s : bool * Z => snd s <= K_AWAKE)); [|simpl; lia].
  intros [b w] t Hs; simpl in *.
  destruct (t >=? 0); auto. destruct (getZ aw t =? 1); auto. simpl.
  destruct (getZ ta t <? w) eqn:E; lia.
Qed.

Lemma wake_tendon_trees_WF aw trees w ta : w < 0 -> WF ta -> WF (wake_tendon_trees aw trees w ta).
Proof.
  intros Hw. unfold wake_tendon_trees. apply fold_left_inv. intros a t Ha.
  destruct (t >=? 0); auto. destruct (getZ aw t =? 0); auto. now apply wake_tree_WF.
Qed.

Lemma wake_tendon_trees_task_WF aw trees act ta : WF ta -> WF (wake_tendon_trees_task aw trees act ta).
Proof.
  intros. unfold wake_tendon_trees_task.
  destruct (fst (tendon_pass1 aw ta trees)); auto. destruct act; auto.
  apply wake_tendon_trees_WF; auto.
  pose proof (tendon_pass1_le aw ta trees). unfold K_AWAKE in *. lia.
Qed.

Lemma wake_tendon_launch_WF M aw act tasks ta : WF ta -> WF (wake_tendon_launch M aw act tasks ta).
Proof. unfold wake_tendon_launch. apply fold_left_inv. intros. now apply wake_tendon_trees_task_WF. Qed.

(* ---------- _wake_equality_kernel ---------- *)
Lemma wake_eq_pair_WF aw t1 t2 ta : WF ta -> WF (wake_eq_pair aw t1 t2 ta).
Proof.
  intros. unfold wake_eq_pair.
  repeat match goal with |- WF (if ?b then _ else _) => destruct b; auto end;
  repeat apply wake_tree_WF; auto; reflexivity.
Qed.

Lemma wake_eq_tendon_WF aw tr1 tr2 ta : WF ta -> WF (wake_eq_tendon aw tr1 tr2 ta).
Proof.
  intros. unfold wake_eq_tendon.
  set (w1 := tendon_wake_val aw ta tr1). set (w2 := tendon_wake_val aw ta tr2).
  destruct ((w1 <? 0) || (w2 <? 0)); auto.
  assert (Hw : (if (w2 <? 0) && (w2 <? (if (w1 <? 0) && (w1 <? K_AWAKE) then w1 else K_AWAKE)) then w2
               else if (w1 <? 0) && (w1 <? K_AWAKE) then w1 else K_AWAKE) < 0).
  { unfold K_AWAKE. destruct ((w1 <? 0) && (w1 <? -11)) eqn:E1;
    match goal with |- (if ?b then _ else _) < 0 => destruct b eqn:E2 end; lia. }
  apply wake_tendon_trees_WF; auto. apply wake_tendon_trees_WF; auto.
Qed.

Lemma wake_equality_task_WF M E act aw e ta : WF ta -> WF (wake_equality_task M E act aw e ta).
Proof.
  intros. unfold wake_equality_task.
  destruct (negb (getB act e)); auto.
  destruct ((getZ (eq_type E) e =? EQ_CONNECT) || (getZ (eq_type E) e =? EQ_WELD) || (getZ (eq_type E) e =? EQ_JOINT)).
  - now apply wake_eq_pair_WF.
  - destruct (getZ (eq_type E) e =? EQ_TENDON); auto. now apply wake_eq_tendon_WF.
Qed.

Lemma wake_equality_launch_WF M E act aw tasks ta : WF ta -> WF (wake_equality_launch M E act aw tasks ta).
Proof. unfold wake_equality_launch. apply fold_left_inv. intros. now apply wake_equality_task_WF. Qed.

(* ---------- _wake_collision_kernel: needs a tree_awake snapshot that does not call a sleeping tree awake ---------- *)
(* every snapshot entry is 0 or 1, and 1 only for a tree that is awake in the current state *)
Definition snapshot_ok (aw ta : list Z) : Prop :=
  forall t, 0 <= t -> (getZ aw t = 1 /\ getZ ta t < 0) \/ getZ aw t = 0.

Lemma snapshot_ok_wake_tree aw ta t w : w < 0 -> snapshot_ok aw ta -> snapshot_ok aw (wake_tree ta t w).
Proof.
  intros Hw H u Hu. destruct (H u Hu) as [[H1 H2]|]; auto. left. split; auto. now apply wake_tree_neg.
Qed.

Lemma wake_collision_trees_inv aw t1 t2 ta : WF ta /\ snapshot_ok aw ta ->
  WF (wake_collision_trees aw t1 t2 ta) /\ snapshot_ok aw (wake_collision_trees aw t1 t2 ta).
Proof.
  intros [W S]. unfold wake_collision_trees.
  destruct ((t1 <? 0) || (t2 <? 0)) eqn:E; auto.
  destruct ((getZ aw t1 =? 1) && (getZ aw t2 =? 1)) eqn:E1; auto.
  destruct ((getZ aw t1 =? 0) && (getZ aw t2 =? 0)) eqn:E2; auto.
  assert (Hw : (if getZ aw t1 =? 1 then getZ ta t1 else getZ ta t2) < 0).
  { assert (H1 : 0 <= t1) by lia. assert (H2 : 0 <= t2) by lia.
    destruct (S t1 H1) as [[A1 B1]|A1]; destruct (S t2 H2) as [[A2 B2]|A2]; try lia.
    - rewrite A1. simpl. auto.
    - rewrite A1. simpl. auto. }
  split. apply wake_tree_WF; auto. apply snapshot_ok_wake_tree; auto.
Qed.

Lemma wake_collision_task_inv bt gb aw con ta : WF ta /\ snapshot_ok aw ta ->
  WF (wake_collision_task bt gb aw con ta) /\ snapshot_ok aw (wake_collision_task bt gb aw con ta).
Proof.
  intros. unfold wake_collision_task. destruct con as [g1 g2].
  destruct ((g1 <? 0) || (g2 <? 0)); auto. now apply wake_collision_trees_inv.
Qed.

Lemma wake_collision_launch_WF bt gb aw cons ta : WF ta -> snapshot_ok aw ta ->
  WF (wake_collision_launch bt gb aw cons ta).
Proof.
  intros W S. unfold wake_collision_launch.
  apply (fold_left_inv _ (fun a => WF a /\ snapshot_ok aw a)); auto.
  intros. now apply wake_collision_task_inv.
Qed.

(* ======================= part 4 ======================= *)
Lemma wake_tree_chain a t L w : 0 <= t < zlen a -> 0 <= getZ a t -> chain a t L t ->
  NoDup (t :: L) -> (forall x, In x (t :: L) -> 0 <= x < zlen a) ->
  wake_tree a t w = set_all a (t :: L) w.
Proof.
  intros Ht Ha Hc Hnd Hr. unfold wake_tree.
  replace ((t <? 0) || (t >=? zlen a)) with false by lia.
  replace (getZ a t <? 0) with false by lia.
  apply wake_loop_chain; auto.
  - inversion Hnd; auto.
  - intros x [<-|Hx]; auto.
  - pose proof (NoDup_range_length (t :: L) (zlen a) Hnd Hr). simpl in H. lia.
Qed.

Lemma wake_tree_awake_get a t w u : getZ a t < 0 -> 0 <= u -> u <> t ->
  getZ (wake_tree a t w) u = getZ a u.
Proof.
  intros Ha Hu Hn. unfold wake_tree. destruct ((t <? 0) || (t >=? zlen a)) eqn:E; auto.
  replace (getZ a t <? 0) with true by lia. destruct (w <? getZ a t); auto.
  apply getZ_setZ_neq; lia.
Qed.

Lemma wake_tree_out_of_range a t w : ~ (0 <= t < zlen a) -> wake_tree a t w = a.
Proof. intros. unfold wake_tree. replace ((t <? 0) || (t >=? zlen a)) with true by lia. auto. Qed.

Lemma same_cycle_in cs c t u : NoDup (concat cs) -> In c cs -> In t c -> same_cycle cs t u -> In u c.
Proof. intros Hn Hc Ht (c' & Hc' & Ht' & Hu'). now rewrite (concat_unique cs c c' t Hn Hc Hc' Ht Ht'). Qed.

Lemma same_cycle_sym cs t u : same_cycle cs t u -> same_cycle cs u t.
Proof. intros (c & ? & ? & ?). exists c; auto. Qed.

Lemma same_cycle_trans cs t u v : NoDup (concat cs) -> same_cycle cs t u -> same_cycle cs u v -> same_cycle cs t v.
Proof.
  intros Hn (c & Hc & Ht & Hu) H2. exists c. repeat split; auto. eapply same_cycle_in; eauto.
Qed.

(* ---------- the state during a wake launch, relative to the state a0 at launch start ----------
   Wp : the trees on which _wake_tree has been called so far; P : a property of every wake value used *)
Definition woken (cs : list (list Z)) (Wp : Z -> Prop) (u : Z) : Prop :=
  exists t, Wp t /\ same_cycle cs t u.

Record wake_inv (a0 : list Z) (cs : list (list Z)) (P : Z -> Prop) (Wp : Z -> Prop) (a : list Z) : Prop := {
  wi_len : zlen a = zlen a0;
  wi_awake : forall u, 0 <= u < zlen a0 -> getZ a0 u < 0 -> getZ a u = getZ a0 u;
  wi_asleep : forall u, 0 <= u < zlen a0 -> 0 <= getZ a0 u ->
     (getZ a u = getZ a0 u /\ ~ woken cs Wp u) \/ (getZ a u < 0 /\ P (getZ a u) /\ woken cs Wp u) }.

Lemma wake_inv_init a0 cs P : wake_inv a0 cs P (fun _ => False) a0.
Proof. constructor; auto. intros. left. split; auto. intros (t & [] & _). Qed.

Lemma woken_equiv cs Wp Wp' u : (forall x, Wp x <-> Wp' x) -> woken cs Wp u <-> woken cs Wp' u.
Proof. intros H. split; intros (t & Ht & Hs); exists t; split; auto; apply H; auto. Qed.

Lemma wake_inv_equiv a0 cs P Wp Wp' a : (forall x, Wp x <-> Wp' x) -> wake_inv a0 cs P Wp a -> wake_inv a0 cs P Wp' a.
Proof.
  intros H I. constructor. apply (wi_len _ _ _ _ _ I). apply (wi_awake _ _ _ _ _ I).
  intros u Hu H0. destruct (wi_asleep _ _ _ _ _ I u Hu H0) as [[E N]|(A & B & C)]; [left|right].
  - split; auto. rewrite <- (woken_equiv cs Wp Wp' u H). auto.
  - repeat split; auto. rewrite <- (woken_equiv cs Wp Wp' u H). auto.
Qed.

(* a call on a tree that is in no cycle of a0 and leaves the state alone *)
Lemma wake_inv_extend_dead a0 cs P Wp a t : ~ In t (concat cs) ->
  wake_inv a0 cs P Wp a -> wake_inv a0 cs P (fun x => x = t \/ Wp x) a.
Proof.
  intros Hn I.
  assert (E : forall u, woken cs (fun x => x = t \/ Wp x) u <-> woken cs Wp u).
  { intros u. split.
    - intros (x & [->|Hx] & Hs). exfalso. apply Hn. destruct Hs as (c & Hc & Ht & _). apply in_concat_iff; eauto.
      exists x; auto.
    - intros (x & Hx & Hs). exists x; auto. }
  constructor. apply (wi_len _ _ _ _ _ I). apply (wi_awake _ _ _ _ _ I).
  intros u Hu H0. destruct (wi_asleep _ _ _ _ _ I u Hu H0) as [[E1 N]|(A & B & C)]; [left|right]; rewrite E; auto.
Qed.

Lemma wake_inv_extend_woken a0 cs P Wp a t : NoDup (concat cs) -> woken cs Wp t ->
  wake_inv a0 cs P Wp a -> wake_inv a0 cs P (fun x => x = t \/ Wp x) a.
Proof.
  intros Hnd (t' & Ht' & Hs') I.
  assert (E : forall u, woken cs (fun x => x = t \/ Wp x) u <-> woken cs Wp u).
  { intros u. split.
    - intros (x & [->|Hx] & Hs). exists t'. split; auto. eapply same_cycle_trans; eauto. exists x; auto.
    - intros (x & Hx & Hs). exists x; auto. }
  constructor. apply (wi_len _ _ _ _ _ I). apply (wi_awake _ _ _ _ _ I).
  intros u Hu H0. destruct (wi_asleep _ _ _ _ _ I u Hu H0) as [[E1 N]|(A & B & C)]; [left|right]; rewrite E; auto.
Qed.

(* one _wake_tree call on a tree that was asleep at launch start *)
Lemma wake_inv_step a0 cs (P : Z -> Prop) Wp a t w :
  cycles_wf a0 cs -> wake_inv a0 cs P Wp a -> In t (concat cs) -> w < 0 -> P w ->
  wake_inv a0 cs P (fun x => x = t \/ Wp x) (wake_tree a t w).
Proof.
  intros W I Ht Hw HP.
  pose proof (wf_nodup _ _ W) as Hnd.
  pose proof (wf_range _ _ W t Ht) as Htr.
  destruct (member_asleep _ _ _ W Ht) as [Ht0 _].
  apply in_concat_iff in Ht as (c & Hc & Htc).
  pose proof (wi_len _ _ _ _ _ I) as Hlen.
  destruct (Z_lt_dec (getZ a t) 0) as [Ha|Ha].
  - (* t has already been woken by an earlier call *)
    destruct (wi_asleep _ _ _ _ _ I t Htr) as [[E _]|(_ & HPt & Hwk)]; [lia|lia|].
    assert (E : forall u, woken cs (fun x => x = t \/ Wp x) u <-> woken cs Wp u).
    { intros u. split.
      - intros (x & [->|Hx] & Hs). destruct Hwk as (t' & Ht' & Hs'). exists t'. split; auto.
        eapply same_cycle_trans; eauto. exists x; auto.
      - intros (x & Hx & Hs). exists x; auto. }
    constructor.
    + now rewrite zlen_wake_tree.
    + intros u Hu H0. rewrite wake_tree_awake_get; try lia. apply (wi_awake _ _ _ _ _ I); auto. intro; subst; lia.
    + intros u Hu H0. destruct (Z.eq_dec u t) as [->|Hne].
      * right. repeat split. apply wake_tree_neg; auto; lia.
        destruct (wake_tree_entry a t w t) as [-> | ->]; auto; lia.
        apply E; auto.
      * rewrite wake_tree_awake_get; try lia.
        destruct (wi_asleep _ _ _ _ _ I u Hu H0) as [[E1 N]|(A & B & C)]; [left|right]; rewrite E; auto.
  - (* t (hence its whole cycle) is still asleep *)
    destruct (wi_asleep _ _ _ _ _ I t Htr) as [[Et N]|(A & _)]; [lia| |lia].
    assert (Hcr : forall u, In u c -> 0 <= u < zlen a0).
    { intros u Hu. apply (wf_range _ _ W). apply in_concat_iff; eauto. }
    assert (Hun : forall u, In u c -> getZ a u = getZ a0 u).
    { intros u Hu.
      assert (Hu2 : In u (concat cs)) by (apply in_concat_iff; eauto).
      destruct (member_asleep _ _ _ W Hu2) as [Hu0 _].
      destruct (wi_asleep _ _ _ _ _ I u (Hcr u Hu)) as [[E' _]|(_ & _ & (x & Hx & Hs))]; auto; [lia|].
      exfalso. apply N. exists x. split; auto. eapply same_cycle_trans; eauto. exists c; auto. }
    destruct (cycle_rotate a0 c t (wf_cyc _ _ W c Hc) Htc) as (L & Hch & Hp).
    assert (HL : forall x, In x (t :: L) -> In x c) by (intros; eapply Permutation_in; eauto).
    assert (Hch' : chain a t L t).
    { eapply chain_ext; [|exact Hch]. intros. apply Hun. auto. }
    assert (Hnd' : NoDup (t :: L)).
    { eapply Permutation_NoDup. symmetry; exact Hp. eapply NoDup_concat_in; eauto. }
    assert (Hr' : forall x, In x (t :: L) -> 0 <= x < zlen a).
    { intros. rewrite Hlen. auto. }
    rewrite (wake_tree_chain a t L w); auto; try lia.
    assert (Gin : forall u, In u c -> getZ (set_all a (t :: L) w) u = w).
    { intros. apply getZ_set_all_in; auto. eapply Permutation_in. symmetry; eauto. auto. }
    assert (Gout : forall u, 0 <= u -> ~ In u c -> getZ (set_all a (t :: L) w) u = getZ a u).
    { intros. apply getZ_set_all_notin; auto. intros x Hx. apply (Hr' x Hx). }
    assert (E : forall u, woken cs (fun x => x = t \/ Wp x) u <-> In u c \/ woken cs Wp u).
    { intros u. split.
      - intros (x & [->|Hx] & Hs). left. eapply same_cycle_in; eauto. right. exists x; auto.
      - intros [Hu|(x & Hx & Hs)]. exists t. split; auto. exists c; auto. exists x; auto. }
    constructor.
    + now rewrite zlen_set_all.
    + intros u Hu H0. rewrite Gout; try lia. apply (wi_awake _ _ _ _ _ I); auto.
      intro Hin. assert (In u (concat cs)) by (apply in_concat_iff; eauto).
      destruct (member_asleep _ _ _ W H). lia.
    + intros u Hu H0. destruct (in_dec Z.eq_dec u c) as [Hin|Hout].
      * right. rewrite Gin; auto. repeat split; auto. apply E; auto.
      * rewrite Gout; auto; try lia.
        destruct (wi_asleep _ _ _ _ _ I u Hu H0) as [[E1 N1]|(A & B & C)]; [left|right]; rewrite E; tauto.
Qed.

(* what wake_inv says about the result *)
Lemma wake_inv_awake_iff a0 cs P Wp a u : wake_inv a0 cs P Wp a -> 0 <= u < zlen a0 ->
  (getZ a u < 0 <-> getZ a0 u < 0 \/ woken cs Wp u).
Proof.
  intros I Hu. destruct (Z_lt_dec (getZ a0 u) 0) as [H0|H0].
  - rewrite (wi_awake _ _ _ _ _ I u Hu H0). tauto.
  - destruct (wi_asleep _ _ _ _ _ I u Hu) as [[E N]|(A & B & C)]; try lia; split; intros; try tauto; lia.
Qed.

(* two runs whose wake-call sets hit the same cycles agree on the awake set, on every entry
   that is still asleep and on every entry that was awake before *)
Definition same_awake_set (a b : list Z) : Prop :=
  zlen a = zlen b /\
  forall u, 0 <= u < zlen a -> (getZ a u < 0 /\ getZ b u < 0) \/ getZ a u = getZ b u.

Lemma wake_inv_same_awake_set a0 cs P Wp Wp' a b :
  (forall x, Wp x <-> Wp' x) -> wake_inv a0 cs P Wp a -> wake_inv a0 cs P Wp' b -> same_awake_set a b.
Proof.
  intros H Ia Ib. apply (wake_inv_equiv _ _ _ _ _ _ H) in Ia.
  split. rewrite (wi_len _ _ _ _ _ Ia), (wi_len _ _ _ _ _ Ib); auto.
  intros u Hu. rewrite (wi_len _ _ _ _ _ Ia) in Hu.
  destruct (Z_lt_dec (getZ a0 u) 0) as [H0|H0].
  - right. rewrite (wi_awake _ _ _ _ _ Ia u Hu H0), (wi_awake _ _ _ _ _ Ib u Hu H0). auto.
  - destruct (wi_asleep _ _ _ _ _ Ia u Hu) as [[E N]|(A & B & C)]; try lia;
    destruct (wi_asleep _ _ _ _ _ Ib u Hu) as [[E' N']|(A' & B' & C')]; try lia; try tauto.
Qed.

(* if moreover every wake value is the same constant the two runs agree exactly *)
Lemma wake_inv_same_state a0 cs k Wp Wp' a b :
  (forall x, Wp x <-> Wp' x) -> wake_inv a0 cs (fun w => w = k) Wp a -> wake_inv a0 cs (fun w => w = k) Wp' b -> a = b.
Proof.
  intros H Ia Ib. apply (wake_inv_equiv _ _ _ _ _ _ H) in Ia.
  apply list_eq_getZ. rewrite (wi_len _ _ _ _ _ Ia), (wi_len _ _ _ _ _ Ib); auto.
  intros u Hu. rewrite (wi_len _ _ _ _ _ Ia) in Hu.
  destruct (Z_lt_dec (getZ a0 u) 0) as [H0|H0].
  - rewrite (wi_awake _ _ _ _ _ Ia u Hu H0), (wi_awake _ _ _ _ _ Ib u Hu H0). auto.
  - destruct (wi_asleep _ _ _ _ _ Ia u Hu) as [[E N]|(A & B & C)]; try lia;
    destruct (wi_asleep _ _ _ _ _ Ib u Hu) as [[E' N']|(A' & B' & C')]; try lia; try tauto; try congruence.
Qed.

(* ======================= part 5 ======================= *)
(* tree_awake as update_sleep computes it from the state at launch start *)
Definition snapshot_of (a0 aw : list Z) : Prop :=
  zlen aw = zlen a0 /\
  forall t, 0 <= t < zlen a0 -> (getZ aw t = 1 /\ getZ a0 t < 0) \/ (getZ aw t = 0 /\ 0 <= getZ a0 t).

Lemma getZ_overflow l t : zlen l <= t -> getZ l t = 0.
Proof. unfold getZ, zlen. intros. apply nth_overflow. lia. Qed.

Lemma snapshot_cases a0 aw t : snapshot_of a0 aw -> 0 <= t ->
  (getZ aw t = 1 /\ 0 <= t < zlen a0 /\ getZ a0 t < 0) \/ (getZ aw t = 0).
Proof.
  intros [Hl H] Ht. destruct (Z_lt_dec t (zlen a0)).
  - destruct (H t) as [[]|[]]; auto; lia.
  - right. apply getZ_overflow. lia.
Qed.

Section Launch.
Variables (a0 : list Z) (cs : list (list Z)) (aw : list Z) (P : Z -> Prop).
Hypothesis W : cycles_wf a0 cs.
Hypothesis S : snapshot_of a0 aw.

(* _wake_tree on a tree that the snapshot calls asleep *)
Lemma wake_inv_call Wp a t w : wake_inv a0 cs P Wp a -> 0 <= t -> getZ aw t = 0 -> w < 0 -> P w ->
  wake_inv a0 cs P (fun x => x = t \/ Wp x) (wake_tree a t w).
Proof.
  intros I Ht Ha Hw HP. destruct (Z_lt_dec t (zlen a0)) as [Hr|Hr].
  - apply wake_inv_step; auto. apply (wf_cover _ _ W); try lia.
    destruct S as [_ H]. destruct (H t) as [[]|[]]; lia.
  - rewrite wake_tree_out_of_range by (rewrite (wi_len _ _ _ _ _ I); lia).
    apply wake_inv_extend_dead; auto. intro Hin. apply (wf_range _ _ W) in Hin. lia.
Qed.

(* a tree the snapshot calls awake still holds its launch-start countdown *)
Lemma awake_value Wp a t : wake_inv a0 cs P Wp a -> 0 <= t -> getZ aw t = 1 ->
  getZ a t = getZ a0 t /\ 0 <= t < zlen a0 /\ getZ a0 t < 0.
Proof.
  intros I Ht Ha. destruct (snapshot_cases a0 aw t S Ht) as [(_ & Hr & H0)|]; [|lia].
  split; auto. apply (wi_awake _ _ _ _ _ I); auto.
Qed.
End Launch.

Definition awake_countdown (a0 : list Z) (w : Z) : Prop :=
  exists t, 0 <= t < zlen a0 /\ getZ a0 t < 0 /\ w = getZ a0 t.

(* ---------- _wake_collision_kernel ---------- *)
(* the tree a contact makes _wake_tree act on (a function of the snapshot only) *)
Definition coll_targets (aw : list Z) (p : Z * Z) : list Z :=
  if (fst p <? 0) || (snd p <? 0) then []
  else if (getZ aw (fst p) =? 1) && (getZ aw (snd p) =? 1) then []
  else if (getZ aw (fst p) =? 0) && (getZ aw (snd p) =? 0) then []
  else [if getZ aw (fst p) =? 1 then snd p else fst p].

Lemma wake_collision_trees_winv a0 cs aw Wp a p :
  cycles_wf a0 cs -> snapshot_of a0 aw -> wake_inv a0 cs (awake_countdown a0) Wp a ->
  wake_inv a0 cs (awake_countdown a0) (fun x => In x (coll_targets aw p) \/ Wp x)
           (wake_collision_trees aw (fst p) (snd p) a).
Proof.
  intros W S I. destruct p as [t1 t2]; simpl fst; simpl snd.
  unfold wake_collision_trees, coll_targets; simpl fst; simpl snd.
  destruct ((t1 <? 0) || (t2 <? 0)) eqn:E0.
  { eapply wake_inv_equiv; [|exact I]. simpl; tauto. }
  destruct ((getZ aw t1 =? 1) && (getZ aw t2 =? 1)) eqn:E1.
  { eapply wake_inv_equiv; [|exact I]. simpl; tauto. }
  destruct ((getZ aw t1 =? 0) && (getZ aw t2 =? 0)) eqn:E2.
  { eapply wake_inv_equiv; [|exact I]. simpl; tauto. }
  assert (H1 : 0 <= t1) by lia. assert (H2 : 0 <= t2) by lia.
  destruct (snapshot_cases a0 aw t1 S H1) as [(A1 & R1 & N1)|A1];
  destruct (snapshot_cases a0 aw t2 S H2) as [(A2 & R2 & N2)|A2]; try lia.
  - replace (getZ aw t1 =? 1) with true by lia.
    destruct (awake_value a0 cs aw _ S Wp a t1 I H1 A1) as (Ev & _ & _).
    eapply wake_inv_equiv; [|apply (wake_inv_call a0 cs aw _ W S Wp a t2 (getZ a t1)); auto].
    + simpl. intuition.
    + lia.
    + exists t1. repeat split; auto; lia.
  - replace (getZ aw t1 =? 1) with false by lia.
    destruct (awake_value a0 cs aw _ S Wp a t2 I H2 A2) as (Ev & _ & _).
    eapply wake_inv_equiv; [|apply (wake_inv_call a0 cs aw _ W S Wp a t1 (getZ a t2)); auto].
    + simpl. intuition.
    + lia.
    + exists t2. repeat split; auto; lia.
Qed.

Lemma wake_collision_trees_launch_inv a0 cs aw ps : cycles_wf a0 cs -> snapshot_of a0 aw ->
  forall Wp a, wake_inv a0 cs (awake_countdown a0) Wp a ->
  wake_inv a0 cs (awake_countdown a0) (fun x => In x (flat_map (coll_targets aw) ps) \/ Wp x)
           (wake_collision_trees_launch aw ps a).
Proof.
  intros W S. induction ps as [|p ps IH]; intros Wp a I; simpl.
  - eapply wake_inv_equiv; [|exact I]. simpl; tauto.
  - unfold wake_collision_trees_launch in *. simpl.
    eapply wake_inv_equiv; [|apply IH; apply (wake_collision_trees_winv a0 cs aw Wp a p); auto].
    intros x. simpl. rewrite in_app_iff. tauto.
Qed.

(* complete description of wake_collision for EVERY order of the contact list:
   - trees awake before keep their countdown,
   - a sleeping tree is woken iff its sleep cycle contains a tree touched by an awake tree,
   - trees not woken keep their cycle pointer,
   - the countdown of a woken tree is the countdown of SOME tree that was awake before
     (which one depends on the order: wake_sched_refuted) *)
Theorem wake_collision_trees_spec a0 cs aw ps : cycles_wf a0 cs -> snapshot_of a0 aw ->
  wake_inv a0 cs (awake_countdown a0) (fun x => In x (flat_map (coll_targets aw) ps))
           (wake_collision_trees_launch aw ps a0).
Proof.
  intros W S. eapply wake_inv_equiv; [|apply wake_collision_trees_launch_inv; auto; apply wake_inv_init].
  simpl; tauto.
Qed.

Lemma in_flat_map_perm {A B} (f : A -> list B) l l' x : Permutation l l' ->
  In x (flat_map f l) <-> In x (flat_map f l').
Proof.
  intros Hp. rewrite !in_flat_map. split; intros (y & Hy & Hx); exists y; split; auto.
  eapply Permutation_in; eauto. eapply Permutation_in; [symmetry|]; eauto.
Qed.

(* geom pairs -> tree pairs *)
Definition con_trees (bt gb : list Z) (con : Z * Z) : Z * Z :=
  if (fst con <? 0) || (snd con <? 0) then (-1, -1)
  else (getW bt (getW gb (fst con)), getW bt (getW gb (snd con))).

Lemma wake_collision_launch_trees bt gb aw cons : forall a,
  wake_collision_launch bt gb aw cons a = wake_collision_trees_launch aw (map (con_trees bt gb) cons) a.
Proof.
  unfold wake_collision_launch, wake_collision_trees_launch.
  induction cons as [|[g1 g2] cons IH]; intros a; simpl; auto.
  rewrite <- IH. f_equal. unfold wake_collision_task, con_trees; simpl.
  destruct ((g1 <? 0) || (g2 <? 0)); auto.
Qed.

Theorem wake_collision_awake_set_sched a0 cs bt gb aw cons cons' :
  cycles_wf a0 cs -> snapshot_of a0 aw -> Permutation cons cons' ->
  same_awake_set (wake_collision_launch bt gb aw cons a0) (wake_collision_launch bt gb aw cons' a0).
Proof.
  intros W S Hp. rewrite !wake_collision_launch_trees.
  apply (wake_inv_same_awake_set a0 cs (awake_countdown a0)
           (fun x => In x (flat_map (coll_targets aw) (map (con_trees bt gb) cons)))
           (fun x => In x (flat_map (coll_targets aw) (map (con_trees bt gb) cons')))).
  - intros x. apply in_flat_map_perm. now apply Permutation_map.
  - apply wake_collision_trees_spec; auto.
  - apply wake_collision_trees_spec; auto.
Qed.

(* the F7 witness: the countdown written by wake_collision depends on the contact order *)
Lemma f7_wf : cycles_wf [-3; -7; 3; 2] [[2; 3]].
Proof.
  constructor.
  - simpl. repeat constructor; simpl; intuition lia.
  - simpl. intros t [<-|[<-|[]]]; cbv; split; congruence.
  - intros t Ht Hs. change (zlen [-3; -7; 3; 2]) with 4 in Ht.
    assert (t = 0 \/ t = 1 \/ t = 2 \/ t = 3) as [-> | [-> | [-> | ->]]] by lia; simpl; auto;
      cbv in Hs; exfalso; apply Hs; reflexivity.
  - intros c [<-|[]]. simpl. split; reflexivity.
Qed.

Lemma f7_snapshot : snapshot_of [-3; -7; 3; 2] [1; 1; 0; 0].
Proof.
  split. reflexivity. intros t Ht. change (zlen [-3; -7; 3; 2]) with 4 in Ht.
  assert (t = 0 \/ t = 1 \/ t = 2 \/ t = 3) as [-> | [-> | [-> | ->]]] by lia; cbv; intuition congruence.
Qed.

Theorem wake_sched_refuted :
  exists bt gb aw cons cons' ta,
    WF ta /\ snapshot_of ta aw /\ Permutation cons cons' /\
    wake_collision_launch bt gb aw cons ta <> wake_collision_launch bt gb aw cons' ta.
Proof.
  exists [-1; 0; 1; 2; 3], [1; 2; 3; 4], [1; 1; 0; 0], [(0, 2); (1, 3)], [(1, 3); (0, 2)], [-3; -7; 3; 2].
  split; [|split; [|split]].
  - exists [[2; 3]]. apply f7_wf.
  - apply f7_snapshot.
  - apply perm_swap.
  - vm_compute. congruence.
Qed.

(* ---------- _wake_kernel: the same result for every task order ---------- *)
Definition user_target (aw : list Z) (can0 : list bool) (a0 : list Z) (t : Z) : Prop :=
  0 <= getZ a0 t /\ (getZ aw t = 1 \/ getB can0 t = false).

Lemma user_target_dec aw can0 a0 t : user_target aw can0 a0 t \/ ~ user_target aw can0 a0 t.
Proof.
  unfold user_target. destruct (Z_le_dec 0 (getZ a0 t)); [|tauto].
  destruct (Z.eq_dec (getZ aw t) 1); [tauto|]. destruct (getB can0 t); [right|left]; intuition congruence.
Qed.

Lemma wake_task_inv a0 cs aw can0 Wp a t :
  cycles_wf a0 cs -> 0 <= t < zlen a0 -> wake_inv a0 cs (fun w => w = K_AWAKE) Wp a ->
  wake_inv a0 cs (fun w => w = K_AWAKE) (fun x => (x = t /\ user_target aw can0 a0 t) \/ Wp x) (wake_task aw can0 t a).
Proof.
  intros W Ht I. unfold wake_task.
  destruct (Z_lt_dec (getZ a0 t) 0) as [H0|H0].
  { (* awake at launch start: never a target *)
    rewrite (wi_awake _ _ _ _ _ I t Ht H0). replace (getZ a0 t >=? 0) with false by lia.
    eapply wake_inv_equiv; [|exact I]. unfold user_target. intuition lia. }
  assert (Hin : In t (concat cs)) by (apply (wf_cover _ _ W); lia).
  destruct (wi_asleep _ _ _ _ _ I t Ht) as [[E N]|(A & B & C)]; try lia.
  - rewrite E. replace (getZ a0 t >=? 0) with true by lia.
    destruct ((getZ aw t =? 1) || negb (getB can0 t)) eqn:Ec.
    + eapply wake_inv_equiv; [|apply wake_inv_step; eauto; reflexivity].
      intros x. unfold user_target. split; [intros [->|]|intros [[-> _]|]]; auto.
      left. split; auto. split. lia. destruct (getB can0 t); simpl in Ec; auto. lia.
    + eapply wake_inv_equiv; [|exact I]. unfold user_target.
      intros x. split; auto. intros [[-> [_ [Hx|Hx]]]|]; auto; exfalso.
      lia. rewrite Hx in Ec. simpl in Ec. lia.
  - replace (getZ a t >=? 0) with false by lia.
    destruct (user_target_dec aw can0 a0 t) as [Hy|Hn].
    + eapply wake_inv_equiv; [|apply (wake_inv_extend_woken a0 cs _ Wp a t); auto; apply (wf_nodup _ _ W)].
      intros x. split; [intros [->|]|intros [[-> _]|]]; auto.
    + eapply wake_inv_equiv; [|exact I]. intros x. split; auto. intros [[-> Hx]|]; tauto.
Qed.

(* ======================= part 6 ======================= *)
(* ---------- _wake_kernel ---------- *)
Lemma wake_launch_inv a0 cs aw can0 tasks : cycles_wf a0 cs ->
  (forall t, In t tasks -> 0 <= t < zlen a0) ->
  forall Wp a, wake_inv a0 cs (fun w => w = K_AWAKE) Wp a ->
  wake_inv a0 cs (fun w => w = K_AWAKE)
           (fun x => (In x tasks /\ user_target aw can0 a0 x) \/ Wp x) (wake_launch aw can0 tasks a).
Proof.
  intros W. induction tasks as [|t tasks IH]; intros Hr Wp a I.
  - eapply wake_inv_equiv; [|exact I]. simpl; tauto.
  - unfold wake_launch in *. simpl.
    eapply wake_inv_equiv; [|apply IH; [|apply (wake_task_inv a0 cs aw can0 Wp a t); auto]].
    + intros x. simpl. split.
      * intros [[Hx Hu]|[[-> Hu]|Hx]]; auto.
      * intros [[[<-|Hx] Hu]|Hx]; auto.
    + intros; apply Hr; simpl; auto.
    + apply Hr; simpl; auto.
Qed.

(* sleep.wake gives the same tree_asleep for every task order *)
Theorem wake_sched a0 cs aw can0 tasks tasks' :
  cycles_wf a0 cs -> (forall t, In t tasks -> 0 <= t < zlen a0) -> Permutation tasks tasks' ->
  wake_launch aw can0 tasks a0 = wake_launch aw can0 tasks' a0.
Proof.
  intros W Hr Hp.
  apply (wake_inv_same_state a0 cs K_AWAKE
           (fun x => (In x tasks /\ user_target aw can0 a0 x) \/ False)
           (fun x => (In x tasks' /\ user_target aw can0 a0 x) \/ False)).
  - intros x. split; intros [[Hx Hu]|[]]; left; split; auto.
    eapply Permutation_in; eauto. eapply Permutation_in; [symmetry|]; eauto.
  - apply wake_launch_inv; auto. apply wake_inv_init.
  - apply wake_launch_inv; auto. intros. apply Hr. eapply Permutation_in; [symmetry|]; eauto. apply wake_inv_init.
Qed.

(* ---------- _wake_tendon_kernel ---------- *)
Definition tendon_any_awake (aw trees : list Z) : bool :=
  existsb (fun t => (t >=? 0) && (getZ aw t =? 1)) trees.

Definition tendon_asleep_trees (aw trees : list Z) : list Z :=
  filter (fun t => (t >=? 0) && (getZ aw t =? 0)) trees.

Lemma tendon_pass1_fst aw a trees : fst (tendon_pass1 aw a trees) = tendon_any_awake aw trees.
Proof.
  unfold tendon_pass1, tendon_any_awake.
  assert (G : forall s : bool * Z,
    fst (fold_left (fun (s : bool * Z) t =>
               if t >=? 0 then if getZ aw t =? 1 then
                   (true, let v := getZ a t in if v <? snd s then v else snd s) else s else s) trees s)
    = fst s || existsb (fun t => (t >=? 0) && (getZ aw t =? 1)) trees).
  { induction trees as [|t trees IH]; intros [b w]; simpl. now rewrite orb_false_r.
    rewrite IH. destruct (t >=? 0); simpl; auto. destruct (getZ aw t =? 1); simpl; auto.
    now rewrite orb_true_r. }
  rewrite G. reflexivity.
Qed.

Section Tendon.
Variables (a0 : list Z) (cs : list (list Z)) (aw : list Z) (P : Z -> Prop).
Hypothesis W : cycles_wf a0 cs.
Hypothesis S : snapshot_of a0 aw.
Hypothesis HP : forall w, w <= K_AWAKE -> (w = K_AWAKE \/ awake_countdown a0 w) -> P w.

Lemma tendon_pass1_snd Wp a trees : wake_inv a0 cs P Wp a ->
  snd (tendon_pass1 aw a trees) = K_AWAKE \/ awake_countdown a0 (snd (tendon_pass1 aw a trees)).
Proof.
  intros I. unfold tendon_pass1.
  apply (fold_left_inv _ (fun s : bool * Z => snd s = K_AWAKE \/ awake_countdown a0 (snd s))); [|simpl; auto].
  intros [b w] t Hs; simpl in *.
  destruct (t >=? 0) eqn:E; auto. destruct (getZ aw t =? 1) eqn:E1; auto. simpl.
  destruct (getZ a t <? w); auto. right.
  destruct (awake_value a0 cs aw P S Wp a t I) as (Ev & Hr & Hn); try lia.
  exists t. auto.
Qed.

Lemma wake_tendon_trees_inv trees w : w < 0 -> P w -> forall Wp a, wake_inv a0 cs P Wp a ->
  wake_inv a0 cs P (fun x => In x (tendon_asleep_trees aw trees) \/ Wp x) (wake_tendon_trees aw trees w a).
Proof.
  intros Hw Hpw. unfold wake_tendon_trees, tendon_asleep_trees.
  induction trees as [|t trees IH]; intros Wp a I; simpl.
  - eapply wake_inv_equiv; [|exact I]. simpl; tauto.
  - destruct (t >=? 0) eqn:E; simpl.
    + destruct (getZ aw t =? 0) eqn:E1; simpl.
      * eapply wake_inv_equiv; [|apply IH; apply (wake_inv_call a0 cs aw P W S Wp a t w); auto; lia].
        intros x; simpl; intuition.
      * apply IH; auto.
    + apply IH; auto.
Qed.

Definition tendon_targets (task : list Z * bool) : list Z :=
  if tendon_any_awake aw (fst task) && snd task then tendon_asleep_trees aw (fst task) else [].

Lemma wake_tendon_trees_task_inv trees act Wp a : wake_inv a0 cs P Wp a ->
  wake_inv a0 cs P (fun x => In x (tendon_targets (trees, act)) \/ Wp x) (wake_tendon_trees_task aw trees act a).
Proof.
  intros I. unfold wake_tendon_trees_task, tendon_targets; simpl fst; simpl snd.
  rewrite tendon_pass1_fst.
  destruct (tendon_any_awake aw trees); simpl.
  - destruct act.
    + pose proof (tendon_pass1_le aw a trees). pose proof (tendon_pass1_snd Wp a trees I).
      apply wake_tendon_trees_inv; auto. unfold K_AWAKE in *; lia.
    + eapply wake_inv_equiv; [|exact I]. simpl; tauto.
  - eapply wake_inv_equiv; [|exact I]. simpl; tauto.
Qed.

Lemma wake_tendon_launch_inv M active tasks : forall Wp a, wake_inv a0 cs P Wp a ->
  wake_inv a0 cs P
    (fun x => In x (flat_map (fun t => tendon_targets (tendon_trees M t, getB active t)) tasks) \/ Wp x)
    (wake_tendon_launch M aw active tasks a).
Proof.
  induction tasks as [|t tasks IH]; intros Wp a I; simpl.
  - eapply wake_inv_equiv; [|exact I]. simpl; tauto.
  - unfold wake_tendon_launch in *. simpl.
    eapply wake_inv_equiv; [|apply IH; unfold wake_tendon_task; apply wake_tendon_trees_task_inv; exact I].
    intros x. simpl. rewrite in_app_iff. tauto.
Qed.
End Tendon.

(* wake_tendon: the set of awake trees (and every cycle pointer, and every countdown of a tree that was
   awake) is the same for every task order *)
Theorem wake_tendon_awake_set_sched a0 cs M aw active tasks tasks' :
  cycles_wf a0 cs -> snapshot_of a0 aw -> Permutation tasks tasks' ->
  same_awake_set (wake_tendon_launch M aw active tasks a0) (wake_tendon_launch M aw active tasks' a0).
Proof.
  intros W S Hp.
  apply (wake_inv_same_awake_set a0 cs (fun _ => True)
     (fun x => In x (flat_map (fun t => tendon_targets aw (tendon_trees M t, getB active t)) tasks) \/ False)
     (fun x => In x (flat_map (fun t => tendon_targets aw (tendon_trees M t, getB active t)) tasks') \/ False)).
  - intros x. rewrite (in_flat_map_perm _ tasks tasks' x Hp). tauto.
  - apply wake_tendon_launch_inv; auto. apply wake_inv_init.
  - apply wake_tendon_launch_inv; auto. apply wake_inv_init.
Qed.

(* countdowns never go below K_AWAKE on reachable states; then wake_tendon is fully order independent *)
Definition countdown_ge_K (a : list Z) : Prop := forall u, 0 <= u < zlen a -> getZ a u < 0 -> K_AWAKE <= getZ a u.

Theorem wake_tendon_sched a0 cs M aw active tasks tasks' :
  cycles_wf a0 cs -> snapshot_of a0 aw -> countdown_ge_K a0 -> Permutation tasks tasks' ->
  wake_tendon_launch M aw active tasks a0 = wake_tendon_launch M aw active tasks' a0.
Proof.
  intros W S R Hp.
  assert (HP : forall w, w <= K_AWAKE -> w = K_AWAKE \/ awake_countdown a0 w -> w = K_AWAKE).
  { intros w Hw [|(t & Ht & Hn & ->)]; auto. specialize (R t Ht Hn). lia. }
  apply (wake_inv_same_state a0 cs K_AWAKE
     (fun x => In x (flat_map (fun t => tendon_targets aw (tendon_trees M t, getB active t)) tasks) \/ False)
     (fun x => In x (flat_map (fun t => tendon_targets aw (tendon_trees M t, getB active t)) tasks') \/ False)).
  - intros x. rewrite (in_flat_map_perm _ tasks tasks' x Hp). tauto.
  - apply wake_tendon_launch_inv; auto. apply wake_inv_init.
  - apply wake_tendon_launch_inv; auto. apply wake_inv_init.
Qed.

(* ======================= part 7 ======================= *)
(* ---------- _sleep_cycle ---------- *)
Lemma sleep_cycle_awake a t : ~ (0 <= t < zlen a) \/ getZ a t < 0 -> sleep_cycle a t = -1.
Proof.
  intros H. unfold sleep_cycle. destruct ((t <? 0) || (t >=? zlen a)) eqn:E; auto.
  simpl. replace ((getZ a t <? 0) || (getZ a t >=? zlen a)) with true by lia. auto.
Qed.

Lemma fold_min_spec l : forall x,
  (fold_left Z.min l x = x \/ In (fold_left Z.min l x) l) /\ fold_left Z.min l x <= x /\
  forall y, In y l -> fold_left Z.min l x <= y.
Proof.
  induction l as [|z l IH]; intros x; simpl.
  - repeat split; auto; try lia; tauto.
  - destruct (IH (Z.min x z)) as (A & B & C). repeat split.
    + destruct A as [A|A]; auto. rewrite A. destruct (Z.min_spec x z) as [[? ->]|[? ->]]; auto.
    + lia.
    + intros y [<-|Hy]; auto. lia.
Qed.

Lemma sleep_cycle_loop_chain L : forall fuel a n t sm cur,
  n = zlen a -> chain a cur L t -> ~ In t L -> (forall x, In x (t :: L) -> 0 <= x < n) ->
  (length L < fuel)%nat ->
  sleep_cycle_loop fuel a n t sm cur = fold_left Z.min (L ++ [t]) sm.
Proof.
  induction L as [|y L IH]; intros fuel a n t sm cur Hn Hc Hnt Hr Hf;
    (destruct fuel; [simpl in Hf; lia|]); simpl in Hc |- *.
  - rewrite Hc. assert (0 <= t < n) by (apply Hr; simpl; auto).
    replace ((t <? 0) || (t >=? n)) with false by lia. rewrite Z.eqb_refl.
    destruct (t <? sm) eqn:E; lia.
  - destruct Hc as [Ha Hc]. rewrite Ha.
    assert (0 <= y < n) by (apply Hr; simpl; auto).
    replace ((y <? 0) || (y >=? n)) with false by lia.
    assert (y <> t) by (intro; subst; apply Hnt; simpl; auto).
    replace (y =? t) with false by lia.
    rewrite (IH fuel a n t _ y); auto.
    + f_equal. destruct (y <? sm) eqn:E; lia.
    + intro; apply Hnt; simpl; auto.
    + intros x Hx. apply Hr. simpl in *. tauto.
    + simpl in Hf. lia.
Qed.

(* on a still intact cycle _sleep_cycle returns the smallest member *)
Lemma sleep_cycle_min a0 cs a c t : cycles_wf a0 cs -> zlen a = zlen a0 -> In c cs -> In t c ->
  (forall u, In u c -> getZ a u = getZ a0 u) ->
  In (sleep_cycle a t) c /\ forall x, In x c -> sleep_cycle a t <= x.
Proof.
  intros W Hl Hc Ht Hun.
  assert (Hcr : forall u, In u c -> 0 <= u < zlen a0).
  { intros u Hu. apply (wf_range _ _ W). apply in_concat_iff; eauto. }
  destruct (cycle_rotate a0 c t (wf_cyc _ _ W c Hc) Ht) as (L & Hch & Hp).
  assert (HL : forall x, In x (t :: L) -> In x c) by (intros; eapply Permutation_in; eauto).
  assert (Hch' : chain a t L t) by (eapply chain_ext; [|exact Hch]; intros; apply Hun; auto).
  assert (Hnd : NoDup (t :: L)).
  { eapply Permutation_NoDup. symmetry; exact Hp. eapply NoDup_concat_in; eauto. apply (wf_nodup _ _ W). }
  assert (Hr : forall x, In x (t :: L) -> 0 <= x < zlen a) by (intros; rewrite Hl; auto).
  unfold sleep_cycle. pose proof (Hr t (or_introl eq_refl)).
  replace ((t <? 0) || (t >=? zlen a)) with false by lia.
  rewrite (sleep_cycle_loop_chain L); auto.
  - destruct (fold_min_spec (L ++ [t]) t) as (A & B & C). split.
    + apply HL. destruct A as [->|A]. simpl; auto.
      apply in_app_or in A as [A|[<-|[]]]; simpl; auto.
    + intros x Hx. assert (Hx' : In x (t :: L)) by (eapply Permutation_in; [symmetry|]; eauto).
      destruct Hx' as [<-|Hx']; auto. apply C. apply in_or_app; auto.
  - inversion Hnd; auto.
  - pose proof (NoDup_range_length (t :: L) (zlen a) Hnd Hr). simpl in H0. lia.
Qed.

(* ======================= part 8 ======================= *)
Lemma same_cycle_dec cs t u : NoDup (concat cs) -> same_cycle cs t u \/ ~ same_cycle cs t u.
Proof.
  intros Hn. destruct (in_dec Z.eq_dec t (concat cs)) as [Ht|Ht].
  - apply in_concat_iff in Ht as (c & Hc & Ht). destruct (in_dec Z.eq_dec u c) as [Hu|Hu].
    + left. exists c; auto.
    + right. intro Hs. apply Hu. eapply same_cycle_in; eauto.
  - right. intros (c & Hc & Ht' & _). apply Ht. apply in_concat_iff; eauto.
Qed.

Section Equality.
Variables (a0 : list Z) (cs : list (list Z)) (aw : list Z) (P : Z -> Prop).
Hypothesis W : cycles_wf a0 cs.
Hypothesis S : snapshot_of a0 aw.
Hypothesis HP : forall w, w <= K_AWAKE -> (w = K_AWAKE \/ awake_countdown a0 w) -> P w.

Lemma PK : P K_AWAKE.
Proof. apply HP; auto. lia. Qed.

(* members of a cycle none of whose trees has been woken still hold their pointers *)
Lemma unwoken_cycle Wp a c t : wake_inv a0 cs P Wp a -> In c cs -> In t c -> ~ woken cs Wp t ->
  forall u, In u c -> getZ a u = getZ a0 u.
Proof.
  intros I Hc Ht N u Hu.
  assert (Hu2 : In u (concat cs)) by (apply in_concat_iff; eauto).
  destruct (member_asleep _ _ _ W Hu2) as [Hu0 _].
  destruct (wi_asleep _ _ _ _ _ I u (wf_range _ _ W u Hu2)) as [[E' _]|(_ & _ & (x & Hx & Hs))]; auto; [lia|].
  exfalso. apply N. exists x. split; auto. eapply same_cycle_trans; eauto. apply (wf_nodup _ _ W). exists c; auto.
Qed.

(* status of a tree the snapshot calls asleep *)
Lemma asleep_status Wp a t : wake_inv a0 cs P Wp a -> 0 <= t -> getZ aw t = 0 ->
  (~ In t (concat cs) /\ sleep_cycle a t = -1) \/
  (In t (concat cs) /\ woken cs Wp t /\ sleep_cycle a t = -1) \/
  (exists c, In c cs /\ In t c /\ ~ woken cs Wp t /\ In (sleep_cycle a t) c /\ forall x, In x c -> sleep_cycle a t <= x).
Proof.
  intros I Ht Ha. pose proof (wi_len _ _ _ _ _ I) as Hl.
  destruct (Z_lt_dec t (zlen a0)) as [Hr|Hr].
  - assert (H0 : 0 <= getZ a0 t). { destruct S as [_ H]. destruct (H t) as [[]|[]]; lia. }
    assert (Hin : In t (concat cs)) by (apply (wf_cover _ _ W); auto; lia).
    destruct (wi_asleep _ _ _ _ _ I t) as [[E N]|(A & B & C)]; try lia.
    + right; right. apply in_concat_iff in Hin as (c & Hc & Htc). exists c. repeat split; auto;
      apply (sleep_cycle_min a0 cs a c t); auto; eapply unwoken_cycle; eauto.
    + right; left. repeat split; auto. apply sleep_cycle_awake. auto.
  - left. split. intro Hin. apply (wf_range _ _ W) in Hin. lia. apply sleep_cycle_awake. left. lia.
Qed.

(* the trees a CONNECT / WELD / JOINT equality makes _wake_tree act on *)
Definition pair_target (t1 t2 x : Z) : Prop :=
  0 <= t1 /\ 0 <= t2 /\ t1 <> t2 /\
  ((getZ aw t1 = 0 /\ getZ aw t2 = 1 /\ x = t1) \/
   (getZ aw t1 = 1 /\ getZ aw t2 = 0 /\ x = t2) \/
   (getZ aw t1 = 0 /\ getZ aw t2 = 0 /\ ~ same_cycle cs t1 t2 /\ (x = t1 \/ x = t2))).

Lemma extend_dead_or_woken Wp a t :
  wake_inv a0 cs P Wp a -> ~ In t (concat cs) \/ woken cs Wp t ->
  wake_inv a0 cs P (fun x => x = t \/ Wp x) a.
Proof.
  intros I [H|H]. apply wake_inv_extend_dead; auto. apply wake_inv_extend_woken; auto. apply (wf_nodup _ _ W).
Qed.

Lemma wake_eq_pair_inv t1 t2 Wp a : wake_inv a0 cs P Wp a ->
  wake_inv a0 cs P (fun x => pair_target t1 t2 x \/ Wp x) (wake_eq_pair aw t1 t2 a).
Proof.
  intros I. pose proof PK as HK. pose proof (wf_nodup _ _ W) as Hnd.
  unfold wake_eq_pair, S_ASLEEP, S_STATIC.
  destruct (Z_lt_dec t1 0) as [N1|N1].
  { replace (t1 >=? 0) with false by lia.
    assert (E : forall x, pair_target t1 t2 x \/ Wp x <-> Wp x) by (unfold pair_target; intuition lia).
    match goal with |- wake_inv _ _ _ _ ?r => replace r with a end.
    eapply wake_inv_equiv; [|exact I]. intros; symmetry; apply E.
    destruct (negb (-1 =? 0) && negb ((if t2 >=? 0 then getZ aw t2 else -1) =? 0)); auto. }
  destruct (Z_lt_dec t2 0) as [N2|N2].
  { replace (t2 >=? 0) with false by lia.
    assert (E : forall x, pair_target t1 t2 x \/ Wp x <-> Wp x) by (unfold pair_target; intuition lia).
    match goal with |- wake_inv _ _ _ _ ?r => replace r with a end.
    eapply wake_inv_equiv; [|exact I]. intros; symmetry; apply E.
    destruct (negb ((if t1 >=? 0 then getZ aw t1 else -1) =? 0) && negb (-1 =? 0)); auto.
    replace (((if t1 >=? 0 then getZ aw t1 else -1) =? -1) || (-1 =? -1)) with true by lia. auto. }
  replace (t1 >=? 0) with true by lia. replace (t2 >=? 0) with true by lia.
  assert (H1 : 0 <= t1) by lia. assert (H2 : 0 <= t2) by lia.
  destruct (Z.eq_dec t1 t2) as [Heq|Hne].
  { assert (E : forall x, pair_target t1 t2 x \/ Wp x <-> Wp x) by (unfold pair_target; intuition lia).
    match goal with |- wake_inv _ _ _ _ ?r => replace r with a end.
    eapply wake_inv_equiv; [|exact I]. intros; symmetry; apply E.
    destruct (negb (getZ aw t1 =? 0) && negb (getZ aw t2 =? 0)); auto.
    destruct ((getZ aw t1 =? -1) || (getZ aw t2 =? -1)); auto.
    replace (t1 =? t2) with true by lia. auto. }
  replace (t1 =? t2) with false by lia.
  destruct (snapshot_cases a0 aw t1 S H1) as [(A1 & R1 & M1)|A1];
  destruct (snapshot_cases a0 aw t2 S H2) as [(A2 & R2 & M2)|A2]; rewrite A1, A2; simpl.
  - eapply wake_inv_equiv; [|exact I]. unfold pair_target. intuition lia.
  - eapply wake_inv_equiv; [|apply (wake_inv_call a0 cs aw P W S Wp a t2 K_AWAKE); auto; reflexivity].
    unfold pair_target. intuition lia.
  - eapply wake_inv_equiv; [|apply (wake_inv_call a0 cs aw P W S Wp a t1 K_AWAKE); auto; reflexivity].
    unfold pair_target. intuition lia.
  - (* both asleep in the snapshot: compare sleep cycles in the CURRENT state *)
    destruct (same_cycle_dec cs t1 t2 Hnd) as [Hs|Hs].
    + (* same cycle at launch start: nothing to do, and the code does nothing *)
      assert (E : sleep_cycle a t1 = sleep_cycle a t2).
      { destruct Hs as (c & Hc & Ht1 & Ht2).
        assert (In1 : In t1 (concat cs)) by (apply in_concat_iff; eauto).
        destruct (asleep_status Wp a t1 I H1 A1) as [[D _]|[(_ & Wk & E1)|(c1 & Hc1 & Hi1 & Nw & Hm1 & Hle1)]]; [tauto| |].
        * assert (Wk2 : woken cs Wp t2).
          { destruct Wk as (x & Hx & Hxs). exists x. split; auto. eapply same_cycle_trans; eauto. exists c; auto. }
          destruct (asleep_status Wp a t2 I H2 A2) as [[D _]|[(_ & _ & E2)|(c2 & _ & _ & Nw2 & _)]]; try congruence; try tauto.
          exfalso. apply D. apply in_concat_iff; eauto.
        * assert (c1 = c) by (apply (concat_unique cs c1 c t1); auto). subst c1.
          destruct (asleep_status Wp a t2 I H2 A2) as [[D _]|[(_ & Wk2 & _)|(c2 & Hc2 & Hi2 & Nw2 & Hm2 & Hle2)]].
          -- exfalso. apply D. apply in_concat_iff; eauto.
          -- exfalso. apply Nw. destruct Wk2 as (x & Hx & Hxs). exists x. split; auto.
             eapply same_cycle_trans; eauto. exists c; auto.
          -- assert (c2 = c) by (apply (concat_unique cs c2 c t2); auto). subst c2.
             pose proof (Hle1 _ Hm2). pose proof (Hle2 _ Hm1). lia. }
      rewrite E, Z.eqb_refl. eapply wake_inv_equiv; [|exact I]. unfold pair_target. intuition lia.
    + destruct (sleep_cycle a t1 =? sleep_cycle a t2) eqn:E.
      * (* equal although the cycles differ: both are already awake (or not trees at all) *)
        assert (D1 : ~ In t1 (concat cs) \/ woken cs Wp t1).
        { destruct (asleep_status Wp a t1 I H1 A1) as [[D _]|[(_ & Wk & _)|(c1 & Hc1 & Hi1 & Nw & Hm1 & Hle1)]]; auto.
          exfalso. assert (0 <= sleep_cycle a t1).
          { assert (In (sleep_cycle a t1) (concat cs)) by (apply in_concat_iff; eauto).
            apply (wf_range _ _ W) in H. lia. }
          destruct (asleep_status Wp a t2 I H2 A2) as [[_ E2]|[(_ & _ & E2)|(c2 & Hc2 & Hi2 & Nw2 & Hm2 & Hle2)]]; try lia.
          apply Hs. assert (c1 = c2). { eapply (concat_unique cs c1 c2 (sleep_cycle a t1)); eauto. replace (sleep_cycle a t1) with (sleep_cycle a t2) by lia. auto. }
          subst c2. exists c1; auto. }
        assert (D2 : ~ In t2 (concat cs) \/ woken cs Wp t2).
        { destruct (asleep_status Wp a t2 I H2 A2) as [[D _]|[(_ & Wk & _)|(c2 & Hc2 & Hi2 & Nw & Hm2 & Hle2)]]; auto.
          exfalso. assert (0 <= sleep_cycle a t2).
          { assert (In (sleep_cycle a t2) (concat cs)) by (apply in_concat_iff; eauto).
            apply (wf_range _ _ W) in H. lia. }
          destruct (asleep_status Wp a t1 I H1 A1) as [[_ E1]|[(_ & _ & E1)|(c1 & Hc1 & Hi1 & Nw1 & Hm1 & Hle1)]]; try lia.
          apply Hs. assert (c1 = c2). { eapply (concat_unique cs c1 c2 (sleep_cycle a t1)); eauto. replace (sleep_cycle a t1) with (sleep_cycle a t2) by lia. auto. }
          subst c2. exists c1; auto. }
        pose proof (extend_dead_or_woken Wp a t1 I D1) as I1.
        assert (D2' : ~ In t2 (concat cs) \/ woken cs (fun x => x = t1 \/ Wp x) t2).
        { destruct D2 as [|(x & Hx & Hxs)]; auto. right. exists x; auto. }
        pose proof (extend_dead_or_woken _ a t2 I1 D2') as I2.
        eapply wake_inv_equiv; [|exact I2]. unfold pair_target. intuition lia.
      * pose proof (wake_inv_call a0 cs aw P W S Wp a t1 K_AWAKE I H1 A1 eq_refl HK) as I1.
        pose proof (wake_inv_call a0 cs aw P W S _ _ t2 K_AWAKE I1 H2 A2 eq_refl HK) as I2.
        eapply wake_inv_equiv; [|exact I2]. unfold pair_target. intuition lia.
Qed.
End Equality.

(* ======================= part 9 ======================= *)
Section EqTendon.
Variables (a0 : list Z) (cs : list (list Z)) (aw : list Z) (P : Z -> Prop).
Hypothesis W : cycles_wf a0 cs.
Hypothesis S : snapshot_of a0 aw.
Hypothesis HP : forall w, w <= K_AWAKE -> (w = K_AWAKE \/ awake_countdown a0 w) -> P w.

Definition twv_step (a : list Z) (w t : Z) : Z :=
  if t >=? 0 then
    if getZ aw t =? 1 then (let v := getZ a t in if (w =? 0) || (v <? w) then v else w) else w
  else w.

Lemma tendon_wake_val_fold a trees : tendon_wake_val aw a trees = fold_left (twv_step a) trees 0.
Proof. reflexivity. Qed.

(* _tendon_wake_val: 0 when no tree of the tendon is awake, otherwise the countdown of one that was awake *)
Lemma twv_value Wp a trees : wake_inv a0 cs P Wp a -> forall w0,
  (w0 = 0 \/ (w0 < 0 /\ awake_countdown a0 w0)) ->
  let r := fold_left (twv_step a) trees w0 in r = 0 \/ (r < 0 /\ awake_countdown a0 r).
Proof.
  intros I w0 H0. apply (fold_left_inv _ (fun r => r = 0 \/ (r < 0 /\ awake_countdown a0 r))); auto.
  intros w t Hw. unfold twv_step. destruct (t >=? 0) eqn:E; auto. destruct (getZ aw t =? 1) eqn:E1; auto.
  destruct (awake_value a0 cs aw P S Wp a t I) as (Ev & Hr & Hn); try lia.
  cbv zeta. destruct ((w =? 0) || (getZ a t <? w)); auto. right. split. lia. exists t. auto.
Qed.

Lemma twv_sign Wp a : wake_inv a0 cs P Wp a -> forall trees w0, w0 <= 0 ->
  (fold_left (twv_step a) trees w0 <? 0) = (w0 <? 0) || tendon_any_awake aw trees.
Proof.
  intros I. induction trees as [|t trees IH]; intros w0 H0; simpl.
  - now rewrite orb_false_r.
  - unfold twv_step at 2. destruct (t >=? 0) eqn:E; simpl; [|apply IH; auto].
    destruct (getZ aw t =? 1) eqn:E1; simpl; [|apply IH; auto].
    destruct (awake_value a0 cs aw P S Wp a t I) as (Ev & Hr & Hn); try lia.
    rewrite IH by (destruct ((w0 =? 0) || (getZ a t <? w0)); lia).
    rewrite orb_true_r. destruct ((w0 =? 0) || (getZ a t <? w0)) eqn:E2; lia.
Qed.

Definition eq_tendon_targets (trees1 trees2 : list Z) : list Z :=
  if tendon_any_awake aw trees1 || tendon_any_awake aw trees2
  then tendon_asleep_trees aw trees1 ++ tendon_asleep_trees aw trees2 else [].

Lemma wake_eq_tendon_inv trees1 trees2 Wp a : wake_inv a0 cs P Wp a ->
  wake_inv a0 cs P (fun x => In x (eq_tendon_targets trees1 trees2) \/ Wp x) (wake_eq_tendon aw trees1 trees2 a).
Proof.
  intros I. unfold wake_eq_tendon, eq_tendon_targets. rewrite !tendon_wake_val_fold. cbv zeta.
  set (w1 := fold_left (twv_step a) trees1 0). set (w2 := fold_left (twv_step a) trees2 0).
  pose proof (twv_sign Wp a I trees1 0 (Z.le_refl 0)) as S1. fold w1 in S1.
  pose proof (twv_sign Wp a I trees2 0 (Z.le_refl 0)) as S2. fold w2 in S2.
  pose proof (twv_value Wp a trees1 I 0 (or_introl eq_refl)) as V1. fold w1 in V1. cbv zeta in V1.
  pose proof (twv_value Wp a trees2 I 0 (or_introl eq_refl)) as V2. fold w2 in V2. cbv zeta in V2.
  simpl in S1, S2.
  replace ((w1 <? 0) || (w2 <? 0)) with (tendon_any_awake aw trees1 || tendon_any_awake aw trees2) by (rewrite S1, S2; auto).
  destruct (tendon_any_awake aw trees1 || tendon_any_awake aw trees2) eqn:E.
  - set (w := if (w2 <? 0) && (w2 <? (if (w1 <? 0) && (w1 <? K_AWAKE) then w1 else K_AWAKE)) then w2
              else if (w1 <? 0) && (w1 <? K_AWAKE) then w1 else K_AWAKE).
    assert (Hw : w <= K_AWAKE /\ (w = K_AWAKE \/ awake_countdown a0 w)).
    { unfold w. destruct ((w1 <? 0) && (w1 <? K_AWAKE)) eqn:E1;
      match goal with |- (if ?b then _ else _) <= _ /\ _ => destruct b eqn:E2 end; split; try lia; auto;
      try (destruct V1 as [|[]]; auto; lia); try (destruct V2 as [|[]]; auto; lia). }
    destruct Hw as [Hw1 Hw2]. assert (Hw0 : w < 0) by (unfold K_AWAKE in *; lia).
    pose proof (HP w Hw1 Hw2) as HPw.
    pose proof (wake_tendon_trees_inv a0 cs aw P W S trees1 w Hw0 HPw Wp a I) as I1.
    pose proof (wake_tendon_trees_inv a0 cs aw P W S trees2 w Hw0 HPw _ _ I1) as I2.
    eapply wake_inv_equiv; [|exact I2]. intros x. rewrite in_app_iff. tauto.
  - eapply wake_inv_equiv; [|exact I]. simpl; tauto.
Qed.

(* ---------- one task of _wake_equality_kernel ---------- *)
Definition eq_task_target (M : WrapModel) (E : EqModel) (act : list bool) (e x : Z) : Prop :=
  getB act e = true /\
  let ty := getZ (eq_type E) e in
  ((((ty =? EQ_CONNECT) || (ty =? EQ_WELD) || (ty =? EQ_JOINT)) = true /\
    pair_target cs aw (fst (eq_pair_trees M E e)) (snd (eq_pair_trees M E e)) x) \/
   (((ty =? EQ_CONNECT) || (ty =? EQ_WELD) || (ty =? EQ_JOINT)) = false /\ ty = EQ_TENDON /\
    In x (eq_tendon_targets
            (if getZ (eq_obj1id E) e <? 0 then [] else tendon_trees M (getZ (eq_obj1id E) e))
            (if getZ (eq_obj2id E) e <? 0 then [] else tendon_trees M (getZ (eq_obj2id E) e))))).

Lemma wake_equality_task_inv M E act e Wp a : wake_inv a0 cs P Wp a ->
  wake_inv a0 cs P (fun x => eq_task_target M E act e x \/ Wp x) (wake_equality_task M E act aw e a).
Proof.
  intros I. unfold wake_equality_task, eq_task_target.
  destruct (getB act e); simpl negb; cbv iota.
  2:{ eapply wake_inv_equiv; [|exact I]. intros x. intuition congruence. }
  cbv zeta.
  destruct ((getZ (eq_type E) e =? EQ_CONNECT) || (getZ (eq_type E) e =? EQ_WELD) || (getZ (eq_type E) e =? EQ_JOINT)) eqn:Et.
  - eapply wake_inv_equiv; [|apply (wake_eq_pair_inv a0 cs aw P W S HP); exact I].
    intros x. intuition congruence.
  - destruct (getZ (eq_type E) e =? EQ_TENDON) eqn:E2.
    + eapply wake_inv_equiv; [|apply wake_eq_tendon_inv; exact I].
      intros x. assert (getZ (eq_type E) e = EQ_TENDON) by lia. intuition congruence.
    + eapply wake_inv_equiv; [|exact I]. intros x. intuition; try congruence. lia.
Qed.

Lemma wake_equality_launch_inv M E act tasks : forall Wp a, wake_inv a0 cs P Wp a ->
  wake_inv a0 cs P (fun x => (exists e, In e tasks /\ eq_task_target M E act e x) \/ Wp x)
           (wake_equality_launch M E act aw tasks a).
Proof.
  induction tasks as [|e tasks IH]; intros Wp a I; simpl.
  - eapply wake_inv_equiv; [|exact I]. intros x. split; auto. intros [(e & [] & _)|]; auto.
  - unfold wake_equality_launch in *. simpl.
    eapply wake_inv_equiv; [|apply IH; apply wake_equality_task_inv; exact I].
    intros x. simpl. split.
    + intros [(e' & He & Hx)|[Hx|Hx]]; auto. left; exists e'; auto. left; exists e; auto.
    + intros [(e' & [<-|He] & Hx)|Hx]; auto. left; exists e'; auto.
Qed.
End EqTendon.

Theorem wake_equality_awake_set_sched a0 cs M E act aw tasks tasks' :
  cycles_wf a0 cs -> snapshot_of a0 aw -> Permutation tasks tasks' ->
  same_awake_set (wake_equality_launch M E act aw tasks a0) (wake_equality_launch M E act aw tasks' a0).
Proof.
  intros W S Hp.
  apply (wake_inv_same_awake_set a0 cs (fun _ => True)
     (fun x => (exists e, In e tasks /\ eq_task_target cs aw M E act e x) \/ False)
     (fun x => (exists e, In e tasks' /\ eq_task_target cs aw M E act e x) \/ False)).
  - intros x. split; intros [(e & He & Hx)|[]]; left; exists e; split; auto.
    eapply Permutation_in; eauto. eapply Permutation_in; [symmetry|]; eauto.
  - apply wake_equality_launch_inv; auto. apply wake_inv_init.
  - apply wake_equality_launch_inv; auto. apply wake_inv_init.
Qed.

Theorem wake_equality_sched a0 cs M E act aw tasks tasks' :
  cycles_wf a0 cs -> snapshot_of a0 aw -> countdown_ge_K a0 -> Permutation tasks tasks' ->
  wake_equality_launch M E act aw tasks a0 = wake_equality_launch M E act aw tasks' a0.
Proof.
  intros W S R Hp.
  assert (HP : forall w, w <= K_AWAKE -> w = K_AWAKE \/ awake_countdown a0 w -> w = K_AWAKE).
  { intros w Hw [|(t & Ht & Hn & ->)]; auto. specialize (R t Ht Hn). lia. }
  apply (wake_inv_same_state a0 cs K_AWAKE
     (fun x => (exists e, In e tasks /\ eq_task_target cs aw M E act e x) \/ False)
     (fun x => (exists e, In e tasks' /\ eq_task_target cs aw M E act e x) \/ False)).
  - intros x. split; intros [(e & He & Hx)|[]]; left; exists e; split; auto.
    eapply Permutation_in; eauto. eapply Permutation_in; [symmetry|]; eauto.
  - apply wake_equality_launch_inv; auto. apply wake_inv_init.
  - apply wake_equality_launch_inv; auto. apply wake_inv_init.
Qed.

(* ======================= part 10 ======================= *)
(* ---------- _sweep_awake_trees: every task writes only its own cell ---------- *)
Definition sweep_val (c : bool) (a : Z) : Z :=
  if a >=? 0 then a else if c then (if a <? -1 then a + 1 else a) else K_AWAKE.

Lemma zlen_sweep_task can t a : zlen (sweep_task can t a) = zlen a.
Proof.
  unfold sweep_task. destruct (getZ a t >=? 0); auto. destruct (getB can t).
  destruct (getZ a t <? -1); auto. apply zlen_setZ. apply zlen_setZ.
Qed.

Lemma sweep_task_get can t a u : 0 <= t < zlen a -> 0 <= u ->
  getZ (sweep_task can t a) u = if u =? t then sweep_val (getB can t) (getZ a t) else getZ a u.
Proof.
  intros Ht Hu. unfold sweep_task, sweep_val.
  destruct (u =? t) eqn:E.
  - assert (u = t) by lia. subst u.
    destruct (getZ a t >=? 0); auto. destruct (getB can t).
    destruct (getZ a t <? -1); auto. apply getZ_setZ_eq; auto. apply getZ_setZ_eq; auto.
  - destruct (getZ a t >=? 0); auto. destruct (getB can t).
    destruct (getZ a t <? -1); auto. apply getZ_setZ_neq; lia. apply getZ_setZ_neq; lia.
Qed.

Lemma zlen_sweep_launch can tasks : forall a, zlen (sweep_launch can tasks a) = zlen a.
Proof.
  unfold sweep_launch. induction tasks; simpl; intros; auto. rewrite IHtasks. apply zlen_sweep_task.
Qed.

Lemma sweep_launch_get can tasks : forall a u, NoDup tasks -> (forall t, In t tasks -> 0 <= t < zlen a) -> 0 <= u ->
  getZ (sweep_launch can tasks a) u =
  if in_dec Z.eq_dec u tasks then sweep_val (getB can u) (getZ a u) else getZ a u.
Proof.
  unfold sweep_launch. induction tasks as [|t tasks IH]; intros a u Hnd Hr Hu; simpl; auto.
  inversion Hnd; subst.
  rewrite IH; auto.
  2:{ intros. rewrite zlen_sweep_task. apply Hr; simpl; auto. }
  rewrite sweep_task_get; auto. 2:{ apply Hr; simpl; auto. }
  destruct (Z.eq_dec t u) as [->|Hne].
  - destruct (in_dec Z.eq_dec u tasks); [tauto|]. now rewrite Z.eqb_refl.
  - replace (u =? t) with false by lia. destruct (in_dec Z.eq_dec u tasks); auto.
Qed.

Lemma sweep_full_get can tasks a u : Permutation tasks (zrange (zlen a)) -> 0 <= u < zlen a ->
  getZ (sweep_launch can tasks a) u = sweep_val (getB can u) (getZ a u).
Proof.
  intros Hp Hu. rewrite sweep_launch_get; try lia.
  - destruct (in_dec Z.eq_dec u tasks) as [|n]; auto. exfalso. apply n.
    eapply Permutation_in. symmetry; eauto. apply zrange_In; auto.
  - eapply Permutation_NoDup. symmetry; eauto. apply zrange_NoDup.
  - intros t Ht. apply zrange_In. eapply Permutation_in; eauto.
Qed.

Theorem sweep_sched can tasks a : Permutation tasks (zrange (zlen a)) ->
  sweep_launch can tasks a = sweep_launch can (zrange (zlen a)) a.
Proof.
  intros Hp. apply list_eq_getZ. now rewrite !zlen_sweep_launch.
  intros u Hu. rewrite zlen_sweep_launch in Hu. rewrite !sweep_full_get; auto.
Qed.

Lemma sweep_val_neg c a : a < 0 -> sweep_val c a < 0.
Proof. unfold sweep_val, K_AWAKE. intros. replace (a >=? 0) with false by lia. destruct c; [destruct (a <? -1) eqn:E|]; lia. Qed.

Lemma sweep_val_asleep c a : 0 <= a -> sweep_val c a = a.
Proof. unfold sweep_val. intros. replace (a >=? 0) with true by lia. auto. Qed.

Lemma sweep_wf can tasks a cs : Permutation tasks (zrange (zlen a)) -> cycles_wf a cs ->
  cycles_wf (sweep_launch can tasks a) cs.
Proof.
  intros Hp W. apply cycles_wf_same with a; auto. apply zlen_sweep_launch.
  intros u Hu. rewrite sweep_full_get; auto.
  destruct (Z_lt_dec (getZ a u) 0). right. split; auto. now apply sweep_val_neg.
  left. apply sweep_val_asleep. lia.
Qed.

(* ---------- _check_island_can_sleep ---------- *)
Lemma check_island_spec nisland ti ta tasks : forall ics i, 0 <= i ->
  getZ (check_island_launch nisland ti ta tasks ics) i = 1 ->
  getZ ics i = 1 /\ forall t, In t tasks -> getZ ti t = i -> i < nisland -> getZ ta t = -1.
Proof.
  unfold check_island_launch. induction tasks as [|t tasks IH]; intros ics i Hi H; simpl in *.
  - split; auto; tauto.
  - destruct (IH _ i Hi H) as [H1 H2]. clear IH H.
    unfold check_island_task in H1.
    destruct ((getZ ti t >=? 0) && (getZ ti t <? nisland)) eqn:E.
    + destruct (negb (getZ ta t =? -1)) eqn:E2.
      * destruct (Z.eq_dec (getZ ti t) i) as [Heq|Hne].
        -- exfalso. rewrite Heq in H1. destruct (Z_lt_dec i (zlen ics)).
           ++ rewrite getZ_setZ_eq in H1 by lia. lia.
           ++ unfold getZ, setZ, zlen in *. rewrite nth_overflow in H1. lia. rewrite set_nth_length. lia.
        -- rewrite getZ_setZ_neq in H1 by lia. split; auto.
           intros t' [<-|Ht'] He Hl; auto; lia.
      * split; auto. intros t' [<-|Ht'] He Hl; auto; lia.
    + split; auto. intros t' [<-|Ht'] He Hl; auto; lia.
Qed.

(* ---------- _build_cycles: one island ---------- *)
Definition island_trees (ti : list Z) (i n : Z) : list Z := filter (fun t => getZ ti t =? i) (zrange n).

Definition write_all (pairs : list (Z * Z)) (ta : list Z) : list Z :=
  fold_left (fun ta p => setZ ta (fst p) (snd p)) pairs ta.

Definition cyc_pairs (T : list Z) : list (Z * Z) :=
  match T with [] => [] | t0 :: r => combine T (r ++ [t0]) end.

Lemma zlen_write_all pairs : forall ta, zlen (write_all pairs ta) = zlen ta.
Proof. unfold write_all. induction pairs; simpl; intros; auto. rewrite IHpairs. apply zlen_setZ. Qed.

Lemma write_all_notin pairs : forall ta u, 0 <= u -> (forall p, In p pairs -> 0 <= fst p) ->
  ~ In u (map fst pairs) -> getZ (write_all pairs ta) u = getZ ta u.
Proof.
  unfold write_all. induction pairs as [|p pairs IH]; intros ta u Hu Hr Hn; simpl; auto.
  rewrite IH; auto.
  - apply getZ_setZ_neq; auto. apply Hr; simpl; auto. intro; apply Hn; simpl; auto.
  - intros; apply Hr; simpl; auto.
  - intro; apply Hn; simpl; auto.
Qed.

Lemma write_all_in pairs : forall ta p, NoDup (map fst pairs) ->
  (forall q, In q pairs -> 0 <= fst q < zlen ta) -> In p pairs ->
  getZ (write_all pairs ta) (fst p) = snd p.
Proof.
  unfold write_all. induction pairs as [|q pairs IH]; intros ta p Hnd Hr Hin; simpl in *. tauto.
  inversion Hnd; subst. destruct Hin as [->|Hin].
  - fold (write_all pairs (setZ ta (fst p) (snd p))).
    rewrite write_all_notin; auto.
    + apply getZ_setZ_eq. apply Hr; auto.
    + apply (Hr p); auto.
    + intros; apply (Hr p0); auto.
  - apply IH; auto. intros. rewrite zlen_setZ. apply Hr; auto.
Qed.

Lemma last_cons {A} (l : list A) x d : last (x :: l) d = last l x.
Proof. revert x; induction l; intros; auto. simpl in *. destruct l; auto. Qed.

Lemma combine_snoc (r : list Z) : forall x y, combine (x :: r) (r ++ [y]) = combine (x :: r) r ++ [(last r x, y)].
Proof.
  induction r as [|z r IH]; intros x y. reflexivity.
  change (combine (x :: z :: r) ((z :: r) ++ [y])) with ((x, z) :: combine (z :: r) (r ++ [y])).
  rewrite IH. change (combine (x :: z :: r) (z :: r)) with ((x, z) :: combine (z :: r) r).
  rewrite last_cons. reflexivity.
Qed.

Lemma map_fst_combine_cyc (r : list Z) x y : map fst (combine (x :: r) (r ++ [y])) = x :: r.
Proof.
  revert x; induction r as [|z r IH]; intros x; simpl; auto. f_equal. apply IH.
Qed.

Lemma fold_skip ti i L : forall s,
  fold_left (build_island_step ti i) L s = fold_left (build_island_step ti i) (filter (fun t => getZ ti t =? i) L) s.
Proof.
  induction L as [|t L IH]; intros s; simpl; auto.
  destruct (getZ ti t =? i) eqn:E; simpl. apply IH.
  rewrite <- IH. f_equal. unfold build_island_step. destruct s as [[f p] a]. now rewrite E.
Qed.

Lemma fold_match ti i T : forall first prev ta, first <> -1 -> prev <> -1 ->
  (forall t, In t T -> getZ ti t = i /\ 0 <= t) ->
  fold_left (build_island_step ti i) T (first, prev, ta) =
  (first, last T prev, write_all (combine (prev :: T) T) ta).
Proof.
  induction T as [|t T IH]; intros first prev ta Hf Hp Hm. reflexivity.
  assert (Ht : getZ ti t = i /\ 0 <= t) by (apply Hm; simpl; auto). destruct Ht as [Ht Ht0].
  cbn [fold_left]. unfold build_island_step at 2. rewrite Ht, Z.eqb_refl.
  replace (first =? -1) with false by lia. replace (prev =? -1) with false by lia. simpl negb. cbv iota.
  rewrite IH; auto. 2:{ lia. }
  2:{ intros; apply Hm; simpl; auto. }
  rewrite last_cons. reflexivity.
Qed.


Lemma island_trees_in ti i n t : In t (island_trees ti i n) <-> 0 <= t < n /\ getZ ti t = i.
Proof. unfold island_trees. rewrite filter_In, zrange_In. split; intros []; split; auto; lia. Qed.

Lemma island_trees_NoDup ti i n : NoDup (island_trees ti i n).
Proof. apply NoDup_filter. apply zrange_NoDup. Qed.

Lemma build_island_eq n ti i ta : build_island n ti i ta = write_all (cyc_pairs (island_trees ti i n)) ta.
Proof.
  unfold build_island. rewrite fold_skip. fold (island_trees ti i n).
  pose proof (island_trees_in ti i n) as HT.
  destruct (island_trees ti i n) as [|t0 r]; simpl. reflexivity.
  assert (H0 : 0 <= t0 /\ getZ ti t0 = i). { destruct (HT t0) as [H _]. destruct H; simpl; auto. split; auto; lia. }
  destruct H0 as [H0 H1].
  rewrite H1, Z.eqb_refl.
  rewrite fold_match; try lia.
  2:{ intros t Ht. destruct (HT t) as [H _]. destruct H; simpl; auto. split; auto; lia. }
  replace (t0 =? -1) with false by lia. simpl negb. cbv iota.
  change (match r ++ [t0] with [] => [] | y :: tl => (t0, y) :: combine r tl end) with (combine (t0 :: r) (r ++ [t0])).
  rewrite combine_snoc. unfold write_all. rewrite fold_left_app. reflexivity.
Qed.

Lemma chain_of_pairs ta : forall l x b,
  (forall p, In p (combine (x :: l) (l ++ [b])) -> getZ ta (fst p) = snd p) -> chain ta x l b.
Proof.
  induction l as [|y l IH]; intros x b H; simpl in *.
  - apply (H (x, b)); auto.
  - split. apply (H (x, y)); auto. apply IH. intros p Hp. apply H; auto.
Qed.

(* one island whose trees are all awake is linked into one new cycle *)
Lemma build_island_wf ta cs ti i : cycles_wf ta cs ->
  (forall t, In t (island_trees ti i (zlen ta)) -> getZ ta t < 0) ->
  cycles_wf (build_island (zlen ta) ti i ta)
            (cs ++ match island_trees ti i (zlen ta) with [] => [] | T => [T] end).
Proof.
  intros W Haw. rewrite build_island_eq.
  pose proof (island_trees_in ti i (zlen ta)) as HT. pose proof (island_trees_NoDup ti i (zlen ta)) as HN.
  destruct (island_trees ti i (zlen ta)) as [|t0 r] eqn:ET.
  - simpl. now rewrite app_nil_r.
  - set (T := t0 :: r) in *.
    assert (Hfst : map fst (cyc_pairs T) = T) by apply map_fst_combine_cyc.
    assert (Hpr : forall p, In p (cyc_pairs T) -> 0 <= fst p < zlen ta).
    { intros p Hp. assert (In (fst p) T) by (rewrite <- Hfst; now apply in_map). apply HT in H. lia. }
    apply cycles_wf_add with ta; auto.
    + apply zlen_write_all.
    + intros u Hu Hn. apply write_all_notin; auto. intros p Hp. apply Hpr in Hp. lia. now rewrite Hfst.
    + change (chain (write_all (cyc_pairs T) ta) t0 r t0). apply chain_of_pairs. intros p Hp.
      apply (write_all_in (cyc_pairs T)); auto. rewrite Hfst; auto.
    + intros u Hu. split. apply HT in Hu. lia. intro Hin.
      destruct (member_asleep _ _ _ W Hin). specialize (Haw u Hu). lia.
Qed.

Lemma build_island_untouched ta ti i u : 0 <= u -> ~ In u (island_trees ti i (zlen ta)) ->
  getZ (build_island (zlen ta) ti i ta) u = getZ ta u.
Proof.
  intros Hu Hn. rewrite build_island_eq.
  pose proof (island_trees_in ti i (zlen ta)) as HT.
  destruct (island_trees ti i (zlen ta)) as [|t0 r] eqn:ET. reflexivity.
  assert (Hfst : map fst (cyc_pairs (t0 :: r)) = t0 :: r) by apply map_fst_combine_cyc.
  apply write_all_notin; auto. 2: now rewrite Hfst.
  intros p Hp. assert (In (fst p) (t0 :: r)) by (rewrite <- Hfst; now apply in_map). apply HT in H. lia.
Qed.

Lemma zlen_build_island ta ti i : zlen (build_island (zlen ta) ti i ta) = zlen ta.
Proof. rewrite build_island_eq. apply zlen_write_all. Qed.

(* ---------- _build_cycles: all sleeping islands ---------- *)
Definition islands_fold (ti ics : list Z) (n : Z) (L : list Z) (ta : list Z) : list Z :=
  fold_left (fun ta i => if getZ ics i =? 1 then build_island n ti i ta else ta) L ta.

Definition new_island_cycles (ti ics : list Z) (n : Z) (L : list Z) : list (list Z) :=
  flat_map (fun i => if getZ ics i =? 1 then match island_trees ti i n with [] => [] | T => [T] end else []) L.

Lemma zlen_islands_fold ti ics n L : forall ta, zlen ta = n -> zlen (islands_fold ti ics n L ta) = n.
Proof.
  unfold islands_fold. induction L as [|i L IH]; intros ta Hn; simpl; auto.
  destruct (getZ ics i =? 1); auto. apply IH. subst n. apply zlen_build_island.
Qed.

Lemma islands_fold_untouched ti ics n L : forall ta u, zlen ta = n -> 0 <= u ->
  (forall i, In i L -> getZ ics i = 1 -> ~ In u (island_trees ti i n)) ->
  getZ (islands_fold ti ics n L ta) u = getZ ta u.
Proof.
  unfold islands_fold. induction L as [|i L IH]; intros ta u Hl Hu Hn; simpl; auto.
  destruct (getZ ics i =? 1) eqn:E.
  - rewrite IH; auto.
    + subst n. apply build_island_untouched; auto. apply Hn; simpl; auto. lia.
    + subst n. apply zlen_build_island.
    + intros j Hj Hc. apply Hn; simpl; auto.
  - apply IH; auto. intros; apply Hn; simpl; auto.
Qed.

Lemma islands_fold_wf ti ics n L : forall ta cs, zlen ta = n -> NoDup L -> cycles_wf ta cs ->
  (forall i t, In i L -> getZ ics i = 1 -> In t (island_trees ti i n) -> getZ ta t < 0) ->
  cycles_wf (islands_fold ti ics n L ta) (cs ++ new_island_cycles ti ics n L).
Proof.
  unfold islands_fold, new_island_cycles.
  induction L as [|i L IH]; intros ta cs Hl Hnd W Haw; simpl.
  - now rewrite app_nil_r.
  - inversion Hnd; subst.
    destruct (getZ ics i =? 1) eqn:E.
    + rewrite app_assoc.
      apply IH; auto.
      * apply zlen_build_island.
      * apply build_island_wf; auto. intros; apply (Haw i); simpl; auto. lia.
      * intros j t Hj Hcj Ht.
        rewrite build_island_untouched. apply (Haw j); simpl; auto.
        apply island_trees_in in Ht. lia.
        intro Hi. apply island_trees_in in Ht. apply island_trees_in in Hi.
        assert (i = j) by lia. subst. tauto.
    + apply IH; auto. intros; apply (Haw i0); simpl; auto.
Qed.

(* ---------- _build_cycles: unconstrained trees ---------- *)
Definition uncon_fold (nisland : Z) (ti : list Z) (L : list Z) (ta : list Z) : list Z :=
  fold_left (build_unconstrained_step nisland ti) L ta.

Definition uncon_new (nisland : Z) (ti ta : list Z) (t : Z) : bool :=
  ((getZ ti t <? 0) || (getZ ti t >=? nisland)) && (getZ ta t =? -1).

Lemma uncon_step_eq nisland ti ta t :
  build_unconstrained_step nisland ti ta t = if uncon_new nisland ti ta t then setZ ta t t else ta.
Proof.
  unfold build_unconstrained_step, uncon_new.
  destruct ((getZ ti t <? 0) || (getZ ti t >=? nisland)); simpl; auto.
Qed.

Lemma zlen_uncon_fold nisland ti L : forall ta, zlen (uncon_fold nisland ti L ta) = zlen ta.
Proof.
  unfold uncon_fold. induction L as [|t L IH]; intros ta; simpl; auto.
  rewrite IH, uncon_step_eq. destruct (uncon_new nisland ti ta t); auto. apply zlen_setZ.
Qed.

Lemma uncon_fold_untouched nisland ti L : forall ta u, 0 <= u -> (forall t, In t L -> 0 <= t) -> ~ In u L ->
  getZ (uncon_fold nisland ti L ta) u = getZ ta u.
Proof.
  unfold uncon_fold. induction L as [|t L IH]; intros ta u Hu Hr Hn; simpl; auto.
  rewrite IH; auto. 2:{ intros; apply Hr; simpl; auto. } 2:{ intro; apply Hn; simpl; auto. }
  rewrite uncon_step_eq. destruct (uncon_new nisland ti ta t); auto.
  apply getZ_setZ_neq; auto. apply Hr; simpl; auto. intro; subst; apply Hn; simpl; auto.
Qed.

Lemma uncon_fold_get nisland ti L : forall ta u, NoDup L -> (forall t, In t L -> 0 <= t < zlen ta) -> In u L ->
  getZ (uncon_fold nisland ti L ta) u = if uncon_new nisland ti ta u then u else getZ ta u.
Proof.
  induction L as [|t L IH]; intros ta u Hnd Hr Hin. destruct Hin.
  inversion Hnd; subst. unfold uncon_fold in *. simpl. rewrite uncon_step_eq.
  assert (Ht : 0 <= t < zlen ta) by (apply Hr; simpl; auto).
  destruct Hin as [->|Hin].
  - fold (uncon_fold nisland ti L (if uncon_new nisland ti ta u then setZ ta u u else ta)).
    rewrite uncon_fold_untouched; auto; try lia. 2:{ intros t Ht'. assert (0 <= t < zlen ta) by (apply Hr; simpl; auto). lia. }
    destruct (uncon_new nisland ti ta u); auto. apply getZ_setZ_eq; auto.
  - assert (Hne : t <> u) by (intro; subst; tauto).
    assert (Hu : 0 <= u < zlen ta) by (apply Hr; simpl; auto).
    rewrite IH; auto.
    + destruct (uncon_new nisland ti ta t) eqn:E; auto.
      unfold uncon_new. rewrite getZ_setZ_neq; auto; lia.
    + intros t' Ht'. destruct (uncon_new nisland ti ta t); [rewrite zlen_setZ|]; apply Hr; simpl; auto.
Qed.

Lemma flat_map_ext_in' {A B} (f g : A -> list B) l : (forall x, In x l -> f x = g x) -> flat_map f l = flat_map g l.
Proof. induction l; simpl; intros H; auto. rewrite H, IHl; auto. Qed.

Lemma uncon_fold_wf nisland ti L : forall ta cs, NoDup L -> (forall t, In t L -> 0 <= t < zlen ta) ->
  cycles_wf ta cs ->
  cycles_wf (uncon_fold nisland ti L ta)
            (cs ++ flat_map (fun t => if uncon_new nisland ti ta t then [[t]] else []) L).
Proof.
  unfold uncon_fold. induction L as [|t L IH]; intros ta cs Hnd Hr W; simpl.
  - now rewrite app_nil_r.
  - inversion Hnd; subst. rewrite uncon_step_eq.
    assert (Ht : 0 <= t < zlen ta) by (apply Hr; simpl; auto).
    destruct (uncon_new nisland ti ta t) eqn:E.
    + rewrite app_assoc.
      assert (Hext : flat_map (fun t0 => if uncon_new nisland ti ta t0 then [[t0]] else []) L =
                     flat_map (fun t0 => if uncon_new nisland ti (setZ ta t t) t0 then [[t0]] else []) L).
      { apply flat_map_ext_in'. intros x Hx. unfold uncon_new. rewrite getZ_setZ_neq; auto; try lia.
        assert (0 <= x < zlen ta) by (apply Hr; simpl; auto). lia. intro; subst; tauto. }
      rewrite Hext. apply IH; auto.
      * intros. rewrite zlen_setZ. apply Hr; simpl; auto.
      * apply cycles_wf_add with ta; auto.
        -- apply zlen_setZ.
        -- intros u Hu Hn. apply getZ_setZ_neq; auto; try lia. intro; subst; apply Hn; simpl; auto.
        -- simpl. apply getZ_setZ_eq; auto.
        -- repeat constructor. simpl; tauto.
        -- intros u [<-|[]]. split; auto. intro Hin. destruct (member_asleep _ _ _ W Hin).
           unfold uncon_new in E. lia.
    + apply IH; auto. intros; apply Hr; simpl; auto.
Qed.

(* ======================= part 11 ======================= *)
(* ---------- the cycle structure is a permutation of the sleeping trees ---------- *)
Lemma chain_map ta : forall l a b, chain ta a l b -> map (getZ ta) (a :: l) = l ++ [b].
Proof.
  induction l as [|y l IH]; intros a b H; simpl in *. now rewrite H.
  destruct H as [H1 H2]. rewrite H1. f_equal. apply (IH y b H2).
Qed.

Lemma NoDup_map_inj {A B} (f : A -> B) l : NoDup (map f l) ->
  forall x y, In x l -> In y l -> f x = f y -> x = y.
Proof.
  induction l as [|a l IH]; simpl; intros Hnd x y Hx Hy E. tauto.
  inversion Hnd; subst.
  destruct Hx as [->|Hx], Hy as [->|Hy]; auto.
  - exfalso. apply H1. rewrite E. now apply in_map.
  - exfalso. apply H1. rewrite <- E. now apply in_map.
Qed.

Lemma WF_next_asleep ta cs t : cycles_wf ta cs -> 0 <= t < zlen ta -> 0 <= getZ ta t ->
  0 <= getZ ta t < zlen ta /\ 0 <= getZ ta (getZ ta t).
Proof.
  intros W Ht Hs. pose proof (wf_cover _ _ W t Ht Hs) as Hin.
  destruct (member_asleep _ _ _ W Hin) as [H1 H2]. split; auto.
  destruct (member_asleep _ _ _ W H2) as [H3 _]. lia.
Qed.

Lemma WF_injective ta cs s t : cycles_wf ta cs ->
  0 <= s < zlen ta -> 0 <= t < zlen ta -> 0 <= getZ ta s -> getZ ta s = getZ ta t -> s = t.
Proof.
  intros W Hs Ht H0 E.
  pose proof (wf_cover _ _ W s Hs H0) as Is. assert (H0' : 0 <= getZ ta t) by lia.
  pose proof (wf_cover _ _ W t Ht H0') as It.
  apply in_concat_iff in Is as (c1 & Hc1 & Hs1). apply in_concat_iff in It as (c2 & Hc2 & Ht2).
  pose proof (cycle_next_in ta c1 s (wf_cyc _ _ W c1 Hc1) Hs1) as N1.
  pose proof (cycle_next_in ta c2 t (wf_cyc _ _ W c2 Hc2) Ht2) as N2.
  assert (c1 = c2). { apply (concat_unique cs c1 c2 (getZ ta s)); auto. apply (wf_nodup _ _ W). now rewrite E. }
  subst c2.
  pose proof (wf_cyc _ _ W c1 Hc1) as Hy. pose proof (NoDup_concat_in cs c1 (wf_nodup _ _ W) Hc1) as Hnd.
  destruct c1 as [|x l]; simpl in Hy. tauto.
  apply (NoDup_map_inj (getZ ta) (x :: l)); auto.
  rewrite (chain_map ta l x x Hy). eapply Permutation_NoDup; [|exact Hnd]. apply Permutation_cons_append.
Qed.

(* ---------- sleep() ---------- *)
Definition sleep_ta1 can ta := sweep_launch can (zrange (zlen ta)) ta.
Definition sleep_ics can nisland ti ta :=
  check_island_launch nisland ti (sleep_ta1 can ta) (zrange (zlen ta)) (ones (zlen ta)).

Lemma sleep_step_unfold can nisland ti ta :
  sleep_step can nisland ti ta =
  uncon_fold nisland ti (zrange (zlen ta))
    (islands_fold ti (sleep_ics can nisland ti ta) (zlen ta) (zrange nisland) (sleep_ta1 can ta)).
Proof.
  unfold sleep_step, build_cycles, uncon_fold, islands_fold, sleep_ics, sleep_ta1.
  rewrite !zlen_sweep_launch. reflexivity.
Qed.

Lemma zlen_sleep_ta1 can ta : zlen (sleep_ta1 can ta) = zlen ta.
Proof. apply zlen_sweep_launch. Qed.

Lemma sleep_ta1_get can ta u : 0 <= u < zlen ta -> getZ (sleep_ta1 can ta) u = sweep_val (getB can u) (getZ ta u).
Proof. intros. apply sweep_full_get; auto. Qed.

(* new cycles made by one sleep() call *)
Definition is_island_cycle (nisland : Z) (ti : list Z) (n : Z) (c : list Z) : Prop :=
  exists i, 0 <= i < nisland /\ c = island_trees ti i n /\ c <> [].
Definition is_self_cycle (nisland : Z) (ti : list Z) (n : Z) (c : list Z) : Prop :=
  exists t, c = [t] /\ 0 <= t < n /\ ~ (0 <= getZ ti t < nisland).

(* an island that passes _check_island_can_sleep consists of trees at countdown -1 only *)
Lemma sleeping_island_ready can nisland ti ta i t :
  0 <= i < nisland -> getZ (sleep_ics can nisland ti ta) i = 1 -> In t (island_trees ti i (zlen ta)) ->
  getZ (sleep_ta1 can ta) t = -1.
Proof.
  intros Hi Hc Ht. apply island_trees_in in Ht as [Ht Hti].
  destruct (check_island_spec nisland ti (sleep_ta1 can ta) (zrange (zlen ta)) (ones (zlen ta)) i (proj1 Hi) Hc) as [_ Hall].
  apply Hall; try lia. apply zrange_In; auto.
Qed.

Theorem sleep_step_cycles can nisland ti ta cs :
  cycles_wf ta cs ->
  exists newc, cycles_wf (sleep_step can nisland ti ta) (cs ++ newc) /\
    forall c, In c newc -> is_island_cycle nisland ti (zlen ta) c \/ is_self_cycle nisland ti (zlen ta) c.
Proof.
  intros W. rewrite sleep_step_unfold.
  set (ta1 := sleep_ta1 can ta). set (ics := sleep_ics can nisland ti ta). set (n := zlen ta).
  assert (Hl1 : zlen ta1 = n) by apply zlen_sleep_ta1.
  assert (W1 : cycles_wf ta1 cs) by (apply sweep_wf; auto).
  set (ta2 := islands_fold ti ics n (zrange nisland) ta1).
  assert (Hl2 : zlen ta2 = n) by (apply zlen_islands_fold; auto).
  assert (W2 : cycles_wf ta2 (cs ++ new_island_cycles ti ics n (zrange nisland))).
  { apply islands_fold_wf; auto. apply zrange_NoDup.
    intros i t Hi Hc Ht. apply zrange_In in Hi.
    pose proof (sleeping_island_ready can nisland ti ta i t Hi Hc Ht) as H. fold ta1 in H. lia. }
  exists (new_island_cycles ti ics n (zrange nisland) ++
          flat_map (fun t => if uncon_new nisland ti ta2 t then [[t]] else []) (zrange n)).
  split.
  - rewrite app_assoc. apply uncon_fold_wf; auto. apply zrange_NoDup.
    intros t Ht. apply zrange_In in Ht. lia.
  - intros c Hc. apply in_app_or in Hc as [Hc|Hc].
    + left. unfold new_island_cycles in Hc. apply in_flat_map in Hc as (i & Hi & Hc).
      apply zrange_In in Hi. destruct (getZ ics i =? 1); [|destruct Hc].
      destruct (island_trees ti i n) eqn:ET; [destruct Hc|]. destruct Hc as [<-|[]].
      exists i. split; [lia|]. split; [symmetry; exact ET|discriminate].
    + right. apply in_flat_map in Hc as (t & Ht & Hc). apply zrange_In in Ht.
      destruct (uncon_new nisland ti ta2 t) eqn:E; [|destruct Hc]. destruct Hc as [<-|[]].
      exists t. unfold uncon_new in E. repeat split; auto; lia.
Qed.

Corollary sleep_step_WF can nisland ti ta : WF ta -> WF (sleep_step can nisland ti ta).
Proof. intros [cs W]. destruct (sleep_step_cycles can nisland ti ta cs W) as (newc & W' & _). eexists; eauto. Qed.

(* documentation of the defect that was fixed in /repo (C29:sleep:cycle-relinked-while-asleep): with the
   OLD veto `as_val < -1` an island containing a sleeping tree passed _check_island_can_sleep and
   _build_cycles re-linked it, cutting it out of its cycle: [1,0] with island {0} became [0,0] *)
Definition check_island_task_old (nisland : Z) (tree_island ta : list Z) (t : Z) (ics : list Z) : list Z :=
  let i := getZ tree_island t in
  if (i >=? 0) && (i <? nisland) then
    (if getZ ta t <? -1 then setZ ics i (Z.min (getZ ics i) 0) else ics)
  else ics.

Definition sleep_step_old (can : list bool) (nisland : Z) (tree_island : list Z) (ta : list Z) : list Z :=
  let n := zlen ta in
  let ta1 := sweep_launch can (zrange n) ta in
  let ics := fold_left (fun ics t => check_island_task_old nisland tree_island ta1 t ics) (zrange n) (ones n) in
  build_cycles nisland tree_island ics ta1.

Theorem sleep_step_old_veto_refuted :
  exists can nisland ti ta, WF ta /\ ~ WF (sleep_step_old can nisland ti ta) /\
                            sleep_step can nisland ti ta = ta.
Proof.
  exists [true; true], 1, [0; -1], [1; 0]. split; [|split].
  - exists [[0; 1]]. constructor.
    + simpl. repeat constructor; simpl; intuition lia.
    + simpl. intros t [<-|[<-|[]]]; cbv; split; congruence.
    + intros t Ht _. change (zlen [1; 0]) with 2 in Ht. assert (t = 0 \/ t = 1) as [-> | ->] by lia; simpl; auto.
    + intros c [<-|[]]. simpl. split; reflexivity.
  - replace (sleep_step_old [true; true] 1 [0; -1] [1; 0]) with [0; 0] by (vm_compute; reflexivity).
    intros [cs W]. assert (0 = 1); [|lia].
    apply (WF_injective [0; 0] cs 0 1 W); cbv; intuition congruence.
  - vm_compute. reflexivity.
Qed.

(* ---------- a tree falls asleep only if its whole island was ready ---------- *)
Lemma islands_fold_modified ti ics n L : forall ta u, zlen ta = n -> 0 <= u ->
  getZ (islands_fold ti ics n L ta) u <> getZ ta u ->
  exists i, In i L /\ getZ ics i = 1 /\ In u (island_trees ti i n).
Proof.
  unfold islands_fold. induction L as [|i L IH]; intros ta u Hl Hu Hne; simpl in *. congruence.
  destruct (getZ ics i =? 1) eqn:E.
  - destruct (in_dec Z.eq_dec u (island_trees ti i n)) as [Hin|Hout].
    + exists i. repeat split; auto. lia.
    + assert (E' : getZ (build_island n ti i ta) u = getZ ta u) by (subst n; apply build_island_untouched; auto).
      destruct (IH (build_island n ti i ta) u) as (j & Hj & Hc & Ht); auto.
      * subst n. apply zlen_build_island.
      * rewrite E'; auto.
      * exists j; auto.
  - destruct (IH ta u Hl Hu Hne) as (j & Hj & Hc & Ht). exists j; auto.
Qed.

Theorem sleep_needs_all can nisland ti ta t :
  0 <= t < zlen ta -> getZ ta t < 0 -> 0 <= getZ (sleep_step can nisland ti ta) t ->
  (0 <= getZ ti t < nisland /\
   forall u, 0 <= u < zlen ta -> getZ ti u = getZ ti t ->
     getB can u = true /\ (getZ ta u = -1 \/ getZ ta u = -2)) \/
  (~ (0 <= getZ ti t < nisland) /\ getB can t = true /\ (getZ ta t = -1 \/ getZ ta t = -2)).
Proof.
  intros Ht Hn Hs. rewrite sleep_step_unfold in Hs.
  set (ta1 := sleep_ta1 can ta) in *. set (ics := sleep_ics can nisland ti ta) in *. set (n := zlen ta) in *.
  set (ta2 := islands_fold ti ics n (zrange nisland) ta1) in *.
  assert (Hl1 : zlen ta1 = n) by apply zlen_sleep_ta1.
  assert (Hl2 : zlen ta2 = n) by (apply zlen_islands_fold; auto).
  assert (H1 : forall u, 0 <= u < n -> getZ ta1 u = sweep_val (getB can u) (getZ ta u)) by (intros; apply sleep_ta1_get; auto).
  assert (Hready : forall u, 0 <= u < n -> getZ ta1 u = -1 ->
            getB can u = true /\ (getZ ta u = -1 \/ getZ ta u = -2)).
  { intros u Hu Hnl. rewrite H1 in Hnl by auto. unfold sweep_val, K_AWAKE in Hnl.
    destruct (getZ ta u >=? 0) eqn:E0. lia.
    destruct (getB can u). destruct (getZ ta u <? -1) eqn:E1; split; auto; lia. lia. }
  assert (N1 : getZ ta1 t < 0) by (rewrite H1 by auto; apply sweep_val_neg; auto).
  destruct (Z.eq_dec (getZ ta2 t) (getZ ta1 t)) as [Eq|Ne].
  - right.
    assert (Hin : In t (zrange n)) by (apply zrange_In; auto).
    rewrite uncon_fold_get in Hs; auto. 2: apply zrange_NoDup. 2:{ intros x Hx. apply zrange_In in Hx. lia. }
    destruct (uncon_new nisland ti ta2 t) eqn:E; [|lia].
    unfold uncon_new in E. split. lia.
    assert (getZ ta1 t = -1) by lia. apply Hready; auto.
  - left. destruct (islands_fold_modified ti ics n (zrange nisland) ta1 t Hl1 (proj1 Ht) Ne) as (i & Hi & Hc & Hti).
    apply zrange_In in Hi. pose proof Hti as Hti'. apply island_trees_in in Hti' as [_ Hti'']. split. lia.
    intros u Hu Hsame. apply Hready; auto.
    apply (sleeping_island_ready can nisland ti ta i u Hi Hc). apply island_trees_in. split; auto. lia.
Qed.

(* ======================= part 12 ======================= *)
(* ---------- reachable states ---------- *)
(* every launch takes an ARBITRARY task list: all schedules are included *)
Inductive sleep_reachable : list Z -> Prop :=
| sr_init ta : (forall t, 0 <= t < zlen ta -> K_AWAKE <= getZ ta t < 0) -> sleep_reachable ta
| sr_wake ta aw can0 tasks : sleep_reachable ta -> sleep_reachable (wake_launch aw can0 tasks ta)
| sr_wake_collision ta bt gb aw cons : sleep_reachable ta -> snapshot_ok aw ta ->
    sleep_reachable (wake_collision_launch bt gb aw cons ta)
| sr_wake_tendon ta M aw act tasks : sleep_reachable ta -> sleep_reachable (wake_tendon_launch M aw act tasks ta)
| sr_wake_equality ta M E act aw tasks : sleep_reachable ta ->
    sleep_reachable (wake_equality_launch M E act aw tasks ta)
| sr_sleep ta can nisland ti : sleep_reachable ta -> sleep_reachable (sleep_step can nisland ti ta).

Theorem cycles_wf_invariant ta : sleep_reachable ta -> WF ta.
Proof.
  induction 1.
  - exists []. constructor; simpl; try tauto. constructor. intros t Ht Hs. specialize (H t Ht). lia.
  - now apply wake_launch_WF.
  - now apply wake_collision_launch_WF.
  - now apply wake_tendon_launch_WF.
  - now apply wake_equality_launch_WF.
  - now apply sleep_step_WF.
Qed.

Example sleep_reachable_nontrivial : sleep_reachable [1; 0; -11].
Proof.
  change [1; 0; -11] with (sleep_step [true; true; false] 1 [0; 0; -1] [-2; -1; -3]).
  apply sr_sleep. apply sr_init. intros t Ht. change (zlen [-2; -1; -3]) with 3 in Ht.
    assert (t = 0 \/ t = 1 \/ t = 2) as [-> | [-> | ->]] by lia; cbv; split; congruence.
Qed.

(* ---------- every tree that falls asleep in sleep() has its velocity zeroed by that call ---------- *)
Theorem sleep_zeroes_asleep can nisland ti ta t :
  0 <= t < zlen ta -> getZ ta t < 0 -> 0 <= getZ (sleep_step can nisland ti ta) t ->
  In t (build_cycles_zeroed nisland ti (sleep_ics can nisland ti ta) (sleep_step can nisland ti ta)).
Proof.
  intros Ht Haw Hs. unfold build_cycles_zeroed.
  assert (Hl : zlen (sleep_step can nisland ti ta) = zlen ta).
  { rewrite sleep_step_unfold, zlen_uncon_fold. apply zlen_islands_fold. apply zlen_sleep_ta1. }
  rewrite Hl. apply filter_In. split. apply zrange_In; auto.
  destruct ((getZ ti t <? 0) || (getZ ti t >=? nisland)) eqn:E. lia.
  destruct (getZ (sleep_ics can nisland ti ta) (getZ ti t) =? 1) eqn:E1; auto. exfalso.
  rewrite sleep_step_unfold in Hs.
  rewrite uncon_fold_get in Hs. 2: apply zrange_NoDup.
  2:{ intros x Hx. apply zrange_In in Hx. rewrite zlen_islands_fold; auto. apply zlen_sleep_ta1. }
  2:{ apply zrange_In; auto. }
  assert (Hu : uncon_new nisland ti (islands_fold ti (sleep_ics can nisland ti ta) (zlen ta) (zrange nisland) (sleep_ta1 can ta)) t = false).
  { unfold uncon_new. rewrite E. reflexivity. }
  rewrite Hu in Hs.
  rewrite islands_fold_untouched in Hs; try lia. 2: apply zlen_sleep_ta1.
  - rewrite sleep_ta1_get in Hs by auto.
    pose proof (sweep_val_neg (getB can t) (getZ ta t) Haw). lia.
  - intros i Hi Hc Hin. apply island_trees_in in Hin. assert (i = getZ ti t) by lia. subst i. lia.
Qed.

(* ---------- wake_tree_full is wake_tree plus a counter ---------- *)
Lemma fst_wake_loop_full fuel : forall ta n t w cur k,
  fst (wake_loop_full fuel ta n t w cur k) = wake_loop fuel ta n t w cur.
Proof.
  induction fuel; simpl; intros; auto.
  destruct ((getZ ta cur <? 0) || (getZ ta cur >=? n)); auto.
  destruct (getZ ta cur =? t); auto.
Qed.

Lemma fst_wake_tree_full ta t w : fst (wake_tree_full ta t w) = wake_tree ta t w.
Proof.
  unfold wake_tree_full, wake_tree. destruct ((t <? 0) || (t >=? zlen ta)); auto.
  destruct (getZ ta t <? 0); auto. apply fst_wake_loop_full.
Qed.

(* ---------- update_sleep: index lists ---------- *)
Definition compact_step (keep : Z -> bool) (s : Z * list Z) (d : Z) : Z * list Z :=
  if keep d then (fst s + 1, setZ (snd s) (fst s) d) else s.

Lemma firstn_set_nth_snoc l : forall k v, (k < length l)%nat -> firstn (S k) (set_nth l k v) = firstn k l ++ [v].
Proof.
  induction l as [|x l IH]; intros [|k] v H; simpl in *; try lia; auto.
  f_equal. apply IH. lia.
Qed.

Lemma firstn_setZ_snoc l c v : 0 <= c < zlen l ->
  firstn (Z.to_nat (c + 1)) (setZ l c v) = firstn (Z.to_nat c) l ++ [v].
Proof.
  intros. unfold setZ, zlen in *. replace (Z.to_nat (c + 1)) with (S (Z.to_nat c)) by lia.
  apply firstn_set_nth_snoc. lia.
Qed.

Lemma zlen_filter_le {A} (f : A -> bool) l : zlen (filter f l) <= zlen l.
Proof. unfold zlen. induction l; simpl; try lia. destruct (f a); simpl; lia. Qed.

Lemma zlen_cons {A} (x : A) l : zlen (x :: l) = zlen l + 1.
Proof. unfold zlen. simpl length. lia. Qed.

Lemma compact_spec keep tasks : forall c ind, 0 <= c -> c + zlen (filter keep tasks) <= zlen ind ->
  let r := fold_left (compact_step keep) tasks (c, ind) in
  fst r = c + zlen (filter keep tasks) /\
  firstn (Z.to_nat (fst r)) (snd r) = firstn (Z.to_nat c) ind ++ filter keep tasks /\
  zlen (snd r) = zlen ind.
Proof.
  induction tasks as [|d tasks IH]; intros c ind Hc Hle.
  - simpl. change (zlen (@nil Z)) with 0. rewrite app_nil_r. repeat split; auto. lia.
  - cbn [fold_left filter] in *. cbv zeta.
    destruct (keep d) eqn:E.
    + assert (Es : compact_step keep (c, ind) d = (c + 1, setZ ind c d)) by (unfold compact_step; now rewrite E).
      rewrite Es. rewrite zlen_cons in *.
      pose proof (zlen_filter_le keep tasks) as Hf. assert (0 <= zlen (filter keep tasks)) by (unfold zlen; lia).
      destruct (IH (c + 1) (setZ ind c d)) as (A & B & C). lia. rewrite zlen_setZ. lia.
      cbv zeta in A, B, C. repeat split.
      * rewrite A. lia.
      * rewrite B. rewrite firstn_setZ_snoc by lia. rewrite <- app_assoc. reflexivity.
      * rewrite C. apply zlen_setZ.
    + assert (Es : compact_step keep (c, ind) d = (c, ind)) by (unfold compact_step; now rewrite E).
      rewrite Es. apply IH; auto.
Qed.

Lemma Permutation_filter {A} (f : A -> bool) l l' : Permutation l l' -> Permutation (filter f l) (filter f l').
Proof.
  induction 1; simpl; auto.
  - destruct (f x); auto.
  - destruct (f x), (f y); auto. apply perm_swap.
  - etransitivity; eauto.
Qed.

(* compaction by atomic_add: for EVERY task order the first [count] entries of the index array are a
   permutation of the kept ids, and the count is their number *)
Theorem compact_sched keep n tasks ind : Permutation tasks (zrange n) -> zlen ind = n -> 0 <= n ->
  let r := fold_left (compact_step keep) tasks (0, ind) in
  fst r = zlen (filter keep (zrange n)) /\
  Permutation (firstn (Z.to_nat (fst r)) (snd r)) (filter keep (zrange n)).
Proof.
  intros Hp Hl Hn.
  assert (Hpf : Permutation (filter keep tasks) (filter keep (zrange n))) by now apply Permutation_filter.
  assert (Hlen : zlen (filter keep tasks) = zlen (filter keep (zrange n))).
  { unfold zlen. now rewrite (Permutation_length Hpf). }
  destruct (compact_spec keep tasks 0 ind) as (A & B & C). lia.
  { pose proof (zlen_filter_le keep tasks). unfold zlen in *. rewrite (Permutation_length Hp), zrange_length in H. lia. }
  cbv zeta in *. split. lia. rewrite B. simpl. auto.
Qed.

(* _update_sleep_dofs is this compaction *)
Lemma update_dofs_is_compact bt db ba tasks s :
  update_dofs_launch bt db ba tasks s =
  fold_left (compact_step (fun d => (getZ bt (getZ db d) >=? 0) && (getZ ba (getZ db d) =? S_AWAKE))) tasks s.
Proof. reflexivity. Qed.

(* _update_sleep_bodies: its (count, body_awake_ind) part is this compaction *)
Lemma update_bodies_is_compact br bm bt aw flg tasks : forall c ba ind,
  let r := update_bodies_launch br bm bt aw flg tasks (c, ba, ind) in
  (fst (fst r), snd r) =
  fold_left (compact_step (fun b => negb (body_state br bm bt aw flg b =? S_ASLEEP))) tasks (c, ind).
Proof.
  unfold update_bodies_launch. induction tasks as [|b tasks IH]; intros c ba ind; simpl. reflexivity.
  unfold compact_step at 2. simpl fst; simpl snd.
  destruct (negb (body_state br bm bt aw flg b =? S_ASLEEP)); apply IH.
Qed.

Theorem update_sleep_bodies_sched br bm bt aw flg nbody tasks ba ind :
  Permutation tasks (zrange nbody) -> zlen ind = nbody -> 0 <= nbody ->
  let r := update_bodies_launch br bm bt aw flg tasks (0, ba, ind) in
  let awake := filter (fun b => negb (body_state br bm bt aw flg b =? S_ASLEEP)) (zrange nbody) in
  fst (fst r) = zlen awake /\ Permutation (firstn (Z.to_nat (fst (fst r))) (snd r)) awake.
Proof.
  intros Hp Hl Hn. cbv zeta.
  pose proof (update_bodies_is_compact br bm bt aw flg tasks 0 ba ind) as E. cbv zeta in E.
  pose proof (compact_sched (fun b => negb (body_state br bm bt aw flg b =? S_ASLEEP)) nbody tasks ind Hp Hl Hn) as H.
  cbv zeta in H. rewrite <- E in H. exact H.
Qed.

Theorem update_sleep_dofs_sched bt db ba nv tasks ind :
  Permutation tasks (zrange nv) -> zlen ind = nv -> 0 <= nv ->
  let r := update_dofs_launch bt db ba tasks (0, ind) in
  let awake := filter (fun d => (getZ bt (getZ db d) >=? 0) && (getZ ba (getZ db d) =? S_AWAKE)) (zrange nv) in
  fst r = zlen awake /\ Permutation (firstn (Z.to_nat (fst r)) (snd r)) awake.
Proof. intros Hp Hl Hn. cbv zeta. rewrite update_dofs_is_compact. apply compact_sched; auto. Qed.

(* _update_sleep_trees: own-cell writes + a counter: identical result for every order *)
Definition tree_flag (ta : list Z) (t : Z) : Z := if getZ ta t <? 0 then 1 else 0.

Lemma update_trees_spec ta tasks : forall c aw, NoDup tasks -> (forall t, In t tasks -> 0 <= t < zlen aw) ->
  let r := update_trees_launch ta tasks (c, aw) in
  fst r = c + zlen (filter (fun t => getZ ta t <? 0) tasks) /\ zlen (snd r) = zlen aw /\
  forall u, 0 <= u -> getZ (snd r) u = if in_dec Z.eq_dec u tasks then tree_flag ta u else getZ aw u.
Proof.
  unfold update_trees_launch. induction tasks as [|t tasks IH]; intros c aw Hnd Hr; simpl.
  - unfold zlen; simpl. repeat split; auto. lia.
  - inversion Hnd; subst.
    assert (Es : update_trees_task ta t (c, aw) =
                 (if (if getZ ta t <? 0 then 1 else 0) =? 1 then c + 1 else c, setZ aw t (if getZ ta t <? 0 then 1 else 0)))
      by reflexivity.
    rewrite Es.
    assert (Ht : 0 <= t < zlen aw) by (apply Hr; simpl; auto).
    destruct (IH (if (if getZ ta t <? 0 then 1 else 0) =? 1 then c + 1 else c)
                 (setZ aw t (if getZ ta t <? 0 then 1 else 0)) H2) as (A & B & C).
    { intros. rewrite zlen_setZ. apply Hr; simpl; auto. }
    cbv zeta in A, B, C. repeat split.
    + rewrite A. destruct (getZ ta t <? 0); simpl; rewrite ?zlen_cons; lia.
    + rewrite B. apply zlen_setZ.
    + intros u Hu. rewrite C by auto. destruct (Z.eq_dec t u) as [->|Hne].
      * destruct (in_dec Z.eq_dec u tasks); [tauto|]. rewrite getZ_setZ_eq; auto.
      * rewrite getZ_setZ_neq by lia. destruct (in_dec Z.eq_dec u tasks); auto.
Qed.

Theorem update_sleep_trees_sched ta n tasks c aw : Permutation tasks (zrange n) -> zlen aw = n ->
  update_trees_launch ta tasks (c, aw) = update_trees_launch ta (zrange n) (c, aw).
Proof.
  intros Hp Hl.
  assert (Hnd : NoDup tasks) by (eapply Permutation_NoDup; [symmetry; eauto|apply zrange_NoDup]).
  assert (Hr : forall t, In t tasks -> 0 <= t < zlen aw).
  { intros t Ht. rewrite Hl. apply zrange_In. eapply Permutation_in; eauto. }
  assert (Hr' : forall t, In t (zrange n) -> 0 <= t < zlen aw) by (intros t Ht; rewrite Hl; now apply zrange_In).
  destruct (update_trees_spec ta tasks c aw Hnd Hr) as (A & B & C).
  destruct (update_trees_spec ta (zrange n) c aw (zrange_NoDup n) Hr') as (A' & B' & C').
  cbv zeta in *.
  destruct (update_trees_launch ta tasks (c, aw)) as [c1 a1], (update_trees_launch ta (zrange n) (c, aw)) as [c2 a2].
  simpl in *. f_equal.
  - rewrite A, A'. f_equal. unfold zlen. f_equal. apply Permutation_length. now apply Permutation_filter.
  - apply list_eq_getZ. lia. intros u Hu. rewrite C, C' by lia.
    destruct (in_dec Z.eq_dec u tasks) as [i1|n1], (in_dec Z.eq_dec u (zrange n)) as [i2|n2]; auto; exfalso.
    + apply n2. eapply Permutation_in; eauto.
    + apply n1. eapply Permutation_in; [symmetry|]; eauto.
Qed.

(* ======================= part 13 ======================= *)
(* ---------- countdowns stay in [K_AWAKE, -1] ---------- *)
Definition all_ge_K (a : list Z) : Prop := forall u, 0 <= u -> K_AWAKE <= getZ a u.

Lemma all_ge_K_countdown a : all_ge_K a -> countdown_ge_K a.
Proof. intros H u Hu _. apply H. lia. Qed.

Lemma countdown_all_ge_K a : countdown_ge_K a -> all_ge_K a.
Proof.
  intros H u Hu. destruct (Z_lt_dec u (zlen a)).
  - destruct (Z_lt_dec (getZ a u) 0). apply H; auto; lia. unfold K_AWAKE; lia.
  - rewrite getZ_overflow by lia. unfold K_AWAKE; lia.
Qed.

Lemma fold_left_inv_in {A T} (F : A -> T -> A) (I : A -> Prop) (l : list T) :
  (forall a c, In c l -> I a -> I (F a c)) -> forall a, I a -> I (fold_left F l a).
Proof.
  induction l; simpl; intros H a0 Ha; auto.
Qed.

Lemma wake_tree_geK a t w : all_ge_K a -> K_AWAKE <= w -> all_ge_K (wake_tree a t w).
Proof. intros H Hw u Hu. destruct (wake_tree_entry a t w u Hu) as [-> | ->]; auto. Qed.

Lemma wake_launch_geK aw can0 tasks a : all_ge_K a -> all_ge_K (wake_launch aw can0 tasks a).
Proof.
  unfold wake_launch. apply fold_left_inv. intros b t Hb. unfold wake_task.
  destruct (getZ b t >=? 0); auto. destruct ((getZ aw t =? 1) || negb (getB can0 t)); auto.
  apply wake_tree_geK; auto. lia.
Qed.

Lemma wake_collision_launch_geK bt gb aw cons a : all_ge_K a -> all_ge_K (wake_collision_launch bt gb aw cons a).
Proof.
  unfold wake_collision_launch. apply fold_left_inv. intros b [g1 g2] Hb. unfold wake_collision_task.
  destruct ((g1 <? 0) || (g2 <? 0)); auto. unfold wake_collision_trees.
  set (t1 := getW bt (getW gb g1)). set (t2 := getW bt (getW gb g2)).
  destruct ((t1 <? 0) || (t2 <? 0)) eqn:E; auto.
  destruct ((getZ aw t1 =? 1) && (getZ aw t2 =? 1)); auto.
  destruct ((getZ aw t1 =? 0) && (getZ aw t2 =? 0)); auto.
  apply wake_tree_geK; auto. destruct (getZ aw t1 =? 1); apply Hb; lia.
Qed.

Lemma tendon_pass1_geK aw a trees : all_ge_K a -> K_AWAKE <= snd (tendon_pass1 aw a trees).
Proof.
  intros H. unfold tendon_pass1.
  apply (fold_left_inv _ (fun s : bool * Z => K_AWAKE <= snd s)); [|simpl; lia].
  intros [b w] t Hs; simpl in *. destruct (t >=? 0) eqn:E; auto. destruct (getZ aw t =? 1); auto. simpl.
  destruct (getZ a t <? w); auto. apply H. lia.
Qed.

Lemma wake_tendon_trees_geK aw trees w a : K_AWAKE <= w -> all_ge_K a -> all_ge_K (wake_tendon_trees aw trees w a).
Proof.
  intros Hw. unfold wake_tendon_trees. apply fold_left_inv. intros b t Hb.
  destruct (t >=? 0); auto. destruct (getZ aw t =? 0); auto. now apply wake_tree_geK.
Qed.

Lemma wake_tendon_launch_geK M aw act tasks a : all_ge_K a -> all_ge_K (wake_tendon_launch M aw act tasks a).
Proof.
  unfold wake_tendon_launch. apply fold_left_inv. intros b t Hb.
  unfold wake_tendon_task, wake_tendon_trees_task.
  destruct (fst (tendon_pass1 aw b (tendon_trees M t))); auto. destruct (getB act t); auto.
  apply wake_tendon_trees_geK; auto. now apply tendon_pass1_geK.
Qed.

Lemma twv_geK aw a trees : all_ge_K a -> K_AWAKE <= tendon_wake_val aw a trees.
Proof.
  intros H. unfold tendon_wake_val. apply (fold_left_inv _ (fun w => K_AWAKE <= w)); [|unfold K_AWAKE; lia].
  intros w t Hw. destruct (t >=? 0) eqn:E; auto. destruct (getZ aw t =? 1); auto.
  cbv zeta. destruct ((w =? 0) || (getZ a t <? w)); auto. apply H. lia.
Qed.

Lemma wake_equality_launch_geK M E act aw tasks a : all_ge_K a -> all_ge_K (wake_equality_launch M E act aw tasks a).
Proof.
  unfold wake_equality_launch. apply fold_left_inv. intros b e Hb. unfold wake_equality_task.
  destruct (negb (getB act e)); auto.
  destruct ((getZ (eq_type E) e =? EQ_CONNECT) || (getZ (eq_type E) e =? EQ_WELD) || (getZ (eq_type E) e =? EQ_JOINT)).
  - unfold wake_eq_pair.
    repeat match goal with |- all_ge_K (if ?c then _ else _) => destruct c; auto end;
    repeat apply wake_tree_geK; auto; lia.
  - destruct (getZ (eq_type E) e =? EQ_TENDON); auto. unfold wake_eq_tendon.
    set (tr1 := if getZ (eq_obj1id E) e <? 0 then [] else tendon_trees M (getZ (eq_obj1id E) e)).
    set (tr2 := if getZ (eq_obj2id E) e <? 0 then [] else tendon_trees M (getZ (eq_obj2id E) e)).
    pose proof (twv_geK aw b tr1 Hb) as G1. pose proof (twv_geK aw b tr2 Hb) as G2.
    set (w1 := tendon_wake_val aw b tr1) in *. set (w2 := tendon_wake_val aw b tr2) in *.
    destruct ((w1 <? 0) || (w2 <? 0)); auto. cbv zeta.
    assert (Hw : K_AWAKE <= (if (w2 <? 0) && (w2 <? (if (w1 <? 0) && (w1 <? K_AWAKE) then w1 else K_AWAKE)) then w2
               else if (w1 <? 0) && (w1 <? K_AWAKE) then w1 else K_AWAKE)).
    { destruct ((w1 <? 0) && (w1 <? K_AWAKE));
      match goal with |- _ <= (if ?c then _ else _) => destruct c end; lia. }
    apply wake_tendon_trees_geK; auto. apply wake_tendon_trees_geK; auto.
Qed.

Lemma sweep_launch_geK can tasks a : all_ge_K a -> all_ge_K (sweep_launch can tasks a).
Proof.
  unfold sweep_launch. apply fold_left_inv. intros b t Hb u Hu. unfold sweep_task.
  destruct (getZ b t >=? 0) eqn:E0; auto.
  assert (Ht : 0 <= t \/ t < 0) by lia.
  assert (G : forall v, K_AWAKE <= v -> K_AWAKE <= getZ (setZ b t v) u).
  { intros v Hv. destruct Ht.
    - destruct (getZ_setZ_cases b t u v) as [-> | ->]; auto.
    - replace (setZ b t v) with (setZ b 0 v) by (unfold setZ; f_equal; lia).
      destruct (getZ_setZ_cases b 0 u v) as [-> | ->]; auto; lia. }
  destruct (getB can t).
  - destruct (getZ b t <? -1) eqn:E1; auto. apply G.
    assert (K_AWAKE <= getZ b t). { destruct Ht. apply Hb; auto. replace (getZ b t) with (getZ b 0). apply Hb; lia. unfold getZ; f_equal; lia. }
    lia.
  - apply G. lia.
Qed.

Lemma write_all_entry pairs : forall ta u, 0 <= u -> (forall p, In p pairs -> 0 <= fst p) ->
  getZ (write_all pairs ta) u = getZ ta u \/ exists p, In p pairs /\ getZ (write_all pairs ta) u = snd p.
Proof.
  unfold write_all. induction pairs as [|p pairs IH]; intros ta u Hu Hr; simpl; auto.
  destruct (IH (setZ ta (fst p) (snd p)) u Hu) as [E|(q & Hq & E)].
  - intros; apply Hr; simpl; auto.
  - rewrite E. destruct (getZ_setZ_cases ta (fst p) u (snd p)) as [-> | ->]; auto.
    apply Hr; simpl; auto. right. exists p; simpl; auto.
  - right. exists q; simpl; auto.
Qed.

Lemma build_island_geK ta ti i : all_ge_K ta -> all_ge_K (build_island (zlen ta) ti i ta).
Proof.
  intros H u Hu. rewrite build_island_eq.
  pose proof (island_trees_in ti i (zlen ta)) as HT.
  destruct (island_trees ti i (zlen ta)) as [|t0 r] eqn:ET. apply H; auto.
  assert (Hfst : map fst (cyc_pairs (t0 :: r)) = t0 :: r) by apply map_fst_combine_cyc.
  assert (Hp : forall p, In p (cyc_pairs (t0 :: r)) -> 0 <= fst p /\ 0 <= snd p).
  { intros p Hp. split.
    - assert (In (fst p) (t0 :: r)) by (rewrite <- Hfst; now apply in_map). apply HT in H0. lia.
    - assert (In (snd p) (r ++ [t0])). { destruct p as [x y]. change (In (x, y) (combine (t0 :: r) (r ++ [t0]))) in Hp. apply in_combine_r in Hp. auto. }
      assert (In (snd p) (t0 :: r)). { apply in_app_or in H0 as [|[<-|[]]]; simpl; auto. }
      apply HT in H1. lia. }
  destruct (write_all_entry (cyc_pairs (t0 :: r)) ta u Hu) as [-> |(p & Hin & ->)].
  - intros p Hin. apply Hp; auto.
  - apply H; auto.
  - apply Hp in Hin. unfold K_AWAKE. lia.
Qed.

Lemma sleep_step_geK can nisland ti ta : all_ge_K ta -> all_ge_K (sleep_step can nisland ti ta).
Proof.
  intros H. rewrite sleep_step_unfold.
  assert (H1 : all_ge_K (sleep_ta1 can ta)) by (apply sweep_launch_geK; auto).
  assert (H2 : forall L a, zlen a = zlen ta -> all_ge_K a ->
             all_ge_K (islands_fold ti (sleep_ics can nisland ti ta) (zlen ta) L a)).
  { unfold islands_fold. induction L as [|i L IH]; intros a Hl Ha; simpl; auto.
    destruct (getZ (sleep_ics can nisland ti ta) i =? 1); auto. apply IH.
    rewrite <- Hl. apply zlen_build_island. rewrite <- Hl. now apply build_island_geK. }
  unfold uncon_fold. apply fold_left_inv_in.
  - intros b t Hin Hb. apply zrange_In in Hin. rewrite uncon_step_eq. destruct (uncon_new nisland ti b t) eqn:E; auto.
    intros u Hu. destruct (getZ_setZ_cases b t u t) as [-> | ->]; auto; try lia. unfold K_AWAKE; lia.
  - apply H2; auto. apply zlen_sleep_ta1.
Qed.

Theorem countdown_range_invariant ta : sleep_reachable ta -> countdown_ge_K ta.
Proof.
  intros H. apply all_ge_K_countdown. induction H.
  - apply countdown_all_ge_K. intros u Hu _. apply H; auto.
  - now apply wake_launch_geK.
  - now apply wake_collision_launch_geK.
  - now apply wake_tendon_launch_geK.
  - now apply wake_equality_launch_geK.
  - now apply sleep_step_geK.
Qed.
