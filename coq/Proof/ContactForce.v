(* Proof/ContactForce.v -- what support.py:_decode_pyramid and contact_force_fn compute.
   Every lemma is about the definitions REGENERATED from /repo/mujoco_warp/_src/support.py
   (Gen/support.v); arrays are total functions Z -> R (array parameters of the translator). *)
From Coq Require Import ZArith Reals List Bool Lra Lia Psatz.
From VF Require Import Base.Scalar Base.ScalarR Base.Vec Base.Loop Gen.support.
Import ListNotations.
Local Open Scope R_scope.

Definition dp := @_decode_pyramid R ScalarR.
Definition cf := @contact_force_fn R ScalarR.

(* guarded read of a pyramid edge force: the code reads pyramid[a] only when a < njmax *)
Definition gread (njmax : Z) (p : Z -> R) (a : Z) : R := if (a <? njmax)%Z then p a else 0.

(* mju_decodePyramid (MuJoCo engine_util_misc.c) on the edge forces e_0 .. e_{2(dim-1)-1}:
     dim = 1: force[0] = e_0
     else   : force[0] = sum_i e_i ;  force[i+1] = (e_{2i} - e_{2i+1}) * mu[i],  i < dim-1 ;
   the remaining slots of the 6-vector stay 0 *)
Fixpoint sum_edges (n : nat) (e : Z -> R) : R :=
  match n with O => 0 | S k => sum_edges k e + e (Z.of_nat k) end.
Definition decode_ref (e : Z -> R) (mu : list R) (dim : Z) : list R :=
  if (dim =? 1)%Z then [e 0%Z; 0; 0; 0; 0; 0]
  else
    sum_edges (Z.to_nat (2 * (dim - 1))) e ::
    map (fun i => if (Z.of_nat i <? dim - 1)%Z
                  then (e (2 * Z.of_nat i)%Z - e (2 * Z.of_nat i + 1)%Z) * nth i mu 0 else 0)
        (seq 0 5).

Ltac znorm :=
  repeat match goal with
  | |- context [Z.to_nat ?t] => progress ring_simplify t
  | |- context [(?a <? _)%Z] => progress ring_simplify a
  end.
Ltac closed_to_nat :=
  repeat match goal with |- context [Z.to_nat ?t] =>
    let v := eval vm_compute in (Z.to_nat t) in change (Z.to_nat t) with v end.
Ltac list_eq :=
  repeat match goal with |- _ :: _ = _ :: _ => apply (f_equal2 cons); [try ring|] end; try reflexivity.

Lemma decode_pyramid_condim1 njmax p adr mu :
  dp njmax p adr mu 1 = [p adr; 0; 0; 0; 0; 0].
Proof. unfold dp, _decode_pyramid. cbv [Z.eqb Pos.eqb vset vset_nat vconst repeat Z.to_nat]. sR. reflexivity. Qed.

Lemma decode_pyramid_spec njmax p adr mu0 mu1 mu2 mu3 mu4 condim :
  (condim = 2 \/ condim = 3 \/ condim = 4 \/ condim = 5 \/ condim = 6)%Z ->
  dp njmax p adr [mu0; mu1; mu2; mu3; mu4] condim
  = decode_ref (fun i => gread njmax p (i + adr)%Z) [mu0; mu1; mu2; mu3; mu4] condim.
Proof.
  intros Hc. destruct Hc as [->|[->|[->|[->| ->]]]];
  unfold dp, _decode_pyramid, decode_ref, for_range, gread.
  all: closed_to_nat.
  all: cbn [for_nat sum_edges map seq Z.eqb Pos.eqb andb Z.of_nat Pos.of_succ_nat Pos.succ].
  all: unfold vset, vget.
  all: znorm.
  all: cbv [vset vget vset_nat vconst repeat nth Z.to_nat Pos.to_nat Pos.iter_op Nat.add]; sR.
  all: list_eq.
Qed.

Lemma gread_in njmax p a : (a < njmax)%Z -> gread njmax p a = p a.
Proof. intros. unfold gread. apply Z.ltb_lt in H. rewrite H. reflexivity. Qed.

(* all rows of the contact inside the row buffer: exactly mju_decodePyramid on efc_force + efc_address *)
Lemma decode_pyramid_is_mju njmax p adr mu0 mu1 mu2 mu3 mu4 condim :
  (condim = 2 \/ condim = 3 \/ condim = 4 \/ condim = 5 \/ condim = 6)%Z ->
  (adr + 2 * (condim - 1) <= njmax)%Z ->
  dp njmax p adr [mu0; mu1; mu2; mu3; mu4] condim
  = decode_ref (fun i => p (i + adr)%Z) [mu0; mu1; mu2; mu3; mu4] condim.
Proof.
  intros Hc Hb. rewrite decode_pyramid_spec by exact Hc.
  destruct Hc as [->|[->|[->|[->| ->]]]]; unfold decode_ref.
  all: closed_to_nat.
  all: cbn [sum_edges map seq Z.eqb Pos.eqb Z.of_nat Pos.of_succ_nat Pos.succ].
  all: rewrite !gread_in by lia; reflexivity.
Qed.

(* the decoded normal force of non-negative edge forces is non-negative (C24: pyramid edges >= 0) *)
Lemma sum_edges_nonneg n e : (forall i, 0 <= e i) -> 0 <= sum_edges n e.
Proof. intros He. induction n; simpl; [lra|]. pose proof (He (Z.of_nat n)). lra. Qed.

(* ---------------- contact_force_fn ---------------- *)
Definition rot_halves (frame f : list R) : list R :=
  @vec_mat R ScalarR 3 3 (firstn 3 f) frame ++ @vec_mat R ScalarR 3 3 (skipn 3 f) frame.

Section CF.
Variables (opt_cone : Z) (frame fric : Z -> list R) (cdim : Z -> Z) (cadr : Z -> Z -> Z)
          (adh : Z -> R) (efc_force : Z -> Z -> R) (njmax : Z) (nacon : Z -> Z) (w cid : Z).
Definition CF (b : bool) := cf opt_cone frame fric cdim cadr adh efc_force njmax nacon w cid b.

(* the guard the code uses (it is `<= nacon`; the launching kernel has already excluded cid >= nacon) *)
Definition cf_valid : bool := ((cid >=? 0) && (cid <=? nacon 0) && (cadr cid 0 >=? 0))%Z.

Lemma contact_force_world_frame : CF true = rot_halves (frame cid) (CF false).
Proof. unfold CF, cf, contact_force_fn, rot_halves. reflexivity. Qed.

Lemma contact_force_invalid : cf_valid = false -> CF false = [0; 0; 0; 0; 0; 0].
Proof. unfold CF, cf, contact_force_fn, cf_valid. intros ->. sR. reflexivity. Qed.

Lemma contact_force_pyramidal :
  cf_valid = true -> opt_cone = 0%Z ->
  CF false = let f := dp njmax (efc_force w) (cadr cid 0) (fric cid) (cdim cid) in
             vset f 0 (vget f 0 - adh cid).
Proof. unfold CF, cf, contact_force_fn, cf_valid, dp. intros -> ->. sR. reflexivity. Qed.

(* elliptic: copy of the dim rows (each guarded by address < njmax), then minus adhesion *)
Definition ell_read (i : Z) : R :=
  if (i <? cdim cid)%Z && (cadr cid i <? njmax)%Z then efc_force w (cadr cid i) else 0.
Lemma contact_force_elliptic :
  cf_valid = true -> opt_cone <> 0%Z ->
  (cdim cid = 1 \/ cdim cid = 3 \/ cdim cid = 4 \/ cdim cid = 6)%Z ->
  CF false = [ell_read 0 - adh cid; ell_read 1; ell_read 2; ell_read 3; ell_read 4; ell_read 5].
Proof.
  unfold CF, cf, contact_force_fn, cf_valid, ell_read. intros -> Hc Hd.
  apply Z.eqb_neq in Hc. rewrite Hc. unfold for_range.
  destruct Hd as [-> | [-> | [-> | ->]]].
  all: closed_to_nat.
  all: cbn [for_nat Z.ltb Z.compare Pos.compare Pos.compare_cont andb].
  all: unfold vset, vget.
  all: repeat match goal with |- context [Z.to_nat ?t] => progress ring_simplify t end.
  all: repeat match goal with |- context [(if ?c then _ else _)] => destruct c end.
  all: cbv [vset_nat nth Z.to_nat Pos.to_nat Pos.iter_op Nat.add]; sR; list_eq.
Qed.
End CF.

(* v @ M  =  transpose(M) v : the world-frame option applies the transposed contact frame to both halves *)
Lemma vec_mat_is_transpose a b c m0 m1 m2 m3 m4 m5 m6 m7 m8 :
  @vec_mat R ScalarR 3 3 [a; b; c] [m0; m1; m2; m3; m4; m5; m6; m7; m8]
  = @mat_vec R ScalarR 3 3 (@mtranspose R ScalarR 3 3 [m0; m1; m2; m3; m4; m5; m6; m7; m8]) [a; b; c].
Proof.
  cbv [vec_mat mat_vec mtranspose mcol mrow vdot vdot_acc map seq flat_map app nth firstn skipn Nat.mul Nat.add]. sR.
  list_eq.
Qed.

(* ---------------- the launching kernel contact_force_kernel ---------------- *)
(* one task (request slot tid) of the translated kernel: it writes nothing when the requested id is
   >= nacon, otherwise exactly one store out[tid] = contact_force_fn(.., world of THAT CONTACT, that contact, ..):
   the world is contact_worldid[contact_ids[tid]] - not the slot's index, not the slot's world *)
From VF Require Import Base.Kernel.
From Coq Require Import String.
Lemma contact_force_kernel_task
  tid opt_cone frame fric cdim cadr cworld adh efc_force njmax nacon ids tow out orc :
  @k_contact_force_kernel R ScalarR tid opt_cone frame fric cdim cadr cworld adh efc_force njmax nacon ids tow out orc
  = if (ids tid >=? nacon 0%Z)%Z then nil
    else [mkW "out"%string [tid] KSet
            (VV (cf opt_cone frame fric cdim cadr adh efc_force njmax nacon (cworld (ids tid)) (ids tid) tow))].
Proof. unfold k_contact_force_kernel, cf. destruct (ids tid >=? nacon 0%Z)%Z; reflexivity. Qed.

(* consequence: the value stored for a slot depends on the slot only through the requested id
   (permuted / reversed / repeated request lists give the same wrench for the same contact) *)
Lemma contact_force_kernel_request_only
  tid tid' opt_cone frame fric cdim cadr cworld adh efc_force njmax nacon ids ids' tow out out' orc orc' :
  ids tid = ids' tid' ->
  map (fun w => w_val w) (@k_contact_force_kernel R ScalarR tid opt_cone frame fric cdim cadr cworld adh efc_force njmax nacon ids tow out orc)
  = map (fun w => w_val w) (@k_contact_force_kernel R ScalarR tid' opt_cone frame fric cdim cadr cworld adh efc_force njmax nacon ids' tow out' orc').
Proof. intros E. rewrite !contact_force_kernel_task, E. destruct (ids' tid' >=? nacon 0%Z)%Z; reflexivity. Qed.
