(* C31 host/device conversion: lemmas about Model/IoCopy.v and facts about the regenerated Gen/Skel_io.v. *)
From Coq Require Import ZArith String List Bool Lia Permutation.
From VF Require Import Model.IoCopy Gen.Skel_io.
Import ListNotations.
Local Open Scope Z_scope.

(* ================================================================== A. feature checks *)
Lemma zmem_In v l : zmem v l = true <-> In v l.
Proof.
  unfold zmem. rewrite existsb_exists. split.
  - intros [x [Hx He]]. apply Z.eqb_eq in He. subst. exact Hx.
  - intros H. exists v. split; [exact H | apply Z.eqb_refl].
Qed.

Lemma array_rejects_spec sup fld : array_rejects sup fld = true <-> exists v, In v fld /\ ~ In v sup.
Proof.
  unfold array_rejects. rewrite existsb_exists. split.
  - intros [v [Hv Hn]]. exists v. split; [exact Hv|]. intro Hi. apply zmem_In in Hi. rewrite Hi in Hn. discriminate.
  - intros [v [Hv Hn]]. exists v. split; [exact Hv|]. destruct (zmem v sup) eqn:E; [|reflexivity].
    apply zmem_In in E. contradiction.
Qed.

Lemma scalar_rejects_spec sup v : scalar_rejects sup v = true <-> ~ In v sup.
Proof.
  unfold scalar_rejects. destruct (zmem v sup) eqn:E; simpl; split; intros H; try discriminate; try reflexivity.
  - apply zmem_In in E. contradiction.
  - intro Hi. apply zmem_In in Hi. rewrite Hi in E. discriminate.
Qed.

Lemma flags_rejects_spec sup v : flags_rejects sup v = true <-> Z.land v (Z.lnot (flags_mask sup)) <> 0.
Proof.
  unfold flags_rejects. destruct (Z.eqb_spec (Z.land v (Z.lnot (flags_mask sup))) 0); simpl; split; intros H; try discriminate; try reflexivity; try contradiction.
  exact n.
Qed.

Definition covered_prop (rows : list reject_row) (ex : list (string * string * string)) (p : enum_pair) (n : string) (v : Z) : Prop :=
  In v (map snd (ep_mjw_vals p))
  \/ (exists r, In r rows /\ rr_mj r = ep_mj p /\ rr_mjw r = ep_mjw p /\ row_rejects (rr_kind r) (map snd (ep_mjw_vals p)) v = true)
  \/ exempt_has ex (ep_mj p) n = true.

Lemma coverage_sound pairs rows ex :
  coverage_ok pairs rows ex = true ->
  forall p, In p pairs -> forall n v, In (n, v) (ep_mj_vals p) -> covered_prop rows ex p n v.
Proof.
  unfold coverage_ok. intros H p Hp n v Hv.
  rewrite forallb_forall in H. specialize (H p Hp). rewrite forallb_forall in H. specialize (H (n, v) Hv).
  unfold value_covered in H. simpl in H. unfold covered_prop.
  apply orb_true_iff in H. destruct H as [H|H]; [|right; right; exact H].
  apply orb_true_iff in H. destruct H as [H|H].
  - left. apply zmem_In. exact H.
  - right. left. apply existsb_exists in H. destruct H as [r [Hr Hc]].
    apply andb_true_iff in Hc. destruct Hc as [Hc H3]. apply andb_true_iff in Hc. destruct Hc as [H1 H2].
    exists r. repeat split; try assumption; apply String.eqb_eq; assumption.
Qed.

(* every value of every mujoco enum that types.py mirrors is defined by MJWarp, rejected by a put_model table row, or exempt *)
Theorem feature_rejection_coverage :
  forall p, In p enum_pairs -> forall n v, In (n, v) (ep_mj_vals p) -> covered_prop reject_rows exempt p n v.
Proof. apply coverage_sound. vm_compute. reflexivity. Qed.

(* the exemptions are count sentinels or belong to enums that put_model has no table row for *)
Theorem exempt_only_unchecked_or_sentinel :
  forall e n why, In (e, n, why) exempt -> is_sentinel n = true \/ (forall r, In r reject_rows -> rr_mj r <> e).
Proof.
  assert (H : exempt_ok reject_rows exempt = true) by (vm_compute; reflexivity).
  unfold exempt_ok in H. rewrite forallb_forall in H. intros e n why Hi. specialize (H _ Hi). cbn [fst snd] in H.
  apply orb_true_iff in H. destruct H as [H|H]; [left; exact H|right].
  intros r Hr He. apply negb_true_iff in H.
  assert (X : existsb (fun r0 : reject_row => String.eqb (rr_mj r0) e) reject_rows = true).
  { apply existsb_exists. exists r. split; [exact Hr|]. apply String.eqb_eq. exact He. }
  rewrite X in H. discriminate.
Qed.

(* the enums the design names all have a row or are complete: value lists of the rows (sanity: the table is what we think) *)
Definition row_fields : list string := map rr_field reject_rows.
Theorem reject_rows_cover_named_fields :
  forallb (fun f => existsb (String.eqb f) row_fields)
    ["actuator_trntype"; "actuator_dyntype"; "actuator_gaintype"; "actuator_biastype"; "eq_type"; "geom_type"; "sensor_type";
     "wrap_type"; "opt.integrator"; "opt.cone"; "opt.solver"; "opt.disableflags"; "opt.enableflags"]%string = true.
Proof. vm_compute. reflexivity. Qed.

(* enums without a table row whose mujoco values MJWarp defines completely (joint types, camera/light modes, ...) *)
Theorem unchecked_enums_complete :
  forall p, In p enum_pairs -> In (ep_mj p) ["mjtJoint"; "mjtCamLight"; "mjtProjection"; "mjtSleepState"; "mjtConstraintState"; "mjtConstraint"]%string ->
  forall n v, In (n, v) (ep_mj_vals p) -> In v (map snd (ep_mjw_vals p)).
Proof.
  assert (H : forallb (fun p => negb (existsb (String.eqb (ep_mj p)) ["mjtJoint"; "mjtCamLight"; "mjtProjection"; "mjtSleepState"; "mjtConstraintState"; "mjtConstraint"]%string)
                                || forallb (fun nv => zmem (snd nv) (map snd (ep_mjw_vals p))) (ep_mj_vals p)) enum_pairs = true) by (vm_compute; reflexivity).
  rewrite forallb_forall in H. intros p Hp Hin n v Hv. specialize (H p Hp).
  apply orb_true_iff in H. destruct H as [H|H].
  - apply negb_true_iff in H.
    assert (X : existsb (String.eqb (ep_mj p)) ["mjtJoint"; "mjtCamLight"; "mjtProjection"; "mjtSleepState"; "mjtConstraintState"; "mjtConstraint"]%string = true).
    { apply existsb_exists. exists (ep_mj p). split; [exact Hin|apply String.eqb_refl]. }
    rewrite X in H. discriminate.
  - rewrite forallb_forall in H. specialize (H (n, v) Hv). apply zmem_In. exact H.
Qed.

(* MJWarp defines no value the mujoco enum lacks, except its own GeomType.TRIANGLE *)
Theorem mjw_enums_subset : forallb (mjw_subset [("GeomType", "TRIANGLE")]%string) enum_pairs = true.
Proof. vm_compute. reflexivity. Qed.

(* every types.Model field is either the same-named MjModel field or assigned by put_model *)
Theorem model_fields_no_absent : forallb (fun m => match mf_kind m with MAbsent => false | _ => true end) model_fields = true.
Proof. vm_compute. reflexivity. Qed.

(* ================================================================== B. list / numpy lemmas *)
Lemma zlen_app {A} (l1 l2 : list A) : zlen (l1 ++ l2) = zlen l1 + zlen l2.
Proof. unfold zlen. rewrite app_length. lia. Qed.

Lemma zlen_nonneg {A} (l : list A) : 0 <= zlen l.
Proof. unfold zlen. lia. Qed.

Lemma zrange_from_length a n : length (zrange_from a n) = n.
Proof. revert a. induction n; intros; simpl; [reflexivity|]. rewrite IHn. reflexivity. Qed.

Lemma zrange_from_app a n m : zrange_from a (n + m) = zrange_from a n ++ zrange_from (a + Z.of_nat n) m.
Proof.
  revert a. induction n; intros a; simpl.
  - f_equal. lia.
  - f_equal. rewrite IHn. f_equal. f_equal. lia.
Qed.

Lemma In_zrange_from x a n : In x (zrange_from a n) <-> a <= x < a + Z.of_nat n.
Proof.
  revert a. induction n; intros a; simpl.
  - split; [tauto|lia].
  - rewrite IHn. split; intros H; [destruct H; lia|]. destruct (Z.eq_dec a x); [left; assumption|right; lia].
Qed.

Lemma NoDup_zrange_from a n : NoDup (zrange_from a n).
Proof.
  revert a. induction n; intros a; simpl; constructor.
  - rewrite In_zrange_from. lia.
  - apply IHn.
Qed.

Lemma zlen_zrange n : 0 <= n -> zlen (zrange n) = n.
Proof. intros. unfold zlen, zrange. rewrite zrange_from_length. lia. Qed.

Lemma In_zrange x n : In x (zrange n) <-> 0 <= x < n.
Proof. unfold zrange. rewrite In_zrange_from. lia. Qed.

Lemma NoDup_app_intro {A} (l1 l2 : list A) :
  NoDup l1 -> NoDup l2 -> (forall x, In x l1 -> In x l2 -> False) -> NoDup (l1 ++ l2).
Proof.
  induction l1; intros H1 H2 Hd; simpl; [exact H2|].
  inversion H1; subst. constructor.
  - rewrite in_app_iff. intros [Hi|Hi]; [contradiction|]. apply (Hd a); [left; reflexivity|exact Hi].
  - apply IHl1; try assumption. intros x Hx1 Hx2. apply (Hd x); [right; exact Hx1|exact Hx2].
Qed.

Lemma np_take_nonneg {A} n (l : list A) : 0 <= n -> np_take n l = firstn (Z.to_nat n) l.
Proof. intros. unfold np_take. destruct (Z.ltb_spec n 0); [lia|reflexivity]. Qed.

Lemma np_take_all {A} n (l : list A) : zlen l = n -> np_take n l = l.
Proof.
  intros H. rewrite np_take_nonneg by (rewrite <- H; apply zlen_nonneg).
  apply firstn_all2. unfold zlen in H. lia.
Qed.

Lemma In_firstn_self {A} k (l : list A) x : In x (firstn k l) -> In x l.
Proof.
  revert l. induction k; intros l H; simpl in H; [contradiction|].
  destruct l; simpl in H; [contradiction|]. destruct H as [H|H]; [left; exact H|right; apply IHk; exact H].
Qed.

Lemma np_take_incl {A} n (l : list A) x : In x (np_take n l) -> In x l.
Proof. unfold np_take. destruct (n <? 0); apply In_firstn_self. Qed.

(* ================================================================== C. the efc re-indexing *)
(* index list before truncation *)
Definition idx_body (efl : Z) (bs : list (list Z)) : list Z := zrange efl ++ concat bs.

Lemma efc_idx_of_full bs efl nefc : zlen (idx_body efl bs) = nefc -> efc_idx_of bs efl nefc false = idx_body efl bs.
Proof. intros H. unfold efc_idx_of. apply np_take_all. exact H. Qed.

Lemma efc_idx_of_nocontact bs efl nefc : 0 <= nefc -> efc_idx_of bs efl nefc true = zrange nefc.
Proof. intros H. unfold efc_idx_of. apply np_take_all. apply zlen_zrange. exact H. Qed.

Lemma idx_perm_generic bs efl nefc b0 :
  0 <= efl ->
  (forall a, In a (concat bs) -> efl <= a < nefc) ->
  NoDup (concat bs) ->
  efl + zlen (concat bs) = nefc ->
  (b0 = true -> bs = []) ->
  Permutation (efc_idx_of bs efl nefc b0) (zrange nefc).
Proof.
  intros Hefl Hin Hnd Hlen Hb0.
  assert (Hn : 0 <= nefc) by (pose proof (zlen_nonneg (concat bs)); lia).
  destruct b0.
  - rewrite efc_idx_of_nocontact by exact Hn. apply Permutation_refl.
  - assert (Hl : zlen (idx_body efl bs) = nefc).
    { unfold idx_body. rewrite zlen_app, zlen_zrange by exact Hefl. exact Hlen. }
    rewrite efc_idx_of_full by exact Hl.
    apply NoDup_Permutation_bis.
    + unfold idx_body. apply NoDup_app_intro.
      * apply NoDup_zrange_from.
      * exact Hnd.
      * intros x H1 H2. apply In_zrange in H1. apply Hin in H2. lia.
    + unfold zlen in Hl. pose proof (zlen_zrange nefc Hn) as Hz. unfold zlen in Hz. lia.
    + intros x Hx. unfold idx_body in Hx. apply in_app_iff in Hx. apply In_zrange.
      pose proof (zlen_nonneg (concat bs)) as Hz.
      destruct Hx as [Hx|Hx]; [apply In_zrange in Hx; lia|apply Hin in Hx; lia].
Qed.

(* address emitted for a block: -1 when empty (repaired) else the running row count *)
Fixpoint starts_fixed (s : Z) (bs : list (list Z)) : list Z :=
  match bs with [] => [] | b :: r => (match b with [] => -1 | _ => s end) :: starts_fixed (s + zlen b) r end.

Lemma adr_fixed_starts pyr s cs : adr_fixed pyr s cs = starts_fixed s (map (block_fixed pyr) cs).
Proof. revert s. induction cs; intros s; simpl; [reflexivity|]. rewrite IHcs. reflexivity. Qed.

(* row (address_i + j) of the re-indexed output is the device row block_i[j] *)
Lemma starts_fixed_order bs : forall s pre, zlen pre = s ->
  forall i b, nth_error bs i = Some b ->
    (b = [] -> nth i (starts_fixed s bs) 0 = -1) /\
    (forall j x, nth_error b j = Some x ->
       nth_error (pre ++ concat bs) (Z.to_nat (nth i (starts_fixed s bs) 0) + j) = Some x).
Proof.
  induction bs as [|b0 bs IH]; intros s pre Hs i b Hi.
  - destruct i; discriminate.
  - destruct i as [|i]; simpl in Hi.
    + inversion Hi; subst b0. split.
      * intros ->. reflexivity.
      * intros j x Hj. simpl.
        assert (Hne : b <> []) by (intro; subst; destruct j; discriminate).
        destruct b as [|y b']; [contradiction|].
        rewrite <- Hs. unfold zlen. rewrite Nat2Z.id.
        rewrite nth_error_app2 by lia.
        replace (length pre + j - length pre)%nat with j by lia.
        rewrite nth_error_app1; [exact Hj|]. apply nth_error_Some. rewrite Hj. discriminate.
    + specialize (IH (s + zlen b0) (pre ++ b0)).
      assert (Hs' : zlen (pre ++ b0) = s + zlen b0) by (rewrite zlen_app; lia).
      specialize (IH Hs' i b Hi). simpl. rewrite app_assoc. exact IH.
Qed.

Lemma In_concat_map {A B} (f : A -> list B) l x a : In a l -> In x (f a) -> In x (concat (map f l)).
Proof. intros Ha Hx. apply in_concat. exists (f a). split; [apply in_map; exact Ha|exact Hx]. Qed.

(* ---- repaired re-indexing: permutation of [0,nefc) in MuJoCo's order, addresses = block starts, -1 for row-less contacts *)
Theorem efc_idx_fixed_perm pyr efl nefc cs :
  0 <= efl ->
  (forall a, In a (concat (map (block_fixed pyr) cs)) -> efl <= a < nefc) ->
  NoDup (concat (map (block_fixed pyr) cs)) ->
  efl + zlen (concat (map (block_fixed pyr) cs)) = nefc ->
  Permutation (efc_idx_fixed pyr efl nefc cs) (zrange nefc)
  /\ (forall k, 0 <= k < efl -> nth_error (efc_idx_fixed pyr efl nefc cs) (Z.to_nat k) = Some k)
  /\ (forall i c, nth_error cs i = Some c ->
        (block_fixed pyr c = [] -> nth i (adr_fixed pyr efl cs) 0 = -1) /\
        (forall j x, nth_error (block_fixed pyr c) j = Some x ->
           nth_error (efc_idx_fixed pyr efl nefc cs) (Z.to_nat (nth i (adr_fixed pyr efl cs) 0) + j) = Some x)).
Proof.
  intros Hefl Hin Hnd Hlen.
  assert (Hn : 0 <= nefc) by (pose proof (zlen_nonneg (concat (map (block_fixed pyr) cs))); lia).
  split; [|split].
  - unfold efc_idx_fixed. apply idx_perm_generic; try assumption. intros Hb. destruct cs; [reflexivity|discriminate].
  - intros k Hk. unfold efc_idx_fixed. destruct cs as [|c0 cs'].
    + simpl in Hlen. unfold zlen in Hlen. simpl in Hlen.
      rewrite efc_idx_of_nocontact by exact Hn. unfold zrange.
      assert (G : forall n a m, (m < n)%nat -> nth_error (zrange_from a n) m = Some (a + Z.of_nat m)).
      { induction n; intros a m Hm; [lia|]. destruct m; simpl; [f_equal; lia|]. rewrite IHn by lia. f_equal. lia. }
      rewrite G by lia. f_equal. lia.
    + rewrite efc_idx_of_full.
      2:{ unfold idx_body. rewrite zlen_app, zlen_zrange by exact Hefl. exact Hlen. }
      unfold idx_body. rewrite nth_error_app1.
      2:{ unfold zrange. rewrite zrange_from_length. lia. }
      unfold zrange.
      assert (G : forall n a m, (m < n)%nat -> nth_error (zrange_from a n) m = Some (a + Z.of_nat m)).
      { induction n; intros a m Hm; [lia|]. destruct m; simpl; [f_equal; lia|]. rewrite IHn by lia. f_equal. lia. }
      rewrite G by lia. f_equal. lia.
  - intros i c Hi. rewrite adr_fixed_starts.
    assert (Hb : nth_error (map (block_fixed pyr) cs) i = Some (block_fixed pyr c)) by (rewrite nth_error_map, Hi; reflexivity).
    destruct (starts_fixed_order (map (block_fixed pyr) cs) efl (zrange efl) (zlen_zrange efl Hefl) i _ Hb) as [H1 H2].
    split; [exact H1|]. intros j x Hj.
    unfold efc_idx_fixed. destruct cs as [|c0 cs']; [destruct i; discriminate|].
    rewrite efc_idx_of_full.
    2:{ unfold idx_body. rewrite zlen_app, zlen_zrange by exact Hefl. exact Hlen. }
    apply H2. exact Hj.
Qed.

(* ---- what /repo does coincides with the repaired version when every listed contact owns all its rows *)
Definition rows_ok (pyr : bool) (c : contact) : Prop :=
  (forall a, In a (block_old pyr c) -> 0 <= a) /\ 1 <= ndim_of pyr (c_dim c) <= zlen (c_adr c).

Lemma filter_all_true {A} (p : A -> bool) l : (forall x, In x l -> p x = true) -> filter p l = l.
Proof.
  induction l; intros H; simpl; [reflexivity|]. rewrite (H a) by (left; reflexivity).
  f_equal. apply IHl. intros x Hx. apply H. right. exact Hx.
Qed.

Lemma filter_all_false {A} (p : A -> bool) l : (forall x, In x l -> p x = false) -> filter p l = [].
Proof.
  induction l; intros H; simpl; [reflexivity|]. rewrite (H a) by (left; reflexivity).
  apply IHl. intros x Hx. apply H. right. exact Hx.
Qed.

Lemma block_old_length pyr c : 0 <= ndim_of pyr (c_dim c) <= zlen (c_adr c) -> zlen (block_old pyr c) = ndim_of pyr (c_dim c).
Proof.
  intros H. unfold block_old. rewrite np_take_nonneg by lia. unfold zlen in *.
  rewrite firstn_length_le by lia. lia.
Qed.

Lemma rows_ok_block pyr c : rows_ok pyr c -> block_fixed pyr c = block_old pyr c /\ block_old pyr c <> [] /\ zlen (block_old pyr c) = ndim_of pyr (c_dim c).
Proof.
  intros [H1 H2]. split; [|split].
  - unfold block_fixed. apply filter_all_true. intros x Hx. apply Z.leb_le. apply H1. exact Hx.
  - intro E. assert (L : zlen (block_old pyr c) = ndim_of pyr (c_dim c)) by (apply block_old_length; lia).
    rewrite E in L. cbv [zlen length Z.of_nat] in L. lia.
  - apply block_old_length. lia.
Qed.

Lemma old_eq_fixed pyr cs : Forall (rows_ok pyr) cs ->
  map (block_old pyr) cs = map (block_fixed pyr) cs /\ forall s, adr_old pyr s cs = adr_fixed pyr s cs.
Proof.
  induction 1 as [|c cs Hc Hcs [IH1 IH2]]; simpl; [split; reflexivity|].
  destruct (rows_ok_block pyr c Hc) as [E1 [E2 E3]]. split.
  - rewrite E1, IH1. reflexivity.
  - intros s. rewrite E1. destruct (block_old pyr c) eqn:Eb; [contradiction|].
    rewrite <- Eb in *. rewrite E3, IH2. reflexivity.
Qed.

Theorem efc_idx_perm pyr efl nefc cs :
  0 <= efl ->
  Forall (rows_ok pyr) cs ->
  (forall a, In a (concat (map (block_old pyr) cs)) -> efl <= a < nefc) ->
  NoDup (concat (map (block_old pyr) cs)) ->
  efl + zlen (concat (map (block_old pyr) cs)) = nefc ->
  Permutation (efc_idx_old pyr efl nefc cs) (zrange nefc)
  /\ (forall k, 0 <= k < efl -> nth_error (efc_idx_old pyr efl nefc cs) (Z.to_nat k) = Some k)
  /\ (forall i c, nth_error cs i = Some c -> forall j x, nth_error (block_old pyr c) j = Some x ->
        nth_error (efc_idx_old pyr efl nefc cs) (Z.to_nat (nth i (adr_old pyr efl cs) 0) + j) = Some x).
Proof.
  intros Hefl Hok Hin Hnd Hlen.
  destruct (old_eq_fixed pyr cs Hok) as [E1 E2].
  assert (Eidx : efc_idx_old pyr efl nefc cs = efc_idx_fixed pyr efl nefc cs) by (unfold efc_idx_old, efc_idx_fixed; rewrite E1; reflexivity).
  rewrite E1 in Hin, Hnd, Hlen.
  destruct (efc_idx_fixed_perm pyr efl nefc cs Hefl Hin Hnd Hlen) as [P [Q R]].
  rewrite Eidx, E2. split; [exact P|split; [exact Q|]].
  intros i c Hi j x Hj. destruct (R i c Hi) as [_ R2]. apply R2.
  rewrite Forall_forall in Hok. destruct (rows_ok_block pyr c (Hok c (nth_error_In _ _ Hi))) as [E _]. rewrite E. exact Hj.
Qed.

(* hypotheses are satisfiable: efl = 1, njmax = nefc = 6, one in-gap contact, one full block, one block cut by njmax *)
Example efc_idx_fixed_perm_example :
  let cs := [mkC 0 3 [-1; -1; -1; -1] 7; mkC 0 3 [1; 2; 3; 4] 8; mkC 0 3 [5; -1; -1; -1] 9] in
  (forall a, In a (concat (map (block_fixed true) cs)) -> 1 <= a < 6)
  /\ NoDup (concat (map (block_fixed true) cs))
  /\ 1 + zlen (concat (map (block_fixed true) cs)) = 6
  /\ efc_idx_fixed true 1 6 cs = [0; 1; 2; 3; 4; 5] /\ adr_fixed true 1 cs = [-1; 1; 5].
Proof.
  cbv zeta. split; [|split; [|split; [|split]]]; try (vm_compute; reflexivity).
  - intros a H. vm_compute in H. repeat (destruct H as [H|H]; [subst; lia|]). contradiction.
  - vm_compute. repeat constructor; simpl; intuition discriminate.
Qed.

Example efc_idx_perm_example :
  let cs := [mkC 0 3 [5; 6; 7; 8] 7; mkC 0 1 [1; -1; -1; -1] 8; mkC 0 3 [2; 3; 4; 9] 9] in
  Forall (rows_ok false) cs
  /\ (forall a, In a (concat (map (block_old false) cs)) -> 1 <= a < 8)
  /\ NoDup (concat (map (block_old false) cs))
  /\ 1 + zlen (concat (map (block_old false) cs)) = 8
  /\ efc_idx_old false 1 8 cs = [0; 5; 6; 7; 1; 2; 3; 4] /\ adr_old false 1 cs = [1; 4; 5].
Proof.
  cbv zeta. split; [|split; [|split; [|split; [|split]]]]; try (vm_compute; reflexivity).
  - repeat constructor; try (intros a H; vm_compute in H; repeat (destruct H as [H|H]; [subst; lia|]); contradiction);
    try (vm_compute; discriminate).
  - intros a H. vm_compute in H. repeat (destruct H as [H|H]; [subst; lia|]). contradiction.
  - vm_compute. repeat constructor; simpl; intuition discriminate.
Qed.

(* ---- refutation (F10): a row-less contact listed before an active one.
   njmax = 8, nefc = 4, device rows 10 11 12 13 0 0 0 0; MuJoCo's answer: rows 10 11 12 13, addresses -1 0 *)
Definition f10_cs : list contact := [mkC 0 3 [-1; -1; -1; -1] 7; mkC 0 3 [0; 1; 2; 3] 8].
Definition f10_dev : list Z := [10; 11; 12; 13; 0; 0; 0; 0].

Theorem efc_idx_refuted :
  exists pyr efl nefc cs (dev : list Z),
    (* the state satisfies the hypotheses of the repaired theorem *)
    (forall a, In a (concat (map (block_fixed pyr) cs)) -> efl <= a < nefc)
    /\ NoDup (concat (map (block_fixed pyr) cs))
    /\ efl + zlen (concat (map (block_fixed pyr) cs)) = nefc
    (* yet what /repo computes is not a permutation: every returned row is the LAST row of the njmax-sized buffer *)
    /\ ~ Permutation (efc_idx_old pyr efl nefc cs) (zrange nefc)
    /\ get_rows nefc (efc_idx_old pyr efl nefc cs) dev = Some [0; 0; 0; 0]
    /\ adr_old pyr efl cs = [0; 4]
    (* and the repaired re-indexing returns MuJoCo's answer *)
    /\ get_rows nefc (efc_idx_fixed pyr efl nefc cs) dev = Some [10; 11; 12; 13]
    /\ adr_fixed pyr efl cs = [-1; 0].
Proof.
  exists true, 0, 4, f10_cs, f10_dev.
  split; [|split; [|split; [|split; [|split; [|split; [|split]]]]]]; try (vm_compute; reflexivity).
  - intros a H. vm_compute in H. repeat (destruct H as [H|H]; [subst; lia|]). contradiction.
  - vm_compute. repeat constructor; simpl; intuition discriminate.
  - intro P. assert (H : In (-1) (zrange 4)).
    { eapply Permutation_in; [exact P|]. vm_compute. left. reflexivity. }
    vm_compute in H. intuition discriminate.
Qed.

(* ================================================================== D. world filter *)
Inductive subseq {A} : list A -> list A -> Prop :=
| ss_nil : subseq [] []
| ss_skip x l1 l2 : subseq l1 l2 -> subseq l1 (x :: l2)
| ss_keep x l1 l2 : subseq l1 l2 -> subseq (x :: l1) (x :: l2).

Lemma subseq_nil_l {A} (l : list A) : subseq [] l.
Proof. induction l; constructor; assumption. Qed.

Lemma subseq_filter_firstn {A} (p : A -> bool) l : forall k, subseq (filter p (firstn k l)) l.
Proof.
  induction l; intros k.
  - destruct k; simpl; constructor.
  - destruct k; simpl; [apply subseq_nil_l|]. destruct (p a); constructor; apply IHl.
Qed.

Lemma In_firstn_nth_error {A} (l : list A) k x : In x (firstn k l) <-> exists i, (i < k)%nat /\ nth_error l i = Some x.
Proof.
  revert k. induction l; intros k.
  - rewrite firstn_nil. split; [contradiction|]. intros [i [_ H]]. destruct i; discriminate.
  - destruct k; simpl.
    + split; [contradiction|]. intros [i [H _]]. lia.
    + rewrite IHl. split.
      * intros [H|[i [Hi Hn]]]; [exists 0%nat; subst; split; [lia|reflexivity]|exists (S i); split; [lia|exact Hn]].
      * intros [i [Hi Hn]]. destruct i; simpl in Hn; [left; inversion Hn; reflexivity|right; exists i; split; [lia|exact Hn]].
Qed.

(* the contacts returned for world w are exactly the slots below nacon tagged w, in buffer order *)
Theorem contact_world_filter nacon_dev naconmax w buf :
  0 <= nacon_dev -> 0 <= naconmax ->
  let out := filter_world nacon_dev naconmax w buf in
  (forall c, In c out <-> exists i, Z.of_nat i < Z.min nacon_dev naconmax /\ nth_error buf i = Some c /\ c_world c = w)
  /\ subseq out buf
  /\ out = filter (fun c => c_world c =? w) (firstn (Z.to_nat (Z.min nacon_dev naconmax)) buf).
Proof.
  intros H1 H2 out. subst out. unfold filter_world. rewrite np_take_nonneg by lia.
  split; [|split; [apply subseq_filter_firstn|reflexivity]].
  intros c. rewrite filter_In, In_firstn_nth_error, Z.eqb_eq. split.
  - intros [[i [Hi Hn]] Hw]. exists i. repeat split; try assumption. lia.
  - intros [i [Hi [Hn Hw]]]. split; [|exact Hw]. exists i. split; [lia|exact Hn].
Qed.

(* ================================================================== E. put_data then get_data_into *)
Lemma concat_tiled_length {A B} (f : nat -> B -> A) (hs : list B) a n :
  length (concat (map (fun w => map (f w) hs) (seq a n))) = (n * length hs)%nat.
Proof.
  revert a. induction n; intros a; simpl; [reflexivity|]. rewrite app_length, map_length, IHn. reflexivity.
Qed.

Lemma filter_tiled (f : nat -> hcontact -> contact) hs w :
  (forall w' h, c_world (f w' h) = Z.of_nat w') ->
  forall n a, filter (fun c => c_world c =? Z.of_nat w) (concat (map (fun w' => map (f w') hs) (seq a n)))
              = if ((a <=? w) && (w <? a + n))%nat then map (f w) hs else [].
Proof.
  intros Hw. induction n; intros a.
  - simpl. destruct ((a <=? w)%nat) eqn:E1; simpl; [|reflexivity].
    destruct (Nat.ltb_spec w (a + 0)); [|reflexivity]. apply Nat.leb_le in E1. lia.
  - simpl. rewrite filter_app, IHn.
    destruct (Nat.eq_dec a w) as [->|Hne].
    + rewrite filter_all_true.
      2:{ intros x Hx. apply in_map_iff in Hx. destruct Hx as [h [<- _]]. rewrite Hw. apply Z.eqb_refl. }
      replace ((S w <=? w)%nat) with false by (symmetry; apply Nat.leb_gt; lia). simpl.
      rewrite Nat.leb_refl. simpl. replace ((w <? w + S n)%nat) with true by (symmetry; apply Nat.ltb_lt; lia).
      apply app_nil_r.
    + rewrite filter_all_false.
      2:{ intros x Hx. apply in_map_iff in Hx. destruct Hx as [h [<- _]]. rewrite Hw. apply Z.eqb_neq. lia. }
      assert (Eb : ((S a <=? w) && (w <? S a + n) = (a <=? w) && (w <? a + S n))%nat).
      { apply eq_true_iff_eq. rewrite !andb_true_iff, !Nat.leb_le, !Nat.ltb_lt. lia. }
      rewrite Eb. reflexivity.
Qed.

(* the contacts of world w come back as put (worldid, dim, tag, address row), in MuJoCo's order *)
Theorem put_get_contacts pyr width nworld naconmax hs w :
  (w < nworld)%nat -> (nworld * length hs <= naconmax)%nat ->
  filter_world (Z.of_nat (nworld * length hs)) (Z.of_nat naconmax) (Z.of_nat w) (put_contacts pyr width nworld naconmax hs)
  = map (put_contact pyr width w) hs.
Proof.
  intros Hw Hn. unfold filter_world, put_contacts.
  rewrite Z.min_l by lia. rewrite np_take_nonneg by lia. rewrite Nat2Z.id.
  rewrite firstn_app, concat_tiled_length, Nat.sub_diag. simpl. rewrite app_nil_r.
  rewrite firstn_all2 by (rewrite concat_tiled_length; lia).
  rewrite (filter_tiled (put_contact pyr width) hs w) by reflexivity.
  simpl. replace ((w <? nworld)%nat) with true by (symmetry; apply Nat.ltb_lt; exact Hw). reflexivity.
Qed.

Lemma filter_repeat_neg n : filter (fun a => 0 <=? a) (repeat (-1) n) = [].
Proof. apply filter_all_false. intros x Hx. apply repeat_spec in Hx. subst. reflexivity. Qed.

Lemma block_fixed_put pyr width w h :
  (h_adr h = -1 \/ (0 <= h_adr h /\ 1 <= ndim_of pyr (h_dim h) <= Z.of_nat width)) ->
  block_fixed pyr (put_contact pyr width w h)
  = if h_adr h =? -1 then [] else zrange_from (h_adr h) (Z.to_nat (ndim_of pyr (h_dim h))).
Proof.
  intros H. unfold block_fixed, block_old, put_contact, put_adr_row. simpl.
  destruct (Z.eqb_spec (h_adr h) (-1)) as [E|E].
  - apply filter_all_false. intros x Hx. apply np_take_incl in Hx. apply repeat_spec in Hx. subst. reflexivity.
  - destruct H as [H|[H0 H1]]; [contradiction|].
    set (nd := Z.to_nat (ndim_of pyr (h_dim h))).
    assert (Hnd : (nd <= width)%nat) by (unfold nd; lia).
    rewrite firstn_all2 by (rewrite app_length, zrange_from_length, repeat_length; lia).
    rewrite np_take_nonneg by lia. fold nd.
    rewrite firstn_app, zrange_from_length, Nat.sub_diag. simpl. rewrite app_nil_r.
    rewrite firstn_all2 by (rewrite zrange_from_length; lia).
    apply filter_all_true. intros x Hx. apply In_zrange_from in Hx. apply Z.leb_le. lia.
Qed.

Lemma nonempty_head {A} (b : list A) (s : Z) : 1 <= zlen b -> match b with [] => -1 | _ :: _ => s end = s.
Proof. destruct b; intros H; [cbv [zlen length Z.of_nat] in H; lia|reflexivity]. Qed.

Definition h_ok (pyr : bool) (width : nat) (h : hcontact) : Prop := ndim_of pyr (h_dim h) <= Z.of_nat width.

Lemma mj_layout_blocks pyr width w : forall hs start,
  0 <= start -> mj_layout pyr start hs -> Forall (h_ok pyr width) hs ->
  concat (map (block_fixed pyr) (map (put_contact pyr width w) hs)) = zrange_from start (Z.to_nat (mj_nrows pyr hs))
  /\ adr_fixed pyr start (map (put_contact pyr width w) hs) = map h_adr hs
  /\ 0 <= mj_nrows pyr hs.
Proof.
  induction hs as [|h hs IH]; intros start Hs Hl Hok; simpl.
  - repeat split; reflexivity || lia.
  - inversion Hok as [|? ? Hh Hok']; subst. simpl in Hl. destruct Hl as [[Ha Hl]|[Ha [Hd Hl]]].
    + rewrite block_fixed_put by (left; exact Ha). rewrite Ha. simpl.
      destruct (IH start Hs Hl Hok') as [I1 [I2 I3]]. change (zlen (@nil Z)) with 0. rewrite ?Z.add_0_r. rewrite I1, I2.
      repeat split; try reflexivity. lia.
    + assert (Hne : h_adr h <> -1) by lia.
      rewrite block_fixed_put by (right; unfold h_ok in Hh; lia).
      destruct (Z.eqb_spec (h_adr h) (-1)) as [E|_]; [contradiction|].
      assert (Hs' : 0 <= start + ndim_of pyr (h_dim h)) by lia.
      destruct (IH _ Hs' Hl Hok') as [I1 [I2 I3]].
      set (nd := Z.to_nat (ndim_of pyr (h_dim h))).
      assert (Hz : zlen (zrange_from (h_adr h) nd) = ndim_of pyr (h_dim h)) by (unfold zlen; rewrite zrange_from_length; unfold nd; lia).
      rewrite (nonempty_head (zrange_from (h_adr h) nd) start) by lia.
      rewrite Hz, I1, I2. rewrite Ha.
      replace (Z.to_nat (ndim_of pyr (h_dim h) + mj_nrows pyr hs)) with (nd + Z.to_nat (mj_nrows pyr hs))%nat by (unfold nd; lia).
      rewrite zrange_from_app. replace (start + Z.of_nat nd) with (start + ndim_of pyr (h_dim h)) by (unfold nd; lia).
      repeat split; try reflexivity. lia.
Qed.

Lemma nth_error_skipn {A} (a : list A) : forall k, (k < length a)%nat -> exists x, nth_error a k = Some x /\ skipn k a = x :: skipn (S k) a.
Proof.
  induction a; intros k Hk; simpl in Hk; [lia|]. destruct k.
  - exists a. split; reflexivity.
  - destruct (IHa k) as [x [H1 H2]]; [lia|]. exists x. split; [exact H1|]. simpl. exact H2.
Qed.

Lemma np_gather_range {A} (a : list A) : forall n k, (k + n <= length a)%nat ->
  np_gather a (zrange_from (Z.of_nat k) n) = Some (firstn n (skipn k a)).
Proof.
  induction n; intros k Hk; simpl; [reflexivity|].
  destruct (nth_error_skipn a k) as [x [H1 H2]]; [lia|].
  unfold np_index, np_wrap. unfold zlen.
  replace ((0 <=? Z.of_nat k) && (Z.of_nat k <? Z.of_nat (length a))) with true
    by (symmetry; apply andb_true_iff; split; [apply Z.leb_le|apply Z.ltb_lt]; lia).
  rewrite Nat2Z.id, H1.
  replace (Z.of_nat k + 1) with (Z.of_nat (S k)) by lia. rewrite IHn by lia.
  rewrite H2. simpl. reflexivity.
Qed.

Lemma get_rows_identity {A} (zero : A) njmax (rows : list A) :
  (length rows <= njmax)%nat ->
  get_rows (zlen rows) (zrange (zlen rows)) (put_row zero njmax rows) = Some rows.
Proof.
  intros H. unfold get_rows, zrange, put_row.
  replace (Z.to_nat (zlen rows)) with (length rows) by (unfold zlen; lia).
  change 0 with (Z.of_nat 0).
  rewrite (np_gather_range _ (length rows) 0%nat) by (rewrite app_length; simpl; lia).
  simpl. rewrite firstn_app, Nat.sub_diag. simpl. rewrite app_nil_r, firstn_all.
  unfold np_assign_full. rewrite Z.eqb_refl. reflexivity.
Qed.

(* ---- the repaired get_data_into inverts put_data on MuJoCo-layout contacts and constraint rows, for every world *)
Theorem put_get_roundtrip_fixed {A} (zero : A) pyr width nworld naconmax njmax ne nf nl hs (rows : list A) w :
  (w < nworld)%nat -> (nworld * length hs <= naconmax)%nat ->
  0 <= ne + nf + nl ->
  mj_layout pyr (ne + nf + nl) hs -> Forall (h_ok pyr width) hs ->
  zlen rows = ne + nf + nl + mj_nrows pyr hs -> (length rows <= njmax)%nat ->
  let v := view_fixed pyr (Z.of_nat naconmax) (Z.of_nat njmax) (Z.of_nat (nworld * length hs)) (zlen rows) ne nf nl (Z.of_nat w)
                      (put_contacts pyr width nworld naconmax hs) in
  v_contacts v = map (put_contact pyr width w) hs
  /\ map c_dim (v_contacts v) = map h_dim hs /\ map c_tag (v_contacts v) = map h_tag hs
  /\ v_adr v = map h_adr hs
  /\ v_nefc v = zlen rows
  /\ get_rows (v_nefc v) (v_idx v) (put_row zero njmax rows) = Some rows.
Proof.
  intros Hw Hn Hefl Hl Hok Hrows Hnj v. subst v. unfold view_fixed. simpl.
  rewrite put_get_contacts by assumption.
  destruct (mj_layout_blocks pyr width w hs _ Hefl Hl Hok) as [B1 [B2 B3]].
  assert (Hmin : Z.min (zlen rows) (Z.of_nat njmax) = zlen rows) by (unfold zlen; lia). rewrite Hmin.
  split; [reflexivity|]. split; [rewrite map_map; reflexivity|]. split; [rewrite map_map; reflexivity|].
  split; [exact B2|]. split; [reflexivity|].
  assert (Hidx : efc_idx_fixed pyr (ne + nf + nl) (zlen rows) (map (put_contact pyr width w) hs) = zrange (zlen rows)).
  { unfold efc_idx_fixed. destruct hs as [|h hs'].
    - simpl. apply efc_idx_of_nocontact. apply zlen_nonneg.
    - change (match map (put_contact pyr width w) (h :: hs') with [] => true | _ :: _ => false end) with false.
      rewrite efc_idx_of_full.
      + unfold idx_body. rewrite B1. unfold zrange.
        replace (Z.to_nat (zlen rows)) with (Z.to_nat (ne + nf + nl) + Z.to_nat (mj_nrows pyr (h :: hs')))%nat by lia.
        rewrite zrange_from_app. f_equal. f_equal. lia.
      + unfold idx_body. rewrite zlen_app, zlen_zrange by exact Hefl. rewrite B1. unfold zlen at 1. rewrite zrange_from_length. lia. }
  rewrite Hidx. apply get_rows_identity. exact Hnj.
Qed.

(* what /repo does inverts put_data only when no contact is row-less ... *)
Lemma put_rows_ok pyr width w hs : Forall (h_ok pyr width) hs -> Forall (fun h => 0 <= h_adr h /\ 1 <= ndim_of pyr (h_dim h)) hs ->
  Forall (rows_ok pyr) (map (put_contact pyr width w) hs).
Proof.
  intros H1 H2. rewrite Forall_forall in *. intros c Hc. apply in_map_iff in Hc. destruct Hc as [h [<- Hh]].
  specialize (H1 h Hh). specialize (H2 h Hh). unfold h_ok in H1. destruct H2 as [H2 H3].
  assert (Hne : h_adr h <> -1) by lia.
  unfold rows_ok, block_old, put_contact, put_adr_row. simpl.
  destruct (Z.eqb_spec (h_adr h) (-1)) as [E|_]; [contradiction|].
  set (nd := Z.to_nat (ndim_of pyr (h_dim h))).
  assert (Hnd : (nd <= width)%nat) by (unfold nd; lia).
  rewrite firstn_all2 by (rewrite app_length, zrange_from_length, repeat_length; lia).
  split.
  - intros a Ha. rewrite np_take_nonneg in Ha by lia. fold nd in Ha.
    rewrite firstn_app, zrange_from_length, Nat.sub_diag in Ha. simpl in Ha. rewrite app_nil_r in Ha.
    apply In_firstn_self in Ha. apply In_zrange_from in Ha. lia.
  - unfold zlen. rewrite app_length, zrange_from_length, repeat_length. unfold nd. lia.
Qed.

Theorem put_get_roundtrip_old_partial {A} (zero : A) pyr width nworld naconmax njmax ne nf nl hs (rows : list A) w :
  (w < nworld)%nat -> (nworld * length hs <= naconmax)%nat ->
  0 <= ne + nf + nl ->
  mj_layout pyr (ne + nf + nl) hs -> Forall (h_ok pyr width) hs ->
  Forall (fun h => h_adr h <> -1) hs ->      (* no in-gap / row-less contact: the part that is missing (F10) *)
  zlen rows = ne + nf + nl + mj_nrows pyr hs -> (length rows <= njmax)%nat ->
  let v := view_old pyr (Z.of_nat naconmax) (Z.of_nat njmax) (Z.of_nat (nworld * length hs)) (zlen rows) ne nf nl (Z.of_nat w)
                    (put_contacts pyr width nworld naconmax hs) in
  v_contacts v = map (put_contact pyr width w) hs
  /\ v_adr v = map h_adr hs
  /\ get_rows (v_nefc v) (v_idx v) (put_row zero njmax rows) = Some rows.
Proof.
  intros Hw Hn Hefl Hl Hok Hact Hrows Hnj v.
  destruct (put_get_roundtrip_fixed zero pyr width nworld naconmax njmax ne nf nl hs rows w Hw Hn Hefl Hl Hok Hrows Hnj)
    as [F1 [_ [_ [F2 [F3 F4]]]]].
  subst v. unfold view_old, view_fixed in *. simpl in *.
  assert (Hrok : Forall (rows_ok pyr) (map (put_contact pyr width w) hs)).
  { apply put_rows_ok; [exact Hok|]. clear - Hl Hact Hefl. revert Hl Hefl. generalize (ne + nf + nl) as s.
    induction hs as [|h hs IH]; intros s Hl Hs; [constructor|].
    inversion Hact; subst. simpl in Hl. destruct Hl as [[Ha _]|[Ha [Hd Hl]]]; [contradiction|].
    constructor; [lia|]. apply (IH H2 (s + ndim_of pyr (h_dim h))); [exact Hl|lia]. }
  rewrite F1 in *. destruct (old_eq_fixed pyr _ Hrok) as [E1 E2].
  unfold efc_idx_old. rewrite E1, E2. fold (efc_idx_fixed pyr (ne + nf + nl) (Z.min (zlen rows) (Z.of_nat njmax)) (map (put_contact pyr width w) hs)).
  repeat split; assumption.
Qed.

(* ... and not otherwise: MuJoCo state of F10 (one in-gap contact before a penetrating one, 4 pyramid rows) *)
Theorem put_get_roundtrip_old_refuted :
  exists pyr width nworld naconmax njmax ne nf nl hs (rows : list Z) w,
    (w < nworld)%nat /\ (nworld * length hs <= naconmax)%nat /\ 0 <= ne + nf + nl
    /\ mj_layout pyr (ne + nf + nl) hs /\ Forall (h_ok pyr width) hs
    /\ zlen rows = ne + nf + nl + mj_nrows pyr hs /\ (length rows <= njmax)%nat
    /\ let v := view_old pyr (Z.of_nat naconmax) (Z.of_nat njmax) (Z.of_nat (nworld * length hs)) (zlen rows) ne nf nl (Z.of_nat w)
                         (put_contacts pyr width nworld naconmax hs) in
       v_adr v = [0; 4] /\ map h_adr hs = [-1; 0]
       /\ get_rows (v_nefc v) (v_idx v) (put_row 0 njmax rows) = Some [0; 0; 0; 0] /\ rows = [10; 11; 12; 13].
Proof.
  exists true, 4%nat, 2%nat, 6%nat, 8%nat, 0, 0, 0, [mkH 3 (-1) 7; mkH 3 0 8], [10; 11; 12; 13], 1%nat.
  repeat split; try (vm_compute; reflexivity); try (vm_compute; lia); try lia.
  - simpl. left. split; [reflexivity|]. right. split; [reflexivity|]. split; [vm_compute; discriminate|exact I].
  - repeat constructor; vm_compute; discriminate.
Qed.

(* ================================================================== F. plain per-world field copies *)
Lemma put_get_fields_generic V filled junk (d : host V) reads w old t s :
  assoc t reads = Some s -> filled s = true ->
  get_fields V reads (put_fields V filled junk d) w old t = d s.
Proof. intros H1 H2. unfold get_fields, put_fields. rewrite H1, H2. reflexivity. Qed.

(* an unfilled field that get_data_into returns carries whatever the buffer held *)
Lemma unfilled_field_is_junk V filled junk (d : host V) reads w old t s :
  assoc t reads = Some s -> filled s = false ->
  get_fields V reads (put_fields V filled junk d) w old t = junk s w.
Proof. intros H1 H2. unfold get_fields, put_fields. rewrite H1, H2. reflexivity. Qed.

(* the fields for which put_data; get_data_into is the identity by plain copies: same name on both sides, filled from the host *)
Definition roundtrip_fields : list string :=
  map fst (filter (fun ts => String.eqb (fst ts) (snd ts) && filled_from_host data_fields (snd ts)) (plain_reads get_reads)).

Theorem put_get_roundtrip_fields V junk (d : host V) w old f :
  In f roundtrip_fields ->
  get_fields V (plain_reads get_reads) (put_fields V (filled_from_host data_fields) junk d) w old f = d f.
Proof.
  assert (H : forallb (fun f => match assoc f (plain_reads get_reads) with
                                | Some s => String.eqb s f && filled_from_host data_fields s | None => false end) roundtrip_fields = true)
    by (vm_compute; reflexivity).
  rewrite forallb_forall in H. intros Hf. specialize (H f Hf).
  destruct (assoc f (plain_reads get_reads)) as [s|] eqn:E; [|discriminate].
  apply andb_true_iff in H. destruct H as [H1 H2]. apply String.eqb_eq in H1. subst s.
  apply put_get_fields_generic; assumption.
Qed.

(* how many fields that covers (so the statement above is not vacuous) and that the state vector is among them *)
Theorem roundtrip_fields_cover_state :
  forallb (fun f => existsb (String.eqb f) roundtrip_fields)
    ["qpos"; "qvel"; "act"; "ctrl"; "qacc_warmstart"; "qfrc_applied"; "xfrc_applied"; "mocap_pos"; "mocap_quat"; "time"; "eq_active";
     "qacc"; "xpos"; "xquat"; "sensordata"; "qfrc_constraint"; "actuator_force"]%string = true
  /\ (60 <= length roundtrip_fields)%nat.
Proof. split; vm_compute; [reflexivity|lia]. Qed.

(* every device field get_data_into reads is filled by put_data from the MjData (same-named field, expression over mjd, or constant):
   none is left zero / wp.empty.  Before commit b3ed252 thirteen were not (efc.state, efc.island, the island_ and map_ arrays). *)
Theorem get_reads_filled :
  forall f, In f (all_reads get_reads) ->
    exists k, kind_of data_fields f = Some k /\ (k = FHost \/ k = FExplicit \/ k = FConst).
Proof.
  assert (H : forallb (fun f => match kind_of data_fields f with Some FHost | Some FExplicit | Some FConst => true | _ => false end)
                      (all_reads get_reads) = true) by (vm_compute; reflexivity).
  rewrite forallb_forall in H. intros f Hf. specialize (H f Hf).
  destruct (kind_of data_fields f) as [k|]; [|discriminate]. exists k. split; [reflexivity|].
  destruct k; try discriminate; auto.
Qed.

Theorem unfilled_reads_empty : unfilled_reads data_fields get_reads = [].
Proof. vm_compute. reflexivity. Qed.

(* the efc re-indexing block of the CURRENT get_data_into is the repaired one (statement-level match by bin/extract_io.py) *)
Theorem current_variant_fixed : efc_idx_variant = "fixed"%string.
Proof. vm_compute. reflexivity. Qed.

(* hypotheses of put_get_roundtrip_fixed are satisfiable, on the very state that refutes the old re-indexing *)
Example put_get_roundtrip_fixed_example :
  let hs := [mkH 3 (-1) 7; mkH 3 0 8] in
  mj_layout true 0 hs /\ Forall (h_ok true 4) hs /\ zlen [10; 11; 12; 13] = 0 + mj_nrows true hs
  /\ let v := view_fixed true 6 8 4 4 0 0 0 1 (put_contacts true 4 2 6 hs) in
     v_adr v = [-1; 0] /\ map c_tag (v_contacts v) = [7; 8] /\ get_rows (v_nefc v) (v_idx v) (put_row 0 8 [10; 11; 12; 13]) = Some [10; 11; 12; 13].
Proof.
  cbv zeta. split; [|split; [|split; [|split; [|split]]]]; try (vm_compute; reflexivity).
  - simpl. left. split; [reflexivity|]. right. split; [reflexivity|]. split; [vm_compute; discriminate|exact I].
  - repeat constructor; vm_compute; discriminate.
Qed.

(* hypotheses of put_get_roundtrip_old_partial are satisfiable (two active contacts, pyramidal, one friction row before them) *)
Example put_get_roundtrip_old_partial_example :
  let hs := [mkH 3 1 7; mkH 1 5 8] in
  mj_layout true (0 + 1 + 0) hs /\ Forall (h_ok true 4) hs /\ Forall (fun h => h_adr h <> -1) hs
  /\ zlen [9; 10; 11; 12; 13; 14] = 0 + 1 + 0 + mj_nrows true hs
  /\ let v := view_old true 6 8 4 6 0 1 0 1 (put_contacts true 4 2 6 hs) in
     v_adr v = [1; 5] /\ get_rows (v_nefc v) (v_idx v) (put_row 0 8 [9; 10; 11; 12; 13; 14]) = Some [9; 10; 11; 12; 13; 14].
Proof.
  cbv zeta. split; [|split; [|split; [|split; [|split]]]]; try (vm_compute; reflexivity).
  - simpl. right. split; [reflexivity|]. split; [vm_compute; discriminate|]. right. split; [reflexivity|]. split; [vm_compute; discriminate|exact I].
  - repeat constructor; vm_compute; discriminate.
  - repeat constructor; simpl; discriminate.
Qed.
