(* Proof/Island.v -- lemmas about Model/Island.v (C28).
   A. arrays, ranges, counting     B. tree-tree adjacency (symmetric, union of row marks, order independent)
   C. flood fill = connected components, fuel and stack bound
   D. slot allocation by atomic counters under any task order (generic)
   E. island mapping: scan, dof maps   F. constraint maps   G. pipeline theorems, finite checks, examples *)
From Coq Require Import ZArith List Bool Lia ZifyBool Permutation.
From VF Require Import Model.Island.
Import ListNotations.
Local Open Scope Z_scope.


(* ================= A. arrays, ranges, counting ================= *)
Lemma upd_length : forall A (l : list A) k v, length (upd k v l) = length l.
Proof. induction l; destruct k; simpl; intros; auto. Qed.

Lemma nth_upd_same : forall A (l : list A) k v d, (k < length l)%nat -> nth k (upd k v l) d = v.
Proof. induction l; destruct k; simpl; intros; try lia; auto. apply IHl; lia. Qed.

Lemma nth_upd_other : forall A (l : list A) k k' v d, k <> k' -> nth k' (upd k v l) d = nth k' l d.
Proof. induction l; destruct k, k'; simpl; intros; try lia; auto. Qed.

Lemma setZ_length : forall l i v, length (setZ l i v) = length l.
Proof. intros; unfold setZ; destruct (i <? 0); auto using upd_length. Qed.

Lemma getZ_setZ_same : forall l i v, 0 <= i < Z.of_nat (length l) -> getZ (setZ l i v) i = v.
Proof.
  intros. unfold getZ, setZ. destruct (i <? 0) eqn:E; [lia|]. apply nth_upd_same. lia.
Qed.

Lemma getZ_setZ_other : forall l i j v, i <> j -> 0 <= j -> getZ (setZ l i v) j = getZ l j.
Proof.
  intros. unfold getZ, setZ. destruct (i <? 0) eqn:E; auto. apply nth_upd_other. lia.
Qed.

Lemma getZ_setZ : forall l i j v, 0 <= i < Z.of_nat (length l) -> 0 <= j ->
  getZ (setZ l i v) j = if i =? j then v else getZ l j.
Proof.
  intros. destruct (i =? j) eqn:E.
  - assert (i = j) by lia. subst. apply getZ_setZ_same; auto.
  - apply getZ_setZ_other; lia.
Qed.

Lemma in_zrange2 : forall lo hi x, 0 <= lo -> In x (zrange2 lo hi) <-> lo <= x < hi.
Proof.
  intros. unfold zrange2. rewrite in_map_iff. split.
  - intros [k [<- Hk]]. apply in_seq in Hk. lia.
  - intros. exists (Z.to_nat x). split; [lia|]. apply in_seq. lia.
Qed.

Lemma in_zrange : forall n x, In x (zrange n) <-> 0 <= x < n.
Proof. intros. unfold zrange. apply in_zrange2. lia. Qed.

Lemma zrange_length : forall n, length (zrange n) = Z.to_nat n.
Proof. intros. unfold zrange, zrange2. rewrite map_length, seq_length. f_equal. lia. Qed.

Lemma NoDup_zrange : forall n, NoDup (zrange n).
Proof.
  intros. unfold zrange, zrange2. apply FinFun.Injective_map_NoDup.
  - intros a b Hab. lia.
  - apply seq_NoDup.
Qed.

Lemma zrange2_cons : forall lo hi, 0 <= lo < hi -> zrange2 lo hi = lo :: zrange2 (lo + 1) hi.
Proof.
  intros. unfold zrange2.
  replace (Z.to_nat (hi - lo)) with (S (Z.to_nat (hi - (lo + 1)))) by lia.
  simpl. f_equal; [lia|]. f_equal. f_equal. lia.
Qed.

Lemma zrange2_nil : forall lo hi, hi <= lo -> zrange2 lo hi = [].
Proof. intros. unfold zrange2. replace (Z.to_nat (hi - lo)) with O by lia. reflexivity. Qed.

Lemma zrange_snoc : forall n, 0 <= n -> zrange (n + 1) = zrange n ++ [n].
Proof.
  intros. unfold zrange, zrange2. replace (Z.to_nat (n + 1 - 0)) with (S (Z.to_nat (n - 0))) by lia.
  rewrite seq_S, map_app. simpl. f_equal. f_equal. lia.
Qed.

Lemma zfill_length : forall n v, length (zfill n v) = Z.to_nat n.
Proof. intros. apply repeat_length. Qed.

Lemma nth_repeat_lt' : forall A (v d : A) m i, (i < m)%nat -> nth i (repeat v m) d = v.
Proof. induction m; destruct i; simpl; intros; try lia; auto. apply IHm; lia. Qed.

Lemma getZ_zfill : forall n v i, 0 <= i < n -> getZ (zfill n v) i = v.
Proof.
  intros. unfold getZ, zfill. apply nth_repeat_lt'. lia.
Qed.

(* counting *)
Lemma cntf_nil : forall p, cntf p [] = 0.
Proof. reflexivity. Qed.

Lemma cntf_cons : forall p x l, cntf p (x :: l) = (if p x then 1 else 0) + cntf p l.
Proof. intros. unfold cntf. cbn [filter]. destruct (p x); cbn [length]; lia. Qed.

Lemma cntf_app : forall p l1 l2, cntf p (l1 ++ l2) = cntf p l1 + cntf p l2.
Proof. intros. unfold cntf. rewrite filter_app, app_length. lia. Qed.

Lemma cntf_nonneg : forall p l, 0 <= cntf p l.
Proof. intros. unfold cntf. lia. Qed.

Lemma cntf_le_length : forall p l, cntf p l <= Z.of_nat (length l).
Proof.
  induction l; [unfold cntf; simpl; lia|]. rewrite cntf_cons. cbn [length]. destruct (p a); lia.
Qed.

Lemma cntf_perm : forall p l1 l2, Permutation l1 l2 -> cntf p l1 = cntf p l2.
Proof.
  intros p l1 l2 H. induction H; rewrite ?cntf_cons, ?cntf_nil in *; try lia.
Qed.

Lemma cntf_ext : forall p q l, (forall x, In x l -> p x = q x) -> cntf p l = cntf q l.
Proof.
  induction l; intros; auto. rewrite !cntf_cons, IHl, (H a); simpl; auto. intros; apply H; simpl; auto.
Qed.

Lemma cntf_split : forall p q r l,
  (forall x, In x l -> p x = q x || r x) -> (forall x, In x l -> q x && r x = false) ->
  cntf p l = cntf q l + cntf r l.
Proof.
  induction l; intros Hp Hd; auto. rewrite !cntf_cons, IHl.
  - pose proof (Hp a (or_introl eq_refl)). pose proof (Hd a (or_introl eq_refl)).
    destruct (p a), (q a), (r a); simpl in H, H0; try congruence; lia.
  - intros; apply Hp; simpl; auto.
  - intros; apply Hd; simpl; auto.
Qed.

Lemma cntf_mono : forall p q l, (forall x, In x l -> p x = true -> q x = true) -> cntf p l <= cntf q l.
Proof.
  induction l; intros; [unfold cntf; simpl; lia|]. rewrite !cntf_cons.
  assert (cntf p l <= cntf q l) by (apply IHl; intros; apply H; simpl; auto).
  pose proof (H a (or_introl eq_refl)). destruct (p a), (q a); try lia; specialize (H1 eq_refl); congruence.
Qed.

Lemma cntf_pos_in : forall p l, 0 < cntf p l -> exists x, In x l /\ p x = true.
Proof.
  induction l; intros H; [unfold cntf in H; simpl in H; lia|].
  rewrite cntf_cons in H. destruct (p a) eqn:E.
  - exists a; simpl; auto.
  - destruct IHl as [x [Hx Hp]]; [lia|]. exists x; simpl; auto.
Qed.

Lemma cntf_in_pos : forall p l x, In x l -> p x = true -> 0 < cntf p l.
Proof.
  induction l; intros x Hin Hp; [destruct Hin|]. destruct Hin as [->|Hin]; rewrite cntf_cons.
  - rewrite Hp. pose proof (cntf_nonneg p l). lia.
  - pose proof (IHl x Hin Hp). destruct (p a); lia.
Qed.

Lemma cntf_all : forall p l, (forall x, In x l -> p x = true) -> cntf p l = Z.of_nat (length l).
Proof.
  induction l; intros; auto. rewrite cntf_cons.
  rewrite IHl by (intros; apply H; simpl; auto). rewrite (H a) by (simpl; auto).
  cbn [length]. lia.
Qed.

(* fold over a flat_map *)
Lemma fold_left_flat_map : forall A B C (f : A -> C -> A) (g : B -> list C) l a,
  fold_left f (flat_map g l) a = fold_left (fun a b => fold_left f (g b) a) l a.
Proof. induction l; simpl; intros; auto. rewrite fold_left_app. apply IHl. Qed.

(* injective maps of a finite range onto itself are surjective *)
Lemma pigeon_surj : forall (f : Z -> Z) (dom : list Z) (M : Z),
  NoDup dom -> Z.of_nat (length dom) = M ->
  (forall x, In x dom -> 0 <= f x < M) ->
  (forall x y, In x dom -> In y dom -> f x = f y -> x = y) ->
  forall s, 0 <= s < M -> exists x, In x dom /\ f x = s.
Proof.
  intros f dom M Hnd Hlen Hrange Hinj s Hs.
  assert (Hnd' : NoDup (map f dom)).
  { clear Hlen Hrange. induction dom; simpl; constructor.
    - intros Hin. apply in_map_iff in Hin. destruct Hin as [y [Hy Hin]].
      inversion Hnd; subst. apply H1. replace a with y; auto. apply Hinj; simpl; auto.
    - inversion Hnd; subst. apply IHdom; auto. intros; apply Hinj; simpl; auto. }
  assert (Hincl : incl (map f dom) (zrange M)).
  { intros y Hy. apply in_map_iff in Hy. destruct Hy as [x [<- Hx]]. apply in_zrange. auto. }
  assert (Hincl' : incl (zrange M) (map f dom)).
  { apply NoDup_length_incl; auto. rewrite map_length, zrange_length. lia. }
  assert (In s (map f dom)) by (apply Hincl', in_zrange; auto).
  apply in_map_iff in H. destruct H as [x [Hx Hin]]. exists x; auto.
Qed.


(* ================= B. tree-tree adjacency ================= *)
Lemma upd_oob : forall A (l : list A) k v, (length l <= k)%nat -> upd k v l = l.
Proof. induction l; destruct k; simpl; intros; try lia; auto. f_equal. apply IHl. lia. Qed.

Lemma Forall_upd : forall A (P : A -> Prop) l k v, Forall P l -> P v -> Forall P (upd k v l).
Proof.
  induction l; destruct k; simpl; intros; auto; inversion H; subst; constructor; auto.
Qed.

Lemma square_row : forall n m i, square n m -> 0 <= i < n -> length (mrow m i) = Z.to_nat n.
Proof.
  intros n m i [Hl Hf] Hi. unfold mrow. rewrite Forall_forall in Hf. apply Hf. apply nth_In. lia.
Qed.

Lemma square_set2 : forall n m i j v, square n m -> square n (set2 m i j v).
Proof.
  intros n m i j v [Hl Hf]. unfold set2. destruct (i <? 0) eqn:E; [split; auto|].
  destruct (Nat.lt_ge_cases (Z.to_nat i) (length m)) as [Hlt|Hge].
  - split; [rewrite upd_length; auto|]. apply Forall_upd; auto.
    rewrite setZ_length. apply (square_row n m i); [split; auto|lia].
  - rewrite upd_oob by lia. split; auto.
Qed.

Lemma get2_set2 : forall n m i j v a b, square n m -> 0 <= a < n -> 0 <= b < n ->
  get2 (set2 m i j v) a b = if (i =? a) && (j =? b) then v else get2 m a b.
Proof.
  intros n m i j v a b Hsq Ha Hb. pose proof Hsq as [Hl Hf].
  unfold set2. destruct (i <? 0) eqn:E.
  - replace (i =? a) with false by lia. reflexivity.
  - unfold get2 at 1. unfold mrow at 1. destruct (i =? a) eqn:Eia.
    + assert (i = a) by lia. subst i. rewrite nth_upd_same by lia.
      simpl. destruct (j =? b) eqn:Ejb.
      * assert (j = b) by lia. subst j. apply getZ_setZ_same.
        rewrite (square_row n m a); auto. lia.
      * apply getZ_setZ_other; lia.
    + rewrite nth_upd_other by lia. reflexivity.
Qed.

Lemma square_mark : forall n tt p, square n tt -> square n (mark tt p).
Proof. intros. apply square_set2; auto. Qed.

Definition pmatch (a b : Z) (p : Z * Z) : bool := (fst p =? a) && (snd p =? b).

Lemma get2_mark : forall n tt p a b, square n tt -> 0 <= a < n -> 0 <= b < n ->
  get2 (mark tt p) a b = if pmatch a b p then Z.max (get2 tt a b) 1 else get2 tt a b.
Proof.
  intros. unfold mark. rewrite (get2_set2 n); auto. unfold pmatch.
  destruct ((fst p =? a) && (snd p =? b)) eqn:E; auto.
  assert (fst p = a /\ snd p = b) as [-> ->] by lia. reflexivity.
Qed.

Lemma square_fold_mark : forall n ps tt, square n tt -> square n (fold_left mark ps tt).
Proof. induction ps; simpl; intros; auto. apply IHps, square_mark; auto. Qed.

Lemma get2_fold_mark : forall n ps tt a b, square n tt -> 0 <= a < n -> 0 <= b < n ->
  get2 (fold_left mark ps tt) a b =
  if existsb (pmatch a b) ps then Z.max (get2 tt a b) 1 else get2 tt a b.
Proof.
  induction ps; simpl; intros tt a0 b Hsq Ha Hb; auto.
  rewrite IHps; auto using square_mark. rewrite (get2_mark n); auto.
  destruct (pmatch a0 b a); simpl; destruct (existsb (pmatch a0 b) ps); lia.
Qed.

Lemma square_zeros2 : forall n, square n (zeros2 n).
Proof.
  intros. unfold zeros2. split; [apply repeat_length|].
  apply Forall_forall. intros r Hr. apply repeat_spec in Hr. subst. apply zfill_length.
Qed.

Lemma get2_zeros2 : forall n a b, get2 (zeros2 n) a b = 0.
Proof.
  intros. unfold get2, mrow, zeros2.
  destruct (Nat.lt_ge_cases (Z.to_nat a) (Z.to_nat n)).
  - rewrite nth_repeat_lt' by auto. unfold getZ, zfill.
    destruct (Nat.lt_ge_cases (Z.to_nat b) (Z.to_nat n)).
    + apply nth_repeat_lt'; auto.
    + apply nth_overflow. rewrite repeat_length. lia.
  - rewrite nth_overflow by (rewrite repeat_length; lia). unfold getZ. destruct (Z.to_nat b); reflexivity.
Qed.

Definition all_marks (m : EModel) (d : EData) (sched : list Z) : list (Z * Z) := flat_map (row_marks m d) sched.

Lemma tree_edges_as_marks : forall m d n sched,
  tree_edges m d n sched = fold_left mark (all_marks m d sched) (zeros2 n).
Proof. intros. unfold tree_edges, all_marks, tree_edges_task. symmetry. apply fold_left_flat_map. Qed.

Lemma square_tree_edges : forall m d n sched, square n (tree_edges m d n sched).
Proof. intros. rewrite tree_edges_as_marks. apply square_fold_mark, square_zeros2. Qed.

Lemma tree_edges_get2 : forall m d n sched a b, 0 <= a < n -> 0 <= b < n ->
  get2 (tree_edges m d n sched) a b = if existsb (pmatch a b) (all_marks m d sched) then 1 else 0.
Proof.
  intros. rewrite tree_edges_as_marks, (get2_fold_mark n); auto using square_zeros2.
  rewrite get2_zeros2. reflexivity.
Qed.

Lemma existsb_pmatch : forall a b ps, existsb (pmatch a b) ps = true <-> In (a, b) ps.
Proof.
  intros. rewrite existsb_exists. split.
  - intros [[x y] [Hin Hm]]. unfold pmatch in Hm. simpl in Hm.
    assert (x = a /\ y = b) as [-> ->] by lia. auto.
  - intros. exists (a, b). split; auto. unfold pmatch. simpl. lia.
Qed.

(* the adjacency is exactly the union of the cells marked by the rows, whatever the task order *)
Lemma tree_edges_edge_iff : forall m d n sched a b, inr n a -> inr n b ->
  (edge (tree_edges m d n sched) a b <-> exists e, In e sched /\ In (a, b) (row_marks m d e)).
Proof.
  intros m d n sched a b Ha Hb. unfold edge. rewrite tree_edges_get2 by assumption.
  destruct (existsb (pmatch a b) (all_marks m d sched)) eqn:E.
  - apply existsb_pmatch in E. unfold all_marks in E. apply in_flat_map in E.
    split; auto. intros; lia.
  - split; [lia|]. intros [e [He Hin]]. exfalso.
    assert (existsb (pmatch a b) (all_marks m d sched) = true).
    { apply existsb_pmatch. unfold all_marks. apply in_flat_map. eauto. }
    congruence.
Qed.

Lemma tree_edges_01 : forall m d n sched a b, inr n a -> inr n b ->
  get2 (tree_edges m d n sched) a b = 0 \/ get2 (tree_edges m d n sched) a b = 1.
Proof.
  intros. rewrite tree_edges_get2 by assumption. destruct (existsb _ _); auto.
Qed.

(* each row marks a symmetric set of cells *)
Definition symset (ms : list (Z * Z)) : Prop := forall a b, In (a, b) ms -> In (b, a) ms.

Lemma symset_app : forall l1 l2, symset l1 -> symset l2 -> symset (l1 ++ l2).
Proof.
  intros l1 l2 H1 H2 a b Hin. apply in_app_iff in Hin. apply in_app_iff.
  destruct Hin; [left; apply H1|right; apply H2]; auto.
Qed.

Lemma symset_pair : forall x y, symset [(x, y); (y, x)].
Proof. intros x y a b Hin. simpl in *. intuition congruence. Qed.

Lemma symset_self : forall x, symset [(x, x)].
Proof. intros x a b Hin. simpl in *. intuition congruence. Qed.

Lemma symset_nil : symset [].
Proof. intros a b []. Qed.

Lemma pair_marks_sym : forall t0 t1, symset (pair_marks t0 t1).
Proof.
  intros. unfold pair_marks.
  destruct (0 <=? (if (t0 <? 0) && (0 <=? t1) then t1 else t0)); [|apply symset_nil].
  destruct (_ || _); [apply symset_self|apply symset_pair].
Qed.

Lemma generic_fold_sym : forall trees st, symset (snd st) -> symset (snd (fold_left generic_step trees st)).
Proof.
  induction trees; simpl; intros st H; auto. apply IHtrees.
  destruct st as [[first cross] ms]. unfold generic_step.
  destruct (a <? 0); auto. destruct (first =? -1); auto.
  destruct (negb (a =? first)); auto. simpl. apply symset_app; auto using symset_pair.
Qed.

Lemma generic_marks_sym : forall trees, symset (generic_marks trees).
Proof.
  intros. unfold generic_marks.
  pose proof (generic_fold_sym trees (-1, false, []) symset_nil) as H.
  destruct (fold_left generic_step trees (-1, false, [])) as [[first cross] ms]. simpl in H.
  destruct (_ && _); auto. apply symset_app; auto using symset_self.
Qed.

Lemma row_marks_sym : forall m d e, symset (row_marks m d e).
Proof.
  intros. unfold row_marks. destruct (efc_active d e); [|apply symset_nil].
  destruct (row_kind m d e); auto using pair_marks_sym, generic_marks_sym.
Qed.

Theorem adj_symmetric : forall m d n sched a b, inr n a -> inr n b ->
  get2 (tree_edges m d n sched) a b = get2 (tree_edges m d n sched) b a.
Proof.
  intros. rewrite !tree_edges_get2 by assumption.
  destruct (existsb (pmatch a b) _) eqn:E1, (existsb (pmatch b a) _) eqn:E2; auto; exfalso.
  - apply existsb_pmatch in E1. unfold all_marks in E1. apply in_flat_map in E1. destruct E1 as [e [He Hin]].
    apply row_marks_sym in Hin.
    assert (existsb (pmatch b a) (all_marks m d sched) = true)
      by (apply existsb_pmatch, in_flat_map; eauto). congruence.
  - apply existsb_pmatch in E2. unfold all_marks in E2. apply in_flat_map in E2. destruct E2 as [e [He Hin]].
    apply row_marks_sym in Hin.
    assert (existsb (pmatch a b) (all_marks m d sched) = true)
      by (apply existsb_pmatch, in_flat_map; eauto). congruence.
Qed.

Lemma tree_edges_sym_adj : forall m d n sched, sym_adj n (tree_edges m d n sched).
Proof. intros m d n sched a b Ha Hb. unfold edge. rewrite (adj_symmetric m d n sched a b); auto. Qed.

(* two square matrices with the same cells are the same list *)
Lemma square_ext : forall n m1 m2, square n m1 -> square n m2 ->
  (forall a b, inr n a -> inr n b -> get2 m1 a b = get2 m2 a b) -> m1 = m2.
Proof.
  intros n m1 m2 [L1 F1] [L2 F2] H.
  apply (nth_ext _ _ [] []); [lia|]. intros i Hi.
  rewrite Forall_forall in F1, F2.
  assert (R1 : length (nth i m1 []) = Z.to_nat n) by (apply F1, nth_In; lia).
  assert (R2 : length (nth i m2 []) = Z.to_nat n) by (apply F2, nth_In; lia).
  apply (nth_ext _ _ 0 0); [lia|]. intros j Hj.
  specialize (H (Z.of_nat i) (Z.of_nat j)). unfold get2, mrow, getZ in H.
  rewrite !Nat2Z.id in H. apply H; unfold inr; lia.
Qed.

(* atomic_max marks commute: the launch result does not depend on the order of its tasks *)
Theorem tree_edges_order_independent : forall m d n s1 s2, Permutation s1 s2 ->
  tree_edges m d n s1 = tree_edges m d n s2.
Proof.
  intros. apply (square_ext n); auto using square_tree_edges.
  intros a b Ha Hb. rewrite !tree_edges_get2 by assumption.
  assert (Hiff : In (a, b) (all_marks m d s1) <-> In (a, b) (all_marks m d s2)).
  { unfold all_marks. rewrite !in_flat_map. split; intros [e [He Hin]]; exists e; split; auto.
    - eapply Permutation_in; eauto.
    - eapply Permutation_in; [apply Permutation_sym|]; eauto. }
  destruct (existsb (pmatch a b) (all_marks m d s1)) eqn:E1, (existsb (pmatch a b) (all_marks m d s2)) eqn:E2; auto; exfalso.
  - apply existsb_pmatch, Hiff, existsb_pmatch in E1. congruence.
  - apply existsb_pmatch, Hiff, existsb_pmatch in E2. congruence.
Qed.

(* _compute_efc_tree picks a tree that the same row marks in tree_tree *)
Lemma generic_step_eq : forall first cross ms a,
  generic_step (first, cross, ms) a =
  if a <? 0 then (first, cross, ms)
  else if first =? -1 then (a, cross, ms)
  else if negb (a =? first) then
    (first, true, ms ++ [(Z.min first a, Z.max first a); (Z.max first a, Z.min first a)])
  else (first, cross, ms).
Proof. reflexivity. Qed.

Lemma generic_fold_first : forall trees first cross ms,
  (first = -1 -> cross = false) -> (first = -1 \/ 0 <= first) ->
  (cross = true -> exists j, In (first, j) ms) ->
  fst (fst (fold_left generic_step trees (first, cross, ms))) = (if first =? -1 then first_nonneg trees else first) /\
  (fst (fst (fold_left generic_step trees (first, cross, ms))) = -1 -> snd (fst (fold_left generic_step trees (first, cross, ms))) = false) /\
  (snd (fst (fold_left generic_step trees (first, cross, ms))) = true ->
   exists j, In (fst (fst (fold_left generic_step trees (first, cross, ms))), j) (snd (fold_left generic_step trees (first, cross, ms)))).
Proof.
  induction trees; intros first cross ms H1 H2 H3.
  - simpl. repeat split; auto. destruct (first =? -1) eqn:E; lia.
  - cbn [fold_left]. rewrite generic_step_eq.
    destruct (a <? 0) eqn:Ea.
    + destruct (IHtrees first cross ms H1 H2 H3) as [I1 [I2 I3]]. repeat split; auto.
      rewrite I1. simpl. replace (0 <=? a) with false by lia. reflexivity.
    + destruct (first =? -1) eqn:Ef.
      * assert (cross = false) by (apply H1; lia). subst cross.
        assert (G1 : a = -1 -> false = false) by auto.
        assert (G2 : a = -1 \/ 0 <= a) by lia.
        assert (G3 : false = true -> exists j, In (a, j) ms) by congruence.
        destruct (IHtrees a false ms G1 G2 G3) as [I1 [I2 I3]].
        repeat split; auto. rewrite I1. simpl. replace (0 <=? a) with true by lia.
        replace (a =? -1) with false by lia. reflexivity.
      * destruct (negb (a =? first)) eqn:Eaf.
        -- assert (G1 : first = -1 -> true = false) by lia.
           assert (G3 : true = true -> exists j, In (first, j) (ms ++ [(Z.min first a, Z.max first a); (Z.max first a, Z.min first a)])).
           { intros _. destruct (Z.le_ge_cases first a).
             - exists (Z.max first a). apply in_app_iff. right. left. f_equal. lia.
             - exists (Z.min first a). apply in_app_iff. right. right. left. f_equal. lia. }
           destruct (IHtrees first true _ G1 H2 G3) as [I1 [I2 I3]].
           repeat split; auto. rewrite I1, Ef. reflexivity.
        -- destruct (IHtrees first cross ms H1 H2 H3) as [I1 [I2 I3]]. repeat split; auto.
           rewrite I1, Ef. reflexivity.
Qed.

Lemma generic_marks_first : forall trees t, first_nonneg trees = t -> 0 <= t ->
  exists j, In (t, j) (generic_marks trees).
Proof.
  intros trees t Ht Hge. unfold generic_marks.
  destruct (generic_fold_first trees (-1) false []) as [I1 [I2 I3]]; auto; [congruence|].
  destruct (fold_left generic_step trees (-1, false, [])) as [[first cross] ms]. simpl in *.
  subst. destruct cross.
  - replace ((0 <=? first_nonneg trees) && negb true) with false by lia. apply I3; auto.
  - replace ((0 <=? first_nonneg trees) && negb false) with true by lia.
    exists (first_nonneg trees). apply in_app_iff. right. left. reflexivity.
Qed.

Lemma pair_marks_first : forall t0 t1 t, (if 0 <=? t0 then t0 else t1) = t -> 0 <= t ->
  exists j, In (t, j) (pair_marks t0 t1).
Proof.
  intros t0 t1 t Ht Hge. unfold pair_marks.
  destruct (0 <=? t0) eqn:E0.
  - subst t. replace ((t0 <? 0) && (0 <=? t1)) with false by lia. rewrite E0.
    destruct ((t1 <? 0) || (t0 =? t1)) eqn:E1.
    + exists t0. left. reflexivity.
    + destruct (Z.le_ge_cases t0 t1).
      * exists (Z.max t0 t1). left. f_equal. lia.
      * exists (Z.min t0 t1). right. left. f_equal. lia.
  - subst t. replace ((t0 <? 0) && (0 <=? t1)) with true by lia.
    replace (0 <=? t1) with true by lia. simpl. exists t1. left. reflexivity.
Qed.

Lemma efc_tree_marked : forall m d e t, efc_active d e = true -> efc_tree_of m d e = t -> 0 <= t ->
  exists j, In (t, j) (row_marks m d e).
Proof.
  intros m d e t Hact Ht Hge. unfold row_marks. rewrite Hact. unfold efc_tree_of in Ht.
  destruct (row_kind m d e).
  - apply pair_marks_first; auto.
  - apply pair_marks_first; auto. subst. replace (0 <=? t) with true by lia. reflexivity.
  - apply generic_marks_first; auto.
Qed.


(* ================= C. flood fill ================= *)
Definition U (l : list Z) : Z := cntf (fun x => x =? -1) l.

Lemma U_nonneg : forall l, 0 <= U l.
Proof. intros; apply cntf_nonneg. Qed.

Lemma U_le_length : forall l, U l <= Z.of_nat (length l).
Proof. intros; apply cntf_le_length. Qed.

Lemma U_upd : forall l i k, (i < length l)%nat -> nth i l 0 = -1 -> k <> -1 ->
  U (upd i k l) = U l - 1.
Proof.
  induction l; intros i k Hi Hn Hk; [simpl in Hi; lia|].
  destruct i.
  - cbn [nth] in Hn. subst a. cbn [upd]. unfold U. rewrite !cntf_cons.
    replace (k =? -1) with false by lia. replace (-1 =? -1) with true by reflexivity. lia.
  - cbn [nth] in Hn. cbn [upd]. cbn [length] in Hi. unfold U in *. rewrite !cntf_cons.
    rewrite IHl; auto; lia.
Qed.

Lemma U_setZ : forall l v k, 0 <= v < Z.of_nat (length l) -> getZ l v = -1 -> k <> -1 ->
  U (setZ l v k) = U l - 1.
Proof.
  intros. unfold setZ. replace (v <? 0) with false by lia. apply U_upd; auto. lia.
Qed.

Lemma U_pos : forall l v, 0 <= v < Z.of_nat (length l) -> getZ l v = -1 -> 1 <= U l.
Proof.
  intros. unfold U. assert (0 < cntf (fun x => x =? -1) l); [|lia].
  apply (cntf_in_pos _ _ (getZ l v)); [|lia]. unfold getZ. apply nth_In. lia.
Qed.

Lemma zsum_map_update : forall (f g : Z -> Z) l v, NoDup l -> In v l ->
  (forall x, In x l -> x <> v -> g x = f x) ->
  zsum (map g l) = zsum (map f l) - f v + g v.
Proof.
  induction l as [|a l IH]; intros v Hnd Hin Heq; [destruct Hin|].
  inversion Hnd; subst. cbn [map zsum fold_right]. fold (zsum (map g l)). fold (zsum (map f l)).
  destruct Hin as [->|Hin].
  - assert (zsum (map g l) = zsum (map f l)); [|lia].
    clear IH Hnd. assert (Hx : forall x, In x l -> g x = f x).
    { intros x Hx. apply Heq; [right; auto|]. intros ->. auto. }
    clear Heq H1 H2. induction l; auto. cbn [map zsum fold_right]. fold (zsum (map g l)). fold (zsum (map f l)).
    rewrite IHl, (Hx a) by (intros; try apply Hx; simpl; auto). reflexivity.
  - rewrite (IH v) by (auto; intros; apply Heq; simpl; auto).
    rewrite (Heq a); [lia|left; auto|]. intros ->. auto.
Qed.

Lemma zsum_map_le : forall (f g : Z -> Z) l, (forall x, In x l -> f x <= g x) -> zsum (map f l) <= zsum (map g l).
Proof.
  induction l; intros H; cbn [map zsum fold_right]; [lia|]. fold (zsum (map g l)). fold (zsum (map f l)).
  pose proof (H a (or_introl eq_refl)). assert (zsum (map f l) <= zsum (map g l)) by (apply IHl; intros; apply H; simpl; auto). lia.
Qed.

Lemma zsum_map_nonneg : forall (f : Z -> Z) l, (forall x, In x l -> 0 <= f x) -> 0 <= zsum (map f l).
Proof.
  induction l; intros H; cbn [map zsum fold_right]; [lia|]. fold (zsum (map f l)).
  pose proof (H a (or_introl eq_refl)). assert (0 <= zsum (map f l)) by (apply IHl; intros; apply H; simpl; auto). lia.
Qed.

Lemma zsum_map_ge_term : forall (f : Z -> Z) l v, (forall x, In x l -> 0 <= f x) -> In v l -> f v <= zsum (map f l).
Proof.
  induction l; intros v H Hin; [destruct Hin|]. cbn [map zsum fold_right]. fold (zsum (map f l)).
  pose proof (H a (or_introl eq_refl)).
  assert (0 <= zsum (map f l)) by (apply zsum_map_nonneg; intros; apply H; simpl; auto).
  destruct Hin as [->|Hin]; [lia|]. assert (f v <= zsum (map f l)) by (apply IHl; auto; intros; apply H; simpl; auto). lia.
Qed.

Lemma cntf_eq_one : forall l v, NoDup l -> In v l -> cntf (fun w => w =? v) l = 1.
Proof.
  induction l; intros v Hnd Hin; [destruct Hin|]. inversion Hnd; subst. rewrite cntf_cons.
  destruct Hin as [->|Hin].
  - replace (v =? v) with true by lia. assert (cntf (fun w => w =? v) l = 0); [|lia].
    destruct (Z_le_gt_dec (cntf (fun w => w =? v) l) 0) as [Hle|Hgt]; [pose proof (cntf_nonneg (fun w => w =? v) l); lia|].
    assert (Hpos : 0 < cntf (fun w => w =? v) l) by lia.
    destruct (cntf_pos_in _ _ Hpos) as [x [Hx Hxv]]. assert (x = v) by lia. subst. contradiction.
  - rewrite IHl by auto. replace (a =? v) with false; [lia|]. assert (a <> v) by (intros ->; auto). lia.
Qed.

Section FloodFill.
Variable n : Z.
Variable adj : list (list Z).
Hypothesis Hn : 0 < n.
Hypothesis Hsym : sym_adj n adj.
(* Lc: number of ints in the scratch stack; it must hold 1 + (directed off-diagonal edges) *)
Variable Lc : nat.
Hypothesis HLc : 1 + nnz_off n adj <= Z.of_nat Lc.

Definition pot (l : list Z) : Z :=
  zsum (map (fun v => if getZ l v =? -1 then row_deg n adj v else 0) (zrange n)).

Lemma row_deg_nonneg : forall v, 0 <= row_deg n adj v.
Proof. intros. apply cntf_nonneg. Qed.

Lemma pot_le_nnz : forall l, pot l <= nnz_off n adj.
Proof.
  intros. unfold pot, nnz_off. apply zsum_map_le. intros x _. pose proof (row_deg_nonneg x).
  destruct (getZ l x =? -1); lia.
Qed.

Lemma pot_ge : forall l v, inr n v -> getZ l v = -1 -> row_deg n adj v <= pot l.
Proof.
  intros l v Hv Hl. unfold pot.
  pose proof (zsum_map_ge_term (fun v => if getZ l v =? -1 then row_deg n adj v else 0) (zrange n) v) as H.
  cbv beta in H. rewrite Hl in H. replace (-1 =? -1) with true in H by reflexivity. apply H.
  - intros x _. pose proof (row_deg_nonneg x). destruct (getZ l x =? -1); lia.
  - apply in_zrange; auto.
Qed.

Lemma pot_setZ : forall l v k, length l = Z.to_nat n -> inr n v -> getZ l v = -1 -> k <> -1 ->
  pot (setZ l v k) = pot l - row_deg n adj v.
Proof.
  intros l v k Hlen Hv Hl Hk. unfold pot.
  rewrite (zsum_map_update (fun x => if getZ l x =? -1 then row_deg n adj x else 0)
             (fun x => if getZ (setZ l v k) x =? -1 then row_deg n adj x else 0) (zrange n) v).
  - cbv beta. rewrite Hl. rewrite getZ_setZ_same by (unfold inr in Hv; lia).
    replace (-1 =? -1) with true by reflexivity. replace (k =? -1) with false by lia. lia.
  - apply NoDup_zrange.
  - apply in_zrange; auto.
  - intros x Hx Hne. apply in_zrange in Hx. rewrite getZ_setZ_other by lia. reflexivity.
Qed.

(* the test of the neighbour loop *)
Definition pc (v : Z) (labs : list Z) (nb : Z) : bool := negb (get2 adj v nb =? 0) && (getZ labs nb =? -1).

Lemma pc_le_deg : forall v labs, inr n v -> getZ labs v <> -1 -> cntf (pc v labs) (zrange n) <= row_deg n adj v.
Proof.
  intros v labs Hv Hl. unfold row_deg. apply cntf_mono. intros x _ Hp. unfold pc in Hp.
  destruct (x =? v) eqn:E; [assert (x = v) by lia; subst; lia|lia].
Qed.

Lemma conn_inr : forall a b, conn n adj a b -> inr n a /\ inr n b.
Proof. induction 1; intuition. Qed.

Lemma conn_trans : forall a b c, conn n adj a b -> conn n adj b c -> conn n adj a c.
Proof. intros a b c H1 H2. revert H1. induction H2; intros; auto. apply conn_step with (b := b); auto. Qed.

Lemma conn_edge : forall a b, inr n a -> inr n b -> edge adj a b -> conn n adj a b.
Proof. intros. eapply conn_step; eauto. apply conn_refl; auto. Qed.

Lemma conn_sym : forall a b, conn n adj a b -> conn n adj b a.
Proof.
  induction 1.
  - apply conn_refl; auto.
  - destruct (conn_inr _ _ H). eapply conn_trans; [|apply IHconn]. apply conn_edge; auto.
Qed.

Lemma conn_touched : forall r v, conn n adj r v -> touched n adj r -> touched n adj v.
Proof.
  induction 1; auto. intros Ht. destruct (conn_inr _ _ H). exists b. split; auto.
Qed.

Lemma edge_test : forall a b, negb (get2 adj a b =? 0) = true <-> edge adj a b.
Proof. intros. unfold edge. lia. Qed.

Lemma has_edge_touched : forall i, has_edge n adj i = true <-> touched n adj i.
Proof.
  intros. unfold has_edge, touched. rewrite existsb_exists. split.
  - intros [j [Hj He]]. exists j. split; [apply in_zrange; auto|apply edge_test; auto].
  - intros [j [Hj He]]. exists j. split; [apply in_zrange; auto|apply edge_test; auto].
Qed.

(* ---- the neighbour loop ---- *)
Lemma push_fold : forall v l s,
  0 <= ns s -> ns s + cntf (pc v (lab s)) l <= Z.of_nat (length (stk s)) ->
  lab (fold_left (push_step adj v) l s) = lab s /\
  length (stk (fold_left (push_step adj v) l s)) = length (stk s) /\
  bad (fold_left (push_step adj v) l s) = bad s /\
  ns (fold_left (push_step adj v) l s) = ns s + cntf (pc v (lab s)) l /\
  (forall idx, 0 <= idx < ns s -> getZ (stk (fold_left (push_step adj v) l s)) idx = getZ (stk s) idx) /\
  (forall idx, ns s <= idx < ns (fold_left (push_step adj v) l s) ->
     In (getZ (stk (fold_left (push_step adj v) l s)) idx) l /\
     edge adj v (getZ (stk (fold_left (push_step adj v) l s)) idx) /\
     getZ (lab s) (getZ (stk (fold_left (push_step adj v) l s)) idx) = -1) /\
  (forall w, In w l -> edge adj v w -> getZ (lab s) w = -1 ->
     exists idx, ns s <= idx < ns (fold_left (push_step adj v) l s) /\
                 getZ (stk (fold_left (push_step adj v) l s)) idx = w).
Proof.
  intros v l. induction l as [|a l IH]; intros s Hns Hcap.
  - simpl. rewrite cntf_nil. repeat split; auto; try lia; intros; try lia; try contradiction.
  - cbn [fold_left]. rewrite cntf_cons in Hcap. rewrite !cntf_cons.
    pose proof (cntf_nonneg (pc v (lab s)) l) as Hcn.
    destruct (pc v (lab s) a) eqn:Epush; unfold pc in Epush.
    + (* a is pushed *)
      assert (Hs1 : push_step adj v s a =
                    mkFF (lab s) (setZ (stk s) (ns s) a) (ns s + 1) (bad s || negb (in_array (stk s) (ns s)))).
      { unfold push_step. destruct (negb (get2 adj v a =? 0)); simpl in Epush; try discriminate.
        rewrite Epush. reflexivity. }
      rewrite Hs1. set (s1 := mkFF (lab s) (setZ (stk s) (ns s) a) (ns s + 1) (bad s || negb (in_array (stk s) (ns s)))).
      assert (Hin : in_array (stk s) (ns s) = true) by (unfold in_array; lia).
      destruct (IH s1) as [I1 [I2 [I3 [I4 [I5 [I6 I7]]]]]].
      { unfold s1; cbn [ns]. lia. }
      { unfold s1; cbn [ns stk lab]. rewrite setZ_length. lia. }
      assert (E1 : lab s1 = lab s) by reflexivity.
      assert (E2 : stk s1 = setZ (stk s) (ns s) a) by reflexivity.
      assert (E3 : ns s1 = ns s + 1) by reflexivity.
      assert (E4 : bad s1 = bad s || negb (in_array (stk s) (ns s))) by reflexivity.
      rewrite E1, E2, E3, ?E4 in *. rewrite setZ_length in I2.
      pose proof (cntf_nonneg (pc v (lab s)) l) as Hcn'.
      assert (Htop : getZ (stk (fold_left (push_step adj v) l s1)) (ns s) = a).
      { rewrite I5 by lia. apply getZ_setZ_same. lia. }
      split; [auto|]. split; [auto|]. split; [rewrite I3, Hin; simpl; apply orb_false_r|].
      split; [lia|]. split; [|split].
      * intros idx Hidx. rewrite I5 by lia. apply getZ_setZ_other; lia.
      * intros idx Hidx. destruct (Z.eq_dec idx (ns s)) as [->|Hne].
        -- rewrite Htop. split; [left; auto|]. split; [apply edge_test; lia|lia].
        -- destruct (I6 idx) as [J1 [J2 J3]]; [lia|]. split; [right; auto|]. split; auto.
      * intros w [->|Hw] He Hl.
        -- exists (ns s). split; [lia|auto].
        -- destruct (I7 w Hw He Hl) as [idx [Hidx Hget]]. exists idx. split; [lia|auto].
    + (* a is not pushed *)
      assert (Hs1 : push_step adj v s a = s).
      { unfold push_step. destruct (negb (get2 adj v a =? 0)); auto. simpl in Epush. rewrite Epush. auto. }
      rewrite Hs1. destruct (IH s) as [I1 [I2 [I3 [I4 [I5 [I6 I7]]]]]]; [lia|lia|].
      split; [auto|]. split; [auto|]. split; [auto|]. split; [lia|]. split; [auto|]. split.
      * intros idx Hidx. destruct (I6 idx Hidx) as [J1 [J2 J3]]. split; [right; auto|]. split; auto.
      * intros w [->|Hw] He Hl.
        -- exfalso. apply edge_test in He. lia.
        -- apply I7; auto.
Qed.

(* ---- one DFS from root r with island id k over labels lab0 ---- *)
Section DFS.
Variable lab0 : list Z.
Variable r k : Z.
Hypothesis Hlen0 : length lab0 = Z.to_nat n.
Hypothesis Hr : inr n r.
Hypothesis Hr0 : getZ lab0 r = -1.
Hypothesis Hk : 0 <= k.
Hypothesis Hfresh : forall v, inr n v -> getZ lab0 v < k.

Definition Inv (s : FF) : Prop :=
  length (lab s) = Z.to_nat n /\
  length (stk s) = Lc /\
  0 <= ns s /\
  bad s = false /\
  (forall idx, 0 <= idx < ns s -> inr n (getZ (stk s) idx) /\ conn n adj r (getZ (stk s) idx)) /\
  (forall v, inr n v -> getZ (lab s) v = getZ lab0 v \/
                        (getZ lab0 v = -1 /\ getZ (lab s) v = k /\ conn n adj r v)) /\
  (forall v w, inr n v -> inr n w -> getZ (lab s) v = k -> edge adj v w ->
     getZ (lab s) w <> -1 \/ exists idx, 0 <= idx < ns s /\ getZ (stk s) idx = w) /\
  (getZ (lab s) r = k \/ exists idx, 0 <= idx < ns s /\ getZ (stk s) idx = r) /\
  ns s + n * U (lab s) <= n * U lab0 + 1 /\
  ns s + pot (lab s) <= 1 + pot lab0.

Definition mu (s : FF) : Z := ns s + n * U (lab s).

Lemma U0_le : n * U lab0 <= n * n.
Proof. apply Z.mul_le_mono_nonneg_l; [lia|]. pose proof (U_le_length lab0). lia. Qed.

Lemma dfs_step_inv : forall s, Inv s -> 0 < ns s ->
  Inv (dfs_step n adj k s) /\ mu (dfs_step n adj k s) < mu s.
Proof.
  intros s [L1 [L2 [Hns [Hbad [Hstk [Hlab [Hcl [Hroot [Hmu Hpot]]]]]]]]] Hpos.
  unfold dfs_step. set (ns1 := ns s - 1). set (v := getZ (stk s) ns1).
  destruct (Hstk ns1) as [Hv Hcv]; [lia|]. fold v in Hv, Hcv.
  destruct (negb (getZ (lab s) v =? -1)) eqn:Elab.
  - (* already assigned *)
    split; [|unfold mu; simpl; lia].
    unfold Inv; cbn [lab stk ns bad].
    split; [auto|]. split; [auto|]. split; [lia|]. split; [auto|].
    split; [intros idx Hidx; apply Hstk; lia|].
    split; [auto|].
    split; [|split; [|split; lia]].
    + intros a w Ha Hw Hak He. destruct (Hcl a w Ha Hw Hak He) as [?|[idx [Hidx Hget]]]; auto.
      destruct (Z.eq_dec idx ns1) as [->|Hne].
      * left. fold v in Hget. subst w. lia.
      * right. exists idx. split; [lia|auto].
    + destruct Hroot as [?|[idx [Hidx Hget]]]; auto.
      destruct (Z.eq_dec idx ns1) as [->|Hne].
      * left. fold v in Hget. subst v.
        destruct (Hlab r Hr) as [Heq|[_ [Heq _]]]; auto. rewrite Hget in *. lia.
      * right. exists idx. split; [lia|auto].
  - (* expand v *)
    assert (Hlv : getZ (lab s) v = -1) by lia.
    assert (Hv0 : getZ lab0 v = -1).
    { destruct (Hlab v Hv) as [Heq|[Heq _]]; auto. lia. }
    assert (Hk1 : k <> -1) by lia.
    assert (HU : U (setZ (lab s) v k) = U (lab s) - 1).
    { apply U_setZ; auto. unfold inr in Hv. lia. }
    assert (HU1 : 1 <= U (lab s)).
    { apply (U_pos _ v); auto. unfold inr in Hv. lia. }
    pose proof U0_le as HU0.
    assert (Hpot' : pot (setZ (lab s) v k) = pot (lab s) - row_deg n adj v) by (apply pot_setZ; auto).
    pose proof (pot_ge (lab s) v Hv Hlv) as Hpg. pose proof (pot_le_nnz lab0) as Hpn.
    assert (Hpc : cntf (pc v (setZ (lab s) v k)) (zrange n) <= row_deg n adj v).
    { apply pc_le_deg; auto. rewrite getZ_setZ_same by (unfold inr in Hv; lia). auto. }
    pose proof (cntf_nonneg (pc v (setZ (lab s) v k)) (zrange n)) as Hpc0.
    pose proof (cntf_le_length (pc v (setZ (lab s) v k)) (zrange n)) as Hpcn. rewrite zrange_length in Hpcn.
    set (s1 := mkFF (setZ (lab s) v k) (stk s) ns1 (bad s)).
    destruct (push_fold v (zrange n) s1) as [P1 [P2 [P3 [P4 [P5 [P6 P7]]]]]].
    { simpl. lia. }
    { simpl. rewrite L2. lia. }
    simpl in P1, P2, P3, P4, P5, P6, P7.
    set (s' := fold_left (push_step adj v) (zrange n) s1) in *.
    assert (Hget' : forall a, inr n a -> getZ (lab s') a = if v =? a then k else getZ (lab s) a).
    { intros a Ha. rewrite P1. apply getZ_setZ; unfold inr in *; lia. }
    split.
    + unfold Inv. split; [rewrite P1, setZ_length; auto|]. split; [lia|]. split; [lia|].
      split; [rewrite P3; auto|]. split; [|split; [|split; [|split; [|split]]]].
      * intros idx Hidx. destruct (Z_lt_ge_dec idx ns1).
        -- rewrite P5 by lia. apply Hstk. lia.
        -- destruct (P6 idx) as [J1 [J2 J3]]; [lia|]. apply in_zrange in J1.
           split; [exact J1|]. eapply conn_step; eauto.
      * intros a Ha. rewrite (Hget' a Ha). destruct (v =? a) eqn:E.
        -- assert (v = a) by lia. subst a. right. auto.
        -- apply Hlab; auto.
      * intros a w Ha Hw Hak He. rewrite (Hget' w Hw). rewrite (Hget' a Ha) in Hak.
        destruct (v =? w) eqn:Evw; [left; lia|].
        destruct (v =? a) eqn:Eva.
        -- assert (v = a) by lia. subst a.
           destruct (Z.eq_dec (getZ (lab s) w) (-1)) as [Hw1|Hw1]; [|left; auto].
           right. destruct (P7 w) as [idx [Hidx Hg]]; auto.
           { apply in_zrange; auto. }
           { rewrite getZ_setZ_other; auto; unfold inr in *; lia. }
           exists idx. split; [lia|auto].
        -- destruct (Hcl a w Ha Hw Hak He) as [?|[idx [Hidx Hg]]]; auto.
           destruct (Z.eq_dec idx ns1) as [->|Hne].
           ++ fold v in Hg. lia.
           ++ right. exists idx. split; [lia|]. rewrite P5 by lia. auto.
      * rewrite (Hget' r Hr). destruct (v =? r) eqn:Evr; auto.
        destruct Hroot as [?|[idx [Hidx Hg]]]; auto.
        destruct (Z.eq_dec idx ns1) as [->|Hne].
        -- fold v in Hg. lia.
        -- right. exists idx. split; [lia|]. rewrite P5 by lia. auto.
      * rewrite P1, HU. lia.
      * rewrite P1, Hpot'. lia.
    + unfold mu. rewrite P1, HU. lia.
Qed.

Lemma mu_nonneg : forall s, Inv s -> 0 <= ns s /\ 0 <= n * U (lab s).
Proof.
  intros s [_ [_ [Hns _]]]. split; auto. apply Z.mul_nonneg_nonneg; [lia|apply U_nonneg].
Qed.

Lemma dfs_loop_inv : forall fuel s, Inv s -> mu s <= Z.of_nat fuel ->
  Inv (dfs_loop fuel n adj k s) /\ ns (dfs_loop fuel n adj k s) = 0.
Proof.
  induction fuel; intros s HI Hmu.
  - destruct (mu_nonneg s HI). unfold mu in Hmu. assert (ns s = 0) by lia.
    simpl. destruct HI as [L1 [L2 [Hns [Hbad HI]]]]. rewrite Hbad.
    replace (0 <? ns s) with false by lia. simpl. split; auto.
    unfold Inv; simpl. auto.
  - simpl. destruct (0 <? ns s) eqn:E.
    + destruct (dfs_step_inv s HI) as [HI' Hlt]; [lia|]. apply IHfuel; auto. lia.
    + split; auto. destruct (mu_nonneg s HI). lia.
Qed.

Lemma dfs_init_inv : forall stk0 b, length stk0 = Lc -> b = false ->
  Inv (mkFF lab0 (setZ stk0 0 r) 1 b) /\ mu (mkFF lab0 (setZ stk0 0 r) 1 b) <= Z.of_nat (ff_fuel n).
Proof.
  intros stk0 b Hl ->. pose proof U0_le.
  assert (Hnn : n <= n * n) by nia.
  assert (HL1 : 1 <= Z.of_nat Lc).
  { pose proof (zsum_map_nonneg (row_deg n adj) (zrange n) (fun x _ => row_deg_nonneg x)). unfold nnz_off in HLc. lia. }
  split.
  - unfold Inv; cbn [lab stk ns bad]. rewrite setZ_length.
    split; [auto|]. split; [auto|]. split; [lia|]. split; [auto|].
    split.
    { intros idx Hidx. assert (idx = 0) by lia. subst. rewrite getZ_setZ_same by lia.
      split; [apply Hr|apply conn_refl; auto]. }
    split; [intros; left; auto|].
    split. { intros v w Hv Hw Hvk. pose proof (Hfresh v Hv). lia. }
    split. { right. exists 0. split; [lia|]. apply getZ_setZ_same. lia. }
    split; lia.
  - unfold mu, ff_fuel; cbn [ns lab]. lia.
Qed.

End DFS.

(* ---- the loop over trees ---- *)
Definition Out (i : Z) (l : list Z) (k : Z) : Prop :=
  length l = Z.to_nat n /\
  0 <= k /\
  (forall v, inr n v -> -1 <= getZ l v < k) /\
  (forall v w, inr n v -> inr n w -> 0 <= getZ l v -> edge adj v w -> getZ l w = getZ l v) /\
  (forall v w, inr n v -> inr n w -> 0 <= getZ l v -> getZ l v = getZ l w -> conn n adj v w) /\
  (forall v, inr n v -> v < i -> touched n adj v -> 0 <= getZ l v) /\
  (forall v, inr n v -> 0 <= getZ l v -> touched n adj v) /\
  (forall c, 0 <= c < k -> exists m, inr n m /\ m < i /\ getZ l m = c /\
                                     forall v, inr n v -> c <= getZ l v -> m <= v).

Lemma ff_outer_inv : forall i s k, Out i (lab s) k -> inr n i ->
  length (stk s) = Lc -> bad s = false ->
  Out (i + 1) (lab (fst (ff_outer n adj (s, k) i))) (snd (ff_outer n adj (s, k) i)) /\
  length (stk (fst (ff_outer n adj (s, k) i))) = Lc /\
  bad (fst (ff_outer n adj (s, k) i)) = false.
Proof.
  intros i s k [O1 [O2 [O3 [O4 [O5 [O6 [O7 O8]]]]]]] Hi Hstk Hbad.
  unfold ff_outer. cbn [fst snd].
  destruct (negb (getZ (lab s) i =? -1)) eqn:E1; [|destruct (negb (has_edge n adj i)) eqn:E2].
  - (* already labelled *)
    cbn [fst snd]. split; [|auto].
    unfold Out. repeat (split; [assumption|]). split; [|split; [assumption|]].
    + intros v Hv Hlt Ht. destruct (Z.eq_dec v i) as [->|Hne].
      * pose proof (O3 i Hi). lia.
      * apply O6; auto. lia.
    + intros c Hc. destruct (O8 c Hc) as [m [M1 [M2 [M3 M4]]]]. exists m. split; [auto|]. split; [lia|]. split; auto.
  - (* no edge *)
    cbn [fst snd]. split; [|auto].
    assert (Hnt : ~ touched n adj i).
    { intros Ht. apply has_edge_touched in Ht. rewrite Ht in E2. discriminate. }
    unfold Out. repeat (split; [assumption|]). split; [|split; [assumption|]].
    + intros v Hv Hlt Ht. destruct (Z.eq_dec v i) as [->|Hne]; [contradiction|].
      apply O6; auto. lia.
    + intros c Hc. destruct (O8 c Hc) as [m [M1 [M2 [M3 M4]]]]. exists m. split; [auto|]. split; [lia|]. split; auto.
  - (* DFS from i *)
    cbn [fst snd].
    assert (Hr0 : getZ (lab s) i = -1) by lia.
    assert (Hti : touched n adj i).
    { apply has_edge_touched. destruct (has_edge n adj i); auto. }
    assert (Hnn : n <= n * n) by nia.
    assert (HL1 : 1 <= Z.of_nat Lc).
    { pose proof (zsum_map_nonneg (row_deg n adj) (zrange n) (fun x _ => row_deg_nonneg x)). unfold nnz_off in HLc. lia. }
    assert (Hb : bad s || negb (in_array (stk s) 0) = false).
    { rewrite Hbad. unfold in_array. lia. }
    assert (Hfresh : forall v, inr n v -> getZ (lab s) v < k) by (intros v Hv; apply O3; auto).
    destruct (dfs_init_inv (lab s) i k O1 Hi Hfresh (stk s) _ Hstk Hb) as [HI0 Hmu0].
    destruct (dfs_loop_inv (lab s) i k O1 Hi Hr0 O2 (ff_fuel n) _ HI0 Hmu0) as [HI Hns].
    set (sf := dfs_loop (ff_fuel n) n adj k _) in *.
    destruct HI as [L1 [L2 [_ [Hbad' [_ [Hlab [Hcl [Hroot _]]]]]]]].
    assert (Hcl' : forall v w, inr n v -> inr n w -> getZ (lab sf) v = k -> edge adj v w -> getZ (lab sf) w <> -1).
    { intros v w Hv Hw Hvk He. destruct (Hcl v w Hv Hw Hvk He) as [?|[idx [Hidx _]]]; auto. lia. }
    assert (Hroot' : getZ (lab sf) i = k).
    { destruct Hroot as [?|[idx [Hidx _]]]; auto. lia. }
    assert (Hnew : forall v, inr n v -> getZ (lab s) v = -1 -> conn n adj i v -> i <= v).
    { intros v Hv Hv0 Hc. destruct (Z_lt_ge_dec v i); [|lia].
      assert (0 <= getZ (lab s) v); [|lia]. apply O6; auto. apply (conn_touched i); auto. }
    split; [|auto].
    unfold Out. split; [auto|]. split; [lia|].
    split; [|split; [|split; [|split; [|split]]]].
    + intros v Hv. pose proof (O3 v Hv). destruct (Hlab v Hv) as [Heq|[_ [Heq _]]]; lia.
    + intros v w Hv Hw Hge He.
      destruct (Hlab v Hv) as [Hv1|[Hv1 [Hv2 Hv3]]].
      * rewrite Hv1 in *. pose proof (O4 v w Hv Hw Hge He) as Hold.
        destruct (Hlab w Hw) as [Hw1|[Hw1 _]]; lia.
      * pose proof (Hcl' v w Hv Hw Hv2 He) as Hne.
        destruct (Hlab w Hw) as [Hw1|[Hw1 [Hw2 _]]]; [|lia].
        exfalso. pose proof (O3 w Hw).
        assert (getZ (lab s) v = getZ (lab s) w); [|lia].
        apply O4; auto; lia.
    + intros v w Hv Hw Hge Heq.
      destruct (Hlab v Hv) as [Hv1|[Hv1 [Hv2 Hv3]]]; destruct (Hlab w Hw) as [Hw1|[Hw1 [Hw2 Hw3]]].
      * apply O5; auto; lia.
      * pose proof (O3 v Hv). lia.
      * pose proof (O3 w Hw). lia.
      * apply conn_trans with (b := i); auto. apply conn_sym; auto.
    + intros v Hv Hlt Ht. destruct (Z.eq_dec v i) as [->|Hne]; [lia|].
      assert (0 <= getZ (lab s) v) by (apply O6; auto; lia).
      destruct (Hlab v Hv) as [Hv1|[Hv1 _]]; lia.
    + intros v Hv Hge. destruct (Hlab v Hv) as [Hv1|[Hv1 [Hv2 Hv3]]].
      * apply O7; auto. lia.
      * apply (conn_touched i); auto.
    + intros c Hc. destruct (Z_lt_ge_dec c k) as [Hlt|Hge].
      * destruct (O8 c) as [m [M1 [M2 [M3 M4]]]]; [lia|]. exists m.
        split; [auto|]. split; [lia|]. split.
        -- destruct (Hlab m M1) as [Hm1|[Hm1 _]]; lia.
        -- intros v Hv Hcv. destruct (Hlab v Hv) as [Hv1|[Hv1 [Hv2 Hv3]]].
           ++ apply M4; auto. lia.
           ++ pose proof (Hnew v Hv Hv1 Hv3). lia.
      * assert (c = k) by lia. subst c. exists i.
        split; [auto|]. split; [lia|]. split; [auto|].
        intros v Hv Hcv. destruct (Hlab v Hv) as [Hv1|[Hv1 [Hv2 Hv3]]].
        -- pose proof (O3 v Hv). lia.
        -- apply Hnew; auto.
Qed.

Lemma Out_init : Out 0 (zfill n (-1)) 0.
Proof.
  assert (G : forall v, inr n v -> getZ (zfill n (-1)) v = -1) by (intros; apply getZ_zfill; auto).
  unfold Out. split; [apply zfill_length|]. split; [lia|].
  split; [intros v Hv; rewrite G; auto; lia|].
  split; [intros v w Hv Hw; rewrite (G v Hv); lia|].
  split; [intros v w Hv Hw; rewrite (G v Hv); lia|].
  split; [intros; unfold inr in *; lia|].
  split; [intros v Hv; rewrite (G v Hv); lia|].
  intros; lia.
Qed.

Lemma flood_fold_inv : forall stk0, length stk0 = Lc ->
  forall m, 0 <= m -> m <= n ->
  Out m (lab (fst (fold_left (ff_outer n adj) (zrange m) (mkFF (zfill n (-1)) stk0 0 false, 0))))
        (snd (fold_left (ff_outer n adj) (zrange m) (mkFF (zfill n (-1)) stk0 0 false, 0))) /\
  length (stk (fst (fold_left (ff_outer n adj) (zrange m) (mkFF (zfill n (-1)) stk0 0 false, 0)))) = Lc /\
  bad (fst (fold_left (ff_outer n adj) (zrange m) (mkFF (zfill n (-1)) stk0 0 false, 0))) = false.
Proof.
  intros stk0 Hl m Hm. pattern m. apply natlike_ind; auto.
  - intros _. cbn [zrange zrange2 Z.sub Z.to_nat seq map fold_left fst snd lab stk bad].
    split; [apply Out_init|auto].
  - intros x Hx IH Hle. replace (Z.succ x) with (x + 1) in * by lia. rewrite zrange_snoc by lia. rewrite fold_left_app. cbn [fold_left].
    destruct IH as [I1 [I2 I3]]; [lia|].
    set (st := fold_left (ff_outer n adj) (zrange x) _) in *.
    rewrite (surjective_pairing st).
    apply ff_outer_inv; auto. unfold inr; lia.
Qed.

Theorem flood_fill_components_cap : forall stk0, length stk0 = Lc ->
  length (ff_labels n adj stk0) = Z.to_nat n /\
  0 <= ff_nisland n adj stk0 /\
  (forall a, inr n a -> -1 <= getZ (ff_labels n adj stk0) a < ff_nisland n adj stk0) /\
  (forall a, inr n a -> (getZ (ff_labels n adj stk0) a = -1 <-> ~ touched n adj a)) /\
  (forall a b, inr n a -> inr n b ->
     (0 <= getZ (ff_labels n adj stk0) a /\ getZ (ff_labels n adj stk0) a = getZ (ff_labels n adj stk0) b
      <-> touched n adj a /\ conn n adj a b)) /\
  (forall c, 0 <= c < ff_nisland n adj stk0 ->
     exists r, inr n r /\ getZ (ff_labels n adj stk0) r = c /\
               forall v, inr n v -> c <= getZ (ff_labels n adj stk0) v -> r <= v) /\
  ff_bad n adj stk0 = false.
Proof.
  intros stk0 Hl. unfold ff_labels, ff_nisland, ff_bad, flood_fill.
  destruct (flood_fold_inv stk0 Hl n) as [[O1 [O2 [O3 [O4 [O5 [O6 [O7 O8]]]]]]] [_ Hbad]]; try lia.
  set (st := fold_left (ff_outer n adj) (zrange n) _) in *.
  split; [auto|]. split; [auto|]. split; [auto|].
  split; [|split; [|split; [|auto]]].
  - intros a Ha. split.
    + intros H1 Ht. assert (0 <= getZ (lab (fst st)) a) by (apply O6; auto; apply Ha). lia.
    + intros Hnt. pose proof (O3 a Ha). destruct (Z_lt_ge_dec (getZ (lab (fst st)) a) 0); [lia|].
      exfalso. apply Hnt, O7; auto. lia.
  - intros a b Ha Hb. split.
    + intros [Hge Heq]. split; [apply O7; auto|apply O5; auto].
    + intros [Ht Hc]. assert (Hge : 0 <= getZ (lab (fst st)) a) by (apply O6; auto; apply Ha).
      split; auto. clear Hb. induction Hc; auto.
      specialize (IHHc Ha Ht Hge). destruct (conn_inr _ _ Hc) as [_ Hb].
      rewrite (O4 b c); auto; lia.
  - intros c Hc. destruct (O8 c Hc) as [m [M1 [M2 [M3 M4]]]]. exists m. auto.
Qed.

End FloodFill.

(* ntree*ntree ints are enough: there are at most ntree*(ntree-1) directed off-diagonal edges *)
Lemma row_deg_le : forall n adj v, inr n v -> row_deg n adj v <= n - 1.
Proof.
  intros n adj v Hv. unfold row_deg.
  assert (H1 : cntf (fun w => negb (get2 adj v w =? 0) && negb (w =? v)) (zrange n) <= cntf (fun w => negb (w =? v)) (zrange n))
    by (apply cntf_mono; intros; lia).
  assert (H2 : cntf (fun _ => true) (zrange n) = cntf (fun w => w =? v) (zrange n) + cntf (fun w => negb (w =? v)) (zrange n))
    by (apply cntf_split; intros; lia).
  rewrite cntf_all in H2 by auto. rewrite zrange_length in H2.
  rewrite (cntf_eq_one (zrange n) v) in H2; [unfold inr in Hv; lia|apply NoDup_zrange|apply in_zrange; auto].
Qed.

Lemma zsum_map_const_le : forall (f : Z -> Z) c l, (forall x, In x l -> f x <= c) -> zsum (map f l) <= c * Z.of_nat (length l).
Proof.
  induction l; intros H; cbn [map zsum fold_right length]; [lia|]. fold (zsum (map f l)).
  pose proof (H a (or_introl eq_refl)). assert (zsum (map f l) <= c * Z.of_nat (length l)) by (apply IHl; intros; apply H; simpl; auto). lia.
Qed.

Lemma nnz_off_le : forall n adj, 0 <= n -> nnz_off n adj <= (n - 1) * n.
Proof.
  intros n adj Hn. unfold nnz_off.
  pose proof (zsum_map_const_le (row_deg n adj) (n - 1) (zrange n)) as H. rewrite zrange_length in H.
  replace (Z.of_nat (Z.to_nat n)) with n in H by lia. apply H. intros x Hx. apply row_deg_le. apply in_zrange; auto.
Qed.

Theorem flood_fill_components_sec : forall n adj, 0 < n -> sym_adj n adj ->
  forall stk0, length stk0 = Z.to_nat (n * n) ->
  length (ff_labels n adj stk0) = Z.to_nat n /\
  0 <= ff_nisland n adj stk0 /\
  (forall a, inr n a -> -1 <= getZ (ff_labels n adj stk0) a < ff_nisland n adj stk0) /\
  (forall a, inr n a -> (getZ (ff_labels n adj stk0) a = -1 <-> ~ touched n adj a)) /\
  (forall a b, inr n a -> inr n b ->
     (0 <= getZ (ff_labels n adj stk0) a /\ getZ (ff_labels n adj stk0) a = getZ (ff_labels n adj stk0) b
      <-> touched n adj a /\ conn n adj a b)) /\
  (forall c, 0 <= c < ff_nisland n adj stk0 ->
     exists r, inr n r /\ getZ (ff_labels n adj stk0) r = c /\
               forall v, inr n v -> c <= getZ (ff_labels n adj stk0) v -> r <= v) /\
  ff_bad n adj stk0 = false.
Proof.
  intros n adj Hn Hsym stk0 Hl.
  apply (flood_fill_components_cap n adj Hn Hsym (Z.to_nat (n * n))); auto.
  pose proof (nnz_off_le n adj). nia.
Qed.


(* ================= D. slot allocation by atomic counters, any task order ================= *)
(* Tasks t carry a bucket key t (< 0: the task allocates nothing).  Bucket kk owns the slots
   [clt kk all, clt kk all + ceq kk all); a task takes start + (old counter value). *)
Section Alloc.
Variable key : Z -> Z.
Variable all : list Z.
Variable K T : Z.
Hypothesis Hnd : NoDup all.
Hypothesis HT : forall t, In t all -> 0 <= t < T.
Hypothesis HK : forall t, In t all -> key t < K.

Definition ceq (kk : Z) (l : list Z) : Z := cntf (fun t => key t =? kk) l.
Definition clt (kk : Z) (l : list Z) : Z := cntf (fun t => (0 <=? key t) && (key t <? kk)) l.

Lemma ceq_nonneg : forall kk l, 0 <= ceq kk l. Proof. intros; apply cntf_nonneg. Qed.
Lemma clt_nonneg : forall kk l, 0 <= clt kk l. Proof. intros; apply cntf_nonneg. Qed.

Lemma clt_succ : forall kk l, 0 <= kk -> clt (kk + 1) l = clt kk l + ceq kk l.
Proof.
  intros. unfold clt, ceq. apply cntf_split; intros; lia.
Qed.

Lemma clt_mono : forall k1 k2 l, k1 <= k2 -> clt k1 l <= clt k2 l.
Proof. intros. unfold clt. apply cntf_mono. intros. lia. Qed.

Lemma clt_zero : forall l, clt 0 l = 0.
Proof.
  intros. unfold clt. induction l; auto. rewrite cntf_cons, IHl.
  replace ((0 <=? key a) && (key a <? 0)) with false by lia. reflexivity.
Qed.

Lemma clt_next : forall k1 k2 l, 0 <= k1 < k2 -> clt k1 l + ceq k1 l <= clt k2 l.
Proof. intros. rewrite <- clt_succ by lia. apply clt_mono. lia. Qed.

Lemma ceq_app : forall kk l1 l2, ceq kk (l1 ++ l2) = ceq kk l1 + ceq kk l2.
Proof. intros; apply cntf_app. Qed.

Lemma ceq_snoc : forall kk l t, ceq kk (l ++ [t]) = ceq kk l + (if key t =? kk then 1 else 0).
Proof. intros. rewrite ceq_app. unfold ceq at 2. rewrite cntf_cons, cntf_nil. lia. Qed.

Lemma ceq_perm : forall kk l1 l2, Permutation l1 l2 -> ceq kk l1 = ceq kk l2.
Proof. intros; apply cntf_perm; auto. Qed.

Lemma ceq_prefix_lt : forall P t R, Permutation (P ++ t :: R) all -> ceq (key t) P + 1 <= ceq (key t) all.
Proof.
  intros. rewrite <- (ceq_perm _ _ _ H), ceq_app. unfold ceq at 3. rewrite cntf_cons.
  replace (key t =? key t) with true by lia. pose proof (cntf_nonneg (fun t0 => key t0 =? key t) R). lia.
Qed.

Lemma ceq_prefix_le : forall kk P R, Permutation (P ++ R) all -> ceq kk P <= ceq kk all.
Proof. intros. rewrite <- (ceq_perm _ _ _ H), ceq_app. pose proof (ceq_nonneg kk R). lia. Qed.

Lemma slot_bound : forall kk, 0 <= kk -> (exists t, In t all /\ key t = kk) -> clt kk all + ceq kk all <= clt K all.
Proof.
  intros kk Hk [t [Hin Hkey]]. apply clt_next. pose proof (HK t Hin). lia.
Qed.

Definition GInv (P d2i i2d : list Z) : Prop :=
  forall t, In t P -> 0 <= key t ->
    clt (key t) all <= getZ d2i t < clt (key t) all + ceq (key t) P /\ getZ i2d (getZ d2i t) = t.

Lemma GInv_skip : forall P t d2i i2d, key t < 0 -> GInv P d2i i2d -> GInv (P ++ [t]) d2i i2d.
Proof.
  intros P t d2i i2d Hk HG t' Hin Hk'. apply in_app_iff in Hin. destruct Hin as [Hin|[<-|[]]]; [|lia].
  destruct (HG t' Hin Hk') as [H1 H2]. split; auto. rewrite ceq_snoc. destruct (key t =? key t'); lia.
Qed.

Lemma GInv_step : forall P t R d2i i2d,
  Permutation (P ++ t :: R) all -> GInv P d2i i2d -> 0 <= key t ->
  Z.of_nat (length d2i) = T -> clt K all <= Z.of_nat (length i2d) ->
  let s := clt (key t) all + ceq (key t) P in
  GInv (P ++ [t]) (setZ d2i t s) (setZ i2d s t) /\
  clt (key t) all <= s < clt (key t) all + ceq (key t) all /\
  0 <= s < clt K all.
Proof.
  intros P t R d2i i2d Hperm HG Hk Hlen1 Hlen s.
  assert (Hin_all : In t all) by (eapply Permutation_in; eauto; apply in_app_iff; right; left; auto).
  pose proof (HT t Hin_all) as Ht.
  assert (Hlt : ceq (key t) P + 1 <= ceq (key t) all) by (eapply ceq_prefix_lt; eauto).
  assert (Hsb : clt (key t) all + ceq (key t) all <= clt K all) by (apply slot_bound; eauto).
  pose proof (clt_nonneg (key t) all). pose proof (ceq_nonneg (key t) P).
  assert (Hs : 0 <= s < clt K all) by (unfold s; lia).
  assert (HndP : NoDup (P ++ t :: R)) by (eapply Permutation_NoDup; [apply Permutation_sym; eauto|auto]).
  assert (HtP : ~ In t P).
  { apply NoDup_remove_2 in HndP. intros Hc. apply HndP. apply in_app_iff. auto. }
  split; [|split; [unfold s; lia|auto]].
  intros t' Hin Hk'. apply in_app_iff in Hin. destruct Hin as [Hin|[<-|[]]].
  - (* an earlier task keeps its slot, and the new slot is not its slot *)
    assert (Hne : t <> t') by (intros ->; auto).
    destruct (HG t' Hin Hk') as [H1 H2].
    assert (Hin_all' : In t' all) by (eapply Permutation_in; eauto; apply in_app_iff; auto).
    pose proof (HT t' Hin_all') as Ht'.
    assert (Hle' : ceq (key t') P <= ceq (key t') all) by (apply (ceq_prefix_le _ P (t :: R)); auto).
    pose proof (clt_nonneg (key t') all).
    rewrite getZ_setZ_other by lia. rewrite ceq_snoc.
    split; [destruct (key t =? key t'); lia|].
    rewrite getZ_setZ_other; auto; [|lia].
    destruct (Z.lt_trichotomy (key t) (key t')) as [Hc|[Hc|Hc]].
    + pose proof (clt_next (key t) (key t') all). unfold s. lia.
    + unfold s. rewrite Hc. lia.
    + pose proof (clt_next (key t') (key t) all). unfold s. lia.
  - (* the new task *)
    rewrite getZ_setZ_same by lia. rewrite ceq_snoc. replace (key t =? key t) with true by lia.
    split; [unfold s; lia|]. apply getZ_setZ_same. lia.
Qed.

(* after all tasks (in any order): two mutually inverse maps between the allocating tasks and
   the slots [0, clt K all), bucket by bucket *)
Lemma GInv_final : forall all' d2i i2d, Permutation all' all -> GInv all' d2i i2d ->
  (forall t, In t all -> 0 <= key t ->
     clt (key t) all <= getZ d2i t < clt (key t) all + ceq (key t) all /\ getZ i2d (getZ d2i t) = t) /\
  (forall s, 0 <= s < clt K all ->
     exists t, In t all /\ 0 <= key t /\ getZ d2i t = s /\ getZ i2d s = t).
Proof.
  intros all' d2i i2d Hperm HG.
  assert (H1 : forall t, In t all -> 0 <= key t ->
     clt (key t) all <= getZ d2i t < clt (key t) all + ceq (key t) all /\ getZ i2d (getZ d2i t) = t).
  { intros t Hin Hk. destruct (HG t) as [G1 G2]; auto.
    - eapply Permutation_in; [apply Permutation_sym|]; eauto.
    - rewrite (ceq_perm _ _ _ Hperm) in G1. auto. }
  split; auto. intros s Hs.
  set (dom := filter (fun t => 0 <=? key t) all).
  destruct (pigeon_surj (getZ d2i) dom (clt K all)) with (s := s) as [t [Hin Hget]]; auto.
  - apply NoDup_filter; auto.
  - unfold dom, clt. apply cntf_ext. intros x Hx. pose proof (HK x Hx). lia.
  - intros x Hx. apply filter_In in Hx. destruct Hx as [Hx Hkx].
    destruct (H1 x Hx) as [G1 _]; [lia|]. pose proof (clt_nonneg (key x) all).
    assert (clt (key x) all + ceq (key x) all <= clt K all); [|lia].
    apply slot_bound; [lia|eauto].
  - intros x y Hx Hy Heq. apply filter_In in Hx, Hy. destruct Hx as [Hx Hkx], Hy as [Hy Hky].
    destruct (H1 x Hx) as [_ Gx]; [lia|]. destruct (H1 y Hy) as [_ Gy]; [lia|]. congruence.
  - apply filter_In in Hin. destruct Hin as [Hin Hk]. exists t. split; auto. split; [lia|]. split; auto.
    destruct (H1 t Hin) as [_ G]; [lia|]. congruence.
Qed.

Lemma GInv_nil : forall d2i i2d, GInv [] d2i i2d.
Proof. intros d2i i2d t []. Qed.
End Alloc.


(* ================= E. island mapping: shared pieces ================= *)
Lemma getZ_incr : forall l i c, 0 <= i < Z.of_nat (length l) -> 0 <= c ->
  getZ (incr l i) c = getZ l c + (if i =? c then 1 else 0).
Proof.
  intros. unfold incr. rewrite getZ_setZ by auto. destruct (i =? c) eqn:E; [|lia].
  assert (i = c) by lia. subst. lia.
Qed.

Lemma incr_length : forall l i, length (incr l i) = length l.
Proof. intros. apply setZ_length. Qed.

(* the prefix-sum loop of _island_scan_sizes, one array at a time *)
Definition scan1 (N : list Z) (a : list Z) (i : Z) : list Z := setZ a i (getZ a (i - 1) + getZ N (i - 1)).

Lemma scan_step_proj : forall NV NE l A B,
  fold_left (scan_step NV NE) l (A, B) = (fold_left (scan1 NV) l A, fold_left (scan1 NE) l B).
Proof. induction l; simpl; intros; auto. unfold scan_step at 2. simpl. rewrite IHl. reflexivity. Qed.

Lemma scan1_spec : forall (N : list Z) (S : Z -> Z) (bnd : Z),
  (forall j, 0 <= j < bnd -> S (j + 1) = S j + getZ N j) ->
  forall len start A, (1 <= start)%nat -> (start + len <= length A)%nat -> Z.of_nat (start + len) <= bnd + 1 ->
  (forall j, 0 <= j < Z.of_nat start -> getZ A j = S j) ->
  length (fold_left (scan1 N) (map Z.of_nat (seq start len)) A) = length A /\
  (forall j, 0 <= j < Z.of_nat (start + len) -> getZ (fold_left (scan1 N) (map Z.of_nat (seq start len)) A) j = S j) /\
  (forall j, Z.of_nat (start + len) <= j -> getZ (fold_left (scan1 N) (map Z.of_nat (seq start len)) A) j = getZ A j).
Proof.
  intros N S bnd HS. induction len; intros start A H1 H2 Hb H3.
  - simpl. repeat split; auto. intros. apply H3. lia.
  - cbn [seq map fold_left].
    destruct (IHlen (Datatypes.S start) (scan1 N A (Z.of_nat start))) as [I1 [I2 I3]].
    + lia.
    + unfold scan1. rewrite setZ_length. lia.
    + lia.
    + intros j Hj. unfold scan1. destruct (Z.eq_dec j (Z.of_nat start)) as [->|Hne].
      * rewrite getZ_setZ_same by lia. rewrite H3 by lia.
        replace (S (Z.of_nat start)) with (S (Z.of_nat start - 1 + 1)) by (f_equal; lia).
        rewrite HS by lia. reflexivity.
      * rewrite getZ_setZ_other by lia. apply H3. lia.
    + assert (Lsc : length (scan1 N A (Z.of_nat start)) = length A) by apply setZ_length.
      rewrite Lsc in I1.
      split; [auto|]. split.
      * intros j Hj. apply I2. lia.
      * intros j Hj. rewrite I3 by lia. unfold scan1. apply getZ_setZ_other; lia.
Qed.

Lemma clear_fold : forall idxs l,
  length (fold_left (fun l i => setZ l i 0) idxs l) = length l /\
  (forall c, In c idxs -> 0 <= c < Z.of_nat (length l) -> getZ (fold_left (fun l i => setZ l i 0) idxs l) c = 0) /\
  (forall c, ~ In c idxs -> 0 <= c -> getZ (fold_left (fun l i => setZ l i 0) idxs l) c = getZ l c).
Proof.
  induction idxs; intros l.
  - simpl. repeat split; auto. intros c [].
  - cbn [fold_left]. destruct (IHidxs (setZ l a 0)) as [I1 [I2 I3]]. rewrite setZ_length in *.
    split; [auto|]. split.
    + intros c Hin Hc. destruct (in_dec Z.eq_dec c idxs) as [Hi|Hi].
      * apply I2; auto.
      * destruct Hin as [->|Hin]; [|contradiction]. rewrite I3; auto; [|lia]. apply getZ_setZ_same; auto.
    + intros c Hin Hc. rewrite I3; auto.
      * apply getZ_setZ_other; auto. intros ->. apply Hin. left; auto.
      * intros Hi. apply Hin. right; auto.
Qed.

(* scan_sizes for nisland > 0 or = 0, given the target functions SA, SB *)
Lemma scan_sizes_spec : forall k ntree (z NV NE : list Z) (SA SB : Z -> Z),
  0 <= k <= ntree -> length z = Z.to_nat ntree -> length NV = Z.to_nat ntree -> length NE = Z.to_nat ntree ->
  SA 0 = 0 -> SB 0 = 0 ->
  (forall j, 0 <= j < k -> SA (j + 1) = SA j + getZ NV j) ->
  (forall j, 0 <= j < k -> SB (j + 1) = SB j + getZ NE j) ->
  let ss := scan_sizes k (mkSS z NV NE z 0) in
  length (ss_idofadr ss) = Z.to_nat ntree /\ length (ss_iefcadr ss) = Z.to_nat ntree /\
  length (ss_nv ss) = Z.to_nat ntree /\ length (ss_nefc ss) = Z.to_nat ntree /\
  (forall c, 0 <= c < k -> getZ (ss_idofadr ss) c = SA c /\ getZ (ss_iefcadr ss) c = SB c /\
                           getZ (ss_nv ss) c = 0 /\ getZ (ss_nefc ss) c = 0) /\
  ss_nidof ss = SA k.
Proof.
  intros k ntree z NV NE SA SB Hk Lz LV LE SA0 SB0 HSA HSB ss. subst ss. unfold scan_sizes.
  destruct (k =? 0) eqn:Ek.
  - cbn [ss_idofadr ss_iefcadr ss_nv ss_nefc ss_nidof]. repeat split; auto; try lia.
    assert (k = 0) by lia. subst. auto.
  - cbn [ss_idofadr ss_iefcadr ss_nv ss_nefc ss_nidof].
    unfold zrange2. rewrite scan_step_proj. cbn [fst snd].
    replace (Z.to_nat 1) with 1%nat by lia.
    destruct (scan1_spec NV SA k HSA (Z.to_nat (k - 1)) 1%nat (setZ z 0 0)) as [A1 [A2 A3]].
    { lia. } { rewrite setZ_length. lia. } { lia. }
    { intros j Hj. assert (j = 0) by lia. subst. rewrite getZ_setZ_same by lia. auto. }
    destruct (scan1_spec NE SB k HSB (Z.to_nat (k - 1)) 1%nat (setZ z 0 0)) as [B1 [B2 B3]].
    { lia. } { rewrite setZ_length. lia. } { lia. }
    { intros j Hj. assert (j = 0) by lia. subst. rewrite getZ_setZ_same by lia. auto. }
    rewrite setZ_length in A1, B1.
    destruct (clear_fold (zrange k) NV) as [C1 [C2 C3]].
    destruct (clear_fold (zrange k) NE) as [E1 [E2 E3]].
    split; [lia|]. split; [lia|]. split; [lia|]. split; [lia|]. split.
    + intros c Hc. split; [apply A2; lia|]. split; [apply B2; lia|].
      split; [apply C2; [apply in_zrange; lia|lia]|apply E2; [apply in_zrange; lia|lia]].
    + rewrite A2 by lia. replace (SA k) with (SA (k - 1 + 1)) by (f_equal; lia). rewrite HSA by lia. reflexivity.
Qed.

(* a function with the prefix-sum recurrence, for the half of the scan a theorem does not talk about *)
Fixpoint psumn (l : list Z) (c : nat) : Z :=
  match c with O => 0 | S c' => psumn l c' + nth c' l 0 end.
Definition psum (l : list Z) (c : Z) : Z := psumn l (Z.to_nat c).

Lemma psum_0 : forall l, psum l 0 = 0.
Proof. reflexivity. Qed.

Lemma psum_succ : forall l j, 0 <= j -> psum l (j + 1) = psum l j + getZ l j.
Proof.
  intros. unfold psum, getZ. replace (Z.to_nat (j + 1)) with (S (Z.to_nat j)) by lia. reflexivity.
Qed.

(* the counting launches never change array lengths *)
Lemma count_dofs_lengths : forall dt ti sched st,
  length (fst (fold_left (count_dofs_task dt ti) sched st)) = length (fst st) /\
  length (snd (fold_left (count_dofs_task dt ti) sched st)) = length (snd st).
Proof.
  induction sched; intros st; simpl; auto.
  destruct (IHsched (count_dofs_task dt ti st a)) as [I1 I2]. rewrite I1, I2.
  unfold count_dofs_task. cbn [fst snd]. rewrite setZ_length.
  destruct (0 <=? _); [rewrite incr_length|]; auto.
Qed.

Lemma count_efc_lengths : forall na et ti ty sched st,
  length (cc_island (fold_left (count_efc_task na et ti ty) sched st)) = length (cc_island st) /\
  length (cc_nefc (fold_left (count_efc_task na et ti ty) sched st)) = length (cc_nefc st) /\
  length (cc_ne (fold_left (count_efc_task na et ti ty) sched st)) = length (cc_ne st) /\
  length (cc_nf (fold_left (count_efc_task na et ti ty) sched st)) = length (cc_nf st).
Proof.
  induction sched; intros st; simpl; auto.
  destruct (IHsched (count_efc_task na et ti ty st a)) as [I1 [I2 [I3 I4]]]. rewrite I1, I2, I3, I4.
  unfold count_efc_task.
  destruct (negb (a <? na)); auto.
  destruct (getZ et a <? 0); cbn [cc_island cc_nefc cc_ne cc_nf]; rewrite ?setZ_length; auto.
  destruct (0 <=? getZ ti (getZ et a)); cbn [cc_island cc_nefc cc_ne cc_nf]; rewrite ?setZ_length, ?incr_length; auto.
  destruct (getZ ty a =? EQUALITY); [rewrite incr_length; auto|].
  destruct (is_fric (getZ ty a)); rewrite ?incr_length; auto.
Qed.

(* the stages of island_mapping, named *)
Definition st_cd nv ntree dt ti s_cd :=
  fold_left (count_dofs_task dt ti) s_cd (zfill nv (-1), zfill ntree 0).
Definition st_cc njmax nefc ntree et ti ty s_cc :=
  fold_left (count_efc_task (Z.min njmax nefc) et ti ty) s_cc
            (mkCC (zfill njmax (-1)) (zfill ntree 0) (zfill ntree 0) (zfill ntree 0)).
Definition st_ss k ntree (cd : list Z * list Z) (cc : CC) :=
  scan_sizes k (mkSS (zfill ntree 0) (snd cd) (cc_nefc cc) (zfill ntree 0) 0).
Definition st_md nv ntree (cd : list Z * list Z) (ss : SS) s_md :=
  fold_left (map_dofs_task (fst cd) (ss_idofadr ss) (ss_nidof ss)) s_md
            (mkMD (ss_nv ss) (zfill ntree nv) (zfill nv 0) (zfill nv 0) (zfill nv (-1)) 0).
Definition st_mc njmax nefc ntree (cc : CC) (ss : SS) ty s_mc :=
  fold_left (map_efc_task (Z.min njmax nefc) (cc_island cc) (ss_iefcadr ss) (cc_ne cc) (cc_nf cc) ty) s_mc
            (mkMC (zfill ntree 0) (zfill ntree 0) (zfill ntree 0) (ss_nefc ss)
                  (zfill njmax 0) (zfill njmax 0) (zfill njmax (-1))).

Lemma island_mapping_eq : forall nv ntree njmax nefc k dt ti et ty s_cd s_cc s_md s_mc,
  island_mapping nv ntree njmax nefc k dt ti et ty s_cd s_cc s_md s_mc =
  let cd := st_cd nv ntree dt ti s_cd in
  let cc := st_cc njmax nefc ntree et ti ty s_cc in
  let ss := st_ss k ntree cd cc in
  let md := st_md nv ntree cd ss s_md in
  let mc := st_mc njmax nefc ntree cc ss ty s_mc in
  mkIMap (fst cd) (md_nv md) (ss_idofadr ss) (md_dofadr md) (ss_nidof ss)
         (md_d2i md) (md_i2d md) (md_iid md)
         (cc_island cc) (mc_nefc mc) (cc_ne cc) (cc_nf cc) (ss_iefcadr ss)
         (mc_e2i mc) (mc_i2e mc) (mc_iid mc).
Proof. reflexivity. Qed.


Section DofMaps.
Variables nv ntree k : Z.
Variables dof_tree tree_island : list Z.
Hypothesis Hnv : 0 <= nv.
Hypothesis Hk : 0 <= k <= ntree.
Hypothesis Ldt : length dof_tree = Z.to_nat nv.
Hypothesis Hdt : forall d, 0 <= d < nv -> 0 <= getZ dof_tree d < ntree.
Hypothesis Lti : length tree_island = Z.to_nat ntree.
Hypothesis Hti : forall t, 0 <= t < ntree -> -1 <= getZ tree_island t < k.

Local Notation isl := (dof_isl dof_tree tree_island).

Lemma isl_range : forall d, 0 <= d < nv -> -1 <= isl d < k.
Proof. intros. unfold dof_isl. apply Hti, Hdt; auto. Qed.

(* bucket of a dof: its island, or the extra bucket k of unconstrained dofs *)
Definition keyd (d : Z) : Z := if 0 <=? isl d then isl d else k.

Lemma keyd_range : forall d, 0 <= d < nv -> 0 <= keyd d < k + 1.
Proof. intros d Hd. pose proof (isl_range d Hd). unfold keyd. destruct (0 <=? isl d) eqn:E; lia. Qed.

Lemma count_dofs_fold : forall sched st,
  (forall d, In d sched -> 0 <= d < nv) ->
  length (fst st) = Z.to_nat nv -> length (snd st) = Z.to_nat ntree ->
  length (fst (fold_left (count_dofs_task dof_tree tree_island) sched st)) = Z.to_nat nv /\
  length (snd (fold_left (count_dofs_task dof_tree tree_island) sched st)) = Z.to_nat ntree /\
  (forall d, In d sched -> getZ (fst (fold_left (count_dofs_task dof_tree tree_island) sched st)) d = isl d) /\
  (forall d, ~ In d sched -> 0 <= d ->
     getZ (fst (fold_left (count_dofs_task dof_tree tree_island) sched st)) d = getZ (fst st) d) /\
  (forall c, 0 <= c < ntree ->
     getZ (snd (fold_left (count_dofs_task dof_tree tree_island) sched st)) c =
     getZ (snd st) c + cntf (fun d => isl d =? c) sched).
Proof.
  induction sched as [|a sched IH]; intros st Hr L1 L2.
  - simpl. repeat split; auto. intros d []. intros. rewrite cntf_nil. lia.
  - cbn [fold_left].
    assert (Ha : 0 <= a < nv) by (apply Hr; left; auto).
    pose proof (isl_range a Ha) as Hia.
    set (st1 := count_dofs_task dof_tree tree_island st a).
    assert (F1 : fst st1 = setZ (fst st) a (isl a)) by reflexivity.
    assert (F2 : snd st1 = if 0 <=? isl a then incr (snd st) (isl a) else snd st) by reflexivity.
    destruct (IH st1) as [I1 [I2 [I3 [I4 I5]]]].
    { intros; apply Hr; right; auto. }
    { rewrite F1, setZ_length; auto. }
    { rewrite F2. destruct (0 <=? isl a); [rewrite incr_length|]; auto. }
    split; [auto|]. split; [auto|]. split; [|split].
    + intros d Hin. destruct (in_dec Z.eq_dec d sched) as [Hi|Hi]; [apply I3; auto|].
      destruct Hin as [->|Hin]; [|contradiction]. rewrite I4; auto; [|lia].
      rewrite F1. apply getZ_setZ_same. lia.
    + intros d Hin Hd. rewrite I4; auto.
      * rewrite F1. apply getZ_setZ_other; auto. intros ->. apply Hin. left; auto.
      * intros Hi. apply Hin. right; auto.
    + intros c Hc. rewrite I5 by auto. rewrite cntf_cons, F2.
      destruct (0 <=? isl a) eqn:E.
      * rewrite getZ_incr by lia. destruct (isl a =? c); lia.
      * replace (isl a =? c) with false by lia. lia.
Qed.

(* ---- the allocating launch _island_map_dofs ---- *)
Section DofAlloc.
Variable DI ADR : list Z.
Variable nidof : Z.
Hypothesis LDI : length DI = Z.to_nat nv.
Hypothesis HDI : forall d, 0 <= d < nv -> getZ DI d = isl d.
Hypothesis LADR : length ADR = Z.to_nat ntree.
Hypothesis HADR : forall c, 0 <= c < k -> getZ ADR c = clt keyd c (zrange nv).
Hypothesis Hnidof : nidof = clt keyd k (zrange nv).

Local Notation all := (zrange nv).

Lemma all_range : forall t, In t all -> 0 <= t < nv.
Proof. intros. apply in_zrange; auto. Qed.

Lemma all_key : forall t, In t all -> keyd t < k + 1.
Proof. intros. apply keyd_range, all_range; auto. Qed.

Lemma cltK_le : clt keyd (k + 1) all <= nv.
Proof. unfold clt. pose proof (cntf_le_length (fun t => (0 <=? keyd t) && (keyd t <? k + 1)) all). rewrite zrange_length in H. lia. Qed.

Definition KInv (P : list Z) (st : MD) : Prop :=
  length (md_nv st) = Z.to_nat ntree /\ length (md_dofadr st) = Z.to_nat ntree /\
  length (md_d2i st) = Z.to_nat nv /\ length (md_i2d st) = Z.to_nat nv /\ length (md_iid st) = Z.to_nat nv /\
  (forall c, 0 <= c < k -> getZ (md_nv st) c = ceq keyd c P) /\
  md_ucnt st = ceq keyd k P /\
  GInv keyd all P (md_d2i st) (md_i2d st) /\
  (forall d, In d P -> 0 <= isl d -> getZ (md_iid st) (getZ (md_d2i st) d) = isl d) /\
  (forall i, 0 <= i < nv -> getZ (md_iid st) i = -1 \/ i < nidof) /\
  (forall c, 0 <= c < k ->
     (forall d, In d P -> isl d = c -> getZ (md_dofadr st) c <= d) /\
     (getZ (md_dofadr st) c = nv \/ (In (getZ (md_dofadr st) c) P /\ isl (getZ (md_dofadr st) c) = c))).

Lemma map_dofs_step : forall P d R st, Permutation (P ++ d :: R) all -> KInv P st ->
  KInv (P ++ [d]) (map_dofs_task DI ADR nidof st d).
Proof.
  intros P d R st Hperm [L1 [L2 [L3 [L4 [L5 [Hcnt [Hucnt [HG [Hiid [Hneg Hadr]]]]]]]]]].
  assert (Hin : In d all) by (eapply Permutation_in; eauto; apply in_app_iff; right; left; auto).
  pose proof (all_range d Hin) as Hd. pose proof (isl_range d Hd) as Hid.
  pose proof (keyd_range d Hd) as Hkd. pose proof cltK_le as HKle.
  assert (HndP : NoDup (P ++ d :: R)) by (eapply Permutation_NoDup; [apply Permutation_sym; eauto|apply NoDup_zrange]).
  assert (HdP : ~ In d P).
  { apply NoDup_remove_2 in HndP. intros Hc. apply HndP. apply in_app_iff. auto. }
  destruct (GInv_step keyd all (k + 1) nv (NoDup_zrange nv) all_range all_key P d R (md_d2i st) (md_i2d st))
    as [HG' [Hs1 Hs2]]; auto; try lia.
  set (s := clt keyd (keyd d) all + ceq keyd (keyd d) P) in *.
  assert (Hother : forall d', In d' P -> 0 <= keyd d' -> getZ (md_d2i st) d' <> s).
  { intros d' Hd' Hk' Heq. destruct (HG' d') as [_ G]; [apply in_app_iff; auto|auto|].
    assert (d <> d') by (intros ->; auto).
    assert (Hd'r : 0 <= d' < nv) by (apply all_range; eapply Permutation_in; eauto; apply in_app_iff; auto).
    rewrite (getZ_setZ_other (md_d2i st) d d' s) in G by lia. rewrite Heq in G. rewrite getZ_setZ_same in G by lia. lia. }
  unfold map_dofs_task. rewrite (HDI d Hd).
  destruct (0 <=? isl d) eqn:Eisl.
  - (* dof of island c *)
    assert (Hkey : keyd d = isl d) by (unfold keyd; rewrite Eisl; auto).
    assert (Hslot : getZ ADR (isl d) + getZ (md_nv st) (isl d) = s).
    { rewrite HADR by lia. rewrite Hcnt by lia. unfold s. rewrite Hkey. reflexivity. }
    rewrite Hslot.
    assert (Hsn : s < nidof).
    { rewrite Hnidof. pose proof (clt_next keyd (keyd d) k all). rewrite Hkey in *. lia. }
    unfold KInv. cbn [md_nv md_dofadr md_d2i md_i2d md_iid md_ucnt]. rewrite !setZ_length.
    split; [auto|]. split; [auto|]. split; [auto|]. split; [auto|]. split; [auto|].
    split; [|split; [|split; [auto|split; [|split]]]].
    + intros c Hc. rewrite getZ_setZ by lia. rewrite ceq_snoc, Hkey.
      destruct (isl d =? c) eqn:E; [|rewrite Hcnt by auto; lia]. assert (isl d = c) by lia. subst c. rewrite Hcnt by lia. lia.
    + rewrite ceq_snoc, Hkey. replace (isl d =? k) with false by lia. lia.
    + intros d' Hd' Hi'. apply in_app_iff in Hd'. destruct Hd' as [Hd'|[<-|[]]].
      * assert (d <> d') by (intros ->; auto).
        assert (Hd'r : 0 <= d' < nv) by (apply all_range; eapply Permutation_in; eauto; apply in_app_iff; auto).
        rewrite (getZ_setZ_other (md_d2i st) d d' s) by lia.
        assert (Hk' : 0 <= keyd d') by (apply keyd_range; auto).
        destruct (HG d' Hd' Hk') as [[Hlo _] _]. pose proof (clt_nonneg keyd (keyd d') all).
        rewrite getZ_setZ_other; [apply Hiid; auto| |lia].
        intros Heq. apply (Hother d' Hd' Hk'). auto.
      * rewrite getZ_setZ_same by lia. apply getZ_setZ_same. lia.
    + intros i Hi. destruct (Z.eq_dec i s) as [->|Hne]; [right; auto|].
      rewrite getZ_setZ_other by lia. apply Hneg; auto.
    + intros c Hc. destruct (Hadr c Hc) as [A1 A2]. rewrite getZ_setZ by lia.
      destruct (isl d =? c) eqn:E.
      * assert (isl d = c) by lia. subst c. split.
        -- intros d' Hd' Hi'. apply in_app_iff in Hd'. destruct Hd' as [Hd'|[<-|[]]]; [|lia].
           pose proof (A1 d' Hd' Hi'). lia.
        -- destruct (Z.min_spec (getZ (md_dofadr st) (isl d)) d) as [[Hlt ->]|[Hge ->]].
           ++ destruct A2 as [A2|[A2 A3]]; [lia|]. right. split; auto. apply in_app_iff; auto.
           ++ right. split; auto. apply in_app_iff. right. left. auto.
      * split.
        -- intros d' Hd' Hi'. apply in_app_iff in Hd'. destruct Hd' as [Hd'|[<-|[]]]; [|lia]. apply A1; auto.
        -- destruct A2 as [A2|[A2 A3]]; auto. right. split; auto. apply in_app_iff; auto.
  - (* unconstrained dof *)
    assert (Hkey : keyd d = k) by (unfold keyd; rewrite Eisl; auto).
    assert (Hslot : nidof + md_ucnt st = s).
    { rewrite Hnidof, Hucnt. unfold s. rewrite Hkey. reflexivity. }
    rewrite Hslot.
    unfold KInv. cbn [md_nv md_dofadr md_d2i md_i2d md_iid md_ucnt]. rewrite !setZ_length.
    split; [auto|]. split; [auto|]. split; [auto|]. split; [auto|]. split; [auto|].
    split; [|split; [|split; [auto|split; [|split; [auto|]]]]].
    + intros c Hc. rewrite ceq_snoc, Hkey. replace (k =? c) with false by lia. rewrite Hcnt by auto. lia.
    + rewrite ceq_snoc, Hkey. replace (k =? k) with true by lia. lia.
    + intros d' Hd' Hi'. apply in_app_iff in Hd'. destruct Hd' as [Hd'|[<-|[]]]; [|lia].
      assert (d <> d') by (intros ->; auto).
      assert (Hd'r : 0 <= d' < nv) by (apply all_range; eapply Permutation_in; eauto; apply in_app_iff; auto).
      rewrite getZ_setZ_other by lia. apply Hiid; auto.
    + intros c Hc. destruct (Hadr c Hc) as [A1 A2]. split.
      * intros d' Hd' Hi'. apply in_app_iff in Hd'. destruct Hd' as [Hd'|[<-|[]]]; [|lia]. apply A1; auto.
      * destruct A2 as [A2|[A2 A3]]; auto. right. split; auto. apply in_app_iff; auto.
Qed.

Lemma map_dofs_fold : forall R P st, Permutation (P ++ R) all -> KInv P st ->
  KInv (P ++ R) (fold_left (map_dofs_task DI ADR nidof) R st).
Proof.
  induction R as [|d R IH]; intros P st Hperm HK.
  - rewrite app_nil_r. auto.
  - cbn [fold_left]. replace (P ++ d :: R) with ((P ++ [d]) ++ R) in * by (rewrite <- app_assoc; reflexivity).
    apply IH; auto. apply (map_dofs_step P d R); auto. rewrite <- app_assoc in Hperm. auto.
Qed.
End DofAlloc.

Lemma clt_keyd : forall c l, c <= k -> (forall d, In d l -> 0 <= d < nv) ->
  clt keyd c l = cntf (fun d => (0 <=? isl d) && (isl d <? c)) l.
Proof.
  intros c l Hc Hl. unfold clt. apply cntf_ext. intros d Hd. pose proof (isl_range d (Hl d Hd)).
  unfold keyd. destruct (0 <=? isl d) eqn:E; lia.
Qed.

Lemma ceq_keyd : forall c l, 0 <= c < k -> (forall d, In d l -> 0 <= d < nv) ->
  ceq keyd c l = cntf (fun d => isl d =? c) l.
Proof.
  intros c l Hc Hl. unfold ceq. apply cntf_ext. intros d Hd. pose proof (isl_range d (Hl d Hd)).
  unfold keyd. destruct (0 <=? isl d) eqn:E; lia.
Qed.

Theorem island_dof_maps_sec : forall njmax nefc efc_tree etype s_cd s_cc s_md s_mc,
  Permutation s_cd (zrange nv) -> Permutation s_md (zrange nv) ->
  let r := island_mapping nv ntree njmax nefc k dof_tree tree_island efc_tree etype s_cd s_cc s_md s_mc in
  let dofs := zrange nv in
  (forall d, 0 <= d < nv -> getZ (o_dof_island r) d = isl d) /\
  (forall c, 0 <= c < k ->
     getZ (o_island_nv r) c = cntf (fun d => isl d =? c) dofs /\
     getZ (o_island_idofadr r) c = cntf (fun d => (0 <=? isl d) && (isl d <? c)) dofs) /\
  o_nidof r = cntf (fun d => 0 <=? isl d) dofs /\
  (forall d, 0 <= d < nv ->
     0 <= getZ (o_map_dof2idof r) d < nv /\ getZ (o_map_idof2dof r) (getZ (o_map_dof2idof r) d) = d) /\
  (forall i, 0 <= i < nv ->
     0 <= getZ (o_map_idof2dof r) i < nv /\ getZ (o_map_dof2idof r) (getZ (o_map_idof2dof r) i) = i) /\
  (forall d, 0 <= d < nv -> 0 <= isl d ->
     getZ (o_island_idofadr r) (isl d) <= getZ (o_map_dof2idof r) d
       < getZ (o_island_idofadr r) (isl d) + getZ (o_island_nv r) (isl d) /\
     getZ (o_dof_islandid r) (getZ (o_map_dof2idof r) d) = isl d) /\
  (forall d, 0 <= d < nv -> isl d < 0 -> o_nidof r <= getZ (o_map_dof2idof r) d < nv) /\
  (forall i, o_nidof r <= i < nv -> getZ (o_dof_islandid r) i = -1) /\
  (forall c, 0 <= c < k -> 0 < getZ (o_island_nv r) c ->
     0 <= getZ (o_island_dofadr r) c < nv /\ isl (getZ (o_island_dofadr r) c) = c /\
     forall d, 0 <= d < nv -> isl d = c -> getZ (o_island_dofadr r) c <= d).
Proof.
  intros njmax nefc efc_tree etype s_cd s_cc s_md s_mc Hp1 Hp2.
  rewrite island_mapping_eq. cbv zeta.
  set (cd := st_cd nv ntree dof_tree tree_island s_cd).
  set (cc := st_cc njmax nefc ntree efc_tree tree_island etype s_cc).
  set (ss := st_ss k ntree cd cc).
  set (md := st_md nv ntree cd ss s_md).
  cbn [o_dof_island o_island_nv o_island_idofadr o_island_dofadr o_nidof o_map_dof2idof o_map_idof2dof o_dof_islandid].
  assert (Hall : forall d, In d (zrange nv) -> 0 <= d < nv) by (intros; apply in_zrange; auto).
  (* 1. counting launch *)
  destruct (count_dofs_fold s_cd (zfill nv (-1), zfill ntree 0)) as [C1 [C2 [C3 [_ C5]]]].
  { intros d Hd. apply Hall. apply (Permutation_in _ Hp1 Hd). }
  { apply zfill_length. } { apply zfill_length. }
  fold (st_cd nv ntree dof_tree tree_island s_cd) in C1, C2, C3, C5. fold cd in C1, C2, C3, C5.
  assert (HDI : forall d, 0 <= d < nv -> getZ (fst cd) d = isl d).
  { intros d Hd. apply C3. eapply Permutation_in; [apply Permutation_sym; eauto|]. apply in_zrange; auto. }
  assert (HNV : forall c, 0 <= c < k -> getZ (snd cd) c = ceq keyd c (zrange nv)).
  { intros c Hc. rewrite C5 by lia. cbn [snd]. rewrite getZ_zfill by lia.
    rewrite (cntf_perm _ _ _ Hp1). rewrite ceq_keyd; auto. }
  (* 2. scan *)
  destruct (count_efc_lengths (Z.min njmax nefc) efc_tree tree_island etype s_cc
              (mkCC (zfill njmax (-1)) (zfill ntree 0) (zfill ntree 0) (zfill ntree 0))) as [_ [LE _]].
  fold (st_cc njmax nefc ntree efc_tree tree_island etype s_cc) in LE. fold cc in LE.
  cbn [cc_nefc] in LE. rewrite zfill_length in LE.
  destruct (scan_sizes_spec k ntree (zfill ntree 0) (snd cd) (cc_nefc cc)
              (fun c => clt keyd c (zrange nv)) (psum (cc_nefc cc))) as [S1 [S2 [S3 [S4 [S5 S6]]]]]; auto.
  { apply zfill_length. } { apply clt_zero. }
  { intros j Hj. rewrite clt_succ by lia. rewrite HNV by lia. reflexivity. }
  { intros j Hj. apply psum_succ. lia. }
  fold (st_ss k ntree cd cc) in S1, S2, S3, S4, S5, S6. fold ss in S1, S2, S3, S4, S5, S6.
  (* 3. allocating launch *)
  assert (HK0 : KInv (ss_nidof ss) [] (mkMD (ss_nv ss) (zfill ntree nv) (zfill nv 0) (zfill nv 0) (zfill nv (-1)) 0)).
  { unfold KInv. cbn [md_nv md_dofadr md_d2i md_i2d md_iid md_ucnt]. rewrite !zfill_length.
    split; [auto|]. split; [auto|]. split; [auto|]. split; [auto|]. split; [auto|].
    split; [intros c Hc; destruct (S5 c Hc) as [_ [_ [Z0 _]]]; rewrite Z0; reflexivity|].
    split; [reflexivity|]. split; [apply GInv_nil|]. split; [intros d []|].
    split; [intros i Hi; left; apply getZ_zfill; auto|].
    intros c Hc. split; [intros d []|]. left. apply getZ_zfill. lia. }
  pose proof (map_dofs_fold (fst cd) (ss_idofadr ss) (ss_nidof ss) C1 HDI S1
                (fun c Hc => proj1 (S5 c Hc)) S6 s_md [] _ Hp2 HK0) as HKf.
  fold (st_md nv ntree cd ss s_md) in HKf. fold md in HKf. cbn [app] in HKf.
  destruct HKf as [L1 [L2 [L3 [L4 [L5 [Hcnt [Hucnt [HG [Hiid [Hneg Hadr]]]]]]]]]].
  destruct (GInv_final keyd (zrange nv) (k + 1) (NoDup_zrange nv) (all_key) s_md (md_d2i md) (md_i2d md) Hp2 HG)
    as [G1 G2].
  assert (HK1 : clt keyd (k + 1) (zrange nv) = nv).
  { unfold clt. rewrite cntf_all; [rewrite zrange_length; lia|].
    intros x Hx. pose proof (keyd_range x (Hall x Hx)). lia. }
  assert (Hnvc : forall c, 0 <= c < k -> getZ (md_nv md) c = ceq keyd c (zrange nv)).
  { intros c Hc. rewrite Hcnt by auto. apply ceq_perm; auto. }
  assert (Hin : forall d, 0 <= d < nv -> In d (zrange nv)) by (intros; apply in_zrange; auto).
  split; [auto|].
  split.
  { intros c Hc. split.
    - rewrite Hnvc by auto. apply ceq_keyd; auto.
    - destruct (S5 c Hc) as [A _]. rewrite A. apply clt_keyd; auto. lia. }
  split.
  { rewrite S6. rewrite clt_keyd by (auto; lia). apply cntf_ext. intros d Hd.
    pose proof (isl_range d (Hall d Hd)). lia. }
  split.
  { intros d Hd. pose proof (keyd_range d Hd) as Hkd. destruct (G1 d (Hin d Hd)) as [[Glo Ghi] Ginv]; [lia|].
    split; auto. pose proof (clt_nonneg keyd (keyd d) (zrange nv)).
    pose proof (slot_bound keyd (zrange nv) (k + 1) all_key (keyd d)) as Hsb.
    assert (clt keyd (keyd d) (zrange nv) + ceq keyd (keyd d) (zrange nv) <= clt keyd (k + 1) (zrange nv)).
    { apply Hsb; [lia|]. exists d. auto. }
    lia. }
  split.
  { intros i Hi. destruct (G2 i) as [t [Ht [Hkt [Hd2i Hi2d]]]]; [lia|].
    rewrite Hi2d. split; [apply Hall; auto|auto]. }
  split.
  { intros d Hd Hge. pose proof (isl_range d Hd) as Hir.
    assert (Hkey : keyd d = isl d) by (unfold keyd; replace (0 <=? isl d) with true by lia; auto).
    destruct (G1 d (Hin d Hd)) as [[Glo Ghi] Ginv]; [lia|]. rewrite Hkey in *.
    destruct (S5 (isl d)) as [A _]; [lia|]. rewrite A, Hnvc by lia.
    split; [lia|]. apply Hiid; auto. eapply Permutation_in; [apply Permutation_sym; eauto|auto]. }
  split.
  { intros d Hd Hlt.
    assert (Hkey : keyd d = k) by (unfold keyd; replace (0 <=? isl d) with false by lia; auto).
    destruct (G1 d (Hin d Hd)) as [[Glo Ghi] Ginv]; [lia|]. rewrite Hkey in *. rewrite S6.
    pose proof (clt_succ keyd k (zrange nv)). lia. }
  split.
  { intros i Hi. pose proof (clt_nonneg keyd k (zrange nv)). destruct (Hneg i) as [?|Hlt]; [lia|auto|lia]. }
  intros c Hc Hpos. destruct (Hadr c Hc) as [A1 A2].
  rewrite Hnvc in Hpos by auto. unfold ceq in Hpos.
  destruct (cntf_pos_in _ _ Hpos) as [d0 [Hd0 Hk0]].
  assert (Hd0s : In d0 s_md) by (eapply Permutation_in; [apply Permutation_sym; eauto|auto]).
  pose proof (Hall d0 Hd0) as Hd0r. pose proof (isl_range d0 Hd0r).
  assert (Hi0 : isl d0 = c) by (unfold keyd in Hk0; destruct (0 <=? isl d0) eqn:E; lia).
  pose proof (A1 d0 Hd0s Hi0) as Hle.
  destruct A2 as [A2|[A2 A3]]; [lia|].
  pose proof (Hall _ (Permutation_in _ Hp2 A2)).
  split; [auto|]. split; [auto|].
  intros d Hd Hi. apply A1; auto. eapply Permutation_in; [apply Permutation_sym; eauto|auto].
Qed.
End DofMaps.


Section EfcMaps.
Variables njmax nefc ntree k : Z.
Variables efc_tree tree_island etype : list Z.
Hypothesis Hnj : 0 <= njmax.
Hypothesis Hk : 0 <= k <= ntree.
Hypothesis Let_ : length efc_tree = Z.to_nat njmax.
Hypothesis Het : forall e, 0 <= e < Z.min njmax nefc -> getZ efc_tree e < ntree.
Hypothesis Lti : length tree_island = Z.to_nat ntree.
Hypothesis Hti : forall t, 0 <= t < ntree -> -1 <= getZ tree_island t < k.

Local Notation na := (Z.min njmax nefc).
Local Notation all := (zrange njmax).

Local Notation eisl := (row_isl njmax nefc efc_tree tree_island).
Local Notation ecat := (row_cat etype).

Definition keye (e : Z) : Z := if 0 <=? eisl e then 3 * eisl e + ecat e else -1.

Lemma eisl_range : forall e, 0 <= e -> -1 <= eisl e < k.
Proof.
  intros e He. unfold row_isl. destruct (e <? na) eqn:E; [|lia].
  destruct (getZ efc_tree e <? 0) eqn:E2; [lia|]. apply Hti. split; [lia|]. apply Het. lia.
Qed.

Lemma eisl_active : forall e, 0 <= eisl e -> e < na.
Proof. intros e. unfold row_isl. destruct (e <? na) eqn:E; lia. Qed.

Lemma ecat_range : forall e, 0 <= ecat e <= 2.
Proof. intros. unfold row_cat. destruct (_ =? _); [lia|]. destruct (is_fric _); lia. Qed.

Lemma keye_range : forall e, 0 <= e -> keye e < 3 * k.
Proof.
  intros e He. pose proof (eisl_range e He). pose proof (ecat_range e). unfold keye.
  destruct (0 <=? eisl e); lia.
Qed.

Lemma keye_eqb : forall e c q, 0 <= c -> 0 <= q <= 2 ->
  (keye e =? 3 * c + q) = (eisl e =? c) && (ecat e =? q).
Proof.
  intros e c q Hc Hq. pose proof (ecat_range e). unfold keye. destruct (0 <=? eisl e) eqn:E; lia.
Qed.

Lemma keye_ltb : forall e c, 0 <= c ->
  (0 <=? keye e) && (keye e <? 3 * c) = (0 <=? eisl e) && (eisl e <? c).
Proof.
  intros e c Hc. pose proof (ecat_range e). unfold keye. destruct (0 <=? eisl e) eqn:E; lia.
Qed.

(* ---- _island_count_constraints ---- *)
Lemma count_efc_task_eq : forall st e,
  count_efc_task na efc_tree tree_island etype st e =
  if negb (e <? na) then st
  else mkCC (setZ (cc_island st) e (eisl e))
            (if 0 <=? eisl e then incr (cc_nefc st) (eisl e) else cc_nefc st)
            (if (0 <=? eisl e) && (ecat e =? 0) then incr (cc_ne st) (eisl e) else cc_ne st)
            (if (0 <=? eisl e) && (ecat e =? 1) then incr (cc_nf st) (eisl e) else cc_nf st).
Proof.
  intros st e. unfold count_efc_task, row_isl, row_cat. destruct (e <? na) eqn:E; simpl; auto.
  destruct (getZ efc_tree e <? 0) eqn:E2.
  - simpl. destruct st; reflexivity.
  - destruct (0 <=? getZ tree_island (getZ efc_tree e)) eqn:E3; simpl.
    + destruct (getZ etype e =? EQUALITY); simpl; auto. destruct (is_fric (getZ etype e)); auto.
    + destruct st; reflexivity.
Qed.

Lemma count_efc_fold : forall sched st,
  (forall e, In e sched -> 0 <= e < njmax) ->
  length (cc_island st) = Z.to_nat njmax -> length (cc_nefc st) = Z.to_nat ntree ->
  length (cc_ne st) = Z.to_nat ntree -> length (cc_nf st) = Z.to_nat ntree ->
  let st' := fold_left (count_efc_task na efc_tree tree_island etype) sched st in
  length (cc_island st') = Z.to_nat njmax /\ length (cc_nefc st') = Z.to_nat ntree /\
  length (cc_ne st') = Z.to_nat ntree /\ length (cc_nf st') = Z.to_nat ntree /\
  (forall e, In e sched -> e < na -> getZ (cc_island st') e = eisl e) /\
  (forall e, (~ In e sched \/ na <= e) -> 0 <= e -> getZ (cc_island st') e = getZ (cc_island st) e) /\
  (forall c, 0 <= c < ntree ->
     getZ (cc_nefc st') c = getZ (cc_nefc st) c + cntf (fun e => eisl e =? c) sched /\
     getZ (cc_ne st') c = getZ (cc_ne st) c + cntf (fun e => (eisl e =? c) && (ecat e =? 0)) sched /\
     getZ (cc_nf st') c = getZ (cc_nf st) c + cntf (fun e => (eisl e =? c) && (ecat e =? 1)) sched).
Proof.
  induction sched as [|a sched IH]; intros st Hr L1 L2 L3 L4.
  - simpl. repeat split; auto; try (rewrite cntf_nil; lia). intros e [].
  - cbn [fold_left].
    assert (Ha : 0 <= a < njmax) by (apply Hr; left; auto).
    pose proof (eisl_range a (proj1 Ha)) as Hia.
    rewrite count_efc_task_eq.
    destruct (negb (a <? na)) eqn:Eact.
    + (* inactive task *)
      assert (Hz : eisl a = -1) by (unfold row_isl; replace (a <? na) with false by lia; auto).
      destruct (IH st) as [I1 [I2 [I3 [I4 [I5 [I6 I7]]]]]]; auto.
      { intros; apply Hr; right; auto. }
      split; [auto|]. split; [auto|]. split; [auto|]. split; [auto|]. split; [|split].
      * intros e [->|Hin] He; [lia|]. apply I5; auto.
      * intros e [Hin|Hge] He; apply I6; auto. left. intros Hi. apply Hin. right; auto.
      * intros c Hc. destruct (I7 c Hc) as [J1 [J2 J3]]. rewrite !cntf_cons.
        replace (eisl a =? c) with false by lia. simpl. auto.
    + set (st1 := mkCC _ _ _ _).
      assert (Q0 : forall e, In e sched -> 0 <= e < njmax) by (intros; apply Hr; right; auto).
      assert (Q1 : length (cc_island st1) = Z.to_nat njmax).
      { unfold st1; cbn [cc_island]. rewrite setZ_length; auto. }
      assert (Q2 : length (cc_nefc st1) = Z.to_nat ntree).
      { unfold st1; cbn [cc_nefc]. destruct (0 <=? eisl a); [rewrite incr_length|]; auto. }
      assert (Q3 : length (cc_ne st1) = Z.to_nat ntree).
      { unfold st1; cbn [cc_ne]. destruct ((0 <=? eisl a) && (ecat a =? 0)); [rewrite incr_length|]; auto. }
      assert (Q4 : length (cc_nf st1) = Z.to_nat ntree).
      { unfold st1; cbn [cc_nf]. destruct ((0 <=? eisl a) && (ecat a =? 1)); [rewrite incr_length|]; auto. }
      destruct (IH st1 Q0 Q1 Q2 Q3 Q4) as [I1 [I2 [I3 [I4 [I5 [I6 I7]]]]]].
      split; [auto|]. split; [auto|]. split; [auto|]. split; [auto|]. split; [|split].
      * intros e Hin He. destruct (in_dec Z.eq_dec e sched) as [Hi|Hi]; [apply I5; auto|].
        destruct Hin as [->|Hin]; [|contradiction]. rewrite I6; auto; [|lia].
        unfold st1; cbn [cc_island]. apply getZ_setZ_same. lia.
      * intros e Hor He. rewrite I6; auto.
        -- unfold st1; cbn [cc_island]. apply getZ_setZ_other; auto. intros ->.
           destruct Hor as [Hin|Hge]; [apply Hin; left; auto|lia].
        -- destruct Hor as [Hin|Hge]; auto. left. intros Hi. apply Hin. right; auto.
      * intros c Hc. destruct (I7 c Hc) as [J1 [J2 J3]]. rewrite J1, J2, J3, !cntf_cons.
        unfold st1; cbn [cc_nefc cc_ne cc_nf].
        split; [|split].
        -- destruct (0 <=? eisl a) eqn:E; [rewrite getZ_incr by lia; destruct (eisl a =? c); lia|].
           replace (eisl a =? c) with false by lia. lia.
        -- destruct ((0 <=? eisl a) && (ecat a =? 0)) eqn:E;
             [rewrite getZ_incr by lia; replace ((eisl a =? c) && (ecat a =? 0)) with (eisl a =? c) by lia; destruct (eisl a =? c) eqn:E'; lia|].
           replace ((eisl a =? c) && (ecat a =? 0)) with false by lia. lia.
        -- destruct ((0 <=? eisl a) && (ecat a =? 1)) eqn:E;
             [rewrite getZ_incr by lia; replace ((eisl a =? c) && (ecat a =? 1)) with (eisl a =? c) by lia; destruct (eisl a =? c) eqn:E'; lia|].
           replace ((eisl a =? c) && (ecat a =? 1)) with false by lia. lia.
Qed.

Lemma alle_range : forall t, In t all -> 0 <= t < njmax.
Proof. intros. apply in_zrange; auto. Qed.

Lemma alle_key : forall t, In t all -> keye t < 3 * k.
Proof. intros. apply keye_range. apply in_zrange in H. lia. Qed.

Lemma cltKe_le : clt keye (3 * k) all <= njmax.
Proof.
  unfold clt. pose proof (cntf_le_length (fun t => (0 <=? keye t) && (keye t <? 3 * k)) all).
  rewrite zrange_length in H. lia.
Qed.

(* ---- the allocating launch _island_map_constraints ---- *)
Section EfcAlloc.
Variable EI IADR NE NF : list Z.
Hypothesis LEI : length EI = Z.to_nat njmax.
Hypothesis HEI : forall e, 0 <= e < njmax -> getZ EI e = eisl e.
Hypothesis LIADR : length IADR = Z.to_nat ntree.
Hypothesis HIADR : forall c, 0 <= c < k -> getZ IADR c = clt keye (3 * c) all.
Hypothesis HNE : forall c, 0 <= c < k -> getZ NE c = ceq keye (3 * c) all.
Hypothesis HNF : forall c, 0 <= c < k -> getZ NF c = ceq keye (3 * c + 1) all.

Lemma map_efc_task_eq : forall st e,
  map_efc_task na EI IADR NE NF etype st e =
  if negb (e <? na) then st
  else if 0 <=? getZ EI e then
    let c := getZ EI e in
    let q := ecat e in
    let ic := getZ IADR c +
              (if q =? 0 then getZ (mc_ne st) c
               else if q =? 1 then getZ NE c + getZ (mc_nf st) c
               else getZ NE c + getZ NF c + getZ (mc_no st) c) in
    mkMC (if q =? 0 then incr (mc_ne st) c else mc_ne st)
         (if q =? 1 then incr (mc_nf st) c else mc_nf st)
         (if q =? 2 then incr (mc_no st) c else mc_no st)
         (incr (mc_nefc st) c)
         (setZ (mc_e2i st) e ic) (setZ (mc_i2e st) ic e) (setZ (mc_iid st) ic c)
  else st.
Proof.
  intros st e. unfold map_efc_task, row_cat. destruct (negb (e <? na)); auto.
  destruct (0 <=? getZ EI e); auto.
  destruct (getZ etype e =? EQUALITY); simpl.
  - reflexivity.
  - destruct (is_fric (getZ etype e)); simpl; rewrite ?Z.add_assoc; reflexivity.
Qed.

Definition KInvE (P : list Z) (st : MC) : Prop :=
  length (mc_ne st) = Z.to_nat ntree /\ length (mc_nf st) = Z.to_nat ntree /\
  length (mc_no st) = Z.to_nat ntree /\ length (mc_nefc st) = Z.to_nat ntree /\
  length (mc_e2i st) = Z.to_nat njmax /\ length (mc_i2e st) = Z.to_nat njmax /\
  length (mc_iid st) = Z.to_nat njmax /\
  (forall c, 0 <= c < k ->
     getZ (mc_ne st) c = ceq keye (3 * c) P /\ getZ (mc_nf st) c = ceq keye (3 * c + 1) P /\
     getZ (mc_no st) c = ceq keye (3 * c + 2) P /\
     getZ (mc_nefc st) c = ceq keye (3 * c) P + ceq keye (3 * c + 1) P + ceq keye (3 * c + 2) P) /\
  GInv keye all P (mc_e2i st) (mc_i2e st) /\
  (forall e, In e P -> 0 <= keye e -> getZ (mc_iid st) (getZ (mc_e2i st) e) = eisl e) /\
  (forall i, 0 <= i < njmax -> getZ (mc_iid st) i = -1 \/ i < clt keye (3 * k) all).

Lemma map_efc_step : forall P e R st, Permutation (P ++ e :: R) all -> KInvE P st ->
  KInvE (P ++ [e]) (map_efc_task na EI IADR NE NF etype st e).
Proof.
  intros P e R st Hperm [L1 [L2 [L3 [L4 [L5 [L6 [L7 [Hcnt [HG [Hiid Hneg]]]]]]]]]].
  assert (Hin : In e all) by (eapply Permutation_in; eauto; apply in_app_iff; right; left; auto).
  pose proof (alle_range e Hin) as He. pose proof (eisl_range e (proj1 He)) as Hie.
  pose proof (ecat_range e) as Hq. pose proof cltKe_le as HKle.
  rewrite map_efc_task_eq. rewrite (HEI e He).
  destruct (0 <=? eisl e) eqn:Eisl.
  2:{ (* the task allocates nothing *)
    assert (Hkey : keye e = -1) by (unfold keye; rewrite Eisl; auto).
    assert (Hsame : (if negb (e <? na) then st else st) = st) by (destruct (negb (e <? na)); auto).
    rewrite Hsame.
    unfold KInvE. repeat (split; [assumption|]). split; [|split; [|split; [|auto]]].
    - intros c Hc. rewrite !ceq_snoc, Hkey. destruct (Hcnt c Hc) as [C1 [C2 [C3 C4]]].
      replace (-1 =? 3 * c) with false by lia. replace (-1 =? 3 * c + 1) with false by lia.
      replace (-1 =? 3 * c + 2) with false by lia. rewrite C1, C2, C3, C4. repeat split; lia.
    - apply GInv_skip; auto. lia.
    - intros e' He' Hk'. apply in_app_iff in He'. destruct He' as [He'|[<-|[]]]; [|lia]. apply Hiid; auto. }
  (* the task takes a slot of island c, category q *)
  assert (Hact : negb (e <? na) = false) by (pose proof (eisl_active e); lia).
  rewrite Hact. cbv zeta.
  set (c := eisl e) in *. set (q := ecat e) in *.
  assert (Hkey : keye e = 3 * c + q) by (unfold keye; fold c; rewrite Eisl; auto).
  assert (Hkeq : forall c' q', 0 <= c' -> 0 <= q' <= 2 -> (keye e =? 3 * c' + q') = (c =? c') && (q =? q')) by (intros; lia).
  assert (HndP : NoDup (P ++ e :: R)) by (eapply Permutation_NoDup; [apply Permutation_sym; eauto|apply NoDup_zrange]).
  assert (HeP : ~ In e P).
  { apply NoDup_remove_2 in HndP. intros Hc. apply HndP. apply in_app_iff. auto. }
  destruct (GInv_step keye all (3 * k) njmax (NoDup_zrange njmax) alle_range alle_key P e R (mc_e2i st) (mc_i2e st))
    as [HG' [Hs1 Hs2]]; auto; try lia.
  set (s := clt keye (keye e) all + ceq keye (keye e) P) in *.
  assert (Hother : forall e', In e' P -> 0 <= keye e' -> getZ (mc_e2i st) e' <> s).
  { intros e' He' Hk' Heq. destruct (HG' e') as [_ G]; [apply in_app_iff; auto|auto|].
    assert (e <> e') by (intros ->; auto).
    assert (He'r : 0 <= e' < njmax) by (apply alle_range; eapply Permutation_in; eauto; apply in_app_iff; auto).
    rewrite (getZ_setZ_other (mc_e2i st) e e' s) in G by lia. rewrite Heq in G. rewrite getZ_setZ_same in G by lia. lia. }
  destruct (Hcnt c) as [C1 [C2 [C3 C4]]]; [lia|].
  assert (Hslot : getZ IADR c + (if q =? 0 then getZ (mc_ne st) c
                                 else if q =? 1 then getZ NE c + getZ (mc_nf st) c
                                 else getZ NE c + getZ NF c + getZ (mc_no st) c) = s).
  { unfold s. rewrite Hkey, HIADR by lia.
    destruct (q =? 0) eqn:E0; [|destruct (q =? 1) eqn:E1].
    - assert (q = 0) by lia. replace (3 * c + q) with (3 * c) by lia. rewrite C1. reflexivity.
    - assert (q = 1) by lia. replace (3 * c + q) with (3 * c + 1) by lia.
      rewrite HNE, C2 by lia. rewrite (clt_succ keye (3 * c)) by lia. lia.
    - assert (q = 2) by lia. replace (3 * c + q) with (3 * c + 1 + 1) by lia.
      rewrite HNE, HNF, C3 by lia. rewrite (clt_succ keye (3 * c + 1)), (clt_succ keye (3 * c)) by lia.
      replace (3 * c + 1 + 1) with (3 * c + 2) by lia. lia. }
  rewrite Hslot.
  unfold KInvE. cbn [mc_ne mc_nf mc_no mc_nefc mc_e2i mc_i2e mc_iid]. rewrite !setZ_length.
  split; [destruct (q =? 0); [rewrite incr_length|]; auto|].
  split; [destruct (q =? 1); [rewrite incr_length|]; auto|].
  split; [destruct (q =? 2); [rewrite incr_length|]; auto|].
  split; [rewrite incr_length; auto|].
  split; [auto|]. split; [auto|]. split; [auto|].
  split; [|split; [auto|split]].
  - intros c' Hc'. destruct (Hcnt c' Hc') as [D1 [D2 [D3 D4]]].
    rewrite !ceq_snoc. rewrite (Hkeq c' 1), (Hkeq c' 2) by lia.
    replace (keye e =? 3 * c') with ((c =? c') && (q =? 0)) by (rewrite <- (Hkeq c' 0) by lia; f_equal; lia).
    assert (G : forall l, length l = Z.to_nat ntree -> getZ (incr l c) c' = getZ l c' + (if c =? c' then 1 else 0))
      by (intros; apply getZ_incr; lia).
    rewrite (G (mc_nefc st)) by auto.
    destruct (q =? 0) eqn:E0, (q =? 1) eqn:E1, (q =? 2) eqn:E2; try lia;
      rewrite ?(G (mc_ne st)), ?(G (mc_nf st)), ?(G (mc_no st)) by auto;
      rewrite D1, D2, D3, D4; destruct (c =? c'); simpl; repeat split; lia.
  - intros e' He' Hk'. apply in_app_iff in He'. destruct He' as [He'|[<-|[]]].
    + assert (e <> e') by (intros ->; auto).
      assert (He'r : 0 <= e' < njmax) by (apply alle_range; eapply Permutation_in; eauto; apply in_app_iff; auto).
      rewrite (getZ_setZ_other (mc_e2i st) e e' s) by lia.
      destruct (HG e' He' Hk') as [[Hlo _] _]. pose proof (clt_nonneg keye (keye e') all).
      rewrite getZ_setZ_other; [apply Hiid; auto| |lia].
      intros Heq. apply (Hother e' He' Hk'). auto.
    + rewrite getZ_setZ_same by lia. apply getZ_setZ_same. lia.
  - intros i Hi. destruct (Z.eq_dec i s) as [->|Hne]; [right; lia|].
    rewrite getZ_setZ_other by lia. apply Hneg; auto.
Qed.

Lemma map_efc_fold : forall R P st, Permutation (P ++ R) all -> KInvE P st ->
  KInvE (P ++ R) (fold_left (map_efc_task na EI IADR NE NF etype) R st).
Proof.
  induction R as [|e R IH]; intros P st Hperm HK.
  - rewrite app_nil_r. auto.
  - cbn [fold_left]. replace (P ++ e :: R) with ((P ++ [e]) ++ R) in * by (rewrite <- app_assoc; reflexivity).
    apply IH; auto. apply (map_efc_step P e R); auto. rewrite <- app_assoc in Hperm. auto.
Qed.
End EfcAlloc.

Lemma nefc_split : forall c l, 0 <= c ->
  cntf (fun e => eisl e =? c) l = ceq keye (3 * c) l + ceq keye (3 * c + 1) l + ceq keye (3 * c + 2) l.
Proof.
  intros c l Hc. unfold ceq.
  rewrite (cntf_split (fun e => eisl e =? c) (fun e => keye e =? 3 * c)
                      (fun e => (eisl e =? c) && negb (ecat e =? 0)) l).
  - rewrite (cntf_split (fun e => (eisl e =? c) && negb (ecat e =? 0)) (fun e => keye e =? 3 * c + 1)
                        (fun e => keye e =? 3 * c + 2) l); [lia| |].
    + intros e _. rewrite (keye_eqb e c 1), (keye_eqb e c 2) by lia. pose proof (ecat_range e). lia.
    + intros e _. rewrite (keye_eqb e c 1), (keye_eqb e c 2) by lia. lia.
  - intros e _. replace (3 * c) with (3 * c + 0) by lia. rewrite (keye_eqb e c 0) by lia. lia.
  - intros e _. replace (3 * c) with (3 * c + 0) by lia. rewrite (keye_eqb e c 0) by lia. lia.
Qed.

Lemma ceq_keye : forall c q l, 0 <= c -> 0 <= q <= 2 ->
  ceq keye (3 * c + q) l = cntf (fun e => (eisl e =? c) && (ecat e =? q)) l.
Proof. intros. unfold ceq. apply cntf_ext. intros. apply keye_eqb; auto. Qed.

Lemma clt_keye : forall c l, 0 <= c ->
  clt keye (3 * c) l = cntf (fun e => (0 <=? eisl e) && (eisl e <? c)) l.
Proof. intros. unfold clt. apply cntf_ext. intros. apply keye_ltb; auto. Qed.

Theorem island_efc_maps_sec : forall nv dof_tree s_cd s_cc s_md s_mc,
  Permutation s_cc (zrange njmax) -> Permutation s_mc (zrange njmax) ->
  let r := island_mapping nv ntree njmax nefc k dof_tree tree_island efc_tree etype s_cd s_cc s_md s_mc in
  let rows := zrange njmax in
  let total := cntf (fun e => 0 <=? eisl e) rows in
  (forall e, 0 <= e < njmax -> getZ (o_efc_island r) e = eisl e) /\
  (forall c, 0 <= c < k ->
     getZ (o_island_nefc r) c = cntf (fun e => eisl e =? c) rows /\
     getZ (o_island_ne r) c = cntf (fun e => (eisl e =? c) && (ecat e =? 0)) rows /\
     getZ (o_island_nf r) c = cntf (fun e => (eisl e =? c) && (ecat e =? 1)) rows /\
     getZ (o_island_iefcadr r) c = cntf (fun e => (0 <=? eisl e) && (eisl e <? c)) rows) /\
  (forall e, 0 <= e < njmax -> 0 <= eisl e ->
     getZ (o_island_iefcadr r) (eisl e) +
       (if ecat e =? 0 then 0 else if ecat e =? 1 then getZ (o_island_ne r) (eisl e)
        else getZ (o_island_ne r) (eisl e) + getZ (o_island_nf r) (eisl e))
     <= getZ (o_map_efc2iefc r) e <
     getZ (o_island_iefcadr r) (eisl e) +
       (if ecat e =? 0 then getZ (o_island_ne r) (eisl e)
        else if ecat e =? 1 then getZ (o_island_ne r) (eisl e) + getZ (o_island_nf r) (eisl e)
        else getZ (o_island_nefc r) (eisl e)) /\
     getZ (o_map_iefc2efc r) (getZ (o_map_efc2iefc r) e) = e /\
     getZ (o_efc_islandid r) (getZ (o_map_efc2iefc r) e) = eisl e) /\
  (forall i, 0 <= i < total ->
     0 <= getZ (o_map_iefc2efc r) i < njmax /\ 0 <= eisl (getZ (o_map_iefc2efc r) i) /\
     getZ (o_map_efc2iefc r) (getZ (o_map_iefc2efc r) i) = i) /\
  (forall i, total <= i < njmax -> getZ (o_efc_islandid r) i = -1).
Proof.
  intros nv dof_tree s_cd s_cc s_md s_mc Hp1 Hp2.
  rewrite island_mapping_eq. cbv zeta.
  set (cd := st_cd nv ntree dof_tree tree_island s_cd).
  set (cc := st_cc njmax nefc ntree efc_tree tree_island etype s_cc).
  set (ss := st_ss k ntree cd cc).
  set (mc := st_mc njmax nefc ntree cc ss etype s_mc).
  cbn [o_efc_island o_island_nefc o_island_ne o_island_nf o_island_iefcadr o_map_efc2iefc o_map_iefc2efc o_efc_islandid].
  assert (Hall : forall e, In e all -> 0 <= e < njmax) by (intros; apply in_zrange; auto).
  assert (Hin : forall e, 0 <= e < njmax -> In e all) by (intros; apply in_zrange; auto).
  (* 1. counting launch *)
  destruct (count_efc_fold s_cc (mkCC (zfill njmax (-1)) (zfill ntree 0) (zfill ntree 0) (zfill ntree 0)))
    as [C1 [C2 [C3 [C4 [C5 [C6 C7]]]]]].
  { intros e He. apply Hall. apply (Permutation_in _ Hp1 He). }
  { apply zfill_length. } { apply zfill_length. } { apply zfill_length. } { apply zfill_length. }
  fold (st_cc njmax nefc ntree efc_tree tree_island etype s_cc) in C1, C2, C3, C4, C5, C6, C7.
  fold cc in C1, C2, C3, C4, C5, C6, C7. cbn [cc_island cc_nefc cc_ne cc_nf] in C6, C7.
  assert (HEI : forall e, 0 <= e < njmax -> getZ (cc_island cc) e = eisl e).
  { intros e He. destruct (Z_lt_ge_dec e na).
    - apply C5; auto. eapply Permutation_in; [apply Permutation_sym; eauto|auto].
    - rewrite C6 by (auto; lia). rewrite getZ_zfill by lia. unfold row_isl.
      replace (e <? na) with false by lia. reflexivity. }
  assert (HC : forall c, 0 <= c < k ->
     getZ (cc_nefc cc) c = cntf (fun e => eisl e =? c) all /\
     getZ (cc_ne cc) c = ceq keye (3 * c) all /\ getZ (cc_nf cc) c = ceq keye (3 * c + 1) all).
  { intros c Hc. destruct (C7 c) as [J1 [J2 J3]]; [lia|]. rewrite getZ_zfill in J1, J2, J3 by lia.
    rewrite J1, J2, J3. rewrite !(cntf_perm _ _ _ Hp1).
    rewrite (ceq_keye c 1) by lia. replace (3 * c) with (3 * c + 0) by lia. rewrite (ceq_keye c 0) by lia.
    repeat split; lia. }
  (* 2. scan *)
  destruct (count_dofs_lengths dof_tree tree_island s_cd (zfill nv (-1), zfill ntree 0)) as [_ LV].
  fold (st_cd nv ntree dof_tree tree_island s_cd) in LV. fold cd in LV. cbn [snd] in LV. rewrite zfill_length in LV.
  destruct (scan_sizes_spec k ntree (zfill ntree 0) (snd cd) (cc_nefc cc)
              (psum (snd cd)) (fun c => clt keye (3 * c) all)) as [S1 [S2 [S3 [S4 [S5 S6]]]]]; auto.
  { apply zfill_length. } { apply clt_zero. }
  { intros j Hj. apply psum_succ. lia. }
  { intros j Hj. destruct (HC j Hj) as [H1 _]. rewrite H1, nefc_split by lia.
    replace (3 * (j + 1)) with (3 * j + 2 + 1) by lia.
    rewrite (clt_succ keye (3 * j + 2)) by lia.
    replace (3 * j + 2) with (3 * j + 1 + 1) at 1 by lia. rewrite (clt_succ keye (3 * j + 1)) by lia.
    rewrite (clt_succ keye (3 * j)) by lia. lia. }
  fold (st_ss k ntree cd cc) in S1, S2, S3, S4, S5, S6. fold ss in S1, S2, S3, S4, S5, S6.
  (* 3. allocating launch *)
  assert (HK0 : KInvE [] (mkMC (zfill ntree 0) (zfill ntree 0) (zfill ntree 0) (ss_nefc ss)
                               (zfill njmax 0) (zfill njmax 0) (zfill njmax (-1)))).
  { unfold KInvE. cbn [mc_ne mc_nf mc_no mc_nefc mc_e2i mc_i2e mc_iid]. rewrite !zfill_length.
    do 7 (split; [auto|]). split; [|split; [apply GInv_nil|split; [intros e []|]]].
    - intros c Hc. destruct (S5 c Hc) as [_ [_ [_ Z0]]]. rewrite Z0, !getZ_zfill by lia.
      unfold ceq. rewrite !cntf_nil. repeat split; lia.
    - intros i Hi. left. apply getZ_zfill; auto. }
  pose proof (map_efc_fold (cc_island cc) (ss_iefcadr ss) (cc_ne cc) (cc_nf cc) C1 HEI S2
                (fun c Hc => proj1 (proj2 (S5 c Hc)))
                (fun c Hc => proj1 (proj2 (HC c Hc))) (fun c Hc => proj2 (proj2 (HC c Hc)))
                s_mc [] _ Hp2 HK0) as HKf.
  fold (st_mc njmax nefc ntree cc ss etype s_mc) in HKf. fold mc in HKf. cbn [app] in HKf.
  destruct HKf as [L1 [L2 [L3 [L4 [L5 [L6 [L7 [Hcnt [HG [Hiid Hneg]]]]]]]]]].
  destruct (GInv_final keye all (3 * k) (NoDup_zrange njmax) alle_key s_mc (mc_e2i mc) (mc_i2e mc) Hp2 HG)
    as [G1 G2].
  assert (Htot : clt keye (3 * k) all = cntf (fun e => 0 <=? eisl e) all).
  { rewrite clt_keye by lia. apply cntf_ext. intros e He. pose proof (eisl_range e (proj1 (Hall e He))). lia. }
  assert (Hcf : forall c, 0 <= c < k ->
     getZ (mc_nefc mc) c = ceq keye (3 * c) all + ceq keye (3 * c + 1) all + ceq keye (3 * c + 2) all).
  { intros c Hc. destruct (Hcnt c Hc) as [_ [_ [_ D4]]]. rewrite D4.
    rewrite !(ceq_perm keye _ _ _ Hp2). reflexivity. }
  split; [auto|].
  split.
  { intros c Hc. destruct (HC c Hc) as [H1 [H2 H3]]. destruct (S5 c Hc) as [_ [B _]].
    split; [rewrite Hcf, nefc_split by lia; reflexivity|].
    split; [rewrite H2; replace (3 * c) with (3 * c + 0) by lia; apply ceq_keye; lia|].
    split; [rewrite H3; apply ceq_keye; lia|].
    rewrite B. apply clt_keye. lia. }
  split.
  { intros e He Hge. pose proof (eisl_range e (proj1 He)) as Hir. pose proof (ecat_range e) as Hq.
    set (c := eisl e) in *.
    assert (Hkey : keye e = 3 * c + ecat e) by (unfold keye; fold c; replace (0 <=? c) with true by lia; auto).
    destruct (G1 e (Hin e He)) as [[Glo Ghi] Ginv]; [lia|]. rewrite Hkey in Glo, Ghi.
    destruct (HC c) as [_ [H2 H3]]; [lia|]. destruct (S5 c) as [_ [B _]]; [lia|].
    rewrite B, H2, H3, Hcf by lia.
    pose proof (clt_succ keye (3 * c) all). pose proof (clt_succ keye (3 * c + 1) all).
    replace (3 * c + 1 + 1) with (3 * c + 2) in * by lia.
    split; [|split; [auto|]].
    - destruct (ecat e =? 0) eqn:E0; [|destruct (ecat e =? 1) eqn:E1].
      + replace (3 * c + ecat e) with (3 * c) in * by lia. lia.
      + replace (3 * c + ecat e) with (3 * c + 1) in * by lia. lia.
      + replace (3 * c + ecat e) with (3 * c + 2) in * by lia. lia.
    - apply Hiid; [|lia]. eapply Permutation_in; [apply Permutation_sym; eauto|auto]. }
  split.
  { intros i Hi. rewrite <- Htot in Hi. destruct (G2 i Hi) as [t [Ht [Hkt [He2i Hi2e]]]].
    rewrite Hi2e. split; [apply Hall; auto|]. split; [|auto].
    unfold keye in Hkt. destruct (0 <=? eisl t) eqn:E; lia. }
  intros i Hi. rewrite <- Htot in Hi. pose proof (clt_nonneg keye (3 * k) all).
  destruct (Hneg i) as [?|Hlt]; [lia|auto|lia].
Qed.
End EfcMaps.


(* ================= G. the whole island() pipeline, and finite checks ================= *)
Lemma island_labels_eq : forall m d n sched stk0, n <> 0 ->
  island m d n sched stk0 =
  (ff_labels n (tree_edges m d n sched) stk0, ff_nisland n (tree_edges m d n sched) stk0).
Proof. intros. unfold island. replace (n =? 0) with false by lia. reflexivity. Qed.

(* every tree a row marks gets an island, and all trees of one row get the same island *)
Theorem row_trees_same_island : forall m d n sched stk0 e a b,
  0 < n -> length stk0 = Z.to_nat (n * n) ->
  In e sched -> In (a, b) (row_marks m d e) -> inr n a -> inr n b ->
  0 <= getZ (fst (island m d n sched stk0)) a /\
  getZ (fst (island m d n sched stk0)) a = getZ (fst (island m d n sched stk0)) b.
Proof.
  intros m d n sched stk0 e a b Hn Hl He Hin Ha Hb.
  rewrite island_labels_eq by lia. cbn [fst].
  destruct (flood_fill_components_sec n (tree_edges m d n sched) Hn (tree_edges_sym_adj m d n sched) stk0 Hl)
    as [_ [_ [_ [_ [H5 _]]]]].
  apply H5; auto.
  assert (Hedge : edge (tree_edges m d n sched) a b) by (apply tree_edges_edge_iff; eauto).
  split; [exists b; auto|]. apply conn_edge; auto.
Qed.

(* the tree _compute_efc_tree assigns to an active row lies in an island: efc.island >= 0 *)
Theorem efc_tree_in_island : forall m d n sched stk0 e,
  0 < n -> length stk0 = Z.to_nat (n * n) ->
  (forall a b, In (a, b) (row_marks m d e) -> inr n a /\ inr n b) ->
  In e sched -> efc_active d e = true -> 0 <= efc_tree_of m d e ->
  0 <= getZ (fst (island m d n sched stk0)) (efc_tree_of m d e).
Proof.
  intros m d n sched stk0 e Hn Hl Hwf He Hact Hge.
  destruct (efc_tree_marked m d e _ Hact eq_refl Hge) as [j Hj].
  destruct (Hwf _ _ Hj) as [Ha Hb].
  apply (row_trees_same_island m d n sched stk0 e _ j); auto.
Qed.

(* ---- finite check: every symmetric graph (self edges included) on 1..4 trees ---- *)
Fixpoint bitvecs (k : nat) : list (list bool) :=
  match k with O => [[]] | S k' => flat_map (fun v => [false :: v; true :: v]) (bitvecs k') end.

Definition sym_of_bits (n : Z) (bits : list bool) : list (list Z) :=
  map (fun i => map (fun j =>
         let a := Z.min i j in let b := Z.max i j in
         if nth (Z.to_nat (b * (b + 1) / 2 + a)) bits false then 1 else 0) (zrange n)) (zrange n).

Fixpoint zleq (a b : list Z) : bool :=
  match a, b with
  | [], [] => true
  | x :: a', y :: b' => (x =? y) && zleq a' b'
  | _, _ => false
  end.

Definition check_graph (n : Z) (bits : list bool) : bool :=
  let adj := sym_of_bits n bits in
  let r := flood_fill n adj (zfill (n * n) 7) in
  let e := ref_labels n adj in
  zleq (lab (fst r)) (fst e) && (snd r =? snd e) && negb (bad (fst r)).

Definition check_n (n : Z) : bool := forallb (check_graph n) (bitvecs (Z.to_nat (n * (n + 1) / 2))).

(* a finite check by computation, NOT the theorem: flood_fill agrees with the independent
   reference labelling ref_labels on all 2 + 8 + 64 + 1024 graphs *)
Example flood_fill_all_graphs_upto_4 : forallb check_n [1; 2; 3; 4] = true.
Proof. vm_compute. reflexivity. Qed.

(* ---- the hypotheses of the theorems are satisfiable; concrete instances ---- *)
Definition ex_adj : list (list Z) := [[0; 0; 1; 0]; [0; 1; 0; 0]; [1; 0; 0; 0]; [0; 0; 0; 0]].

Example ex_adj_sym : sym_adj 4 ex_adj.
Proof.
  intros a b Ha Hb. unfold inr in *.
  assert (Ha' : a = 0 \/ a = 1 \/ a = 2 \/ a = 3) by lia.
  assert (Hb' : b = 0 \/ b = 1 \/ b = 2 \/ b = 3) by lia.
  destruct Ha' as [?|[?|[?|?]]], Hb' as [?|[?|[?|?]]]; subst; vm_compute; auto.
Qed.

Example ex_flood : flood_flat 4 ex_adj (zfill 16 9) = [0; 1; 0; -1; 2; 0] ++ [1; 9; 9; 9; 9; 9; 9; 9; 9; 9; 9; 9; 9; 9; 9; 9].
Proof. vm_compute. reflexivity. Qed.

(* three trees with 2,1,2 dofs; trees 0 and 2 in island 0, tree 1 unconstrained; rows: one
   friction row on tree 2, one equality on tree 0, one contact on tree 2, one row without tree *)
Example ex_maps :
  imap_flat (island_mapping 5 3 6 4 1 [0; 0; 1; 2; 2] [0; -1; 0] [2; 0; 2; -1; -1; -1] [1; 0; 6; 4; 0; 0]
                            [4; 2; 0; 1; 3] [3; 1; 0; 2; 5; 4] [3; 0; 4; 1; 2] [2; 5; 0; 1; 4; 3])
  = [0; 0; -1; 0; 0] ++ [4; 0; 0] ++ [0; 0; 0] ++ [0; 5; 5] ++ [4]
    ++ [1; 3; 4; 0; 2] ++ [3; 0; 4; 1; 2] ++ [0; 0; 0; 0; -1]
    ++ [0; 0; 0; -1; -1; -1] ++ [3; 0; 0] ++ [1; 0; 0] ++ [1; 0; 0] ++ [0; 0; 0]
    ++ [1; 0; 2; 0; 0; 0] ++ [1; 0; 2; 0; 0; 0] ++ [0; 0; 0; -1; -1; -1].
Proof. vm_compute. reflexivity. Qed.

Example ex_hypotheses :
  0 < 4 /\ sym_adj 4 ex_adj /\ length (zfill 16 9) = Z.to_nat (4 * 4) /\
  ff_labels 4 ex_adj (zfill 16 9) = [0; 1; 0; -1] /\ ff_nisland 4 ex_adj (zfill 16 9) = 2.
Proof.
  split; [reflexivity|]. split; [exact ex_adj_sym|]. split; [reflexivity|]. split; reflexivity.
Qed.

(* the allocation matters: the complete graph on 5 trees drives the stack to depth 7 > ntree;
   with only ntree slots the model's out-of-bounds flag is raised (seeded change C17-3) *)
Definition ex_K5 : list (list Z) := map (fun i => map (fun j => if i =? j then 0 else 1) (zrange 5)) (zrange 5).
Example ex_K5_depth : nnz_off 5 ex_K5 = 20 /\ ff_bad 5 ex_K5 (zfill 5 0) = true /\
                      ff_bad 5 ex_K5 (zfill 6 0) = true /\ ff_bad 5 ex_K5 (zfill 7 0) = false.
Proof. vm_compute. repeat split; reflexivity. Qed.

(* depth of the explicit stack <= 1 + number of directed off-diagonal edges: any scratch array of
   at least that many ints is never overrun (the ghost flag records every out-of-range write) *)
Theorem flood_fill_stack_depth_le_edges : forall n adj stk0, 0 < n -> sym_adj n adj ->
  1 + nnz_off n adj <= Z.of_nat (length stk0) -> ff_bad n adj stk0 = false.
Proof.
  intros n adj stk0 Hn Hsym Hcap.
  apply (flood_fill_components_cap n adj Hn Hsym (length stk0) Hcap stk0 eq_refl).
Qed.
