(* Proof/WakeTree.v -- the procedure sleep._wake_tree, as machine-translated into
   Gen/T_sleep.v (p__wake_tree), merges wake values by MINIMUM; therefore two wakes of the same
   tree commute (C11: the result of a launch in which several tasks wake one tree does not
   depend on the task order; C29: "a sleeping tree wakes when ...").

   Scope: trees that are awake (tree_asleep < 0) or asleep in a ONE-tree cycle
   (tree_asleep[w,t] = t).  For multi-tree cycles the unchanged code is order dependent
   (C11_wake_collision_refuted, known finding C29:wake:order-dependent-countdown). *)
From Coq Require Import ZArith List Bool String Lia.
From VF Require Import Base.Scalar Base.Vec Base.Loop Base.Kernel Base.KernelRd Gen.T_sleep.
Import ListNotations.
Local Open Scope Z_scope.

Section WakeTree.
  Context {S : Type} `{Sc : Scalar S}.

  Definition TA : string := "tree_asleep_out"%string.

  (* the array after the writes of a procedure call *)
  Definition after (ws : list (write S)) (f : Z -> Z -> Z) : Z -> Z -> Z :=
    fun w t => rdZ ws TA [w; t] (f w t).

  Definition wake (ntree w t v : Z) (orc : nat -> Z) (f : Z -> Z -> Z) : Z -> Z -> Z :=
    after (p__wake_tree ntree w t v f orc) f.

  (* pointwise update *)
  Definition upd (f : Z -> Z -> Z) (w t v : Z) : Z -> Z -> Z :=
    fun w' t' => if (w' =? w) && (t' =? t) then v else f w' t'.

  Lemma rdZ_nil a idx x : rdZ (@nil (write S)) a idx x = x.
  Proof. reflexivity. Qed.

  Lemma rdZ_one w t v w' t' x :
    rdZ [mkW TA [w; t] KSet (VZ v)] TA [w'; t'] x = if (w' =? w) && (t' =? t) then v else x.
  Proof.
    unfold rdZ, rdv, rd_val. cbn [fold_left w_arr w_idx w_kind w_val].
    replace (String.eqb TA TA) with true by (symmetry; apply String.eqb_refl).
    cbn [andb zs_eqb].
    rewrite (Z.eqb_sym w w'), (Z.eqb_sym t t').
    destruct (w' =? w); cbn [andb]; [| reflexivity].
    destruct (t' =? t); cbn [andb]; reflexivity.
  Qed.

  Lemma for_nat_fixed {A : Type} (f : Z -> A -> A) (acc : A) :
    (forall i, f i acc = acc) -> forall n i, for_nat n i acc f = acc.
  Proof.
    intros Hf n. induction n as [|n IH]; intro i; cbn [for_nat]; [reflexivity|].
    rewrite Hf. apply IH.
  Qed.

  (* ---- an awake tree: the stored countdown becomes the minimum ------------------------- *)
  Lemma wake_awake ntree w t v orc f :
    0 <= t < ntree -> f w t < 0 ->
    forall w' t', wake ntree w t v orc f w' t' = upd f w t (Z.min (f w t) v) w' t'.
  Proof.
    intros Ht Ha w' t'. unfold wake, after, p__wake_tree, upd.
    assert (H1 : (t <? 0) = false) by (apply Z.ltb_ge; lia).
    assert (H2 : (t >=? ntree) = false) by (rewrite Z.geb_leb; apply Z.leb_gt; lia).
    assert (H3 : (f w t <? 0) = true) by (apply Z.ltb_lt; lia).
    rewrite H1, H2. cbn [orb]. rewrite rdZ_nil, H3.
    destruct (v <? f w t) eqn:Hv.
    - cbn [app]. rewrite rdZ_one.
      apply Z.ltb_lt in Hv. rewrite Z.min_r by lia. reflexivity.
    - rewrite rdZ_nil. apply Z.ltb_ge in Hv. rewrite Z.min_l by lia.
      destruct ((w' =? w) && (t' =? t)) eqn:E; [| reflexivity].
      apply andb_prop in E. destruct E as [E1 E2].
      apply Z.eqb_eq in E1, E2. subst. reflexivity.
  Qed.

  (* ---- a tree asleep in a one-tree cycle: it receives the wake value -------------------- *)
  Lemma wake_asleep_self ntree w t v orc f :
    0 <= t < ntree -> f w t = t ->
    forall w' t', wake ntree w t v orc f w' t' = upd f w t v w' t'.
  Proof.
    intros Ht Hs w' t'. unfold wake, after, p__wake_tree, upd.
    assert (H1 : (t <? 0) = false) by (apply Z.ltb_ge; lia).
    assert (H2 : (t >=? ntree) = false) by (rewrite Z.geb_leb; apply Z.leb_gt; lia).
    rewrite H1, H2. cbn [orb]. rewrite rdZ_nil, Hs, H1.
    unfold for_range.
    replace (Z.to_nat (ntree + 1 - 0)) with (Datatypes.S (Z.to_nat ntree)) by lia.
    cbn [for_nat]. cbn [fst snd negb].
    rewrite rdZ_nil, Hs, H1, H2. cbn [orb negb fst snd]. rewrite Z.eqb_refl. cbn [fst snd].
    rewrite for_nat_fixed; [cbn [fst snd]; apply rdZ_one |].
    intro i. cbn [fst snd negb]. reflexivity.
  Qed.

  (* ---- two wakes commute, and leave the minimum ------------------------------------------ *)
  Definition wakeable (ntree w t : Z) (f : Z -> Z -> Z) : Prop :=
    0 <= t < ntree /\ (f w t < 0 \/ f w t = t).

  Lemma upd_same f w t v : upd f w t v w t = v.
  Proof. unfold upd. rewrite !Z.eqb_refl. reflexivity. Qed.

  Lemma upd_upd f w t a b w' t' : upd (upd f w t a) w t b w' t' = upd f w t b w' t'.
  Proof. unfold upd. destruct ((w' =? w) && (t' =? t)); reflexivity. Qed.

  Theorem wake_twice ntree w t v1 v2 orc1 orc2 f :
    wakeable ntree w t f -> v1 < 0 -> v2 < 0 ->
    forall w' t',
      wake ntree w t v2 orc2 (wake ntree w t v1 orc1 f) w' t'
      = upd f w t (if f w t <? 0 then Z.min (f w t) (Z.min v1 v2) else Z.min v1 v2) w' t'.
  Proof.
    intros [Ht [Ha | Hs]] Hv1 Hv2 w' t'.
    - (* awake *)
      assert (H3 : (f w t <? 0) = true) by (apply Z.ltb_lt; lia). rewrite H3.
      set (g := wake ntree w t v1 orc1 f).
      assert (Hg : forall a b, g a b = upd f w t (Z.min (f w t) v1) a b) by (intros; apply wake_awake; assumption).
      assert (Hgt : g w t < 0) by (rewrite Hg, upd_same; lia).
      rewrite (wake_awake ntree w t v2 orc2 g Ht Hgt).
      unfold upd at 1. rewrite (Hg w t), upd_same, (Hg w' t').
      unfold upd. destruct ((w' =? w) && (t' =? t)); [| reflexivity].
      rewrite Z.min_assoc. reflexivity.
    - (* asleep, one-tree cycle *)
      assert (H3 : (f w t <? 0) = false) by (apply Z.ltb_ge; lia). rewrite H3.
      set (g := wake ntree w t v1 orc1 f).
      assert (Hg : forall a b, g a b = upd f w t v1 a b) by (intros; apply wake_asleep_self; assumption).
      assert (Hgt : g w t < 0) by (rewrite Hg, upd_same; lia).
      rewrite (wake_awake ntree w t v2 orc2 g Ht Hgt).
      unfold upd at 1. rewrite (Hg w t), upd_same, (Hg w' t').
      unfold upd. destruct ((w' =? w) && (t' =? t)); reflexivity.
  Qed.

  Theorem wake_commute ntree w t v1 v2 o1 o2 o3 o4 f :
    wakeable ntree w t f -> v1 < 0 -> v2 < 0 ->
    forall w' t',
      wake ntree w t v2 o2 (wake ntree w t v1 o1 f) w' t'
      = wake ntree w t v1 o4 (wake ntree w t v2 o3 f) w' t'.
  Proof.
    intros Hw H1 H2 w' t'.
    rewrite (wake_twice ntree w t v1 v2 o1 o2 f Hw H1 H2), (wake_twice ntree w t v2 v1 o3 o4 f Hw H2 H1).
    rewrite (Z.min_comm v2 v1). reflexivity.
  Qed.

  (* wakes of DIFFERENT trees of that kind commute as well (they touch different cells, and a tree
     that is awake or alone in its cycle reads only its own cell) *)
  Theorem wake_other_untouched ntree w t v orc f :
    wakeable ntree w t f -> forall w' t', (w', t') <> (w, t) -> wake ntree w t v orc f w' t' = f w' t'.
  Proof.
    intros [Ht [Ha | Hs]] w' t' Hne.
    - rewrite wake_awake by assumption. unfold upd.
      destruct ((w' =? w) && (t' =? t)) eqn:E; [| reflexivity].
      apply andb_prop in E. destruct E as [E1 E2]. apply Z.eqb_eq in E1, E2. subst. contradiction.
    - rewrite wake_asleep_self by assumption. unfold upd.
      destruct ((w' =? w) && (t' =? t)) eqn:E; [| reflexivity].
      apply andb_prop in E. destruct E as [E1 E2]. apply Z.eqb_eq in E1, E2. subst. contradiction.
  Qed.
End WakeTree.

(* the hypotheses are satisfiable: tree 1 of 3 asleep alone, woken with -11 then -3 and with -3 then -11 *)
Example wake_example :
  let f := fun (_ t : Z) => if t =? 1 then 1 else (-5) in
  wakeable 3 0 1 f /\ -11 < 0 /\ -3 < 0.
Proof. cbn. unfold wakeable. cbn. lia. Qed.
