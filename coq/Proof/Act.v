(* Proof/Act.v -- C03: lemmas over R about
     (a) the hand model Model/Act.v of forward.py's actuation kernels (tied to the real kernels by
         the correspondence run of bin/props/C03.py), and
     (b) `next_act` of support.py as REGENERATED in Gen/support_act.v on every run.
   Not covered: DC-motor dyntype/gaintype/biastype (T-validation + oracle only), transmission
   geometry (actuator_length / moment: oracle only), float32 rounding. *)
From Coq Require Import ZArith Reals List Bool Lra Lia Psatz.
From VF Require Import Base.Scalar Base.ScalarR Base.Vec Base.Loop Gen.support_act Gen.util_misc Model.Act.
Import ListNotations.
Local Open Scope R_scope.

(* ---- wp.clamp over R ---- *)
Definition Rclamp (x lo hi : R) : R := @sclamp R ScalarR x lo hi.

Lemma Rclamp_range x lo hi : lo <= hi -> lo <= Rclamp x lo hi <= hi.
Proof.
  intros Hl. unfold Rclamp. sR.
  destruct (Rltb x lo) eqn:E1.
  - apply Rltb_true in E1. destruct (Rltb hi lo) eqn:E2.
    + apply Rltb_true in E2. lra.
    + apply Rltb_false in E2. lra.
  - apply Rltb_false in E1. destruct (Rltb hi x) eqn:E2.
    + apply Rltb_true in E2. lra.
    + apply Rltb_false in E2. lra.
Qed.

Lemma Rclamp_id x lo hi : lo <= x <= hi -> Rclamp x lo hi = x.
Proof.
  intros Hx. unfold Rclamp. sR.
  destruct (Rltb x lo) eqn:E1.
  - apply Rltb_true in E1. lra.
  - destruct (Rltb hi x) eqn:E2; [apply Rltb_true in E2; lra | reflexivity].
Qed.

Lemma Rclamp_below x lo hi : lo <= hi -> x <= lo -> Rclamp x lo hi = lo.
Proof.
  intros Hl Hx. unfold Rclamp. sR.
  destruct (Rltb x lo) eqn:E1.
  - destruct (Rltb hi lo) eqn:E2; [apply Rltb_true in E2; lra | reflexivity].
  - apply Rltb_false in E1. destruct (Rltb hi x) eqn:E2; [apply Rltb_true in E2; lra | lra].
Qed.

Lemma Rclamp_above x lo hi : lo <= hi -> hi <= x -> Rclamp x lo hi = hi.
Proof.
  intros Hl Hx. unfold Rclamp. sR.
  destruct (Rltb x lo) eqn:E1.
  - apply Rltb_true in E1. destruct (Rltb hi lo) eqn:E2; [reflexivity | apply Rltb_false in E2; lra].
  - destruct (Rltb hi x) eqn:E2; [reflexivity | apply Rltb_false in E2; lra].
Qed.

(* ---- ctrl clamp ---- *)
Lemma ctrl_used_range (dsbl : Z) (rng : list R) (ctrl : R) :
  dsbl = 0%Z -> vget rng 0 <= vget rng 1 ->
  vget rng 0 <= ctrl_used true dsbl rng ctrl <= vget rng 1.
Proof. intros -> Hl. unfold ctrl_used. simpl. apply Rclamp_range. exact Hl. Qed.

Lemma ctrl_used_id (dsbl : Z) (rng : list R) (ctrl : R) :
  vget rng 0 <= ctrl <= vget rng 1 -> ctrl_used true dsbl rng ctrl = ctrl.
Proof.
  intros Hx. unfold ctrl_used. destruct (true && (dsbl =? 0)%Z); [apply Rclamp_id; exact Hx | reflexivity].
Qed.

Lemma ctrl_used_off (lim : bool) (dsbl : Z) (rng : list R) (ctrl : R) :
  lim = false \/ dsbl <> 0%Z -> ctrl_used lim dsbl rng ctrl = ctrl.
Proof.
  intros [-> | Hd]; unfold ctrl_used; [reflexivity|].
  apply Z.eqb_neq in Hd. rewrite Hd, andb_false_r. reflexivity.
Qed.

Section Core.
Variables (na : Z) (h : R) (dsbl : Z) (p : @ActPrm R).
Let lo := vget (p_ctrlrange p) 0.
Let hi := vget (p_ctrlrange p) 1.

Lemma ctrl_clamped (ctrl act len vel : R) :
  p_ctrllimited p = true -> dsbl = 0%Z -> lo <= hi ->
  let c := ctrl_used (p_ctrllimited p) dsbl (p_ctrlrange p) ctrl in
  lo <= c <= hi
  /\ (lo <= ctrl <= hi -> c = ctrl) /\ (ctrl <= lo -> c = lo) /\ (hi <= ctrl -> c = hi)
  /\ act_force na h dsbl p ctrl act len vel = force_after_clamp na h p c act len vel
  /\ act_dot_out dsbl p ctrl act = act_dot_of (p_dyntype p) (p_dynprm p) c act.
Proof.
  intros Hl -> Hr. rewrite Hl. cbv zeta.
  split; [apply ctrl_used_range; [reflexivity | exact Hr]|].
  split; [intros Hx; apply ctrl_used_id; exact Hx|].
  split; [intros Hx; unfold ctrl_used; simpl; apply Rclamp_below; assumption|].
  split; [intros Hx; unfold ctrl_used; simpl; apply Rclamp_above; assumption|].
  unfold act_force, act_dot_out. rewrite Hl. split; reflexivity.
Qed.

Lemma ctrl_not_clamped (ctrl act len vel : R) :
  p_ctrllimited p = false \/ dsbl <> 0%Z ->
  act_force na h dsbl p ctrl act len vel = force_after_clamp na h p ctrl act len vel
  /\ act_dot_out dsbl p ctrl act = act_dot_of (p_dyntype p) (p_dynprm p) ctrl act.
Proof.
  intros Hd. unfold act_force, act_dot_out. rewrite (ctrl_used_off _ _ _ _ Hd). split; reflexivity.
Qed.

Lemma force_in_range (ctrl act len vel : R) :
  p_forcelimited p = true ->
  vget (p_forcerange p) 0 <= vget (p_forcerange p) 1 ->
  vget (p_forcerange p) 0 <= act_force na h dsbl p ctrl act len vel <= vget (p_forcerange p) 1.
Proof.
  intros Hl Hr. unfold act_force, force_after_clamp, force_clamp. rewrite Hl.
  apply Rclamp_range. exact Hr.
Qed.

Lemma force_unlimited (ctrl act len vel : R) :
  p_forcelimited p = false ->
  act_force na h dsbl p ctrl act len vel =
  gain_of p len vel * ctrl_act_of na h p (ctrl_used (p_ctrllimited p) dsbl (p_ctrlrange p) ctrl) act + bias_of p len vel.
Proof.
  intros Hl. unfold act_force, force_after_clamp, force_clamp. rewrite Hl. reflexivity.
Qed.
End Core.

(* ---- next_act (translated) ---- *)
Definition minval : R := 1 / 1000000000000000.
Definition tau_of (prm : list R) : R := Rmax minval (vget prm 0).

Lemma minval_pos : 0 < minval.
Proof. unfold minval. lra. Qed.
Lemma tau_pos prm : 0 < tau_of prm.
Proof. unfold tau_of. pose proof (Rmax_l minval (vget prm 0)). pose proof minval_pos. lra. Qed.

Lemma smax_R a b : @smax R ScalarR a b = Rmax a b.
Proof.
  unfold smax. sR. destruct (Rltb a b) eqn:E.
  - apply Rltb_true in E. rewrite Rmax_right; lra.
  - apply Rltb_false in E. rewrite Rmax_left; lra.
Qed.

Lemma MINVAL_R : @MINVAL R ScalarR = minval.
Proof. unfold MINVAL, minval. sR. reflexivity. Qed.

Lemma slit_minval : @slit R ScalarR 1 1000000000000000 = minval.
Proof. unfold minval. sR. reflexivity. Qed.

Lemma next_act_euler h dyn prm rng a ad sc :
  dyn <> 3%Z -> dyn <> 7%Z ->
  next_act h dyn prm rng a ad sc false = a + sc * ad * h.
Proof.
  intros H3 H7. unfold next_act.
  apply Z.eqb_neq in H3. apply Z.eqb_neq in H7. rewrite H3, H7. sR. reflexivity.
Qed.

Lemma next_act_filterexact h prm rng a ad sc :
  next_act h 3 prm rng a ad sc false = a + sc * ad * tau_of prm * (1 - exp (- h / tau_of prm)).
Proof.
  unfold next_act. simpl Z.eqb. cbv iota. cbv zeta.
  rewrite smax_R. rewrite !slit_minval. fold (tau_of prm). sR. reflexivity.
Qed.

(* dyntype user: the activation is not integrated by next_act (act_dyn_callback owns it) ... *)
Lemma next_act_user h prm rng a ad sc : next_act h 7 prm rng a ad sc false = a.
Proof. reflexivity. Qed.

(* ... but IS clamped when actlimited (since /repo 0fa25c6, as mj_nextActivation does) *)
Lemma next_act_user_clamped h prm rng a ad sc :
  next_act h 7 prm rng a ad sc true = Rclamp a (vget rng 0) (vget rng 1).
Proof. reflexivity. Qed.

(* every dyntype: the clamped result is the clamp of the unclamped one *)
Lemma next_act_clamp h dyn prm rng a ad sc :
  next_act h dyn prm rng a ad sc true = Rclamp (next_act h dyn prm rng a ad sc false) (vget rng 0) (vget rng 1).
Proof. unfold next_act. destruct (dyn =? 3)%Z; [reflexivity|]. destruct (dyn =? 7)%Z; reflexivity. Qed.

Lemma next_act_limited h dyn prm rng a ad sc :
  vget rng 0 <= vget rng 1 ->
  vget rng 0 <= next_act h dyn prm rng a ad sc true <= vget rng 1.
Proof. intros Hr. rewrite next_act_clamp. apply Rclamp_range. exact Hr. Qed.

Lemma next_act_limited_id h dyn prm rng a ad sc :
  vget rng 0 <= next_act h dyn prm rng a ad sc false <= vget rng 1 ->
  next_act h dyn prm rng a ad sc true = next_act h dyn prm rng a ad sc false.
Proof. intros Hr. rewrite next_act_clamp. apply Rclamp_id. exact Hr. Qed.

(* filter: act_dot as _actuator_force computes it *)
Lemma act_dot_filter dyn prm c a :
  dyn = 2%Z \/ dyn = 3%Z -> act_dot_of dyn prm c a = (c - a) / tau_of prm.
Proof.
  intros [-> | ->]; unfold act_dot_of; cbv [DYN_INTEGRATOR DYN_FILTER DYN_FILTEREXACT Z.eqb Pos.eqb orb]; rewrite smax_R, MINVAL_R; unfold tau_of; rewrite Rmax_comm; sR; reflexivity.
Qed.

Lemma act_dot_integrator prm c a : act_dot_of 1 prm c a = c.
Proof. reflexivity. Qed.
Lemma act_dot_none prm c a : act_dot_of 0 prm c a = 0.
Proof. unfold act_dot_of. simpl. sR. reflexivity. Qed.

(* one filterexact step end to end: closed form *)
Lemma filterexact_step h prm rng c a :
  next_act h 3 prm rng a (act_dot_of 3 prm c a) 1 false = c + (a - c) * exp (- h / tau_of prm).
Proof.
  rewrite next_act_filterexact, act_dot_filter by (right; reflexivity).
  pose proof (tau_pos prm). field. lra.
Qed.

(* one filter (Euler) step end to end *)
Lemma filter_step h prm rng c a :
  next_act h 2 prm rng a (act_dot_of 2 prm c a) 1 false = a + (c - a) / tau_of prm * h.
Proof.
  rewrite next_act_euler by discriminate. rewrite act_dot_filter by (left; reflexivity). ring.
Qed.

(* the closed form is the solution of  a' = (c - a)/tau, a(0) = act *)
Definition filter_sol (c a tau t : R) : R := c + (a - c) * exp (- t / tau).

Lemma filter_sol_0 c a tau : filter_sol c a tau 0 = a.
Proof. unfold filter_sol. replace (- 0 / tau) with 0 by (unfold Rdiv; ring). rewrite exp_0. ring. Qed.

Lemma filter_sol_ode c a tau t :
  tau <> 0 -> derivable_pt_lim (filter_sol c a tau) t ((c - filter_sol c a tau t) / tau).
Proof.
  intros Ht. unfold filter_sol.
  replace ((c - (c + (a - c) * exp (- t / tau))) / tau)
    with (0 + (a - c) * (exp (- t / tau) * (- 1 / tau))) by (field; exact Ht).
  apply (derivable_pt_lim_plus (fun _ => c) (fun t => (a - c) * exp (- t / tau))).
  - apply derivable_pt_lim_const.
  - apply (derivable_pt_lim_scal (fun t => exp (- t / tau)) (a - c)).
    apply (derivable_pt_lim_comp (fun t => - t / tau) exp).
    + intros eps He. exists (mkposreal 1 Rlt_0_1). intros h0 Hh _.
      replace ((- (t + h0) / tau - - t / tau) / h0 - -1 / tau) with 0 by (field; split; assumption).
      rewrite Rabs_R0. exact He.
    + apply derivable_pt_lim_exp.
Qed.

Lemma lin_deriv k t : derivable_pt_lim (fun t => t * k) t k.
Proof.
  intros eps He. exists (mkposreal 1 Rlt_0_1). intros h0 Hh _.
  replace (((t + h0) * k - t * k) / h0 - k) with 0 by (field; assumption).
  rewrite Rabs_R0. exact He.
Qed.

(* ... and the only one *)
Lemma filter_sol_unique c a tau (y : R -> R) :
  tau <> 0 -> (forall t, derivable_pt_lim y t ((c - y t) / tau)) -> y 0 = a ->
  forall t, y t = filter_sol c a tau t.
Proof.
  intros Ht Hy H0 t.
  set (g := fun t => (y t - c) * exp (t * / tau)).
  assert (Hg : forall t, derivable_pt_lim g t 0).
  { intros u. unfold g.
    replace 0 with (((c - y u) / tau - 0) * exp (u * / tau) + (y u - c) * (exp (u * / tau) * / tau)) by (field; exact Ht).
    apply (derivable_pt_lim_mult (fun t => y t - c) (fun t => exp (t * / tau))).
    - apply (derivable_pt_lim_minus y (fun _ => c)); [apply Hy | apply derivable_pt_lim_const].
    - apply (derivable_pt_lim_comp (fun t => t * / tau) exp); [apply lin_deriv | apply derivable_pt_lim_exp]. }
  assert (Dg : derivable g) by (intros u; exists 0; apply Hg).
  assert (Cg : constant g).
  { apply (null_derivative_1 g Dg). intros u.
    apply (derive_pt_eq_0 g u 0 (Dg u)). apply Hg. }
  specialize (Cg t 0). unfold g in Cg. rewrite H0, Rmult_0_l, exp_0, Rmult_1_r in Cg.
  unfold filter_sol. replace (- t / tau) with (- (t * / tau)) by (unfold Rdiv; ring).
  rewrite exp_Ropp. pose proof (exp_pos (t * / tau)) as Hp.
  replace (a - c) with ((y t - c) * exp (t * / tau)) by exact Cg. field. lra.
Qed.

Lemma filterexact_is_ode_solution (c a tau : R) : tau <> 0 ->
  filter_sol c a tau 0 = a
  /\ (forall t, derivable_pt_lim (filter_sol c a tau) t ((c - filter_sol c a tau t) / tau))
  /\ (forall y : R -> R, (forall t, derivable_pt_lim y t ((c - y t) / tau)) -> y 0 = a ->
                          forall t, y t = filter_sol c a tau t).
Proof.
  intros Ht. split; [apply filter_sol_0|]. split; [intros t; apply filter_sol_ode; exact Ht|].
  intros y Hy H0. apply filter_sol_unique; assumption.
Qed.

(* ---- actearly: the activation that multiplies the gain is the one _next_activation stores ---- *)
Lemma actearly_consistent (na : Z) (h : R) (p : @ActPrm R) (c act : R) :
  has_act na p = true -> p_actearly p = true ->
  ctrl_act_of na h p c act
  = next_activation h p act (act_dot_of (p_dyntype p) (p_dynprm p) c act) 1 true.
Proof. intros Ha He. unfold ctrl_act_of, next_activation. rewrite Ha, He. reflexivity. Qed.

Lemma actlate (na : Z) (h : R) (p : @ActPrm R) (c act : R) :
  has_act na p = true -> p_actearly p = false -> ctrl_act_of na h p c act = act.
Proof. intros Ha He. unfold ctrl_act_of. rewrite Ha, He. reflexivity. Qed.

Lemma stateless (na : Z) (h : R) (p : @ActPrm R) (c act : R) :
  has_act na p = false -> ctrl_act_of na h p c act = c.
Proof. intros Ha. unfold ctrl_act_of. rewrite Ha. reflexivity. Qed.

(* ---- tendon total ---- *)
Fixpoint tsum (trn : list (Z * Z)) (force : list R) (tid : Z) : R :=
  match trn, force with
  | (ty, id) :: trn', f :: force' =>
      (if (ty =? TRN_TENDON)%Z && (id =? tid)%Z then f else 0) + tsum trn' force' tid
  | _, _ => 0
  end.

Definition tstep (tid : Z) (acc : R) (tf : Z * Z * R) : R :=
  let '((ty, id), f) := tf in if (ty =? TRN_TENDON)%Z && (id =? tid)%Z then acc + f else acc.

Lemma ten_total_fold trn force tid : ten_total trn force tid = fold_left (tstep tid) (combine trn force) 0.
Proof. reflexivity. Qed.

Lemma fold_tsum tid trn : forall force acc,
  fold_left (tstep tid) (combine trn force) acc = acc + tsum trn force tid.
Proof.
  induction trn as [|[ty id] trn IH]; intros force acc; [simpl; ring|].
  destruct force as [|f force]; [simpl; ring|].
  simpl. rewrite IH. destruct ((ty =? TRN_TENDON)%Z && (id =? tid)%Z); ring.
Qed.

Lemma ten_total_tsum trn force tid : ten_total trn force tid = tsum trn force tid.
Proof. rewrite ten_total_fold, fold_tsum. ring. Qed.

Lemma tsum_scaled (g : Z * Z -> R -> R) (k : R) tid trn : 
  (forall f, g (TRN_TENDON, tid) f = f * k) ->
  forall force,
  tsum trn (map (fun tf => g (fst tf) (snd tf)) (combine trn force)) tid = tsum trn force tid * k.
Proof.
  intros Hg. induction trn as [|[ty id] trn IH]; intros force; [simpl; ring|].
  destruct force as [|f force]; [simpl; ring|].
  simpl. rewrite IH.
  destruct (ty =? TRN_TENDON)%Z eqn:E1; destruct (id =? tid)%Z eqn:E2; simpl; try ring.
  apply Z.eqb_eq in E1. apply Z.eqb_eq in E2. subst. rewrite Hg. ring.
Qed.

Lemma ten_scale_R lo hi tot f :
  @ten_scale R ScalarR lo hi tot f
  = f * (if Rlt_dec tot lo then lo / tot else if Rlt_dec hi tot then hi / tot else 1).
Proof.
  unfold ten_scale. sR. unfold Rltb.
  destruct (Rlt_dec tot lo); [reflexivity|]. destruct (Rlt_dec hi tot); [reflexivity | ring].
Qed.

Lemma tendon_limit_total (limited : Z -> bool) (range : Z -> list R) (trn : list (Z * Z)) (force : list R) (tid : Z) :
  limited tid = true ->
  let lo := vget (range tid) 0 in
  let hi := vget (range tid) 1 in
  let T := ten_total trn force tid in
  lo <= hi ->
  (T < lo \/ hi < T -> T <> 0) ->
  ten_total trn (ten_clamp limited range trn force) tid = Rclamp T lo hi
  /\ lo <= ten_total trn (ten_clamp limited range trn force) tid <= hi.
Proof.
  intros Hl lo hi T Hr Hz.
  assert (E : ten_total trn (ten_clamp limited range trn force) tid = Rclamp T lo hi).
  { rewrite ten_total_tsum. unfold ten_clamp.
    rewrite (tsum_scaled (ten_clamp_one limited range (ten_total trn force))
               (if Rlt_dec T lo then lo / T else if Rlt_dec hi T then hi / T else 1)).
    - rewrite <- ten_total_tsum. fold T.
      destruct (Rlt_dec T lo) as [H1|H1].
      + rewrite Rclamp_below by lra. field. apply Hz. left. exact H1.
      + destruct (Rlt_dec hi T) as [H2|H2].
        * rewrite Rclamp_above by lra. field. apply Hz. right. exact H2.
        * rewrite Rclamp_id by lra. ring.
    - intros f. unfold ten_clamp_one. rewrite Z.eqb_refl, Hl. apply ten_scale_R. }
  split; [exact E|]. rewrite E. apply Rclamp_range. exact Hr.
Qed.

(* forces of actuators that do not act on a limited tendon are untouched *)
Lemma ten_clamp_other limited range tot ty id (f : R) :
  ty <> TRN_TENDON \/ limited id = false -> ten_clamp_one limited range tot (ty, id) f = f.
Proof.
  intros [Hn | Hl]; unfold ten_clamp_one.
  - apply Z.eqb_neq in Hn. rewrite Hn. reflexivity.
  - rewrite Hl. destruct (ty =? TRN_TENDON)%Z; reflexivity.
Qed.

(* ---- joint limit ---- *)
Lemma jnt_limit ge agc (range : list R) gc q :
  vget range 0 <= vget range 1 ->
  vget range 0 <= qfrc_limit ge agc true range gc q <= vget range 1.
Proof. intros Hr. unfold qfrc_limit. apply Rclamp_range. exact Hr. Qed.

Lemma jnt_limit_id ge agc (range : list R) gc q :
  let q' := if ge && negb (agc =? 0)%Z then q + gc else q in
  vget range 0 <= q' <= vget range 1 -> qfrc_limit ge agc true range gc q = q'.
Proof. intros q' Hr. unfold qfrc_limit. apply Rclamp_id. exact Hr. Qed.

Lemma jnt_unlimited ge agc (range : list R) gc q :
  qfrc_limit ge agc false range gc q = if ge && negb (agc =? 0)%Z then q + gc else q.
Proof. reflexivity. Qed.

(* ---- non-vacuity examples ---- *)
Ltac vg := cbv [vget nth Z.to_nat Pos.to_nat Pos.iter_op Nat.add p_ctrlrange p_forcerange p_ctrllimited p_forcelimited] in *.

Definition ex_prm : @ActPrm R :=
  mkActPrm 3 1 1 0 [1/20;0;0;0;0;0;0;0;0;0] [2;1;0;0;0;0;0;0;0;0] [1;0;-1;0;0;0;0;0;0;0]
           true [-1/2; 1/2] true true [-3; 4] true [-1; 1] 0 [0; 0].

Example ex_ctrl_clamped :
  p_ctrllimited ex_prm = true /\ vget (p_ctrlrange ex_prm) 0 <= vget (p_ctrlrange ex_prm) 1
  /\ ctrl_used (p_ctrllimited ex_prm) 0 (p_ctrlrange ex_prm) 5 = 1.
Proof.
  split; [reflexivity|]. split; [unfold ex_prm; vg; lra|].
  change (ctrl_used true 0 [-1; 1] 5 = 1). unfold ctrl_used. simpl.
  apply (Rclamp_above 5 (-1) 1); lra.
Qed.

Example ex_force_range :
  p_forcelimited ex_prm = true /\ vget (p_forcerange ex_prm) 0 <= vget (p_forcerange ex_prm) 1
  /\ modelled ex_prm = true /\ has_act 1 ex_prm = true.
Proof. repeat split; try reflexivity. unfold ex_prm; vg; lra. Qed.

Example ex_tendon :
  let trn := [(3, 0); (3, 0); (0, 0); (3, 1)]%Z in
  let force := [1; 2; 7; 9] in
  let limited := fun i => (i =? 0)%Z in
  let range := fun _ : Z => [-1; 3/2] in
  ten_total trn force 0 = 3 /\ ten_total trn (ten_clamp limited range trn force) 0 = 3/2.
Proof.
  cbv zeta. split.
  - rewrite ten_total_tsum. simpl. ring.
  - match goal with |- ten_total ?t (ten_clamp ?l ?r ?t ?f) 0 = _ =>
      destruct (tendon_limit_total l r t f 0%Z eq_refl) as [E _] end.
    + vg; lra.
    + intros _. rewrite ten_total_tsum. simpl. lra.
    + rewrite E. rewrite ten_total_tsum. simpl. vg. apply Rclamp_above; lra.
Qed.

(* the hypothesis T <> 0 of tendon_limit_total is needed by the code as well: at binary64 a
   limited tendon whose range excludes 0 and whose two actuators cancel gets forces +-inf and
   a NaN total (MuJoCo C executes the same division) *)
From Coq Require PrimFloat.
From VF Require Base.ScalarF.
Example tendon_zero_total_nan :
  let one := ScalarF.f_ofZ 1 in let two := ScalarF.f_ofZ 2 in
  let trn := [(3, 0); (3, 0)]%Z in
  let out := @ten_clamp PrimFloat.float ScalarF.ScalarF0 (fun _ => true) (fun _ => [one; two]) trn [one; PrimFloat.opp one] in
  (map ScalarF.f_finite out, PrimFloat.is_nan (@ten_total PrimFloat.float ScalarF.ScalarF0 trn out 0)) = ([false; false], true).
Proof. vm_compute. reflexivity. Qed.

(* models compiled by MuJoCo have lo <= 0 <= hi on tendons (the compiler rejects other ranges): then the
   division hypothesis of tendon_limit_total holds by itself *)
Lemma tendon_limit_total_valid (limited : Z -> bool) (range : Z -> list R) (trn : list (Z * Z)) (force : list R) (tid : Z) :
  limited tid = true ->
  vget (range tid) 0 <= 0 <= vget (range tid) 1 ->
  vget (range tid) 0 <= ten_total trn (ten_clamp limited range trn force) tid <= vget (range tid) 1.
Proof.
  intros Hl Hr.
  destruct (tendon_limit_total limited range trn force tid Hl) as [_ H]; [lra | | exact H].
  intros [H1 | H1]; lra.
Qed.

(* REFUTED for the faithful model: "actuator_force stays in forcerange".  _actuator_force clamps to
   forcerange BEFORE the tendon stage, which then rescales the force: forcerange [2,4], tendon range
   [-1,1], unclamped force 3 -> clamp keeps 3 -> tendon total 3 > 1 -> final force 1, outside [2,4]
   (MuJoCo applies the forcerange clamp last and returns 2; replayed on the real code by C03.py) *)
Lemma final_force_in_forcerange_refuted :
  exists (p : @ActPrm R) (ctrl : R) (tlo thi : R),
    p_forcelimited p = true /\ vget (p_forcerange p) 0 <= vget (p_forcerange p) 1 /\ tlo <= 0 <= thi /\ modelled p = true /\
    let f := act_force 0 (1/500) 0 p ctrl 0 0 0 in
    let final := nth 0 (ten_clamp (fun _ => true) (fun _ => [tlo; thi]) [(TRN_TENDON, 0%Z)] [f]) 0 in
    f = 3 /\ final = 1 /\ ~ (vget (p_forcerange p) 0 <= final <= vget (p_forcerange p) 1).
Proof.
  exists (mkActPrm 0 0 0 (-1) [0;0;0;0;0;0;0;0;0;0] [1;0;0;0;0;0;0;0;0;0] [0;0;0;0;0;0;0;0;0;0]
                   false [0;0] false true [2;4] false [0;0] 0 [0;0]), 3, (-1), 1.
  split; [reflexivity|]. split; [vg; lra|]. split; [lra|]. split; [reflexivity|].
  assert (Hf : act_force 0 (1 / 500) 0
     (mkActPrm 0 0 0 (-1) [0;0;0;0;0;0;0;0;0;0] [1;0;0;0;0;0;0;0;0;0] [0;0;0;0;0;0;0;0;0;0]
                   false [0;0] false true [2;4] false [0;0] 0 [0;0]) 3 0 0 0 = 3).
  { unfold act_force, force_after_clamp, force_clamp, ctrl_used, ctrl_act_of, has_act, gain_of, bias_of. simpl.
    vg. change (Rclamp (1 * 3 + IZR 0) 2 4 = 3). rewrite Rclamp_id; lra. }
  cbv zeta. rewrite Hf. split; [reflexivity|].
  assert (Hc : nth 0 (ten_clamp (fun _ => true) (fun _ => [-1; 1]) [(TRN_TENDON, 0%Z)] [3]) 0 = 1).
  { unfold ten_clamp. simpl. rewrite ten_scale_R. vg.
    rewrite ten_total_tsum. simpl.
    destruct (Rlt_dec (3 + 0) (-1)); [lra|]. destruct (Rlt_dec 1 (3 + 0)); [field | lra]. }
  rewrite Hc. split; [reflexivity|]. vg. lra.
Qed.
