(* Proof/SetConst.v -- lemmas for C33 "set_const recomputes derived model fields correctly".
   Everything here is about the kernels REGENERATED from /repo/mujoco_warp/_src/set_const.py
   (Gen/T_set_const.v) and the host stage sequence REGENERATED into Gen/Skel_pipeline.v.
   1. subtreemass_levels_thm: set_const_fixed (init launch + level-by-level accumulate
      launches, Base/Kernel.v launch_seq over a heap, several worlds interleaved, EVERY
      order of the tasks inside each launch) leaves  sum of body_mass over the subtree  in
      body_subtreemass[w, b]; the translated kernel's write is shown to be Model/Dyn.v's
      accumulation step and C02's tree_accumulate_sched_correct is instantiated.
   2. closed forms of the copy / reduction / finalisation kernels straight from their
      translated bodies (meaninertia, invweight finalisations, acc0 norm, dampratio, camera /
      light references, the CONNECT anchor of eq_data), non-negativity where the inputs are
      non-negative.
   3. batched-output indexing: for each of the 22 kernels the leading index of every write
      (tid0 or tid0 rem the leading size of that output); writes stay in bounds.
   4. restore-state frame lemma: soundness of the abstract interpreter of Model/SetConst.v and
      its evaluation (vm_compute) on the extracted set_const stage sequence. *)
From Coq Require Import ZArith Reals List Bool String Lia Lra Psatz Permutation.
From VF Require Import Base.Scalar Base.ScalarR Base.Vec Base.Loop Base.Kernel Base.KernelRd.
From VF Require Import Gen.T_set_const Gen.Skel_pipeline Model.Dyn Proof.Dyn Model.Pipeline Model.SetConst.
Import ListNotations.
Local Open Scope Z_scope.
Local Notation length := Datatypes.length.

(* ======================= 1. set_const_fixed ================================================ *)
(* ---------- Base/Kernel.v heap facts ---------------------------------------------------- *)
Lemma zs_eqb_eq a : forall b, zs_eqb a b = true <-> a = b.
Proof.
  induction a as [|x a IH]; destruct b as [|y b]; simpl; try (split; intros; congruence).
  rewrite andb_true_iff, Z.eqb_eq, IH. split; [intros [-> ->]; reflexivity | intros H; injection H; auto].
Qed.
Lemma loc_eqb_eq (a b : loc) : loc_eqb a b = true <-> a = b.
Proof.
  destruct a as [a1 a2], b as [b1 b2]. unfold loc_eqb. simpl.
  rewrite andb_true_iff, String.eqb_eq, zs_eqb_eq. split; [intros [-> ->]; reflexivity | intros H; injection H; auto].
Qed.
Lemma loc_eqb_refl (a : loc) : loc_eqb a a = true.
Proof. apply loc_eqb_eq. reflexivity. Qed.
Lemma loc_eqb_neq (a b : loc) : loc_eqb a b = false <-> a <> b.
Proof. rewrite <- loc_eqb_eq. destruct (loc_eqb a b); split; intros; congruence. Qed.

Lemma hget_hset {S} (h : @heap S) l v l' :
  hget (hset h l v) l' = if loc_eqb l' l then Some v else hget h l'.
Proof.
  induction h as [|[l0 v0] h IH]; simpl.
  - reflexivity.
  - destruct (loc_eqb l l0) eqn:E; simpl.
    + apply loc_eqb_eq in E. subst l0. destruct (loc_eqb l' l); reflexivity.
    + rewrite IH. destruct (loc_eqb l' l0) eqn:E0; [|reflexivity].
      apply loc_eqb_eq in E0. subst l0. destruct (loc_eqb l' l) eqn:E1; [|reflexivity].
      apply loc_eqb_eq in E1. subst l'. rewrite loc_eqb_refl in E. discriminate.
Qed.

Section HeapR.
  Notation apply_writeR := (@apply_write R Rplus Rmin Rmax).
  Lemma hget_apply_write (h : heapR) (w : write R) l' :
    hget (apply_writeR h w) l' =
    if loc_eqb l' (w_arr w, w_idx w)
    then Some (match hget h (w_arr w, w_idx w) with
               | Some old => combine_val Rplus Rmin Rmax (w_kind w) old (w_val w)
               | None => w_val w end)
    else hget h l'.
  Proof.
    unfold apply_write. destruct (hget h (w_arr w, w_idx w)); rewrite hget_hset; reflexivity.
  Qed.

  (* a task that never uses the result of an atomic does not need the oracle iteration *)
  Lemma run_task_no_oracle rename fuel (t : task) :
    (forall h o1 o2, t h o1 = t h o2) ->
    forall orc h, run_task Rplus Rmin Rmax rename fuel t orc h
                  = fold_left apply_writeR (map (rn rename) (t h (fun _ => 0))) h.
  Proof.
    intros Hi. induction fuel as [|n IH]; intros orc h; simpl.
    - rewrite (Hi h orc (fun _ => 0)). reflexivity.
    - apply IH.
  Qed.
End HeapR.

(* ---------- list facts ------------------------------------------------------------------- *)
Lemma fold_left_map' {A B C} (f : A -> B -> A) (g : C -> B) l : forall a,
  fold_left f (map g l) a = fold_left (fun a x => f a (g x)) l a.
Proof. induction l; simpl; auto. Qed.
Lemma Permutation_filter {A} (p : A -> bool) l l' : Permutation l l' -> Permutation (filter p l) (filter p l').
Proof.
  induction 1; simpl; auto.
  - destruct (p x); auto.
  - destruct (p x), (p y); auto. apply perm_swap.
  - eapply perm_trans; eauto.
Qed.

Lemma filter_prod_none (w : Z) (l l' : list Z) : ~ In w l ->
  filter (fun t : Z * Z => fst t =? w) (list_prod l l') = [].
Proof.
  intros N. apply filter_none. intros [a b] H. apply in_prod_iff in H. simpl.
  apply Z.eqb_neq. intro. subst. tauto.
Qed.
Lemma filter_prod_row (w : Z) (l l' : list Z) : NoDup l -> In w l ->
  filter (fun t : Z * Z => fst t =? w) (list_prod l l') = map (pair w) l'.
Proof.
  induction l as [|x l IH]; intros ND Hin; [destruct Hin|].
  simpl. rewrite filter_app. inversion ND; subst. destruct (Z.eq_dec x w) as [->|N].
  - rewrite filter_prod_none by assumption. rewrite app_nil_r. apply filter_all.
    intros [a b] H. apply in_map_iff in H. destruct H as (y & E & _). injection E as <- <-. simpl. apply Z.eqb_refl.
  - destruct Hin as [E|Hin]; [congruence|]. rewrite IH by assumption.
    rewrite filter_none; [reflexivity|].
    intros [a b] H. apply in_map_iff in H. destruct H as (y & E & _). injection E as <- <-. simpl.
    apply Z.eqb_neq. exact N.
Qed.

Lemma aget_map_zseq {A} (d : A) (f : Z -> A) n b : 0 <= b < Z.of_nat n -> aget d (map f (zseq n)) b = f b.
Proof.
  intros Hb. unfold aget, zseq. rewrite map_map.
  rewrite nth_indep with (d' := f (Z.of_nat 0)) by (rewrite map_length, seq_length; lia).
  rewrite (map_nth (fun k => f (Z.of_nat k)) (seq 0 n) 0%nat), seq_nth by lia. f_equal. lia.
Qed.
Lemma map_aget_zseq {A} (d : A) (l : list A) : map (aget d l) (zseq (length l)) = l.
Proof.
  apply nth_ext with (d := aget d l 0) (d' := d).
  - rewrite map_length. unfold zseq. rewrite map_length, seq_length. reflexivity.
  - intros k Hk. rewrite map_length in Hk. unfold zseq in Hk. rewrite map_length, seq_length in Hk.
    rewrite nth_indep with (d' := aget d l (Z.of_nat 0)) by (rewrite map_length; unfold zseq; rewrite map_length, seq_length; lia).
    unfold zseq. rewrite map_map.
    rewrite (map_nth (fun k => aget d l (Z.of_nat k)) (seq 0 (length l)) 0%nat), seq_nth by lia.
    unfold aget. simpl. rewrite Nat2Z.id. reflexivity.
Qed.

(* projection of a launch order of the grid (Ns x |level|) onto one world: a permutation of
   the level *)
Definition proj_world (w : Z) (ls : list Z * list (Z * Z)) : list Z :=
  map (fun t => aget 0 (fst ls) (snd t)) (filter (fun t : Z * Z => fst t =? w) (snd ls)).

Lemma proj_world_perm (Ns : nat) (w : Z) (lv : list Z) (s : list (Z * Z)) :
  0 <= w < Z.of_nat Ns -> Permutation s (grid Ns (length lv)) -> Permutation (proj_world w (lv, s)) lv.
Proof.
  intros Hw HP. unfold proj_world. simpl.
  eapply perm_trans.
  - apply Permutation_map. apply Permutation_filter. exact HP.
  - unfold grid. rewrite filter_prod_row by (try apply zseq_NoDup; apply in_zseq; exact Hw).
    rewrite map_map. simpl. rewrite map_aget_zseq. apply Permutation_refl.
Qed.

(* ---------- the two translated kernels, as bound by set_const_fixed ------------------------ *)
Lemma init_task_writes mass Nm Ns w b h orc :
  map (rn rn_fixed) (init_task mass Nm Ns (w, b) h orc)
  = [mkW SUBTREEMASS [Z.rem w Ns; b] KSet (VS (mass (Z.rem w Nm) b))].
Proof. reflexivity. Qed.

Lemma acc_ktask_writes parent lv Ns w n h orc :
  map (rn rn_fixed) (acc_ktask parent lv Ns (w, n) h orc)
  = if Zneb (aget 0 lv n) 0
    then [mkW SUBTREEMASS [Z.rem w Ns; aget 0 parent (aget 0 lv n)] KAdd
              (VS (hgetR h SUBTREEMASS [Z.rem w Ns; aget 0 lv n]))]
    else [].
Proof.
  unfold acc_ktask, k__accumulate_subtreemass, fn_of_list. simpl fst. simpl snd.
  destruct (Zneb (aget 0 lv n) 0); reflexivity.
Qed.

Lemma init_task_indep mass Nm Ns t : forall h o1 o2, init_task mass Nm Ns t h o1 = init_task mass Nm Ns t h o2.
Proof. reflexivity. Qed.
Lemma acc_ktask_indep parent lv Ns t : forall h o1 o2, acc_ktask parent lv Ns t h o1 = acc_ktask parent lv Ns t h o2.
Proof. reflexivity. Qed.

Lemma sm_loc_eqb w b w' b' :
  loc_eqb (SUBTREEMASS, [w; b]) (SUBTREEMASS, [w'; b']) = (w =? w') && (b =? b').
Proof. unfold loc_eqb. simpl. rewrite andb_true_r. reflexivity. Qed.

Section Fixed.
  Variable fuel : nat.
  Variable mass : Z -> Z -> R.
  Variable parent : list Z.
  Hypothesis WF : wf_forest parent.
  Variable Nm : Z.
  Variable Ns : nat.
  Notation nb := (length parent).
  Notation NsZ := (Z.of_nat Ns).

  Definition valid_task (len : nat) (t : Z * Z) : Prop := 0 <= fst t < NsZ /\ 0 <= snd t < Z.of_nat len.

  Lemma grid_valid len s : Permutation s (grid Ns len) -> Forall (valid_task len) s.
  Proof.
    intros HP. apply Forall_forall. intros [a b] H. eapply Permutation_in in H; [|exact HP].
    unfold grid in H. apply in_prod_iff in H. destruct H as [Ha Hb]. apply in_zseq in Ha, Hb.
    split; assumption.
  Qed.

  (* ----- the init launch ----- *)
  Definition init_step (h : heapR) (t : Z * Z) : heapR :=
    run_task Rplus Rmin Rmax rn_fixed fuel (init_task mass Nm NsZ t) (fun _ => 0) h.
  Lemma launch_init_fold s h :
    launchR rn_fixed fuel (map (init_task mass Nm NsZ) s) h = fold_left init_step s h.
  Proof. unfold launchR, launch_seq. rewrite fold_left_map'. reflexivity. Qed.

  Lemma init_step_get h t w b : valid_task nb t -> 0 <= w < NsZ ->
    hget (init_step h t) (SUBTREEMASS, [w; b])
    = if (w =? fst t) && (b =? snd t) then Some (VS (mass (Z.rem w Nm) b)) else hget h (SUBTREEMASS, [w; b]).
  Proof.
    intros [Hw' Hb'] Hw. destruct t as [w' b']. simpl in *. unfold init_step.
    rewrite run_task_no_oracle by apply init_task_indep.
    rewrite init_task_writes. simpl fold_left. rewrite hget_apply_write. simpl w_arr. simpl w_idx.
    rewrite Z.rem_small by lia. rewrite sm_loc_eqb.
    destruct ((w =? w') && (b =? b')) eqn:E; [|reflexivity].
    apply andb_true_iff in E. destruct E as [E1 E2]. apply Z.eqb_eq in E1, E2. subst.
    destruct (hget h (SUBTREEMASS, [w'; b'])); reflexivity.
  Qed.

  Lemma init_launch_get s : Forall (valid_task nb) s -> forall h w b, 0 <= w < NsZ ->
    hget (fold_left init_step s h) (SUBTREEMASS, [w; b])
    = if existsb (fun t => (w =? fst t) && (b =? snd t)) s then Some (VS (mass (Z.rem w Nm) b))
      else hget h (SUBTREEMASS, [w; b]).
  Proof.
    induction 1 as [|t s Ht Hs IH]; intros h w b Hw; simpl; [reflexivity|].
    rewrite IH by exact Hw. rewrite init_step_get by assumption.
    destruct (existsb _ s); [rewrite orb_true_r; reflexivity|]. rewrite orb_false_r. reflexivity.
  Qed.

  (* ----- representation of one world's row as a list ----- *)
  Definition repr (h : heapR) (w : Z) (st : list R) : Prop :=
    length st = nb /\ forall b, 0 <= b < Z.of_nat nb -> hget h (SUBTREEMASS, [w; b]) = Some (VS (aget 0%R st b)).
  Definition reprF (h : heapR) (F : Z -> list R) : Prop := forall w, 0 <= w < NsZ -> repr h w (F w).

  Notation acc1 := (acc_task Rplus 0%R SkipBody0 parent).

  Definition acc_step (lv : list Z) (h : heapR) (t : Z * Z) : heapR :=
    run_task Rplus Rmin Rmax rn_fixed fuel (acc_ktask parent lv NsZ t) (fun _ => 0) h.

  Definition level_ok (lv : list Z) : Prop := forall x, In x lv -> 0 <= x < Z.of_nat nb.

  (* the translated kernel's write IS the accumulation step of Model/Dyn.v *)
  Lemma acc_step_repr lv h F t : level_ok lv -> valid_task (length lv) t -> reprF h F ->
    reprF (acc_step lv h t) (fun w => if w =? fst t then acc1 (F w) (aget 0 lv (snd t)) else F w).
  Proof.
    intros Hlv [Hw' Hn] HR. destruct t as [w' n]. simpl in *.
    set (bodyid := aget 0 lv n).
    assert (Hbody : 0 <= bodyid < Z.of_nat nb).
    { apply Hlv. unfold bodyid, aget. apply nth_In. lia. }
    unfold acc_step. rewrite run_task_no_oracle by apply acc_ktask_indep.
    rewrite acc_ktask_writes. fold bodyid. rewrite Z.rem_small by lia.
    unfold acc_task, acc_skips. unfold Zneb.
    destruct (bodyid =? 0) eqn:E0; simpl negb; cbv iota.
    - (* world body: no write *)
      simpl fold_left. intros w Hw. destruct (w =? w'); apply HR; exact Hw.
    - apply Z.eqb_neq in E0.
      set (p := aget 0 parent bodyid).
      assert (Hp : 0 <= p < Z.of_nat nb).
      { destruct WF as (_ & _ & Hpar). specialize (Hpar bodyid). unfold p. lia. }
      simpl fold_left. intros w Hw. destruct (HR w Hw) as [HL HG]. destruct (HR w' Hw') as [HL' HG'].
      destruct (Z.eqb_spec w w') as [->|Nw].
      + split; [rewrite aset_length; exact HL'|]. intros b Hb.
        rewrite hget_apply_write. simpl w_arr. simpl w_idx. simpl w_kind. simpl w_val.
        rewrite sm_loc_eqb, Z.eqb_refl. simpl andb.
        destruct (Z.eqb_spec b p) as [->|Nb].
        * rewrite (HG' p Hp). unfold hgetR. rewrite (HG' bodyid Hbody). simpl.
          rewrite aget_aset_same by lia. reflexivity.
        * rewrite aget_aset_other by lia. apply HG'. exact Hb.
      + split; [exact HL|]. intros b Hb.
        rewrite hget_apply_write. simpl w_arr. simpl w_idx. rewrite sm_loc_eqb.
        replace (w =? w') with false by (symmetry; apply Z.eqb_neq; exact Nw). simpl andb.
        apply HG. exact Hb.
  Qed.

  Lemma acc_launch_repr lv s : level_ok lv -> Forall (valid_task (length lv)) s -> forall h F, reprF h F ->
    reprF (fold_left (acc_step lv) s h)
          (fun w => fold_left acc1 (proj_world w (lv, s)) (F w)).
  Proof.
    intros Hlv. induction 1 as [|t s Ht Hs IH]; intros h F HR.
    - simpl. exact HR.
    - simpl fold_left at 1. specialize (IH _ _ (acc_step_repr lv h F t Hlv Ht HR)).
      intros w Hw. specialize (IH w Hw). unfold proj_world in *. simpl fst in *. simpl snd in *.
      simpl filter. rewrite (Z.eqb_sym (fst t) w). destruct (w =? fst t); simpl; exact IH.
  Qed.

  Lemma launch_acc_fold lv s h :
    launchR rn_fixed fuel (map (acc_ktask parent lv NsZ) s) h = fold_left (acc_step lv) s h.
  Proof. unfold launchR, launch_seq. rewrite fold_left_map'. reflexivity. Qed.

  Lemma acc_launches_repr : forall (lvs : list (list Z)) (scheds : list (list (Z * Z))),
    Forall level_ok lvs ->
    Forall2 (fun s lv => Permutation s (grid Ns (length lv))) scheds lvs ->
    forall h F, reprF h F ->
    reprF (acc_launches fuel parent NsZ (combine lvs scheds) h)
          (fun w => tree_accumulate_sched Rplus 0%R SkipBody0 parent (map (proj_world w) (combine lvs scheds)) (F w)).
  Proof.
    intros lvs scheds Hok HF. revert Hok. induction HF as [|s lv scheds lvs Hs HF IH]; intros Hok h F HR.
    - simpl. exact HR.
    - inversion Hok; subst. simpl combine. unfold acc_launches. simpl fold_left. rewrite launch_acc_fold.
      unfold tree_accumulate_sched. simpl map. simpl fold_left.
      apply (IH H2). unfold acc_launch.
      apply acc_launch_repr; [assumption | apply grid_valid; exact Hs | exact HR].
  Qed.

  Lemma body_tree_levels_ok : Forall level_ok (rev (body_tree parent)).
  Proof.
    apply Forall_forall. intros lv H. apply in_rev in H. unfold body_tree in H. apply in_map_iff in H.
    destruct H as (k & <- & _). intros x Hx. unfold level_of in Hx. apply filter_In in Hx.
    destruct Hx as [Hx _]. apply in_zseq in Hx. exact Hx.
  Qed.

  Lemma Forall2_proj w : 0 <= w < NsZ -> forall (lvs : list (list Z)) (scheds : list (list (Z * Z))),
    Forall2 (fun s lv => Permutation s (grid Ns (length lv))) scheds lvs ->
    Forall2 (@Permutation Z) (map (proj_world w) (combine lvs scheds)) lvs.
  Proof.
    intros Hw lvs scheds HF. induction HF; simpl; constructor; auto.
    apply proj_world_perm with (Ns := Ns); assumption.
  Qed.

  Theorem subtreemass_levels_thm (s_init : list (Z * Z)) (s_levels : list (list (Z * Z))) (h0 : heapR) :
    Permutation s_init (grid Ns nb) ->
    Forall2 (fun s lv => Permutation s (grid Ns (length lv))) s_levels (rev (body_tree parent)) ->
    forall w b, 0 <= w < NsZ -> 0 <= b < Z.of_nat nb ->
      hget (set_const_fixed_sched fuel mass parent Nm NsZ s_init s_levels h0) (SUBTREEMASS, [w; b])
      = Some (VS (subtree_sum Rplus 0%R SkipBody0 parent (map (mass (Z.rem w Nm)) (zseq nb)) b)).
  Proof.
    intros Hinit Hlv w b Hw Hb. unfold set_const_fixed_sched. cbv zeta.
    set (h1 := launchR rn_fixed fuel (map (init_task mass Nm NsZ) s_init) h0).
    assert (HR : reprF h1 (fun w => map (mass (Z.rem w Nm)) (zseq nb))).
    { intros w1 Hw1. split.
      - rewrite map_length. unfold zseq. rewrite map_length, seq_length. reflexivity.
      - intros b1 Hb1. unfold h1. rewrite launch_init_fold.
        rewrite init_launch_get by (try apply grid_valid; assumption).
        replace (existsb _ s_init) with true.
        + rewrite aget_map_zseq by exact Hb1. reflexivity.
        + symmetry. apply existsb_exists. exists (w1, b1). split.
          * eapply Permutation_in; [apply Permutation_sym; exact Hinit|].
            unfold grid. apply in_prod_iff. split; apply in_zseq; assumption.
          * simpl. rewrite !Z.eqb_refl. reflexivity. }
    pose proof (acc_launches_repr _ _ body_tree_levels_ok Hlv h1 _ HR w Hw) as [_ HG].
    rewrite (HG b Hb). do 2 f_equal.
    apply tree_accumulate_sched_correct; auto.
    - intros; ring.
    - intros; ring.
    - rewrite map_length. unfold zseq. rewrite map_length, seq_length. reflexivity.
    - apply Forall2_proj; assumption.
  Qed.
End Fixed.

(* ======================= 2. kernel closed forms ============================================ *)
(* reads of an array the task has not written yet: the read-through wrapper is the identity *)
Ltac rd_nil := cbv beta iota delta [rdS rdV rdZ rdB rdZs rdv rd_val fold_left].

(* ---------- loops ------------------------------------------------------------------------- *)
Fixpoint zrange (lo : Z) (n : nat) : list Z :=
  match n with O => [] | Datatypes.S n' => lo :: zrange (lo + 1) n' end.
Lemma zrange_map lo n : zrange lo n = map (fun k => lo + Z.of_nat k) (seq 0 n).
Proof.
  revert lo. induction n as [|n IH]; intros lo; [reflexivity|].
  simpl zrange. rewrite IH. simpl. f_equal; [lia|]. rewrite <- seq_shift, map_map.
  apply map_ext. intros k. lia.
Qed.
Lemma zrange_zseq n : zrange 0 n = zseq n.
Proof. rewrite zrange_map. unfold zseq. apply map_ext. intros; lia. Qed.

Lemma for_nat_inv {A} (P : A -> Prop) (f : Z -> A -> A) n : forall i a,
  P a -> (forall j x, P x -> P (f j x)) -> P (for_nat n i a f).
Proof. induction n; simpl; intros; auto. Qed.
Lemma for_range_inv {A} (P : A -> Prop) lo hi a (f : Z -> A -> A) :
  P a -> (forall j x, P x -> P (f j x)) -> P (for_range lo hi a f).
Proof. intros. unfold for_range. apply for_nat_inv; auto. Qed.
Lemma while_fuel_inv {A} (P : A -> Prop) c (f : A -> A) n : forall x,
  P x -> (forall y, P y -> P (f y)) -> P (while_fuel n c f x).
Proof. induction n; simpl; intros; auto. destruct (c x); auto. Qed.

Local Open Scope R_scope.
Lemma for_nat_sum (g : Z -> R) n : forall i a,
  for_nat n i a (fun j acc => acc + g j) = a + Rsum (map g (zrange i n)).
Proof.
  induction n as [|n IH]; intros i a; simpl.
  - lra.
  - rewrite IH. lra.
Qed.
Lemma for_range_sum (g : Z -> R) (n : Z) a :
  for_range 0 n a (fun j acc => acc + g j) = a + Rsum (map g (zseq (Z.to_nat n))).
Proof. unfold for_range. rewrite for_nat_sum, Z.sub_0_r, zrange_zseq. reflexivity. Qed.
Lemma Rsum_nonneg l : Forall (fun x => 0 <= x) l -> 0 <= Rsum l.
Proof. induction 1; simpl; lra. Qed.

(* ---------- copy kernels: output = input at the batched index ------------------------------- *)
Section Generic.
  Context {S : Type} `{Scalar S}.
  Lemma init_subtreemass_spec w b (mass out : Z -> Z -> S) orc Nm Ns :
    k__init_subtreemass w b mass out orc Nm Ns
    = [mkW "body_subtreemass_out" [Z.rem w Ns; b] KSet (VS (mass (Z.rem w Nm) b))].
  Proof. reflexivity. Qed.
  Lemma copy_qpos0_to_qpos_spec w i (qpos0 qout : Z -> Z -> S) orc N :
    k__copy_qpos0_to_qpos w i qpos0 qout orc N = [mkW "qpos_out" [w; i] KSet (VS (qpos0 (Z.rem w N) i))].
  Proof. reflexivity. Qed.
  Lemma copy_tendon_length0_spec w t (len out : Z -> Z -> S) orc N :
    k__copy_tendon_length0 w t len out orc N = [mkW "tendon_length0_out" [Z.rem w N; t] KSet (VS (len w t))].
  Proof. reflexivity. Qed.
  Lemma extract_dof_A_diag_spec w dofid (res out : Z -> Z -> S) orc N :
    k__extract_dof_A_diag w dofid res out orc N = [mkW "dof_A_diag_out" [Z.rem w N; dofid] KSet (VS (res w dofid))].
  Proof. reflexivity. Qed.
  (* -1 sentinel: both entries exactly -1 -> (l, l) with l the tendon length at qpos_spring *)
  Lemma resolve_tendon_lengthspring_spec w t (len : Z -> Z -> S) (ls : Z -> Z -> list S) orc N :
    k__resolve_tendon_lengthspring w t len ls orc N
    = if seqb (vget (ls (Z.rem w N) t) 0) (sneg (sofZ 1)) && seqb (vget (ls (Z.rem w N) t) 1) (sneg (sofZ 1))
      then [mkW "tendon_lengthspring_out" [Z.rem w N; t] KSet (VV [len w t; len w t])] else [].
  Proof.
    unfold k__resolve_tendon_lengthspring. rd_nil.
    destruct (seqb (vget (ls (Z.rem w N) t) 0) (sneg (sofZ 1)) && seqb (vget (ls (Z.rem w N) t) 1) (sneg (sofZ 1))); reflexivity.
  Qed.
  (* cameras / lights: each of the three outputs is written at row  tid0 rem ITS OWN leading size *)
  Lemma compute_cam_pos0_spec w c bodyid targetid (cxpos cxmat xpos scom p0 pc0 m0 : Z -> Z -> list S) orc N1 N2 N3 :
    k__compute_cam_pos0 w c bodyid targetid cxpos cxmat xpos scom p0 pc0 m0 orc N1 N2 N3
    = [mkW "cam_pos0_out" [Z.rem w N1; c] KSet (VV (vsub (cxpos w c) (xpos w (bodyid c))));
       mkW "cam_poscom0_out" [Z.rem w N2; c] KSet
           (VV (vsub (cxpos w c) (scom w (if Z.geb (targetid c) 0 then targetid c else bodyid c))));
       mkW "cam_mat0_out" [Z.rem w N3; c] KSet (VV (cxmat w c))].
  Proof. unfold k__compute_cam_pos0. destruct (Z.geb (targetid c) 0); reflexivity. Qed.
  Lemma compute_light_pos0_spec w c bodyid targetid (lxpos lxdir xpos scom p0 pc0 d0 : Z -> Z -> list S) orc N1 N2 N3 :
    k__compute_light_pos0 w c bodyid targetid lxpos lxdir xpos scom p0 pc0 d0 orc N1 N2 N3
    = [mkW "light_pos0_out" [Z.rem w N1; c] KSet (VV (vsub (lxpos w c) (xpos w (bodyid c))));
       mkW "light_poscom0_out" [Z.rem w N2; c] KSet
           (VV (vsub (lxpos w c) (scom w (if Z.geb (targetid c) 0 then targetid c else bodyid c))));
       mkW "light_dir0_out" [Z.rem w N3; c] KSet (VV (lxdir w c))].
  Proof. unfold k__compute_light_pos0. destruct (Z.geb (targetid c) 0); reflexivity. Qed.
End Generic.

(* ---------- reductions over R ---------------------------------------------------------------- *)
Definition THIRD : R := 3333333333333333 / 10000000000000000.
Lemma THIRD_pos : 0 < THIRD. Proof. unfold THIRD. lra. Qed.

(* stat.meaninertia = mean of the diagonal of M (CSR: last entry of each row), 1 if nv = 0 *)
Lemma compute_meaninertia_spec w nv rownnz rowadr (M : Z -> Z -> R) out orc N :
  k__compute_meaninertia w nv rownnz rowadr M out orc N
  = [mkW "meaninertia_out" [Z.rem w N] KSet
       (VS (if Z.eqb nv 0 then 1
            else Rsum (map (fun i => M w (rowadr i + rownnz i - 1)%Z) (zseq (Z.to_nat nv))) / IZR nv))].
Proof.
  unfold k__compute_meaninertia. destruct (Z.eqb nv 0); [reflexivity|].
  simpl. do 4 f_equal. sR. rewrite for_range_sum. lra.
Qed.

Lemma compute_body_A_diag_entry_spec w nv bodyid row (J res : Z -> Z -> R) out orc N :
  k__compute_body_A_diag_entry w nv bodyid row J res out orc N
  = [mkW "body_A_diag_out" [Z.rem w N; bodyid; row] KSet
       (VS (Rsum (map (fun i => J w i * res w i) (zseq (Z.to_nat nv)))))].
Proof.
  unfold k__compute_body_A_diag_entry. simpl. do 3 f_equal. sR. rewrite for_range_sum. lra.
Qed.

Lemma compute_tendon_dot_product_spec w rownnz rowadr colind t (J res : Z -> Z -> R) out orc N :
  k__compute_tendon_dot_product w rownnz rowadr colind t J res out orc N
  = [mkW "tendon_invweight0_out" [Z.rem w N; t] KSet
       (VS (Rsum (map (fun i => J w (rowadr t + i)%Z * res w (colind (rowadr t + i)%Z)) (zseq (Z.to_nat (rownnz t))))))].
Proof.
  unfold k__compute_tendon_dot_product. simpl. do 3 f_equal. sR. rewrite for_range_sum. lra.
Qed.

(* actuator_acc0 = || inv(M) moment ||_2, written at row tid0 *)
Lemma compute_actuator_acc0_spec w a nv (res : Z -> Z -> R) out orc :
  k__compute_actuator_acc0 w a nv res out orc
  = [mkW "actuator_acc0_out" [w; a] KSet
       (VS (sqrt (Rsum (map (fun i => res w i * res w i) (zseq (Z.to_nat nv))))))].
Proof.
  unfold k__compute_actuator_acc0. simpl. do 4 f_equal. sR. rewrite for_range_sum. lra.
Qed.

Definition vs_nonneg (w : write R) : Prop :=
  match w_val w with VS x => 0 <= x | VV v => Forall (fun x => 0 <= x) v | _ => True end.

Lemma actuator_acc0_nonneg w a nv (res : Z -> Z -> R) out orc :
  Forall vs_nonneg (k__compute_actuator_acc0 w a nv res out orc).
Proof. rewrite compute_actuator_acc0_spec. apply Forall_cons; [|apply Forall_nil]. unfold vs_nonneg; cbn [w_val]. apply sqrt_pos. Qed.

(* dof_invweight0 finalisation *)
Definition JNT_FREE := 0%Z.
Definition JNT_BALL := 1%Z.
Definition MINVAL : R := 1 / 1000000000000000.
Lemma MINVAL_pos : 0 < MINVAL. Proof. unfold MINVAL. lra. Qed.
(* wp.max(mjMINVAL, mass) *)
Lemma smax_Rmax (a b : R) : smax a b = Rmax a b.
Proof.
  unfold smax. sR. unfold Rmax. destruct (Rle_dec a b) as [L|L].
  - destruct (Rltb a b) eqn:E; [reflexivity|]. apply Rltb_false in E. lra.
  - replace (Rltb a b) with false; [reflexivity|]. symmetry. apply Rltb_false. lra.
Qed.
Lemma inv_mass_pos m : 0 < 1 / Rmax MINVAL m.
Proof.
  pose proof MINVAL_pos. pose proof (Rmax_l MINVAL m).
  apply Rdiv_lt_0_compat; lra.
Qed.
Lemma finalize_dof_invweight0_spec w dofid body_simple (mass : Z -> Z -> R) dof_bodyid dof_jntid jnt_type jnt_dofadr
      (A : Z -> Z -> R) out orc No Na Nm :
  let j := dof_jntid dofid in
  let adr := jnt_dofadr j in
  let a := Z.rem w Na in
  k__finalize_dof_invweight0 w dofid body_simple mass dof_bodyid dof_jntid jnt_type jnt_dofadr A out orc No Na Nm
  = [mkW "dof_invweight0_out" [Z.rem w No; dofid] KSet
       (VS (if Z.eqb (body_simple (dof_bodyid dofid)) 2
            then 1 / Rmax MINVAL (mass (Z.rem w Nm) (dof_bodyid dofid))
            else if Z.eqb (jnt_type j) JNT_FREE
            then (if Z.ltb dofid (adr + 3)
                  then THIRD * (A a (adr + 0)%Z + A a (adr + 1)%Z + A a (adr + 2)%Z)
                  else THIRD * (A a (adr + 3)%Z + A a (adr + 4)%Z + A a (adr + 5)%Z))
            else if Z.eqb (jnt_type j) JNT_BALL
            then THIRD * (A a (adr + 0)%Z + A a (adr + 1)%Z + A a (adr + 2)%Z)
            else A a dofid))].
Proof.
  cbv zeta. unfold k__finalize_dof_invweight0, JNT_FREE, JNT_BALL, THIRD.
  destruct (Z.eqb (body_simple (dof_bodyid dofid)) 2).
  - rewrite <- smax_Rmax. reflexivity.
  - destruct (Z.eqb (jnt_type (dof_jntid dofid)) 0).
    + destruct (Z.ltb dofid (jnt_dofadr (dof_jntid dofid) + 3)); reflexivity.
    + destruct (Z.eqb (jnt_type (dof_jntid dofid)) 1); reflexivity.
Qed.
Lemma finalize_dof_invweight0_nonneg w dofid body_simple (mass : Z -> Z -> R) dof_bodyid dof_jntid jnt_type jnt_dofadr
      (A : Z -> Z -> R) out orc No Na Nm :
  (forall i j, 0 <= A i j) ->
  Forall vs_nonneg (k__finalize_dof_invweight0 w dofid body_simple mass dof_bodyid dof_jntid jnt_type jnt_dofadr A out orc No Na Nm).
Proof.
  intros HA. rewrite finalize_dof_invweight0_spec. apply Forall_cons; [|apply Forall_nil]. unfold vs_nonneg; cbn [w_val].
  pose proof THIRD_pos.
  destruct (Z.eqb (body_simple (dof_bodyid dofid)) 2); [apply Rlt_le, inv_mass_pos|].
  repeat match goal with |- context [if ?c then _ else _] => destruct c end;
    try apply HA; apply Rmult_le_pos; try lra;
    repeat apply Rplus_le_le_0_compat; apply HA.
Qed.

(* body_invweight0 finalisation: (0,0) for the world and static bodies; (1/max(MINVAL, mass), 0)
   for bodies compiled as body_simple == 2 (axis-aligned sliders only), as mj_setConst; else
   the two means, a vanishing component staying what it is (no fallback) *)
Lemma finalize_body_invweight0_spec w b body_weldid body_simple (mass : Z -> Z -> R) (A : Z -> Z -> Z -> R) out orc No Na Nm :
  let a := Z.rem w Na in
  k__finalize_body_invweight0 w b body_weldid body_simple mass A out orc No Na Nm
  = [mkW "body_invweight0_out" [Z.rem w No; b] KSet
       (VV (if Z.eqb b 0 || Z.eqb (body_weldid b) 0 then [0; 0]
            else if Z.eqb (body_simple b) 2 then [1 / Rmax MINVAL (mass (Z.rem w Nm) b); 0]
            else [THIRD * (A a b 0%Z + A a b 1%Z + A a b 2%Z); THIRD * (A a b 3%Z + A a b 4%Z + A a b 5%Z)]))].
Proof.
  cbv zeta. unfold k__finalize_body_invweight0, THIRD.
  destruct (Z.eqb b 0 || Z.eqb (body_weldid b) 0); [reflexivity|].
  destruct (Z.eqb (body_simple b) 2); [rewrite <- smax_Rmax|]; reflexivity.
Qed.
Lemma finalize_body_invweight0_nonneg w b body_weldid body_simple (mass : Z -> Z -> R) (A : Z -> Z -> Z -> R) out orc No Na Nm :
  (forall i j k, 0 <= A i j k) ->
  Forall vs_nonneg (k__finalize_body_invweight0 w b body_weldid body_simple mass A out orc No Na Nm).
Proof.
  intros HA. rewrite finalize_body_invweight0_spec. apply Forall_cons; [|apply Forall_nil]. unfold vs_nonneg; cbn [w_val].
  pose proof THIRD_pos.
  destruct (Z.eqb b 0 || Z.eqb (body_weldid b) 0).
  - repeat (apply Forall_cons; [lra|]). apply Forall_nil.
  - destruct (Z.eqb (body_simple b) 2).
    + apply Forall_cons; [apply Rlt_le, inv_mass_pos|]. apply Forall_cons; [lra|]. apply Forall_nil.
    + repeat (apply Forall_cons; [apply Rmult_le_pos; [lra|]; repeat apply Rplus_le_le_0_compat; apply HA|]).
      apply Forall_nil.
Qed.
(* a moving slider-only body of mass m >= MINVAL: translational weight 1/m, rotational weight 0,
   whatever the accumulated diagonals (armature included) are *)
Lemma body_invweight0_simple2 w b body_weldid body_simple (mass : Z -> Z -> R) (A : Z -> Z -> Z -> R) out orc No Na Nm :
  b <> 0%Z -> body_weldid b <> 0%Z -> body_simple b = 2%Z -> MINVAL <= mass (Z.rem w Nm) b ->
  k__finalize_body_invweight0 w b body_weldid body_simple mass A out orc No Na Nm
  = [mkW "body_invweight0_out" [Z.rem w No; b] KSet (VV [1 / mass (Z.rem w Nm) b; 0])].
Proof.
  intros Hb Hw Hs Hm. rewrite finalize_body_invweight0_spec.
  replace (Z.eqb b 0) with false by (symmetry; apply Z.eqb_neq; exact Hb).
  replace (Z.eqb (body_weldid b) 0) with false by (symmetry; apply Z.eqb_neq; exact Hw).
  rewrite Hs. simpl. rewrite Rmax_right by exact Hm. reflexivity.
Qed.

(* ---------- eq_data ------------------------------------------------------------------------ *)
(* CONNECT between two bodies: the recomputed second anchor makes the constraint hold at the
   pose the kinematics were evaluated at (qpos0): both anchors map to the same world point *)
Lemma compute_eq_data0_connect_satisfied w e (eq_type eq_obj1id eq_obj2id eq_objtype : Z -> Z)
      (xpos xquat xmat eq_data : Z -> Z -> list R) orc N
      d0 d1 d2 d3 d4 d5 d6 d7 d8 d9 d10 p0 p1 p2 q0 q1 q2 a0 a1 a2 a3 a4 a5 a6 a7 a8 b0 b1 b2 b3 b4 b5 b6 b7 b8 :
  eq_type e = 0%Z -> eq_objtype e = 1%Z ->
  eq_data (Z.rem w N) e = [d0; d1; d2; d3; d4; d5; d6; d7; d8; d9; d10] ->
  xpos w (eq_obj1id e) = [p0; p1; p2] -> xmat w (eq_obj1id e) = [a0; a1; a2; a3; a4; a5; a6; a7; a8] ->
  xpos w (eq_obj2id e) = [q0; q1; q2] -> xmat w (eq_obj2id e) = [b0; b1; b2; b3; b4; b5; b6; b7; b8] ->
  orth3 (xmat w (eq_obj2id e)) ->
  exists c3 c4 c5,
    k__compute_eq_data0 w e eq_type eq_obj1id eq_obj2id eq_objtype xpos xquat xmat eq_data orc N
    = [mkW "eq_data_out" [Z.rem w N; e] KSet (VV [d0; d1; d2; c3; c4; c5; d6; d7; d8; d9; d10])] /\
    vadd [q0; q1; q2] (mat_vec 3 3 [b0; b1; b2; b3; b4; b5; b6; b7; b8] [c3; c4; c5])
    = vadd [p0; p1; p2] (mat_vec 3 3 [a0; a1; a2; a3; a4; a5; a6; a7; a8] [d0; d1; d2]).
Proof.
  intros Ht Ho Hd Hp1 Hm1 Hp2 Hm2 Horth. rewrite Hm2 in Horth. simpl in Horth.
  destruct Horth as (H00 & H11 & H22 & H01 & H02 & H12).
  unfold k__compute_eq_data0. rd_nil. rewrite Ht, Ho, Hd, Hp1, Hm1, Hp2, Hm2.
  cbv [Z.eqb Pos.eqb fst snd]. cbv beta iota.
  do 3 eexists. split.
  - cbv [vset vset_nat Z.to_nat Pos.to_nat Pos.iter_op Nat.add app]. reflexivity.
  - cbv [vadd vsub vmap2 mat_vec mtranspose mcol mrow vdot vdot_acc vget map seq flat_map app firstn skipn nth Nat.mul Nat.add Z.to_nat Pos.to_nat Pos.iter_op].
    sR. f_equal; [|f_equal; [|f_equal]].
    + transitivity (q0 + ((b0*b0 + b1*b1 + b2*b2) * (p0 + (a0*d0 + a1*d1 + a2*d2) - q0)
                        + (b0*b3 + b1*b4 + b2*b5) * (p1 + (a3*d0 + a4*d1 + a5*d2) - q1)
                        + (b0*b6 + b1*b7 + b2*b8) * (p2 + (a6*d0 + a7*d1 + a8*d2) - q2))); [ring|].
      rewrite H00, H01, H02. ring.
    + transitivity (q1 + ((b0*b3 + b1*b4 + b2*b5) * (p0 + (a0*d0 + a1*d1 + a2*d2) - q0)
                        + (b3*b3 + b4*b4 + b5*b5) * (p1 + (a3*d0 + a4*d1 + a5*d2) - q1)
                        + (b3*b6 + b4*b7 + b5*b8) * (p2 + (a6*d0 + a7*d1 + a8*d2) - q2))); [ring|].
      rewrite H11, H01, H12. ring.
    + transitivity (q2 + ((b0*b6 + b1*b7 + b2*b8) * (p0 + (a0*d0 + a1*d1 + a2*d2) - q0)
                        + (b3*b6 + b4*b7 + b5*b8) * (p1 + (a3*d0 + a4*d1 + a5*d2) - q1)
                        + (b6*b6 + b7*b7 + b8*b8) * (p2 + (a6*d0 + a7*d1 + a8*d2) - q2))); [ring|].
      rewrite H22, H02, H12. ring.
Qed.

(* ---------- dampratio ------------------------------------------------------------------------ *)
Lemma resolve_dampratio_skip w a biastype (gainprm : Z -> Z -> list R) rn ra ci mom M0 nv (biasprm : Z -> Z -> list R) orc Ng Nb :
  biastype a <> 1%Z ->
  k__resolve_dampratio w a biastype gainprm rn ra ci mom M0 nv biasprm orc Ng Nb = [].
Proof.
  intros Hb. unfold k__resolve_dampratio. unfold Zneb.
  replace (Z.eqb (biastype a) 1) with false by (symmetry; apply Z.eqb_neq; exact Hb). reflexivity.
Qed.
Lemma resolve_dampratio_writes w a biastype (gainprm : Z -> Z -> list R) rn ra ci mom M0 nv (biasprm : Z -> Z -> list R) orc Ng Nb :
  let bp := biasprm (Z.rem w Nb) a in
  k__resolve_dampratio w a biastype gainprm rn ra ci mom M0 nv biasprm orc Ng Nb = []
  \/ (biastype a = 1%Z /\ 0 < vget bp 2 /\
      exists x, x <= 0 /\
        k__resolve_dampratio w a biastype gainprm rn ra ci mom M0 nv biasprm orc Ng Nb
        = [mkW "actuator_biasprm" [Z.rem w Nb; a] KSet (VV (vset bp 2 x))]).
Proof.
  cbv zeta. unfold k__resolve_dampratio. unfold Zneb. rd_nil.
  destruct (Z.eqb_spec (biastype a) 1) as [E|E]; simpl negb; cbv iota; [|left; reflexivity].
  match goal with |- context [if ?c then _ else _] => destruct c end; [left; reflexivity|].
  match goal with |- context [if sleb ?x ?y then _ else _] => destruct (sleb x y) eqn:E2 end; [left; reflexivity|].
  right. split; [exact E|]. sR. apply Rleb_false in E2. split; [exact E2|].
  eexists. split; [|reflexivity].
  match goal with |- - (?d * 2 * sqrt ?m) <= 0 => pose proof (sqrt_pos m) end. nra.
Qed.

(* ---------- set_length_range ------------------------------------------------------------------ *)
(* always exactly one write, at row tid0 (NOT reduced modulo the output's leading size) *)
Lemma set_length_range_row w a trntype trnid (gear : Z -> Z -> list R) jl (jr : Z -> Z -> list R) tl (tr : Z -> Z -> list R) nt out orc Ng Nj Nt :
  exists lr, k__set_length_range w a trntype trnid gear jl jr tl tr nt out orc Ng Nj Nt
             = [mkW "actuator_lengthrange_out" [w; a] KSet (VV lr)].
Proof. unfold k__set_length_range. eexists. reflexivity. Qed.

(* ======================= 3. batched-output rows ============================================ *)
Local Open Scope Z_scope.
Lemma rows_nil {S} r : @rows_are S r [].
Proof. apply Forall_nil. Qed.
Lemma rows_app {S} r (a b : list (write S)) : rows_are r a -> rows_are r b -> rows_are r (a ++ b).
Proof. intros. apply Forall_app. split; assumption. Qed.
Lemma rows_one {S} r (w : write S) : nth 0 (w_idx w) (-1) = r -> rows_are r [w].
Proof. intros. apply Forall_cons; [assumption | apply Forall_nil]. Qed.

Ltac rows_step :=
  lazymatch goal with
  | H : rows_are ?r ?x |- rows_are ?r ?x => exact H
  | |- rows_are _ nil => apply rows_nil
  | |- rows_are _ (_ ++ _) => apply rows_app
  | |- rows_are _ [_] => apply rows_one; reflexivity
  | |- rows_are _ (if ?c then _ else _) => destruct c
  | |- rows_are ?r (for_range _ _ _ _) => apply (for_range_inv (rows_are r)); [| intros ? ? ?; cbv beta zeta]
  | |- rows_are ?r (fst (while_fuel _ _ _ _)) =>
      apply (while_fuel_inv (fun acc => rows_are r (fst acc))); [cbn [fst] | intros ? ?; cbv beta zeta; cbn [fst]]
  | |- rows_are ?r (fst (for_range _ _ _ _)) =>
      apply (for_range_inv (fun acc => rows_are r (fst acc))); [cbn [fst] | intros ? ? ?; cbv beta zeta; cbn [fst]]
  | |- rows_are _ (snd (_, _)) => cbn [snd]
  | |- rows_are _ (fst (_, _)) => cbn [fst]
  | |- context [if ?c then _ else _] => destruct c; cbn [fst snd]
  end.
Ltac rows_tac k := unfold k; cbv zeta; repeat rows_step.

Section Rows.
  Context {S : Type} `{Scalar S}.
  Lemma k__init_subtreemass_rows (tid0 : Z) (tid1 : Z) (body_mass_in : (Z -> Z -> S)) (body_subtreemass_out : (Z -> Z -> S)) (atomic_old : (nat -> Z)) (body_mass_in__shape0 : Z) (body_subtreemass_out__shape0 : Z) :
    rows_are (Z.rem tid0 body_subtreemass_out__shape0) (k__init_subtreemass tid0 tid1 body_mass_in body_subtreemass_out atomic_old body_mass_in__shape0 body_subtreemass_out__shape0).
  Proof. rows_tac @k__init_subtreemass. Qed.
  Lemma k__accumulate_subtreemass_rows (tid0 : Z) (tid1 : Z) (body_parentid : (Z -> Z)) (body_subtreemass_io : (Z -> Z -> S)) (body_tree_ : (Z -> Z)) (atomic_old : (nat -> Z)) (body_subtreemass_io__shape0 : Z) :
    rows_are (Z.rem tid0 body_subtreemass_io__shape0) (k__accumulate_subtreemass tid0 tid1 body_parentid body_subtreemass_io body_tree_ atomic_old body_subtreemass_io__shape0).
  Proof. rows_tac @k__accumulate_subtreemass. Qed.
  Lemma k__copy_qpos0_to_qpos_rows (tid0 : Z) (tid1 : Z) (qpos0 : (Z -> Z -> S)) (qpos_out : (Z -> Z -> S)) (atomic_old : (nat -> Z)) (qpos0__shape0 : Z) :
    rows_are tid0 (k__copy_qpos0_to_qpos tid0 tid1 qpos0 qpos_out atomic_old qpos0__shape0).
  Proof. rows_tac @k__copy_qpos0_to_qpos. Qed.
  Lemma k__copy_tendon_length0_rows (tid0 : Z) (tid1 : Z) (ten_length_in : (Z -> Z -> S)) (tendon_length0_out : (Z -> Z -> S)) (atomic_old : (nat -> Z)) (tendon_length0_out__shape0 : Z) :
    rows_are (Z.rem tid0 tendon_length0_out__shape0) (k__copy_tendon_length0 tid0 tid1 ten_length_in tendon_length0_out atomic_old tendon_length0_out__shape0).
  Proof. rows_tac @k__copy_tendon_length0. Qed.
  Lemma k__compute_eq_data0_rows (tid0 : Z) (tid1 : Z) (eq_type : (Z -> Z)) (eq_obj1id : (Z -> Z)) (eq_obj2id : (Z -> Z)) (eq_objtype : (Z -> Z)) (xpos_in : (Z -> Z -> (list S))) (xquat_in : (Z -> Z -> (list S))) (xmat_in : (Z -> Z -> (list S))) (eq_data_out : (Z -> Z -> (list S))) (atomic_old : (nat -> Z)) (eq_data_out__shape0 : Z) :
    rows_are (Z.rem tid0 eq_data_out__shape0) (k__compute_eq_data0 tid0 tid1 eq_type eq_obj1id eq_obj2id eq_objtype xpos_in xquat_in xmat_in eq_data_out atomic_old eq_data_out__shape0).
  Proof. rows_tac @k__compute_eq_data0. Qed.
  Lemma k__resolve_tendon_lengthspring_rows (tid0 : Z) (tid1 : Z) (ten_length_in : (Z -> Z -> S)) (tendon_lengthspring_out : (Z -> Z -> (list S))) (atomic_old : (nat -> Z)) (tendon_lengthspring_out__shape0 : Z) :
    rows_are (Z.rem tid0 tendon_lengthspring_out__shape0) (k__resolve_tendon_lengthspring tid0 tid1 ten_length_in tendon_lengthspring_out atomic_old tendon_lengthspring_out__shape0).
  Proof. rows_tac @k__resolve_tendon_lengthspring. Qed.
  Lemma k__compute_meaninertia_rows (tid0 : Z) (nv : Z) (M_rownnz_in : (Z -> Z)) (M_rowadr_in : (Z -> Z)) (M_in : (Z -> Z -> S)) (meaninertia_out : (Z -> S)) (atomic_old : (nat -> Z)) (meaninertia_out__shape0 : Z) :
    rows_are (Z.rem tid0 meaninertia_out__shape0) (k__compute_meaninertia tid0 nv M_rownnz_in M_rowadr_in M_in meaninertia_out atomic_old meaninertia_out__shape0).
  Proof. rows_tac @k__compute_meaninertia. Qed.
  Lemma k__set_unit_vector_rows (tid0 : Z) (dofid_target : Z) (unit_vec_out : (Z -> Z -> S)) (atomic_old : (nat -> Z)) (unit_vec_out__shape1 : Z) :
    rows_are tid0 (k__set_unit_vector tid0 dofid_target unit_vec_out atomic_old unit_vec_out__shape1).
  Proof. rows_tac @k__set_unit_vector. Qed.
  Lemma k__extract_dof_A_diag_rows (tid0 : Z) (dofid : Z) (result_vec_in : (Z -> Z -> S)) (dof_A_diag_out : (Z -> Z -> S)) (atomic_old : (nat -> Z)) (dof_A_diag_out__shape0 : Z) :
    rows_are (Z.rem tid0 dof_A_diag_out__shape0) (k__extract_dof_A_diag tid0 dofid result_vec_in dof_A_diag_out atomic_old dof_A_diag_out__shape0).
  Proof. rows_tac @k__extract_dof_A_diag. Qed.
  Lemma k__finalize_dof_invweight0_rows (tid0 : Z) (tid1 : Z) (body_simple : (Z -> Z)) (body_mass : (Z -> Z -> S)) (dof_bodyid : (Z -> Z)) (dof_jntid : (Z -> Z)) (jnt_type : (Z -> Z)) (jnt_dofadr : (Z -> Z)) (dof_A_diag_in : (Z -> Z -> S)) (dof_invweight0_out : (Z -> Z -> S)) (atomic_old : (nat -> Z)) (dof_invweight0_out__shape0 : Z) (dof_A_diag_in__shape0 : Z) (body_mass__shape0 : Z) :
    rows_are (Z.rem tid0 dof_invweight0_out__shape0) (k__finalize_dof_invweight0 tid0 tid1 body_simple body_mass dof_bodyid dof_jntid jnt_type jnt_dofadr dof_A_diag_in dof_invweight0_out atomic_old dof_invweight0_out__shape0 dof_A_diag_in__shape0 body_mass__shape0).
  Proof. rows_tac @k__finalize_dof_invweight0. Qed.
  Lemma k__compute_body_jac_row_rows (tid0 : Z) (nv : Z) (bodyid_target : Z) (row_idx : Z) (body_parentid : (Z -> Z)) (body_rootid : (Z -> Z)) (body_dofadr : (Z -> Z)) (body_dofnum : (Z -> Z)) (dof_parentid : (Z -> Z)) (subtree_com_in : (Z -> Z -> (list S))) (xipos_in : (Z -> Z -> (list S))) (cdof_in : (Z -> Z -> (list S))) (body_jac_row_out : (Z -> Z -> S)) (atomic_old : (nat -> Z)) :
    rows_are tid0 (k__compute_body_jac_row tid0 nv bodyid_target row_idx body_parentid body_rootid body_dofadr body_dofnum dof_parentid subtree_com_in xipos_in cdof_in body_jac_row_out atomic_old).
  Proof. rows_tac @k__compute_body_jac_row. Qed.
  Lemma k__compute_body_A_diag_entry_rows (tid0 : Z) (nv : Z) (bodyid_target : Z) (row_idx : Z) (body_jac_row_in : (Z -> Z -> S)) (result_vec_in : (Z -> Z -> S)) (body_A_diag_out : (Z -> Z -> Z -> S)) (atomic_old : (nat -> Z)) (body_A_diag_out__shape0 : Z) :
    rows_are (Z.rem tid0 body_A_diag_out__shape0) (k__compute_body_A_diag_entry tid0 nv bodyid_target row_idx body_jac_row_in result_vec_in body_A_diag_out atomic_old body_A_diag_out__shape0).
  Proof. rows_tac @k__compute_body_A_diag_entry. Qed.
  Lemma k__finalize_body_invweight0_rows (tid0 : Z) (tid1 : Z) (body_weldid : (Z -> Z)) (body_simple : (Z -> Z)) (body_mass : (Z -> Z -> S)) (body_A_diag_in : (Z -> Z -> Z -> S)) (body_invweight0_out : (Z -> Z -> (list S))) (atomic_old : (nat -> Z)) (body_invweight0_out__shape0 : Z) (body_A_diag_in__shape0 : Z) (body_mass__shape0 : Z) :
    rows_are (Z.rem tid0 body_invweight0_out__shape0) (k__finalize_body_invweight0 tid0 tid1 body_weldid body_simple body_mass body_A_diag_in body_invweight0_out atomic_old body_invweight0_out__shape0 body_A_diag_in__shape0 body_mass__shape0).
  Proof. rows_tac @k__finalize_body_invweight0. Qed.
  Lemma k__copy_tendon_jacobian_rows (tid0 : Z) (tenid_target : Z) (ten_J_rownnz : (Z -> Z)) (ten_J_rowadr : (Z -> Z)) (ten_J_colind : (Z -> Z)) (ten_J_in : (Z -> Z -> S)) (ten_J_vec_out : (Z -> Z -> S)) (atomic_old : (nat -> Z)) (ten_J_in__shape2 : Z) :
    rows_are tid0 (k__copy_tendon_jacobian tid0 tenid_target ten_J_rownnz ten_J_rowadr ten_J_colind ten_J_in ten_J_vec_out atomic_old ten_J_in__shape2).
  Proof. rows_tac @k__copy_tendon_jacobian. Qed.
  Lemma k__compute_tendon_dot_product_rows (tid0 : Z) (ten_J_rownnz : (Z -> Z)) (ten_J_rowadr : (Z -> Z)) (ten_J_colind : (Z -> Z)) (tenid_target : Z) (ten_J_in : (Z -> Z -> S)) (result_vec_in : (Z -> Z -> S)) (tendon_invweight0_out : (Z -> Z -> S)) (atomic_old : (nat -> Z)) (tendon_invweight0_out__shape0 : Z) :
    rows_are (Z.rem tid0 tendon_invweight0_out__shape0) (k__compute_tendon_dot_product tid0 ten_J_rownnz ten_J_rowadr ten_J_colind tenid_target ten_J_in result_vec_in tendon_invweight0_out atomic_old tendon_invweight0_out__shape0).
  Proof. rows_tac @k__compute_tendon_dot_product. Qed.
  Lemma k__compute_cam_pos0_rows (tid0 : Z) (tid1 : Z) (cam_bodyid : (Z -> Z)) (cam_targetbodyid : (Z -> Z)) (cam_xpos_in : (Z -> Z -> (list S))) (cam_xmat_in : (Z -> Z -> (list S))) (xpos_in : (Z -> Z -> (list S))) (subtree_com_in : (Z -> Z -> (list S))) (cam_pos0_out : (Z -> Z -> (list S))) (cam_poscom0_out : (Z -> Z -> (list S))) (cam_mat0_out : (Z -> Z -> (list S))) (atomic_old : (nat -> Z)) (cam_pos0_out__shape0 : Z) (cam_poscom0_out__shape0 : Z) (cam_mat0_out__shape0 : Z) :
    rows_of "cam_pos0_out" (Z.rem tid0 cam_pos0_out__shape0) (k__compute_cam_pos0 tid0 tid1 cam_bodyid cam_targetbodyid cam_xpos_in cam_xmat_in xpos_in subtree_com_in cam_pos0_out cam_poscom0_out cam_mat0_out atomic_old cam_pos0_out__shape0 cam_poscom0_out__shape0 cam_mat0_out__shape0) /\
    rows_of "cam_poscom0_out" (Z.rem tid0 cam_poscom0_out__shape0) (k__compute_cam_pos0 tid0 tid1 cam_bodyid cam_targetbodyid cam_xpos_in cam_xmat_in xpos_in subtree_com_in cam_pos0_out cam_poscom0_out cam_mat0_out atomic_old cam_pos0_out__shape0 cam_poscom0_out__shape0 cam_mat0_out__shape0) /\
    rows_of "cam_mat0_out" (Z.rem tid0 cam_mat0_out__shape0) (k__compute_cam_pos0 tid0 tid1 cam_bodyid cam_targetbodyid cam_xpos_in cam_xmat_in xpos_in subtree_com_in cam_pos0_out cam_poscom0_out cam_mat0_out atomic_old cam_pos0_out__shape0 cam_poscom0_out__shape0 cam_mat0_out__shape0).
  Proof. rewrite compute_cam_pos0_spec. repeat split; repeat (apply Forall_cons; [cbn [w_arr w_idx nth]; first [reflexivity | intro; discriminate]|]); apply Forall_nil. Qed.
  Lemma k__compute_light_pos0_rows (tid0 : Z) (tid1 : Z) (light_bodyid : (Z -> Z)) (light_targetbodyid : (Z -> Z)) (light_xpos_in : (Z -> Z -> (list S))) (light_xdir_in : (Z -> Z -> (list S))) (xpos_in : (Z -> Z -> (list S))) (subtree_com_in : (Z -> Z -> (list S))) (light_pos0_out : (Z -> Z -> (list S))) (light_poscom0_out : (Z -> Z -> (list S))) (light_dir0_out : (Z -> Z -> (list S))) (atomic_old : (nat -> Z)) (light_pos0_out__shape0 : Z) (light_poscom0_out__shape0 : Z) (light_dir0_out__shape0 : Z) :
    rows_of "light_pos0_out" (Z.rem tid0 light_pos0_out__shape0) (k__compute_light_pos0 tid0 tid1 light_bodyid light_targetbodyid light_xpos_in light_xdir_in xpos_in subtree_com_in light_pos0_out light_poscom0_out light_dir0_out atomic_old light_pos0_out__shape0 light_poscom0_out__shape0 light_dir0_out__shape0) /\
    rows_of "light_poscom0_out" (Z.rem tid0 light_poscom0_out__shape0) (k__compute_light_pos0 tid0 tid1 light_bodyid light_targetbodyid light_xpos_in light_xdir_in xpos_in subtree_com_in light_pos0_out light_poscom0_out light_dir0_out atomic_old light_pos0_out__shape0 light_poscom0_out__shape0 light_dir0_out__shape0) /\
    rows_of "light_dir0_out" (Z.rem tid0 light_dir0_out__shape0) (k__compute_light_pos0 tid0 tid1 light_bodyid light_targetbodyid light_xpos_in light_xdir_in xpos_in subtree_com_in light_pos0_out light_poscom0_out light_dir0_out atomic_old light_pos0_out__shape0 light_poscom0_out__shape0 light_dir0_out__shape0).
  Proof. rewrite compute_light_pos0_spec. repeat split; repeat (apply Forall_cons; [cbn [w_arr w_idx nth]; first [reflexivity | intro; discriminate]|]); apply Forall_nil. Qed.
  Lemma k__copy_actuator_moment_rows (tid0 : Z) (actid_target : Z) (moment_rownnz_in : (Z -> Z -> Z)) (moment_rowadr_in : (Z -> Z -> Z)) (moment_colind_in : (Z -> Z -> Z)) (actuator_moment_in : (Z -> Z -> S)) (act_moment_vec_out : (Z -> Z -> S)) (atomic_old : (nat -> Z)) (act_moment_vec_out__shape1 : Z) :
    rows_are tid0 (k__copy_actuator_moment tid0 actid_target moment_rownnz_in moment_rowadr_in moment_colind_in actuator_moment_in act_moment_vec_out atomic_old act_moment_vec_out__shape1).
  Proof. rows_tac @k__copy_actuator_moment. Qed.
  Lemma k__compute_actuator_acc0_rows (tid0 : Z) (actid_target : Z) (nv : Z) (result_vec_in : (Z -> Z -> S)) (actuator_acc0_out : (Z -> Z -> S)) (atomic_old : (nat -> Z)) :
    rows_are tid0 (k__compute_actuator_acc0 tid0 actid_target nv result_vec_in actuator_acc0_out atomic_old).
  Proof. rows_tac @k__compute_actuator_acc0. Qed.
  Lemma k__compute_dof_M0_rows (tid0 : Z) (tid1 : Z) (dof_bodyid : (Z -> Z)) (dof_armature : (Z -> Z -> S)) (cdof_in : (Z -> Z -> (list S))) (crb_in : (Z -> Z -> (list S))) (dof_M0_out : (Z -> Z -> S)) (atomic_old : (nat -> Z)) (dof_armature__shape0 : Z) :
    rows_are tid0 (k__compute_dof_M0 tid0 tid1 dof_bodyid dof_armature cdof_in crb_in dof_M0_out atomic_old dof_armature__shape0).
  Proof. rows_tac @k__compute_dof_M0. Qed.
  Lemma k__resolve_dampratio_rows (tid0 : Z) (tid1 : Z) (actuator_biastype : (Z -> Z)) (actuator_gainprm : (Z -> Z -> (list S))) (moment_rownnz_in : (Z -> Z -> Z)) (moment_rowadr_in : (Z -> Z -> Z)) (moment_colind_in : (Z -> Z -> Z)) (actuator_moment_in : (Z -> Z -> S)) (dof_M0_in : (Z -> Z -> S)) (nv : Z) (actuator_biasprm : (Z -> Z -> (list S))) (atomic_old : (nat -> Z)) (actuator_gainprm__shape0 : Z) (actuator_biasprm__shape0 : Z) :
    rows_are (Z.rem tid0 actuator_biasprm__shape0) (k__resolve_dampratio tid0 tid1 actuator_biastype actuator_gainprm moment_rownnz_in moment_rowadr_in moment_colind_in actuator_moment_in dof_M0_in nv actuator_biasprm atomic_old actuator_gainprm__shape0 actuator_biasprm__shape0).
  Proof. rows_tac @k__resolve_dampratio. Qed.
  Lemma k__set_length_range_rows (tid0 : Z) (tid1 : Z) (actuator_trntype : (Z -> Z)) (actuator_trnid : (Z -> (list Z))) (actuator_gear : (Z -> Z -> (list S))) (jnt_limited : (Z -> Z)) (jnt_range : (Z -> Z -> (list S))) (tendon_limited : (Z -> Z)) (tendon_range : (Z -> Z -> (list S))) (ntendon : Z) (actuator_lengthrange_out : (Z -> Z -> (list S))) (atomic_old : (nat -> Z)) (actuator_gear__shape0 : Z) (jnt_range__shape0 : Z) (tendon_range__shape0 : Z) :
    rows_are tid0 (k__set_length_range tid0 tid1 actuator_trntype actuator_trnid actuator_gear jnt_limited jnt_range tendon_limited tendon_range ntendon actuator_lengthrange_out atomic_old actuator_gear__shape0 jnt_range__shape0 tendon_range__shape0).
  Proof. rows_tac @k__set_length_range. Qed.
End Rows.

(* all 22 kernels at once (instance R) *)
Theorem rows_all :
  (forall (tid0 : Z) (tid1 : Z) (body_mass_in : (Z -> Z -> R)) (body_subtreemass_out : (Z -> Z -> R)) (atomic_old : (nat -> Z)) (body_mass_in__shape0 : Z) (body_subtreemass_out__shape0 : Z),
     rows_are (Z.rem tid0 body_subtreemass_out__shape0) (k__init_subtreemass tid0 tid1 body_mass_in body_subtreemass_out atomic_old body_mass_in__shape0 body_subtreemass_out__shape0)) /\
  (forall (tid0 : Z) (tid1 : Z) (body_parentid : (Z -> Z)) (body_subtreemass_io : (Z -> Z -> R)) (body_tree_ : (Z -> Z)) (atomic_old : (nat -> Z)) (body_subtreemass_io__shape0 : Z),
     rows_are (Z.rem tid0 body_subtreemass_io__shape0) (k__accumulate_subtreemass tid0 tid1 body_parentid body_subtreemass_io body_tree_ atomic_old body_subtreemass_io__shape0)) /\
  (forall (tid0 : Z) (tid1 : Z) (qpos0 : (Z -> Z -> R)) (qpos_out : (Z -> Z -> R)) (atomic_old : (nat -> Z)) (qpos0__shape0 : Z),
     rows_are tid0 (k__copy_qpos0_to_qpos tid0 tid1 qpos0 qpos_out atomic_old qpos0__shape0)) /\
  (forall (tid0 : Z) (tid1 : Z) (ten_length_in : (Z -> Z -> R)) (tendon_length0_out : (Z -> Z -> R)) (atomic_old : (nat -> Z)) (tendon_length0_out__shape0 : Z),
     rows_are (Z.rem tid0 tendon_length0_out__shape0) (k__copy_tendon_length0 tid0 tid1 ten_length_in tendon_length0_out atomic_old tendon_length0_out__shape0)) /\
  (forall (tid0 : Z) (tid1 : Z) (eq_type : (Z -> Z)) (eq_obj1id : (Z -> Z)) (eq_obj2id : (Z -> Z)) (eq_objtype : (Z -> Z)) (xpos_in : (Z -> Z -> (list R))) (xquat_in : (Z -> Z -> (list R))) (xmat_in : (Z -> Z -> (list R))) (eq_data_out : (Z -> Z -> (list R))) (atomic_old : (nat -> Z)) (eq_data_out__shape0 : Z),
     rows_are (Z.rem tid0 eq_data_out__shape0) (k__compute_eq_data0 tid0 tid1 eq_type eq_obj1id eq_obj2id eq_objtype xpos_in xquat_in xmat_in eq_data_out atomic_old eq_data_out__shape0)) /\
  (forall (tid0 : Z) (tid1 : Z) (ten_length_in : (Z -> Z -> R)) (tendon_lengthspring_out : (Z -> Z -> (list R))) (atomic_old : (nat -> Z)) (tendon_lengthspring_out__shape0 : Z),
     rows_are (Z.rem tid0 tendon_lengthspring_out__shape0) (k__resolve_tendon_lengthspring tid0 tid1 ten_length_in tendon_lengthspring_out atomic_old tendon_lengthspring_out__shape0)) /\
  (forall (tid0 : Z) (nv : Z) (M_rownnz_in : (Z -> Z)) (M_rowadr_in : (Z -> Z)) (M_in : (Z -> Z -> R)) (meaninertia_out : (Z -> R)) (atomic_old : (nat -> Z)) (meaninertia_out__shape0 : Z),
     rows_are (Z.rem tid0 meaninertia_out__shape0) (k__compute_meaninertia tid0 nv M_rownnz_in M_rowadr_in M_in meaninertia_out atomic_old meaninertia_out__shape0)) /\
  (forall (tid0 : Z) (dofid_target : Z) (unit_vec_out : (Z -> Z -> R)) (atomic_old : (nat -> Z)) (unit_vec_out__shape1 : Z),
     rows_are tid0 (k__set_unit_vector tid0 dofid_target unit_vec_out atomic_old unit_vec_out__shape1)) /\
  (forall (tid0 : Z) (dofid : Z) (result_vec_in : (Z -> Z -> R)) (dof_A_diag_out : (Z -> Z -> R)) (atomic_old : (nat -> Z)) (dof_A_diag_out__shape0 : Z),
     rows_are (Z.rem tid0 dof_A_diag_out__shape0) (k__extract_dof_A_diag tid0 dofid result_vec_in dof_A_diag_out atomic_old dof_A_diag_out__shape0)) /\
  (forall (tid0 : Z) (tid1 : Z) (body_simple : (Z -> Z)) (body_mass : (Z -> Z -> R)) (dof_bodyid : (Z -> Z)) (dof_jntid : (Z -> Z)) (jnt_type : (Z -> Z)) (jnt_dofadr : (Z -> Z)) (dof_A_diag_in : (Z -> Z -> R)) (dof_invweight0_out : (Z -> Z -> R)) (atomic_old : (nat -> Z)) (dof_invweight0_out__shape0 : Z) (dof_A_diag_in__shape0 : Z) (body_mass__shape0 : Z),
     rows_are (Z.rem tid0 dof_invweight0_out__shape0) (k__finalize_dof_invweight0 tid0 tid1 body_simple body_mass dof_bodyid dof_jntid jnt_type jnt_dofadr dof_A_diag_in dof_invweight0_out atomic_old dof_invweight0_out__shape0 dof_A_diag_in__shape0 body_mass__shape0)) /\
  (forall (tid0 : Z) (nv : Z) (bodyid_target : Z) (row_idx : Z) (body_parentid : (Z -> Z)) (body_rootid : (Z -> Z)) (body_dofadr : (Z -> Z)) (body_dofnum : (Z -> Z)) (dof_parentid : (Z -> Z)) (subtree_com_in : (Z -> Z -> (list R))) (xipos_in : (Z -> Z -> (list R))) (cdof_in : (Z -> Z -> (list R))) (body_jac_row_out : (Z -> Z -> R)) (atomic_old : (nat -> Z)),
     rows_are tid0 (k__compute_body_jac_row tid0 nv bodyid_target row_idx body_parentid body_rootid body_dofadr body_dofnum dof_parentid subtree_com_in xipos_in cdof_in body_jac_row_out atomic_old)) /\
  (forall (tid0 : Z) (nv : Z) (bodyid_target : Z) (row_idx : Z) (body_jac_row_in : (Z -> Z -> R)) (result_vec_in : (Z -> Z -> R)) (body_A_diag_out : (Z -> Z -> Z -> R)) (atomic_old : (nat -> Z)) (body_A_diag_out__shape0 : Z),
     rows_are (Z.rem tid0 body_A_diag_out__shape0) (k__compute_body_A_diag_entry tid0 nv bodyid_target row_idx body_jac_row_in result_vec_in body_A_diag_out atomic_old body_A_diag_out__shape0)) /\
  (forall (tid0 : Z) (tid1 : Z) (body_weldid : (Z -> Z)) (body_simple : (Z -> Z)) (body_mass : (Z -> Z -> R)) (body_A_diag_in : (Z -> Z -> Z -> R)) (body_invweight0_out : (Z -> Z -> (list R))) (atomic_old : (nat -> Z)) (body_invweight0_out__shape0 : Z) (body_A_diag_in__shape0 : Z) (body_mass__shape0 : Z),
     rows_are (Z.rem tid0 body_invweight0_out__shape0) (k__finalize_body_invweight0 tid0 tid1 body_weldid body_simple body_mass body_A_diag_in body_invweight0_out atomic_old body_invweight0_out__shape0 body_A_diag_in__shape0 body_mass__shape0)) /\
  (forall (tid0 : Z) (tenid_target : Z) (ten_J_rownnz : (Z -> Z)) (ten_J_rowadr : (Z -> Z)) (ten_J_colind : (Z -> Z)) (ten_J_in : (Z -> Z -> R)) (ten_J_vec_out : (Z -> Z -> R)) (atomic_old : (nat -> Z)) (ten_J_in__shape2 : Z),
     rows_are tid0 (k__copy_tendon_jacobian tid0 tenid_target ten_J_rownnz ten_J_rowadr ten_J_colind ten_J_in ten_J_vec_out atomic_old ten_J_in__shape2)) /\
  (forall (tid0 : Z) (ten_J_rownnz : (Z -> Z)) (ten_J_rowadr : (Z -> Z)) (ten_J_colind : (Z -> Z)) (tenid_target : Z) (ten_J_in : (Z -> Z -> R)) (result_vec_in : (Z -> Z -> R)) (tendon_invweight0_out : (Z -> Z -> R)) (atomic_old : (nat -> Z)) (tendon_invweight0_out__shape0 : Z),
     rows_are (Z.rem tid0 tendon_invweight0_out__shape0) (k__compute_tendon_dot_product tid0 ten_J_rownnz ten_J_rowadr ten_J_colind tenid_target ten_J_in result_vec_in tendon_invweight0_out atomic_old tendon_invweight0_out__shape0)) /\
  (forall (tid0 : Z) (tid1 : Z) (cam_bodyid : (Z -> Z)) (cam_targetbodyid : (Z -> Z)) (cam_xpos_in : (Z -> Z -> (list R))) (cam_xmat_in : (Z -> Z -> (list R))) (xpos_in : (Z -> Z -> (list R))) (subtree_com_in : (Z -> Z -> (list R))) (cam_pos0_out : (Z -> Z -> (list R))) (cam_poscom0_out : (Z -> Z -> (list R))) (cam_mat0_out : (Z -> Z -> (list R))) (atomic_old : (nat -> Z)) (cam_pos0_out__shape0 : Z) (cam_poscom0_out__shape0 : Z) (cam_mat0_out__shape0 : Z),
     rows_of "cam_pos0_out" (Z.rem tid0 cam_pos0_out__shape0) (k__compute_cam_pos0 tid0 tid1 cam_bodyid cam_targetbodyid cam_xpos_in cam_xmat_in xpos_in subtree_com_in cam_pos0_out cam_poscom0_out cam_mat0_out atomic_old cam_pos0_out__shape0 cam_poscom0_out__shape0 cam_mat0_out__shape0) /\
    rows_of "cam_poscom0_out" (Z.rem tid0 cam_poscom0_out__shape0) (k__compute_cam_pos0 tid0 tid1 cam_bodyid cam_targetbodyid cam_xpos_in cam_xmat_in xpos_in subtree_com_in cam_pos0_out cam_poscom0_out cam_mat0_out atomic_old cam_pos0_out__shape0 cam_poscom0_out__shape0 cam_mat0_out__shape0) /\
    rows_of "cam_mat0_out" (Z.rem tid0 cam_mat0_out__shape0) (k__compute_cam_pos0 tid0 tid1 cam_bodyid cam_targetbodyid cam_xpos_in cam_xmat_in xpos_in subtree_com_in cam_pos0_out cam_poscom0_out cam_mat0_out atomic_old cam_pos0_out__shape0 cam_poscom0_out__shape0 cam_mat0_out__shape0)) /\
  (forall (tid0 : Z) (tid1 : Z) (light_bodyid : (Z -> Z)) (light_targetbodyid : (Z -> Z)) (light_xpos_in : (Z -> Z -> (list R))) (light_xdir_in : (Z -> Z -> (list R))) (xpos_in : (Z -> Z -> (list R))) (subtree_com_in : (Z -> Z -> (list R))) (light_pos0_out : (Z -> Z -> (list R))) (light_poscom0_out : (Z -> Z -> (list R))) (light_dir0_out : (Z -> Z -> (list R))) (atomic_old : (nat -> Z)) (light_pos0_out__shape0 : Z) (light_poscom0_out__shape0 : Z) (light_dir0_out__shape0 : Z),
     rows_of "light_pos0_out" (Z.rem tid0 light_pos0_out__shape0) (k__compute_light_pos0 tid0 tid1 light_bodyid light_targetbodyid light_xpos_in light_xdir_in xpos_in subtree_com_in light_pos0_out light_poscom0_out light_dir0_out atomic_old light_pos0_out__shape0 light_poscom0_out__shape0 light_dir0_out__shape0) /\
    rows_of "light_poscom0_out" (Z.rem tid0 light_poscom0_out__shape0) (k__compute_light_pos0 tid0 tid1 light_bodyid light_targetbodyid light_xpos_in light_xdir_in xpos_in subtree_com_in light_pos0_out light_poscom0_out light_dir0_out atomic_old light_pos0_out__shape0 light_poscom0_out__shape0 light_dir0_out__shape0) /\
    rows_of "light_dir0_out" (Z.rem tid0 light_dir0_out__shape0) (k__compute_light_pos0 tid0 tid1 light_bodyid light_targetbodyid light_xpos_in light_xdir_in xpos_in subtree_com_in light_pos0_out light_poscom0_out light_dir0_out atomic_old light_pos0_out__shape0 light_poscom0_out__shape0 light_dir0_out__shape0)) /\
  (forall (tid0 : Z) (actid_target : Z) (moment_rownnz_in : (Z -> Z -> Z)) (moment_rowadr_in : (Z -> Z -> Z)) (moment_colind_in : (Z -> Z -> Z)) (actuator_moment_in : (Z -> Z -> R)) (act_moment_vec_out : (Z -> Z -> R)) (atomic_old : (nat -> Z)) (act_moment_vec_out__shape1 : Z),
     rows_are tid0 (k__copy_actuator_moment tid0 actid_target moment_rownnz_in moment_rowadr_in moment_colind_in actuator_moment_in act_moment_vec_out atomic_old act_moment_vec_out__shape1)) /\
  (forall (tid0 : Z) (actid_target : Z) (nv : Z) (result_vec_in : (Z -> Z -> R)) (actuator_acc0_out : (Z -> Z -> R)) (atomic_old : (nat -> Z)),
     rows_are tid0 (k__compute_actuator_acc0 tid0 actid_target nv result_vec_in actuator_acc0_out atomic_old)) /\
  (forall (tid0 : Z) (tid1 : Z) (dof_bodyid : (Z -> Z)) (dof_armature : (Z -> Z -> R)) (cdof_in : (Z -> Z -> (list R))) (crb_in : (Z -> Z -> (list R))) (dof_M0_out : (Z -> Z -> R)) (atomic_old : (nat -> Z)) (dof_armature__shape0 : Z),
     rows_are tid0 (k__compute_dof_M0 tid0 tid1 dof_bodyid dof_armature cdof_in crb_in dof_M0_out atomic_old dof_armature__shape0)) /\
  (forall (tid0 : Z) (tid1 : Z) (actuator_biastype : (Z -> Z)) (actuator_gainprm : (Z -> Z -> (list R))) (moment_rownnz_in : (Z -> Z -> Z)) (moment_rowadr_in : (Z -> Z -> Z)) (moment_colind_in : (Z -> Z -> Z)) (actuator_moment_in : (Z -> Z -> R)) (dof_M0_in : (Z -> Z -> R)) (nv : Z) (actuator_biasprm : (Z -> Z -> (list R))) (atomic_old : (nat -> Z)) (actuator_gainprm__shape0 : Z) (actuator_biasprm__shape0 : Z),
     rows_are (Z.rem tid0 actuator_biasprm__shape0) (k__resolve_dampratio tid0 tid1 actuator_biastype actuator_gainprm moment_rownnz_in moment_rowadr_in moment_colind_in actuator_moment_in dof_M0_in nv actuator_biasprm atomic_old actuator_gainprm__shape0 actuator_biasprm__shape0)) /\
  (forall (tid0 : Z) (tid1 : Z) (actuator_trntype : (Z -> Z)) (actuator_trnid : (Z -> (list Z))) (actuator_gear : (Z -> Z -> (list R))) (jnt_limited : (Z -> Z)) (jnt_range : (Z -> Z -> (list R))) (tendon_limited : (Z -> Z)) (tendon_range : (Z -> Z -> (list R))) (ntendon : Z) (actuator_lengthrange_out : (Z -> Z -> (list R))) (atomic_old : (nat -> Z)) (actuator_gear__shape0 : Z) (jnt_range__shape0 : Z) (tendon_range__shape0 : Z),
     rows_are tid0 (k__set_length_range tid0 tid1 actuator_trntype actuator_trnid actuator_gear jnt_limited jnt_range tendon_limited tendon_range ntendon actuator_lengthrange_out atomic_old actuator_gear__shape0 jnt_range__shape0 tendon_range__shape0)).
Proof.
  exact (conj k__init_subtreemass_rows (conj k__accumulate_subtreemass_rows (conj k__copy_qpos0_to_qpos_rows (conj k__copy_tendon_length0_rows (conj k__compute_eq_data0_rows (conj k__resolve_tendon_lengthspring_rows (conj k__compute_meaninertia_rows (conj k__set_unit_vector_rows (conj k__extract_dof_A_diag_rows (conj k__finalize_dof_invweight0_rows (conj k__compute_body_jac_row_rows (conj k__compute_body_A_diag_entry_rows (conj k__finalize_body_invweight0_rows (conj k__copy_tendon_jacobian_rows (conj k__compute_tendon_dot_product_rows (conj k__compute_cam_pos0_rows (conj k__compute_light_pos0_rows (conj k__copy_actuator_moment_rows (conj k__compute_actuator_acc0_rows (conj k__compute_dof_M0_rows (conj k__resolve_dampratio_rows (k__set_length_range_rows)))))))))))))))))))))).
Qed.

(* ---------- launch-site discipline ---------------------------------------------------------- *)
(* a kernel that writes row  tid0 rem shape0  stays inside its output whatever the launch
   dimension is *)
Lemma mod_row_in_bounds tid0 N : 0 <= tid0 -> 0 < N -> row_in_bounds (Z.rem tid0 N) N = true.
Proof.
  intros H0 HN. unfold row_in_bounds. pose proof (Z.rem_bound_pos tid0 N H0 HN).
  apply andb_true_iff. split; [apply Z.leb_le | apply Z.ltb_lt]; lia.
Qed.
(* a kernel that writes row tid0 needs launch dimension <= leading size of the output *)
Lemma tid_row_in_bounds tid0 dim0 N : 0 <= tid0 < dim0 -> dim0 <= N -> row_in_bounds tid0 N = true.
Proof.
  intros. unfold row_in_bounds. apply andb_true_iff. split; [apply Z.leb_le | apply Z.ltb_lt]; lia.
Qed.

(* cameras / lights: whatever the three leading sizes are (partially batched outputs), every
   write of task tid0 < max of them lands inside the array it goes to *)
Theorem compute_cam_pos0_rows_in_bounds :
  forall tid0 c bodyid targetid (cxpos cxmat xpos scom p0 pc0 m0 : Z -> Z -> list R) orc N1 N2 N3,
    0 <= tid0 -> 0 < N1 -> 0 < N2 -> 0 < N3 ->
    Forall (fun w => row_in_bounds (nth 0 (w_idx w) (-1))
                       (if String.eqb (w_arr w) "cam_pos0_out" then N1
                        else if String.eqb (w_arr w) "cam_poscom0_out" then N2 else N3) = true)
           (k__compute_cam_pos0 tid0 c bodyid targetid cxpos cxmat xpos scom p0 pc0 m0 orc N1 N2 N3).
Proof.
  intros. rewrite compute_cam_pos0_spec.
  repeat (apply Forall_cons; [cbn [w_arr w_idx nth String.eqb Ascii.eqb Bool.eqb]; apply mod_row_in_bounds; assumption|]).
  apply Forall_nil.
Qed.
Theorem compute_light_pos0_rows_in_bounds :
  forall tid0 c bodyid targetid (lxpos lxdir xpos scom p0 pc0 d0 : Z -> Z -> list R) orc N1 N2 N3,
    0 <= tid0 -> 0 < N1 -> 0 < N2 -> 0 < N3 ->
    Forall (fun w => row_in_bounds (nth 0 (w_idx w) (-1))
                       (if String.eqb (w_arr w) "light_pos0_out" then N1
                        else if String.eqb (w_arr w) "light_poscom0_out" then N2 else N3) = true)
           (k__compute_light_pos0 tid0 c bodyid targetid lxpos lxdir xpos scom p0 pc0 d0 orc N1 N2 N3).
Proof.
  intros. rewrite compute_light_pos0_spec.
  repeat (apply Forall_cons; [cbn [w_arr w_idx nth String.eqb Ascii.eqb Bool.eqb]; apply mod_row_in_bounds; assumption|]).
  apply Forall_nil.
Qed.

(* hypotheses of subtreemass_levels_thm are satisfiable: C02's example forest, two worlds,
   the CPU order and the fully reversed order of every launch *)
Lemma Forall2_grid Ns (lvs : list (list Z)) (g : list (Z * Z) -> list (Z * Z)) :
  (forall l, Permutation (g l) l) ->
  Forall2 (fun s lv => Permutation s (grid Ns (length lv))) (map (fun lv => g (grid Ns (length lv))) lvs) lvs.
Proof. intros Hg. induction lvs; simpl; constructor; auto. Qed.
Example subtreemass_scheds_exist :
  wf_forest ex_parent /\
  Forall2 (fun s lv => Permutation s (grid 2 (length lv)))
          (map (fun lv => rev (grid 2 (length lv))) (rev (body_tree ex_parent))) (rev (body_tree ex_parent)) /\
  Permutation (rev (grid 2 (length ex_parent))) (grid 2 (length ex_parent)).
Proof.
  split; [exact ex_wf|]. split.
  - apply (Forall2_grid 2 _ (@rev (Z * Z))). intros. apply Permutation_sym, Permutation_rev.
  - apply Permutation_sym, Permutation_rev.
Qed.

(* the value left in body_subtreemass is the plain sum of body_mass over the bodies of the
   subtree (preorder list of Model/Dyn.v) *)
Lemma fold_left_Rplus_Rsum l : forall a, fold_left Rplus l a = (a + Rsum l)%R.
Proof. induction l as [|x l IH]; intros a; simpl; [lra|]. rewrite IH. lra. Qed.
Lemma subtree_sum_is_Rsum parent (init : list R) b :
  subtree_sum Rplus 0%R SkipBody0 parent init b
  = Rsum (map (aget 0%R init) (subtree_nodes SkipBody0 parent b)).
Proof.
  rewrite subtree_sum_flat by (intros; ring). rewrite fold_left_Rplus_Rsum.
  unfold subtree_nodes. destruct (length parent); reflexivity.
Qed.

(* ======================= 4. restore-state frame ============================================ *)
Local Open Scope string_scope.
Local Open Scope list_scope.
(* ---- nested induction principle for events ---------- *)
Section EventInd.
  Variable P : event -> Prop.
  Variable Q : list event -> Prop.
  Hypothesis Hnil : Q nil.
  Hypothesis Hcons : forall e l, P e -> Q l -> Q (e :: l).
  Hypothesis HLaunch : forall k fa i o, P (ELaunch k fa i o).
  Hypothesis HZero : forall f, P (EZero f).
  Hypothesis HFill : forall f x, P (EFill f x).
  Hypothesis HCopy : forall d s, P (ECopy d s).
  Hypothesis HGroup : forall f a b, Q b -> P (EGroup f a b).
  Hypothesis HExt : forall f a, P (EExt f a).
  Hypothesis HIf : forall c t e, Q t -> Q e -> P (EIf c t e).
  Hypothesis HLoop : forall h b, Q b -> P (ELoop h b).
  Hypothesis HAssign : forall n x, P (EAssign n x).
  Hypothesis HRaise : forall t, P (ERaise t).
  Hypothesis HOther : forall t, P (EOther t).
  Fixpoint ev_ind2 (e : event) : P e :=
    let go := (fix go (l : list event) : Q l :=
                 match l with
                 | nil => Hnil
                 | x :: r => Hcons x r (ev_ind2 x) (go r)
                 end) in
    match e with
    | ELaunch k fa i o => HLaunch k fa i o
    | EZero f => HZero f
    | EFill f x => HFill f x
    | ECopy d s => HCopy d s
    | EGroup f a b => HGroup f a b (go b)
    | EExt f a => HExt f a
    | EIf c t el => HIf c t el (go t) (go el)
    | ELoop h b => HLoop h b (go b)
    | EAssign n x => HAssign n x
    | ERaise t => HRaise t
    | EOther t => HOther t
    end.
  Fixpoint evs_ind2 (l : list event) : Q l :=
    match l with
    | nil => Hnil
    | x :: r => Hcons x r (ev_ind2 x) (evs_ind2 r)
    end.
End EventInd.

Lemma mem_In x l : mem x l = true <-> In x l.
Proof.
  unfold mem. rewrite existsb_exists. split.
  - intros (y & Hy & E). apply String.eqb_eq in E. subst. exact Hy.
  - intros H. exists x. split; [exact H | apply String.eqb_refl].
Qed.
Lemma mem_false x l : mem x l = false <-> ~ In x l.
Proof.
  split; intro H.
  - intro HI. apply mem_In in HI. congruence.
  - destruct (mem x l) eqn:E; auto. apply mem_In in E. tauto.
Qed.

Lemma mem_uadd x f l : mem x (uadd f l) = String.eqb x f || mem x l.
Proof.
  unfold uadd. destruct (mem f l) eqn:E.
  - destruct (String.eqb x f) eqn:E2; simpl; auto. apply String.eqb_eq in E2. subst. exact E.
  - reflexivity.
Qed.
Lemma mem_uapp x a b : mem x (uapp a b) = mem x a || mem x b.
Proof.
  induction a as [|y a IH]; simpl; auto. rewrite mem_uadd, IH.
  unfold mem at 2. simpl. fold (mem x a). rewrite orb_assoc. reflexivity.
Qed.

Lemma env_get_In al x g : env_get al x = Some g -> In (x, g) al.
Proof.
  induction al as [|[a b] al IH]; simpl; [discriminate|].
  destruct (String.eqb a x) eqn:E.
  - intros H. injection H as <-. apply String.eqb_eq in E. subst. left. reflexivity.
  - intros H. right. auto.
Qed.
Lemma env_get_None al x : ~ In x (map fst al) -> env_get al x = None.
Proof.
  induction al as [|[a b] al IH]; simpl; auto. intros H.
  destruct (String.eqb a x) eqn:E.
  - apply String.eqb_eq in E. subst. exfalso. apply H. left. reflexivity.
  - apply IH. intro. apply H. right. assumption.
Qed.
Lemma env_get_drop_same f al : env_get (drop_key f al) f = None.
Proof.
  apply env_get_None. unfold drop_key. intro H. apply in_map_iff in H.
  destruct H as ([a b] & E & H). simpl in E. subst. apply filter_In in H. destruct H as [_ H].
  simpl in H. rewrite String.eqb_refl in H. discriminate.
Qed.
Lemma env_get_drop_other f al x : x <> f -> env_get (drop_key f al) x = env_get al x.
Proof.
  intros N. induction al as [|[a b] al IH]; simpl; auto.
  destruct (String.eqb a f) eqn:E; simpl.
  - apply String.eqb_eq in E. subst. destruct (String.eqb f x) eqn:E2; auto.
    apply String.eqb_eq in E2. congruence.
  - destruct (String.eqb a x); auto.
Qed.

Section Sound.
  Variable tab : inplace_tab.
  Variable V : Type.
  Variable I : event -> store V -> store V.
  Variable v : string -> bool.
  Hypothesis HF : frame_ok tab V I.
  Variable s0 : store V.

  Definition agree (st : astate) (s : store V) : Prop :=
    forall f g, aval st f = Some g -> s f = s0 g.

  Lemma aval_akill st f x g : aval (akill st f) x = Some g -> x <> f /\ aval st x = Some g.
  Proof.
    unfold aval, akill. simpl. destruct (string_dec x f) as [->|N].
    - rewrite env_get_drop_same, mem_uadd, String.eqb_refl. simpl. discriminate.
    - rewrite env_get_drop_other by exact N. rewrite mem_uadd.
      replace (String.eqb x f) with false by (symmetry; apply String.eqb_neq; exact N). simpl.
      intros H. split; [exact N | exact H].
  Qed.
  Lemma aval_akills fs : forall st x g, aval (akills st fs) x = Some g -> ~ In x fs /\ aval st x = Some g.
  Proof.
    induction fs as [|f fs IH]; simpl; intros st x g H.
    - split; [tauto | exact H].
    - apply IH in H. destruct H as [N H]. apply aval_akill in H. destruct H as [N2 H].
      split; [|exact H]. intros [E|E]; [congruence | tauto].
  Qed.
  Lemma agree_kills st s s' fs :
    agree st s -> (forall f, ~ In f fs -> s' f = s f) -> agree (akills st fs) s'.
  Proof.
    intros A HS f g H. apply aval_akills in H. destruct H as [N H]. rewrite HS by exact N. apply A. exact H.
  Qed.
  Lemma agree_copy st s d src : agree st s -> agree (acopy st d src) (supd V s d (s src)).
  Proof.
    intros A f g H. unfold acopy in H. destruct (aval st src) as [g0|] eqn:E.
    - unfold aval in H. simpl in H. unfold supd. destruct (String.eqb d f) eqn:E2.
      + apply String.eqb_eq in E2. subst f. rewrite String.eqb_refl. injection H as <-. apply A. exact E.
      + assert (N : f <> d) by (intro; subst; rewrite String.eqb_refl in E2; discriminate).
        replace (String.eqb f d) with false by (symmetry; apply String.eqb_neq; exact N).
        rewrite env_get_drop_other in H by exact N. apply A. exact H.
    - apply aval_akill in H. destruct H as [N H]. unfold supd.
      replace (String.eqb f d) with false by (symmetry; apply String.eqb_neq; exact N). apply A. exact H.
  Qed.
  Lemma opt_eqb_Some a g : opt_eqb a (Some g) = true -> a = Some g.
  Proof. destruct a; simpl; [|discriminate]. intros H. apply String.eqb_eq in H. congruence. Qed.
  Lemma aval_join s1 s2 x g : aval (ajoin s1 s2) x = Some g -> aval s1 x = Some g /\ aval s2 x = Some g.
  Proof.
    unfold aval at 1. unfold ajoin. cbv zeta. simpl alias. simpl clob.
    match goal with |- context [env_get ?L x] => destruct (env_get L x) as [g'|] eqn:E end.
    - intros H. injection H as ->. apply env_get_In in E. apply in_app_or in E.
      assert (B : both_say s1 s2 (x, g) = true).
      { destruct E as [E|E]; apply filter_In in E; destruct E as [_ E]; [exact E|].
        apply andb_true_iff in E. tauto. }
      unfold both_say in B. simpl in B. apply andb_true_iff in B. destruct B as [B1 B2].
      split; apply opt_eqb_Some; assumption.
    - rewrite !mem_uapp.
      destruct (mem x (clob s1)) eqn:C1; [discriminate|].
      destruct (mem x (clob s2)) eqn:C2; [discriminate|].
      destruct (mem x (map fst (alias s1))) eqn:K1; [discriminate|].
      destruct (mem x (map fst (alias s2))) eqn:K2; [discriminate|]. simpl.
      intros H. injection H as <-. apply mem_false in K1, K2.
      unfold aval. rewrite (env_get_None _ _ K1), (env_get_None _ _ K2), C1, C2. split; reflexivity.
  Qed.

  Lemma aev_prim e st : (match e with EIf _ _ _ | EGroup _ _ _ | ECopy _ _ => False
                                    | EAssign _ x => clone_src x = None | _ => True end) ->
    aev tab e st = akills st (lw tab e).
  Proof. destruct e; simpl; try tauto; try reflexivity. intros ->. reflexivity. Qed.
  Lemma cev_prim e s : (match e with EIf _ _ _ | EGroup _ _ _ | ECopy _ _ => False
                                   | EAssign _ x => clone_src x = None | _ => True end) ->
    cev V I v e s = I e s.
  Proof. destruct e; simpl; try tauto; try reflexivity. intros ->. reflexivity. Qed.

  Lemma prim_sound e : (match e with EIf _ _ _ | EGroup _ _ _ | ECopy _ _ => False
                                   | EAssign _ x => clone_src x = None | _ => True end) ->
    forall st s, agree st s -> agree (aev tab e st) (cev V I v e s).
  Proof.
    intros Hp st s A. rewrite aev_prim, cev_prim by exact Hp.
    eapply agree_kills; [exact A|]. intros f N. apply HF. exact N.
  Qed.

  Theorem aev_sound : forall e st s, agree st s -> agree (aev tab e st) (cev V I v e s).
  Proof.
    apply (ev_ind2 (fun e => forall st s, agree st s -> agree (aev tab e st) (cev V I v e s))
                   (fun l => forall st s, agree st s -> agree (arun tab l st) (crun V I v l s)));
      try (intros; apply prim_sound; simpl; auto; fail).
    - intros st s A. exact A.
    - intros e l He Hl st s A. simpl. apply Hl. apply He. exact A.
    - intros d src st s A. apply agree_copy. exact A.
    - intros f a b Hb st s A. apply (Hb st s A).
    - intros c t el Ht Hel st s A.
      change (aev tab (EIf c t el) st) with (ajoin (arun tab t st) (arun tab el st)).
      change (cev V I v (EIf c t el) s) with (if v c then crun V I v t s else crun V I v el s).
      intros f g H. apply aval_join in H. destruct H as [H1 H2].
      destruct (v c); [apply (Ht st s A f g H1) | apply (Hel st s A f g H2)].
    - intros n x st s A. destruct (clone_src x) as [src|] eqn:E.
      + change (aev tab (EAssign n x) st) with (match clone_src x with Some s => acopy st n s | None => akill st n end).
        change (cev V I v (EAssign n x) s) with (match clone_src x with Some src => supd V s n (s src) | None => I (EAssign n x) s end).
        rewrite E. apply agree_copy. exact A.
      + apply prim_sound; [exact E | exact A].
  Qed.

  Theorem arun_sound : forall l st s, agree st s -> agree (arun tab l st) (crun V I v l s).
  Proof.
    induction l as [|e l IH]; intros st s A; simpl; [exact A|]. apply IH. apply aev_sound. exact A.
  Qed.

  Lemma agree_a0 : agree a0 s0.
  Proof. intros f g H. unfold aval, a0 in H. simpl in H. injection H as <-. reflexivity. Qed.

  (* fields the abstract run reports as restored hold their initial value after the
     concrete run *)
  Theorem restored_sound evs fields : restored tab evs fields = true ->
    forall f, In f fields -> crun V I v evs s0 f = s0 f.
  Proof.
    unfold restored. cbv zeta. intros H f Hf. rewrite forallb_forall in H. specialize (H f Hf).
    apply opt_eqb_Some in H. exact (arun_sound evs a0 s0 agree_a0 f f H).
  Qed.
End Sound.

(* ---------- evaluation on the stage sequence extracted from /repo ------------------------------ *)
(* the flattening ran to completion (no fuel exhaustion, no missing callee) *)
Lemma sc_events_wellformed :
  evs_ok sc_events && evs_ok sc_events_norestore && evs_ok sc0_events && evs_ok scspring_events
  && evs_ok scfixed_events && evs_ok restore_events = true.
Proof. vm_compute. reflexivity. Qed.

Lemma sc_restored_set_const : restored sc_inplace sc_events sc_state_fields = true.
Proof. vm_compute. reflexivity. Qed.
Lemma sc_restored_set_const_norestore : restored sc_inplace sc_events_norestore sc_state_fields = true.
Proof. vm_compute. reflexivity. Qed.
Lemma sc_restored_set_const_0 : restored sc_inplace sc0_events sc_state_fields = true.
Proof. vm_compute. reflexivity. Qed.
Lemma sc_restored_set_const_spring : restored sc_inplace scspring_events sc_state_fields = true.
Proof. vm_compute. reflexivity. Qed.
Lemma sc_restored_set_const_fixed : restored sc_inplace scfixed_events sc_state_fields = true.
Proof. vm_compute. reflexivity. Qed.

Section Instances.
  Variable V : Type.
  Variable I : event -> store V -> store V.
  Variable v : string -> bool.
  Hypothesis HF : frame_ok sc_inplace V I.

  (* set_const(m, d) (restore=True): every integration-state field of Data -- d.qpos
     included, which is overwritten with qpos0 and qpos_spring in between -- holds its
     initial value at the end, for every outcome of the host conditions *)
  Theorem set_const_restores_state_thm : forall s f, In f sc_state_fields ->
    crun V I v sc_events s f = s f.
  Proof. intros s. exact (restored_sound sc_inplace V I v HF s _ _ sc_restored_set_const). Qed.
  Theorem set_const_norestore_restores_state_thm : forall s f, In f sc_state_fields ->
    crun V I v sc_events_norestore s f = s f.
  Proof. intros s. exact (restored_sound sc_inplace V I v HF s _ _ sc_restored_set_const_norestore). Qed.
  Theorem set_const_0_restores_state_thm : forall s f, In f sc_state_fields ->
    crun V I v sc0_events s f = s f.
  Proof. intros s. exact (restored_sound sc_inplace V I v HF s _ _ sc_restored_set_const_0). Qed.
  Theorem set_const_spring_restores_state_thm : forall s f, In f sc_state_fields ->
    crun V I v scspring_events s f = s f.
  Proof. intros s. exact (restored_sound sc_inplace V I v HF s _ _ sc_restored_set_const_spring). Qed.
  Theorem set_const_fixed_restores_state_thm : forall s f, In f sc_state_fields ->
    crun V I v scfixed_events s f = s f.
  Proof. intros s. exact (restored_sound sc_inplace V I v HF s _ _ sc_restored_set_const_fixed). Qed.
  Theorem set_const_all_restore_state_thm : forall s f, In f sc_state_fields ->
    crun V I v sc_events s f = s f /\
    crun V I v sc_events_norestore s f = s f /\
    crun V I v sc0_events s f = s f /\
    crun V I v scspring_events s f = s f /\
    crun V I v scfixed_events s f = s f.
  Proof.
    intros s f Hf. repeat split.
    - apply set_const_restores_state_thm; exact Hf.
    - apply set_const_norestore_restores_state_thm; exact Hf.
    - apply set_const_0_restores_state_thm; exact Hf.
    - apply set_const_spring_restores_state_thm; exact Hf.
    - apply set_const_fixed_restores_state_thm; exact Hf.
  Qed.
End Instances.

(* the hypothesis is satisfiable (the interpretation that does nothing) *)
Example frame_ok_exists : frame_ok sc_inplace nat (fun _ s => s).
Proof. intros e s f _. reflexivity. Qed.

(* the analysis discriminates: without the `wp.copy(d.qpos, qpos_saved)` events d.qpos is NOT
   reported as restored *)
Definition is_copy (e : event) : bool := match e with ECopy _ _ => true | _ => false end.
Example restore_needs_copy_back :
  restored sc_inplace (filter (fun e => negb (is_copy e)) sc_events) ["d.qpos"] = false.
Proof. vm_compute. reflexivity. Qed.

(* restore=True is restore=False followed by the nine position stages, which do not write
   d.qpos: the derived Data fields are recomputed from the RESTORED qpos *)
Lemma sc_restore_is_suffix : sc_events = (sc_events_norestore ++ restore_events)%list.
Proof. vm_compute. reflexivity. Qed.
Lemma restore_stages_keep_state :
  forallb (fun f => negb (mem f (lws sc_inplace restore_events))) sc_state_fields = true.
Proof. vm_compute. reflexivity. Qed.
(* every Data field dirtied while d.qpos held qpos0 / qpos_spring is written again by the
   restore stages *)
Lemma sc_dirty_fields_recomputed : dirty_not_recomputed sc_inplace = [].
Proof. vm_compute. reflexivity. Qed.
(* no host-side alias (`x = d.qpos`) of a tracked field or of the saved copy *)
Lemma sc_no_alias : no_alias_of ("qpos_saved" :: sc_state_fields) sc_events = true.
Proof. vm_compute. reflexivity. Qed.

Lemma sc_restore_structure :
  evs_ok sc_events && evs_ok sc_events_norestore && evs_ok sc0_events && evs_ok scspring_events
    && evs_ok scfixed_events && evs_ok restore_events = true /\
  sc_events = (sc_events_norestore ++ restore_events)%list /\
  forallb (fun f => negb (mem f (lws sc_inplace restore_events))) sc_state_fields = true /\
  dirty_not_recomputed sc_inplace = [] /\
  no_alias_of ("qpos_saved" :: sc_state_fields) sc_events = true.
Proof.
  exact (conj sc_events_wellformed (conj sc_restore_is_suffix (conj restore_stages_keep_state
          (conj sc_dirty_fields_recomputed sc_no_alias)))).
Qed.
