(* Proof/Flex.v -- C40: theorems over R about the TRANSLATED flex kernels of smooth.py
   (Gen/T_flex.v, regenerated from /repo on every run by bin/gens_flex.py):

     flex_node_position / flex_vertex_position / flex_vertex_interp
         what _flex_nodes / _flex_vertices write (body frame transform, centred flex = body
         position, trilinear interpolation = weighted sum of the 8 cell nodes; the weights are a
         partition of unity and non-negative),
     flex_edge_writes      the exact write list of _flex_edges (length, velocity, the J slots),
     velocity_is_J_dot_qvel, sparse_row_is_velocity, dense_row_is_velocity
         velocity = J . qvel for the row the kernel stores, read with the kernel's implied column
         map [dofs of body 1] ++ [dofs of body 2]; dense scatter = same functional,
     free_edge_velocity_is_length_rate
         for free vertices (three world-axis slide joints per vertex body) the written velocity is
         d/dt of the written length (real derivative, x(t) = x + t v),
     row_with_model_colind_partial / row_with_model_colind_refuted
         the row read with the MODEL's flexedge_J_colind (as constraint._equality_flex reads it)
         equals the velocity only under a layout hypothesis; a witness with a moving parent body
         refutes it (kernel velocity 0, row . qvel = -1).

   Not proved here (see Props/C40.v): J . qvel = d/dt length for vertices attached to articulated
   bodies (needs the kinematics model), element elasticity / bending, flex collision geometry.
   Every search-loop theorem assumes that some flex owns the index (the real kernel reads an
   uninitialised register otherwise; the launch grid excludes that case). *)
From Coq Require Import ZArith Reals List Bool Lra Lia String Psatz.
From VF Require Import Base.Scalar Base.ScalarR Base.Vec Base.Loop Base.Kernel Gen.T_flex Model.Flex.
Import ListNotations.
Local Open Scope Z_scope.

(* ---------- generic loop facts ---------- *)
Lemma for_nat_ext {A} (f g : Z -> A -> A) : (forall i a, f i a = g i a) ->
  forall n lo a, for_nat n lo a f = for_nat n lo a g.
Proof. intros E n; induction n; intros; simpl; auto. rewrite E. apply IHn. Qed.

Lemma search_done (step : Z -> Z * bool -> Z * bool) (Hs : forall i f, step i (f, true) = (f, true)) n : forall lo (f : Z),
  for_nat n lo (f, true) step = (f, true).
Proof. induction n; intros; simpl; auto. rewrite Hs. apply IHn. Qed.

Lemma search_e P n : forall lo f f0,
  lo <= f0 < lo + Z.of_nat n -> P f0 = true -> (forall i, lo <= i < f0 -> P i = false) ->
  for_nat n lo (f, false) (step_e P) = (f0, true).
Proof.
  induction n; intros lo f f0 Hr Hp Hf; simpl. { lia. }
  change (step_e P lo (f, false)) with (if P lo then (lo, true) else (f, false)).
  destruct (Z.eq_dec lo f0) as [->|Hne].
  - rewrite Hp. apply search_done. intros; reflexivity.
  - rewrite (Hf lo) by lia. apply IHn; auto. lia. intros; apply Hf; lia.
Qed.

Lemma search_v P n : forall lo f f0,
  lo <= f0 < lo + Z.of_nat n -> P f0 = true -> (forall i, lo <= i < f0 -> P i = false) ->
  for_nat n lo (f, false) (step_v P) = (f0, true).
Proof.
  induction n; intros lo f f0 Hr Hp Hf; simpl. { lia. }
  change (step_v P lo (f, false)) with (lo, P lo).
  destruct (Z.eq_dec lo f0) as [->|Hne].
  - rewrite Hp. apply search_done. intros; reflexivity.
  - rewrite (Hf lo) by lia. apply IHn; auto. lia. intros; apply Hf; lia.
Qed.

Lemma search_range_e P nflex f f0 : 0 <= f0 < nflex -> P f0 = true -> (forall i, 0 <= i < f0 -> P i = false) ->
  for_range 0 nflex (f, false) (step_e P) = (f0, true).
Proof. intros. unfold for_range. apply search_e; auto. rewrite Z2Nat.id; lia. Qed.
Lemma search_range_v P nflex f f0 : 0 <= f0 < nflex -> P f0 = true -> (forall i, 0 <= i < f0 -> P i = false) ->
  for_range 0 nflex (f, false) (step_v P) = (f0, true).
Proof. intros. unfold for_range. apply search_v; auto. rewrite Z2Nat.id; lia. Qed.

(* appending one write per iteration = map over the index list *)
Lemma for_nat_app {A} (g : Z -> A) n : forall lo (acc : list A),
  for_nat n lo acc (fun k a => (a ++ [g k])%list) = (acc ++ map g (zseq lo n))%list.
Proof. induction n; intros; simpl. now rewrite app_nil_r. rewrite IHn, <- app_assoc. reflexivity. Qed.

Local Open Scope R_scope.
Lemma dense_dot_plus n : forall lo d1 d2 q,
  dense_dot n lo (fun c => d1 c + d2 c) q = dense_dot n lo d1 q + dense_dot n lo d2 q.
Proof. induction n; intros; simpl. lra. rewrite IHn. lra. Qed.
Lemma dense_dot_zero n : forall lo q, dense_dot n lo (fun _ => 0) q = 0.
Proof. induction n; intros; simpl. lra. rewrite IHn. lra. Qed.
Lemma dense_dot_unit n : forall lo c0 v q, (lo <= c0 < lo + Z.of_nat n)%Z ->
  dense_dot n lo (fun c => if Z.eqb c0 c then v else 0) q = v * q c0.
Proof.
  induction n; intros lo c0 v q Hr; simpl. lia.
  destruct (Z.eqb_spec c0 lo) as [->|Hne].
  - assert (E : forall m l, (lo < l)%Z -> dense_dot m l (fun c => if Z.eqb lo c then v else 0) q = 0).
    { induction m; intros; simpl. lra. destruct (Z.eqb_spec lo l); [lia|]. rewrite IHm by lia. lra. }
    rewrite E by lia. lra.
  - rewrite IHn by lia. lra.
Qed.

(* the dense/sparse row lemma: a sparse row and its dense scatter are the same linear functional
   (duplicate columns add up), provided every column lies in [0, nv) *)
Theorem dense_sparse_row_equal (nv : nat) (row : list (Z * R)) (q : Z -> R) :
  Forall (fun cv => (0 <= fst cv < Z.of_nat nv)%Z) row ->
  dense_dot nv 0 (dense_of row) q = sparse_dot row q.
Proof.
  induction 1 as [|[c v] r Hc Hr IH]; simpl.
  - apply dense_dot_zero.
  - change (dense_of ((c, v) :: r)) with (fun c' => (if Z.eqb c c' then v else 0) + dense_of r c').
    rewrite dense_dot_plus, IH, dense_dot_unit by (simpl in Hc; lia). reflexivity.
Qed.

Lemma dlim_ext f x l1 l2 : derivable_pt_lim f x l1 -> l1 = l2 -> derivable_pt_lim f x l2.
Proof. intros H <-. exact H. Qed.

(* ---- d|x|/dt = (x . xdot)/|x| along a straight motion x(t) = x + t v ---- *)
Lemma norm_derivative (x y z vx vy vz : R) :
  0 < sqrt (x*x + y*y + z*z) ->
  derivable_pt_lim (fun t => sqrt ((x + t*vx)*(x + t*vx) + (y + t*vy)*(y + t*vy) + (z + t*vz)*(z + t*vz))) 0
                   ((x*vx + y*vy + z*vz) / sqrt (x*x + y*y + z*z)).
Proof.
  intros Hpos.
  set (p := fun t : R => (x + t*vx)*(x + t*vx) + (y + t*vy)*(y + t*vy) + (z + t*vz)*(z + t*vz)).
  assert (Hp0 : p 0 = x*x + y*y + z*z) by (unfold p; ring).
  assert (Hq : 0 < x*x + y*y + z*z).
  { destruct (Rle_lt_dec (x*x + y*y + z*z) 0) as [Hle|]; auto.
    rewrite (sqrt_neg_0 _ Hle) in Hpos. lra. }
  assert (Dlin : forall a b, derivable_pt_lim (fun t => a + t * b) 0 b).
  { intros a b.
    pose proof (derivable_pt_lim_plus (fun _ => a) (fun t => t * b) 0 _ _ (derivable_pt_lim_const a 0)
                  (derivable_pt_lim_mult (fun t => t) (fun _ => b) 0 _ _ (derivable_pt_lim_id 0) (derivable_pt_lim_const b 0))) as D.
    unfold plus_fct, mult_fct in D. cbv beta in D.
    eapply dlim_ext; [exact D | ring]. }
  assert (Dsq : forall a b, derivable_pt_lim (fun t => (a + t*b)*(a + t*b)) 0 (2*a*b)).
  { intros a b.
    pose proof (derivable_pt_lim_mult (fun t => a + t*b) (fun t => a + t*b) 0 _ _ (Dlin a b) (Dlin a b)) as D.
    unfold mult_fct in D. cbv beta in D. eapply dlim_ext; [exact D | ring]. }
  assert (Dp : derivable_pt_lim p 0 (2*x*vx + 2*y*vy + 2*z*vz)).
  { pose proof (derivable_pt_lim_plus _ _ 0 _ _
                  (derivable_pt_lim_plus _ _ 0 _ _ (Dsq x vx) (Dsq y vy)) (Dsq z vz)) as D.
    unfold plus_fct in D. cbv beta in D. exact D. }
  replace ((x*vx + y*vy + z*vz) / sqrt (x*x + y*y + z*z)) with (/ (2 * sqrt (p 0)) * (2*x*vx + 2*y*vy + 2*z*vz)).
  2:{ rewrite Hp0. field. lra. }
  pose proof (derivable_pt_lim_comp p sqrt 0 _ _ Dp (derivable_pt_lim_sqrt (p 0) ltac:(rewrite Hp0; exact Hq))) as D.
  unfold comp in D. exact D.
Qed.

Local Close Scope R_scope.

Section Node.
  Variables (w n nflex : Z) (flex_nodeadr flex_nodenum flex_nodebodyid : Z -> Z) (flex_node : Z -> list R)
            (flex_centered : Z -> bool) (xpos_in xmat_in flexnode_xpos_out : Z -> Z -> list R) (orc : nat -> Z).
  Definition wsn := k__flex_nodes w n nflex flex_nodeadr flex_nodenum flex_nodebodyid flex_node flex_centered xpos_in xmat_in flexnode_xpos_out orc.
  Variable f0 : Z.
  Hypothesis Hf0 : 0 <= f0 < nflex.
  Hypothesis Hown : owns flex_nodeadr flex_nodenum n f0 = true.
  Hypothesis Hfirst : forall i, 0 <= i < f0 -> owns flex_nodeadr flex_nodenum n i = false.
  Let b := flex_nodebodyid n.
  Variables lx ly lz : R.
  Hypothesis Hnode : flex_node n = [lx; ly; lz].

  Theorem flex_node_position :
    wsn = [mkW "flexnode_xpos_out"%string [w; n] KSet
             (VV (if flex_centered f0 || (Reqb lx 0 && Reqb ly 0 && Reqb lz 0) then xpos_in w b
                  else vadd (mat_vec 3 3 (xmat_in w b) (flex_node n)) (xpos_in w b)))].
  Proof.
    unfold wsn, k__flex_nodes. cbv zeta.
    match goal with |- context [for_range 0 nflex (0, false) ?g] =>
      replace (for_range 0 nflex (0, false) g) with (f0, true) end.
    2:{ symmetry. unfold for_range. erewrite for_nat_ext.
        - apply (search_range_v (owns flex_nodeadr flex_nodenum n)); eauto.
        - intros i [f bk]. unfold step_v, owns. simpl. destruct bk; simpl; auto.
          destruct (_ && _); reflexivity. }
    cbn [fst]. rewrite Hnode.
    change (vget [lx; ly; lz] 0) with lx. change (vget [lx; ly; lz] 1) with ly. change (vget [lx; ly; lz] 2) with lz.
    sR. fold b.
    destruct (flex_centered f0); cbn [orb]; [reflexivity|].
    destruct (Reqb lx 0 && Reqb ly 0 && Reqb lz 0); reflexivity.
  Qed.
End Node.

Section Vert.
  Variables (w v nflex : Z) (flex_interp : Z -> Z) (flex_cellnum : Z -> list Z)
            (flex_nodeadr flex_vertadr flex_vertnum flex_vertbodyid : Z -> Z)
            (flex_vert flex_vert0 : Z -> list R) (flex_centered : Z -> bool)
            (xpos_in xmat_in flexnode_xpos_in flexvert_xpos_out : Z -> Z -> list R) (orc : nat -> Z).
  Definition wsv := k__flex_vertices w v nflex flex_interp flex_cellnum flex_nodeadr flex_vertadr flex_vertnum
    flex_vertbodyid flex_vert flex_vert0 flex_centered xpos_in xmat_in flexnode_xpos_in flexvert_xpos_out orc.
  Variable f0 : Z.
  Hypothesis Hf0 : 0 <= f0 < nflex.
  Hypothesis Hown : owns flex_vertadr flex_vertnum v f0 = true.
  Hypothesis Hfirst : forall i, 0 <= i < f0 -> owns flex_vertadr flex_vertnum v i = false.

  Let b := flex_vertbodyid v.

  Theorem flex_vertex_position : flex_interp f0 = 0 ->
    wsv = [mkW "flexvert_xpos_out"%string [w; v] KSet
             (VV (if flex_centered f0 then xpos_in w b
                  else vadd (mat_vec 3 3 (xmat_in w b) (flex_vert v)) (xpos_in w b)))].
  Proof.
    intros Hi. unfold wsv, k__flex_vertices. cbv zeta.
    match goal with |- context [for_range 0 nflex (0, false) ?g] =>
      replace (for_range 0 nflex (0, false) g) with (f0, true) end.
    2:{ symmetry. unfold for_range. erewrite for_nat_ext.
        - apply (search_range_v (owns flex_vertadr flex_vertnum v)); eauto.
        - intros i [f bk]. unfold step_v, owns. simpl. destruct bk; simpl; auto.
          destruct (_ && _); reflexivity. }
    simpl fst. unfold Zneb. rewrite Hi. simpl.
    destruct (flex_centered f0); reflexivity.
  Qed.

  (* interpolated (trilinear) flex: the vertex is the weighted sum of the 8 corner nodes of its cell *)
  Definition corners : list (Z * Z * Z) := [(0,0,0); (0,0,1); (0,1,0); (0,1,1); (1,0,0); (1,0,1); (1,1,0); (1,1,1)].
  Definition cellc (c : R) (n : Z) : Z := Z.max (Z.min (Rtrunc (c * IZR n)) (n - 1)) 0.
  Definition localc (c : R) (n : Z) : R := sclamp (c * IZR n - IZR (cellc c n))%R 0%R 1%R.
  Definition interp_value : list R :=
    let coord := flex_vert0 v in let cn := flex_cellnum f0 in
    let cx := zget cn 0 in let cy := zget cn 1 in let cz := zget cn 2 in
    let ci := cellc (vget coord 0) cx in let cj := cellc (vget coord 1) cy in let ck := cellc (vget coord 2) cz in
    let local := [localc (vget coord 0) cx; localc (vget coord 1) cy; localc (vget coord 2) cz] in
    fold_left (fun acc c => let '(li, lj, lk) := c in
                 vadd acc (vscale (eval_basis_trilinear local (li * 4 + lj * 2 + lk))
                                  (flexnode_xpos_in w (flex_nodeadr f0 + ((ci + li) * (cy + 1) * (cz + 1) + (cj + lj) * (cz + 1) + (ck + lk))))))
              corners [0%R; 0%R; 0%R].

  Theorem flex_vertex_interp : flex_interp f0 <> 0 ->
    wsv = [mkW "flexvert_xpos_out"%string [w; v] KSet (VV interp_value)].
  Proof.
    intros Hi. unfold wsv, k__flex_vertices. cbv zeta.
    match goal with |- context [for_range 0 nflex (0, false) ?g] =>
      replace (for_range 0 nflex (0, false) g) with (f0, true) end.
    2:{ symmetry. unfold for_range. erewrite for_nat_ext.
        - apply (search_range_v (owns flex_vertadr flex_vertnum v)); eauto.
        - intros i [f bk]. unfold step_v, owns. simpl. destruct bk; simpl; auto.
          destruct (_ && _); reflexivity. }
    cbn [fst]. unfold Zneb. replace (flex_interp f0 =? 0) with false by (symmetry; apply Z.eqb_neq; auto).
    cbn [negb]. reflexivity.
  Qed.
End Vert.

(* the trilinear weights are a partition of unity, and non-negative on the unit cube *)
Lemma trilinear_partition_of_unity (x y z : R) :
  (eval_basis_trilinear [x; y; z] 0 + eval_basis_trilinear [x; y; z] 1 + eval_basis_trilinear [x; y; z] 2
   + eval_basis_trilinear [x; y; z] 3 + eval_basis_trilinear [x; y; z] 4 + eval_basis_trilinear [x; y; z] 5
   + eval_basis_trilinear [x; y; z] 6 + eval_basis_trilinear [x; y; z] 7 = 1)%R.
Proof. unfold eval_basis_trilinear, _phi. cbn. sR. ring. Qed.

Lemma trilinear_weight_nonneg (x y z : R) (k : Z) :
  (0 <= x <= 1)%R -> (0 <= y <= 1)%R -> (0 <= z <= 1)%R -> (0 <= eval_basis_trilinear [x; y; z] k)%R.
Proof.
  intros Hx Hy Hz. unfold eval_basis_trilinear, _phi. cbv zeta.
  change (vget [x; y; z] 0) with x. change (vget [x; y; z] 1) with y. change (vget [x; y; z] 2) with z.
  sR. repeat match goal with |- context [if ?c then _ else _] => destruct c end;
    repeat apply Rmult_le_pos; lra.
Qed.

Lemma sclamp01 (x : R) : (0 <= sclamp x 0%R 1%R <= 1)%R.
Proof.
  unfold sclamp, smin, smax. sR.
  destruct (Rltb x 0) eqn:A; [apply Rltb_true in A | apply Rltb_false in A];
  match goal with |- context [Rltb 1 ?t] => destruct (Rltb 1 t) eqn:B; [apply Rltb_true in B | apply Rltb_false in B] end; lra.
Qed.

Definition v3 (x y z : R) : list R := [x; y; z].

Lemma mat_vec_trans r0 r1 r2 r3 r4 r5 r6 r7 r8 l0 l1 l2 p0 p1 p2 :
  vadd (mat_vec 3 3 [r0;r1;r2;r3;r4;r5;r6;r7;r8] [l0;l1;l2]) [p0;p1;p2] =
  [ (r0*l0 + r1*l1 + r2*l2 + p0)%R; (r3*l0 + r4*l1 + r5*l2 + p1)%R; (r6*l0 + r7*l1 + r8*l2 + p2)%R ].
Proof. reflexivity. Qed.

Lemma zsum_acc_shift g n : forall acc lo, zsum_acc acc g lo n = (acc + zsum_acc 0 g lo n)%R.
Proof. induction n; intros; simpl; [lra|]. rewrite IHn, (IHn (0 + g lo)%R). lra. Qed.

Lemma for_nat_sub (g : Z -> R) n : forall lo acc,
  for_nat n lo acc (fun k a => (a - g k)%R) = zsum_acc acc (fun k => (- g k)%R) lo n.
Proof. induction n; intros; simpl; auto. Qed.
Lemma for_nat_add (g : Z -> R) n : forall lo acc,
  for_nat n lo acc (fun k a => (a + g k)%R) = zsum_acc acc g lo n.
Proof. induction n; intros; simpl; auto. Qed.


Lemma if_for_range {A} (n : Z) (acc : A) g : (if n >? 0 then for_range 0 n acc g else acc) = for_range 0 n acc g.
Proof.
  destruct (n >? 0) eqn:E; auto. unfold for_range.
  replace (Z.to_nat (n - 0)) with O; auto. rewrite Z.gtb_ltb in E. apply Z.ltb_ge in E. lia.
Qed.

Lemma if_fst {A B} (c : bool) (a b : A) (x y : B) : fst (if c then (a, x) else (b, y)) = if c then a else b.
Proof. destruct c; reflexivity. Qed.
Lemma if_snd {A B} (c : bool) (a b : A) (x y : B) : snd (if c then (a, x) else (b, y)) = if c then x else y.
Proof. destruct c; reflexivity. Qed.

Definition dot3 (j u : list R) : R :=
  match j, u with [x; y; z], [a; b; c] => (x * a + y * b + z * c)%R | _, _ => 0%R end.
Lemma vdot3 x y z a b c : vdot [x; y; z] [a; b; c] = dot3 [x; y; z] [a; b; c].
Proof. reflexivity. Qed.

Lemma nwn_v3 dx dy dz :
  normalize_with_norm__V3 [dx; dy; dz] =
  (let len := sqrt (dx*dx + dy*dy + dz*dz) in
   if Reqb len 0 then ([dx; dy; dz], 0%R) else ([(dx / len)%R; (dy / len)%R; (dz / len)%R], len)).
Proof. reflexivity. Qed.

Lemma zseq_app n m : forall lo, zseq lo (n + m) = (zseq lo n ++ zseq (lo + Z.of_nat n) m)%list.
Proof. induction n; intros; simpl. f_equal. lia. rewrite IHn. do 3 f_equal. lia. Qed.

Lemma zseq_shift n : forall lo d, zseq (lo + d) n = map (fun k => k + d) (zseq lo n).
Proof. induction n; intros; simpl; auto. f_equal. rewrite <- IHn. f_equal. lia. Qed.

Lemma zseq_range n : forall lo k, In k (zseq lo n) -> lo <= k < lo + Z.of_nat n.
Proof. induction n; intros lo k Hk; simpl in *. tauto. destruct Hk as [<-|Hk]. lia. apply IHn in Hk. lia. Qed.

Lemma zseq_range0 n : forall lo k, In k (zseq lo n) -> lo <= k < lo + Z.of_nat n.
Proof. induction n; intros lo k Hk; simpl in *. tauto. destruct Hk as [<-|Hk]. lia. apply IHn in Hk. lia. Qed.

Lemma sparse_dot_app r1 r2 q : sparse_dot (r1 ++ r2) q = (sparse_dot r1 q + sparse_dot r2 q)%R.
Proof. induction r1; simpl. lra. rewrite IHr1. lra. Qed.

Lemma sparse_dot_map (c : Z -> Z) (v : Z -> R) q n : forall lo,
  sparse_dot (map (fun k => (c k, v k)) (zseq lo n)) q = zsum (fun k => (v k * q (c k))%R) lo n.
Proof.
  unfold zsum. induction n; intros; simpl. reflexivity.
  rewrite IHn. rewrite (zsum_acc_shift _ n (0 + _)%R). lra.
Qed.

Lemma zsum_acc_ext g h n : forall acc lo, (forall k, g k = h k) -> zsum_acc acc g lo n = zsum_acc acc h lo n.
Proof. induction n; intros; simpl; auto. rewrite H. apply IHn; auto. Qed.

Lemma stored_none (r : list (write R)) a i : (forall x, In x r -> w_arr x <> a) -> stored r a i = None.
Proof.
  induction r as [|x r IH]; intros Hr; simpl; auto. rewrite IH by (intros; apply Hr; right; auto).
  destruct (String.eqb_spec (w_arr x) a) as [E|E]; auto. exfalso. apply (Hr x); [left|]; auto.
Qed.

Lemma stored_app_other (l r : list (write R)) a i : (forall x, In x r -> w_arr x <> a) -> stored (l ++ r) a i = stored l a i.
Proof. intros Hr. induction l as [|x l IH]; simpl. apply stored_none; auto. rewrite IH. reflexivity. Qed.

Lemma vdot_neg3 j0 j1 j2 u0 u1 u2 : vdot (vneg [j0; j1; j2]) [u0; u1; u2] = (- vdot [j0; j1; j2] [u0; u1; u2])%R.
Proof. cbn. sR. ring. Qed.

Section Edge.
  Variables (w e nflex : Z) (body_rootid body_dofnum body_dofadr flex_vertadr flex_edgeadr flex_edgenum flex_vertbodyid : Z -> Z)
            (flex_edge : Z -> list Z) (flexedge_J_rowadr flexedge_J_colind : Z -> Z)
            (qvel_in : Z -> Z -> R)
            (cx cy cz : Z -> Z -> R)               (* subtree_com components *)
            (a0 a1 a2 l0 l1 l2 : Z -> Z -> R)      (* cdof: angular, linear components *)
            (px py pz : Z -> Z -> R)               (* flexvert_xpos components *)
            (flexedge_J_out flexedge_length_out flexedge_velocity_out : Z -> Z -> R) (orc : nat -> Z).
  Definition subtree_com_in w i := [cx w i; cy w i; cz w i].
  Definition cdof_in w i := [a0 w i; a1 w i; a2 w i; l0 w i; l1 w i; l2 w i].
  Definition flexvert_xpos_in w i := [px w i; py w i; pz w i].
  Definition wse := k__flex_edges w e nflex body_rootid body_dofnum body_dofadr flex_vertadr flex_edgeadr flex_edgenum
     flex_vertbodyid flex_edge flexedge_J_rowadr flexedge_J_colind qvel_in subtree_com_in cdof_in flexvert_xpos_in
     flexedge_J_out flexedge_length_out flexedge_velocity_out orc.

  Lemma wse_is_kernel : wse = k__flex_edges w e nflex body_rootid body_dofnum body_dofadr flex_vertadr flex_edgeadr flex_edgenum
     flex_vertbodyid flex_edge flexedge_J_rowadr flexedge_J_colind qvel_in (fun w i => [cx w i; cy w i; cz w i])
     (fun w i => [a0 w i; a1 w i; a2 w i; l0 w i; l1 w i; l2 w i]) (fun w i => [px w i; py w i; pz w i])
     flexedge_J_out flexedge_length_out flexedge_velocity_out orc.
  Proof. reflexivity. Qed.

  Variable f0 : Z.
  Hypothesis Hf0 : 0 <= f0 < nflex.
  Hypothesis Hown : owns flex_edgeadr flex_edgenum e f0 = true.
  Hypothesis Hfirst : forall i, 0 <= i < f0 -> owns flex_edgeadr flex_edgenum e i = false.

  Definition va := flex_vertadr f0 + zget (flex_edge e) 0.
  Definition vb := flex_vertadr f0 + zget (flex_edge e) 1.
  Definition dx := (px w vb - px w va)%R.
  Definition dy := (py w vb - py w va)%R.
  Definition dz := (pz w vb - pz w va)%R.
  Definition len := sqrt (dx*dx + dy*dy + dz*dz).
  (* edge direction and reported length exactly as math.normalize_with_norm gives them *)
  Definition edge_u : list R := if Reqb len 0 then [dx; dy; dz] else [(dx / len)%R; (dy / len)%R; (dz / len)%R].
  Definition b1 := flex_vertbodyid va.
  Definition b2 := flex_vertbodyid vb.
  (* translational Jacobian column of dof d at offset o from the subtree com: lin + ang x o *)
  Definition jacp (d : Z) (ox oy oz : R) : list R :=
    [ (l0 w d + (a1 w d * oz - a2 w d * oy))%R; (l1 w d + (a2 w d * ox - a0 w d * oz))%R; (l2 w d + (a0 w d * oy - a1 w d * ox))%R ].
  Definition jacp1 (k : Z) := jacp (body_dofadr b1 + k) (px w va - cx w (body_rootid b1)) (py w va - cy w (body_rootid b1)) (pz w va - cz w (body_rootid b1)).
  Definition jacp2 (k : Z) := jacp (body_dofadr b2 + k) (px w vb - cx w (body_rootid b2)) (py w vb - cy w (body_rootid b2)) (pz w vb - cz w (body_rootid b2)).
  Definition J1 (k : Z) : R := vdot (vneg (jacp1 k)) edge_u.
  Definition J2 (k : Z) : R := vdot (jacp2 k) edge_u.
  Definition n1 := Z.to_nat (body_dofnum b1).
  Definition n2 := Z.to_nat (body_dofnum b2).
  Definition velocity : R :=
    zsum_acc (zsum_acc 0 (fun k => (- (vdot (jacp1 k) edge_u * qvel_in w (body_dofadr b1 + k)))%R) 0 n1)
             (fun k => (vdot (jacp2 k) edge_u * qvel_in w (body_dofadr b2 + k))%R) 0 n2.
  Definition rowadr := flexedge_J_rowadr e.

  Lemma search_ok : forall g, (forall i acc, g i acc = step_e (owns flex_edgeadr flex_edgenum e) i acc) ->
     for_range 0 nflex (0, false) g = (f0, true).
  Proof. intros g Hg. unfold for_range. erewrite for_nat_ext by apply Hg.
         apply (search_range_e (owns flex_edgeadr flex_edgenum e)); auto. Qed.

  Theorem flex_edge_writes : 0 <= b1 -> 0 <= b2 -> 0 <= body_dofnum b1 ->
    wse = ([ mkW "flexedge_length_out"%string [w; e] KSet (VS (if Reqb len 0 then 0%R else len));
             mkW "flexedge_velocity_out"%string [w; e] KSet (VS velocity) ]
           ++ map (fun k => mkW "flexedge_J_out"%string [w; rowadr + 0 + k] KSet (VS (J1 k))) (zseq 0 n1)
           ++ map (fun k => mkW "flexedge_J_out"%string [w; rowadr + (0 + body_dofnum b1) + k] KSet (VS (J2 k))) (zseq 0 n2))%list.
  Proof.
    intros Hb1 Hb2 Hd1. unfold wse, k__flex_edges. cbv zeta.
    rewrite search_ok.
    2:{ intros i [f bk]. unfold step_e, owns. simpl. destruct bk; simpl; auto. destruct (_ && _); reflexivity. }
    cbn [fst snd]. fold va vb.
    change (vsub (flexvert_xpos_in w vb) (flexvert_xpos_in w va)) with [dx; dy; dz].
    rewrite nwn_v3. cbv zeta. fold len.
    replace (if Reqb len 0 then ([dx; dy; dz], 0%R) else ([(dx / len)%R; (dy / len)%R; (dz / len)%R], len))
      with (edge_u, if Reqb len 0 then 0%R else len) by (unfold edge_u; destruct (Reqb len 0); reflexivity).
    fold b1 b2.
    replace (b1 <? 0) with false by (symmetry; apply Z.ltb_ge; lia).
    replace (b2 <? 0) with false by (symmetry; apply Z.ltb_ge; lia).
    cbn [orb].
    rewrite !if_for_range.
    rewrite if_fst, if_snd.
    rewrite !if_for_range.
    replace (if body_dofnum b1 >? 0 then 0 + body_dofnum b1 else 0) with (0 + body_dofnum b1)
      by (destruct (body_dofnum b1 >? 0) eqn:E; auto; rewrite Z.gtb_ltb in E; apply Z.ltb_ge in E; lia).
    unfold for_range. rewrite !Z.sub_0_r. fold n1 n2.
    rewrite !for_nat_app.
    sR.
    rewrite (for_nat_sub (fun k => (vdot (jacp1 k) edge_u * qvel_in w (body_dofadr b1 + k))%R)).
    rewrite (for_nat_add (fun k => (vdot (jacp2 k) edge_u * qvel_in w (body_dofadr b2 + k))%R)).
    reflexivity.
  Qed.

  (* ---- what the writes mean ---- *)
  Lemma len_nonneg : (0 <= len)%R. Proof. apply sqrt_pos. Qed.
  Lemma length_value : (if Reqb len 0 then 0%R else len) = len.
  Proof. destruct (Reqb len 0) eqn:E; auto. apply Reqb_true in E. auto. Qed.

  Lemma edge_u_shape : exists x y z, edge_u = [x; y; z].
  Proof. unfold edge_u. destruct (Reqb len 0); do 3 eexists; reflexivity. Qed.


  Lemma J1_neg k : J1 k = (- vdot (jacp1 k) edge_u)%R.
  Proof. unfold J1, jacp1, jacp. destruct edge_u_shape as (x & y & z & ->). apply vdot_neg3. Qed.


  (* the velocity the kernel writes is  sum_k J1_k qvel[dof1+k] + sum_k J2_k qvel[dof2+k]  *)
  Theorem velocity_is_J_dot_qvel :
    velocity = (zsum (fun k => (J1 k * qvel_in w (body_dofadr b1 + k))%R) 0 n1
              + zsum (fun k => (J2 k * qvel_in w (body_dofadr b2 + k))%R) 0 n2)%R.
  Proof.
    unfold velocity. rewrite zsum_acc_shift. f_equal.
    unfold zsum. apply zsum_acc_ext. intros k. rewrite J1_neg. ring.
  Qed.

  (* ---- the row as a sparse row: (column, value) pairs in slot order; the kernel's IMPLIED
     column map is [dofs of b1] ++ [dofs of b2] (flexedge_J_colind is never read) ---- *)
  Definition krow : list (Z * R) :=
    (map (fun k => (body_dofadr b1 + k, J1 k)) (zseq 0 n1) ++ map (fun k => (body_dofadr b2 + k, J2 k)) (zseq 0 n2))%list.


  Theorem sparse_row_is_velocity : sparse_dot krow (qvel_in w) = velocity.
  Proof. unfold krow. rewrite sparse_dot_app, !sparse_dot_map. symmetry. apply velocity_is_J_dot_qvel. Qed.

  (* dense/sparse: scattering the stored row into a dense nv-vector gives the same functional *)
  Theorem dense_row_is_velocity (nv : nat) :
    Forall (fun cv => 0 <= fst cv < Z.of_nat nv) krow ->
    dense_dot nv 0 (dense_of krow) (qvel_in w) = velocity.
  Proof. intros Hc. rewrite dense_sparse_row_equal by exact Hc. apply sparse_row_is_velocity. Qed.

  (* value stored in slot s of the row (s counted from rowadr) and the column the MODEL assigns to it *)
  Definition slot_val (s : Z) : R := if s <? body_dofnum b1 then J1 s else J2 (s - body_dofnum b1).
  Definition kcol (s : Z) : Z := if s <? body_dofnum b1 then body_dofadr b1 + s else body_dofadr b2 + (s - body_dofnum b1).
  Definition mrow : list (Z * R) :=
    map (fun s => (flexedge_J_colind (rowadr + s), slot_val s)) (zseq 0 (n1 + n2)).


  (* PARTIAL: only under the layout hypothesis (the model's colind for this row is exactly
     [dofs of b1] ++ [dofs of b2]) does the row, read the way constraint._equality_flex reads it,
     represent the edge velocity.  The hypothesis is checked per model by the Python side; it FAILS
     when a vertex body has movable ancestors or b1's dofs follow b2's (see the _refuted theorem). *)
  Theorem row_with_model_colind_partial :
    0 <= body_dofnum b1 -> 0 <= body_dofnum b2 ->
    (forall s, 0 <= s < body_dofnum b1 + body_dofnum b2 -> flexedge_J_colind (rowadr + s) = kcol s) ->
    sparse_dot mrow (qvel_in w) = velocity.
  Proof.
    clear Hf0 Hown Hfirst. intros H1 H2 Hl. rewrite <- sparse_row_is_velocity. f_equal. unfold mrow, krow.
    rewrite zseq_app, map_app. f_equal.
    - apply map_ext_in. intros k Hk. apply zseq_range in Hk. unfold n1 in Hk. rewrite Z2Nat.id in Hk by lia.
      rewrite Hl by lia. unfold kcol, slot_val. replace (k <? body_dofnum b1) with true by (symmetry; apply Z.ltb_lt; lia). reflexivity.
    - replace (0 + Z.of_nat n1) with (0 + body_dofnum b1) by (unfold n1; rewrite Z2Nat.id; lia).
      rewrite zseq_shift, map_map. apply map_ext_in. intros k Hk. apply zseq_range in Hk. unfold n2 in Hk. rewrite Z2Nat.id in Hk by lia.
      rewrite Hl by lia. unfold kcol, slot_val. replace (k + body_dofnum b1 <? body_dofnum b1) with false by (symmetry; apply Z.ltb_ge; lia).
      replace (k + body_dofnum b1 - body_dofnum b1) with k by lia. reflexivity.
  Qed.

  (* interpolated flex (vertex body id -1): only the length is computed, the velocity is set to 0 *)
  Theorem flex_edge_writes_interp : (b1 < 0 \/ b2 < 0) ->
    wse = [ mkW "flexedge_length_out"%string [w; e] KSet (VS len);
            mkW "flexedge_velocity_out"%string [w; e] KSet (VS 0%R) ].
  Proof.
    intros Hb. unfold wse, k__flex_edges. cbv zeta.
    rewrite search_ok.
    2:{ intros i [f bk]. unfold step_e, owns. simpl. destruct bk; simpl; auto. destruct (_ && _); reflexivity. }
    cbn [fst snd]. fold va vb.
    change (vsub (flexvert_xpos_in w vb) (flexvert_xpos_in w va)) with [dx; dy; dz].
    rewrite nwn_v3. cbv zeta. fold len.
    replace (if Reqb len 0 then ([dx; dy; dz], 0%R) else ([(dx / len)%R; (dy / len)%R; (dz / len)%R], len))
      with (edge_u, if Reqb len 0 then 0%R else len) by (unfold edge_u; destruct (Reqb len 0); reflexivity).
    fold b1 b2. rewrite length_value.
    replace ((b1 <? 0) || (b2 <? 0)) with true.
    2:{ symmetry. apply orb_true_iff. destruct Hb; [left|right]; apply Z.ltb_lt; auto. }
    reflexivity.
  Qed.


  (* length = |x_b - x_a| in every branch *)
  Theorem flex_edge_length : 0 <= body_dofnum b1 ->
    stored wse "flexedge_length_out" [w; e] = Some len.
  Proof.
    intros Hd. destruct (Z_lt_dec b1 0) as [H1|H1]; [|destruct (Z_lt_dec b2 0) as [H2|H2]].
    1,2: rewrite flex_edge_writes_interp by lia; simpl; rewrite !Z.eqb_refl; reflexivity.
    rewrite flex_edge_writes by lia. rewrite length_value.
    rewrite stored_app_other.
    - simpl. rewrite !Z.eqb_refl. reflexivity.
    - intros x Hx. apply in_app_or in Hx. destruct Hx as [Hx|Hx]; apply in_map_iff in Hx; destruct Hx as (k & <- & _); simpl; congruence.
  Qed.


  (* the J slots written: exactly rowadr + s for s < dofnum(b1) + dofnum(b2) -- independent of the
     model's flexedge_J_rownnz (which is not even a kernel parameter): a row shorter than that
     (both ends pinned to one jointed body: rownnz = dofs of the chain, once) is overrun *)
  Theorem flex_edge_J_footprint : 0 <= b1 -> 0 <= b2 -> 0 <= body_dofnum b1 -> 0 <= body_dofnum b2 ->
    forall x, In x wse -> w_arr x = "flexedge_J_out"%string ->
      exists s, 0 <= s < body_dofnum b1 + body_dofnum b2 /\ w_idx x = [w; rowadr + s].
  Proof.
    intros H1 H2 D1 D2 x Hx Ha. rewrite flex_edge_writes in Hx by lia.
    apply in_app_or in Hx. destruct Hx as [Hx|Hx].
    - simpl in Hx. destruct Hx as [<-|[<-|[]]]; simpl in Ha; congruence.
    - apply in_app_or in Hx. destruct Hx as [Hx|Hx]; apply in_map_iff in Hx; destruct Hx as (k & <- & Hk);
        apply zseq_range0 in Hk; [unfold n1 in Hk | unfold n2 in Hk]; rewrite Z2Nat.id in Hk by lia.
      + exists k. split; [lia|]. simpl. do 2 f_equal. lia.
      + exists (body_dofnum b1 + k). split; [lia|]. simpl. do 2 f_equal. lia.
  Qed.

  (* ---- FREE vertices: each end of the edge is its own body with three slide joints along the
     world axes (what <flexcomp> generates): cdof of dof k of such a body is (0,0,0, e_k). ---- *)
  Definition free_body (b : Z) : Prop :=
    body_dofnum b = 3 /\
    forall k, 0 <= k < 3 ->
      let d := body_dofadr b + k in
      a0 w d = 0%R /\ a1 w d = 0%R /\ a2 w d = 0%R /\
      l0 w d = (if k =? 0 then 1 else 0)%R /\ l1 w d = (if k =? 1 then 1 else 0)%R /\ l2 w d = (if k =? 2 then 1 else 0)%R.

  (* Cartesian velocity of the two end points: the slide velocities *)
  Definition v1 (k : Z) : R := qvel_in w (body_dofadr b1 + k).
  Definition v2 (k : Z) : R := qvel_in w (body_dofadr b2 + k).

  Lemma jacp_free b k ox oy oz : free_body b -> 0 <= k < 3 ->
    jacp (body_dofadr b + k) ox oy oz = [(if k =? 0 then 1 else 0)%R; (if k =? 1 then 1 else 0)%R; (if k =? 2 then 1 else 0)%R].
  Proof.
    intros [_ Hf] Hk. destruct (Hf k Hk) as (A0 & A1 & A2 & L0 & L1 & L2). unfold jacp.
    rewrite A0, A1, A2, L0, L1, L2. f_equal; [|f_equal; [|f_equal]]; ring.
  Qed.

  Theorem free_edge_velocity : free_body b1 -> free_body b2 -> (0 < len)%R ->
    velocity = ((dx * (v2 0 - v1 0) + dy * (v2 1 - v1 1) + dz * (v2 2 - v1 2)) / len)%R.
  Proof.
    intros F1 F2 Hl. unfold velocity, n1, n2. rewrite (proj1 F1), (proj1 F2).
    change (Z.to_nat 3) with 3%nat. cbn [zsum_acc]. unfold jacp1, jacp2.
    replace (0 + 1 + 1) with 2 by lia. replace (0 + 1) with 1 by lia.
    rewrite !(jacp_free b1) by (auto; lia). rewrite !(jacp_free b2) by (auto; lia).
    unfold edge_u. replace (Reqb len 0) with false by (symmetry; apply Reqb_false; lra).
    cbn. sR. fold (v1 0) (v1 1) (v1 2) (v2 0) (v2 1) (v2 2). field. lra.
  Qed.

  (* the velocity the kernel writes IS the time derivative of the length it writes, along the
     motion x_a(t) = x_a + t v1, x_b(t) = x_b + t v2 (exact for slide joints) *)
  Theorem free_edge_velocity_is_length_rate : free_body b1 -> free_body b2 -> (0 < len)%R ->
    derivable_pt_lim
      (fun t => sqrt ((dx + t * (v2 0 - v1 0)) * (dx + t * (v2 0 - v1 0)) + (dy + t * (v2 1 - v1 1)) * (dy + t * (v2 1 - v1 1))
                      + (dz + t * (v2 2 - v1 2)) * (dz + t * (v2 2 - v1 2))))%R 0%R velocity.
  Proof.
    intros F1 F2 Hl. rewrite free_edge_velocity by auto. apply norm_derivative. exact Hl.
  Qed.
End Edge.

(* ---- REFUTED: the row read with MuJoCo's column indices when the vertex bodies hang under a moving body ---- *)

Module Witness.
  (* body 1: the moving parent (dof 0, slide x); bodies 2,3: the two vertex bodies (dofs 1,2, slide x);
     MuJoCo's sparse row for the edge lists the merged chain: colind = [0; 1; 2], rownnz = 3 *)
  Definition zf (_ _ : Z) : R := 0%R.
  Definition one (_ _ : Z) : R := 1%R.
  Definition qv (_ d : Z) : R := if d =? 0 then 1%R else 0%R.        (* only the parent moves *)
  Definition px (_ v : Z) : R := if v =? 1 then 1%R else 0%R.
  Definition ws := wse 0 0 1 (fun _ => 0) (fun _ => 1) (fun b => b - 1) (fun _ => 0) (fun _ => 0) (fun _ => 1)
                       (fun v => v + 2) (fun _ => [0; 1]) (fun _ => 0) (fun s => s) qv zf zf zf zf zf zf one zf zf px zf zf zf zf zf (fun _ => 0).
  Definition readJ (s : Z) : R := match stored ws "flexedge_J_out" [0; s] with Some x => x | None => 0%R end.
End Witness.

Theorem row_with_model_colind_refuted :
  stored Witness.ws "flexedge_velocity_out" [0; 0] = Some 0%R /\
  (Witness.readJ 0 * Witness.qv 0 0 + Witness.readJ 1 * Witness.qv 0 1 + Witness.readJ 2 * Witness.qv 0 2 = -1)%R.
Proof.
  assert (HL : len 0 0 (fun _ => 0) (fun _ => [0; 1]) Witness.px Witness.zf Witness.zf 0 = 1%R).
  { unfold len, dx, dy, dz, va, vb, Witness.px, Witness.zf. simpl.
    match goal with |- sqrt ?x = _ => replace x with 1%R by ring end. apply sqrt_1. }
  assert (HU : edge_u 0 0 (fun _ => 0) (fun _ => [0; 1]) Witness.px Witness.zf Witness.zf 0 = [1%R; 0%R; 0%R]).
  { unfold edge_u. rewrite HL. replace (Reqb 1 0) with false by (symmetry; apply Reqb_false; lra).
    unfold dx, dy, dz, va, vb, Witness.px, Witness.zf. simpl. f_equal; [|f_equal; [|f_equal]]; field. }
  unfold Witness.readJ, Witness.ws.
  rewrite (flex_edge_writes _ _ _ _ _ _ _ _ _ _ _ _ _ _ _ _ _ _ _ _ _ _ _ _ _ _ _ _ _ _ 0); try (cbv; congruence); try lia.
  unfold velocity, J1, J2, jacp1, jacp2, jacp. rewrite HU.
  unfold n1, n2, b1, b2, va, vb, rowadr, Witness.zf, Witness.one, Witness.qv, Witness.px.
  simpl. sR. split; [f_equal|]; ring.
Qed.

(* ---- the hypotheses are satisfiable ---- *)
Example search_hypothesis_sat :
  let adr := fun i => 5 * i in let num := fun _ : Z => 5 in
  0 <= 1 < 3 /\ owns adr num 7 1 = true /\ (forall i, 0 <= i < 1 -> owns adr num 7 i = false).
Proof. cbv zeta. repeat split; try lia. intros i Hi. assert (i = 0) by lia. subst. reflexivity. Qed.

Example free_body_sat :
  free_body 0 (fun _ => 3) (fun b => 3 * b) Witness.zf Witness.zf Witness.zf
            (fun _ d => if d mod 3 =? 0 then 1%R else 0%R) (fun _ d => if d mod 3 =? 1 then 1%R else 0%R)
            (fun _ d => if d mod 3 =? 2 then 1%R else 0%R) 1.
Proof.
  split; [reflexivity|]. intros k Hk. assert (Hc : k = 0 \/ k = 1 \/ k = 2) by lia. destruct Hc as [E|[E|E]]; subst k; cbv; repeat split; reflexivity.
Qed.

(* ======================================================================================
   flex-vs-plane broadphase (collision_flex._flex_broadphase_bounds / _flex_broadphase_plane,
   translated into Gen/T_flex.v): the stage-1 box cull is CONSERVATIVE.
   ====================================================================================== *)
Local Open Scope R_scope.
(* sum |n_i| >= 1 for a unit vector *)
Lemma abs_sum_ge_1 (a b c : R) : a*a + b*b + c*c = 1 -> 1 <= Rabs a + Rabs b + Rabs c.
Proof.
  intros H. pose proof (Rabs_pos a). pose proof (Rabs_pos b). pose proof (Rabs_pos c).
  assert (E : (Rabs a + Rabs b + Rabs c) * (Rabs a + Rabs b + Rabs c) >= 1).
  { replace (a*a) with (Rabs a * Rabs a) in H by (rewrite <- Rabs_mult; apply Rabs_pos_eq; nra).
    replace (b*b) with (Rabs b * Rabs b) in H by (rewrite <- Rabs_mult; apply Rabs_pos_eq; nra).
    replace (c*c) with (Rabs c * Rabs c) in H by (rewrite <- Rabs_mult; apply Rabs_pos_eq; nra).
    nra. }
  nra.
Qed.

Lemma abs_term (h d n : R) : Rabs d <= h -> - (h * Rabs n) <= d * n.
Proof.
  intros Hd. assert (Rabs (d * n) <= h * Rabs n).
  { rewrite Rabs_mult. apply Rmult_le_compat_r. apply Rabs_pos. exact Hd. }
  pose proof (Rle_abs (- (d * n))). rewrite Rabs_Ropp in H0. lra.
Qed.

(* the geometric core of the stage-1 cull: a point inside the box shrunk by b >= 0 on every side
   is at least  dist_center - sum|h_i n_i| + b  from the plane *)
Lemma box_plane_bound (m0 m1 m2 M0 M1 M2 v0 v1 v2 p0 p1 p2 n0 n1 n2 b : R) :
  n0*n0 + n1*n1 + n2*n2 = 1 -> 0 <= b ->
  m0 + b <= v0 <= M0 - b -> m1 + b <= v1 <= M1 - b -> m2 + b <= v2 <= M2 - b ->
  let c0 := 1/2 * (m0 + M0) in let c1 := 1/2 * (m1 + M1) in let c2 := 1/2 * (m2 + M2) in
  let h0 := 1/2 * (M0 - m0) in let h1 := 1/2 * (M1 - m1) in let h2 := 1/2 * (M2 - m2) in
  ((c0 - p0) * n0 + (c1 - p1) * n1 + (c2 - p2) * n2) - (Rabs (h0 * n0) + Rabs (h1 * n1) + Rabs (h2 * n2)) + b
  <= (v0 - p0) * n0 + (v1 - p1) * n1 + (v2 - p2) * n2.
Proof.
  intros Hn Hb H0 H1 H2 c0 c1 c2 h0 h1 h2.
  assert (Hh0 : 0 <= h0 - b) by (unfold h0; lra). assert (Hh1 : 0 <= h1 - b) by (unfold h1; lra). assert (Hh2 : 0 <= h2 - b) by (unfold h2; lra).
  rewrite !Rabs_mult. rewrite (Rabs_pos_eq h0), (Rabs_pos_eq h1), (Rabs_pos_eq h2) by lra.
  pose proof (abs_term (h0 - b) (v0 - c0) n0 ltac:(apply Rabs_le; unfold c0, h0; lra)).
  pose proof (abs_term (h1 - b) (v1 - c1) n1 ltac:(apply Rabs_le; unfold c1, h1; lra)).
  pose proof (abs_term (h2 - b) (v2 - c2) n2 ltac:(apply Rabs_le; unfold c2, h2; lra)).
  pose proof (abs_sum_ge_1 n0 n1 n2 Hn).
  pose proof (Rabs_pos n0). pose proof (Rabs_pos n1). pose proof (Rabs_pos n2).
  nra.
Qed.

Lemma smin_le (a b : R) : smin a b <= a /\ smin a b <= b.
Proof. unfold smin. sR. destruct (Rltb b a) eqn:E; [apply Rltb_true in E|apply Rltb_false in E]; lra. Qed.
Lemma smax_ge (a b : R) : a <= smax a b /\ b <= smax a b.
Proof. unfold smax. sR. destruct (Rltb a b) eqn:E; [apply Rltb_true in E|apply Rltb_false in E]; lra. Qed.

Section Bounds.
  Variables (w f : Z) (flex_margin flex_gap : Z -> R) (flex_vertadr flex_vertnum : Z -> Z) (flex_radius : Z -> R)
            (px py pz : Z -> Z -> R) (omin omax : Z -> Z -> list R) (orc : nat -> Z).
  Definition bb_pos (w i : Z) : list R := [px w i; py w i; pz w i].
  Definition wsb := k__flex_broadphase_bounds w f flex_margin flex_gap flex_vertadr flex_vertnum flex_radius bb_pos omin omax orc.
  Definition bb_start := flex_vertadr f.
  Definition bb_infl : R := flex_radius f + (flex_margin f + flex_gap f).

  Definition bstep (i : Z) (acc : list R * list R) : list R * list R :=
    (vmap2 smin (fst acc) (bb_pos w (bb_start + i)%Z), vmap2 smax (snd acc) (bb_pos w (bb_start + i)%Z)).

  Lemma hull_fold n : forall lo a0 a1 a2 ub0 ub1 ub2,
    exists A0 A1 A2 B0 B1 B2,
      for_nat n lo ([a0; a1; a2], [ub0; ub1; ub2]) bstep = ([A0; A1; A2], [B0; B1; B2]) /\
      A0 <= a0 /\ A1 <= a1 /\ A2 <= a2 /\ ub0 <= B0 /\ ub1 <= B1 /\ ub2 <= B2 /\
      forall i, (lo <= i < lo + Z.of_nat n)%Z ->
        A0 <= px w (bb_start + i) <= B0 /\ A1 <= py w (bb_start + i) <= B1 /\ A2 <= pz w (bb_start + i) <= B2.
  Proof.
    induction n; intros.
    - exists a0, a1, a2, ub0, ub1, ub2. simpl. repeat split; try lra. all: lia.
    - cbn [for_nat]. unfold bstep at 2. cbn [fst snd bb_pos vmap2].
      destruct (IHn (lo + 1)%Z (smin a0 (px w (bb_start + lo))) (smin a1 (py w (bb_start + lo))) (smin a2 (pz w (bb_start + lo)))
                     (smax ub0 (px w (bb_start + lo))) (smax ub1 (py w (bb_start + lo))) (smax ub2 (pz w (bb_start + lo))))
        as (A0 & A1 & A2 & B0 & B1 & B2 & E & L0 & L1 & L2 & U0 & U1 & U2 & Hall).
      exists A0, A1, A2, B0, B1, B2. split; [exact E|].
      pose proof (smin_le a0 (px w (bb_start + lo))). pose proof (smin_le a1 (py w (bb_start + lo))). pose proof (smin_le a2 (pz w (bb_start + lo))).
      pose proof (smax_ge ub0 (px w (bb_start + lo))). pose proof (smax_ge ub1 (py w (bb_start + lo))). pose proof (smax_ge ub2 (pz w (bb_start + lo))).
      repeat split; try lra.
      all: destruct (Z.eq_dec i lo) as [->|Hne]; [lra | apply Hall; lia].
  Qed.

  (* the box written by _flex_broadphase_bounds contains every vertex of the flex with `bb_infl` to spare on each side *)
  Theorem flex_aabb_contains_vertices : (0 < flex_vertnum f)%Z ->
    exists m0 m1 m2 M0 M1 M2,
      wsb = [ mkW "flex_aabb_min_out"%string [w; f] KSet (VV [m0; m1; m2]);
              mkW "flex_aabb_max_out"%string [w; f] KSet (VV [M0; M1; M2]) ] /\
      forall i, (0 <= i < flex_vertnum f)%Z ->
        m0 + bb_infl <= px w (bb_start + i) <= M0 - bb_infl /\ m1 + bb_infl <= py w (bb_start + i) <= M1 - bb_infl /\
        m2 + bb_infl <= pz w (bb_start + i) <= M2 - bb_infl.
  Proof.
    intros Hn. unfold wsb, k__flex_broadphase_bounds. cbv zeta.
    replace (flex_vertnum f =? 0)%Z with false by (symmetry; apply Z.eqb_neq; lia).
    unfold for_range. fold bb_start.
    match goal with |- context [for_nat ?n 0%Z (?a, ?b) ?g] =>
      replace (for_nat n 0%Z (a, b) g) with (for_nat n 0%Z (a, b) bstep) by reflexivity;
      destruct (hull_fold n 0%Z (sofZ 10000000000) (sofZ 10000000000) (sofZ 10000000000)
                          (sneg (sofZ 10000000000)) (sneg (sofZ 10000000000)) (sneg (sofZ 10000000000)))
        as (A0 & A1 & A2 & B0 & B1 & B2 & E & _ & _ & _ & _ & _ & _ & Hall)
    end.
    rewrite E. cbn [fst snd vsub vadd vmap2 app]. sR. fold bb_infl.
    exists (A0 - bb_infl), (A1 - bb_infl), (A2 - bb_infl), (B0 + bb_infl), (B1 + bb_infl), (B2 + bb_infl).
    split; [reflexivity|].
    intros i Hi. specialize (Hall i). rewrite Z.sub_0_r, Z2Nat.id in Hall by lia.
    specialize (Hall ltac:(lia)). lra.
  Qed.
End Bounds.

Section PlaneCull.
  Variables (w pairid : Z) (geom_type : Z -> Z) (geom_margin : Z -> Z -> R) (flex_margin flex_radius : Z -> R)
            (pairs : Z -> list Z) (flex_vertflexid : Z -> Z)
            (geom_xpos_in geom_xmat_in flexvert_xpos_in : Z -> Z -> list R) (naconmax : Z)
            (aabb_min aabb_max : Z -> Z -> list R) (ncollision overflow : Z -> Z) (cpair : Z -> list Z) (cworld : Z -> Z)
            (orc : nat -> Z) (gm_shape0 : Z).
  Definition wsp := k__flex_broadphase_plane w pairid geom_type geom_margin flex_margin flex_radius pairs flex_vertflexid
                      geom_xpos_in geom_xmat_in flexvert_xpos_in naconmax aabb_min aabb_max ncollision overflow cpair cworld orc gm_shape0.
  Definition pc_vertid := zget (pairs pairid) 0.
  Definition pc_geomid := zget (pairs pairid) 1.
  Definition pc_flexid := flex_vertflexid pc_vertid.
  Definition pc_margin := geom_margin (Z.rem w gm_shape0) pc_geomid + flex_margin pc_flexid.
  Variables r0 r1 r2 r3 r4 r5 r6 r7 r8 p0 p1 p2 v0 v1 v2 m0 m1 m2 M0 M1 M2 b : R.
  Hypothesis Hplane : geom_type pc_geomid = 0%Z.
  Hypothesis Hrot : geom_xmat_in w pc_geomid = [r0; r1; r2; r3; r4; r5; r6; r7; r8].
  Hypothesis Hunit : r2*r2 + r5*r5 + r8*r8 = 1.
  Hypothesis Hpos : geom_xpos_in w pc_geomid = [p0; p1; p2].
  Hypothesis Hvert : flexvert_xpos_in w pc_vertid = [v0; v1; v2].
  Hypothesis Hmin : aabb_min w pc_flexid = [m0; m1; m2].
  Hypothesis Hmax : aabb_max w pc_flexid = [M0; M1; M2].
  (* what _flex_broadphase_bounds guarantees: the box is the hull of the vertices inflated by b = radius + pc_margin + gap *)
  Hypothesis Hb : flex_radius pc_flexid <= b /\ 0 <= b.
  Hypothesis Hbox : m0 + b <= v0 <= M0 - b /\ m1 + b <= v1 <= M1 - b /\ m2 + b <= v2 <= M2 - b.

  Definition pc_signed_dist := (v0 - p0) * r2 + (v1 - p1) * r5 + (v2 - p2) * r8.

  (* the task emits a candidate (any write at all) exactly when the vertex sphere is within pc_margin of
     the plane: the stage-1 box cull never discards such a vertex *)
  Theorem plane_cull_conservative : wsp = [] <-> pc_margin <= pc_signed_dist - flex_radius pc_flexid.
  Proof.
    unfold wsp, k__flex_broadphase_plane. cbv zeta. fold pc_vertid pc_geomid. fold pc_flexid.
    unfold Zneb. rewrite Hplane. cbn [Z.eqb negb].
    rewrite Hrot, Hpos, Hvert, Hmin, Hmax.
    set (R9 := [r0; r1; r2; r3; r4; r5; r6; r7; r8]).
    change (mget 3 R9 0 2) with r2. change (mget 3 R9 1 2) with r5. change (mget 3 R9 2 2) with r8.
    cbn [vscale vadd vsub vmap2 map vdot vdot_acc].
    change (vget [?a; ?b; ?c] 0) with a.
    repeat match goal with
    | |- context [vget [?a; ?b; ?c] 0] => change (vget [a; b; c] 0) with a
    | |- context [vget [?a; ?b; ?c] 1] => change (vget [a; b; c] 1) with b
    | |- context [vget [?a; ?b; ?c] 2] => change (vget [a; b; c] 2) with c
    end.
    unfold sgtb, sgeb. sR. fold pc_margin.
    pose proof (box_plane_bound m0 m1 m2 M0 M1 M2 v0 v1 v2 p0 p1 p2 r2 r5 r8 b Hunit (proj2 Hb)
                  (proj1 Hbox) (proj1 (proj2 Hbox)) (proj2 (proj2 Hbox))) as B. cbv zeta in B.
    fold pc_signed_dist in B |- *.
    replace (IZR 1 / IZR 2) with (1/2) by reflexivity.
    match goal with |- context [Rltb pc_margin ?x] => set (gap := x) in *; destruct (Rltb pc_margin gap) eqn:C1 end.
    - apply Rltb_true in C1. split; [intros _|reflexivity]. destruct Hb as [Hb1 Hb2]. lra.
    - destruct (Rleb pc_margin (pc_signed_dist - flex_radius pc_flexid)) eqn:C2.
      + apply Rleb_true in C2. tauto.
      + apply Rleb_false in C2. split; [|intros; lra].
        destruct (orc 0 >=? naconmax)%Z; simpl; discriminate.
  Qed.
End PlaneCull.

Local Close Scope R_scope.
