(* Proof/StateCodec.v -- lemmas about Model/StateCodec.v (get_state / set_state).
   Structure: (1) list toolkit (blit = overwrite a block inside a list), (2) every kernel loop
   body is a sequence of single writes `dst[a+p] = g(src[b+p])`, and p such writes are a blit
   (step_blit, copy_loop, get_itemsK and set_itemsK for K = 3, 4, 6), (3) one dispatch step of the NSTATE loop equals
   the specification step for each of the 14 bits (get_step_spec / set_step_spec), (4) the loop
   is a fold over the bit list and the specification functions sel_get / sel_set satisfy the
   codec laws for ANY duplicate-free sub-list of bits and any component sizes (induction over
   the bit list), (5) the one-world theorems, (6) the launch over worlds with the active mask,
   (7) the float32-bit-pattern instance, the negative-signature witness and the exhaustive
   2^14 sweep on one concrete model. *)
From Coq Require Import ZArith List Bool Lia ZifyBool.
From VF Require Import Base.Loop Model.StateCodec.
Import ListNotations.
Local Open Scope Z_scope.

(* ---------- list toolkit ---------- *)
Definition blit {A : Type} (a : nat) (s l : list A) : list A :=
  firstn a l ++ s ++ skipn (a + length s) l.

Lemma skipn_skipn' {A} (x y : nat) (l : list A) : skipn x (skipn y l) = skipn (y + x) l.
Proof.
  revert l; induction y; intros l; simpl; auto.
  destruct l; simpl; auto. now rewrite skipn_nil.
Qed.

Lemma upd_length {A} (l : list A) n x : length (upd l n x) = length l.
Proof. revert n; induction l; destruct n; simpl; auto. Qed.

Lemma upd_app_r {A} (l1 l2 : list A) k x : upd (l1 ++ l2) (length l1 + k) x = l1 ++ upd l2 k x.
Proof. induction l1; simpl; auto. now rewrite IHl1. Qed.

Lemma upd_app_at {A} (l1 l2 : list A) n x : n = length l1 -> upd (l1 ++ l2) n x = l1 ++ upd l2 0 x.
Proof. intros ->. rewrite <- (Nat.add_0_r (length l1)) at 1. apply upd_app_r. Qed.

Lemma skipn_nth_cons {A} (l : list A) n da : (n < length l)%nat -> skipn n l = nth n l da :: skipn (S n) l.
Proof.
  revert n; induction l; intros n H; simpl in H; [lia|].
  destruct n; simpl; auto. apply IHl; lia.
Qed.

Lemma nth_skipn' {A} (l : list A) n p da : nth p (skipn n l) da = nth (n + p) l da.
Proof.
  revert l; induction n; intros l; simpl; auto.
  destruct l; simpl; auto. now destruct p.
Qed.

Lemma firstn_snoc {A} (l : list A) n da : (n < length l)%nat -> firstn (S n) l = firstn n l ++ [nth n l da].
Proof.
  revert n; induction l; intros n H; simpl in H; [lia|].
  destruct n; simpl; auto. f_equal. apply IHl; lia.
Qed.

Lemma blit_length {A} a (s l : list A) : (a + length s <= length l)%nat -> length (blit a s l) = length l.
Proof.
  intros H. unfold blit. rewrite !app_length, firstn_length, skipn_length. lia.
Qed.

Lemma blit_nil {A} a (l : list A) : blit a [] l = l.
Proof. unfold blit. simpl. rewrite Nat.add_0_r. apply firstn_skipn. Qed.

(* one more element written right after an already written block *)
Lemma upd_blit_snoc {A} a (s l : list A) x :
  (a + length s < length l)%nat ->
  upd (blit a s l) (a + length s) x = blit a (s ++ [x]) l.
Proof.
  intros H. unfold blit.
  rewrite app_assoc.
  rewrite (upd_app_at (firstn a l ++ s)) by (rewrite app_length, firstn_length; lia).
  rewrite (skipn_nth_cons l (a + length s) x) by lia. simpl.
  rewrite <- !app_assoc. simpl. rewrite app_length. simpl.
  replace (a + (length s + 1))%nat with (Datatypes.S (a + length s)) by lia. reflexivity.
Qed.

Lemma blit_blit {A} a (s1 s2 l : list A) :
  (a + length s1 + length s2 <= length l)%nat ->
  blit (a + length s1) s2 (blit a s1 l) = blit a (s1 ++ s2) l.
Proof.
  intros H. unfold blit at 2.
  rewrite app_assoc.
  set (X := firstn a l ++ s1).
  assert (L : length X = (a + length s1)%nat) by (unfold X; rewrite app_length, firstn_length; lia).
  unfold blit.
  rewrite firstn_app, L. replace (a + length s1 - (a + length s1))%nat with O by lia.
  rewrite firstn_all2 by lia. simpl. rewrite app_nil_r.
  rewrite skipn_app, L.
  rewrite (skipn_all2 X) by lia. simpl.
  rewrite skipn_skipn'. rewrite app_length.
  unfold X. rewrite <- !app_assoc. do 4 f_equal. lia.
Qed.

Lemma blit_full {A} (s l : list A) : length s = length l -> blit 0 s l = s.
Proof.
  intros H. unfold blit. simpl. rewrite skipn_all2 by lia. apply app_nil_r.
Qed.

Lemma blit_0 {A} (s l : list A) : blit 0 s l = s ++ skipn (length s) l.
Proof. reflexivity. Qed.

(* ---------- for_nat invariant ---------- *)
Lemma for_nat_inv {A} (P : nat -> A -> Prop) (f : Z -> A -> A) (n : nat) :
  forall (k : nat) (acc : A),
    P k acc ->
    (forall j a, (k <= j < k + n)%nat -> P j a -> P (Datatypes.S j) (f (Z.of_nat j) a)) ->
    P (k + n)%nat (for_nat n (Z.of_nat k) acc f).
Proof.
  induction n; intros k acc H0 Hs; simpl.
  - now rewrite Nat.add_0_r.
  - replace (Z.of_nat k + 1) with (Z.of_nat (Datatypes.S k)) by lia.
    replace (k + Datatypes.S n)%nat with (Datatypes.S k + n)%nat by lia.
    apply IHn.
    + apply Hs; auto; lia.
    + intros j a Hj. apply Hs. lia.
Qed.

Lemma for_range_inv {A} (P : nat -> A -> Prop) (f : Z -> A -> A) (n : Z) (acc : A) :
  P O acc ->
  (forall j a, (j < Z.to_nat n)%nat -> P j a -> P (Datatypes.S j) (f (Z.of_nat j) a)) ->
  P (Z.to_nat n) (for_range 0 n acc f).
Proof.
  intros H0 Hs. unfold for_range. rewrite Z.sub_0_r.
  change 0 with (Z.of_nat 0). change (Z.to_nat n) with (0 + Z.to_nat n)%nat at 1.
  apply for_nat_inv; auto. intros; apply Hs; auto; lia.
Qed.

(* ---------- the one write every loop body is made of ---------- *)
Section Step.
Context {A B : Type} (g : A -> B) (da : A).

(* dst[a + p] = g(src[b + p]) applied to the state "p elements already copied" *)
Lemma step_blit (a b : Z) (src : list A) (dst : list B) (p : nat) :
  0 <= a -> 0 <= b ->
  (Z.to_nat a + p < length dst)%nat -> (Z.to_nat b + p < length src)%nat ->
  wr (blit (Z.to_nat a) (map g (firstn p (skipn (Z.to_nat b) src))) dst) (a + Z.of_nat p)
     (g (rd src (b + Z.of_nat p) da))
  = blit (Z.to_nat a) (map g (firstn (Datatypes.S p) (skipn (Z.to_nat b) src))) dst.
Proof.
  intros Ha Hb Hd Hs.
  unfold wr, rd.
  destruct (a + Z.of_nat p <? 0) eqn:E1; [lia|].
  destruct (b + Z.of_nat p <? 0) eqn:E2; [lia|].
  set (s := skipn (Z.to_nat b) src).
  assert (Ls : (p < length s)%nat) by (unfold s; rewrite skipn_length; lia).
  assert (Lf : length (map g (firstn p s)) = p) by (rewrite map_length, firstn_length; lia).
  replace (Z.to_nat (a + Z.of_nat p)) with (Z.to_nat a + length (map g (firstn p s)))%nat by lia.
  rewrite upd_blit_snoc by lia.
  f_equal.
  rewrite (firstn_snoc s p da) by lia. rewrite map_app. simpl. do 3 f_equal.
  unfold s. rewrite nth_skipn'. f_equal. lia.
Qed.

(* for j in range(n): dst[a + j] = g(src[b + j]) *)
Lemma copy_loop (n a b : Z) (src : list A) (dst : list B) :
  0 <= a -> 0 <= b -> a + n <= zlen dst -> b + n <= zlen src ->
  for_range 0 n dst (fun j o => wr o (a + j) (g (rd src (b + j) da)))
  = blit (Z.to_nat a) (map g (firstn (Z.to_nat n) (skipn (Z.to_nat b) src))) dst.
Proof.
  intros Ha Hb Hd Hs. unfold zlen in *.
  apply (for_range_inv (fun p o => o = blit (Z.to_nat a) (map g (firstn p (skipn (Z.to_nat b) src))) dst)).
  - simpl. now rewrite blit_nil.
  - intros j o Hj ->. apply step_blit; lia.
Qed.
End Step.

Lemma land_bit i sig : 0 <= i -> (Z.land (Z.shiftl 1 i) sig =? 0) = negb (Z.testbit sig i).
Proof.
  intros Hi. rewrite Z.shiftl_1_l.
  destruct (Z.testbit sig i) eqn:E; simpl.
  - apply Z.eqb_neq. intros H.
    assert (T : Z.testbit (Z.land (2 ^ i) sig) i = true)
      by (rewrite Z.land_spec, E, Z.pow2_bits_true by lia; reflexivity).
    rewrite H in T. now rewrite Z.bits_0 in T.
  - apply Z.eqb_eq. apply Z.bits_inj'. intros n Hn.
    rewrite Z.land_spec, Z.bits_0, Z.pow2_bits_eqb by lia.
    destruct (Z.eqb_spec i n); subst; simpl; auto.
Qed.


Lemma for_nat_ext {A} (f g : Z -> A -> A) n : forall i acc,
  (forall j a, f j a = g j a) -> for_nat n i acc f = for_nat n i acc g.
Proof. induction n; intros; simpl; auto. rewrite H. now apply IHn. Qed.

Lemma for_range_ext {A} (f g : Z -> A -> A) lo hi acc :
  (forall j a, f j a = g j a) -> for_range lo hi acc f = for_range lo hi acc g.
Proof. intros. unfold for_range. now apply for_nat_ext. Qed.

Lemma wr_blit1 {A} (l : list A) (a : Z) x : 0 <= a < zlen l -> wr l a x = blit (Z.to_nat a) [x] l.
Proof.
  intros H. unfold zlen in H. unfold wr. destruct (a <? 0) eqn:E; [lia|].
  pose proof (upd_blit_snoc (Z.to_nat a) [] l x) as U. simpl in U.
  rewrite Nat.add_0_r, blit_nil in U. apply U. lia.
Qed.

Lemma nth_firstn1_skipn {A} (l : list A) (a : Z) da : 0 <= a ->
  nth 0 (firstn 1 (skipn (Z.to_nat a) l)) da = rd l a da.
Proof.
  intros H. unfold rd. destruct (a <? 0) eqn:E; [lia|].
  destruct (skipn (Z.to_nat a) l) eqn:S.
  - simpl. destruct (Nat.lt_ge_cases (Z.to_nat a) (length l)).
    + assert (L : length (skipn (Z.to_nat a) l) = O) by now rewrite S. rewrite skipn_length in L. lia.
    + now rewrite nth_overflow.
  - simpl. pose proof (nth_skipn' l (Z.to_nat a) 0 da) as N. rewrite S, Nat.add_0_r in N. now simpl in N.
Qed.

Section StepId.
Context {A : Type} (da : A).
Lemma wr_step_id (a b : Z) (src dst : list A) (p q : nat) (ia ib : Z) :
  ia = a + Z.of_nat p -> ib = b + Z.of_nat p -> q = Datatypes.S p ->
  0 <= a -> 0 <= b ->
  (Z.to_nat a + p < length dst)%nat -> (Z.to_nat b + p < length src)%nat ->
  wr (blit (Z.to_nat a) (firstn p (skipn (Z.to_nat b) src)) dst) ia (rd src ib da)
  = blit (Z.to_nat a) (firstn q (skipn (Z.to_nat b) src)) dst.
Proof.
  intros -> -> -> Ha Hb Hd Hs.
  pose proof (step_blit (fun x : A => x) da a b src dst p Ha Hb Hd Hs) as H.
  now rewrite !map_id in H.
Qed.

Lemma copy_loop_id (n a b : Z) (src dst : list A) :
  0 <= a -> 0 <= b -> a + n <= zlen dst -> b + n <= zlen src ->
  for_range 0 n dst (fun j o => wr o (a + j) (rd src (b + j) da))
  = blit (Z.to_nat a) (firstn (Z.to_nat n) (skipn (Z.to_nat b) src)) dst.
Proof.
  intros. pose proof (copy_loop (fun x : A => x) da n a b src dst) as H3.
  rewrite map_id in H3. now apply H3.
Qed.

(* for j in range(n): dst[a + j] = src[j]   with length src = n *)
Lemma get_copy_loop (n a : Z) (src dst : list A) :
  0 <= a -> a + n <= zlen dst -> zlen src = n ->
  for_range 0 n dst (fun j o => wr o (a + j) (rd src j da)) = blit (Z.to_nat a) src dst.
Proof.
  intros Ha Hd Hs.
  rewrite (for_range_ext _ (fun j o => wr o (a + j) (rd src (0 + j) da))) by reflexivity.
  rewrite copy_loop_id by lia. simpl. rewrite firstn_all2; auto. unfold zlen in *; lia.
Qed.

(* for j in range(n): dst[j] = src[b + j]   with length dst = n *)
Lemma set_copy_loop (n b : Z) (src dst : list A) :
  0 <= b -> b + n <= zlen src -> zlen dst = n ->
  for_range 0 n dst (fun j o => wr o j (rd src (b + j) da))
  = firstn (Z.to_nat n) (skipn (Z.to_nat b) src).
Proof.
  intros Hb Hs Hd.
  rewrite (for_range_ext _ (fun j o => wr o (0 + j) (rd src (b + j) da))) by reflexivity.
  rewrite copy_loop_id by lia. simpl. apply blit_full.
  unfold zlen in *. rewrite firstn_length, skipn_length. lia.
Qed.
End StepId.

Section Codec.
Variable V : Type.
Variable b2v : bool -> V.
Variable v2b : V -> bool.
Variable dflt : V.

Notation Data := (Data V).

Ltac wstep A0 B0 P0 :=
  rewrite (wr_step_id dflt A0 B0 _ _ P0 (Datatypes.S P0)) by (try reflexivity; unfold zlen in *; lia).

(* get side: k values per item, adr advanced inside the loop *)
Lemma get_items6 (n adr : Z) (x out : list V) :
  0 <= adr -> 0 <= n -> adr + 6 * n <= zlen out -> 6 * n <= zlen x ->
  for_range 0 n (adr, out) (fun j ao =>
      let '(a, o) := ao in
      let o := wr o (a + 0) (rd x (6 * j + 0) dflt) in
      let o := wr o (a + 1) (rd x (6 * j + 1) dflt) in
      let o := wr o (a + 2) (rd x (6 * j + 2) dflt) in
      let o := wr o (a + 3) (rd x (6 * j + 3) dflt) in
      let o := wr o (a + 4) (rd x (6 * j + 4) dflt) in
      let o := wr o (a + 5) (rd x (6 * j + 5) dflt) in
      (a + 6, o))
  = (adr + 6 * n, blit (Z.to_nat adr) (firstn (Z.to_nat (6 * n)) x) out).
Proof.
  intros Ha Hn Ho Hx.
  replace (Z.to_nat (6 * n)) with (6 * Z.to_nat n)%nat by lia.
  replace (adr + 6 * n) with (adr + 6 * Z.of_nat (Z.to_nat n)) by lia.
  apply (for_range_inv (fun p ao => ao = (adr + 6 * Z.of_nat p, blit (Z.to_nat adr) (firstn (6 * p) (skipn (Z.to_nat 0) x)) out))).
  - simpl. now rewrite blit_nil, Z.add_0_r.
  - intros j ao Hj ->. cbv beta iota zeta.
    wstep adr 0 (6 * j)%nat. wstep adr 0 (Datatypes.S (6 * j))%nat.
    wstep adr 0 (Datatypes.S (Datatypes.S (6 * j)))%nat.
    wstep adr 0 (Datatypes.S (Datatypes.S (Datatypes.S (6 * j))))%nat.
    wstep adr 0 (Datatypes.S (Datatypes.S (Datatypes.S (Datatypes.S (6 * j)))))%nat.
    wstep adr 0 (Datatypes.S (Datatypes.S (Datatypes.S (Datatypes.S (Datatypes.S (6 * j))))))%nat.
    f_equal; [lia|]. f_equal. f_equal. lia.
Qed.

Lemma get_items3 (n adr : Z) (x out : list V) :
  0 <= adr -> 0 <= n -> adr + 3 * n <= zlen out -> 3 * n <= zlen x ->
  for_range 0 n (adr, out) (fun j ao =>
      let '(a, o) := ao in
      let o := wr o (a + 0) (rd x (3 * j + 0) dflt) in
      let o := wr o (a + 1) (rd x (3 * j + 1) dflt) in
      let o := wr o (a + 2) (rd x (3 * j + 2) dflt) in
      (a + 3, o))
  = (adr + 3 * n, blit (Z.to_nat adr) (firstn (Z.to_nat (3 * n)) x) out).
Proof.
  intros Ha Hn Ho Hx.
  replace (Z.to_nat (3 * n)) with (3 * Z.to_nat n)%nat by lia.
  replace (adr + 3 * n) with (adr + 3 * Z.of_nat (Z.to_nat n)) by lia.
  apply (for_range_inv (fun p ao => ao = (adr + 3 * Z.of_nat p, blit (Z.to_nat adr) (firstn (3 * p) (skipn (Z.to_nat 0) x)) out))).
  - simpl. now rewrite blit_nil, Z.add_0_r.
  - intros j ao Hj ->. cbv beta iota zeta.
    wstep adr 0 (3 * j)%nat. wstep adr 0 (Datatypes.S (3 * j))%nat.
    wstep adr 0 (Datatypes.S (Datatypes.S (3 * j)))%nat.
    f_equal; [lia|]. f_equal. f_equal. lia.
Qed.

Lemma get_items4 (n adr : Z) (x out : list V) :
  0 <= adr -> 0 <= n -> adr + 4 * n <= zlen out -> 4 * n <= zlen x ->
  for_range 0 n (adr, out) (fun j ao =>
      let '(a, o) := ao in
      let o := wr o (a + 0) (rd x (4 * j + 0) dflt) in
      let o := wr o (a + 1) (rd x (4 * j + 1) dflt) in
      let o := wr o (a + 2) (rd x (4 * j + 2) dflt) in
      let o := wr o (a + 3) (rd x (4 * j + 3) dflt) in
      (a + 4, o))
  = (adr + 4 * n, blit (Z.to_nat adr) (firstn (Z.to_nat (4 * n)) x) out).
Proof.
  intros Ha Hn Ho Hx.
  replace (Z.to_nat (4 * n)) with (4 * Z.to_nat n)%nat by lia.
  replace (adr + 4 * n) with (adr + 4 * Z.of_nat (Z.to_nat n)) by lia.
  apply (for_range_inv (fun p ao => ao = (adr + 4 * Z.of_nat p, blit (Z.to_nat adr) (firstn (4 * p) (skipn (Z.to_nat 0) x)) out))).
  - simpl. now rewrite blit_nil, Z.add_0_r.
  - intros j ao Hj ->. cbv beta iota zeta.
    wstep adr 0 (4 * j)%nat. wstep adr 0 (Datatypes.S (4 * j))%nat.
    wstep adr 0 (Datatypes.S (Datatypes.S (4 * j)))%nat.
    wstep adr 0 (Datatypes.S (Datatypes.S (Datatypes.S (4 * j))))%nat.
    f_equal; [lia|]. f_equal. f_equal. lia.
Qed.

(* set side: the Data array is the destination, state_in the source *)
Lemma set_items6 (n adr : Z) (row x : list V) :
  0 <= adr -> 0 <= n -> adr + 6 * n <= zlen row -> zlen x = 6 * n ->
  for_range 0 n (adr, x) (fun j ax =>
      let '(a, x) := ax in
      let x := wr x (6 * j + 0) (rd row (a + 0) dflt) in
      let x := wr x (6 * j + 1) (rd row (a + 1) dflt) in
      let x := wr x (6 * j + 2) (rd row (a + 2) dflt) in
      let x := wr x (6 * j + 3) (rd row (a + 3) dflt) in
      let x := wr x (6 * j + 4) (rd row (a + 4) dflt) in
      let x := wr x (6 * j + 5) (rd row (a + 5) dflt) in
      (a + 6, x))
  = (adr + 6 * n, firstn (Z.to_nat (6 * n)) (skipn (Z.to_nat adr) row)).
Proof.
  intros Ha Hn Ho Hx.
  rewrite <- (blit_full (firstn (Z.to_nat (6 * n)) (skipn (Z.to_nat adr) row)) x)
    by (unfold zlen in *; rewrite firstn_length, skipn_length; lia).
  replace (Z.to_nat (6 * n)) with (6 * Z.to_nat n)%nat by lia.
  replace (adr + 6 * n) with (adr + 6 * Z.of_nat (Z.to_nat n)) by lia.
  apply (for_range_inv (fun p ax => ax = (adr + 6 * Z.of_nat p, blit (Z.to_nat 0) (firstn (6 * p) (skipn (Z.to_nat adr) row)) x))).
  - simpl. now rewrite blit_nil, Z.add_0_r.
  - intros j ax Hj ->. cbv beta iota zeta.
    wstep 0 adr (6 * j)%nat. wstep 0 adr (Datatypes.S (6 * j))%nat.
    wstep 0 adr (Datatypes.S (Datatypes.S (6 * j)))%nat.
    wstep 0 adr (Datatypes.S (Datatypes.S (Datatypes.S (6 * j))))%nat.
    wstep 0 adr (Datatypes.S (Datatypes.S (Datatypes.S (Datatypes.S (6 * j)))))%nat.
    wstep 0 adr (Datatypes.S (Datatypes.S (Datatypes.S (Datatypes.S (Datatypes.S (6 * j))))))%nat.
    f_equal; [lia|]. f_equal. f_equal. lia.
Qed.

Lemma set_items3 (n adr : Z) (row x : list V) :
  0 <= adr -> 0 <= n -> adr + 3 * n <= zlen row -> zlen x = 3 * n ->
  for_range 0 n (adr, x) (fun j ax =>
      let '(a, x) := ax in
      let x := wr x (3 * j + 0) (rd row (a + 0) dflt) in
      let x := wr x (3 * j + 1) (rd row (a + 1) dflt) in
      let x := wr x (3 * j + 2) (rd row (a + 2) dflt) in
      (a + 3, x))
  = (adr + 3 * n, firstn (Z.to_nat (3 * n)) (skipn (Z.to_nat adr) row)).
Proof.
  intros Ha Hn Ho Hx.
  rewrite <- (blit_full (firstn (Z.to_nat (3 * n)) (skipn (Z.to_nat adr) row)) x)
    by (unfold zlen in *; rewrite firstn_length, skipn_length; lia).
  replace (Z.to_nat (3 * n)) with (3 * Z.to_nat n)%nat by lia.
  replace (adr + 3 * n) with (adr + 3 * Z.of_nat (Z.to_nat n)) by lia.
  apply (for_range_inv (fun p ax => ax = (adr + 3 * Z.of_nat p, blit (Z.to_nat 0) (firstn (3 * p) (skipn (Z.to_nat adr) row)) x))).
  - simpl. now rewrite blit_nil, Z.add_0_r.
  - intros j ax Hj ->. cbv beta iota zeta.
    wstep 0 adr (3 * j)%nat. wstep 0 adr (Datatypes.S (3 * j))%nat.
    wstep 0 adr (Datatypes.S (Datatypes.S (3 * j)))%nat.
    f_equal; [lia|]. f_equal. f_equal. lia.
Qed.

Lemma set_items4 (n adr : Z) (row x : list V) :
  0 <= adr -> 0 <= n -> adr + 4 * n <= zlen row -> zlen x = 4 * n ->
  for_range 0 n (adr, x) (fun j ax =>
      let '(a, x) := ax in
      let x := wr x (4 * j + 0) (rd row (a + 0) dflt) in
      let x := wr x (4 * j + 1) (rd row (a + 1) dflt) in
      let x := wr x (4 * j + 2) (rd row (a + 2) dflt) in
      let x := wr x (4 * j + 3) (rd row (a + 3) dflt) in
      (a + 4, x))
  = (adr + 4 * n, firstn (Z.to_nat (4 * n)) (skipn (Z.to_nat adr) row)).
Proof.
  intros Ha Hn Ho Hx.
  rewrite <- (blit_full (firstn (Z.to_nat (4 * n)) (skipn (Z.to_nat adr) row)) x)
    by (unfold zlen in *; rewrite firstn_length, skipn_length; lia).
  replace (Z.to_nat (4 * n)) with (4 * Z.to_nat n)%nat by lia.
  replace (adr + 4 * n) with (adr + 4 * Z.of_nat (Z.to_nat n)) by lia.
  apply (for_range_inv (fun p ax => ax = (adr + 4 * Z.of_nat p, blit (Z.to_nat 0) (firstn (4 * p) (skipn (Z.to_nat adr) row)) x))).
  - simpl. now rewrite blit_nil, Z.add_0_r.
  - intros j ax Hj ->. cbv beta iota zeta.
    wstep 0 adr (4 * j)%nat. wstep 0 adr (Datatypes.S (4 * j))%nat.
    wstep 0 adr (Datatypes.S (Datatypes.S (4 * j)))%nat.
    wstep 0 adr (Datatypes.S (Datatypes.S (Datatypes.S (4 * j))))%nat.
    f_equal; [lia|]. f_equal. f_equal. lia.
Qed.

(* eq_active: bool array in Data, float in the state vector *)
Lemma get_eq_loop (n adr : Z) (e : list bool) (out : list V) :
  0 <= adr -> adr + n <= zlen out -> zlen e = n ->
  for_range 0 n out (fun j o => wr o (adr + j) (b2v (rd e j false))) = blit (Z.to_nat adr) (map b2v e) out.
Proof.
  intros Ha Hd Hs.
  rewrite (for_range_ext _ (fun j o => wr o (adr + j) (b2v (rd e (0 + j) false)))) by reflexivity.
  rewrite copy_loop by lia. simpl. rewrite firstn_all2; auto. unfold zlen in *; lia.
Qed.

Lemma set_eq_loop (n adr : Z) (row : list V) (e : list bool) :
  0 <= adr -> adr + n <= zlen row -> zlen e = n ->
  for_range 0 n e (fun j o => wr o j (v2b (rd row (adr + j) dflt)))
  = map v2b (firstn (Z.to_nat n) (skipn (Z.to_nat adr) row)).
Proof.
  intros Hb Hs Hd.
  rewrite (for_range_ext _ (fun j o => wr o (0 + j) (v2b (rd row (adr + j) dflt)))) by reflexivity.
  rewrite copy_loop by lia. simpl. apply blit_full.
  unfold zlen in *. rewrite map_length, firstn_length, skipn_length. lia.
Qed.


Notation wf := (@wf V).
Notation get_step := (get_step V b2v dflt).
Notation set_step := (set_step V v2b dflt).
Notation comp_get := (comp_get V b2v).
Notation comp_set := (comp_set V v2b dflt).

Ltac eval_eqb :=
  repeat match goal with
  | |- context [Z.shiftl 1 ?i] =>
      let r := eval vm_compute in (Z.shiftl 1 i) in change (Z.shiftl 1 i) with r
  end;
  unfold ST_TIME, ST_QPOS, ST_QVEL, ST_ACT, ST_HISTORY, ST_WARMSTART, ST_CTRL, ST_QFRC_APPLIED,
    ST_XFRC_APPLIED, ST_EQ_ACTIVE, ST_MOCAP_POS, ST_MOCAP_QUAT, ST_USERDATA;
  repeat match goal with
  | |- context [Z.eqb (Zpos ?a) (Zpos ?b)] =>
      let r := eval vm_compute in (Z.eqb (Zpos a) (Zpos b)) in change (Z.eqb (Zpos a) (Zpos b)) with r
  end;
  cbv iota.

Local Opaque Z.mul.

Lemma wf_nonneg sz d : wf sz d ->
  0 <= nq sz /\ 0 <= nv sz /\ 0 <= na sz /\ 0 <= nhistory sz /\ 0 <= nu sz /\ 0 <= nbody sz /\
  0 <= neq sz /\ 0 <= nmocap sz /\ 0 <= nuserdata sz.
Proof. unfold StateCodec.wf, zlen. intros H. lia. Qed.

Lemma comp_get_length sz d i : In i bits -> wf sz d -> length (comp_get i d) = csize sz i.
Proof.
  intros Hi W. unfold StateCodec.wf, zlen in W. unfold bits in Hi. simpl in Hi.
  repeat destruct Hi as [<-|Hi]; try contradiction; unfold csize; cbn [StateCodec.comp_size StateCodec.comp_get]; try rewrite map_length; simpl length; try lia.
Qed.

Lemma get_step_spec sz sig d i adr out :
  In i bits -> wf sz d -> 0 <= adr ->
  adr + (if Z.testbit sig i then comp_size sz i else 0) <= zlen out ->
  get_step sz sig d i (adr, out)
  = if Z.testbit sig i then (adr + comp_size sz i, blit (Z.to_nat adr) (comp_get i d) out)
    else (adr, out).
Proof.
  intros Hi W Ha Ho. pose proof (wf_nonneg _ _ W) as NN.
  unfold StateCodec.get_step.
  rewrite land_bit by (unfold bits in Hi; simpl in Hi; lia).
  destruct (Z.testbit sig i); simpl negb; cbv iota; [|reflexivity].
  unfold StateCodec.wf in W. unfold bits in Hi. simpl in Hi.
  repeat destruct Hi as [<-|Hi]; try contradiction; eval_eqb; cbn [StateCodec.comp_size StateCodec.comp_get] in *;
    unfold get_copy.
  - f_equal. apply wr_blit1. lia.
  - f_equal. apply get_copy_loop; lia.
  - f_equal. apply get_copy_loop; lia.
  - f_equal. apply get_copy_loop; lia.
  - f_equal. apply get_copy_loop; lia.
  - f_equal. apply get_copy_loop; lia.
  - f_equal. apply get_copy_loop; lia.
  - f_equal. apply get_copy_loop; lia.
  - rewrite get_items6 by lia. f_equal. f_equal. apply firstn_all2. unfold zlen in *; lia.
  - f_equal. apply get_eq_loop; lia.
  - rewrite get_items3 by lia. f_equal. f_equal. apply firstn_all2. unfold zlen in *; lia.
  - rewrite get_items4 by lia. f_equal. f_equal. apply firstn_all2. unfold zlen in *; lia.
  - f_equal. apply get_copy_loop; lia.
  - f_equal; [lia|]. now rewrite blit_nil.
Qed.


Lemma set_step_spec sz sig row d i adr :
  In i bits -> wf sz d -> 0 <= adr ->
  adr + (if Z.testbit sig i then comp_size sz i else 0) <= zlen row ->
  set_step sz sig row i (adr, d)
  = if Z.testbit sig i
    then (adr + comp_size sz i, comp_set i (firstn (csize sz i) (skipn (Z.to_nat adr) row)) d)
    else (adr, d).
Proof.
  intros Hi W Ha Ho. pose proof (wf_nonneg _ _ W) as NN.
  unfold StateCodec.set_step.
  rewrite land_bit by (unfold bits in Hi; simpl in Hi; lia).
  destruct (Z.testbit sig i); simpl negb; cbv iota; [|reflexivity].
  unfold StateCodec.wf in W. unfold bits in Hi. simpl in Hi.
  repeat destruct Hi as [<-|Hi]; try contradiction; eval_eqb; unfold csize;
    cbn [StateCodec.comp_size StateCodec.comp_set] in *; unfold set_copy.
  - f_equal. f_equal. symmetry. apply nth_firstn1_skipn; lia.
  - rewrite set_copy_loop by lia. reflexivity.
  - rewrite set_copy_loop by lia. reflexivity.
  - rewrite set_copy_loop by lia. reflexivity.
  - rewrite set_copy_loop by lia. reflexivity.
  - rewrite set_copy_loop by lia. reflexivity.
  - rewrite set_copy_loop by lia. reflexivity.
  - rewrite set_copy_loop by lia. reflexivity.
  - rewrite set_items6 by lia. reflexivity.
  - rewrite set_eq_loop by lia. reflexivity.
  - rewrite set_items3 by lia. reflexivity.
  - rewrite set_items4 by lia. reflexivity.
  - rewrite set_copy_loop by lia. reflexivity.
  - f_equal. lia.
Qed.

(* ---------- component laws ---------- *)
Notation field_eq := (field_eq V).

Ltac split_bits H := unfold bits in H; simpl in H; repeat destruct H as [<-|H]; try contradiction.

Lemma field_eq_refl i d : field_eq i d d.
Proof. unfold field_eq. destruct i as [|p|p]; auto; repeat (destruct p as [p|p|]; auto). Qed.

Lemma field_eq_trans i d1 d2 d3 : In i bits -> field_eq i d1 d2 -> field_eq i d2 d3 -> field_eq i d1 d3.
Proof. intros Hi. split_bits Hi; simpl; intros; try congruence; exact I. Qed.

Lemma field_eq_comp_get i d d' : In i bits -> field_eq i d d' -> comp_get i d = comp_get i d'.
Proof. intros Hi. split_bits Hi; simpl; intros E; try rewrite E; reflexivity. Qed.

Lemma data_ext (d d' : Data) : (forall i, In i bits -> field_eq i d d') -> d = d'.
Proof.
  intros H. destruct d, d'.
  assert (B : forall i, In i bits -> In i bits) by auto.
  pose proof (H 0 ltac:(unfold bits; simpl; tauto)) as H0.
  pose proof (H 1 ltac:(unfold bits; simpl; tauto)) as H1.
  pose proof (H 2 ltac:(unfold bits; simpl; tauto)) as H2.
  pose proof (H 3 ltac:(unfold bits; simpl; tauto)) as H3.
  pose proof (H 4 ltac:(unfold bits; simpl; tauto)) as H4.
  pose proof (H 5 ltac:(unfold bits; simpl; tauto)) as H5.
  pose proof (H 6 ltac:(unfold bits; simpl; tauto)) as H6.
  pose proof (H 7 ltac:(unfold bits; simpl; tauto)) as H7.
  pose proof (H 8 ltac:(unfold bits; simpl; tauto)) as H8.
  pose proof (H 9 ltac:(unfold bits; simpl; tauto)) as H9.
  pose proof (H 10 ltac:(unfold bits; simpl; tauto)) as H10.
  pose proof (H 11 ltac:(unfold bits; simpl; tauto)) as H11.
  pose proof (H 12 ltac:(unfold bits; simpl; tauto)) as H12.
  clear H B. simpl in *. subst. reflexivity.
Qed.

Lemma comp_indep i j v d : In i bits -> In j bits -> i <> j -> field_eq j (comp_set i v d) d.
Proof.
  intros Hi Hj. split_bits Hi; split_bits Hj; intros N; try congruence; try reflexivity; exact I.
Qed.

Notation boolean := (boolean V b2v v2b).

Lemma map_boolean v : Forall boolean v -> map b2v (map v2b v) = v.
Proof. induction 1; simpl; auto. now rewrite H, IHForall. Qed.

Lemma comp_set_get i v d :
  In i bits -> length v = length (comp_get i d) -> (i = 9 -> Forall boolean v) ->
  comp_get i (comp_set i v d) = v.
Proof.
  intros Hi. split_bits Hi; simpl; intros L B; auto.
  - destruct v as [|x [|y v]]; simpl in *; try discriminate; reflexivity.
  - apply map_boolean; auto.
  - destruct v; simpl in *; auto; discriminate.
Qed.

Hypothesis v2b_b2v : forall b, v2b (b2v b) = b.

Lemma comp_get_set i d : In i bits -> comp_set i (comp_get i d) d = d.
Proof.
  intros Hi. destruct d. split_bits Hi; simpl; auto.
  unfold set_eq; simpl. f_equal. rewrite map_map. rewrite <- (map_id eq_active) at 2.
  apply map_ext. auto.
Qed.


(* ---------- the NSTATE loop is a fold over the bit list ---------- *)
Lemma for_range_bits {A} (f : Z -> A -> A) (acc : A) :
  for_range 0 NSTATE acc f = fold_left (fun a i => f i a) bits acc.
Proof. reflexivity. Qed.

Notation sel_get := (sel_get V b2v).
Notation sel_set := (sel_set V v2b dflt).

Lemma comp_size_nonneg sz d i : In i bits -> wf sz d -> 0 <= comp_size sz i.
Proof.
  intros Hi W. pose proof (wf_nonneg _ _ W). split_bits Hi; cbn [StateCodec.comp_size]; lia.
Qed.

Lemma sel_get_length sz sig d bs :
  incl bs bits -> wf sz d -> length (sel_get sig d bs) = sel_size sz sig bs.
Proof.
  intros Hb W. induction bs as [|i r IH]; simpl; auto.
  rewrite app_length, IH by (eapply incl_cons_inv; eauto).
  destruct (Z.testbit sig i); auto.
  rewrite (comp_get_length sz) ; auto. apply Hb; now left.
Qed.

Lemma wf_comp_set sz i v d :
  In i bits -> wf sz d -> length v = csize sz i -> wf sz (comp_set i v d).
Proof.
  intros Hi W L. pose proof (wf_nonneg _ _ W) as NN. unfold StateCodec.wf, zlen, csize in *.
  split_bits Hi; cbn [StateCodec.comp_size] in L; simpl; try rewrite map_length; try lia.
Qed.

Lemma get_fold sz sig d bs : incl bs bits -> wf sz d -> forall adr out,
  0 <= adr -> adr + Z.of_nat (sel_size sz sig bs) <= zlen out ->
  fold_left (fun a i => get_step sz sig d i a) bs (adr, out)
  = (adr + Z.of_nat (sel_size sz sig bs), blit (Z.to_nat adr) (sel_get sig d bs) out).
Proof.
  intros Hb W. induction bs as [|i r IH]; intros adr out Ha Ho; cbn [fold_left StateCodec.sel_size StateCodec.sel_get].
  - now rewrite Z.add_0_r, blit_nil.
  - assert (Hi : In i bits) by (apply Hb; now left).
    assert (Hr : incl r bits) by (eapply incl_cons_inv; eauto).
    pose proof (comp_size_nonneg sz d i Hi W) as Hc.
    cbn [StateCodec.sel_size] in Ho. unfold csize in Ho.
    rewrite get_step_spec; auto.
    2:{ destruct (Z.testbit sig i); lia. }
    destruct (Z.testbit sig i) eqn:E.
    + rewrite IH; auto; try lia.
      2:{ unfold zlen in *. rewrite blit_length; [lia|]. rewrite (comp_get_length sz); auto. unfold csize. lia. }
      f_equal; [unfold csize; lia|].
      replace (Z.to_nat (adr + comp_size sz i)) with (Z.to_nat adr + length (comp_get i d))%nat
        by (rewrite (comp_get_length sz); auto; unfold csize; lia).
      apply blit_blit. rewrite (comp_get_length sz), (sel_get_length sz); auto.
      unfold zlen, csize in *. lia.
    + rewrite IH; auto; try lia.
Qed.

Lemma set_fold sz sig row bs : incl bs bits -> forall d adr,
  wf sz d -> 0 <= adr -> adr + Z.of_nat (sel_size sz sig bs) <= zlen row ->
  fold_left (fun a i => set_step sz sig row i a) bs (adr, d)
  = (adr + Z.of_nat (sel_size sz sig bs), sel_set sz sig (skipn (Z.to_nat adr) row) d bs).
Proof.
  intros Hb. induction bs as [|i r IH]; intros d adr W Ha Ho; cbn [fold_left StateCodec.sel_size StateCodec.sel_set].
  - now rewrite Z.add_0_r.
  - assert (Hi : In i bits) by (apply Hb; now left).
    assert (Hr : incl r bits) by (eapply incl_cons_inv; eauto).
    pose proof (comp_size_nonneg sz d i Hi W) as Hc.
    cbn [StateCodec.sel_size] in Ho. unfold csize in Ho.
    rewrite set_step_spec; auto.
    2:{ destruct (Z.testbit sig i); lia. }
    destruct (Z.testbit sig i) eqn:E.
    + rewrite IH; auto; try lia.
      * f_equal; [unfold csize; lia|]. rewrite skipn_skipn'. do 2 f_equal. unfold csize. lia.
      * apply wf_comp_set; auto. unfold zlen in *. rewrite firstn_length, skipn_length. unfold csize. lia.
    + rewrite IH; auto; try lia.
Qed.

(* ---------- laws of the specification functions (induction over the bit list) ---------- *)
Lemma sel_set_frame sz sig i bs : incl bs bits -> In i bits ->
  (forall j, In j bs -> Z.testbit sig j = true -> j <> i) ->
  forall v d, field_eq i (sel_set sz sig v d bs) d.
Proof.
  intros Hb Hi. induction bs as [|j r IH]; intros N v d; simpl.
  - apply field_eq_refl.
  - assert (Hj : In j bits) by (apply Hb; now left).
    assert (Hr : incl r bits) by (eapply incl_cons_inv; eauto).
    assert (N' : forall k, In k r -> Z.testbit sig k = true -> k <> i) by (intros; apply N; auto; now right).
    destruct (Z.testbit sig j) eqn:E.
    + eapply field_eq_trans; eauto. apply comp_indep; auto. apply N; auto. now left.
    + apply IH; auto.
Qed.

Lemma sel_set_wf sz sig bs : incl bs bits -> forall v d,
  wf sz d -> (sel_size sz sig bs <= length v)%nat -> wf sz (sel_set sz sig v d bs).
Proof.
  intros Hb. induction bs as [|i r IH]; intros v d W L; simpl; auto.
  assert (Hi : In i bits) by (apply Hb; now left).
  assert (Hr : incl r bits) by (eapply incl_cons_inv; eauto).
  simpl in L. destruct (Z.testbit sig i).
  - apply IH; auto.
    + apply wf_comp_set; auto. rewrite firstn_length. lia.
    + rewrite skipn_length. lia.
  - apply IH; auto.
Qed.

Notation slice_of := (slice_of V).

Lemma slice_of_notin t sz sig bs : ~ In t bs -> forall v, slice_of t sz sig v bs = [].
Proof.
  induction bs as [|i r IH]; intros N v; simpl; auto.
  assert (i <> t) by (intros ->; apply N; now left).
  assert (~ In t r) by (intros ?; apply N; now right).
  destruct (Z.testbit sig i); auto.
  destruct (Z.eqb_spec i t); [contradiction|]. auto.
Qed.

(* set then get *)
Lemma sel_set_get sz sig bs : NoDup bs -> incl bs bits -> forall v d,
  wf sz d -> length v = sel_size sz sig bs ->
  Forall boolean (slice_of 9 sz sig v bs) ->
  sel_get sig (sel_set sz sig v d bs) bs = v.
Proof.
  intros ND Hb. induction bs as [|i r IH]; intros v d W L B; simpl.
  - destruct v; auto; discriminate.
  - assert (Hi : In i bits) by (apply Hb; now left).
    assert (Hr : incl r bits) by (eapply incl_cons_inv; eauto).
    inversion ND as [|? ? Ni NDr]; subst.
    simpl in L, B. destruct (Z.testbit sig i) eqn:E.
    + set (c := csize sz i) in *.
      set (d1 := comp_set i (firstn c v) d).
      assert (W1 : wf sz d1) by (apply wf_comp_set; auto; rewrite firstn_length; lia).
      assert (F : field_eq i (sel_set sz sig (skipn c v) d1 r) d1).
      { apply sel_set_frame; auto. intros j Hj _ ->. contradiction. }
      rewrite (field_eq_comp_get _ _ _ Hi F).
      unfold d1. rewrite comp_set_get; auto.
      * rewrite IH; auto.
        -- apply firstn_skipn.
        -- rewrite skipn_length. lia.
        -- destruct (Z.eqb_spec i 9).
           ++ subst. rewrite slice_of_notin; auto.
           ++ exact B.
      * rewrite (comp_get_length sz); auto. rewrite firstn_length. fold c. lia.
      * intros ->. simpl in B. exact B.
    + simpl. apply IH; auto.
Qed.

(* get then set *)
Lemma sel_get_set sz sig bs : incl bs bits -> forall d tail,
  wf sz d -> sel_set sz sig (sel_get sig d bs ++ tail) d bs = d.
Proof.
  intros Hb. induction bs as [|i r IH]; intros d tail W; simpl; auto.
  assert (Hi : In i bits) by (apply Hb; now left).
  assert (Hr : incl r bits) by (eapply incl_cons_inv; eauto).
  destruct (Z.testbit sig i).
  - rewrite <- app_assoc.
    rewrite <- (comp_get_length sz d i) by auto.
    rewrite firstn_app, Nat.sub_diag, firstn_all. simpl. rewrite app_nil_r.
    rewrite skipn_app, Nat.sub_diag, skipn_all. simpl.
    rewrite comp_get_set by auto. apply IH; auto.
  - simpl. apply IH; auto.
Qed.

(* the slice of component t of get's output is component t *)
Lemma slice_of_sel_get t sz sig bs : NoDup bs -> incl bs bits -> In t bs -> Z.testbit sig t = true ->
  forall d tail, wf sz d -> slice_of t sz sig (sel_get sig d bs ++ tail) bs = comp_get t d.
Proof.
  intros ND Hb. induction bs as [|i r IH]; intros Ht E d tail W; simpl; [contradiction|].
  assert (Hi : In i bits) by (apply Hb; now left).
  assert (Hr : incl r bits) by (eapply incl_cons_inv; eauto).
  inversion ND as [|? ? Ni NDr]; subst.
  destruct (Z.testbit sig i) eqn:Ei.
  - rewrite <- app_assoc. rewrite <- (comp_get_length sz d i) by auto.
    destruct (Z.eqb_spec i t).
    + subst. rewrite firstn_app, Nat.sub_diag, firstn_all. simpl. apply app_nil_r.
    + rewrite skipn_app, Nat.sub_diag, skipn_all. simpl. apply IH; auto.
      destruct Ht; [contradiction|auto].
  - simpl. apply IH; auto. destruct Ht; [subst; congruence|auto].
Qed.


(* ---------- one world: kernel = specification ---------- *)
Notation get_row := (get_row V b2v dflt).
Notation set_row := (set_row V v2b dflt).
Notation state_size := state_size.

Lemma bits_nodup : NoDup bits.
Proof. unfold bits. repeat constructor; simpl; intuition discriminate. Qed.

Lemma get_row_spec sz sig d row :
  wf sz d -> (state_size sz sig <= length row)%nat ->
  get_row sz sig d row = sel_get sig d bits ++ skipn (state_size sz sig) row.
Proof.
  intros W L. unfold StateCodec.get_row. rewrite for_range_bits.
  rewrite (get_fold sz sig d bits (incl_refl _) W 0 row); try lia.
  - cbn [snd]. change (Z.to_nat 0) with O. rewrite blit_0.
    rewrite (sel_get_length sz); auto. apply incl_refl.
  - unfold zlen, StateCodec.state_size in *. lia.
Qed.

Lemma set_row_spec sz sig row d :
  wf sz d -> (state_size sz sig <= length row)%nat ->
  set_row sz sig row d = sel_set sz sig row d bits.
Proof.
  intros W L. unfold StateCodec.set_row. rewrite for_range_bits.
  rewrite (set_fold sz sig row bits (incl_refl _) d 0 W); try lia.
  - reflexivity.
  - unfold zlen, StateCodec.state_size in *. lia.
Qed.

(* get_layout *)
Theorem get_layout sz sig d row :
  wf sz d -> (state_size sz sig <= length row)%nat ->
  get_row sz sig d row = sel_get sig d bits ++ skipn (state_size sz sig) row
  /\ length (sel_get sig d bits) = state_size sz sig.
Proof.
  intros W L. split; [now apply get_row_spec|]. apply sel_get_length; auto. apply incl_refl.
Qed.

(* the part of get's output that belongs to a selected component is that component *)
Theorem get_decode sz sig d row t :
  wf sz d -> (state_size sz sig <= length row)%nat -> In t bits -> Z.testbit sig t = true ->
  slice_of t sz sig (get_row sz sig d row) bits = comp_get t d.
Proof.
  intros W L Ht E. rewrite get_row_spec by auto.
  apply slice_of_sel_get; auto. apply bits_nodup. apply incl_refl.
Qed.

Theorem set_wf sz sig row d :
  wf sz d -> (state_size sz sig <= length row)%nat -> wf sz (set_row sz sig row d).
Proof. intros W L. rewrite set_row_spec by auto. apply sel_set_wf; auto. apply incl_refl. Qed.

(* set_get *)
Theorem set_get sz sig v d out :
  wf sz d -> length v = state_size sz sig -> length out = length v ->
  boolean_on_eq_active V b2v v2b sz sig v ->
  get_row sz sig (set_row sz sig v d) out = v.
Proof.
  intros W L Lo B.
  assert (W' : wf sz (set_row sz sig v d)) by (apply set_wf; auto; lia).
  rewrite get_row_spec by (auto; lia).
  rewrite set_row_spec by (auto; lia).
  rewrite sel_set_get; auto using bits_nodup, incl_refl.
  rewrite skipn_all2 by lia. apply app_nil_r.
Qed.

(* set_frame: arrays whose bit is clear are not modified *)
Theorem set_frame sz sig row d i :
  wf sz d -> (state_size sz sig <= length row)%nat -> In i bits -> Z.testbit sig i = false ->
  field_eq i (set_row sz sig row d) d.
Proof.
  intros W L Hi E. rewrite set_row_spec by auto.
  apply sel_set_frame; auto using incl_refl. intros j _ Ej ->. congruence.
Qed.

(* get_set *)
Theorem get_set sz sig d row :
  wf sz d -> (state_size sz sig <= length row)%nat ->
  set_row sz sig (get_row sz sig d row) d = d.
Proof.
  intros W L. rewrite get_row_spec by auto.
  rewrite set_row_spec; auto.
  - apply sel_get_set; auto using incl_refl.
  - rewrite app_length, (sel_get_length sz) by auto using incl_refl.
    unfold StateCodec.state_size. lia.
Qed.

(* ---------- launch over worlds ---------- *)
Notation get_worlds := (get_worlds V b2v dflt).
Notation set_worlds := (set_worlds V v2b dflt).
Notation get_state := (get_state V b2v dflt).
Notation set_state := (set_state V v2b dflt).

Lemma get_worlds_nth sz sig active : forall ds state w k,
  nth_error (get_worlds sz sig active w ds state) k =
  match nth_error state k with
  | None => None
  | Some row =>
      match nth_error ds k with
      | Some d => Some (if world_active active (w + Z.of_nat k) then get_row sz sig d row else row)
      | None => Some row
      end
  end.
Proof.
  induction ds as [|d ds IH]; intros state w k.
  - simpl. destruct (nth_error state k); auto. now destruct k.
  - destruct state as [|row st]; [now destruct k|].
    destruct k; cbn [StateCodec.get_worlds nth_error].
    + now rewrite Z.add_0_r.
    + rewrite IH. replace (w + 1 + Z.of_nat k) with (w + Z.of_nat (Datatypes.S k)) by lia. reflexivity.
Qed.

Lemma set_worlds_nth sz sig active : forall ds state w k,
  nth_error (set_worlds sz sig active w state ds) k =
  match nth_error ds k with
  | None => None
  | Some d =>
      match nth_error state k with
      | Some row => Some (if world_active active (w + Z.of_nat k) then set_row sz sig row d else d)
      | None => Some d
      end
  end.
Proof.
  induction ds as [|d ds IH]; intros state w k.
  - destruct state; destruct k; reflexivity.
  - destruct state as [|row st].
    + cbn [StateCodec.set_worlds]. destruct (nth_error (d :: ds) k); auto. now destruct k.
    + destruct k; cbn [StateCodec.set_worlds nth_error].
      * now rewrite Z.add_0_r.
      * rewrite IH. replace (w + 1 + Z.of_nat k) with (w + Z.of_nat (Datatypes.S k)) by lia. reflexivity.
Qed.

Lemma get_worlds_length sz sig active : forall ds state w,
  length (get_worlds sz sig active w ds state) = length state.
Proof. induction ds; intros [|row st] w; simpl; auto. Qed.

Lemma set_worlds_length sz sig active : forall ds state w,
  length (set_worlds sz sig active w state ds) = length ds.
Proof. induction ds; intros [|row st] w; simpl; auto. Qed.

Lemma nth_error_ext {A} (l1 l2 : list A) : (forall k, nth_error l1 k = nth_error l2 k) -> l1 = l2.
Proof.
  revert l2; induction l1; intros [|b l2] H; auto.
  - specialize (H O); discriminate.
  - specialize (H O); discriminate.
  - pose proof (H O) as H0. simpl in H0. inversion H0; subst. f_equal.
    apply IHl1. intros k. apply (H (Datatypes.S k)).
Qed.

(* sig_range: what the wrapper rejects, and what it accepts *)
Theorem sig_range sz sig active ds state :
  sig < 0 \/ 2 ^ NSTATE <= sig ->
  get_state sz sig active ds state = None /\ set_state sz sig active state ds = None.
Proof.
  intros H. unfold StateCodec.get_state, StateCodec.set_state.
  rewrite Z.shiftl_1_l. destruct (sig <? 0) eqn:E0; auto.
  destruct (sig >=? 2 ^ NSTATE) eqn:E; auto. lia.
Qed.

Theorem sig_accepted sz sig active ds state :
  0 <= sig < 2 ^ NSTATE ->
  get_state sz sig active ds state = Some (get_worlds sz sig active 0 ds state) /\
  set_state sz sig active state ds = Some (set_worlds sz sig active 0 state ds).
Proof.
  intros H. unfold StateCodec.get_state, StateCodec.set_state.
  rewrite Z.shiftl_1_l. destruct (sig <? 0) eqn:E0; [lia|].
  destruct (sig >=? 2 ^ NSTATE) eqn:E; auto. lia.
Qed.

(* an active world gets exactly the one-world result, an inactive world is untouched *)
Theorem get_state_world sz sig active ds state st' w d row :
  get_state sz sig active ds state = Some st' ->
  nth_error ds w = Some d -> nth_error state w = Some row ->
  nth_error st' w = Some (if world_active active (Z.of_nat w) then get_row sz sig d row else row).
Proof.
  unfold StateCodec.get_state. destruct (sig <? 0); [discriminate|]. destruct (sig >=? _); [discriminate|]. intros [= <-] Hd Hr.
  rewrite get_worlds_nth, Hr, Hd. reflexivity.
Qed.

Theorem set_state_world sz sig active ds state ds' w d row :
  set_state sz sig active state ds = Some ds' ->
  nth_error ds w = Some d -> nth_error state w = Some row ->
  nth_error ds' w = Some (if world_active active (Z.of_nat w) then set_row sz sig row d else d).
Proof.
  unfold StateCodec.set_state. destruct (sig <? 0); [discriminate|]. destruct (sig >=? _); [discriminate|]. intros [= <-] Hd Hr.
  rewrite set_worlds_nth, Hr, Hd. reflexivity.
Qed.

(* mask_frame, "not written" *)
Theorem mask_frame_get sz sig active ds state st' w :
  get_state sz sig active ds state = Some st' ->
  world_active active (Z.of_nat w) = false ->
  length st' = length state /\ nth_error st' w = nth_error state w.
Proof.
  unfold StateCodec.get_state. destruct (sig <? 0); [discriminate|]. destruct (sig >=? _); [discriminate|]. intros [= <-] Ha.
  split; [apply get_worlds_length|].
  rewrite get_worlds_nth. simpl. rewrite Ha.
  destruct (nth_error state w); auto. destruct (nth_error ds w); auto.
Qed.

Theorem mask_frame_set sz sig active ds state ds' w :
  set_state sz sig active state ds = Some ds' ->
  world_active active (Z.of_nat w) = false ->
  length ds' = length ds /\ nth_error ds' w = nth_error ds w.
Proof.
  unfold StateCodec.set_state. destruct (sig <? 0); [discriminate|]. destruct (sig >=? _); [discriminate|]. intros [= <-] Ha.
  split; [apply set_worlds_length|].
  rewrite set_worlds_nth. simpl. rewrite Ha.
  destruct (nth_error ds w); auto. destruct (nth_error state w); auto.
Qed.

(* mask_frame, "not read": the result does not depend on the Data (get) / on the state
   rows (set) of inactive worlds *)
Theorem mask_noread_get sz sig active ds1 ds2 state :
  (forall w, world_active active (Z.of_nat w) = true -> nth_error ds1 w = nth_error ds2 w) ->
  get_state sz sig active ds1 state = get_state sz sig active ds2 state.
Proof.
  intros H. unfold StateCodec.get_state. destruct (sig <? 0); auto. destruct (sig >=? _); auto. f_equal.
  apply nth_error_ext. intros k. rewrite !get_worlds_nth. simpl.
  destruct (nth_error state k) as [row|]; auto.
  destruct (world_active active (Z.of_nat k)) eqn:E.
  - now rewrite (H k E).
  - destruct (nth_error ds1 k), (nth_error ds2 k); auto.
Qed.

Theorem mask_noread_set sz sig active ds st1 st2 :
  (forall w, world_active active (Z.of_nat w) = true -> nth_error st1 w = nth_error st2 w) ->
  set_state sz sig active st1 ds = set_state sz sig active st2 ds.
Proof.
  intros H. unfold StateCodec.set_state. destruct (sig <? 0); auto. destruct (sig >=? _); auto. f_equal.
  apply nth_error_ext. intros k. rewrite !set_worlds_nth. simpl.
  destruct (nth_error ds k) as [d|]; auto.
  destruct (world_active active (Z.of_nat k)) eqn:E.
  - now rewrite (H k E).
  - destruct (nth_error st1 k), (nth_error st2 k); auto.
Qed.

(* the headline round trip through the two public functions, all worlds, any mask *)
Theorem api_set_get sz sig active ds state out ds' :
  0 <= sig < 2 ^ NSTATE -> Forall (wf sz) ds ->
  length state = length ds -> length out = length ds ->
  (forall w v, nth_error state w = Some v ->
     length v = state_size sz sig /\ boolean_on_eq_active V b2v v2b sz sig v) ->
  (forall w o, nth_error out w = Some o -> length o = state_size sz sig) ->
  set_state sz sig active state ds = Some ds' ->
  exists st', get_state sz sig active ds' out = Some st' /\ length st' = length out /\
    forall w, (w < length ds)%nat ->
      nth_error st' w = if world_active active (Z.of_nat w) then nth_error state w else nth_error out w.
Proof.
  intros Hs W Ls Lo Hv Ho Hset.
  destruct (sig_accepted sz sig active ds state Hs) as [_ E2].
  rewrite E2 in Hset. injection Hset as <-.
  destruct (sig_accepted sz sig active (set_worlds sz sig active 0 state ds) out Hs) as [E1 _].
  eexists. split; [exact E1|]. split; [apply get_worlds_length|].
  intros w Hw. rewrite get_worlds_nth, set_worlds_nth. simpl.
  destruct (nth_error out w) as [o|] eqn:Eo; [|apply nth_error_None in Eo; lia].
  destruct (nth_error ds w) as [d|] eqn:Ed; [|apply nth_error_None in Ed; lia].
  destruct (nth_error state w) as [v|] eqn:Ev; [|apply nth_error_None in Ev; lia].
  destruct (world_active active (Z.of_nat w)); auto.
  f_equal. destruct (Hv w v Ev) as [Lv Bv].
  apply set_get; auto.
  - rewrite Forall_forall in W. apply W. eapply nth_error_In; eauto.
  - rewrite (Ho w o Eo). auto.
Qed.

End Codec.

(* ---------- instance facts: float32 bit patterns ---------- *)
Lemma z2b_b2z b : z2b (b2z b) = b.
Proof. now destruct b. Qed.

(* exactly +0.0 and 1.0 survive bool() then float() *)
Lemma boolean_Z x : boolean Z b2z z2b x <-> x = 0 \/ x = 1065353216.
Proof.
  unfold boolean, b2z, z2b. split.
  - destruct (x =? 0) eqn:E0, (x =? 2147483648) eqn:E1; simpl; lia.
  - intros [-> | ->]; reflexivity.
Qed.

(* finite companion: every signature of the valid range on the concrete model sz0 *)
Theorem sweep_all : forall sig, 0 <= sig < 2 ^ NSTATE -> sweep_ok sig = true.
Proof.
  assert (H : forallb sweep_ok (map Z.of_nat (seq 0 (Z.to_nat (2 ^ NSTATE)))) = true) by (vm_compute; reflexivity).
  intros sig Hs. rewrite forallb_forall in H. apply H.
  apply in_map_iff. exists (Z.to_nat sig). split; [lia|]. apply in_seq. lia.
Qed.

Example wf_d0 : wf sz0 d0.
Proof. unfold wf, zlen. simpl. repeat split; reflexivity. Qed.

(* the hypotheses of set_get are satisfiable with EQ_ACTIVE selected *)
Example set_get_hyp :
  length (expect0 16383) = state_size sz0 16383 /\
  boolean_on_eq_active Z b2z z2b sz0 16383 (expect0 16383) /\
  slice_of Z 9 sz0 16383 (expect0 16383) bits = [1065353216; 0].
Proof.
  split; [reflexivity|]. unfold boolean_on_eq_active.
  replace (slice_of Z 9 sz0 16383 (expect0 16383) bits) with [1065353216; 0] by (vm_compute; reflexivity).
  split; [|reflexivity]. repeat (constructor; [reflexivity|]). constructor.
Qed.
