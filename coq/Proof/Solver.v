(* Proof/Solver.v -- constraint row cost / force algebra (C24, C06).
   Every lemma here is about the definitions REGENERATED from /repo/mujoco_warp/_src/solver.py
   in Gen/solver.v (_eval_constraint, _eval_elliptic_middle, _eval_frictionloss_cost, _state_check),
   instantiated at the reals; the contact-block lemmas use Model/SolverHand.v (the argument
   assembly of the kernel _update_constraint_efc, tied to the kernel by a correspondence run). *)
From Coq Require Import ZArith Reals List Bool Lra Lia Psatz.
From VF Require Import Base.Scalar Base.ScalarR Base.Vec Base.Loop Gen.solver Model.SolverHand.
Import ListNotations.
Local Open Scope R_scope.

Definition ec := @_eval_constraint R ScalarR.
Definition emid := @_eval_elliptic_middle R ScalarR.
Definition r_force (r : list R) : R := nth 0 r 0.
Definition r_state (r : list R) : R := nth 1 r 0.
Definition r_cost (r : list R) : R := nth 2 r 0.

Lemma safe_div_R x y : y <> 0 -> @safe_div__S_S R ScalarR x y = x / y.
Proof.
  intros Hy. unfold safe_div__S_S. sR.
  destruct (Reqb y 0) eqn:E.
  - apply Reqb_true in E. contradiction.
  - reflexivity.
Qed.

Ltac cmp_cases :=
  repeat match goal with
  | |- context [Rltb ?a ?b] => let E := fresh "E" in destruct (Rltb a b) eqn:E; [apply Rltb_true in E | apply Rltb_false in E]
  | |- context [Rleb ?a ?b] => let E := fresh "E" in destruct (Rleb a b) eqn:E; [apply Rleb_true in E | apply Rleb_false in E]
  | |- context [Reqb ?a ?b] => let E := fresh "E" in destruct (Reqb a b) eqn:E; [apply Reqb_true in E | apply Reqb_false in E]
  end.

(* the square-root the code takes of TT *)
Definition Tof (TT : R) : R := if Rleb TT 0 then 0 else sqrt TT.
Lemma Tof_nonneg TT : 0 <= Tof TT.
Proof. unfold Tof. destruct (Rleb TT 0); [lra | apply sqrt_pos]. Qed.
Lemma Tof_sqr TT : 0 <= TT -> Tof TT * Tof TT = TT.
Proof.
  intros. unfold Tof. destruct (Rleb TT 0) eqn:E.
  - apply Rleb_true in E. nra.
  - apply sqrt_sqrt; lra.
Qed.

Definition dm_of (D0 mu : R) : R := D0 / (mu * mu * (1 + mu * mu)).

(* ---------- unfolding lemmas: what _eval_constraint is, kind by kind ---------- *)
Lemma ec_equality ifr iel jaref D fl id id0 j0 D0 mu uf TT :
  ec true ifr iel jaref D fl id id0 j0 D0 mu uf TT = [- D * jaref; 1; 1/2 * D * jaref * jaref].
Proof. unfold ec, _eval_constraint. sR. reflexivity. Qed.

Lemma ec_limit jaref D fl id id0 j0 D0 mu uf TT :
  ec false false false jaref D fl id id0 j0 D0 mu uf TT
  = if Rleb 0 jaref then [0; 0; 0] else [- D * jaref; 1; 1/2 * D * jaref * jaref].
Proof. unfold ec, _eval_constraint. sR. reflexivity. Qed.

Lemma ec_friction iel jaref D fl id id0 j0 D0 mu uf TT :
  D <> 0 ->
  ec false true iel jaref D fl id id0 j0 D0 mu uf TT
  = if Rleb jaref (- (fl / D)) then [fl; 2; - fl * (1/2 * (fl / D) + jaref)]
    else if Rleb (fl / D) jaref then [- fl; 3; - fl * (1/2 * (fl / D) - jaref)]
    else [- D * jaref; 1; 1/2 * D * jaref * jaref].
Proof. intros HD. unfold ec, _eval_constraint. rewrite (safe_div_R _ _ HD). sR. reflexivity. Qed.

Lemma ec_elliptic jaref D fl id id0 j0 D0 mu uf TT :
  ec false false true jaref D fl id id0 j0 D0 mu uf TT
  = let N := j0 * mu in let T := Tof TT in
    if (Rleb (mu * T) N || (Rleb T 0 && Rleb 0 N)) then [0; 0; 0]
    else if (Rleb (mu * N + T) 0 || (Rleb T 0 && Rltb N 0)) then [- D * jaref; 1; 1/2 * D * jaref * jaref]
    else [nth 0 (emid N T D0 mu uf (Z.eqb id id0)) 0; 4; nth 1 (emid N T D0 mu uf (Z.eqb id id0)) 0].
Proof.
  unfold ec, _eval_constraint, Tof, emid. sR.
  destruct (Rleb TT 0); reflexivity.
Qed.

Lemma emid_normal N T D0 mu uf : mu <> 0 ->
  emid N T D0 mu uf true = [- dm_of D0 mu * (N - mu * T) * mu; 1/2 * dm_of D0 mu * (N - mu * T) * (N - mu * T)].
Proof.
  intros Hmu. unfold emid, _eval_elliptic_middle, dm_of.
  rewrite safe_div_R; [sR; reflexivity|]. sR. nra.
Qed.
Lemma emid_tangent N T D0 mu uf : mu <> 0 -> T <> 0 ->
  emid N T D0 mu uf false = [- ((- dm_of D0 mu * (N - mu * T) * mu) / T) * uf; 0].
Proof.
  intros Hmu HT. unfold emid, _eval_elliptic_middle, dm_of.
  rewrite (safe_div_R D0); [|sR; nra]. rewrite safe_div_R by exact HT. sR. reflexivity.
Qed.

(* ================= C24 ================= *)
Lemma limit_contact_force_nonneg jaref D fl id id0 j0 D0 mu uf TT :
  0 < D -> 0 <= r_force (ec false false false jaref D fl id id0 j0 D0 mu uf TT).
Proof. intros. rewrite ec_limit. unfold r_force. cmp_cases; simpl; nra. Qed.

Lemma satisfied_zero_force ie ifr iel jaref D fl id id0 j0 D0 mu uf TT :
  r_state (ec ie ifr iel jaref D fl id id0 j0 D0 mu uf TT) = 0 ->
  r_force (ec ie ifr iel jaref D fl id id0 j0 D0 mu uf TT) = 0 /\
  r_cost (ec ie ifr iel jaref D fl id id0 j0 D0 mu uf TT) = 0.
Proof.
  unfold ec, _eval_constraint, r_state, r_force, r_cost. sR.
  destruct ie; [simpl; lra|]. destruct ifr.
  - cmp_cases; simpl; lra.
  - destruct iel.
    + destruct (Rleb TT 0); cbv zeta;
      repeat match goal with |- context [if ?c then _ else _] => destruct c end; simpl; lra.
    + cmp_cases; simpl; lra.
Qed.

Lemma frictionloss_bounded iel jaref D fl id id0 j0 D0 mu uf TT :
  0 < D -> 0 <= fl ->
  Rabs (r_force (ec false true iel jaref D fl id id0 j0 D0 mu uf TT)) <= fl.
Proof.
  intros HD Hf. rewrite ec_friction by lra. unfold r_force.
  set (rf := fl / D). assert (Hrf : rf * D = fl) by (unfold rf; field; lra). clearbody rf.
  cmp_cases; simpl; apply Rabs_le; nra.
Qed.

Lemma equality_force ifr iel jaref D fl id id0 j0 D0 mu uf TT :
  r_force (ec true ifr iel jaref D fl id id0 j0 D0 mu uf TT) = - D * jaref /\
  r_state (ec true ifr iel jaref D fl id id0 j0 D0 mu uf TT) = 1 /\
  r_cost (ec true ifr iel jaref D fl id id0 j0 D0 mu uf TT) = 1/2 * D * jaref * jaref.
Proof. rewrite ec_equality. repeat split. Qed.

(* zones of an elliptic contact, in the code's own terms: N = jaref0*mu, T = Tof TT *)
Definition top_zone (mu N T : R) : Prop := mu * T <= N \/ (T <= 0 /\ 0 <= N).
Definition bottom_zone (mu N T : R) : Prop := mu * N + T <= 0 \/ (T <= 0 /\ N < 0).

Lemma zone_bools mu N T :
  (Rleb (mu * T) N || (Rleb T 0 && Rleb 0 N) = true <-> top_zone mu N T) /\
  (Rleb (mu * N + T) 0 || (Rleb T 0 && Rltb N 0) = true <-> bottom_zone mu N T).
Proof.
  unfold top_zone, bottom_zone.
  rewrite !orb_true_iff, !andb_true_iff, !Rleb_true, Rltb_true. tauto.
Qed.

Lemma elliptic_top_zero jaref D fl id id0 j0 D0 mu uf TT :
  top_zone mu (j0 * mu) (Tof TT) ->
  ec false false true jaref D fl id id0 j0 D0 mu uf TT = [0; 0; 0].
Proof.
  intros Hz. rewrite ec_elliptic. cbv zeta.
  apply (proj1 (zone_bools mu (j0*mu) (Tof TT))) in Hz. rewrite Hz. reflexivity.
Qed.

Lemma elliptic_bottom_quadratic jaref D fl id id0 j0 D0 mu uf TT :
  ~ top_zone mu (j0 * mu) (Tof TT) -> bottom_zone mu (j0 * mu) (Tof TT) ->
  ec false false true jaref D fl id id0 j0 D0 mu uf TT = [- D * jaref; 1; 1/2 * D * jaref * jaref].
Proof.
  intros Ht Hb. rewrite ec_elliptic. cbv zeta.
  destruct (zone_bools mu (j0*mu) (Tof TT)) as [Z1 Z2].
  destruct (Rleb (mu * Tof TT) (j0 * mu) || (Rleb (Tof TT) 0 && Rleb 0 (j0 * mu))) eqn:E1.
  - exfalso. apply Ht, Z1. reflexivity.
  - apply Z2 in Hb. rewrite Hb. reflexivity.
Qed.

(* in the middle zone T > 0 and N - mu T < 0 *)
Lemma middle_zone_facts mu N T :
  0 <= T -> ~ top_zone mu N T -> ~ bottom_zone mu N T -> 0 < T /\ N < mu * T /\ 0 < mu * N + T.
Proof.
  unfold top_zone, bottom_zone. intros HT Ht Hb.
  assert (0 < T).
  { destruct (Rle_dec T 0); [|lra]. exfalso. destruct (Rle_dec 0 N); [apply Ht | apply Hb]; right; lra. }
  split; [assumption|]. split.
  - destruct (Rle_dec (mu * T) N); [exfalso; apply Ht; left; lra | lra].
  - destruct (Rle_dec (mu * N + T) 0); [exfalso; apply Hb; left; lra | lra].
Qed.

Lemma elliptic_middle_normal jaref D fl id j0 D0 mu uf TT :
  0 < mu ->
  ~ top_zone mu (j0 * mu) (Tof TT) -> ~ bottom_zone mu (j0 * mu) (Tof TT) ->
  ec false false true jaref D fl id id j0 D0 mu uf TT
  = [- dm_of D0 mu * (j0 * mu - mu * Tof TT) * mu; 4;
     1/2 * dm_of D0 mu * (j0 * mu - mu * Tof TT) * (j0 * mu - mu * Tof TT)].
Proof.
  intros Hmu Ht Hb. rewrite ec_elliptic. cbv zeta.
  destruct (zone_bools mu (j0*mu) (Tof TT)) as [Z1 Z2].
  destruct (Rleb (mu * Tof TT) (j0 * mu) || (Rleb (Tof TT) 0 && Rleb 0 (j0 * mu))) eqn:E1.
  { exfalso. apply Ht, Z1. reflexivity. }
  destruct (Rleb (mu * (j0 * mu) + Tof TT) 0 || (Rleb (Tof TT) 0 && Rltb (j0 * mu) 0)) eqn:E2.
  { exfalso. apply Hb, Z2. reflexivity. }
  rewrite Z.eqb_refl, emid_normal by lra. reflexivity.
Qed.

Lemma elliptic_middle_tangent jaref D fl id id0 j0 D0 mu uf TT :
  0 < mu -> id <> id0 ->
  ~ top_zone mu (j0 * mu) (Tof TT) -> ~ bottom_zone mu (j0 * mu) (Tof TT) ->
  ec false false true jaref D fl id id0 j0 D0 mu uf TT
  = [- ((- dm_of D0 mu * (j0 * mu - mu * Tof TT) * mu) / Tof TT) * uf; 4; 0].
Proof.
  intros Hmu Hid Ht Hb. rewrite ec_elliptic. cbv zeta.
  destruct (middle_zone_facts mu (j0*mu) (Tof TT) (Tof_nonneg TT) Ht Hb) as (HT & _).
  destruct (zone_bools mu (j0*mu) (Tof TT)) as [Z1 Z2].
  destruct (Rleb (mu * Tof TT) (j0 * mu) || (Rleb (Tof TT) 0 && Rleb 0 (j0 * mu))) eqn:E1.
  { exfalso. apply Ht, Z1. reflexivity. }
  destruct (Rleb (mu * (j0 * mu) + Tof TT) 0 || (Rleb (Tof TT) 0 && Rltb (j0 * mu) 0)) eqn:E2.
  { exfalso. apply Hb, Z2. reflexivity. }
  apply Z.eqb_neq in Hid. rewrite Hid, emid_tangent by lra. reflexivity.
Qed.

Lemma dm_pos D0 mu : 0 < D0 -> 0 < mu -> 0 < dm_of D0 mu.
Proof. intros. unfold dm_of. apply Rdiv_lt_0_compat; nra. Qed.

(* normal row of an elliptic contact (its own jaref is jaref0, its D is D0): force >= 0 in every zone *)
Lemma elliptic_normal_force_nonneg fl id j0 D0 mu uf TT :
  0 < D0 -> 0 < mu ->
  0 <= r_force (ec false false true j0 D0 fl id id j0 D0 mu uf TT).
Proof.
  intros HD Hmu.
  destruct (Rle_dec (mu * Tof TT) (j0*mu)) as [a|a];
    [rewrite elliptic_top_zero by (left; exact a); unfold r_force; simpl; lra|].
  pose proof (Tof_nonneg TT) as HT.
  destruct (Rle_dec (Tof TT) 0) as [b|b].
  - assert (Tof TT = 0) by lra.
    destruct (Rle_dec 0 (j0*mu)).
    + rewrite elliptic_top_zero by (right; lra). unfold r_force; simpl; lra.
    + rewrite elliptic_bottom_quadratic; [| unfold top_zone; lra | right; lra ].
      unfold r_force; simpl. nra.
  - destruct (Rle_dec (mu * (j0*mu) + Tof TT) 0).
    + rewrite elliptic_bottom_quadratic; [| unfold top_zone; lra | left; lra ].
      unfold r_force; simpl. nra.
    + rewrite elliptic_middle_normal; [| lra | unfold top_zone; lra | unfold bottom_zone; lra].
      unfold r_force; simpl. pose proof (dm_pos D0 mu HD Hmu).
      replace (- dm_of D0 mu * (j0 * mu - mu * Tof TT) * mu) with (dm_of D0 mu * (mu * Tof TT - j0 * mu) * mu) by ring.
      apply Rmult_le_pos; [apply Rmult_le_pos|]; lra.
Qed.

Lemma state_code_range ie ifr iel jaref D fl id id0 j0 D0 mu uf TT :
  let s := r_state (ec ie ifr iel jaref D fl id id0 j0 D0 mu uf TT) in
  s = 0 \/ s = 1 \/ s = 2 \/ s = 3 \/ s = 4.
Proof.
  unfold ec, _eval_constraint, r_state. sR.
  destruct ie; [simpl; lra|]. destruct ifr.
  - cmp_cases; simpl; lra.
  - destruct iel.
    + destruct (Rleb TT 0); cbv zeta;
      repeat match goal with |- context [if ?c then _ else _] => destruct c end; simpl; lra.
    + cmp_cases; simpl; lra.
Qed.

(* the state code tells which formula produced force and cost *)
Lemma state_matches_force ie ifr iel jaref D fl id id0 j0 D0 mu uf TT :
  let r := ec ie ifr iel jaref D fl id id0 j0 D0 mu uf TT in
  (r_state r = 0 -> r_force r = 0 /\ r_cost r = 0) /\
  (r_state r = 1 -> r_force r = - D * jaref /\ r_cost r = 1/2 * D * jaref * jaref) /\
  (r_state r = 2 -> ie = false /\ ifr = true /\ r_force r = fl) /\
  (r_state r = 3 -> ie = false /\ ifr = true /\ r_force r = - fl) /\
  (r_state r = 4 -> ie = false /\ ifr = false /\ iel = true /\
     r_force r = nth 0 (emid (j0 * mu) (Tof TT) D0 mu uf (Z.eqb id id0)) 0 /\
     r_cost r = nth 1 (emid (j0 * mu) (Tof TT) D0 mu uf (Z.eqb id id0)) 0).
Proof.
  cbv zeta.
  destruct ie; [rewrite ec_equality; unfold r_state, r_force, r_cost; simpl; repeat split; intros; try lra; try ring|].
  destruct ifr.
  - unfold ec, _eval_constraint, r_state, r_force, r_cost. sR.
    cmp_cases; simpl; repeat split; intros; try lra; try ring.
  - destruct iel.
    + rewrite ec_elliptic. cbv zeta. unfold r_state, r_force, r_cost.
      repeat match goal with |- context [if ?c then _ else _] => destruct c end; simpl;
      repeat split; intros; try lra; try ring.
    + rewrite ec_limit. unfold r_state, r_force, r_cost.
      cmp_cases; simpl; repeat split; intros; try lra; try ring.
Qed.

(* the same facts through the kernel's row classification (Model/SolverHand.v:kernel_row_simple) *)
Lemma kernel_row_contact_nonneg ne nf efcid jaref D fl :
  (0 <= nf)%Z -> (ne + nf <= efcid)%Z -> 0 < D ->
  0 <= r_force (@kernel_row_simple R ScalarR ne nf efcid jaref D fl).
Proof.
  intros Hnf He HD. unfold kernel_row_simple.
  replace (efcid <? ne)%Z with false by (symmetry; apply Z.ltb_ge; lia).
  replace (efcid <? ne + nf)%Z with false by (symmetry; apply Z.ltb_ge; lia).
  cbn [negb andb]. apply limit_contact_force_nonneg. exact HD.
Qed.

Lemma kernel_row_friction_bounded ne nf efcid jaref D fl :
  (ne <= efcid < ne + nf)%Z -> 0 < D -> 0 <= fl ->
  Rabs (r_force (@kernel_row_simple R ScalarR ne nf efcid jaref D fl)) <= fl.
Proof.
  intros He HD Hf. unfold kernel_row_simple.
  replace (efcid <? ne)%Z with false by (symmetry; apply Z.ltb_ge; lia).
  replace (efcid <? ne + nf)%Z with true by (symmetry; apply Z.ltb_lt; lia).
  cbn [negb andb]. apply frictionloss_bounded; assumption.
Qed.

Lemma kernel_row_equality ne nf efcid jaref D fl :
  (efcid < ne)%Z ->
  r_force (@kernel_row_simple R ScalarR ne nf efcid jaref D fl) = - D * jaref.
Proof.
  intros He. unfold kernel_row_simple.
  replace (efcid <? ne)%Z with true by (symmetry; apply Z.ltb_lt; lia).
  apply equality_force.
Qed.

(* ================= C06 ================= *)
(* the scalar cost / force of one non-elliptic row as functions of its jaref *)
Definition row_cost (ie ifr : bool) (D fl x : R) : R := r_cost (ec ie ifr false x D fl 0 0 0 0 0 0 0).
Definition row_force (ie ifr : bool) (D fl x : R) : R := r_force (ec ie ifr false x D fl 0 0 0 0 0 0 0).

(* the other parameters are not read by the non-elliptic kinds *)
Lemma row_irrelevant ie ifr x D fl id id0 j0 D0 mu uf TT :
  ec ie ifr false x D fl id id0 j0 D0 mu uf TT = ec ie ifr false x D fl 0 0 0 0 0 0 0.
Proof. unfold ec, _eval_constraint. destruct ie, ifr; reflexivity. Qed.

(* D-free normal form of the friction-loss row: cost = D * fc1 rf x, force = D * ff1 rf x, rf = fl / D *)
Definition fc1 (rf x : R) : R :=
  if Rleb x (- rf) then - rf * (1/2 * rf + x) else if Rleb rf x then - rf * (1/2 * rf - x) else 1/2 * x * x.
Definition ff1 (rf x : R) : R :=
  if Rleb x (- rf) then rf else if Rleb rf x then - rf else - x.

Lemma friction_scaled D fl x : 0 < D ->
  row_cost false true D fl x = D * fc1 (fl / D) x /\ row_force false true D fl x = D * ff1 (fl / D) x.
Proof.
  intros HD. unfold row_cost, row_force. rewrite ec_friction by lra. unfold fc1, ff1, r_cost, r_force.
  set (rf := fl / D). assert (Hrf : rf * D = fl) by (unfold rf; field; lra). clearbody rf. subst fl.
  cmp_cases; simpl; split; ring.
Qed.

Lemma fc1_bounds rf x h : 0 <= rf ->
  0 <= fc1 rf (x + h) - fc1 rf x + ff1 rf x * h <= 1/2 * h * h.
Proof. intros. unfold fc1, ff1. cmp_cases; split; nra. Qed.

Definition lc1 (x : R) : R := if Rleb 0 x then 0 else 1/2 * x * x.
Definition lf1 (x : R) : R := if Rleb 0 x then 0 else - x.
Lemma limit_scaled D fl x :
  row_cost false false D fl x = D * lc1 x /\ row_force false false D fl x = D * lf1 x.
Proof.
  unfold row_cost, row_force. rewrite ec_limit. unfold lc1, lf1, r_cost, r_force.
  cmp_cases; simpl; split; ring.
Qed.
Lemma lc1_bounds x h : 0 <= lc1 (x + h) - lc1 x + lf1 x * h <= 1/2 * h * h.
Proof. unfold lc1, lf1. cmp_cases; split; nra. Qed.

(* key inequality: 0 <= c(x+h) - c(x) + f(x) h <= D h^2 / 2
   left: first-order convexity (f = -c' is a subgradient); right: gradient is D-Lipschitz *)
Lemma row_quadratic_bounds ie ifr D fl x h :
  0 < D -> 0 <= fl ->
  0 <= row_cost ie ifr D fl (x + h) - row_cost ie ifr D fl x + row_force ie ifr D fl x * h <= 1/2 * D * h * h.
Proof.
  intros HD Hf.
  destruct ie.
  - unfold row_cost, row_force. rewrite !ec_equality. unfold r_cost, r_force; simpl. nra.
  - destruct ifr.
    + destruct (friction_scaled D fl x HD) as [-> ->].
      destruct (friction_scaled D fl (x + h) HD) as [-> _].
      assert (0 <= fl / D) by (apply Rmult_le_pos; [lra | left; apply Rinv_0_lt_compat; lra]).
      pose proof (fc1_bounds (fl / D) x h H) as B.
      set (P := fc1 (fl / D) (x + h) - fc1 (fl / D) x + ff1 (fl / D) x * h) in *.
      replace (D * fc1 (fl / D) (x + h) - D * fc1 (fl / D) x + D * ff1 (fl / D) x * h) with (D * P) by (unfold P; ring).
      split; nra.
    + destruct (limit_scaled D fl x) as [-> ->].
      destruct (limit_scaled D fl (x + h)) as [-> _].
      pose proof (lc1_bounds x h) as B.
      set (P := lc1 (x + h) - lc1 x + lf1 x * h) in *.
      replace (D * lc1 (x + h) - D * lc1 x + D * lf1 x * h) with (D * P) by (unfold P; ring).
      split; nra.
Qed.

Lemma cost_convex_rowwise ie ifr D fl x y :
  0 < D -> 0 <= fl ->
  row_cost ie ifr D fl x - row_force ie ifr D fl x * (y - x) <= row_cost ie ifr D fl y.
Proof.
  intros HD Hf. pose proof (row_quadratic_bounds ie ifr D fl x (y - x) HD Hf) as B.
  replace (x + (y - x)) with y in B by ring. lra.
Qed.

(* generic: a function with a first-order (sub)gradient inequality is convex *)
Lemma first_order_convex (c f : R -> R) :
  (forall x y, c x - f x * (y - x) <= c y) ->
  forall x y t, 0 <= t <= 1 -> c (t * x + (1 - t) * y) <= t * c x + (1 - t) * c y.
Proof.
  intros Hc x y t Ht. set (z := t * x + (1 - t) * y).
  pose proof (Hc z x) as A. pose proof (Hc z y) as B.
  assert (t * (c z - f z * (x - z)) + (1 - t) * (c z - f z * (y - z)) <= t * c x + (1 - t) * c y) by nra.
  replace (t * (c z - f z * (x - z)) + (1 - t) * (c z - f z * (y - z)))
    with (c z - f z * (t * x + (1 - t) * y - z)) in H by ring.
  unfold z in *. replace (t * x + (1 - t) * y - (t * x + (1 - t) * y)) with 0 in H by ring. lra.
Qed.

Lemma row_cost_convex ie ifr D fl x y t :
  0 < D -> 0 <= fl -> 0 <= t <= 1 ->
  row_cost ie ifr D fl (t * x + (1 - t) * y) <= t * row_cost ie ifr D fl x + (1 - t) * row_cost ie ifr D fl y.
Proof.
  intros HD Hf Ht. apply (first_order_convex (row_cost ie ifr D fl) (row_force ie ifr D fl)); [|exact Ht].
  intros. apply cost_convex_rowwise; assumption.
Qed.

(* generic: |g(x+h) - g(x) - l h| <= K h^2 for all h  ==>  g'(x) = l *)
Lemma deriv_from_quadratic_bound (g : R -> R) (x l K : R) :
  0 < K -> (forall h, Rabs (g (x + h) - g x - l * h) <= K * h * h) -> derivable_pt_lim g x l.
Proof.
  intros HK Hb eps Heps.
  assert (Hd : 0 < eps / K) by (apply Rdiv_lt_0_compat; lra).
  exists (mkposreal _ Hd). intros h Hh Hlt. simpl in Hlt.
  replace ((g (x + h) - g x) / h - l) with ((g (x + h) - g x - l * h) / h) by (field; exact Hh).
  unfold Rdiv. rewrite Rabs_mult, Rabs_inv.
  assert (Hah : 0 < Rabs h) by (apply Rabs_pos_lt; exact Hh).
  apply Rmult_lt_reg_r with (Rabs h); [exact Hah|].
  rewrite Rmult_assoc, Rinv_l, Rmult_1_r by lra.
  eapply Rle_lt_trans; [apply Hb|].
  replace (K * h * h) with (K * (Rabs h * Rabs h)).
  2:{ rewrite Rmult_assoc. f_equal. rewrite <- Rabs_mult. rewrite Rabs_pos_eq; nra. }
  assert (K * Rabs h < eps).
  { apply Rmult_lt_reg_r with (/ K); [apply Rinv_0_lt_compat; lra|].
    replace (K * Rabs h * / K) with (Rabs h) by (field; lra). exact Hlt. }
  nra.
Qed.

(* force = - d cost / d jaref, at EVERY jaref (zone boundaries included), for every non-elliptic row kind *)
Lemma force_is_minus_cost_derivative ie ifr D fl x :
  0 < D -> 0 <= fl ->
  derivable_pt_lim (row_cost ie ifr D fl) x (- row_force ie ifr D fl x).
Proof.
  intros HD Hf. apply deriv_from_quadratic_bound with (K := D); [exact HD|].
  intros h. pose proof (row_quadratic_bounds ie ifr D fl x h HD Hf) as B.
  apply Rabs_le. nra.
Qed.

(* C1: the force (minus the derivative) is continuous, indeed D-Lipschitz, across the zone boundaries *)
Lemma cost_C1 ie ifr D fl x y :
  0 < D -> 0 <= fl ->
  Rabs (row_force ie ifr D fl y - row_force ie ifr D fl x) <= D * Rabs (y - x).
Proof.
  intros HD Hf. unfold row_force.
  destruct ie.
  - rewrite !ec_equality. unfold r_force; simpl.
    replace (- D * y - - D * x) with (- D * (y - x)) by ring.
    rewrite Rabs_mult, Rabs_Ropp, (Rabs_pos_eq D) by lra. lra.
  - destruct ifr.
    + rewrite !ec_friction by lra. unfold r_force.
      set (rf := fl / D). assert (Hrf : rf * D = fl) by (unfold rf; field; lra).
      assert (0 <= rf) by (unfold rf; apply Rmult_le_pos; [lra | left; apply Rinv_0_lt_compat; lra]).
      clearbody rf. subst fl.
      cmp_cases; simpl; unfold Rabs; repeat destruct Rcase_abs; nra.
    + rewrite !ec_limit. unfold r_force.
      cmp_cases; simpl; unfold Rabs; repeat destruct Rcase_abs; nra.
Qed.

(* second derivative per zone = what the Hessian update uses: D on QUADRATIC rows, 0 otherwise *)
Lemma state_check_spec D s :
  @_state_check R ScalarR D s = if Z.eqb s 1 then D else 0.
Proof. unfold _state_check. sR. reflexivity. Qed.

(* the cost the line search evaluates for friction rows is the cost of _eval_constraint *)
Lemma frictionloss_cost_agrees D fl x :
  0 < D -> 0 <= fl ->
  @_eval_frictionloss_cost R ScalarR x fl (fl / D) D = row_cost false true D fl x.
Proof.
  intros HD Hf. unfold row_cost. rewrite ec_friction by lra. unfold _eval_frictionloss_cost, r_cost. sR.
  set (rf := fl / D). assert (Hrf : rf * D = fl) by (unfold rf; field; lra).
  assert (0 <= rf) by (unfold rf; apply Rmult_le_pos; [lra | left; apply Rinv_0_lt_compat; lra]).
  clearbody rf.
  cmp_cases; simpl; try nra; try (exfalso; nra).
Qed.

(* ================= C06: KKT certificate (abstract, finite-dimensional) ================= *)
(* finite sums / vectors as functions of an index < n *)
Fixpoint sumn (n : nat) (f : nat -> R) : R := match n with O => 0 | S k => sumn k f + f k end.

Lemma sumn_ext n f g : (forall i, (i < n)%nat -> f i = g i) -> sumn n f = sumn n g.
Proof. induction n; simpl; intros E; [reflexivity|]. rewrite IHn, E by (intros; auto with arith). reflexivity. Qed.
Lemma sumn_plus n f g : sumn n (fun i => f i + g i) = sumn n f + sumn n g.
Proof. induction n; simpl; [ring|]. rewrite IHn. ring. Qed.
Lemma sumn_scal n c f : sumn n (fun i => c * f i) = c * sumn n f.
Proof. induction n; simpl; [ring|]. rewrite IHn. ring. Qed.
Lemma sumn_le n f g : (forall i, (i < n)%nat -> f i <= g i) -> sumn n f <= sumn n g.
Proof. induction n; simpl; intros E; [lra|]. pose proof (IHn (fun i Hi => E i (Nat.lt_lt_succ_r _ _ Hi))). pose proof (E n (Nat.lt_succ_diag_r n)). lra. Qed.
Lemma sumn_swap n m (f : nat -> nat -> R) :
  sumn n (fun i => sumn m (fun r => f i r)) = sumn m (fun r => sumn n (fun i => f i r)).
Proof.
  induction n; simpl.
  - induction m; simpl; [reflexivity|]. rewrite <- IHm. ring.
  - rewrite IHn, <- sumn_plus. reflexivity.
Qed.

Definition dot (n : nat) (x y : nat -> R) : R := sumn n (fun i => x i * y i).
Definition mv (n : nat) (M : nat -> nat -> R) (x : nat -> R) : nat -> R := fun i => sumn n (fun j => M i j * x j).
Definition vsubf (x y : nat -> R) : nat -> R := fun i => x i - y i.

(* Gauss cost  1/2 (a-a0)' M (a-a0) + sum_r s_r (J_r . a - aref_r) *)
Definition gauss (n m : nat) (M J : nat -> nat -> R) (aref : nat -> R) (s : nat -> R -> R) (a0 a : nat -> R) : R :=
  1/2 * dot n (vsubf a a0) (mv n M (vsubf a a0)) + sumn m (fun r => s r (dot n (J r) a - aref r)).
(* J' f, accumulated row by row as the code does *)
Definition JTf (m : nat) (J : nat -> nat -> R) (f : nat -> R) : nat -> R := fun i => sumn m (fun r => J r i * f r).

Lemma dot_plus_r n x y z : dot n x (fun i => y i + z i) = dot n x y + dot n x z.
Proof. unfold dot. rewrite <- sumn_plus. apply sumn_ext. intros. ring. Qed.
Lemma mv_plus n M y z i : mv n M (fun j => y j + z j) i = mv n M y i + mv n M z i.
Proof. unfold mv. rewrite <- sumn_plus. apply sumn_ext. intros. ring. Qed.
Lemma dot_ext n x x' y y' : (forall i, (i < n)%nat -> x i = x' i) -> (forall i, (i < n)%nat -> y i = y' i) -> dot n x y = dot n x' y'.
Proof. intros A B. unfold dot. apply sumn_ext. intros. rewrite A, B by assumption. reflexivity. Qed.
Lemma dot_plus_l n x y z : dot n (fun i => x i + y i) z = dot n x z + dot n y z.
Proof. unfold dot. rewrite <- sumn_plus. apply sumn_ext. intros. ring. Qed.

Theorem kkt_certificate
  (n m : nat) (M J : nat -> nat -> R) (aref a0 : nat -> R) (s f : nat -> R -> R) (a : nat -> R) :
  (forall x y, dot n x (mv n M y) = dot n y (mv n M x)) ->               (* M symmetric *)
  (forall x, 0 <= dot n x (mv n M x)) ->                                  (* M positive semidefinite *)
  (forall r, (r < m)%nat -> forall x y, s r x - f r x * (y - x) <= s r y) -> (* each row cost convex, -f its derivative *)
  (forall i, (i < n)%nat ->
     mv n M (vsubf a a0) i = JTf m J (fun r => f r (dot n (J r) a - aref r)) i) ->  (* M (a - a0) = J' force(a) *)
  forall b, gauss n m M J aref s a0 a <= gauss n m M J aref s a0 b.
Proof.
  intros Hsym Hpsd Hconv Hstat b.
  set (d := vsubf b a). set (e := vsubf a a0).
  set (fr := fun r => f r (dot n (J r) a - aref r)).
  assert (Eb : forall i, vsubf b a0 i = e i + d i) by (intros; unfold e, d, vsubf; ring).
  unfold gauss. fold e.
  (* quadratic part *)
  assert (Q : dot n (vsubf b a0) (mv n M (vsubf b a0))
              = dot n e (mv n M e) + 2 * dot n d (mv n M e) + dot n d (mv n M d)).
  { rewrite (dot_ext n (vsubf b a0) (fun i => e i + d i) (mv n M (vsubf b a0)) (fun i => mv n M e i + mv n M d i)).
    2:{ intros; apply Eb. }
    2:{ intros. unfold mv. rewrite <- sumn_plus. apply sumn_ext. intros. rewrite Eb. ring. }
    rewrite dot_plus_l, !dot_plus_r. rewrite (Hsym e d). ring. }
  rewrite Q.
  (* stationarity tested against d *)
  assert (St : dot n d (mv n M e) = sumn m (fun r => fr r * dot n (J r) d)).
  { unfold dot at 1. rewrite (sumn_ext n _ (fun i => sumn m (fun r => d i * (J r i * fr r)))).
    2:{ intros i Hi. unfold e. rewrite Hstat by exact Hi. unfold JTf. rewrite <- sumn_scal. reflexivity. }
    rewrite sumn_swap. apply sumn_ext. intros r Hr. unfold dot. rewrite <- sumn_scal. apply sumn_ext. intros. ring. }
  (* row part *)
  assert (Rw : sumn m (fun r => s r (dot n (J r) a - aref r) - fr r * dot n (J r) d)
               <= sumn m (fun r => s r (dot n (J r) b - aref r))).
  { apply sumn_le. intros r Hr.
    pose proof (Hconv r Hr (dot n (J r) a - aref r) (dot n (J r) b - aref r)) as C.
    assert (dot n (J r) b = dot n (J r) a + dot n (J r) d).
    { rewrite <- dot_plus_r. apply dot_ext; intros; [reflexivity | unfold d, vsubf; ring]. }
    unfold fr. replace (dot n (J r) d) with (dot n (J r) b - aref r - (dot n (J r) a - aref r)) by lra. exact C. }
  rewrite (sumn_ext m _ (fun r => s r (dot n (J r) a - aref r) + (-1) * (fr r * dot n (J r) d))) in Rw by (intros; ring).
  rewrite sumn_plus, sumn_scal in Rw.
  pose proof (Hpsd d). lra.
Qed.

(* instance: every row is an equality / friction-loss / limit / frictionless or pyramidal contact row
   evaluated by the translated _eval_constraint (kinds given per row by the flags the kernel passes) *)
Theorem kkt_certificate_rows
  (n m : nat) (M J : nat -> nat -> R) (aref a0 : nat -> R)
  (ie ifr : nat -> bool) (D fl : nat -> R) (a : nat -> R) :
  (forall x y, dot n x (mv n M y) = dot n y (mv n M x)) ->
  (forall x, 0 <= dot n x (mv n M x)) ->
  (forall r, (r < m)%nat -> 0 < D r /\ 0 <= fl r) ->
  (forall i, (i < n)%nat ->
     mv n M (vsubf a a0) i
     = JTf m J (fun r => row_force (ie r) (ifr r) (D r) (fl r) (dot n (J r) a - aref r)) i) ->
  forall b,
    gauss n m M J aref (fun r => row_cost (ie r) (ifr r) (D r) (fl r)) a0 a
    <= gauss n m M J aref (fun r => row_cost (ie r) (ifr r) (D r) (fl r)) a0 b.
Proof.
  intros Hs Hp HD Hst b.
  apply (kkt_certificate n m M J aref a0 (fun r => row_cost (ie r) (ifr r) (D r) (fl r))
           (fun r => row_force (ie r) (ifr r) (D r) (fl r)) a Hs Hp); [|exact Hst].
  intros r Hr x y. destruct (HD r Hr). apply cost_convex_rowwise; assumption.
Qed.

(* ================= C24: assembled elliptic contact (kernel argument assembly of Model/SolverHand.v) ================= *)
Fixpoint sumsq (l : list R) : R := match l with nil => 0 | x :: r => x * x + sumsq r end.
Lemma sumsq_nonneg l : 0 <= sumsq l.
Proof. induction l; simpl; nra. Qed.

Notation row_j r := (fst (fst r)).
Notation row_f r := (snd (fst r)).

Lemma tt_acc_sum acc (rows : list (R*R*R)) :
  @tt_acc R ScalarR acc (map (fun r => fst (fst r)) rows) (map (fun r => snd (fst r)) rows)
  = acc + sumsq (map (fun r => row_j r * row_f r) rows).
Proof.
  revert acc. induction rows as [|[[j f] d] rows IH]; intros acc; simpl.
  - ring.
  - rewrite IH. sR. simpl. ring.
Qed.

Lemma block_TT_sum (rows : list (R*R*R)) :
  @block_TT R ScalarR (map (fun r => fst (fst r)) rows) (map (fun r => snd (fst r)) rows)
  = sumsq (map (fun r => row_j r * row_f r) rows).
Proof. unfold block_TT. rewrite tt_acc_sum. sR. ring. Qed.

(* tangential forces divided by their friction coefficients *)
Definition scaled_tangents (adr0 : Z) (j0 D0 mu : R) (jt fr : list R) (k : nat) (rows : list (R*R*R)) : list R :=
  map (fun p => r_force (fst p) / row_f (snd p))
      (combine (@block_tangents R ScalarR adr0 j0 D0 mu jt fr k rows) rows).

Lemma scaled_sumsq adr0 j0 D0 mu jt fr c rows :
  (forall k jk fk Dk, In (jk, fk, Dk) rows ->
     (r_force (@block_row_tangent R ScalarR adr0 j0 D0 mu jt fr k jk fk Dk) / fk) *
     (r_force (@block_row_tangent R ScalarR adr0 j0 D0 mu jt fr k jk fk Dk) / fk) = c * ((jk * fk) * (jk * fk))) ->
  forall k, sumsq (scaled_tangents adr0 j0 D0 mu jt fr k rows) = c * sumsq (map (fun r => row_j r * row_f r) rows).
Proof.
  induction rows as [|[[j f] d] rows IH]; intros Hk k; unfold scaled_tangents; simpl.
  - ring.
  - unfold scaled_tangents in IH. rewrite IH by (intros; apply Hk; right; assumption).
    cbn [fst snd]. rewrite (Hk k j f d) by (left; reflexivity). ring.
Qed.

Theorem elliptic_in_cone adr0 fri0 impr j0 D0 (rows : list (R*R*R)) :
  let mu := fri0 * impr in
  let jt := map (fun r => fst (fst r)) rows in
  let fr := map (fun r => snd (fst r)) rows in
  0 < D0 -> 0 < mu ->
  (forall jk fk Dk, In (jk, fk, Dk) rows -> 0 < fk /\ Dk * (mu * mu) = D0 * (fk * fk)) ->
  let fN := r_force (@block_row_normal R ScalarR adr0 j0 D0 mu jt fr) in
  0 <= fN /\ sumsq (scaled_tangents adr0 j0 D0 mu jt fr 0 rows) <= fN * fN.
Proof.
  intros mu jt fr HD Hmu Hrows fN.
  assert (HN : 0 <= fN).
  { unfold fN, block_row_normal. sR. apply (elliptic_normal_force_nonneg 0 adr0 j0 D0 mu 0); assumption. }
  split; [exact HN|].
  set (TT := @block_TT R ScalarR jt fr) in *.
  assert (ETT : TT = sumsq (map (fun r => row_j r * row_f r) rows)) by apply block_TT_sum.
  assert (HTT : 0 <= TT) by (rewrite ETT; apply sumsq_nonneg).
  pose proof (Tof_nonneg TT) as HT. pose proof (Tof_sqr TT HTT) as HT2.
  assert (Hid : forall k : nat, (adr0 + 1 + Z.of_nat k)%Z <> adr0) by (intros; lia).
  destruct (Rle_dec (mu * Tof TT) (j0 * mu)) as [a|a].
  { (* top zone (first disjunct) *)
    assert (Z : top_zone mu (j0 * mu) (Tof TT)) by (left; exact a).
    rewrite (scaled_sumsq adr0 j0 D0 mu jt fr 0).
    - unfold fN, block_row_normal. sR. fold TT. nra.
    - intros k jk fk Dk Hin. unfold block_row_tangent. sR. fold TT.
      rewrite elliptic_top_zero by exact Z. unfold r_force; simpl.
      destruct (Hrows jk fk Dk Hin). field. lra. }
  destruct (Rle_dec (Tof TT) 0) as [b|b].
  { assert (Tof TT = 0) by lra. assert (TT = 0) by nra.
    (* T = 0: every tangential force is 0 in both remaining zones *)
    rewrite (scaled_sumsq adr0 j0 D0 mu jt fr ((D0 / (mu*mu)) * (D0 / (mu*mu)))).
    - rewrite <- ETT, H0. nra.
    - intros k jk fk Dk Hin. destruct (Hrows jk fk Dk Hin) as [Hf HDk].
      unfold block_row_tangent. sR. fold TT.
      destruct (Rle_dec 0 (j0 * mu)).
      + exfalso. apply a. nra.
      + rewrite elliptic_bottom_quadratic; [| unfold top_zone; lra | right; lra].
        unfold r_force; simpl.
        assert (Dk = D0 * (fk * fk) / (mu * mu)) by (apply Rmult_eq_reg_r with (mu * mu); [rewrite HDk; field; lra | nra]).
        subst Dk. field. lra. }
  destruct (Rle_dec (mu * (j0 * mu) + Tof TT) 0) as [c|c].
  { (* bottom zone *)
    assert (Zt : ~ top_zone mu (j0 * mu) (Tof TT)) by (unfold top_zone; lra).
    assert (Zb : bottom_zone mu (j0 * mu) (Tof TT)) by (left; lra).
    rewrite (scaled_sumsq adr0 j0 D0 mu jt fr ((D0 / (mu*mu)) * (D0 / (mu*mu)))).
    - rewrite <- ETT. unfold fN, block_row_normal. sR. fold TT.
      rewrite elliptic_bottom_quadratic by assumption. unfold r_force; simpl.
      rewrite <- HT2.
      assert (Tof TT <= - (mu * mu) * j0) by lra.
      assert (Tof TT * Tof TT <= (mu * mu * j0) * (mu * mu * j0)) by nra.
      replace (- D0 * j0 * (- D0 * j0)) with (D0 / (mu * mu) * (D0 / (mu * mu)) * ((mu * mu * j0) * (mu * mu * j0))) by (field; lra).
      apply Rmult_le_compat_l; [|assumption]. apply Rle_0_sqr.
    - intros k jk fk Dk Hin. destruct (Hrows jk fk Dk Hin) as [Hf HDk].
      unfold block_row_tangent. sR. fold TT.
      rewrite elliptic_bottom_quadratic by assumption. unfold r_force; simpl.
      assert (Dk = D0 * (fk * fk) / (mu * mu)) by (apply Rmult_eq_reg_r with (mu * mu); [rewrite HDk; field; lra | nra]).
      subst Dk. field. lra. }
  (* middle zone: on the cone boundary *)
  assert (Zt : ~ top_zone mu (j0 * mu) (Tof TT)) by (unfold top_zone; lra).
  assert (Zb : ~ bottom_zone mu (j0 * mu) (Tof TT)) by (unfold bottom_zone; lra).
  set (F := - dm_of D0 mu * (j0 * mu - mu * Tof TT) * mu).
  rewrite (scaled_sumsq adr0 j0 D0 mu jt fr ((F / Tof TT) * (F / Tof TT))).
  - rewrite <- ETT. unfold fN, block_row_normal. sR. fold TT.
    rewrite elliptic_middle_normal by assumption. unfold r_force; simpl. fold F.
    rewrite <- HT2 at 3. right. field. lra.
  - intros k jk fk Dk Hin. destruct (Hrows jk fk Dk Hin) as [Hf HDk].
    unfold block_row_tangent. sR. fold TT.
    rewrite elliptic_middle_tangent by (try assumption; apply Hid). unfold r_force; simpl. fold F.
    field. lra.
Qed.

(* ================= C06: convexity of the elliptic contact block, KKT for mixed systems ================= *)
(* 2-D picture of the elliptic cost in (N, T), T >= 0:  s psi = 0 (top), (A^2+B^2)/2 (bottom), A^2/2 (middle)
   with A = N - mu T, B = mu N + T, s = 1 + mu^2 *)
Definition zone (mu N T : R) : nat :=   (* 0 top, 1 bottom, 2 middle, for T >= 0 *)
  if Rle_dec (mu * T) N then 0%nat else if Rle_dec (mu * N + T) 0 then 1%nat else 2%nat.
Definition psi (mu N T : R) : R :=
  match zone mu N T with 0%nat => 0 | 1%nat => 1/2 * (N * N + T * T) | _ => 1/2 * (N - mu * T) * (N - mu * T) / (1 + mu * mu) end.
Definition gN (mu N T : R) : R :=
  match zone mu N T with 0%nat => 0 | 1%nat => N | _ => (N - mu * T) / (1 + mu * mu) end.
Definition gT (mu N T : R) : R :=
  match zone mu N T with 0%nat => 0 | 1%nat => T | _ => - mu * (N - mu * T) / (1 + mu * mu) end.

Lemma gT_nonneg mu N T : 0 < mu -> 0 <= T -> 0 <= gT mu N T.
Proof.
  intros Hmu HT. unfold gT, zone. destruct (Rle_dec (mu * T) N); [lra|]. destruct (Rle_dec (mu * N + T) 0); [lra|].
  apply Rmult_le_pos; [nra | left; apply Rinv_0_lt_compat; nra].
Qed.

Lemma psi_convex mu Nx Tx Ny Ty : 0 < mu -> 0 <= Tx -> 0 <= Ty ->
  psi mu Nx Tx + gN mu Nx Tx * (Ny - Nx) + gT mu Nx Tx * (Ty - Tx) <= psi mu Ny Ty.
Proof.
  intros Hmu HTx HTy.
  set (s := 1 + mu * mu). assert (Hs : 0 < s) by (unfold s; nra).
  apply Rmult_le_reg_l with s; [exact Hs|].
  set (Ax := Nx - mu * Tx). set (Bx := mu * Nx + Tx). set (Ay := Ny - mu * Ty). set (By := mu * Ny + Ty).
  assert (Ex : s * (Nx * Nx + Tx * Tx) = Ax * Ax + Bx * Bx) by (unfold s, Ax, Bx; ring).
  assert (Ey : s * (Ny * Ny + Ty * Ty) = Ay * Ay + By * By) by (unfold s, Ay, By; ring).
  assert (Exy : s * (Nx * (Ny - Nx) + Tx * (Ty - Tx)) = Ax * (Ay - Ax) + Bx * (By - Bx)) by (unfold s, Ax, Bx, Ay, By; ring).
  unfold psi, gN, gT, zone. fold s.
  destruct (Rle_dec (mu * Tx) Nx) as [tx|tx]; destruct (Rle_dec (mu * Ty) Ny) as [ty|ty];
  try destruct (Rle_dec (mu * Nx + Tx) 0) as [bx|bx]; try destruct (Rle_dec (mu * Ny + Ty) 0) as [by_|by_].
  all: assert (HAx : Ax = Nx - mu * Tx) by reflexivity; assert (HBx : Bx = mu * Nx + Tx) by reflexivity;
       assert (HAy : Ay = Ny - mu * Ty) by reflexivity; assert (HBy : By = mu * Ny + Ty) by reflexivity.
  all: try (replace (s * (1 / 2 * (Ny - mu * Ty) * (Ny - mu * Ty) / s)) with (1/2 * Ay * Ay) by (unfold Ay; field; lra)).
  all: try (replace (s * (1 / 2 * (Ny * Ny + Ty * Ty))) with (1/2 * (Ay * Ay + By * By)) by lra).
  all: try (replace (s * (1 / 2 * (Nx * Nx + Tx * Tx) + Nx * (Ny - Nx) + Tx * (Ty - Tx)))
             with (1/2 * (Ax * Ax + Bx * Bx) + (Ax * (Ay - Ax) + Bx * (By - Bx))) by lra).
  all: try (replace (s * (1 / 2 * (Nx - mu * Tx) * (Nx - mu * Tx) / s + (Nx - mu * Tx) / s * (Ny - Nx) + - mu * (Nx - mu * Tx) / s * (Ty - Tx)))
             with (1/2 * Ax * Ax + Ax * (Ay - Ax)) by (unfold Ax, Ay; field; lra)).
  all: try (assert (0 <= By) by (rewrite HBy; nra)).
  all: try (assert (SAx : Ax < 0) by lra); try (assert (SAx' : 0 <= Ax) by lra);
       try (assert (SAy : Ay < 0) by lra); try (assert (SAy' : 0 <= Ay) by lra);
       try (assert (SBx : Bx <= 0) by lra); try (assert (SBx' : 0 < Bx) by lra);
       try (assert (SBy : By <= 0) by lra); try (assert (SBy' : 0 < By) by lra).
  all: clear Ex Ey Exy HAx HBx HAy HBy; clearbody Ax Bx Ay By.
  all: clear - SAx SAx' SAy SAy' SBx SBx' SBy SBy' || idtac.
  all: pose proof (Rle_0_sqr (Ax - Ay)) as Q1; pose proof (Rle_0_sqr (Bx - By)) as Q2; unfold Rsqr in Q1, Q2.
  all: nra.
Qed.
Fixpoint dotl (l : list (R * R)) : R := match l with nil => 0 | (u, v) :: r => u * v + dotl r end.

Lemma cauchy_schwarz_sq (l : list (R * R)) :
  dotl l * dotl l <= sumsq (map fst l) * sumsq (map snd l).
Proof.
  induction l as [|[u v] l IH]; simpl; [lra|].
  set (S := dotl l) in *. set (P := sumsq (map fst l)) in *. set (Q := sumsq (map snd l)) in *.
  assert (HP : 0 <= P) by apply sumsq_nonneg. assert (HQ : 0 <= Q) by apply sumsq_nonneg.
  clearbody S P Q.
  (* 2 S u v <= P v^2 + Q u^2  from S^2 <= P Q *)
  assert (K : 2 * S * (u * v) <= P * (v * v) + Q * (u * u)).
  { destruct (Rle_dec (2 * S * (u * v)) 0) as [a|a]; [nra|].
    assert (0 <= P * (v * v) + Q * (u * u)) by nra.
    apply Rsqr_incr_0_var; [|assumption]. unfold Rsqr.
    assert ((2 * S * (u * v)) * (2 * S * (u * v)) <= 4 * (P * Q) * (u * u * (v * v))).
    { replace (2 * S * (u * v) * (2 * S * (u * v))) with (4 * (S * S) * (u * u * (v * v))) by ring.
      apply Rmult_le_compat_r; [nra|]. nra. }
    assert (0 <= (P * (v * v) - Q * (u * u)) * (P * (v * v) - Q * (u * u))) by apply Rle_0_sqr.
    nra. }
  nra.
Qed.

Lemma cauchy_schwarz (l : list (R * R)) :
  dotl l <= sqrt (sumsq (map fst l)) * sqrt (sumsq (map snd l)).
Proof.
  pose proof (cauchy_schwarz_sq l) as H.
  rewrite <- sqrt_mult by apply sumsq_nonneg.
  destruct (Rle_dec (dotl l) 0) as [a|a].
  - eapply Rle_trans; [exact a | apply sqrt_pos].
  - rewrite <- (sqrt_Rsqr (dotl l)) by lra. apply sqrt_le_1_alt. exact H.
Qed.

(* ---------- the elliptic contact block: cost and forces through psi ---------- *)

Fixpoint tang_cost (adr0 : Z) (j0 D0 mu : R) (jt fr : list R) (k : nat) (rows : list (R*R*R)) : R :=
  match rows with
  | nil => 0
  | (jk, fk, Dk) :: r => r_cost (@block_row_tangent R ScalarR adr0 j0 D0 mu jt fr k jk fk Dk)
                         + tang_cost adr0 j0 D0 mu jt fr (S k) r
  end.
(* sum_k force_k * (jy_k - jk) *)
Fixpoint tang_lin (adr0 : Z) (j0 D0 mu : R) (jt fr : list R) (k : nat) (rows : list (R*R*R)) (jy : list R) : R :=
  match rows, jy with
  | (jk, fk, Dk) :: r, y :: ry =>
      r_force (@block_row_tangent R ScalarR adr0 j0 D0 mu jt fr k jk fk Dk) * (y - jk)
      + tang_lin adr0 j0 D0 mu jt fr (S k) r ry
  | _, _ => 0
  end.
(* (u_k, v_k) = (jk fk, jy_k fk) *)
Fixpoint uv_pairs (rows : list (R*R*R)) (jy : list R) : list (R * R) :=
  match rows, jy with
  | (jk, fk, Dk) :: r, y :: ry => (jk * fk, y * fk) :: uv_pairs r ry
  | _, _ => nil
  end.
Fixpoint rows_with (rows : list (R*R*R)) (jy : list R) : list (R*R*R) :=
  match rows, jy with
  | (jk, fk, Dk) :: r, y :: ry => (y, fk, Dk) :: rows_with r ry
  | _, _ => nil
  end.

Lemma tang_cost_form adr0 j0 D0 mu jt fr c rows :
  (forall k jk fk Dk, In (jk, fk, Dk) rows ->
     r_cost (@block_row_tangent R ScalarR adr0 j0 D0 mu jt fr k jk fk Dk) = c * ((jk * fk) * (jk * fk))) ->
  forall k, tang_cost adr0 j0 D0 mu jt fr k rows = c * sumsq (map (fun r => row_j r * row_f r) rows).
Proof.
  induction rows as [|[[j f] d] rows IH]; intros Hk k; simpl; [ring|].
  rewrite IH by (intros; apply Hk; right; assumption). rewrite (Hk k j f d) by (left; reflexivity). ring.
Qed.

Lemma tang_lin_form adr0 j0 D0 mu jt fr c rows :
  (forall k jk fk Dk, In (jk, fk, Dk) rows ->
     r_force (@block_row_tangent R ScalarR adr0 j0 D0 mu jt fr k jk fk Dk) = - c * ((jk * fk) * fk)) ->
  forall jy k, length jy = length rows ->
    tang_lin adr0 j0 D0 mu jt fr k rows jy
    = - c * (dotl (uv_pairs rows jy) - sumsq (map (fun r => row_j r * row_f r) rows)).
Proof.
  induction rows as [|[[j f] d] rows IH]; intros Hk jy k Hl; destruct jy as [|y jy]; simpl in *; try discriminate; [ring|].
  rewrite IH by (try (intros; apply Hk; right; assumption); lia).
  rewrite (Hk k j f d) by (left; reflexivity). ring.
Qed.

Lemma uv_fst rows jy : length jy = length rows ->
  map fst (uv_pairs rows jy) = map (fun r => row_j r * row_f r) rows.
Proof.
  revert jy. induction rows as [|[[j f] d] rows IH]; intros [|y jy] Hl; simpl in *; try discriminate; [reflexivity|].
  f_equal. apply IH. lia.
Qed.
Lemma uv_snd rows jy : length jy = length rows ->
  map snd (uv_pairs rows jy) = map (fun r => row_j r * row_f r) (rows_with rows jy).
Proof.
  revert jy. induction rows as [|[[j f] d] rows IH]; intros [|y jy] Hl; simpl in *; try discriminate; [reflexivity|].
  f_equal. apply IH. lia.
Qed.
Lemma rows_with_in rows jy jk fk Dk : In (jk, fk, Dk) (rows_with rows jy) -> exists j, In (j, fk, Dk) rows.
Proof.
  revert jy. induction rows as [|[[j f] d] rows IH]; intros [|y jy] H; simpl in *; try contradiction.
  destruct H as [H|H]; [inversion H; subst; eexists; left; reflexivity|].
  destruct (IH _ H) as [j' Hj]. exists j'. right. exact Hj.
Qed.

Definition block_cost (adr0 : Z) (j0 D0 mu : R) (rows : list (R*R*R)) : R :=
  let jt := map (fun r => fst (fst r)) rows in
  let fr := map (fun r => snd (fst r)) rows in
  r_cost (@block_row_normal R ScalarR adr0 j0 D0 mu jt fr) + tang_cost adr0 j0 D0 mu jt fr 0 rows.

(* zone of the code coincides with [zone] when T >= 0 *)
Lemma zone_top mu N T : 0 < mu -> 0 <= T -> (top_zone mu N T <-> zone mu N T = 0%nat).
Proof.
  intros Hmu HT. unfold top_zone, zone. destruct (Rle_dec (mu * T) N); split; intros; try reflexivity; try (left; assumption).
  - destruct H as [H|[H1 H2]]; [contradiction|]. exfalso. apply n. nra.
  - destruct (Rle_dec (mu * N + T) 0); discriminate.
Qed.
Lemma zone_bottom mu N T : 0 < mu -> 0 <= T -> ~ top_zone mu N T -> (bottom_zone mu N T <-> zone mu N T = 1%nat).
Proof.
  intros Hmu HT Ht. unfold bottom_zone, zone.
  destruct (Rle_dec (mu * T) N) as [a|a]; [exfalso; apply Ht; left; exact a|].
  destruct (Rle_dec (mu * N + T) 0); split; intros; try reflexivity; try (left; assumption); try discriminate.
  destruct H as [H|[H1 H2]]; [contradiction|]. exfalso. apply n. nra.
Qed.

Section Block.
Variables (adr0 : Z) (D0 mu : R).
Hypotheses (HD : 0 < D0) (Hmu : 0 < mu).
Let kap := D0 / (mu * mu).

Definition rows_ok (rows : list (R*R*R)) : Prop :=
  forall jk fk Dk, In (jk, fk, Dk) rows -> 0 < fk /\ Dk * (mu * mu) = D0 * (fk * fk).

(* closed forms of cost, normal force and the tangential linear term, in every zone *)
Lemma block_forms j0 rows :
  rows_ok rows ->
  let jt := map (fun r => fst (fst r)) rows in
  let fr := map (fun r => snd (fst r)) rows in
  let TT := sumsq (map (fun r => row_j r * row_f r) rows) in
  let N := j0 * mu in let T := sqrt TT in
  block_cost adr0 j0 D0 mu rows = kap * psi mu N T /\
  r_force (@block_row_normal R ScalarR adr0 j0 D0 mu jt fr) = - kap * mu * gN mu N T /\
  exists c, 0 <= c /\ c * T = kap * gT mu N T /\
    forall jy, length jy = length rows ->
      tang_lin adr0 j0 D0 mu jt fr 0 rows jy = - c * (dotl (uv_pairs rows jy) - TT).
Proof.
  intros Hrows jt fr TT N T.
  assert (ETT : @block_TT R ScalarR jt fr = TT) by apply block_TT_sum.
  assert (HTT : 0 <= TT) by apply sumsq_nonneg.
  assert (ET : Tof TT = T).
  { unfold Tof, T. destruct (Rleb TT 0) eqn:E; [|reflexivity]. apply Rleb_true in E.
    replace TT with 0 by lra. symmetry. apply sqrt_0. }
  assert (HT : 0 <= T) by apply sqrt_pos.
  assert (HT2 : T * T = TT) by (apply sqrt_sqrt; exact HTT).
  assert (Hid : forall k : nat, (adr0 + 1 + Z.of_nat k)%Z <> adr0) by (intros; lia).
  assert (Hk : 0 < kap) by (unfold kap; apply Rdiv_lt_0_compat; nra).
  assert (HDk : forall jk fk Dk, In (jk, fk, Dk) rows -> Dk = kap * (fk * fk)).
  { intros jk fk Dk Hin. destruct (Hrows jk fk Dk Hin) as [_ E]. unfold kap.
    apply Rmult_eq_reg_r with (mu * mu); [rewrite E; field; lra | nra]. }
  unfold block_cost. fold jt fr. unfold block_row_normal, block_row_tangent. sR. rewrite ETT.
  destruct (Nat.eq_dec (zone mu N T) 0) as [Z0|Z0].
  { (* top *)
    assert (Zt : top_zone mu (j0 * mu) (Tof TT)) by (rewrite ET; apply zone_top; assumption).
    rewrite elliptic_top_zero by exact Zt.
    rewrite (tang_cost_form adr0 j0 D0 mu jt fr 0).
    2:{ intros. unfold block_row_tangent. sR. rewrite ETT, elliptic_top_zero by exact Zt. unfold r_cost; simpl; ring. }
    unfold psi, gN, gT. rewrite Z0. unfold r_cost, r_force; simpl. repeat split; try ring.
    exists 0. repeat split; try lra.
    intros jy Hl. rewrite (tang_lin_form adr0 j0 D0 mu jt fr 0); [ring | | exact Hl].
    intros. unfold block_row_tangent. sR. rewrite ETT, elliptic_top_zero by exact Zt. unfold r_force; simpl; ring. }
  assert (Zt : ~ top_zone mu (j0 * mu) (Tof TT)) by (rewrite ET; intro H; apply Z0; apply zone_top; assumption).
  destruct (Nat.eq_dec (zone mu N T) 1) as [Z1|Z1].
  { (* bottom *)
    assert (Zb : bottom_zone mu (j0 * mu) (Tof TT)) by (rewrite ET; apply zone_bottom; try assumption; rewrite <- ET; exact Zt).
    rewrite elliptic_bottom_quadratic by assumption.
    rewrite (tang_cost_form adr0 j0 D0 mu jt fr (1/2 * kap)).
    2:{ intros k jk fk Dk Hin. unfold block_row_tangent. sR. rewrite ETT, elliptic_bottom_quadratic by assumption.
        unfold r_cost; simpl. rewrite (HDk jk fk Dk Hin). ring. }
    unfold psi, gN, gT. rewrite Z1. unfold r_cost, r_force; simpl. fold TT. rewrite <- HT2.
    repeat split.
    - unfold N, kap. field. lra.
    - unfold N, kap. field. lra.
    - exists kap. repeat split; try lra.
      intros jy Hl. rewrite (tang_lin_form adr0 j0 D0 mu jt fr kap); [fold TT; rewrite HT2; ring | | exact Hl].
      intros k jk fk Dk Hin. unfold block_row_tangent. sR. rewrite ETT, elliptic_bottom_quadratic by assumption.
      unfold r_force; simpl. rewrite (HDk jk fk Dk Hin). ring. }
  (* middle *)
  assert (Zb : ~ bottom_zone mu (j0 * mu) (Tof TT)).
  { rewrite ET. intro H. apply Z1. apply zone_bottom; try assumption. rewrite <- ET; exact Zt. }
  assert (Z2 : zone mu N T = 2%nat).
  { unfold zone in *. destruct (Rle_dec (mu * T) N); [contradiction Z0; reflexivity|].
    destruct (Rle_dec (mu * N + T) 0); [contradiction Z1; reflexivity | reflexivity]. }
  destruct (middle_zone_facts mu (j0 * mu) (Tof TT) (Tof_nonneg TT) Zt Zb) as (HTp & Hn & Hb).
  rewrite ET in HTp, Hn, Hb.
  rewrite elliptic_middle_normal by assumption. rewrite ET.
  rewrite (tang_cost_form adr0 j0 D0 mu jt fr 0).
  2:{ intros k jk fk Dk Hin. unfold block_row_tangent. sR. rewrite ETT, elliptic_middle_tangent by (try assumption; apply Hid).
      unfold r_cost; simpl; ring. }
  unfold psi, gN, gT. rewrite Z2. unfold r_cost, r_force; simpl. fold N.
  set (F := - dm_of D0 mu * (N - mu * T) * mu).
  assert (EF : F = kap * (- mu * (N - mu * T) / (1 + mu * mu))) by (unfold F, dm_of, kap; field; nra).
  repeat split.
  - rewrite Rmult_0_l, Rplus_0_r. unfold dm_of, kap. field. nra.
  - unfold F, dm_of, kap. field. nra.
  - exists (F / T). repeat split.
    + apply Rmult_le_pos; [| left; apply Rinv_0_lt_compat; exact HTp].
      rewrite EF. apply Rmult_le_pos; [lra|]. assert (HnN : N < mu * T) by exact Hn.
      apply Rmult_le_pos; [clear - HnN Hmu; nra | left; apply Rinv_0_lt_compat; nra].
    + rewrite <- EF. field. lra.
    + intros jy Hl. rewrite (tang_lin_form adr0 j0 D0 mu jt fr (F / T)); [fold TT; ring | | exact Hl].
      intros k jk fk Dk Hin. unfold block_row_tangent. sR. rewrite ETT, elliptic_middle_tangent by (try assumption; apply Hid).
      rewrite ET. unfold r_force; simpl. fold N F. field. lra.
Qed.

(* first-order convexity of the whole contact block: x = (j0, rows) and y = (j0', rows with the tangent jarefs jy) *)
Theorem elliptic_block_convex j0 j0' rows jy :
  rows_ok rows -> length jy = length rows ->
  let jt := map (fun r => fst (fst r)) rows in
  let fr := map (fun r => snd (fst r)) rows in
  block_cost adr0 j0 D0 mu rows
    - r_force (@block_row_normal R ScalarR adr0 j0 D0 mu jt fr) * (j0' - j0)
    - tang_lin adr0 j0 D0 mu jt fr 0 rows jy
  <= block_cost adr0 j0' D0 mu (rows_with rows jy).
Proof.
  intros Hrows Hl jt fr.
  assert (Hrows' : rows_ok (rows_with rows jy)).
  { intros jk fk Dk Hin. destruct (rows_with_in _ _ _ _ _ Hin) as [j Hj]. exact (Hrows j fk Dk Hj). }
  destruct (block_forms j0 rows Hrows) as (Cx & Fx & c & Hc & HcT & Lx). fold jt fr in Fx, Lx.
  destruct (block_forms j0' (rows_with rows jy) Hrows') as (Cy & _).
  rewrite Cx, Cy, Fx, (Lx jy Hl).
  set (TTx := sumsq (map (fun r => row_j r * row_f r) rows)) in *.
  set (TTy := sumsq (map (fun r => row_j r * row_f r) (rows_with rows jy))) in *.
  set (Tx := sqrt TTx) in *. set (Ty := sqrt TTy) in *.
  assert (HTx : 0 <= Tx) by apply sqrt_pos. assert (HTy : 0 <= Ty) by apply sqrt_pos.
  assert (HTx2 : Tx * Tx = TTx) by (apply sqrt_sqrt, sumsq_nonneg).
  pose proof (cauchy_schwarz (uv_pairs rows jy)) as CS. rewrite uv_fst, uv_snd in CS by exact Hl.
  fold TTx TTy Tx Ty in CS.
  pose proof (psi_convex mu (j0 * mu) Tx (j0' * mu) Ty Hmu HTx HTy) as PC.
  assert (Hk : 0 < kap) by (unfold kap; apply Rdiv_lt_0_compat; nra).
  set (uv := dotl (uv_pairs rows jy)) in *.
  (* c (uv - Tx^2) <= c Tx (Ty - Tx) = kap gT (Ty - Tx) *)
  assert (K1 : c * (uv - TTx) <= kap * gT mu (j0 * mu) Tx * (Ty - Tx)).
  { rewrite <- HcT, <- HTx2. nra. }
  nra.
Qed.
End Block.

(* KKT certificate for a constraint cost S of the whole jaref vector y (y_r = J_r . a - aref_r), not
   necessarily a sum of per-row functions: F y is the force vector, convexity in first-order form *)
Definition gaussS (n m : nat) (M J : nat -> nat -> R) (aref : nat -> R) (S : (nat -> R) -> R) (a0 a : nat -> R) : R :=
  1/2 * dot n (vsubf a a0) (mv n M (vsubf a a0)) + S (fun r => dot n (J r) a - aref r).

Theorem kkt_certificate_general
  (n m : nat) (M J : nat -> nat -> R) (aref a0 : nat -> R)
  (S : (nat -> R) -> R) (F : (nat -> R) -> nat -> R) (a : nat -> R) :
  (forall x y, dot n x (mv n M y) = dot n y (mv n M x)) ->
  (forall x, 0 <= dot n x (mv n M x)) ->
  (forall y y', S y - sumn m (fun r => F y r * (y' r - y r)) <= S y') ->
  (forall i, (i < n)%nat ->
     mv n M (vsubf a a0) i = JTf m J (F (fun r => dot n (J r) a - aref r)) i) ->
  forall b, gaussS n m M J aref S a0 a <= gaussS n m M J aref S a0 b.
Proof.
  intros Hsym Hpsd Hconv Hstat b.
  set (d := vsubf b a). set (e := vsubf a a0).
  set (ya := fun r => dot n (J r) a - aref r). set (yb := fun r => dot n (J r) b - aref r).
  set (fr := F ya).
  assert (Eb : forall i, vsubf b a0 i = e i + d i) by (intros; unfold e, d, vsubf; ring).
  unfold gaussS. fold e ya yb.
  assert (Q : dot n (vsubf b a0) (mv n M (vsubf b a0))
              = dot n e (mv n M e) + 2 * dot n d (mv n M e) + dot n d (mv n M d)).
  { rewrite (dot_ext n (vsubf b a0) (fun i => e i + d i) (mv n M (vsubf b a0)) (fun i => mv n M e i + mv n M d i)).
    2:{ intros; apply Eb. }
    2:{ intros. unfold mv. rewrite <- sumn_plus. apply sumn_ext. intros. rewrite Eb. ring. }
    rewrite dot_plus_l, !dot_plus_r. rewrite (Hsym e d). ring. }
  rewrite Q.
  assert (St : dot n d (mv n M e) = sumn m (fun r => fr r * dot n (J r) d)).
  { unfold dot at 1. rewrite (sumn_ext n _ (fun i => sumn m (fun r => d i * (J r i * fr r)))).
    2:{ intros i Hi. unfold e. rewrite Hstat by exact Hi. unfold JTf. rewrite <- sumn_scal. reflexivity. }
    rewrite sumn_swap. apply sumn_ext. intros r Hr. unfold dot. rewrite <- sumn_scal. apply sumn_ext. intros. ring. }
  pose proof (Hconv ya yb) as C.
  rewrite (sumn_ext m _ (fun r => fr r * dot n (J r) d)) in C.
  2:{ intros r Hr. unfold fr. f_equal. unfold ya, yb.
      assert (dot n (J r) b = dot n (J r) a + dot n (J r) d).
      { rewrite <- dot_plus_r. apply dot_ext; intros; [reflexivity | unfold d, vsubf; ring]. }
      lra. }
  pose proof (Hpsd d). lra.
Qed.

(* ---------- systems made of simple rows and elliptic contact blocks ---------- *)
Inductive term : Type :=
| TRow (r : nat) (ie ifr : bool) (D fl : R)            (* equality / friction / limit / pyramidal row r *)
| TBlock (p : nat) (D0 mu : R) (fD : list (R * R)).    (* elliptic contact: normal row p, tangent rows p+1.. with (friction, D) *)

Fixpoint rows_from (y : nat -> R) (q : nat) (fD : list (R * R)) : list (R * R * R) :=
  match fD with nil => nil | (f, D) :: r => (y q, f, D) :: rows_from y (S q) r end.

Fixpoint tforce (j0 D0 mu : R) (jt fr : list R) (k q : nat) (rows : list (R*R*R)) (r : nat) : R :=
  match rows with
  | nil => 0
  | (jk, fk, Dk) :: rest =>
      (if Nat.eqb r q then r_force (@block_row_tangent R ScalarR 0 j0 D0 mu jt fr k jk fk Dk) else 0)
      + tforce j0 D0 mu jt fr (S k) (S q) rest r
  end.

Definition term_cost (t : term) (y : nat -> R) : R :=
  match t with
  | TRow r ie ifr D fl => row_cost ie ifr D fl (y r)
  | TBlock p D0 mu fD => block_cost 0 (y p) D0 mu (rows_from y (S p) fD)
  end.
Definition term_force (t : term) (y : nat -> R) (r : nat) : R :=
  match t with
  | TRow r0 ie ifr D fl => if Nat.eqb r r0 then row_force ie ifr D fl (y r0) else 0
  | TBlock p D0 mu fD =>
      let rows := rows_from y (S p) fD in
      let jt := map (fun r => fst (fst r)) rows in
      let fr := map (fun r => snd (fst r)) rows in
      (if Nat.eqb r p then r_force (@block_row_normal R ScalarR 0 (y p) D0 mu jt fr) else 0)
      + tforce (y p) D0 mu jt fr 0 (S p) rows r
  end.
Definition term_ok (m : nat) (t : term) : Prop :=
  match t with
  | TRow r ie ifr D fl => (r < m)%nat /\ 0 < D /\ 0 <= fl
  | TBlock p D0 mu fD => (p + length fD < m)%nat /\ 0 < D0 /\ 0 < mu /\
                         forall f D, In (f, D) fD -> 0 < f /\ D * (mu * mu) = D0 * (f * f)
  end.

Lemma sumn_zero m g : (forall r, g r = 0) -> sumn m g = 0.
Proof. intros H. induction m; simpl; [reflexivity|]. rewrite IHm, H. ring. Qed.

Lemma sumn_single m r0 c g : (r0 < m)%nat ->
  sumn m (fun r => (if Nat.eqb r r0 then c else 0) * g r) = c * g r0.
Proof.
  induction m; intros H; [lia|]. simpl.
  destruct (Nat.eq_dec m r0) as [->|ne].
  - rewrite Nat.eqb_refl. rewrite (sumn_ext r0 _ (fun _ => 0)).
    + rewrite sumn_zero by reflexivity. ring.
    + intros i Hi. replace (Nat.eqb i r0) with false by (symmetry; apply Nat.eqb_neq; lia). ring.
  - rewrite IHm by lia. replace (Nat.eqb m r0) with false by (symmetry; apply Nat.eqb_neq; lia). ring.
Qed.

Lemma rows_with_from y y' q fD :
  rows_with (rows_from y q fD) (map y' (seq q (length fD))) = rows_from y' q fD.
Proof. revert q. induction fD as [|[f D] fD IH]; intros q; simpl; [reflexivity|]. rewrite IH. reflexivity. Qed.

Lemma rows_from_ok mu D0 y q fD :
  (forall f D, In (f, D) fD -> 0 < f /\ D * (mu * mu) = D0 * (f * f)) -> rows_ok D0 mu (rows_from y q fD).
Proof.
  revert q. induction fD as [|[f D] fD IH]; intros q H jk fk Dk Hin; simpl in Hin; [contradiction|].
  destruct Hin as [E|Hin]; [inversion E; subst; apply H; left; reflexivity|].
  apply (IH (S q)) with (jk := jk); [intros; apply H; right; assumption | exact Hin].
Qed.

Lemma tforce_sum m j0 D0 mu jt fr y y' fD : forall k q,
  (q + length fD <= m)%nat ->
  sumn m (fun r => tforce j0 D0 mu jt fr k q (rows_from y q fD) r * (y' r - y r))
  = tang_lin 0 j0 D0 mu jt fr k (rows_from y q fD) (map y' (seq q (length fD))).
Proof.
  induction fD as [|[f D] fD IH]; intros k q Hq; simpl.
  - apply sumn_zero. intros; ring.
  - simpl in Hq.
    rewrite (sumn_ext m _ (fun r =>
       (if Nat.eqb r q then r_force (@block_row_tangent R ScalarR 0 j0 D0 mu jt fr k (y q) f D) else 0) * (y' r - y r)
       + tforce j0 D0 mu jt fr (S k) (S q) (rows_from y (S q) fD) r * (y' r - y r))) by (intros; ring).
    rewrite sumn_plus, sumn_single by lia. rewrite IH by lia. reflexivity.
Qed.

Lemma term_convex m t y y' : term_ok m t ->
  term_cost t y - sumn m (fun r => term_force t y r * (y' r - y r)) <= term_cost t y'.
Proof.
  destruct t as [r ie ifr D fl | p D0 mu fD]; simpl; intros Hok.
  - destruct Hok as (Hr & HD & Hf). rewrite sumn_single by exact Hr.
    apply cost_convex_rowwise; assumption.
  - destruct Hok as (Hp & HD & Hmu & HfD).
    set (rows := rows_from y (S p) fD).
    set (jt := map (fun r => fst (fst r)) rows). set (fr := map (fun r => snd (fst r)) rows).
    rewrite (sumn_ext m _ (fun r =>
       (if Nat.eqb r p then r_force (@block_row_normal R ScalarR 0 (y p) D0 mu jt fr) else 0) * (y' r - y r)
       + tforce (y p) D0 mu jt fr 0 (S p) rows r * (y' r - y r))) by (intros; ring).
    rewrite sumn_plus, sumn_single by lia. unfold rows at 2. rewrite tforce_sum by lia. fold rows.
    assert (L : length (map y' (seq (S p) (length fD))) = length rows).
    { unfold rows. rewrite map_length, seq_length. clear. generalize (S p). induction fD as [|[f D] fD IH]; intros; simpl; [reflexivity | f_equal; apply IH]. }
    pose proof (elliptic_block_convex 0 D0 mu HD Hmu (y p) (y' p) rows (map y' (seq (S p) (length fD)))
                  (rows_from_ok mu D0 y (S p) fD HfD) L) as B.
    cbv zeta in B. fold jt fr in B.
    replace (rows_with rows (map y' (seq (S p) (length fD)))) with (rows_from y' (S p) fD) in B
      by (symmetry; apply rows_with_from).
    lra.
Qed.

Definition sys_cost (ts : list term) (y : nat -> R) : R := fold_right (fun t acc => term_cost t y + acc) 0 ts.
Definition sys_force (ts : list term) (y : nat -> R) (r : nat) : R := fold_right (fun t acc => term_force t y r + acc) 0 ts.

Lemma sys_convex m ts y y' : (forall t, In t ts -> term_ok m t) ->
  sys_cost ts y - sumn m (fun r => sys_force ts y r * (y' r - y r)) <= sys_cost ts y'.
Proof.
  induction ts as [|t ts IH]; intros Hok; simpl.
  - rewrite sumn_zero by (intros; ring). lra.
  - rewrite (sumn_ext m _ (fun r => term_force t y r * (y' r - y r) + sys_force ts y r * (y' r - y r))) by (intros; ring).
    rewrite sumn_plus.
    pose proof (term_convex m t y y' (Hok t (or_introl eq_refl))).
    pose proof (IH (fun t' H' => Hok t' (or_intror H'))). lra.
Qed.

(* KKT certificate for any system of simple rows and elliptic contact blocks evaluated by the
   translated _eval_constraint: stationarity implies global optimality of the Gauss cost *)
Theorem kkt_certificate_system
  (n m : nat) (M J : nat -> nat -> R) (aref a0 : nat -> R) (ts : list term) (a : nat -> R) :
  (forall x y, dot n x (mv n M y) = dot n y (mv n M x)) ->
  (forall x, 0 <= dot n x (mv n M x)) ->
  (forall t, In t ts -> term_ok m t) ->
  (forall i, (i < n)%nat ->
     mv n M (vsubf a a0) i = JTf m J (sys_force ts (fun r => dot n (J r) a - aref r)) i) ->
  forall b, gaussS n m M J aref (sys_cost ts) a0 a <= gaussS n m M J aref (sys_cost ts) a0 b.
Proof.
  intros Hs Hp Hok Hst. apply (kkt_certificate_general n m M J aref a0 (sys_cost ts) (sys_force ts) a Hs Hp); [|exact Hst].
  intros y y'. apply sys_convex. exact Hok.
Qed.

(* non-vacuity witnesses *)
Lemma Tof_1 : Tof 1 = 1.
Proof. unfold Tof. destruct (Rleb 1 0) eqn:E; [apply Rleb_true in E; lra | apply sqrt_1]. Qed.

Lemma zones_inhabited :
  top_zone 1 (2 * 1) (Tof 1) /\
  (~ top_zone 1 ((-2) * 1) (Tof 1) /\ bottom_zone 1 ((-2) * 1) (Tof 1)) /\
  (~ top_zone 1 (0 * 1) (Tof 1) /\ ~ bottom_zone 1 (0 * 1) (Tof 1)).
Proof. rewrite Tof_1. unfold top_zone, bottom_zone. repeat split; lra. Qed.

Lemma cone_hypotheses_satisfiable :
  let mu := (1/2) * 1 in
  0 < 2 /\ 0 < mu /\
  (forall jk fk Dk, In (jk, fk, Dk) [(1, 1/2, 2); (-3, 1/2, 2)] -> 0 < fk /\ Dk * (mu * mu) = 2 * (fk * fk)).
Proof.
  cbv zeta. repeat split; try lra.
  - destruct H as [H|[H|[]]]; inversion H; lra.
  - destruct H as [H|[H|[]]]; inversion H; lra.
Qed.

Lemma kkt_example :
  let M := fun _ _ : nat => 2 in let J := fun _ _ : nat => 1 in
  let a0 := fun _ : nat => -1 in let aref := fun _ : nat => 0 in let a := fun _ : nat => -2/5 in
  (forall x y, dot 1 x (mv 1 M y) = dot 1 y (mv 1 M x)) /\
  (forall x, 0 <= dot 1 x (mv 1 M x)) /\
  (forall i, (i < 1)%nat ->
     mv 1 M (vsubf a a0) i = JTf 1 J (fun r => row_force false false 3 0 (dot 1 (J r) a - aref r)) i).
Proof.
  cbv zeta. unfold dot, mv, JTf, vsubf. simpl. repeat split; intros.
  - ring.
  - nra.
  - unfold row_force. rewrite ec_limit. unfold r_force.
    destruct (Rleb 0 (0 + 1 * (-2 / 5) - 0)) eqn:E; [apply Rleb_true in E; lra | simpl; lra].
Qed.

Lemma system_example :
  let ts := [TRow 0 false false 3 0; TBlock 1 2 (1/2) [(1/2, 2); (1/2, 2)]] in
  forall t, In t ts -> term_ok 4 t.
Proof.
  cbv zeta. intros t [<-|[<-|[]]]; simpl.
  - repeat split; try lia; lra.
  - repeat split; try lia; try lra; destruct H as [H|[H|[]]]; inversion H; lra.
Qed.

(* ================= C06: elliptic middle zone, derivatives (Coquelicot auto_derive) ================= *)
From Coquelicot Require Import Coquelicot.
(* middle-zone cost of a contact block (it is stored on the normal row) as a function of jaref0 and TT *)
Definition cmid (D0 mu j0 TT : R) : R := nth 1 (emid (j0 * mu) (sqrt TT) D0 mu 0 true) 0.
Definition fmid_normal (D0 mu j0 TT : R) : R := nth 0 (emid (j0 * mu) (sqrt TT) D0 mu 0 true) 0.
Definition fmid_tangent (D0 mu j0 TT uf : R) : R := nth 0 (emid (j0 * mu) (sqrt TT) D0 mu uf false) 0.

Lemma elliptic_cost_deriv_normal D0 mu j0 TT : mu <> 0 ->
  derivable_pt_lim (fun x => cmid D0 mu x TT) j0 (- fmid_normal D0 mu j0 TT).
Proof.
  intros Hmu. apply is_derive_Reals. unfold cmid, fmid_normal.
  apply (is_derive_ext (fun x => 1/2 * dm_of D0 mu * (x * mu - mu * sqrt TT) * (x * mu - mu * sqrt TT))).
  { intros t. rewrite emid_normal by exact Hmu. reflexivity. }
  rewrite emid_normal by exact Hmu. simpl nth.
  auto_derive; [exact I | field].
Qed.

(* tangent row with friction coefficient fk: its jaref x enters TT = R + (x fk)^2 and ufrictionj = (x fk) fk *)
Lemma elliptic_cost_deriv_tangent D0 mu j0 R fk x : mu <> 0 ->
  0 < R + (x * fk) * (x * fk) ->
  derivable_pt_lim (fun x => cmid D0 mu j0 (R + (x * fk) * (x * fk))) x
    (- fmid_tangent D0 mu j0 (R + (x * fk) * (x * fk)) ((x * fk) * fk)).
Proof.
  intros Hmu HT. apply is_derive_Reals. unfold cmid, fmid_tangent.
  assert (HS : sqrt (R + x * fk * (x * fk)) <> 0) by (apply Rgt_not_eq, sqrt_lt_R0; exact HT).
  apply (is_derive_ext (fun x => 1/2 * dm_of D0 mu * (j0 * mu - mu * sqrt (R + (x * fk) * (x * fk))) * (j0 * mu - mu * sqrt (R + (x * fk) * (x * fk))))).
  { intros t. rewrite emid_normal by exact Hmu. reflexivity. }
  rewrite emid_tangent by assumption. simpl nth.
  auto_derive; [repeat split; exact HT | field; exact HS].
Qed.

(* gluing at the zone boundaries: values of cost and of every force agree *)
Lemma elliptic_C1_top D0 mu j0 TT uf : mu <> 0 -> sqrt TT <> 0 ->
  j0 * mu = mu * sqrt TT ->
  cmid D0 mu j0 TT = 0 /\ fmid_normal D0 mu j0 TT = 0 /\ fmid_tangent D0 mu j0 TT uf = 0.
Proof.
  intros Hmu HT Hb. unfold cmid, fmid_normal, fmid_tangent.
  rewrite emid_normal, emid_tangent by assumption. simpl nth. rewrite Hb.
  repeat split; try ring. field. exact HT.
Qed.

Lemma elliptic_C1_bottom D0 mu j0 TT jk fk Dk : 0 < mu -> 0 < TT ->
  mu * (j0 * mu) + sqrt TT = 0 -> Dk * (mu * mu) = D0 * (fk * fk) ->
  cmid D0 mu j0 TT = 1/2 * D0 * j0 * j0 + 1/2 * (D0 / (mu * mu)) * TT /\
  fmid_normal D0 mu j0 TT = - D0 * j0 /\
  fmid_tangent D0 mu j0 TT ((jk * fk) * fk) = - Dk * jk.
Proof.
  intros Hmu HTT Hb HD. unfold cmid, fmid_normal, fmid_tangent.
  assert (HT : 0 < sqrt TT) by (apply sqrt_lt_R0; exact HTT).
  rewrite emid_normal, emid_tangent by lra. simpl nth. unfold dm_of.
  assert (E : sqrt TT = - (mu * mu) * j0) by lra.
  assert (ETT : TT = (mu * mu * j0) * (mu * mu * j0)).
  { rewrite <- (sqrt_sqrt TT) at 1 by lra. rewrite E. ring. }
  assert (Dk = D0 * (fk * fk) / (mu * mu)) by (apply Rmult_eq_reg_r with (mu * mu); [rewrite HD; field; lra | nra]).
  assert (j0 <> 0) by (intro; subst j0; lra).
  repeat split.
  - rewrite E. rewrite ETT. field. nra.
  - rewrite E. field. nra.
  - subst Dk. rewrite E. field. repeat split; nra.
Qed.
