(* Proof/Flags.v -- lemmas for C32 (Model/Flags.v):
   soundness of the information-flow analysis [taint] and of [resolve] for the abstract footprint semantics
   of Model/Pipeline.v, and the vm_compute facts about the flag tables and the host program regenerated from
   /repo (Gen/Skel_flags.v, Gen/Skel_pipeline.v). *)
From Coq Require Import String List Bool Arith ZArith Lia.
From VF Require Import Model.Pipeline Gen.Skel_pipeline Model.PipelineFacts Proof.Pipeline.
From VF Require Import Gen.Skel_flags Model.Flags.
Import ListNotations.
Local Open Scope string_scope.
Local Open Scope list_scope.

(* ---- sets as lists ------------------------------------------------------------------------- *)
Lemma union_In : forall b a f, In f (union a b) <-> In f a \/ In f b.
Proof.
  unfold union. induction b as [|x b IH]; intros a f; simpl.
  - tauto.
  - rewrite IH. destruct (mem x a) eqn:E.
    + apply mem_In in E. split.
      * intros [H | H]; auto.
      * intros [H | [H | H]]; auto. subst. auto.
    + rewrite in_app_iff. simpl. tauto.
Qed.

Lemma dedup_In : forall l f, In f (dedup l) <-> In f l.
Proof.
  intros l f. change (dedup l) with (union nil l). rewrite union_In. simpl. tauto.
Qed.

Lemma inter_false : forall a b, inter a b = false -> forall x, In x a -> ~ In x b.
Proof.
  unfold inter. intros a b H x Ha Hb.
  assert (E : existsb (fun x => mem x b) a = true).
  { apply existsb_exists. exists x. split; [exact Ha | apply mem_In; exact Hb]. }
  rewrite E in H. discriminate.
Qed.

Lemma subset_In : forall a b, subset a b = true -> forall x, In x a -> In x b.
Proof.
  unfold subset. intros a b H x Hx. rewrite forallb_forall in H. apply mem_In. apply H. exact Hx.
Qed.

(* ---- the nested fixpoints are the list functions ------------------------------------------------ *)
Lemma go_taint : forall cs l T,
  (fix go (l : list event) (T : list string) {struct l} : list string :=
     match l with nil => T | x :: r => go r (taint_ev cs x T) end) l T = taint cs l T.
Proof. intros cs l. induction l as [|x l IH]; intro T; simpl; [reflexivity | apply IH]. Qed.

Lemma taint_ev_if : forall cs c t el T,
  taint_ev cs (EIf c t el) T =
  if cs c then union (union T (flat_map ev_writes t)) (flat_map ev_writes el)
  else union (taint cs t T) (taint cs el T).
Proof. intros. simpl. rewrite !go_taint. reflexivity. Qed.

Lemma taint_ev_group : forall cs f a b T, taint_ev cs (EGroup f a b) T = taint cs b T.
Proof. intros. simpl. rewrite go_taint. reflexivity. Qed.

Lemma go_resolve : forall pv l,
  (fix go (l : list event) {struct l} : list event :=
     match l with nil => nil | x :: r => resolve_ev pv x ++ go r end) l = resolve pv l.
Proof. intros pv l. induction l as [|x l IH]; simpl; [reflexivity | rewrite IH; reflexivity]. Qed.

Lemma resolve_ev_if : forall pv c t el,
  resolve_ev pv (EIf c t el) =
  match pv c with
  | Some true => resolve pv t
  | Some false => resolve pv el
  | None => [EIf c (resolve pv t) (resolve pv el)]
  end.
Proof. intros. simpl. rewrite !go_resolve. reflexivity. Qed.

Lemma resolve_ev_group : forall pv f a b,
  resolve_ev pv (EGroup f a b) = [EGroup f a (resolve pv b)].
Proof. intros. simpl. rewrite go_resolve. reflexivity. Qed.

Definition plain (e : event) : bool :=
  match e with EIf _ _ _ | EGroup _ _ _ | EAssign _ _ => false | _ => true end.
Lemma taint_ev_plain : forall cs e T, plain e = true ->
  taint_ev cs e T = if inter (ev_reads e) T || loop_has_cs cs e then union T (ev_writes e) else T.
Proof. intros cs e T H. destruct e; try discriminate; reflexivity. Qed.

Lemma taint_ev_assign : forall cs n x T,
  taint_ev cs (EAssign n x) T = if existsb (fun f => contains f x) T then union T [n] else T.
Proof. reflexivity. Qed.

(* ---- monotonicity of the analysis ------------------------------------------------------------ *)
Lemma taint_mono : forall cs,
  (forall e T, incl T (taint_ev cs e T)) /\ (forall l T, incl T (taint cs l T)).
Proof.
  intro cs.
  assert (HU : forall T W, incl T (union T W)).
  { intros T W f Hf. apply union_In. left. exact Hf. }
  assert (Hprim : forall T W (b : bool), incl T (if b then union T W else T)).
  { intros T W [|]; [apply HU | apply incl_refl]. }
  assert (A : forall e, forall T, incl T (taint_ev cs e T)).
  { apply (event_ind2 (fun e => forall T, incl T (taint_ev cs e T))
                      (fun l => forall T, incl T (taint cs l T))).
    - intro T. apply incl_refl.
    - intros e l He Hl T. simpl. eapply incl_tran; [apply He | apply Hl].
    - intros k fa i o T. rewrite taint_ev_plain by reflexivity. apply Hprim.
    - intros f T. rewrite taint_ev_plain by reflexivity. apply Hprim.
    - intros f x T. rewrite taint_ev_plain by reflexivity. apply Hprim.
    - intros d s T. rewrite taint_ev_plain by reflexivity. apply Hprim.
    - intros f a b Hb T. rewrite taint_ev_group. apply Hb.
    - intros f a T. rewrite taint_ev_plain by reflexivity. apply Hprim.
    - intros c t el Ht Hel T. rewrite taint_ev_if. destruct (cs c).
      + eapply incl_tran; [apply HU | apply HU].
      + eapply incl_tran; [apply Ht | apply HU].
    - intros h b _ T. rewrite taint_ev_plain by reflexivity. apply Hprim.
    - intros n x T. rewrite taint_ev_assign. apply Hprim.
    - intros t T. rewrite taint_ev_plain by reflexivity. apply Hprim.
    - intros t T. rewrite taint_ev_plain by reflexivity. apply Hprim. }
  split; [exact A|].
  induction l as [|e l IH]; intro T; simpl; [apply incl_refl|].
  eapply incl_tran; [apply A | apply IH].
Qed.

(* ---- soundness of the analysis ---------------------------------------------------------------- *)
Section TaintSound.
  Variable V : Type.
  Variable I : event -> store V -> store V.
  Variables v1 v2 : string -> bool.
  Variable cs : string -> bool.
  Hypothesis HR : respects V I.
  Hypothesis Hv : forall c, cs c = false -> v1 c = v2 c.

  Notation agree := (agree_out V).

  Lemma agree_weaken : forall T T' s s', incl T T' -> agree T s s' -> agree T' s s'.
  Proof. intros T T' s s' Hi H f Hf. apply H. intro Hin. apply Hf. apply Hi. exact Hin. Qed.

  Lemma sem_prim' : forall v e s, structural e = false -> sem V I v e s = I e s.
  Proof. intros v e s H. destruct e; try reflexivity; discriminate. Qed.

  (* a primitive event: either it reads no tainted field (then its writes agree), or all of its
     writes are added to the set *)
  Lemma prim_sound : forall e (b : bool), structural e = false ->
    forall T s s', agree T s s' ->
      agree (if inter (ev_reads e) T || b then union T (ev_writes e) else T)
            (sem V I v1 e s) (sem V I v2 e s').
  Proof.
    intros e b He T s s' HA f Hf.
    rewrite (sem_prim' v1 e s He), (sem_prim' v2 e s' He).
    destruct (HR e s s He (fun _ _ => eq_refl)) as [_ Fs].
    destruct (HR e s' s' He (fun _ _ => eq_refl)) as [_ Fs'].
    destruct (inter (ev_reads e) T || b) eqn:E.
    - assert (Hn : ~ In f T /\ ~ In f (ev_writes e)).
      { split; intro H; apply Hf; apply union_In; [left | right]; exact H. }
      destruct Hn as [HnT HnW]. rewrite (Fs f HnW), (Fs' f HnW). apply HA. exact HnT.
    - apply orb_false_iff in E. destruct E as [E _].
      assert (Hr : forall g, In g (ev_reads e) -> s g = s' g).
      { intros g Hg. apply HA. exact (inter_false _ _ E g Hg). }
      destruct (HR e s s' He Hr) as [Hw _].
      destruct (in_dec string_dec f (ev_writes e)) as [Hin | Hnin].
      + apply Hw. exact Hin.
      + rewrite (Fs f Hnin), (Fs' f Hnin). apply HA. exact Hf.
  Qed.

  Lemma assign_sound : forall n x T T' s s', incl T T' -> agree T s s' ->
    agree T' (sem V I v1 (EAssign n x) s) (sem V I v2 (EAssign n x) s').
  Proof.
    intros n x T T' s s' Hi HA f Hf. simpl.
    destruct (HR (EAssign n x) s s eq_refl (fun _ _ => eq_refl)) as [_ Fs].
    destruct (HR (EAssign n x) s' s' eq_refl (fun _ _ => eq_refl)) as [_ Fs'].
    rewrite (Fs f (fun H => H)), (Fs' f (fun H => H)).
    apply HA. intro H. apply Hf. apply Hi. exact H.
  Qed.

  Theorem taint_sound_all :
    (forall e T s s', agree T s s' -> agree (taint_ev cs e T) (sem V I v1 e s) (sem V I v2 e s')) /\
    (forall l T s s', agree T s s' -> agree (taint cs l T) (run V I v1 l s) (run V I v2 l s')).
  Proof.
    assert (A : forall e, forall T s s', agree T s s' ->
                  agree (taint_ev cs e T) (sem V I v1 e s) (sem V I v2 e s')).
    { apply (event_ind2
        (fun e => forall T s s', agree T s s' -> agree (taint_ev cs e T) (sem V I v1 e s) (sem V I v2 e s'))
        (fun l => forall T s s', agree T s s' -> agree (taint cs l T) (run V I v1 l s) (run V I v2 l s'))).
      - intros T s s' H. exact H.
      - intros e l He Hl T s s' H. simpl. apply Hl. apply He. exact H.
      - intros k fa i o T s s' H. rewrite taint_ev_plain by reflexivity. exact (prim_sound (ELaunch k fa i o) (loop_has_cs cs (ELaunch k fa i o)) eq_refl T s s' H).
      - intros f T s s' H. rewrite taint_ev_plain by reflexivity. exact (prim_sound (EZero f) (loop_has_cs cs (EZero f)) eq_refl T s s' H).
      - intros f x T s s' H. rewrite taint_ev_plain by reflexivity. exact (prim_sound (EFill f x) (loop_has_cs cs (EFill f x)) eq_refl T s s' H).
      - intros d0 s0 T s s' H. rewrite taint_ev_plain by reflexivity. exact (prim_sound (ECopy d0 s0) (loop_has_cs cs (ECopy d0 s0)) eq_refl T s s' H).
      - intros f a b Hb T s s' H. rewrite taint_ev_group. simpl sem.
        change (agree (taint cs b T) (run V I v1 b s) (run V I v2 b s')). apply Hb. exact H.
      - intros f a T s s' H. rewrite taint_ev_plain by reflexivity. exact (prim_sound (EExt f a) (loop_has_cs cs (EExt f a)) eq_refl T s s' H).
      - intros c t el Ht Hel T s s' H. rewrite taint_ev_if.
        change (sem V I v1 (EIf c t el) s) with (if v1 c then run V I v1 t s else run V I v1 el s).
        change (sem V I v2 (EIf c t el) s') with (if v2 c then run V I v2 t s' else run V I v2 el s').
        destruct (cs c) eqn:E.
        + intros f Hf.
          assert (Hn : ~ In f T /\ ~ In f (flat_map ev_writes t) /\ ~ In f (flat_map ev_writes el)).
          { repeat split; intro Hin; apply Hf; apply union_In.
            - left. apply union_In. left. exact Hin.
            - left. apply union_In. right. exact Hin.
            - right. exact Hin. }
          destruct Hn as [HnT [Hnt Hne]].
          destruct (run_footprint V I v1 HR t) as [Ft1 _]. destruct (run_footprint V I v1 HR el) as [Fe1 _].
          destruct (run_footprint V I v2 HR t) as [Ft2 _]. destruct (run_footprint V I v2 HR el) as [Fe2 _].
          destruct (v1 c), (v2 c);
            rewrite ?(Ft1 s f Hnt), ?(Fe1 s f Hne), ?(Ft2 s' f Hnt), ?(Fe2 s' f Hne); apply H; exact HnT.
        + rewrite <- (Hv c E). destruct (v1 c).
          * eapply agree_weaken; [| apply Ht; exact H]. intros f Hf. apply union_In. left. exact Hf.
          * eapply agree_weaken; [| apply Hel; exact H]. intros f Hf. apply union_In. right. exact Hf.
      - intros h b _ T s s' H. rewrite taint_ev_plain by reflexivity. exact (prim_sound (ELoop h b) (loop_has_cs cs (ELoop h b)) eq_refl T s s' H).
      - intros n x T s s' H. rewrite taint_ev_assign.
        destruct (existsb (fun f => contains f x) T).
        + apply (assign_sound n x T); [| exact H]. intros f Hf. apply union_In. left. exact Hf.
        + apply (assign_sound n x T); [apply incl_refl | exact H].
      - intros t T s s' H. rewrite taint_ev_plain by reflexivity. exact (prim_sound (ERaise t) (loop_has_cs cs (ERaise t)) eq_refl T s s' H).
      - intros t T s s' H. rewrite taint_ev_plain by reflexivity. exact (prim_sound (EOther t) (loop_has_cs cs (EOther t)) eq_refl T s s' H). }
    split; [exact A|].
    induction l as [|e l IH]; intros T s s' H; simpl; [exact H|].
    apply IH. apply A. exact H.
  Qed.

  Theorem taint_sound : forall l T s s', agree T s s' ->
    forall f, ~ In f (taint cs l T) -> run V I v1 l s f = run V I v2 l s' f.
  Proof. intros l T s s' H f Hf. exact (proj2 taint_sound_all l T s s' H f Hf). Qed.
End TaintSound.

(* ---- soundness of resolve ------------------------------------------------------------------------- *)
Section ResolveSound.
  Variable V : Type.
  Variable I : event -> store V -> store V.
  Variable v : string -> bool.
  Variable pv : pval.
  Hypothesis HC : consistent v pv.

  Lemma run_app' : forall a b s, run V I v (a ++ b) s = run V I v b (run V I v a s).
  Proof. induction a as [|x a IH]; intros; simpl; [reflexivity | apply IH]. Qed.

  Theorem resolve_sound_all :
    (forall e s, run V I v (resolve_ev pv e) s = sem V I v e s) /\
    (forall l s, run V I v (resolve pv l) s = run V I v l s).
  Proof.
    assert (A : forall e, forall s, run V I v (resolve_ev pv e) s = sem V I v e s).
    { apply (event_ind2 (fun e => forall s, run V I v (resolve_ev pv e) s = sem V I v e s)
                        (fun l => forall s, run V I v (resolve pv l) s = run V I v l s));
        try (intros; reflexivity).
      - intros e l He Hl s. simpl. rewrite run_app', He. apply Hl.
      - intros f a b Hb s. rewrite resolve_ev_group. simpl. apply Hb.
      - intros c t el Ht Hel s. rewrite resolve_ev_if.
        change (sem V I v (EIf c t el) s) with (if v c then run V I v t s else run V I v el s).
        destruct (pv c) as [[|]|] eqn:E.
        + rewrite (HC c true E). apply Ht.
        + rewrite (HC c false E). apply Hel.
        + change (run V I v [EIf c (resolve pv t) (resolve pv el)] s)
            with (if v c then run V I v (resolve pv t) s else run V I v (resolve pv el) s).
          destruct (v c); [apply Ht | apply Hel]. }
    split; [exact A|].
    induction l as [|e l IH]; intro s; simpl; [reflexivity|].
    rewrite run_app', A. apply IH.
  Qed.

  Theorem resolve_sound : forall l s, run V I v (resolve pv l) s = run V I v l s.
  Proof. exact (proj2 resolve_sound_all). Qed.
End ResolveSound.

(* ====================================================================================== *)
(* facts about the regenerated tables                                                        *)
(* ====================================================================================== *)
Lemma flag_table_ok_true : flag_table_ok = true.
Proof. vm_compute. reflexivity. Qed.

Lemma forallb_In : forall (A : Type) (p : A -> bool) (l : list A) x, forallb p l = true -> In x l -> p x = true.
Proof. intros A p l x H Hx. rewrite forallb_forall in H. apply H. exact Hx. Qed.

(* flag_table_complete: every bit of types.DisableBit / types.EnableBit has the value of the MuJoCo member it
   is defined as and is consumed somewhere (by the pipeline or by put_model); every bit of the MuJoCo
   binary's enums that MJWarp does not list is rejected by put_model's unsupported-bits loop. *)
Theorem flag_table_complete :
  (forall f, In f all_flags -> used f = true) /\
  (forall f, In f (map fst mujoco_bits) -> In f all_flags \/ rejected f = true) /\
  (forall f z, In (f, z) mjw_bits -> lookup f mujoco_bits = Some z) /\
  untested_flags = nil.
Proof.
  pose proof flag_table_ok_true as H. unfold flag_table_ok in H.
  destruct (andb_prop _ _ H) as [H1 Hrej]. destruct (andb_prop _ _ H1) as [Hval Hused].
  split; [| split; [| split]].
  - intros f Hf. exact (forallb_In _ _ _ f Hused Hf).
  - intros f Hf. destruct (mem f all_flags) eqn:E.
    + left. apply mem_In. exact E.
    + right. apply (forallb_In _ _ _ f Hrej). unfold unlisted_mujoco_bits. apply filter_In.
      split; [exact Hf | rewrite E; reflexivity].
  - intros f z Hin. unfold enum_values_ok in Hval.
    destruct (andb_prop _ _ Hval) as [Hv1 _]. destruct (andb_prop _ _ Hv1) as [Hv2 _].
    destruct (andb_prop _ _ Hv2) as [Hv3 _]. destruct (andb_prop _ _ Hv3) as [Hv4 _].
    pose proof (forallb_In _ _ _ (f, z) Hv4 Hin) as E. cbv beta in E. simpl fst in E. simpl snd in E.
    destruct (lookup f mujoco_bits) as [v|]; [| discriminate].
    apply Z.eqb_eq in E. subst. reflexivity.
  - vm_compute. reflexivity.
Qed.

(* the only flags consumed solely at model construction; the MuJoCo bits MJWarp does not list *)
Lemma flag_table_lists :
  put_model_only_flags = ["DisableBit.FILTERPARENT"] /\
  unlisted_mujoco_bits = ["DisableBit.MIDPHASE"; "DisableBit.AUTORESET"; "EnableBit.OVERRIDE";
                          "EnableBit.FWDINV"; "EnableBit.DIAGEXACT"].
Proof. vm_compute. split; reflexivity. Qed.

(* tests that cannot depend on a bit they mention: none beyond the committed list *)
Lemma constant_tests_known_only :
  forallb (fun q => pair_mem q constant_tests_known) constant_tests = true.
Proof. vm_compute. reflexivity. Qed.

(* "sleeping is enabled": since /repo 783455b every function that chooses the sleep code path, allocates for it
   or consumes its arrays tests SLEEP-and-not-ISLAND; the only direct tests of SLEEP alone are in the committed
   list sleep_only_harmless (Model/Flags.v says why each is harmless).  Before the repair solver.solve tested
   SLEEP alone and the real step crashed with SLEEP enabled and ISLAND disabled (finding
   C32:solver.solve:sleep-enabled-island-disabled-crash, kept as a regression case in bin/props/C32.py). *)
Lemma sleep_guard_ok_true : sleep_guard_ok = true.
Proof. vm_compute. reflexivity. Qed.

Theorem sleep_guard_consistent :
  (forall q, In q sleep_guard_sites -> In "DisableBit.ISLAND" (snd q) \/ In (fst q) sleep_only_harmless) /\
  (forall f, In f sleep_must_test_island -> In f sleep_sites_with_island /\ ~ In f sleep_sites_without_island) /\
  (forall f, In f sleep_sites_without_island <-> In f sleep_only_harmless).
Proof.
  pose proof sleep_guard_ok_true as H. unfold sleep_guard_ok in H.
  destruct (andb_prop _ _ H) as [H1 H3]. destruct (andb_prop _ _ H1) as [Ha Hb].
  assert (A : forall q, In q sleep_guard_sites -> In "DisableBit.ISLAND" (snd q) \/ In (fst q) sleep_only_harmless).
  { intros q Hq. pose proof (forallb_In _ _ _ q Ha Hq) as E. cbv beta in E.
    apply orb_true_iff in E. destruct E as [E | E]; [left | right]; apply mem_In; exact E. }
  split; [exact A | split].
  - intros f Hf. pose proof (forallb_In _ _ _ f Hb Hf) as E. cbv beta in E.
    destruct (andb_prop _ _ E) as [E1 E2]. split; [apply mem_In; exact E1|].
    apply mem_false_notIn. apply negb_true_iff. exact E2.
  - intro f. split.
    + intro Hf. unfold sleep_sites_without_island in Hf. apply (proj1 (dedup_In _ _)) in Hf.
      apply in_map_iff in Hf. destruct Hf as [q [Eq Hq]]. apply filter_In in Hq. destruct Hq as [Hq Hn].
      destruct (A q Hq) as [Hi | Hh]; [| rewrite <- Eq; exact Hh].
      apply mem_In in Hi. rewrite Hi in Hn. discriminate Hn.
    + intro Hf. apply mem_In. exact (forallb_In _ _ _ f H3 Hf).
Qed.

(* the bits each host guard mentions are the committed ones; the integrator guards have the committed
   meaning and forward.implicit's guard mentions every bit derivative.deriv_smooth_vel's host tests mention *)
Lemma guard_bits_ok_true : guard_bits_ok = true.
Proof. vm_compute. reflexivity. Qed.

Theorem guard_bits_committed :
  (forall q, In q guard_bits -> gb_mem q guard_bits_expected = true) /\
  (forall q, In q guard_bits_expected -> gb_mem q guard_bits = true).
Proof.
  pose proof guard_bits_ok_true as H. unfold guard_bits_ok in H. destruct (andb_prop _ _ H) as [H1 H2].
  split; intros q Hq; [exact (forallb_In _ _ _ q H1 Hq) | exact (forallb_In _ _ _ q H2 Hq)].
Qed.

Lemma integrator_guards_ok : implicit_guard_ok = true /\ euler_guard_ok = true.
Proof. split; vm_compute; reflexivity. Qed.

(* ====================================================================================== *)
(* facts about the regenerated host program                                                  *)
(* ====================================================================================== *)
Lemma flags_wellformed_true : flags_wellformed = true.
Proof. vm_compute. reflexivity. Qed.

Lemma flag_checks_true : forallb flag_check step_flags = true.
Proof. vm_compute. reflexivity. Qed.

Lemma flag_check_of : forall flag, In flag step_flags -> flag_check flag = true.
Proof. intros flag H. exact (forallb_In _ _ _ flag flag_checks_true H). Qed.

(* the S-fact in its literal form: flattening step() with the bit's conditions decided (bit set / bit clear)
   gives exactly the flattening with those conditions left undecided, with each decided EIf node replaced
   by the chosen branch -- the two event sequences are identical outside the EIf nodes guarded by the bit *)
Lemma and5 : forall a b c d e : bool, a && b && c && d && e = true ->
  b = true /\ c = true /\ d = true /\ e = true.
Proof. intros [|] [|] [|] [|] [|] H; try discriminate H; repeat split. Qed.

(* kernel conversion must unfold flag_check (one delta step) rather than evaluate its parts on a variable *)
#[local] Strategy expand [flag_check fc_on fc_off fc_dec fc_base fc_ok].
Lemma flag_check_parts : forall flag, flag_check flag = true ->
  fc_on flag = true /\ fc_off flag = true /\ fc_dec flag = true /\ fc_base flag = true.
Proof. intros flag H. exact (and5 (fc_ok flag) (fc_on flag) (fc_off flag) (fc_dec flag) (fc_base flag) H). Qed.

Theorem flag_events_differ_only_in_guarded_regions : forall flag, In flag step_flags ->
  ev_on flag = resolve (pv_bit flag true) L_of /\
  ev_off flag = resolve (pv_bit flag false) L_of /\
  (forall c b, In (c, b) (decisions_outside_loops flag true ++ decisions_outside_loops flag false) ->
     cs_of flag c = true).
Proof.
  intros flag Hin. destruct (flag_check_parts flag (flag_check_of flag Hin)) as [Hon [Hoff [Hd _]]].
  unfold fc_on in Hon. unfold fc_off in Hoff. unfold fc_dec in Hd.
  split; [| split].
  - apply events_eqb_eq. exact Hon.
  - apply events_eqb_eq. exact Hoff.
  - intros c b Hc. unfold cs_of. apply mem_In. apply (subset_In _ _ Hd).
    apply in_map_iff. exists (c, b). split; [reflexivity | exact Hc].
Qed.

(* non-interference: two runs of the (refined) step whose flag words differ in the ONE bit -- every
   condition that does not depend on the bit has the same value, the initial stores agree outside the
   names that carry the bit -- agree after the step on every field outside [tainted flag] *)
Theorem flag_noninterference : forall flag, In flag step_flags ->
  forall (V : Type) (I : event -> store V -> store V) (v1 v2 : string -> bool),
    respects V I ->
    consistent v1 (pv_bit flag true) -> consistent v2 (pv_bit flag false) ->
    (forall c, cs_of flag c = false -> v1 c = v2 c) ->
    forall s s', agree_out V (T0 flag L_of) s s' ->
    forall f, ~ In f (tainted flag) ->
      run V I v1 (ev_on flag) s f = run V I v2 (ev_off flag) s' f.
Proof.
  intros flag Hin V I v1 v2 HR C1 C2 Hv s s' HA f Hf.
  destruct (flag_events_differ_only_in_guarded_regions flag Hin) as [E1 [E2 _]].
  rewrite E1, E2.
  rewrite (resolve_sound V I v1 _ C1), (resolve_sound V I v2 _ C2).
  apply (taint_sound V I v1 v2 (cs_of flag) HR Hv L_of (T0 flag L_of) s s' HA).
  intro H. apply Hf. unfold tainted. apply dedup_In. exact H.
Qed.

(* the committed baseline: the watched fields outside each flag's own stage and its downstream *)
Theorem flag_gates_only_own_stage : forall flag, In flag step_flags ->
  forall (V : Type) (I : event -> store V -> store V) (v1 v2 : string -> bool),
    respects V I ->
    consistent v1 (pv_bit flag true) -> consistent v2 (pv_bit flag false) ->
    (forall c, cs_of flag c = false -> v1 c = v2 c) ->
    forall s s', agree_out V (T0 flag L_of) s s' ->
    forall f, In f (unaffected flag) ->
      run V I v1 (ev_on flag) s f = run V I v2 (ev_off flag) s' f.
Proof.
  intros flag Hin V I v1 v2 HR C1 C2 Hv s s' HA f Hf.
  apply (flag_noninterference flag Hin V I v1 v2 HR C1 C2 Hv s s' HA).
  destruct (flag_check_parts flag (flag_check_of flag Hin)) as [_ [_ [_ Hb]]].
  unfold fc_base in Hb. exact (inter_nil_spec _ _ Hb f Hf).
Qed.

(* ---- the hypotheses are satisfiable -------------------------------------------------------------- *)
Definition v_of (pv : pval) : string -> bool := fun c => match pv c with Some b => b | None => false end.

Lemma consistent_v_of : forall pv, consistent (v_of pv) pv.
Proof. intros pv c b H. unfold v_of. rewrite H. reflexivity. Qed.

Lemma find_app : forall (A : Type) (p : A -> bool) (a b : list A),
  find p (a ++ b) = match find p a with Some x => Some x | None => find p b end.
Proof. intros A p a b. induction a as [|x a IH]; simpl; [reflexivity|]. destruct (p x); [reflexivity | exact IH]. Qed.

Lemma find_none_keys : forall (l : list (string * bool)) c,
  ~ In c (map fst l) -> find (fun q => String.eqb (fst q) c) l = None.
Proof.
  induction l as [|q l IH]; intros c H; simpl; [reflexivity|].
  destruct (String.eqb (fst q) c) eqn:E.
  - apply String.eqb_eq in E. exfalso. apply H. left. exact E.
  - apply IH. intro Hin. apply H. right. exact Hin.
Qed.

Example flag_valuations_exist : forall flag, In flag step_flags ->
  exists v1 v2, consistent v1 (pv_bit flag true) /\ consistent v2 (pv_bit flag false) /\
                (forall c, cs_of flag c = false -> v1 c = v2 c).
Proof.
  intros flag Hin. exists (v_of (pv_bit flag true)), (v_of (pv_bit flag false)).
  split; [apply consistent_v_of | split; [apply consistent_v_of |]].
  intros c Hc. destruct (flag_events_differ_only_in_guarded_regions flag Hin) as [_ [_ Hd]].
  assert (N : forall b, ~ In c (map fst (decisions_outside_loops flag b))).
  { intros b H. apply in_map_iff in H. destruct H as [[c' b'] [E H]]. simpl in E. subst c'.
    assert (X : cs_of flag c = true).
    { apply (Hd c b'). apply in_or_app. destruct b; [left | right]; exact H. }
    rewrite X in Hc. discriminate. }
  unfold v_of, pv_bit, pv_list. rewrite !find_app.
  rewrite (find_none_keys _ c (N true)), (find_none_keys _ c (N false)). reflexivity.
Qed.

Example agree_out_refl : forall V T (s : store V), agree_out V T s s.
Proof. intros V T s f _. reflexivity. Qed.
