(* Proof/Deriv.v -- lemmas for C27 "Velocity derivatives are correct".

   Over the reals (Coquelicot is_derive), about
     * the MACHINE-TRANSLATED functions util_misc._poly_force / _poly_force_deriv / poly_potential
       (Gen/T_util_misc.v) and the copies inside the kernel files (identical definitions),
     * the translated kernels forward._compute_damping_deriv, forward._euler_damp_qfrc (Gen/kforward.v),
       derivative._qderiv_actuator_passive, derivative.deriv_rne_body2jnt_sparse (Gen/T_derivative.v),
       passive._spring_damper_dof_passive (Gen/T_passive.v),
     * the hand models of derivative._qderiv_actuator_passive_vel and forward._actuator_force
       (Model/Deriv.v; tied to the real kernels by the correspondence run of bin/props/C27.py).
   Not covered here (oracle only, bin/props/C27.py): the RNE forward/backward passes, the fluid
   derivative kernels, the tendon-damping kernel, float32 rounding. *)
From Coq Require Import ZArith Reals List Bool Lra Lia String.
Set Warnings "-ambiguous-paths".
From Coquelicot Require Import Coquelicot.
From VF Require Import Base.Scalar Base.ScalarR Base.Vec Base.Loop Base.Kernel Base.KernelRd.
From VF Require Gen.T_util_misc Gen.T_derivative Gen.T_passive Gen.kforward Gen.support_act.
From VF Require Import Model.Deriv.
Import ListNotations.
Local Open Scope R_scope.

Ltac rring := match goal with |- @eq _ ?a ?b => change (@eq R a b) end; (ring || field).
Ltac ad := auto_derive; [ repeat split; auto | rring ].

Module U := VF.Gen.T_util_misc.
Module KF := VF.Gen.kforward.
Module TD := VF.Gen.T_derivative.
Module TP := VF.Gen.T_passive.

(* ===== 1. polynomial stiffness / damping ===== *)
(* ---------- x |x| is differentiable everywhere, derivative 2|x| ---------- *)
Lemma is_derive_x_abs (x : R) : is_derive (fun x => x * Rabs x) x (2 * Rabs x).
Proof.
  destruct (Rlt_dec 0 x) as [Hp|Hn].
  - apply (is_derive_ext_loc (fun x => x * x)).
    + exists (mkposreal x Hp). intros y Hy. unfold ball in Hy; simpl in Hy. unfold AbsRing_ball, abs, minus, plus, opp in Hy; simpl in Hy.
      apply Rabs_def2 in Hy. rewrite (Rabs_pos_eq y); lra.
    + rewrite (Rabs_pos_eq x) by lra. auto_derive; auto; lra.
  - destruct (Rlt_dec x 0) as [Hm|Hz].
    + assert (Hp : 0 < - x) by lra.
      apply (is_derive_ext_loc (fun x => x * - x)).
      * exists (mkposreal (-x) Hp). intros y Hy. unfold ball in Hy; simpl in Hy. unfold AbsRing_ball, abs, minus, plus, opp in Hy; simpl in Hy.
        apply Rabs_def2 in Hy. rewrite (Rabs_left y); lra.
      * rewrite (Rabs_left x) by lra. auto_derive; auto; lra.
    + assert (x = 0) by lra. subst x. rewrite Rabs_R0. replace (2*0) with 0 by lra.
      split. apply is_linear_scal_l.
      intros y Hy eps.
      pose proof (is_filter_lim_locally_unique _ _ Hy) as E. subst y.
      exists eps. intros y Hy2. unfold ball in Hy2; simpl in Hy2. unfold AbsRing_ball, abs, minus, plus, opp, scal, mult in *; simpl in *.
      unfold norm; simpl. unfold abs; simpl. unfold mult; simpl.
      replace (y * Rabs y + - (0 * Rabs 0) + - ((y + - 0) * 0)) with (y * Rabs y) by (rewrite Rabs_R0; ring).
      replace (y + - 0) with y in * by rring.
      rewrite Rabs_mult, Rabs_Rabsolu.
      apply Rmult_le_compat_r. apply Rabs_pos. lra.
Qed.

Lemma Rabs_sq (y : R) : Rabs y * Rabs y = y * y.
Proof. rewrite <- Rabs_mult. apply Rabs_pos_eq. nra. Qed.

(* ---------- the polynomial coefficient ---------- *)
Definition xval (x : R) (flg : Z) : R := if Z.eqb flg 1 then Rabs x else x.

Lemma poly_force_is_coefficient (k : R) (poly : list R) (x : R) (flg : Z) :
  U._poly_force k poly x flg = k + vget poly 0 * xval x flg + vget poly 1 * xval x flg * xval x flg.
Proof. reflexivity. Qed.

Lemma poly_force_deriv_formula (k : R) (poly : list R) (x : R) (flg : Z) :
  U._poly_force_deriv k poly x flg = k + 2 * vget poly 0 * xval x flg + 3 * vget poly 1 * xval x flg * xval x flg.
Proof. reflexivity. Qed.

Theorem poly_force_deriv_correct (k : R) (poly : list R) (x : R) (flg : Z) :
  is_derive (fun y => y * U._poly_force k poly y flg) x (U._poly_force_deriv k poly x flg).
Proof.
  rewrite poly_force_deriv_formula.
  set (p0 := vget poly 0). set (p1 := vget poly 1).
  unfold xval. destruct (Z.eqb flg 1) eqn:E.
  - apply (is_derive_ext (fun y => k * y + p0 * (y * Rabs y) + p1 * (y * y * y))).
    { intro y. rewrite poly_force_is_coefficient. unfold xval. rewrite E. fold p0 p1.
      replace (p1 * Rabs y * Rabs y) with (p1 * (Rabs y * Rabs y)) by ring. rewrite Rabs_sq. rring. }
    replace (k + 2 * p0 * Rabs x + 3 * p1 * Rabs x * Rabs x)
      with (k + p0 * (2 * Rabs x) + p1 * (3 * (x * x))).
    2:{ replace (3 * p1 * Rabs x * Rabs x) with (3 * p1 * (Rabs x * Rabs x)) by ring. rewrite Rabs_sq. rring. }
    apply (is_derive_plus (fun y => k * y + p0 * (y * Rabs y)) (fun y => p1 * (y * y * y))).
    + apply (is_derive_plus (fun y => k * y) (fun y => p0 * (y * Rabs y))).
      * ad.
      * apply (is_derive_scal (fun y => y * Rabs y) x p0 (2 * Rabs x)). apply is_derive_x_abs.
    + ad.
  - apply (is_derive_ext (fun y => y * (k + p0 * y + p1 * y * y))).
    { intro y. rewrite poly_force_is_coefficient. unfold xval. rewrite E. reflexivity. }
    ad.
Qed.

(* ---------- poly_potential ---------- *)
Definition third_lit : R := IZR 3333333333333333 / IZR 10000000000000000.

Lemma third_lit_close : Rabs (3 * third_lit - 1) <= 1 / 10 ^ 16.
Proof.
  unfold third_lit.
  replace (3 * (3333333333333333 / 10000000000000000) - 1) with (- (1 / 10000000000000000)) by lra.
  rewrite Rabs_Ropp, Rabs_pos_eq by lra.
  apply Req_le. f_equal. simpl. lra.
Qed.

Lemma is_derive_abs3 (x : R) : is_derive (fun y => Rabs y * Rabs y * Rabs y) x (3 * (x * Rabs x)).
Proof.
  apply (is_derive_ext (fun y => y * (y * Rabs y))).
  { intro y. rewrite (Rabs_sq y). rring. }
  replace (3 * (x * Rabs x)) with (1 * (x * Rabs x) + x * (2 * Rabs x)) by rring.
  apply (is_derive_mult (fun y => y) (fun y => y * Rabs y) x 1 (2 * Rabs x)).
  - ad.
  - apply is_derive_x_abs.
  - intros a b; apply Rmult_comm.
Qed.

Theorem poly_potential_deriv_partial (k : R) (poly : list R) (x : R) (flg : Z) :
  is_derive (fun y => U.poly_potential k poly y flg) x
            (x * U._poly_force k [3 * third_lit * vget poly 0; vget poly 1] x flg).
Proof.
  rewrite poly_force_is_coefficient.
  set (p0 := vget poly 0). set (p1 := vget poly 1).
  change (vget [3 * third_lit * p0; p1] 0) with (3 * third_lit * p0).
  change (vget [3 * third_lit * p0; p1] 1) with p1.
  unfold xval. destruct (Z.eqb flg 1) eqn:E.
  - apply (is_derive_ext (fun y => (1/2) * k * (y * y) + (p0 * third_lit) * (Rabs y * Rabs y * Rabs y) + p1 * (1/4) * (y * y * y * y))).
    { intro y. unfold U.poly_potential. rewrite E. fold p0 p1. sR. fold third_lit.
      replace (Rabs y * Rabs y * Rabs y * Rabs y) with ((Rabs y * Rabs y) * (Rabs y * Rabs y)) by rring.
      rewrite !Rabs_sq. rring. }
    replace (x * (k + 3 * third_lit * p0 * Rabs x + p1 * Rabs x * Rabs x))
      with ((1/2) * k * (2 * x) + (p0 * third_lit) * (3 * (x * Rabs x)) + p1 * (1/4) * (4 * (x * x * x))).
    2:{ replace (p1 * Rabs x * Rabs x) with (p1 * (Rabs x * Rabs x)) by ring. rewrite Rabs_sq. field. }
    apply (is_derive_plus (fun y => 1 / 2 * k * (y * y) + p0 * third_lit * (Rabs y * Rabs y * Rabs y)) (fun y => p1 * (1 / 4) * (y * y * y * y))).
    + apply (is_derive_plus (fun y => 1 / 2 * k * (y * y)) (fun y => p0 * third_lit * (Rabs y * Rabs y * Rabs y))).
      * ad.
      * apply (is_derive_scal (fun y => Rabs y * Rabs y * Rabs y) x (p0 * third_lit)). apply is_derive_abs3.
    + ad.
  - apply (is_derive_ext (fun y => (1/2) * k * (y * y) + (p0 * third_lit) * (y * y * y) + p1 * (1/4) * (y * y * y * y))).
    { intro y. unfold U.poly_potential. rewrite E. fold p0 p1. sR. fold third_lit. rring. }
    ad.
Qed.

(* ===== 2. damping kernels and placement on the diagonal ===== *)
(* the copies of _poly_force_deriv inside the kernel files are the same definition *)
Lemma kf_poly_deriv_eq k p x f : KF._poly_force_deriv k p x f = U._poly_force_deriv k p x f.
Proof. reflexivity. Qed.
Lemma td_poly_deriv_eq k p x f : TD._poly_force_deriv k p x f = U._poly_force_deriv k p x f.
Proof. reflexivity. Qed.
Lemma tp_poly_force_eq k p x f : VF.Gen.T_passive._poly_force k p x f = U._poly_force k p x f.
Proof. reflexivity. Qed.

(* damper force of one dof as passive.py computes it: -v * _poly_force(damping, dpoly, v, 1) *)
Definition damper_force (k : R) (poly : list R) (v : R) : R := - v * U._poly_force k poly v 1.

Lemma damper_force_derive k poly v :
  is_derive (damper_force k poly) v (- U._poly_force_deriv k poly v 1).
Proof.
  unfold damper_force.
  apply (is_derive_ext (fun y => (-1) * (y * U._poly_force k poly y 1))).
  { intro y. rring. }
  replace (- U._poly_force_deriv k poly v 1) with ((-1) * U._poly_force_deriv k poly v 1) by ring.
  apply (is_derive_scal (fun y => y * U._poly_force k poly y 1) v (-1)).
  apply poly_force_deriv_correct.
Qed.

Theorem damping_deriv_kernel :
  forall (w t : Z) (dof_damping : Z -> Z -> R) (dof_dampingpoly : Z -> Z -> list R)
         (qvel_in deriv_out : Z -> Z -> R) (orc : nat -> Z) (sh0 sh1 : Z),
    let damping := dof_damping (Z.rem w sh0) t in
    let dpoly := dof_dampingpoly (Z.rem w sh1) t in
    exists D : R,
      KF.k__compute_damping_deriv w t dof_damping dof_dampingpoly qvel_in deriv_out orc sh0 sh1
        = [mkW "deriv_out" [w; t] KSet (VS D)] /\
      is_derive (damper_force damping dpoly) (qvel_in w t) (- D).
Proof.
  intros. exists (U._poly_force_deriv damping dpoly (qvel_in w t) 1). split.
  - reflexivity.
  - apply damper_force_derive.
Qed.

(* ---- _euler_damp_qfrc ---- *)
Theorem euler_damp_write :
  forall (w t : Z) (opt_timestep : Z -> R) (M_rownnz M_rowadr : Z -> Z) (damp_deriv Mio : Z -> Z -> R)
         (orc : nat -> Z) (sh : Z),
    KF.k__euler_damp_qfrc w t opt_timestep M_rownnz M_rowadr damp_deriv Mio orc sh
    = [mkW "M_integration_out" [w; (M_rowadr t + M_rownnz t - 1)%Z] KSet
         (VS (Mio w (M_rowadr t + M_rownnz t - 1)%Z + opt_timestep (Z.rem w sh) * damp_deriv w t))].
Proof. reflexivity. Qed.

Lemma csr_rowadr_mono nv rownnz rowadr colind :
  csr_lower_inv nv rownnz rowadr colind ->
  forall (n : nat) (i : Z), (0 <= i)%Z -> (i + Z.of_nat n < nv)%Z ->
    (rowadr (i + 1) <= rowadr (i + 1 + Z.of_nat n))%Z.
Proof.
  intros [_ Hinv] n. induction n; intros i Hi Hn.
  - replace (i + 1 + Z.of_nat 0)%Z with (i + 1)%Z by lia. lia.
  - assert (H1 := IHn i Hi ltac:(lia)).
    destruct (Hinv (i + 1 + Z.of_nat n)%Z ltac:(lia)) as (Hnz & Hadr & _).
    replace (i + 1 + Z.of_nat (S n))%Z with (i + 1 + Z.of_nat n + 1)%Z by lia. lia.
Qed.

Theorem euler_damp_diagonal :
  forall (nv : Z) (rownnz rowadr colind : Z -> Z),
    csr_lower_inv nv rownnz rowadr colind ->
    forall t, (0 <= t < nv)%Z ->
      let adr := (rowadr t + rownnz t - 1)%Z in
      csr_entry rownnz rowadr colind t t adr /\
      (forall adr', csr_entry rownnz rowadr colind t t adr' -> adr' = adr) /\
      (forall t', (0 <= t' < nv)%Z -> t' <> t -> (rowadr t' + rownnz t' - 1)%Z <> adr).
Proof.
  intros nv rownnz rowadr colind Hinv t Ht adr.
  pose proof Hinv as [H0 Hrows].
  destruct (Hrows t Ht) as (Hnz & Hnext & Hdiag & Hlow).
  split; [| split].
  - unfold csr_entry, adr. split; [lia | exact Hdiag].
  - intros adr' [Hr Hc]. unfold adr.
    destruct (Z.eq_dec adr' (rowadr t + rownnz t - 1)%Z) as [|Hne]; auto.
    exfalso. specialize (Hlow (adr' - rowadr t)%Z ltac:(lia)).
    replace (rowadr t + (adr' - rowadr t))%Z with adr' in Hlow by lia. lia.
  - intros t' Ht' Hne. unfold adr.
    destruct (Hrows t' Ht') as (Hnz' & Hnext' & _ & _).
    destruct (Z.lt_total t t') as [Hlt | [Heq | Hgt]]; [| congruence |].
    + pose proof (csr_rowadr_mono nv rownnz rowadr colind Hinv (Z.to_nat (t' - t - 1)) t ltac:(lia) ltac:(lia)) as Hm.
      replace (t + 1 + Z.of_nat (Z.to_nat (t' - t - 1)))%Z with t' in Hm by lia. lia.
    + pose proof (csr_rowadr_mono nv rownnz rowadr colind Hinv (Z.to_nat (t - t' - 1)) t' ltac:(lia) ltac:(lia)) as Hm.
      replace (t' + 1 + Z.of_nat (Z.to_nat (t - t' - 1)))%Z with t in Hm by lia. lia.
Qed.

(* the invariant is satisfiable: the 3-dof chain  0 <- 1 <- 2  (rows {0}, {0,1}, {0,1,2}) *)
Example csr_lower_inv_example :
  csr_lower_inv 3 (fun i => i + 1)%Z (fun i => i * (i + 1) / 2)%Z
    (fun a => nth (Z.to_nat a) [0; 0; 1; 0; 1; 2]%Z 0%Z).
Proof.
  split; [reflexivity|]. intros i Hi.
  assert (i = 0 \/ i = 1 \/ i = 2)%Z as [-> | [-> | ->]] by lia; (split; [lia | split; [reflexivity | split; [reflexivity |]]]);
    intros k Hk; simpl in Hk.
  - lia.
  - assert (k = 0)%Z by lia; subst; simpl; lia.
  - assert (k = 0 \/ k = 1)%Z as [-> | ->] by lia; simpl; lia.
Qed.

(* ---- _qderiv_actuator_passive : the (i,j) element ---- *)
Theorem qderiv_actuator_passive_write :
  forall (w e : Z) (opt_timestep : Z -> R) (flags : Z) (dof_damping : Z -> Z -> R)
         (dof_dampingpoly : Z -> Z -> list R) (M_elemid : Z -> Z -> Z) (qvel_in M_in : Z -> Z -> R)
         (Mi Mj : Z -> Z) (qDeriv_in qDeriv_out : Z -> Z -> R) (orc : nat -> Z) (sh0 sh1 sh2 : Z),
    let i := Mi e in let j := Mj e in let madr := M_elemid i j in
    let h := opt_timestep (Z.rem w sh2) in
    (0 <= madr)%Z ->
    Z.land flags 64 = 0%Z ->
    exists dfdv : R,
      is_derive (damper_force (dof_damping (Z.rem w sh0) i) (dof_dampingpoly (Z.rem w sh1) i)) (qvel_in w i) dfdv /\
      TD.k__qderiv_actuator_passive w e opt_timestep flags dof_damping dof_dampingpoly M_elemid qvel_in M_in Mi Mj
        qDeriv_in qDeriv_out orc sh0 sh1 sh2
      = [mkW "qDeriv_out" [w; madr] KSet
           (VS (M_in w madr - h * (qDeriv_in w madr + (if Z.eqb i j then dfdv else 0))))].
Proof.
  intros. exists (- U._poly_force_deriv (dof_damping (Z.rem w sh0) i) (dof_dampingpoly (Z.rem w sh1) i) (qvel_in w i) 1).
  split. apply damper_force_derive.
  unfold TD.k__qderiv_actuator_passive. cbv zeta.
  fold i j. fold madr.
  replace (Z.ltb madr 0) with false by (symmetry; apply Z.ltb_ge; lia).
  rewrite H0. simpl (negb _). 
  destruct (Z.eqb i j) eqn:E; simpl andb; cbv iota; simpl app;
    (match goal with |- [mkW _ _ _ (VS ?a)] = [mkW _ _ _ (VS ?b)] =>
       replace a with b; [reflexivity | unfold U._poly_force_deriv, TD._poly_force_deriv; sR; simpl Z.eqb; cbv iota; fold h; ring] end).
Qed.

(* ===== 3. passive damper force kernel ===== *)
(* last value stored at index [i] of array [a] by a write list *)
Fixpoint wstored (ws : list (write R)) (a : string) (i : list Z) : option R :=
  match ws with
  | nil => None
  | w :: r =>
      match wstored r a i with
      | Some x => Some x
      | None => if String.eqb (w_arr w) a && zs_eqb (w_idx w) i
                then match w_val w with VS x => Some x | _ => None end else None
      end
  end.

Lemma zs_eqb_refl l : zs_eqb l l = true.
Proof. induction l; simpl; auto. rewrite Z.eqb_refl. auto. Qed.

Lemma wstored_app_last ws a i x :
  wstored (ws ++ [mkW a i KSet (VS x)]) a i = Some x.
Proof.
  induction ws; simpl.
  - rewrite String.eqb_refl, zs_eqb_refl. reflexivity.
  - rewrite IHws. reflexivity.
Qed.

Theorem passive_damper_force_kernel :
  forall (w j flags : Z) (qpos_spring : Z -> Z -> R) (jnt_type jnt_qposadr jnt_dofadr : Z -> Z)
         (jnt_stiffness : Z -> Z -> R) (jnt_stiffnesspoly : Z -> Z -> list R)
         (dof_damping : Z -> Z -> R) (dof_dampingpoly : Z -> Z -> list R)
         (qpos_in qvel_in qfrc_spring_out qfrc_damper_out : Z -> Z -> R) (orc : nat -> Z)
         (sh0 sh1 sh2 sh3 sh4 : Z),
    (jnt_type j = 2%Z \/ jnt_type j = 3%Z) ->
    Z.land flags 64 = 0%Z ->
    let dof := jnt_dofadr j in
    wstored (TP.k__spring_damper_dof_passive w j flags qpos_spring jnt_type jnt_qposadr jnt_dofadr jnt_stiffness
               jnt_stiffnesspoly dof_damping dof_dampingpoly qpos_in qvel_in qfrc_spring_out qfrc_damper_out orc
               sh0 sh1 sh2 sh3 sh4) "qfrc_damper_out" [w; dof]
    = Some (damper_force (dof_damping (Z.rem w sh2) dof) (dof_dampingpoly (Z.rem w sh3) dof) (qvel_in w dof)).
Proof.
  intros w j flags qs jt jq jd js jsp dd dp qp qv qso qdo orc sh0 sh1 sh2 sh3 sh4 Hj Hfl dof.
  unfold TP.k__spring_damper_dof_passive. cbv zeta. fold dof. rewrite Hfl.
  assert (E0 : Z.eqb (jt j) 0 = false) by (apply Z.eqb_neq; lia).
  assert (E1 : Z.eqb (jt j) 1 = false) by (apply Z.eqb_neq; lia).
  rewrite E0, E1. simpl (Zneb 0 0). simpl (negb false). cbv iota.
  unfold for_range. simpl (Z.to_nat (1 - 0)). simpl for_nat.
  replace (dof + 0)%Z with dof by lia.
  set (hs := (_ || _ || _) && _).
  set (hd := if (_ || _ || _) then true else false).
  destruct hd eqn:Ehd.
  - (* damped: the final write is -v * c(v) *)
    destruct hs; simpl negb; cbv iota; simpl orb; simpl negb; cbv iota;
      rewrite wstored_app_last; unfold damper_force; sR; rewrite tp_poly_force_eq; reflexivity.
  - (* all three coefficients are zero: 0 is written, and -v * c(v) = 0 *)
    assert (Hz : dd (Z.rem w sh2) dof = 0 /\ vget (dp (Z.rem w sh3) dof) 0 = 0 /\ vget (dp (Z.rem w sh3) dof) 1 = 0).
    { subst hd. revert Ehd. unfold sneb. sR.
      destruct (Reqb (dd (Z.rem w sh2) dof) 0) eqn:A; destruct (Reqb (vget (dp (Z.rem w sh3) dof) 0) 0) eqn:B;
        destruct (Reqb (vget (dp (Z.rem w sh3) dof) 1) 0) eqn:C; simpl; try discriminate.
      intros _. apply Reqb_true in A, B, C. auto. }
    destruct Hz as (Z1 & Z2 & Z3).
    assert (Hv : damper_force (dd (Z.rem w sh2) dof) (dp (Z.rem w sh3) dof) (qv w dof) = 0).
    { unfold damper_force. rewrite poly_force_is_coefficient, Z1, Z2, Z3. ring. }
    rewrite Hv.
    destruct hs; simpl negb; cbv iota; simpl orb; simpl negb; cbv iota.
    + rewrite app_nil_l. 
      match goal with |- wstored (?a ++ [?b]) _ _ = _ => idtac end.
      simpl. rewrite ?Z.eqb_refl. simpl. reflexivity.
    + simpl. rewrite ?Z.eqb_refl. simpl. reflexivity.
Qed.

(* ===== 4. actuator force velocity derivative ===== *)
Lemma sclamp_inside (x lo hi : R) : lo < x < hi -> sclamp x lo hi = x.
Proof.
  intros [H1 H2]. unfold sclamp, smin, smax. sR. unfold Rltb.
  destruct (Rlt_dec x lo); [lra|]. destruct (Rlt_dec hi x); [lra|]. reflexivity.
Qed.
Lemma sclamp_inside_le (x lo hi : R) : lo <= x <= hi -> sclamp x lo hi = x.
Proof.
  intros [H1 H2]. unfold sclamp, smin, smax. sR. unfold Rltb.
  destruct (Rlt_dec x lo); [lra|]. destruct (Rlt_dec hi x); [lra|]. reflexivity.
Qed.
Lemma sclamp_strict_inv (x lo hi : R) : lo < sclamp x lo hi < hi -> sclamp x lo hi = x.
Proof.
  unfold sclamp, smin, smax. sR. unfold Rltb.
  destruct (Rlt_dec x lo); destruct (Rlt_dec hi lo); destruct (Rlt_dec hi x); intros; try lra.
Qed.
Lemma sclamp_below (x lo hi : R) : lo <= hi -> x < lo -> sclamp x lo hi = lo.
Proof.
  intros. unfold sclamp, smin, smax. sR. unfold Rltb.
  destruct (Rlt_dec x lo); [|lra]. destruct (Rlt_dec hi lo); [lra|]. reflexivity.
Qed.
Lemma sclamp_above (x lo hi : R) : lo <= hi -> hi < x -> sclamp x lo hi = hi.
Proof.
  intros. unfold sclamp, smin, smax. sR. unfold Rltb.
  destruct (Rlt_dec x lo); [lra|]. destruct (Rlt_dec hi x); [|lra]. reflexivity.
Qed.

Lemma locally_preimage (G : R -> R) (v0 : R) (P : R -> Prop) :
  continuous G v0 -> open P -> P (G v0) -> locally v0 (fun v => P (G v)).
Proof. intros Hc Ho HP. apply (Hc P). apply Ho. exact HP. Qed.

Section Act.
  Variables (na : Z) (h : R) (dyntype gaintype biastype actadr actnum : Z)
            (dynprm gainprm biasprm : list R) (actlimited : bool) (actrange : list R)
            (actearly forcelimited : bool) (forcerange : list R) (ctrllimited : bool) (ctrlrange : list R)
            (act_in : list R) (ctrl len : R) (dsbl : Z) (act_dot_in : list R).

  Definition Fm (fl : bool) (v : R) : R * R :=
    actuator_force_model na h dyntype gaintype biastype actadr actnum dynprm gainprm biasprm actlimited actrange
      actearly fl forcerange ctrllimited ctrlrange act_in ctrl len v dsbl.
  (* force as a function of the actuator velocity, and the act_dot the same task stores *)
  Definition F (v : R) : R := snd (Fm forcelimited v).
  Definition Adot (v : R) : R := fst (Fm forcelimited v).
  (* the force before the forcerange clamp *)
  Definition Funclamped (v : R) : R := snd (Fm false v).
  Definition Kval (force : R) : R :=
    qderiv_vel_model h dyntype gaintype biastype actadr actnum dynprm gainprm biasprm actlimited actrange
      actearly forcelimited forcerange act_in ctrl act_dot_in force.

  Let last := (actadr + actnum - 1)%Z.
  Let guard := negb (Z.eqb na 0) && Z.geb actadr 0.
  Let ctrlc := if ctrllimited && Z.eqb dsbl 0 then sclamp ctrl (vget ctrlrange 0) (vget ctrlrange 1) else ctrl.
  Let adot := if guard then
                (if Z.eqb dyntype 1 then ctrlc
                 else if Z.eqb dyntype 2 || Z.eqb dyntype 3
                      then sdiv (ssub ctrlc (vget act_in last)) (smax (vget dynprm 0) MINVAL) else 0)
              else 0.
  Let cact := if guard then
                (if actearly then VF.Gen.support_act.next_act h dyntype dynprm actrange (vget act_in last) adot 1 actlimited
                 else vget act_in last)
              else ctrlc.
  Let gv := if Z.eqb gaintype 1 then vget gainprm 2 else 0.
  Let bv := if Z.eqb biastype 1 then vget biasprm 2 else 0.
  Let g0 := if Z.eqb gaintype 0 then vget gainprm 0
            else if Z.eqb gaintype 1 then vget gainprm 0 + vget gainprm 1 * len else 0.
  Let b0 := if Z.eqb biastype 1 then vget biasprm 0 + vget biasprm 1 * len else 0.
  (* unclamped force *)
  Let G (v : R) : R := (g0 * cact + b0) + (gv * cact + bv) * v.

  Lemma Fm_eq fl v : Fm fl v = (adot, if fl then sclamp (G v) (vget forcerange 0) (vget forcerange 1) else G v).
  Proof.
    unfold Fm, actuator_force_model. fold last. fold guard. fold ctrlc.
    unfold G, g0, b0, gv, bv, cact, adot.
    destruct guard; destruct (Z.eqb gaintype 0) eqn:E0; destruct (Z.eqb gaintype 1) eqn:E1;
      destruct (Z.eqb biastype 1) eqn:E2; destruct fl; cbv beta iota zeta; cbv [sadd smul sofZ ScalarR];
      try (apply Z.eqb_eq in E0; apply Z.eqb_eq in E1; lia);
      f_equal; try reflexivity; try (f_equal; ring); ring.
  Qed.

  Lemma G_derive v : is_derive G v (gv * cact + bv).
  Proof. unfold G. ad. Qed.

  Hypothesis Hgain : gaintype <> 2%Z /\ gaintype <> 3%Z.
  Hypothesis Hbias : biastype <> 2%Z /\ biastype <> 3%Z.

  (* what the derivative kernel computes, for the non-muscle non-DC-motor types *)
  Let actk := if negb (Z.eqb dyntype 0)
              then (if actearly then VF.Gen.support_act.next_act h dyntype dynprm actrange (vget act_in last) (vget act_dot_in last) 1 actlimited
                    else vget act_in last)
              else ctrl.
  Lemma Kval_eq force :
    Kval force =
      if Reqb (0 + bv) 0 && Reqb gv 0 then 0
      else if forcelimited && (Rleb force (vget forcerange 0) || Rleb (vget forcerange 1) force) then 0
      else if Reqb gv 0 then 0 + bv else 0 + bv + gv * actk.
  Proof.
    unfold Kval, qderiv_vel_model. fold last.
    destruct Hgain as [Hg2 Hg3]. destruct Hbias as [Hb2 Hb3].
    replace (Z.eqb gaintype 3) with false by (symmetry; apply Z.eqb_neq; exact Hg3).
    replace (Z.eqb biastype 3) with false by (symmetry; apply Z.eqb_neq; exact Hb3).
    unfold gv, bv, actk.
    destruct (Z.eqb gaintype 1); destruct (Z.eqb biastype 1); cbv zeta; sR;
      repeat match goal with
        | |- context [Reqb ?a ?b] => destruct (Reqb a b) eqn:?; simpl
        | |- context [if forcelimited then _ else _] => destruct forcelimited; simpl
        | |- context [Rleb ?a ?b] => destruct (Rleb a b) eqn:?; simpl
        | |- context [Z.eqb dyntype 0] => destruct (Z.eqb dyntype 0); simpl
        end; try reflexivity; try congruence;
      repeat match goal with
        | H : Reqb _ _ = true |- _ => apply Reqb_true in H
        | H : Reqb _ _ = false |- _ => apply Reqb_false in H
        end;
      try (destruct forcelimited; simpl); try reflexivity; try lra; try (exfalso; lra).
  Qed.

  Section AtV.
    Variable v0 : R.
    (* consistent model: no activation state <-> dyntype NONE *)
    Hypothesis Hdyn : (dyntype = 0%Z /\ guard = false) \/ (dyntype <> 0%Z /\ guard = true).
    (* ctrl is not clamped by ctrlrange (see actuator_vel_deriv_clamped_ctrl_refuted) *)
    Hypothesis Hctrl : ctrllimited = false \/ dsbl <> 0%Z \/ vget ctrlrange 0 <= ctrl <= vget ctrlrange 1.
    (* d.act_dot holds what the force kernel stored *)
    Hypothesis Hadot : dyntype <> 0%Z -> vget act_dot_in last = Adot v0.

    Lemma actk_cact : actk = cact.
    Proof.
      unfold actk, cact.
      assert (Hc : ctrlc = ctrl).
      { unfold ctrlc. destruct Hctrl as [Hcl | [Hd | Hin]]; [rewrite Hcl; reflexivity | |].
        - replace (Z.eqb dsbl 0) with false by (symmetry; apply Z.eqb_neq; exact Hd). rewrite andb_false_r. reflexivity.
        - destruct (ctrllimited && Z.eqb dsbl 0); [apply sclamp_inside_le; exact Hin | reflexivity]. }
      destruct Hdyn as [[Hd Hg] | [Hd Hg]]; rewrite Hg.
      - rewrite Hd. simpl. symmetry; exact Hc.
      - replace (Z.eqb dyntype 0) with false by (symmetry; apply Z.eqb_neq; exact Hd). simpl.
        case_eq actearly; intro Eae; [|reflexivity].
        rewrite (Hadot Hd). unfold Adot. rewrite Fm_eq. simpl. reflexivity.
    Qed.

    (* not clamped by forcerange: the kernel's own test on the stored force fails *)
    Theorem actuator_vel_deriv_affine :
      (forcelimited = false \/ vget forcerange 0 < F v0 < vget forcerange 1) ->
      is_derive F v0 (Kval (F v0)).
    Proof.
      intros Hfr. rewrite Kval_eq. rewrite actk_cact.
      assert (HF : forall v, F v = if forcelimited then sclamp (G v) (vget forcerange 0) (vget forcerange 1) else G v).
      { intro v. unfold F. rewrite Fm_eq. reflexivity. }
      assert (Hval : (if Reqb (0 + bv) 0 && Reqb gv 0 then 0
                      else if Reqb gv 0 then 0 + bv else 0 + bv + gv * cact) = gv * cact + bv).
      { destruct (Reqb (0 + bv) 0) eqn:Eb; destruct (Reqb gv 0) eqn:Eg; simpl;
          try (apply Reqb_true in Eb); try (apply Reqb_true in Eg); try rewrite Eg; try lra. }
      destruct Hfr as [Hfl | Hin].
      - rewrite Hfl. simpl andb. cbv iota. rewrite Hval.
        apply (is_derive_ext G). { intro v. rewrite HF, Hfl. reflexivity. } apply G_derive.
      - assert (Hnot : (Rleb (F v0) (vget forcerange 0) || Rleb (vget forcerange 1) (F v0)) = false).
        { apply orb_false_iff. split; apply Rleb_false; lra. }
        rewrite Hnot, andb_false_r. rewrite Hval.
        case_eq forcelimited; intro Efl.
        + assert (HF' : forall v, F v = sclamp (G v) (vget forcerange 0) (vget forcerange 1)) by (intro v; rewrite HF, Efl; reflexivity).
          assert (HG0 : G v0 = F v0). { rewrite HF'. rewrite HF' in Hin. symmetry. apply sclamp_strict_inv. exact Hin. }
          apply (is_derive_ext_loc G).
          * assert (Hl : locally v0 (fun v => vget forcerange 0 < G v < vget forcerange 1)).
            { apply (locally_preimage G v0 (fun y => vget forcerange 0 < y < vget forcerange 1)).
              - apply (ex_derive_continuous G v0). eexists. apply G_derive.
              - apply open_and; [apply open_gt | apply open_lt].
              - rewrite HG0. exact Hin. }
            revert Hl. apply filter_imp. intros v Hv. rewrite HF'. symmetry. apply sclamp_inside. exact Hv.
          * apply G_derive.
        + apply (is_derive_ext G). { intro v. rewrite HF, Efl. reflexivity. } apply G_derive.
    Qed.

    (* clamped by forcerange (strictly outside): the force is locally constant, the kernel stores 0 *)
    Theorem actuator_vel_deriv_forceclamped :
      forcelimited = true -> vget forcerange 0 <= vget forcerange 1 ->
      (Funclamped v0 < vget forcerange 0 \/ vget forcerange 1 < Funclamped v0) ->
      is_derive F v0 0 /\ Kval (F v0) = 0.
    Proof.
      intros Hfl Hle Hout. unfold Funclamped in Hout. rewrite Fm_eq in Hout. simpl snd in Hout.
      assert (HF : forall v, F v = sclamp (G v) (vget forcerange 0) (vget forcerange 1)).
      { intro v. unfold F. rewrite Fm_eq. rewrite Hfl. reflexivity. }
      assert (Hc : continuous G v0) by (apply (ex_derive_continuous G v0); eexists; apply G_derive).
      split.
      - destruct Hout as [Hlo | Hhi].
        + apply (is_derive_ext_loc (fun _ => vget forcerange 0)).
          * assert (Hl : locally v0 (fun v => G v < vget forcerange 0))
              by (apply (locally_preimage G v0 (fun y => y < vget forcerange 0)); [exact Hc | apply open_lt | exact Hlo]).
            revert Hl. apply filter_imp. intros v Hv. rewrite HF. symmetry. apply sclamp_below; assumption.
          * apply @is_derive_const.
        + apply (is_derive_ext_loc (fun _ => vget forcerange 1)).
          * assert (Hl : locally v0 (fun v => vget forcerange 1 < G v))
              by (apply (locally_preimage G v0 (fun y => vget forcerange 1 < y)); [exact Hc | apply open_gt | exact Hhi]).
            revert Hl. apply filter_imp. intros v Hv. rewrite HF. symmetry. apply sclamp_above; assumption.
          * apply @is_derive_const.
      - rewrite Kval_eq. rewrite Hfl.
        assert (Ht : (Rleb (F v0) (vget forcerange 0) || Rleb (vget forcerange 1) (F v0)) = true).
        { rewrite HF. destruct Hout as [Hlo | Hhi].
          - rewrite sclamp_below by assumption. apply orb_true_iff. left. apply Rleb_true. lra.
          - rewrite sclamp_above by assumption. apply orb_true_iff. right. apply Rleb_true. lra. }
        rewrite Ht. simpl. destruct (Reqb (0 + bv) 0 && Reqb gv 0); reflexivity.
    Qed.
  End AtV.
End Act.

(* ---- the faithful model REFUTES the property when ctrl is clamped by ctrlrange ----
   _actuator_force multiplies the affine gain with the CLAMPED ctrl, the derivative kernel
   with the raw ctrl_in.  dyntype none, gain = 1 + 2*velocity, ctrlrange [-1, 1], ctrl = 3:
   force(v) = (1 + 2 v) * 1, so d force / d v = 2, while the kernel stores 2 * 3 = 6. *)
Theorem actuator_vel_deriv_clamped_ctrl_refuted :
  exists (h : R) (gainprm ctrlrange : list R) (ctrl v0 : R),
    let Fx := F 0 h 0 1 0 (-1) 0 [] gainprm [] false [] false false [] true ctrlrange [] ctrl 0 0 in
    let K := Kval h 0 1 0 (-1) 0 [] gainprm [] false [] false false [] [] ctrl [] (Fx v0) in
    is_derive Fx v0 2 /\ K = 6 /\ ~ is_derive Fx v0 K.
Proof.
  exists (1/500), [1; 0; 2], [-1; 1], 3, 0. cbv zeta.
  assert (Hc : sclamp 3 (-1) 1 = 1).
  { unfold sclamp, smin, smax. sR. unfold Rltb.
    destruct (Rlt_dec 3 (-1)); [lra|]. destruct (Rlt_dec 1 3); [reflexivity | lra]. }
  assert (HF : forall v, F 0 (1/500) 0 1 0 (-1) 0 [] [1;0;2] [] false [] false false [] true [-1;1] [] 3 0 0 v = 1 + 2 * v).
  { intro v. unfold F, Fm, actuator_force_model. simpl. sR. simpl. fold (@sclamp R ScalarR 3 (-1) 1).
    change (vget [-1; 1] 0) with (-1). change (vget [-1;1] 1) with 1. rewrite ?Hc. change (vget [1; 0; 2] 0) with 1. change (vget [1; 0; 2] 1) with 0. change (vget [1; 0; 2] 2) with 2. ring. }
  assert (HD : is_derive (F 0 (1/500) 0 1 0 (-1) 0 [] [1;0;2] [] false [] false false [] true [-1;1] [] 3 0 0) 0 2).
  { apply (is_derive_ext (fun v => 1 + 2 * v)). { intro v. symmetry. apply HF. } ad. }
  assert (HK : Kval (1/500) 0 1 0 (-1) 0 [] [1;0;2] [] false [] false false [] [] 3 []
                 (F 0 (1/500) 0 1 0 (-1) 0 [] [1;0;2] [] false [] false false [] true [-1;1] [] 3 0 0 0) = 6).
  { unfold Kval, qderiv_vel_model. cbv zeta. simpl Z.eqb. cbv iota. simpl negb. cbv iota. simpl andb.
    change (vget [1; 0; 2] 2) with 2. sR.
    replace (Reqb 0 0) with true by (symmetry; apply Reqb_true; lra).
    replace (Reqb 2 0) with false by (symmetry; apply Reqb_false; lra).
    simpl. lra. }
  split; [exact HD | split; [exact HK |]].
  rewrite HK. intro H6.
  pose proof (is_derive_unique _ _ _ HD) as U2. pose proof (is_derive_unique _ _ _ H6) as U6. lra.
Qed.

(* ---- deriv_rne_body2jnt_sparse: with flg_subtract = false (what implicit() passes since the
   repair 1a4962a) the task ADDS  dt * (cdof_i . Dcfrc_body[body(i), j])  at D-element elemid ---- *)
Theorem rne_body2jnt_adds :
  forall (w e : Z) (dof_bodyid : Z -> Z) (cdof_in : Z -> Z -> list R) (timestep : Z -> R) (Di Dj : Z -> Z)
         (Dcfrc : Z -> Z -> Z -> list R) (flg : bool) (qDeriv_out : Z -> Z -> R) (orc : nat -> Z) (sh : Z),
    TD.k_deriv_rne_body2jnt_sparse w e dof_bodyid cdof_in timestep Di Dj Dcfrc flg qDeriv_out orc sh
    = [mkW "qDeriv_out" [w; e] (if flg then KSub else KAdd)
         (VS (timestep (Z.rem w sh) * vdot (cdof_in w (Di e)) (Dcfrc w (dof_bodyid (Di e)) (Dj e))))].
Proof. intros. unfold TD.k_deriv_rne_body2jnt_sparse. destruct flg; reflexivity. Qed.

(* non-vacuity of actuator_vel_deriv_affine: integrator dynamics, affine gain and bias, ctrl inside
   its range, act_dot consistent with the force kernel *)
Example actuator_vel_deriv_affine_example :
  let adot := Adot 1 (1/500) 1 1 1 0 1 [] [1; 0; 2] [0; 0; -1] false [] false false [] true [-1; 1] [1/2] (1/2) 0 0 3 in
  is_derive (F 1 (1/500) 1 1 1 0 1 [] [1; 0; 2] [0; 0; -1] false [] false false [] true [-1; 1] [1/2] (1/2) 0 0) 3
    (Kval (1/500) 1 1 1 0 1 [] [1; 0; 2] [0; 0; -1] false [] false false [] [1/2] (1/2) [adot]
       (F 1 (1/500) 1 1 1 0 1 [] [1; 0; 2] [0; 0; -1] false [] false false [] true [-1; 1] [1/2] (1/2) 0 0 3)).
Proof.
  cbv zeta. apply actuator_vel_deriv_affine.
  - split; discriminate.
  - split; discriminate.
  - right. split; [discriminate | reflexivity].
  - right. right. change (vget [-1; 1] 0) with (-1). change (vget [-1; 1] 1) with 1. lra.
  - intros _. reflexivity.
  - left. reflexivity.
Qed.
