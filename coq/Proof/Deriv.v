(* Proof/Deriv.v -- lemmas for C27 "Velocity derivatives are correct".

   Over the reals (Coquelicot is_derive), about
     * the MACHINE-TRANSLATED functions util_misc._poly_force / _poly_force_deriv / poly_potential
       (Gen/T_util_misc.v) and the copies inside the kernel files (identical definitions),
     * the translated kernels forward._compute_damping_deriv, forward._euler_damp_qfrc (Gen/kforward.v),
       derivative._qderiv_actuator_passive, derivative.deriv_rne_body2jnt_sparse (Gen/T_derivative.v),
       derivative._qderiv_tendon_damping, derivative._qderiv_box_fluid / _deriv_box_fluid,
       passive._spring_damper_dof_passive,
       passive._spring_damper_tendon_passive (Gen/T_passive.v),
     * the hand models of derivative._qderiv_actuator_passive_vel and forward._actuator_force
       (Model/Deriv.v; tied to the real kernels by the correspondence run of bin/props/C27.py),
     * the translated util_misc.muscle_gain / muscle_gain_vel (FV curve, away from its breakpoints).
   Not covered here (oracle only, bin/props/C27.py): the RNE forward/backward passes, the fluid
   derivative kernels, the Jacobian-row search inside the tendon-damping kernel, float32 rounding. *)
From Coq Require Import ZArith Reals List Bool Lra Lia String.
Set Warnings "-ambiguous-paths".
From Coquelicot Require Import Coquelicot.
From VF Require Import Base.Scalar Base.ScalarR Base.Vec Base.Loop Base.Kernel Base.KernelRd.
From VF Require Gen.T_util_misc Gen.T_derivative Gen.T_passive Gen.kforward Gen.support_act.
From VF Require Import Model.Deriv.
Import ListNotations.
Local Open Scope R_scope.

Ltac rring := match goal with |- @eq _ ?a ?b => change (@eq R a b) end; (ring || field).
Ltac ad := auto_derive; [ repeat split; auto | rring ].

Module U := VF.Gen.T_util_misc.
Module KF := VF.Gen.kforward.
Module TD := VF.Gen.T_derivative.
Module TP := VF.Gen.T_passive.

(* ===== 1. polynomial stiffness / damping ===== *)
(* ---------- x |x| is differentiable everywhere, derivative 2|x| ---------- *)
Lemma is_derive_x_abs (x : R) : is_derive (fun x => x * Rabs x) x (2 * Rabs x).
Proof.
  destruct (Rlt_dec 0 x) as [Hp|Hn].
  - apply (is_derive_ext_loc (fun x => x * x)).
    + exists (mkposreal x Hp). intros y Hy. unfold ball in Hy; simpl in Hy. unfold AbsRing_ball, abs, minus, plus, opp in Hy; simpl in Hy.
      apply Rabs_def2 in Hy. rewrite (Rabs_pos_eq y); lra.
    + rewrite (Rabs_pos_eq x) by lra. auto_derive; auto; lra.
  - destruct (Rlt_dec x 0) as [Hm|Hz].
    + assert (Hp : 0 < - x) by lra.
      apply (is_derive_ext_loc (fun x => x * - x)).
      * exists (mkposreal (-x) Hp). intros y Hy. unfold ball in Hy; simpl in Hy. unfold AbsRing_ball, abs, minus, plus, opp in Hy; simpl in Hy.
        apply Rabs_def2 in Hy. rewrite (Rabs_left y); lra.
      * rewrite (Rabs_left x) by lra. auto_derive; auto; lra.
    + assert (x = 0) by lra. subst x. rewrite Rabs_R0. replace (2*0) with 0 by lra.
      split. apply is_linear_scal_l.
      intros y Hy eps.
      pose proof (is_filter_lim_locally_unique _ _ Hy) as E. subst y.
      exists eps. intros y Hy2. unfold ball in Hy2; simpl in Hy2. unfold AbsRing_ball, abs, minus, plus, opp, scal, mult in *; simpl in *.
      unfold norm; simpl. unfold abs; simpl. unfold mult; simpl.
      replace (y * Rabs y + - (0 * Rabs 0) + - ((y + - 0) * 0)) with (y * Rabs y) by (rewrite Rabs_R0; ring).
      replace (y + - 0) with y in * by rring.
      rewrite Rabs_mult, Rabs_Rabsolu.
      apply Rmult_le_compat_r. apply Rabs_pos. lra.
Qed.

Lemma Rabs_sq (y : R) : Rabs y * Rabs y = y * y.
Proof. rewrite <- Rabs_mult. apply Rabs_pos_eq. nra. Qed.

(* ---------- the polynomial coefficient ---------- *)
Definition xval (x : R) (flg : Z) : R := if Z.eqb flg 1 then Rabs x else x.

Lemma poly_force_is_coefficient (k : R) (poly : list R) (x : R) (flg : Z) :
  U._poly_force k poly x flg = k + vget poly 0 * xval x flg + vget poly 1 * xval x flg * xval x flg.
Proof. reflexivity. Qed.

Lemma poly_force_deriv_formula (k : R) (poly : list R) (x : R) (flg : Z) :
  U._poly_force_deriv k poly x flg = k + 2 * vget poly 0 * xval x flg + 3 * vget poly 1 * xval x flg * xval x flg.
Proof. reflexivity. Qed.

Theorem poly_force_deriv_correct (k : R) (poly : list R) (x : R) (flg : Z) :
  is_derive (fun y => y * U._poly_force k poly y flg) x (U._poly_force_deriv k poly x flg).
Proof.
  rewrite poly_force_deriv_formula.
  set (p0 := vget poly 0). set (p1 := vget poly 1).
  unfold xval. destruct (Z.eqb flg 1) eqn:E.
  - apply (is_derive_ext (fun y => k * y + p0 * (y * Rabs y) + p1 * (y * y * y))).
    { intro y. rewrite poly_force_is_coefficient. unfold xval. rewrite E. fold p0 p1.
      replace (p1 * Rabs y * Rabs y) with (p1 * (Rabs y * Rabs y)) by ring. rewrite Rabs_sq. rring. }
    replace (k + 2 * p0 * Rabs x + 3 * p1 * Rabs x * Rabs x)
      with (k + p0 * (2 * Rabs x) + p1 * (3 * (x * x))).
    2:{ replace (3 * p1 * Rabs x * Rabs x) with (3 * p1 * (Rabs x * Rabs x)) by ring. rewrite Rabs_sq. rring. }
    apply (is_derive_plus (fun y => k * y + p0 * (y * Rabs y)) (fun y => p1 * (y * y * y))).
    + apply (is_derive_plus (fun y => k * y) (fun y => p0 * (y * Rabs y))).
      * ad.
      * apply (is_derive_scal (fun y => y * Rabs y) x p0 (2 * Rabs x)). apply is_derive_x_abs.
    + ad.
  - apply (is_derive_ext (fun y => y * (k + p0 * y + p1 * y * y))).
    { intro y. rewrite poly_force_is_coefficient. unfold xval. rewrite E. reflexivity. }
    ad.
Qed.

(* ---------- poly_potential ---------- *)
Definition third_lit : R := IZR 3333333333333333 / IZR 10000000000000000.

Lemma third_lit_close : Rabs (3 * third_lit - 1) <= 1 / 10 ^ 16.
Proof.
  unfold third_lit.
  replace (3 * (3333333333333333 / 10000000000000000) - 1) with (- (1 / 10000000000000000)) by lra.
  rewrite Rabs_Ropp, Rabs_pos_eq by lra.
  apply Req_le. f_equal. simpl. lra.
Qed.

Lemma is_derive_abs3 (x : R) : is_derive (fun y => Rabs y * Rabs y * Rabs y) x (3 * (x * Rabs x)).
Proof.
  apply (is_derive_ext (fun y => y * (y * Rabs y))).
  { intro y. rewrite (Rabs_sq y). rring. }
  replace (3 * (x * Rabs x)) with (1 * (x * Rabs x) + x * (2 * Rabs x)) by rring.
  apply (is_derive_mult (fun y => y) (fun y => y * Rabs y) x 1 (2 * Rabs x)).
  - ad.
  - apply is_derive_x_abs.
  - intros a b; apply Rmult_comm.
Qed.

Theorem poly_potential_deriv_partial (k : R) (poly : list R) (x : R) (flg : Z) :
  is_derive (fun y => U.poly_potential k poly y flg) x
            (x * U._poly_force k [3 * third_lit * vget poly 0; vget poly 1] x flg).
Proof.
  rewrite poly_force_is_coefficient.
  set (p0 := vget poly 0). set (p1 := vget poly 1).
  change (vget [3 * third_lit * p0; p1] 0) with (3 * third_lit * p0).
  change (vget [3 * third_lit * p0; p1] 1) with p1.
  unfold xval. destruct (Z.eqb flg 1) eqn:E.
  - apply (is_derive_ext (fun y => (1/2) * k * (y * y) + (p0 * third_lit) * (Rabs y * Rabs y * Rabs y) + p1 * (1/4) * (y * y * y * y))).
    { intro y. unfold U.poly_potential. rewrite E. fold p0 p1. sR. fold third_lit.
      replace (Rabs y * Rabs y * Rabs y * Rabs y) with ((Rabs y * Rabs y) * (Rabs y * Rabs y)) by rring.
      rewrite !Rabs_sq. rring. }
    replace (x * (k + 3 * third_lit * p0 * Rabs x + p1 * Rabs x * Rabs x))
      with ((1/2) * k * (2 * x) + (p0 * third_lit) * (3 * (x * Rabs x)) + p1 * (1/4) * (4 * (x * x * x))).
    2:{ replace (p1 * Rabs x * Rabs x) with (p1 * (Rabs x * Rabs x)) by ring. rewrite Rabs_sq. field. }
    apply (is_derive_plus (fun y => 1 / 2 * k * (y * y) + p0 * third_lit * (Rabs y * Rabs y * Rabs y)) (fun y => p1 * (1 / 4) * (y * y * y * y))).
    + apply (is_derive_plus (fun y => 1 / 2 * k * (y * y)) (fun y => p0 * third_lit * (Rabs y * Rabs y * Rabs y))).
      * ad.
      * apply (is_derive_scal (fun y => Rabs y * Rabs y * Rabs y) x (p0 * third_lit)). apply is_derive_abs3.
    + ad.
  - apply (is_derive_ext (fun y => (1/2) * k * (y * y) + (p0 * third_lit) * (y * y * y) + p1 * (1/4) * (y * y * y * y))).
    { intro y. unfold U.poly_potential. rewrite E. fold p0 p1. sR. fold third_lit. rring. }
    ad.
Qed.

(* ===== 2. damping kernels and placement on the diagonal ===== *)
(* the copies of _poly_force_deriv inside the kernel files are the same definition *)
Lemma kf_poly_deriv_eq k p x f : KF._poly_force_deriv k p x f = U._poly_force_deriv k p x f.
Proof. reflexivity. Qed.
Lemma td_poly_deriv_eq k p x f : TD._poly_force_deriv k p x f = U._poly_force_deriv k p x f.
Proof. reflexivity. Qed.
Lemma tp_poly_force_eq k p x f : VF.Gen.T_passive._poly_force k p x f = U._poly_force k p x f.
Proof. reflexivity. Qed.

(* damper force of one dof as passive.py computes it: -v * _poly_force(damping, dpoly, v, 1) *)
Definition damper_force (k : R) (poly : list R) (v : R) : R := - v * U._poly_force k poly v 1.

Lemma damper_force_derive k poly v :
  is_derive (damper_force k poly) v (- U._poly_force_deriv k poly v 1).
Proof.
  unfold damper_force.
  apply (is_derive_ext (fun y => (-1) * (y * U._poly_force k poly y 1))).
  { intro y. rring. }
  replace (- U._poly_force_deriv k poly v 1) with ((-1) * U._poly_force_deriv k poly v 1) by ring.
  apply (is_derive_scal (fun y => y * U._poly_force k poly y 1) v (-1)).
  apply poly_force_deriv_correct.
Qed.

Theorem damping_deriv_kernel :
  forall (w t : Z) (dof_damping : Z -> Z -> R) (dof_dampingpoly : Z -> Z -> list R)
         (qvel_in deriv_out : Z -> Z -> R) (orc : nat -> Z) (sh0 sh1 : Z),
    let damping := dof_damping (Z.rem w sh0) t in
    let dpoly := dof_dampingpoly (Z.rem w sh1) t in
    exists D : R,
      KF.k__compute_damping_deriv w t dof_damping dof_dampingpoly qvel_in deriv_out orc sh0 sh1
        = [mkW "deriv_out" [w; t] KSet (VS D)] /\
      is_derive (damper_force damping dpoly) (qvel_in w t) (- D).
Proof.
  intros. exists (U._poly_force_deriv damping dpoly (qvel_in w t) 1). split.
  - reflexivity.
  - apply damper_force_derive.
Qed.

(* ---- _euler_damp_qfrc ---- *)
Theorem euler_damp_write :
  forall (w t : Z) (opt_timestep : Z -> R) (M_rownnz M_rowadr : Z -> Z) (damp_deriv Mio : Z -> Z -> R)
         (orc : nat -> Z) (sh : Z),
    KF.k__euler_damp_qfrc w t opt_timestep M_rownnz M_rowadr damp_deriv Mio orc sh
    = [mkW "M_integration_out" [w; (M_rowadr t + M_rownnz t - 1)%Z] KSet
         (VS (Mio w (M_rowadr t + M_rownnz t - 1)%Z + opt_timestep (Z.rem w sh) * damp_deriv w t))].
Proof. reflexivity. Qed.

Lemma csr_rowadr_mono nv rownnz rowadr colind :
  csr_lower_inv nv rownnz rowadr colind ->
  forall (n : nat) (i : Z), (0 <= i)%Z -> (i + Z.of_nat n < nv)%Z ->
    (rowadr (i + 1) <= rowadr (i + 1 + Z.of_nat n))%Z.
Proof.
  intros [_ Hinv] n. induction n; intros i Hi Hn.
  - replace (i + 1 + Z.of_nat 0)%Z with (i + 1)%Z by lia. lia.
  - assert (H1 := IHn i Hi ltac:(lia)).
    destruct (Hinv (i + 1 + Z.of_nat n)%Z ltac:(lia)) as (Hnz & Hadr & _).
    replace (i + 1 + Z.of_nat (S n))%Z with (i + 1 + Z.of_nat n + 1)%Z by lia. lia.
Qed.

Theorem euler_damp_diagonal :
  forall (nv : Z) (rownnz rowadr colind : Z -> Z),
    csr_lower_inv nv rownnz rowadr colind ->
    forall t, (0 <= t < nv)%Z ->
      let adr := (rowadr t + rownnz t - 1)%Z in
      csr_entry rownnz rowadr colind t t adr /\
      (forall adr', csr_entry rownnz rowadr colind t t adr' -> adr' = adr) /\
      (forall t', (0 <= t' < nv)%Z -> t' <> t -> (rowadr t' + rownnz t' - 1)%Z <> adr).
Proof.
  intros nv rownnz rowadr colind Hinv t Ht adr.
  pose proof Hinv as [H0 Hrows].
  destruct (Hrows t Ht) as (Hnz & Hnext & Hdiag & Hlow).
  split; [| split].
  - unfold csr_entry, adr. split; [lia | exact Hdiag].
  - intros adr' [Hr Hc]. unfold adr.
    destruct (Z.eq_dec adr' (rowadr t + rownnz t - 1)%Z) as [|Hne]; auto.
    exfalso. specialize (Hlow (adr' - rowadr t)%Z ltac:(lia)).
    replace (rowadr t + (adr' - rowadr t))%Z with adr' in Hlow by lia. lia.
  - intros t' Ht' Hne. unfold adr.
    destruct (Hrows t' Ht') as (Hnz' & Hnext' & _ & _).
    destruct (Z.lt_total t t') as [Hlt | [Heq | Hgt]]; [| congruence |].
    + pose proof (csr_rowadr_mono nv rownnz rowadr colind Hinv (Z.to_nat (t' - t - 1)) t ltac:(lia) ltac:(lia)) as Hm.
      replace (t + 1 + Z.of_nat (Z.to_nat (t' - t - 1)))%Z with t' in Hm by lia. lia.
    + pose proof (csr_rowadr_mono nv rownnz rowadr colind Hinv (Z.to_nat (t - t' - 1)) t' ltac:(lia) ltac:(lia)) as Hm.
      replace (t' + 1 + Z.of_nat (Z.to_nat (t - t' - 1)))%Z with t in Hm by lia. lia.
Qed.

(* the invariant is satisfiable: the 3-dof chain  0 <- 1 <- 2  (rows {0}, {0,1}, {0,1,2}) *)
Example csr_lower_inv_example :
  csr_lower_inv 3 (fun i => i + 1)%Z (fun i => i * (i + 1) / 2)%Z
    (fun a => nth (Z.to_nat a) [0; 0; 1; 0; 1; 2]%Z 0%Z).
Proof.
  split; [reflexivity|]. intros i Hi.
  assert (i = 0 \/ i = 1 \/ i = 2)%Z as [-> | [-> | ->]] by lia; (split; [lia | split; [reflexivity | split; [reflexivity |]]]);
    intros k Hk; simpl in Hk.
  - lia.
  - assert (k = 0)%Z by lia; subst; simpl; lia.
  - assert (k = 0 \/ k = 1)%Z as [-> | ->] by lia; simpl; lia.
Qed.

(* ---- _qderiv_actuator_passive : the (i,j) element ---- *)
Theorem qderiv_actuator_passive_write :
  forall (w e : Z) (opt_timestep : Z -> R) (flags : Z) (dof_damping : Z -> Z -> R)
         (dof_dampingpoly : Z -> Z -> list R) (M_elemid : Z -> Z -> Z) (qvel_in M_in : Z -> Z -> R)
         (Mi Mj : Z -> Z) (qDeriv_in qDeriv_out : Z -> Z -> R) (orc : nat -> Z) (sh0 sh1 sh2 : Z),
    let i := Mi e in let j := Mj e in let madr := M_elemid i j in
    let h := opt_timestep (Z.rem w sh2) in
    (0 <= madr)%Z ->
    Z.land flags 64 = 0%Z ->
    exists dfdv : R,
      is_derive (damper_force (dof_damping (Z.rem w sh0) i) (dof_dampingpoly (Z.rem w sh1) i)) (qvel_in w i) dfdv /\
      TD.k__qderiv_actuator_passive w e opt_timestep flags dof_damping dof_dampingpoly M_elemid qvel_in M_in Mi Mj
        qDeriv_in qDeriv_out orc sh0 sh1 sh2
      = [mkW "qDeriv_out" [w; madr] KSet
           (VS (M_in w madr - h * (qDeriv_in w madr + (if Z.eqb i j then dfdv else 0))))].
Proof.
  intros. exists (- U._poly_force_deriv (dof_damping (Z.rem w sh0) i) (dof_dampingpoly (Z.rem w sh1) i) (qvel_in w i) 1).
  split. apply damper_force_derive.
  unfold TD.k__qderiv_actuator_passive. cbv zeta.
  fold i j. fold madr.
  replace (Z.ltb madr 0) with false by (symmetry; apply Z.ltb_ge; lia).
  rewrite H0. simpl (negb _). 
  destruct (Z.eqb i j) eqn:E; simpl andb; cbv iota; simpl app;
    (match goal with |- [mkW _ _ _ (VS ?a)] = [mkW _ _ _ (VS ?b)] =>
       replace a with b; [reflexivity | unfold U._poly_force_deriv, TD._poly_force_deriv; sR; simpl Z.eqb; cbv iota; fold h; ring] end).
Qed.

(* ===== 3. passive damper force kernel ===== *)
(* last value stored at index [i] of array [a] by a write list *)
Fixpoint wstored (ws : list (write R)) (a : string) (i : list Z) : option R :=
  match ws with
  | nil => None
  | w :: r =>
      match wstored r a i with
      | Some x => Some x
      | None => if String.eqb (w_arr w) a && zs_eqb (w_idx w) i
                then match w_val w with VS x => Some x | _ => None end else None
      end
  end.

Lemma zs_eqb_refl l : zs_eqb l l = true.
Proof. induction l; simpl; auto. rewrite Z.eqb_refl. auto. Qed.

Lemma wstored_app_last ws a i x :
  wstored (ws ++ [mkW a i KSet (VS x)]) a i = Some x.
Proof.
  induction ws; simpl.
  - rewrite String.eqb_refl, zs_eqb_refl. reflexivity.
  - rewrite IHws. reflexivity.
Qed.

Theorem passive_damper_force_kernel :
  forall (w j flags : Z) (qpos_spring : Z -> Z -> R) (jnt_type jnt_qposadr jnt_dofadr : Z -> Z)
         (jnt_stiffness : Z -> Z -> R) (jnt_stiffnesspoly : Z -> Z -> list R)
         (dof_damping : Z -> Z -> R) (dof_dampingpoly : Z -> Z -> list R)
         (qpos_in qvel_in qfrc_spring_out qfrc_damper_out : Z -> Z -> R) (orc : nat -> Z)
         (sh0 sh1 sh2 sh3 sh4 : Z),
    (jnt_type j = 2%Z \/ jnt_type j = 3%Z) ->
    Z.land flags 64 = 0%Z ->
    let dof := jnt_dofadr j in
    wstored (TP.k__spring_damper_dof_passive w j flags qpos_spring jnt_type jnt_qposadr jnt_dofadr jnt_stiffness
               jnt_stiffnesspoly dof_damping dof_dampingpoly qpos_in qvel_in qfrc_spring_out qfrc_damper_out orc
               sh0 sh1 sh2 sh3 sh4) "qfrc_damper_out" [w; dof]
    = Some (damper_force (dof_damping (Z.rem w sh2) dof) (dof_dampingpoly (Z.rem w sh3) dof) (qvel_in w dof)).
Proof.
  intros w j flags qs jt jq jd js jsp dd dp qp qv qso qdo orc sh0 sh1 sh2 sh3 sh4 Hj Hfl dof.
  unfold TP.k__spring_damper_dof_passive. cbv zeta. fold dof. rewrite Hfl.
  assert (E0 : Z.eqb (jt j) 0 = false) by (apply Z.eqb_neq; lia).
  assert (E1 : Z.eqb (jt j) 1 = false) by (apply Z.eqb_neq; lia).
  rewrite E0, E1. simpl (Zneb 0 0). simpl (negb false). cbv iota.
  unfold for_range. simpl (Z.to_nat (1 - 0)). simpl for_nat.
  replace (dof + 0)%Z with dof by lia.
  set (hs := (_ || _ || _) && _).
  set (hd := if (_ || _ || _) then true else false).
  destruct hd eqn:Ehd.
  - (* damped: the final write is -v * c(v) *)
    destruct hs; simpl negb; cbv iota; simpl orb; simpl negb; cbv iota;
      rewrite wstored_app_last; unfold damper_force; sR; rewrite tp_poly_force_eq; reflexivity.
  - (* all three coefficients are zero: 0 is written, and -v * c(v) = 0 *)
    assert (Hz : dd (Z.rem w sh2) dof = 0 /\ vget (dp (Z.rem w sh3) dof) 0 = 0 /\ vget (dp (Z.rem w sh3) dof) 1 = 0).
    { subst hd. revert Ehd. unfold sneb. sR.
      destruct (Reqb (dd (Z.rem w sh2) dof) 0) eqn:A; destruct (Reqb (vget (dp (Z.rem w sh3) dof) 0) 0) eqn:B;
        destruct (Reqb (vget (dp (Z.rem w sh3) dof) 1) 0) eqn:C; simpl; try discriminate.
      intros _. apply Reqb_true in A, B, C. auto. }
    destruct Hz as (Z1 & Z2 & Z3).
    assert (Hv : damper_force (dd (Z.rem w sh2) dof) (dp (Z.rem w sh3) dof) (qv w dof) = 0).
    { unfold damper_force. rewrite poly_force_is_coefficient, Z1, Z2, Z3. ring. }
    rewrite Hv.
    destruct hs; simpl negb; cbv iota; simpl orb; simpl negb; cbv iota.
    + rewrite app_nil_l. 
      match goal with |- wstored (?a ++ [?b]) _ _ = _ => idtac end.
      simpl. rewrite ?Z.eqb_refl. simpl. reflexivity.
    + simpl. rewrite ?Z.eqb_refl. simpl. reflexivity.
Qed.

(* ===== 4. actuator force velocity derivative ===== *)
Lemma sclamp_inside (x lo hi : R) : lo < x < hi -> sclamp x lo hi = x.
Proof.
  intros [H1 H2]. unfold sclamp, smin, smax. sR. unfold Rltb.
  destruct (Rlt_dec x lo); [lra|]. destruct (Rlt_dec hi x); [lra|]. reflexivity.
Qed.
Lemma sclamp_inside_le (x lo hi : R) : lo <= x <= hi -> sclamp x lo hi = x.
Proof.
  intros [H1 H2]. unfold sclamp, smin, smax. sR. unfold Rltb.
  destruct (Rlt_dec x lo); [lra|]. destruct (Rlt_dec hi x); [lra|]. reflexivity.
Qed.
Lemma sclamp_strict_inv (x lo hi : R) : lo < sclamp x lo hi < hi -> sclamp x lo hi = x.
Proof.
  unfold sclamp, smin, smax. sR. unfold Rltb.
  destruct (Rlt_dec x lo); destruct (Rlt_dec hi lo); destruct (Rlt_dec hi x); intros; try lra.
Qed.
Lemma sclamp_below (x lo hi : R) : lo <= hi -> x < lo -> sclamp x lo hi = lo.
Proof.
  intros. unfold sclamp, smin, smax. sR. unfold Rltb.
  destruct (Rlt_dec x lo); [|lra]. destruct (Rlt_dec hi lo); [lra|]. reflexivity.
Qed.
Lemma sclamp_above (x lo hi : R) : lo <= hi -> hi < x -> sclamp x lo hi = hi.
Proof.
  intros. unfold sclamp, smin, smax. sR. unfold Rltb.
  destruct (Rlt_dec x lo); [lra|]. destruct (Rlt_dec hi x); [|lra]. reflexivity.
Qed.

Lemma locally_preimage (G : R -> R) (v0 : R) (P : R -> Prop) :
  continuous G v0 -> open P -> P (G v0) -> locally v0 (fun v => P (G v)).
Proof. intros Hc Ho HP. apply (Hc P). apply Ho. exact HP. Qed.

(* ---- muscle force-velocity curve ---- *)
Definition MINV : R := @MINVAL R ScalarR.
Lemma MINV_pos : 0 < MINV.
Proof. unfold MINV, MINVAL, slit. sR. apply Rdiv_lt_0_compat; lra. Qed.
Lemma smax_MINV_pos x : 0 < smax MINV x.
Proof. unfold smax. sR. unfold Rltb. pose proof MINV_pos. destruct (Rlt_dec MINV x); lra. Qed.

(* FV and its claimed derivative, as util_misc.muscle_gain / muscle_gain_vel compute them *)
Definition FVc (fvmax V : R) : R :=
  let y := fvmax - 1 in
  if Rleb V (- 1) then 0
  else if Rleb V 0 then (V + 1) * (V + 1)
  else if Rleb V y then fvmax - ((y - V) * (y - V)) / smax MINV y
  else fvmax.
Definition dFVc (fvmax V : R) : R :=
  let y := fvmax - 1 in
  if Rleb V (- 1) then 0
  else if Rleb V 0 then 2 * V + 2
  else if Rleb V y then (2 * (y - V)) / smax MINV y
  else 0.

Lemma FVc_derive fvmax V0 :
  V0 <> -1 -> V0 <> 0 -> V0 <> fvmax - 1 -> is_derive (FVc fvmax) V0 (dFVc fvmax V0).
Proof.
  intros H1 H2 H3. set (y := fvmax - 1) in *.
  assert (Hm : smax MINV y <> 0) by (pose proof (smax_MINV_pos y); lra).
  set (m := smax MINV y) in *.
  destruct (Rlt_dec V0 (-1)) as [Ha|Ha].
  { (* V < -1 *)
    apply (is_derive_ext_loc (fun _ => 0)).
    - assert (Hl : locally V0 (fun V => V < -1)) by (apply (open_lt (-1)); exact Ha).
      revert Hl. apply filter_imp. intros V HV. unfold FVc.
      replace (Rleb V (-1)) with true by (symmetry; apply Rleb_true; lra). reflexivity.
    - unfold dFVc. replace (Rleb V0 (-1)) with true by (symmetry; apply Rleb_true; lra). apply @is_derive_const. }
  destruct (Rlt_dec V0 0) as [Hb|Hb].
  { (* -1 < V < 0 *)
    apply (is_derive_ext_loc (fun V => (V + 1) * (V + 1))).
    - assert (Hl : locally V0 (fun V => -1 < V /\ V < 0)) by (apply (open_and _ _ (open_gt (-1)) (open_lt 0)); lra).
      revert Hl. apply filter_imp. intros V [HV1 HV2]. unfold FVc.
      replace (Rleb V (-1)) with false by (symmetry; apply Rleb_false; lra).
      replace (Rleb V 0) with true by (symmetry; apply Rleb_true; lra). reflexivity.
    - unfold dFVc. replace (Rleb V0 (-1)) with false by (symmetry; apply Rleb_false; lra).
      replace (Rleb V0 0) with true by (symmetry; apply Rleb_true; lra). ad. }
  destruct (Rlt_dec V0 y) as [Hc|Hc].
  { (* 0 < V < y *)
    apply (is_derive_ext_loc (fun V => fvmax - ((y - V) * (y - V)) * / m)).
    - assert (Hl : locally V0 (fun V => 0 < V /\ V < y)) by (apply (open_and _ _ (open_gt 0) (open_lt y)); lra).
      revert Hl. apply filter_imp. intros V [HV1 HV2]. unfold FVc. fold y. fold m.
      replace (Rleb V (-1)) with false by (symmetry; apply Rleb_false; lra).
      replace (Rleb V 0) with false by (symmetry; apply Rleb_false; lra).
      replace (Rleb V y) with true by (symmetry; apply Rleb_true; lra). reflexivity.
    - unfold dFVc. fold y. fold m. replace (Rleb V0 (-1)) with false by (symmetry; apply Rleb_false; lra).
      replace (Rleb V0 0) with false by (symmetry; apply Rleb_false; lra).
      replace (Rleb V0 y) with true by (symmetry; apply Rleb_true; lra).
      unfold Rdiv. generalize (/ m). intro im. ad. }
  { (* V > 0, V > y *)
    apply (is_derive_ext_loc (fun _ => fvmax)).
    - assert (Hl : locally V0 (fun V => 0 < V /\ y < V)) by (apply (open_and _ _ (open_gt 0) (open_gt y)); lra).
      revert Hl. apply filter_imp. intros V [HV1 HV2]. unfold FVc. fold y.
      replace (Rleb V (-1)) with false by (symmetry; apply Rleb_false; lra).
      replace (Rleb V 0) with false by (symmetry; apply Rleb_false; lra).
      replace (Rleb V y) with false by (symmetry; apply Rleb_false; lra). reflexivity.
    - unfold dFVc. fold y. replace (Rleb V0 (-1)) with false by (symmetry; apply Rleb_false; lra).
      replace (Rleb V0 0) with false by (symmetry; apply Rleb_false; lra).
      replace (Rleb V0 y) with false by (symmetry; apply Rleb_false; lra). apply @is_derive_const. }
Qed.

(* the velocity-independent factors of muscle_gain *)
Definition mus_L0 (lr prm : list R) : R :=
  (vget lr 1 - vget lr 0) / smax MINV (vget prm 1 - vget prm 0).
Definition mus_c (lr prm : list R) : R := smax MINV (mus_L0 lr prm * vget prm 6).
Definition mus_A (len : R) (lr : list R) (acc0 : R) (prm : list R) : R :=
  let force := if Rltb (vget prm 2) 0 then vget prm 3 / smax MINV acc0 else vget prm 2 in
  - force * U.muscle_gain_length (vget prm 0 + (len - vget lr 0) / smax MINV (mus_L0 lr prm)) (vget prm 4) (vget prm 5).
(* normalised velocity V = vel / max(MINVAL, L0 * vmax) *)
Definition mus_V (v : R) (lr prm : list R) : R := v / mus_c lr prm.

Lemma muscle_gain_form len v lr acc0 prm :
  U.muscle_gain len v lr acc0 prm = mus_A len lr acc0 prm * FVc (vget prm 8) (mus_V v lr prm).
Proof. reflexivity. Qed.
Lemma muscle_gain_vel_form len v lr acc0 prm :
  U.muscle_gain_vel len v lr acc0 prm = mus_A len lr acc0 prm * dFVc (vget prm 8) (mus_V v lr prm) / mus_c lr prm.
Proof. reflexivity. Qed.

(* muscle_gain_vel is d muscle_gain / d vel away from the three breakpoints of the FV curve
   (_partial: at V = -1, 0, fvmax-1 the curve is C1 only when fvmax - 1 >= MINVAL; not proved) *)
Theorem muscle_gain_vel_correct_partial len v0 lr acc0 prm :
  mus_V v0 lr prm <> -1 -> mus_V v0 lr prm <> 0 -> mus_V v0 lr prm <> vget prm 8 - 1 ->
  is_derive (fun v => U.muscle_gain len v lr acc0 prm) v0 (U.muscle_gain_vel len v0 lr acc0 prm).
Proof.
  intros H1 H2 H3. rewrite muscle_gain_vel_form.
  apply (is_derive_ext (fun v => mus_A len lr acc0 prm * FVc (vget prm 8) (mus_V v lr prm))).
  { intro v. symmetry. apply muscle_gain_form. }
  set (A := mus_A len lr acc0 prm). set (c := mus_c lr prm).
  assert (Hc : c <> 0) by (unfold c, mus_c; pose proof (smax_MINV_pos (mus_L0 lr prm * vget prm 6)); lra).
  replace (A * dFVc (vget prm 8) (mus_V v0 lr prm) / c) with (A * ((/ c) * dFVc (vget prm 8) (mus_V v0 lr prm))) by (field; exact Hc).
  apply (is_derive_scal (fun v => FVc (vget prm 8) (mus_V v lr prm)) v0 A).
  apply (is_derive_comp (FVc (vget prm 8)) (fun v => mus_V v lr prm) v0 (dFVc (vget prm 8) (mus_V v0 lr prm)) (/ c)).
  - apply FVc_derive; assumption.
  - unfold mus_V. fold c. unfold Rdiv. generalize (/ c). intro ic. ad.
Qed.

(* the hypotheses of muscle_gain_vel_correct_partial are satisfiable: lengthrange [0,1], range [0,1],
   vmax 1, fvmax 2, velocity 1/2 gives V = 1/2, away from -1, 0 and fvmax - 1 = 1 *)
Example muscle_regular_example :
  let prm := [0; 1; 1; 1; 1/2; 3/2; 1; 1; 2] in
  mus_V (1/2) [0; 1] prm = 1/2 /\
  is_derive (fun v => U.muscle_gain (1/2) v [0; 1] 1 prm) (1/2) (U.muscle_gain_vel (1/2) (1/2) [0; 1] 1 prm).
Proof.
  cbv zeta.
  assert (Hs : smax MINV 1 = 1).
  { unfold smax. sR. unfold Rltb. destruct (Rlt_dec MINV 1) as [|Hn]; [reflexivity|].
    exfalso. apply Hn. unfold MINV, MINVAL, slit. sR. apply Rmult_lt_reg_r with 1000000000000000; [lra|].
    unfold Rdiv. rewrite Rmult_assoc, Rinv_l by lra. lra. }
  assert (HV : mus_V (1/2) [0; 1] [0; 1; 1; 1; 1/2; 3/2; 1; 1; 2] = 1/2).
  { unfold mus_V, mus_c, mus_L0.
    change (vget [0; 1] 1) with 1. change (vget [0; 1] 0) with 0.
    change (vget [0; 1; 1; 1; 1/2; 3/2; 1; 1; 2] 1) with 1. change (vget [0; 1; 1; 1; 1/2; 3/2; 1; 1; 2] 0) with 0.
    change (vget [0; 1; 1; 1; 1/2; 3/2; 1; 1; 2] 6) with 1.
    replace (1 - 0) with 1 by lra. rewrite Hs. replace (1 / 1 * 1) with 1 by lra. rewrite Hs. lra. }
  split; [exact HV|].
  apply muscle_gain_vel_correct_partial; rewrite HV;
    try change (vget [0; 1; 1; 1; 1/2; 3/2; 1; 1; 2] 8) with 2; lra.
Qed.

Section Act.
  Variables (na : Z) (h : R) (dyntype gaintype biastype actadr actnum : Z)
            (dynprm gainprm biasprm : list R) (actlimited : bool) (actrange : list R)
            (actearly forcelimited : bool) (forcerange : list R) (ctrllimited : bool) (ctrlrange : list R)
            (acc0 : R) (lengthrange : list R)
            (act_in : list R) (ctrl len : R) (dsbl : Z) (act_dot_in : list R).

  Definition Fm (fl : bool) (v : R) : R * R :=
    actuator_force_model na h dyntype gaintype biastype actadr actnum dynprm gainprm biasprm actlimited actrange
      actearly fl forcerange ctrllimited ctrlrange acc0 lengthrange act_in ctrl len v dsbl.
  (* force as a function of the actuator velocity, and the act_dot the same task stores *)
  Definition F (v : R) : R := snd (Fm forcelimited v).
  Definition Adot (v : R) : R := fst (Fm forcelimited v).
  (* the force before the forcerange clamp *)
  Definition Funclamped (v : R) : R := snd (Fm false v).
  (* value stored by the derivative kernel, given the velocity and force it reads *)
  Definition Kval (v force : R) : R :=
    qderiv_vel_model h dyntype gaintype biastype actadr actnum dynprm gainprm biasprm actlimited actrange
      actearly forcelimited forcerange ctrllimited ctrlrange acc0 lengthrange act_in ctrl act_dot_in len v force dsbl.

  Let last := (actadr + actnum - 1)%Z.
  Let guard := negb (Z.eqb na 0) && Z.geb actadr 0.
  Let ctrlc := if ctrllimited && Z.eqb dsbl 0 then sclamp ctrl (vget ctrlrange 0) (vget ctrlrange 1) else ctrl.
  Let adot := if guard then
                (if Z.eqb dyntype 1 then ctrlc
                 else if Z.eqb dyntype 2 || Z.eqb dyntype 3
                      then sdiv (ssub ctrlc (vget act_in last)) (smax (vget dynprm 0) MINVAL)
                      else if Z.eqb dyntype 4 then U.muscle_dynamics ctrlc (vget act_in last) dynprm else 0)
              else 0.
  Let cact := if guard then
                (if actearly then VF.Gen.support_act.next_act h dyntype dynprm actrange (vget act_in last) adot 1 actlimited
                 else vget act_in last)
              else ctrlc.
  Let gainf (v : R) : R :=
    if Z.eqb gaintype 0 then vget gainprm 0
    else if Z.eqb gaintype 1 then vget gainprm 0 + vget gainprm 1 * len + vget gainprm 2 * v
    else if Z.eqb gaintype 2 then U.muscle_gain len v lengthrange acc0 gainprm else 0.
  Let biasf (v : R) : R :=
    if Z.eqb biastype 1 then vget biasprm 0 + vget biasprm 1 * len + vget biasprm 2 * v
    else if Z.eqb biastype 2 then U.muscle_bias len lengthrange acc0 biasprm else 0.
  Let gaind (v : R) : R :=
    if Z.eqb gaintype 1 then vget gainprm 2
    else if Z.eqb gaintype 2 then U.muscle_gain_vel len v lengthrange acc0 gainprm else 0.
  Let bv := if Z.eqb biastype 1 then vget biasprm 2 else 0.
  (* unclamped force *)
  Let G (v : R) : R := gainf v * cact + biasf v.

  Lemma Fm_eq fl v : Fm fl v = (adot, if fl then sclamp (G v) (vget forcerange 0) (vget forcerange 1) else G v).
  Proof.
    unfold Fm, actuator_force_model. fold last. fold guard. fold ctrlc.
    unfold G, gainf, biasf, cact, adot.
    destruct guard; destruct fl; reflexivity.
  Qed.

  (* the muscle FV curve is differentiated away from its breakpoints only *)
  Definition muscle_regular (v0 : R) : Prop :=
    gaintype = 2%Z ->
    mus_V v0 lengthrange gainprm <> -1 /\ mus_V v0 lengthrange gainprm <> 0 /\
    mus_V v0 lengthrange gainprm <> vget gainprm 8 - 1.

  Lemma gainf_derive v0 : muscle_regular v0 -> is_derive gainf v0 (gaind v0).
  Proof.
    intro Hm. unfold gainf, gaind.
    destruct (Z.eqb gaintype 0) eqn:E0.
    { apply Z.eqb_eq in E0. replace (Z.eqb gaintype 1) with false by (symmetry; apply Z.eqb_neq; lia).
      replace (Z.eqb gaintype 2) with false by (symmetry; apply Z.eqb_neq; lia). apply @is_derive_const. }
    destruct (Z.eqb gaintype 1) eqn:E1. { ad. }
    destruct (Z.eqb gaintype 2) eqn:E2; [| apply @is_derive_const].
    apply Z.eqb_eq in E2. destruct (Hm E2) as (H1 & H2 & H3).
    apply muscle_gain_vel_correct_partial; assumption.
  Qed.

  Lemma biasf_derive v0 : is_derive biasf v0 bv.
  Proof.
    unfold biasf, bv. destruct (Z.eqb biastype 1). { ad. }
    destruct (Z.eqb biastype 2); apply @is_derive_const.
  Qed.

  Lemma G_derive v0 : muscle_regular v0 -> is_derive G v0 (gaind v0 * cact + bv).
  Proof.
    intro Hm. unfold G.
    apply (is_derive_plus (fun v => gainf v * cact) biasf v0 (gaind v0 * cact) bv).
    - apply (is_derive_ext (fun v => cact * gainf v)). { intro v. rring. }
      replace (gaind v0 * cact) with (cact * gaind v0) by ring.
      apply (is_derive_scal gainf v0 cact (gaind v0)). apply gainf_derive. exact Hm.
    - apply biasf_derive.
  Qed.

  Hypothesis Hgain : gaintype <> 3%Z.
  Hypothesis Hbias : biastype <> 3%Z.

  (* what the derivative kernel multiplies the gain's velocity coefficient with *)
  Let actk := if negb (Z.eqb dyntype 0)
              then (if actearly then VF.Gen.support_act.next_act h dyntype dynprm actrange (vget act_in last) (vget act_dot_in last) 1 actlimited
                    else vget act_in last)
              else ctrlc.
  (* the kernel's own bias accumulator (0, or 0 + biasprm[2]) *)
  Let bk := if Z.eqb biastype 1 then 0 + vget biasprm 2 else 0.
  Lemma bk_bv : bk = bv.
  Proof. unfold bk, bv. destruct (Z.eqb biastype 1); lra. Qed.

  Lemma Kval_eq v force :
    Kval v force =
      if Reqb bk 0 && Reqb (gaind v) 0 then 0
      else if forcelimited && (Rleb force (vget forcerange 0) || Rleb (vget forcerange 1) force) then 0
      else if Reqb (gaind v) 0 then bk else bk + gaind v * actk.
  Proof.
    unfold Kval, qderiv_vel_model. fold last. fold ctrlc.
    replace (Z.eqb gaintype 3) with false by (symmetry; apply Z.eqb_neq; exact Hgain).
    replace (Z.eqb biastype 3) with false by (symmetry; apply Z.eqb_neq; exact Hbias).
    unfold gaind, bk, actk.
    destruct (Z.eqb gaintype 1); [| destruct (Z.eqb gaintype 2)]; destruct (Z.eqb biastype 1); cbv zeta;
      cbv [sadd smul sofZ seqb sleb sgeb sneb ScalarR];
      match goal with |- context [Reqb ?a 0 && Reqb ?b 0] => destruct (Reqb a 0); destruct (Reqb b 0) eqn:Eg end;
      simpl andb; cbv iota; try reflexivity;
      destruct (forcelimited && _); try reflexivity;
      destruct (Z.eqb dyntype 0); simpl negb; cbv iota; try reflexivity.
  Qed.

  Section AtV.
    Variable v0 : R.
    (* consistent model: no activation state <-> dyntype NONE *)
    Hypothesis Hdyn : (dyntype = 0%Z /\ guard = false) \/ (dyntype <> 0%Z /\ guard = true).
    (* d.act_dot holds what the force kernel stored *)
    Hypothesis Hadot : dyntype <> 0%Z -> vget act_dot_in last = Adot v0.
    Hypothesis Hmus : muscle_regular v0.

    Lemma actk_cact : actk = cact.
    Proof.
      unfold actk, cact.
      destruct Hdyn as [[Hd Hg] | [Hd Hg]]; rewrite Hg.
      - rewrite Hd. reflexivity.
      - replace (Z.eqb dyntype 0) with false by (symmetry; apply Z.eqb_neq; exact Hd). simpl.
        case_eq actearly; intro Eae; [|reflexivity].
        rewrite (Hadot Hd). unfold Adot. rewrite Fm_eq. simpl. reflexivity.
    Qed.

    Lemma Kval_interior :
      (if Reqb bk 0 && Reqb (gaind v0) 0 then 0
       else if Reqb (gaind v0) 0 then bk else bk + gaind v0 * cact) = gaind v0 * cact + bv.
    Proof.
      rewrite bk_bv.
      destruct (Reqb bv 0) eqn:Eb; destruct (Reqb (gaind v0) 0) eqn:Eg; simpl;
        try (apply Reqb_true in Eb); try (apply Reqb_true in Eg); try rewrite Eg; try lra.
    Qed.

    (* not clamped by forcerange: the kernel's own test on the stored force fails *)
    Theorem actuator_vel_deriv :
      (forcelimited = false \/ vget forcerange 0 < F v0 < vget forcerange 1) ->
      is_derive F v0 (Kval v0 (F v0)).
    Proof.
      intros Hfr. rewrite Kval_eq. rewrite actk_cact.
      assert (HF : forall v, F v = if forcelimited then sclamp (G v) (vget forcerange 0) (vget forcerange 1) else G v).
      { intro v. unfold F. rewrite Fm_eq. reflexivity. }
      pose proof Kval_interior as Hval.
      destruct Hfr as [Hfl | Hin].
      - rewrite Hfl. simpl andb. cbv iota. rewrite Hval.
        apply (is_derive_ext G). { intro v. rewrite HF, Hfl. reflexivity. } apply G_derive. exact Hmus.
      - assert (Hnot : (Rleb (F v0) (vget forcerange 0) || Rleb (vget forcerange 1) (F v0)) = false).
        { apply orb_false_iff. split; apply Rleb_false; lra. }
        rewrite Hnot, andb_false_r. rewrite Hval.
        case_eq forcelimited; intro Efl.
        + assert (HF' : forall v, F v = sclamp (G v) (vget forcerange 0) (vget forcerange 1)) by (intro v; rewrite HF, Efl; reflexivity).
          assert (HG0 : G v0 = F v0). { rewrite HF'. rewrite HF' in Hin. symmetry. apply sclamp_strict_inv. exact Hin. }
          apply (is_derive_ext_loc G).
          * assert (Hl : locally v0 (fun v => vget forcerange 0 < G v < vget forcerange 1)).
            { apply (locally_preimage G v0 (fun y => vget forcerange 0 < y < vget forcerange 1)).
              - apply (ex_derive_continuous G v0). eexists. apply G_derive. exact Hmus.
              - apply open_and; [apply open_gt | apply open_lt].
              - rewrite HG0. exact Hin. }
            revert Hl. apply filter_imp. intros v Hv. rewrite HF'. symmetry. apply sclamp_inside. exact Hv.
          * apply G_derive. exact Hmus.
        + apply (is_derive_ext G). { intro v. rewrite HF, Efl. reflexivity. } apply G_derive. exact Hmus.
    Qed.

    (* clamped by forcerange (strictly outside): the force is locally constant, the kernel stores 0 *)
    Theorem actuator_vel_deriv_forceclamped :
      forcelimited = true -> vget forcerange 0 <= vget forcerange 1 ->
      (Funclamped v0 < vget forcerange 0 \/ vget forcerange 1 < Funclamped v0) ->
      is_derive F v0 0 /\ Kval v0 (F v0) = 0.
    Proof.
      intros Hfl Hle Hout. unfold Funclamped in Hout. rewrite Fm_eq in Hout. simpl snd in Hout.
      assert (HF : forall v, F v = sclamp (G v) (vget forcerange 0) (vget forcerange 1)).
      { intro v. unfold F. rewrite Fm_eq. rewrite Hfl. reflexivity. }
      assert (Hc : continuous G v0) by (apply (ex_derive_continuous G v0); eexists; apply G_derive; exact Hmus).
      split.
      - destruct Hout as [Hlo | Hhi].
        + apply (is_derive_ext_loc (fun _ => vget forcerange 0)).
          * assert (Hl : locally v0 (fun v => G v < vget forcerange 0))
              by (apply (locally_preimage G v0 (fun y => y < vget forcerange 0)); [exact Hc | apply open_lt | exact Hlo]).
            revert Hl. apply filter_imp. intros v Hv. rewrite HF. symmetry. apply sclamp_below; assumption.
          * apply @is_derive_const.
        + apply (is_derive_ext_loc (fun _ => vget forcerange 1)).
          * assert (Hl : locally v0 (fun v => vget forcerange 1 < G v))
              by (apply (locally_preimage G v0 (fun y => vget forcerange 1 < y)); [exact Hc | apply open_gt | exact Hhi]).
            revert Hl. apply filter_imp. intros v Hv. rewrite HF. symmetry. apply sclamp_above; assumption.
          * apply @is_derive_const.
      - rewrite Kval_eq. rewrite Hfl.
        assert (Ht : (Rleb (F v0) (vget forcerange 0) || Rleb (vget forcerange 1) (F v0)) = true).
        { rewrite HF. destruct Hout as [Hlo | Hhi].
          - rewrite sclamp_below by assumption. apply orb_true_iff. left. apply Rleb_true. lra.
          - rewrite sclamp_above by assumption. apply orb_true_iff. right. apply Rleb_true. lra. }
        rewrite Ht. simpl. destruct (Reqb bk 0 && Reqb (gaind v0) 0); reflexivity.
    Qed.
  End AtV.
End Act.

(* the statements used by Props/C27.v: the hand model of _actuator_force does not cover DC-motor
   dynamics (dyntype 5), so that case is excluded explicitly *)
Theorem actuator_vel_deriv_nodc :
  forall (na : Z) (h : R) (dyntype gaintype biastype actadr actnum : Z)
         (dynprm gainprm biasprm : list R) (actlimited : bool) (actrange : list R)
         (actearly forcelimited : bool) (forcerange : list R) (ctrllimited : bool) (ctrlrange : list R)
         (acc0 : R) (lengthrange act_in : list R) (ctrl len : R) (dsbl : Z) (act_dot_in : list R),
    dyntype <> 5%Z -> gaintype <> 3%Z -> biastype <> 3%Z ->
    forall v0 : R,
      (dyntype = 0%Z /\ (negb (na =? 0)%Z && (actadr >=? 0)%Z)%bool = false \/
       dyntype <> 0%Z /\ (negb (na =? 0)%Z && (actadr >=? 0)%Z)%bool = true) ->
      (dyntype <> 0%Z ->
       vget act_dot_in (actadr + actnum - 1) =
       Adot na h dyntype gaintype biastype actadr actnum dynprm gainprm biasprm actlimited actrange actearly
         forcelimited forcerange ctrllimited ctrlrange acc0 lengthrange act_in ctrl len dsbl v0) ->
      muscle_regular gaintype gainprm lengthrange v0 ->
      (forcelimited = false \/
       vget forcerange 0 <
         F na h dyntype gaintype biastype actadr actnum dynprm gainprm biasprm actlimited actrange actearly
           forcelimited forcerange ctrllimited ctrlrange acc0 lengthrange act_in ctrl len dsbl v0 < vget forcerange 1) ->
      is_derive
        (F na h dyntype gaintype biastype actadr actnum dynprm gainprm biasprm actlimited actrange actearly
           forcelimited forcerange ctrllimited ctrlrange acc0 lengthrange act_in ctrl len dsbl) v0
        (Kval h dyntype gaintype biastype actadr actnum dynprm gainprm biasprm actlimited actrange actearly
           forcelimited forcerange ctrllimited ctrlrange acc0 lengthrange act_in ctrl len dsbl act_dot_in v0
           (F na h dyntype gaintype biastype actadr actnum dynprm gainprm biasprm actlimited actrange actearly
              forcelimited forcerange ctrllimited ctrlrange acc0 lengthrange act_in ctrl len dsbl v0)).
Proof. intros. apply actuator_vel_deriv; assumption. Qed.

Theorem actuator_vel_deriv_forceclamped_nodc :
  forall (na : Z) (h : R) (dyntype gaintype biastype actadr actnum : Z)
         (dynprm gainprm biasprm : list R) (actlimited : bool) (actrange : list R)
         (actearly forcelimited : bool) (forcerange : list R) (ctrllimited : bool) (ctrlrange : list R)
         (acc0 : R) (lengthrange act_in : list R) (ctrl len : R) (dsbl : Z) (act_dot_in : list R),
    dyntype <> 5%Z -> gaintype <> 3%Z -> biastype <> 3%Z ->
    forall v0 : R,
      muscle_regular gaintype gainprm lengthrange v0 ->
      forcelimited = true -> vget forcerange 0 <= vget forcerange 1 ->
      (Funclamped na h dyntype gaintype biastype actadr actnum dynprm gainprm biasprm actlimited actrange actearly
         forcerange ctrllimited ctrlrange acc0 lengthrange act_in ctrl len dsbl v0 < vget forcerange 0 \/
       vget forcerange 1 <
       Funclamped na h dyntype gaintype biastype actadr actnum dynprm gainprm biasprm actlimited actrange actearly
         forcerange ctrllimited ctrlrange acc0 lengthrange act_in ctrl len dsbl v0) ->
      is_derive
        (F na h dyntype gaintype biastype actadr actnum dynprm gainprm biasprm actlimited actrange actearly
           forcelimited forcerange ctrllimited ctrlrange acc0 lengthrange act_in ctrl len dsbl) v0 0 /\
      Kval h dyntype gaintype biastype actadr actnum dynprm gainprm biasprm actlimited actrange actearly
        forcelimited forcerange ctrllimited ctrlrange acc0 lengthrange act_in ctrl len dsbl act_dot_in v0
        (F na h dyntype gaintype biastype actadr actnum dynprm gainprm biasprm actlimited actrange actearly
           forcelimited forcerange ctrllimited ctrlrange acc0 lengthrange act_in ctrl len dsbl v0) = 0.
Proof. intros. apply actuator_vel_deriv_forceclamped; assumption. Qed.

(* ---- regression witness of the repaired defect C27:_qderiv_actuator_passive_vel:ctrl-not-clamped ----
   dyntype none, gain = 1 + 2*velocity, ctrlrange [-1, 1], ctrl = 3 (clamped to 1):
   force(v) = (1 + 2 v) * 1, d force / d v = 2, and the kernel (since /repo 62f359e) stores 2 * clamp(3) = 2.
   Before the repair it stored 2 * 3 = 6. *)
Theorem actuator_vel_deriv_clamped_ctrl_witness :
  let Fx := F 0 (1/500) 0 1 0 (-1) 0 [] [1; 0; 2] [] false [] false false [] true [-1; 1] 1 [-1; 1] [] 3 0 0 in
  let K := Kval (1/500) 0 1 0 (-1) 0 [] [1; 0; 2] [] false [] false false [] true [-1; 1] 1 [-1; 1] [] 3 0 0 [] 0 (Fx 0) in
  K = 2 /\ is_derive Fx 0 K.
Proof.
  cbv zeta.
  assert (HD : is_derive (F 0 (1/500) 0 1 0 (-1) 0 [] [1; 0; 2] [] false [] false false [] true [-1; 1] 1 [-1; 1] [] 3 0 0) 0
                 (Kval (1/500) 0 1 0 (-1) 0 [] [1; 0; 2] [] false [] false false [] true [-1; 1] 1 [-1; 1] [] 3 0 0 [] 0
                    (F 0 (1/500) 0 1 0 (-1) 0 [] [1; 0; 2] [] false [] false false [] true [-1; 1] 1 [-1; 1] [] 3 0 0 0))).
  { apply actuator_vel_deriv.
    - discriminate.
    - discriminate.
    - left. split; reflexivity.
    - intro Hc. exfalso. apply Hc. reflexivity.
    - intro Hc. discriminate Hc.
    - left. reflexivity. }
  split; [| exact HD].
  assert (Hc : sclamp 3 (-1) 1 = 1).
  { unfold sclamp, smin, smax. sR. unfold Rltb.
    destruct (Rlt_dec 3 (-1)); [lra|]. destruct (Rlt_dec 1 3); [reflexivity | lra]. }
  unfold Kval, qderiv_vel_model. cbv zeta. simpl Z.eqb. cbv iota. simpl negb. cbv iota. simpl andb. cbv iota.
  change (vget [1; 0; 2] 2) with 2. change (vget [-1; 1] 0) with (-1). change (vget [-1; 1] 1) with 1.
  cbv [sadd smul sofZ seqb sneb ScalarR].
  replace (Reqb 0 0) with true by (symmetry; apply Reqb_true; lra).
  replace (Reqb 2 0) with false by (symmetry; apply Reqb_false; lra).
  simpl. match goal with |- 0 + 2 * ?x = 2 => change x with (@sclamp R ScalarR 3 (-1) 1) end. rewrite Hc. lra.
Qed.

(* ---- deriv_rne_body2jnt_sparse: with flg_subtract = false (what implicit() passes since the
   repair 1a4962a) the task ADDS  dt * (cdof_i . Dcfrc_body[body(i), j])  at D-element elemid ---- *)
Theorem rne_body2jnt_adds :
  forall (w e : Z) (dof_bodyid : Z -> Z) (cdof_in : Z -> Z -> list R) (timestep : Z -> R) (Di Dj : Z -> Z)
         (Dcfrc : Z -> Z -> Z -> list R) (flg : bool) (qDeriv_out : Z -> Z -> R) (orc : nat -> Z) (sh : Z),
    TD.k_deriv_rne_body2jnt_sparse w e dof_bodyid cdof_in timestep Di Dj Dcfrc flg qDeriv_out orc sh
    = [mkW "qDeriv_out" [w; e] (if flg then KSub else KAdd)
         (VS (timestep (Z.rem w sh) * vdot (cdof_in w (Di e)) (Dcfrc w (dof_bodyid (Di e)) (Dj e))))].
Proof. intros. unfold TD.k_deriv_rne_body2jnt_sparse. destruct flg; reflexivity. Qed.

(* non-vacuity of actuator_vel_deriv: integrator dynamics, affine gain and bias, ctrl inside
   its range, act_dot consistent with the force kernel *)
Example actuator_vel_deriv_affine_example :
  let adot := Adot 1 (1/500) 1 1 1 0 1 [] [1; 0; 2] [0; 0; -1] false [] false false [] true [-1; 1] 1 [-1; 1] [1/2] (1/2) 0 0 3 in
  is_derive (F 1 (1/500) 1 1 1 0 1 [] [1; 0; 2] [0; 0; -1] false [] false false [] true [-1; 1] 1 [-1; 1] [1/2] (1/2) 0 0) 3
    (Kval (1/500) 1 1 1 0 1 [] [1; 0; 2] [0; 0; -1] false [] false false [] true [-1; 1] 1 [-1; 1] [1/2] (1/2) 0 0 [adot] 3
       (F 1 (1/500) 1 1 1 0 1 [] [1; 0; 2] [0; 0; -1] false [] false false [] true [-1; 1] 1 [-1; 1] [1/2] (1/2) 0 0 3)).
Proof.
  cbv zeta. apply actuator_vel_deriv.
  - discriminate.
  - discriminate.
  - right. split; [discriminate | reflexivity].
  - intros _. reflexivity.
  - intro Hc. discriminate Hc.
  - left. reflexivity.
Qed.

(* ===== 5. tendon damping: passive force kernel and its velocity derivative kernel ===== *)

(* sum_{k < n} c (lo + k) *)
Fixpoint sumZ (n : nat) (lo : Z) (c : Z -> R) : R :=
  match n with O => 0 | S n' => c lo + sumZ n' (lo + 1)%Z c end.

Lemma for_nat_ext {A} n : forall lo (acc : A) f g,
  (forall i a, f i a = g i a) -> for_nat n lo acc f = for_nat n lo acc g.
Proof. induction n; intros; simpl; auto. rewrite H. apply IHn. exact H. Qed.

Lemma for_nat_sub n : forall lo acc (c : Z -> R),
  for_nat n lo acc (fun t a => a - c t) = acc + sumZ n lo (fun t => - c t).
Proof. induction n; intros; simpl. lra. rewrite IHn. lra. Qed.

Lemma sumZ_scal n : forall lo (c : Z -> R) k, k * sumZ n lo c = sumZ n lo (fun t => k * c t).
Proof. induction n; intros; simpl. lra. rewrite <- IHn. lra. Qed.

Lemma sumZ_ext n : forall lo (c d : Z -> R), (forall t, c t = d t) -> sumZ n lo c = sumZ n lo d.
Proof. induction n; intros; simpl; auto. rewrite H. f_equal. apply IHn. exact H. Qed.

Theorem qderiv_tendon_damping_write :
  forall (w e ntendon : Z) (rownnz rowadr colind : Z -> Z) (M_elemid : Z -> Z -> Z)
         (ten_J_in : Z -> Z -> R) (Mi Mj : Z -> Z),
  exists JJ : Z -> R,
  forall (opt_timestep : Z -> R) (tdamp : Z -> Z -> R) (tpoly : Z -> Z -> list R) (tvel qDeriv_out : Z -> Z -> R)
         (orc : nat -> Z) (sh0 sh1 sh2 : Z),
    let madr := M_elemid (Mi e) (Mj e) in
    let h := opt_timestep (Z.rem w sh2) in
    (0 <= madr)%Z ->
    exists D : Z -> R,
      (forall t, is_derive (damper_force (tdamp (Z.rem w sh0) t) (tpoly (Z.rem w sh1) t)) (tvel w t) (D t)) /\
      TD.k__qderiv_tendon_damping w e ntendon opt_timestep rownnz rowadr colind tdamp tpoly M_elemid ten_J_in tvel Mi Mj
        qDeriv_out orc sh0 sh1 sh2
      = [mkW "qDeriv_out" [w; madr] KSet
           (VS (qDeriv_out w madr - h * sumZ (Z.to_nat ntendon) 0 (fun t => JJ t * D t)))].
Proof.
  intros. evar (JJ : Z -> R). exists JJ. intros.
  exists (fun t => - U._poly_force_deriv (tdamp (Z.rem w sh0) t) (tpoly (Z.rem w sh1) t) (tvel w t) 1).
  split. { intro t. apply damper_force_derive. }
  unfold TD.k__qderiv_tendon_damping. cbv zeta. fold madr.
  replace (Z.ltb madr 0) with false by (symmetry; apply Z.ltb_ge; lia).
  unfold for_range at 1. replace (ntendon - 0)%Z with ntendon by lia.
  erewrite (for_nat_ext (Z.to_nat ntendon) 0%Z _ _
             (fun t a => a - JJ t * U._poly_force_deriv (tdamp (Z.rem w sh0) t) (tpoly (Z.rem w sh1) t) (tvel w t) 1)).
  2:{ intros t a. cbv beta.
      set (d := tdamp (Z.rem w sh0) t). set (p := tpoly (Z.rem w sh1) t).
      match goal with |- context [if ?g then true else false] => destruct g eqn:G end.
      2:{ simpl negb. cbv iota.
          match goal with |- ssub ?a0 (smul (smul ?x ?y) ?z) = _ => change (ssub a0 (smul (smul x y) z)) with (a0 - (x * y) * z) end.
          rewrite td_poly_deriv_eq. unfold Rminus. apply f_equal. apply f_equal.
          apply (f_equal (fun q => q * U._poly_force_deriv d p (tvel w t) 1)). unfold JJ. reflexivity. }
      (* all coefficients zero: the skipped term is zero *)
      simpl negb. cbv iota.
      apply andb_true_iff in G. destruct G as [G G3]. apply andb_true_iff in G. destruct G as [G1 G2].
      change (Reqb d 0 = true) in G1. change (Reqb (vget p 0) 0 = true) in G2. change (Reqb (vget p 1) 0 = true) in G3.
      apply Reqb_true in G1, G2, G3.
      replace (U._poly_force_deriv d p (tvel w t) 1) with 0.
      2:{ rewrite poly_force_deriv_formula, G1, G2, G3. ring. }
      rewrite Rmult_0_r, Rminus_0_r. reflexivity. }
  rewrite for_nat_sub. simpl app.
  match goal with |- [mkW _ _ _ (VS ?a)] = [mkW _ _ _ (VS ?b)] => replace a with b; [reflexivity|] end.
  unfold rdS, rdv, rd_val. simpl fold_left. cbn [ssub smul sadd sofZ sneg ScalarR]. fold h.
  match goal with |- _ = _ - (0 + sumZ ?n ?lo ?f) * h =>
    replace (sumZ n lo f)
      with (sumZ n lo (fun t => JJ t * - U._poly_force_deriv (tdamp (Z.rem w sh0) t) (tpoly (Z.rem w sh1) t) (tvel w t) 1))
      ; [ | apply sumZ_ext; intro t0; cbv beta; rewrite poly_force_deriv_formula; unfold xval; simpl Z.eqb; cbv iota; ring ] end.
  ring.
Qed.

(* sum of the values a write list atomically ADDS to index [i] of array [a] *)
Fixpoint wadded (ws : list (write R)) (a : string) (i : list Z) : R :=
  match ws with
  | nil => 0
  | w :: r =>
      (if String.eqb (w_arr w) a && zs_eqb (w_idx w) i
       then match w_kind w, w_val w with KAdd, VS x => x | _, _ => 0 end else 0) + wadded r a i
  end.

(* passive._spring_damper_tendon_passive, task (world, tendon, k-th Jacobian entry), damper enabled:
   it adds  J[t,k] * damper_force(damping_t, dpoly_t, v_t)  to qfrc_damper_out[w, colind]
   (also when all coefficients are 0: the force is then 0) *)
Theorem passive_tendon_damper_kernel :
  forall (w t k : Z) (rownnz rowadr colind : Z -> Z) (tstiff : Z -> Z -> R) (tspoly : Z -> Z -> list R)
         (tdamp : Z -> Z -> R) (tpoly : Z -> Z -> list R) (tls : Z -> Z -> list R)
         (ten_J_in ten_length_in ten_velocity_in : Z -> Z -> R) (dsbl_spring : bool)
         (qso qdo : Z -> Z -> R) (orc : nat -> Z) (sh0 sh1 sh2 sh3 sh4 : Z),
    (0 <= k < rownnz t)%Z ->
    let adr := (rowadr t + k)%Z in
    wadded (TP.k__spring_damper_tendon_passive w t k rownnz rowadr colind tstiff tspoly tdamp tpoly tls ten_J_in
              ten_length_in ten_velocity_in dsbl_spring false qso qdo orc sh0 sh1 sh2 sh3 sh4)
           "qfrc_damper_out" [w; colind adr]
    = ten_J_in w adr * damper_force (tdamp (Z.rem w sh2) t) (tpoly (Z.rem w sh3) t) (ten_velocity_in w t).
Proof.
  intros. unfold TP.k__spring_damper_tendon_passive. cbv zeta. fold adr.
  replace (Z.geb k (rownnz t)) with false by (symmetry; rewrite Z.geb_leb; apply Z.leb_gt; lia).
  set (d := tdamp (Z.rem w sh2) t). set (p := tpoly (Z.rem w sh3) t). set (v := ten_velocity_in w t).
  set (hs := (_ || _ || _) && negb dsbl_spring).
  simpl (negb false). rewrite andb_true_r.
  destruct (sneb d (sofZ 0) || sneb (vget p 0) (sofZ 0) || sneb (vget p 1) (sofZ 0)) eqn:G.
  - replace (negb hs && negb true) with false by (destruct hs; reflexivity). cbv iota.
    destruct hs; simpl app; simpl wadded; rewrite ?Z.eqb_refl; simpl;
      unfold damper_force; change (TP._poly_force d p v 1) with (U._poly_force d p v 1); cbn [smul sneg ScalarR]; rewrite ?poly_force_is_coefficient; unfold xval; simpl Z.eqb; cbv iota; ring.
  - assert (Hz : d = 0 /\ vget p 0 = 0 /\ vget p 1 = 0).
    { apply orb_false_iff in G. destruct G as [G G3]. apply orb_false_iff in G. destruct G as [G1 G2].
      unfold sneb in G1, G2, G3. apply negb_false_iff in G1, G2, G3.
      change (Reqb d 0 = true) in G1. change (Reqb (vget p 0) 0 = true) in G2. change (Reqb (vget p 1) 0 = true) in G3.
      apply Reqb_true in G1, G2, G3. auto. }
    destruct Hz as (Z1 & Z2 & Z3).
    replace (damper_force d p v) with 0 by (unfold damper_force; rewrite poly_force_is_coefficient, Z1, Z2, Z3; ring).
    rewrite Rmult_0_r.
    destruct hs; simpl negb; simpl andb; cbv iota; simpl app; simpl wadded; rewrite ?Z.eqb_refl; simpl; ring.
Qed.

(* ===== 6. inertia-box fluid force derivative ===== *)

(* ---- derivative._qderiv_box_fluid ---- *)
Section BoxKernel.
  Variables (w f e : Z) (opt_timestep : Z -> R) (opt_wind : Z -> list R) (opt_density opt_viscosity : Z -> R)
            (integ : Z) (body_parentid body_rootid : Z -> Z) (body_mass : Z -> Z -> R) (body_inertia : Z -> Z -> list R)
            (dof_bodyid body_fluid_box_adr : Z -> Z) (isanc M_elemid : Z -> Z -> Z)
            (xipos ximat subtree_com cdof cvel : Z -> Z -> list R) (Mi Mj : Z -> Z) (qDeriv_out : Z -> Z -> R)
            (orc : nat -> Z) (s0 s1 s2 s3 s4 s5 : Z).
  Definition box_ws := TD.k__qderiv_box_fluid w f e opt_timestep opt_wind opt_density opt_viscosity integ body_parentid
      body_rootid body_mass body_inertia dof_bodyid body_fluid_box_adr isanc M_elemid xipos ximat subtree_com cdof cvel
      Mi Mj qDeriv_out orc s0 s1 s2 s3 s4 s5.
  Let body := body_fluid_box_adr f.
  Let i := Mi e. Let j := Mj e. Let madr := M_elemid i j.
  Let density := opt_density (Z.rem w s1). Let viscosity := opt_viscosity (Z.rem w s2).
  Let h := opt_timestep (Z.rem w s3).
  (* local velocity of the body (angular ; linear minus wind), as the kernel forms it *)
  Definition box_lvel : list R :=
    let b_imat_T := mtranspose 3 3 (ximat w body) in
    let vs := cvel w body in
    let ang := [vget vs 0; vget vs 1; vget vs 2] in
    let lin := [vget vs 3; vget vs 4; vget vs 5] in
    let lin_com := vsub lin (vcross (vsub (xipos w body) (subtree_com w (body_rootid body))) ang) in
    mat_vec 3 3 b_imat_T ang ++ vsub (mat_vec 3 3 b_imat_T lin_com) (mat_vec 3 3 b_imat_T (opt_wind (Z.rem w s0))).
  Definition box_B : list R :=
    TD._deriv_box_fluid integ body_mass body_inertia w body box_lvel density viscosity s4 s5.
  Definition box_J (dof : Z) : list R :=
    TD._get_jac_column_local body_parentid body_rootid dof_bodyid subtree_com cdof (xipos w body) body dof w (ximat w body).

  Hypothesis Hmadr : (0 <= madr)%Z.
  Hypothesis Hbody : dof_bodyid i <> 0%Z.
  Hypothesis Hanc : isanc body i <> 0%Z.

  (* a medium is present (density > 0 OR viscosity > 0): the task adds -h * J_i^T B J_j *)
  Theorem qderiv_box_fluid_write :
    (0 < density \/ 0 < viscosity) ->
    wadded box_ws "qDeriv_out" [w; madr] = - (vdot (box_J i) (mat_vec 6 6 box_B (box_J j)) * h).
  Proof.
    intro Hmed. unfold box_ws, TD.k__qderiv_box_fluid. cbv zeta.
    fold body. fold i. fold j. fold madr.
    replace (Z.ltb madr 0) with false by (symmetry; apply Z.ltb_ge; lia).
    replace (Z.eqb (dof_bodyid i) 0) with false by (symmetry; apply Z.eqb_neq; exact Hbody).
    replace (Z.eqb (isanc body i) 0) with false by (symmetry; apply Z.eqb_neq; exact Hanc).
    fold density. fold viscosity. fold h.
    replace (sleb density (sofZ 0) && sleb viscosity (sofZ 0)) with false.
    2:{ symmetry. apply andb_false_iff. destruct Hmed; [left | right]; apply Rleb_false; assumption. }
    change (TD._deriv_box_fluid integ body_mass body_inertia w body _ density viscosity s4 s5) with box_B.
    change (TD._get_jac_column_local body_parentid body_rootid dof_bodyid subtree_com cdof (xipos w body) body i w (ximat w body)) with (box_J i).
    change (TD._get_jac_column_local body_parentid body_rootid dof_bodyid subtree_com cdof (xipos w body) body j w (ximat w body)) with (box_J j).
    set (contrib := smul (vdot (box_J i) (mat_vec 6 6 box_B (box_J j))) h).
    change (- (vdot (box_J i) (mat_vec 6 6 box_B (box_J j)) * h)) with (- contrib).
    destruct (sneb contrib (sofZ 0)) eqn:E.
    - simpl app. simpl wadded. rewrite !Z.eqb_refl. simpl. cbn [sneg ScalarR]. ring.
    - simpl. unfold sneb in E. apply negb_false_iff in E. change (Reqb contrib 0 = true) in E. apply Reqb_true in E. rewrite E. ring.
  Qed.

  (* no medium: nothing is written *)
  Theorem qderiv_box_fluid_nomedium : density <= 0 -> viscosity <= 0 -> box_ws = [].
  Proof.
    intros Hd Hv. unfold box_ws, TD.k__qderiv_box_fluid. cbv zeta.
    fold body. fold i. fold j. fold madr.
    replace (Z.ltb madr 0) with false by (symmetry; apply Z.ltb_ge; lia).
    replace (Z.eqb (dof_bodyid i) 0) with false by (symmetry; apply Z.eqb_neq; exact Hbody).
    replace (Z.eqb (isanc body i) 0) with false by (symmetry; apply Z.eqb_neq; exact Hanc).
    fold density. fold viscosity.
    replace (sleb density (sofZ 0) && sleb viscosity (sofZ 0)) with true; [reflexivity|].
    symmetry. apply andb_true_iff. split; apply Rleb_true; assumption.
  Qed.
End BoxKernel.



(* ---- inertia-box fluid force: B = _deriv_box_fluid is the Jacobian of passive's local force ---- *)
(* the source's constant wp.static(-3.0 * wp.pi) as the translator emits it (binary64, not -3*PI) *)
Definition lit3pi : R := IZR (-471238898038469) / IZR 50000000000000.

(* diagonal entry c of the 6x6 local derivative; k13 stands for 1/3, k3pi for 3*PI *)
Definition Bdiag (k13 k3pi b0 b1 b2 a rho nu : R) (c : Z) : R :=
  let diam := (b0 + b1 + b2) * k13 in
  let vis := if sgtb nu (sofZ 0) then (if (c <? 3)%Z then - PI * diam * diam * diam * nu else - k3pi * diam * nu) else 0 in
  let den := if sgtb rho (sofZ 0) then
      (if (c =? 0)%Z then rho * b0 * (b1*b1*b1*b1 + b2*b2*b2*b2) * Rabs a / 32
       else if (c =? 1)%Z then rho * b1 * (b0*b0*b0*b0 + b2*b2*b2*b2) * Rabs a / 32
       else if (c =? 2)%Z then rho * b2 * (b0*b0*b0*b0 + b1*b1*b1*b1) * Rabs a / 32
       else if (c =? 3)%Z then rho * b1 * b2 * Rabs a
       else if (c =? 4)%Z then rho * b0 * b2 * Rabs a
       else rho * b0 * b1 * Rabs a) else 0 in
  vis - den.

(* _deriv_box_fluid with its three tests abstracted (same text as Gen/T_derivative.v; the equality
   below is checked by conversion, so any change of the source breaks it) *)
Definition box_B_model (bn br bs : bool) (body_mass : Z -> Z -> R) (body_inertia : Z -> Z -> list R) (worldid bodyid : Z) (lvel : list R) (density viscosity : R) (body_mass__shape0 body_inertia__shape0 : Z) : list R :=
  let B_ := (vconst 36 (sofZ (0)%Z)) in
  let mass := (body_mass (Z.rem worldid body_mass__shape0) bodyid) in
  let inertia := (body_inertia (Z.rem worldid body_inertia__shape0) bodyid) in
  let scl := (sdiv (sofZ (6)%Z) mass) in
  let box := [(ssqrt (smul (smax (slit (1)%Z (1000000000000000)%Z) (ssub (sadd (vget inertia (1)%Z) (vget inertia (2)%Z)) (vget inertia (0)%Z))) scl)); (ssqrt (smul (smax (slit (1)%Z (1000000000000000)%Z) (ssub (sadd (vget inertia (0)%Z) (vget inertia (2)%Z)) (vget inertia (1)%Z))) scl)); (ssqrt (smul (smax (slit (1)%Z (1000000000000000)%Z) (ssub (sadd (vget inertia (0)%Z) (vget inertia (1)%Z)) (vget inertia (2)%Z))) scl))] in
  let B_ := (
    if bn then
    let diam := (smul (sadd (sadd (vget box (0)%Z) (vget box (1)%Z)) (vget box (2)%Z)) (slit (3333333333333333)%Z (10000000000000000)%Z)) in
    let visc_rot := (smul (smul (smul (smul (sneg spi) diam) diam) diam) viscosity) in
    let B_ := mset 6 B_ (0)%Z (0)%Z (sadd (mget 6 B_ (0)%Z (0)%Z) visc_rot) in
    let B_ := mset 6 B_ (1)%Z (1)%Z (sadd (mget 6 B_ (1)%Z (1)%Z) visc_rot) in
    let B_ := mset 6 B_ (2)%Z (2)%Z (sadd (mget 6 B_ (2)%Z (2)%Z) visc_rot) in
    let visc_lin := (smul (smul (slit (-471238898038469)%Z (50000000000000)%Z) diam) viscosity) in
    let B_ := mset 6 B_ (3)%Z (3)%Z (sadd (mget 6 B_ (3)%Z (3)%Z) visc_lin) in
    let B_ := mset 6 B_ (4)%Z (4)%Z (sadd (mget 6 B_ (4)%Z (4)%Z) visc_lin) in
    let B_ := mset 6 B_ (5)%Z (5)%Z (sadd (mget 6 B_ (5)%Z (5)%Z) visc_lin) in
    B_
    else
    B_) in
  let B_ := (
    if br then
    let term0 := (sadd (smul (smul (smul (vget box (1)%Z) (vget box (1)%Z)) (vget box (1)%Z)) (vget box (1)%Z)) (smul (smul (smul (vget box (2)%Z) (vget box (2)%Z)) (vget box (2)%Z)) (vget box (2)%Z))) in
    let term1 := (sadd (smul (smul (smul (vget box (0)%Z) (vget box (0)%Z)) (vget box (0)%Z)) (vget box (0)%Z)) (smul (smul (smul (vget box (2)%Z) (vget box (2)%Z)) (vget box (2)%Z)) (vget box (2)%Z))) in
    let term2 := (sadd (smul (smul (smul (vget box (0)%Z) (vget box (0)%Z)) (vget box (0)%Z)) (vget box (0)%Z)) (smul (smul (smul (vget box (1)%Z) (vget box (1)%Z)) (vget box (1)%Z)) (vget box (1)%Z))) in
    let inv_32 := (slit (1)%Z (32)%Z) in
    let B_ := mset 6 B_ (0)%Z (0)%Z (ssub (mget 6 B_ (0)%Z (0)%Z) (smul (smul (smul (smul density (vget box (0)%Z)) term0) (sabs (vget lvel (0)%Z))) inv_32)) in
    let B_ := mset 6 B_ (1)%Z (1)%Z (ssub (mget 6 B_ (1)%Z (1)%Z) (smul (smul (smul (smul density (vget box (1)%Z)) term1) (sabs (vget lvel (1)%Z))) inv_32)) in
    let B_ := mset 6 B_ (2)%Z (2)%Z (ssub (mget 6 B_ (2)%Z (2)%Z) (smul (smul (smul (smul density (vget box (2)%Z)) term2) (sabs (vget lvel (2)%Z))) inv_32)) in
    let B_ := mset 6 B_ (3)%Z (3)%Z (ssub (mget 6 B_ (3)%Z (3)%Z) (smul (smul (smul density (vget box (1)%Z)) (vget box (2)%Z)) (sabs (vget lvel (3)%Z)))) in
    let B_ := mset 6 B_ (4)%Z (4)%Z (ssub (mget 6 B_ (4)%Z (4)%Z) (smul (smul (smul density (vget box (0)%Z)) (vget box (2)%Z)) (sabs (vget lvel (4)%Z)))) in
    let B_ := mset 6 B_ (5)%Z (5)%Z (ssub (mget 6 B_ (5)%Z (5)%Z) (smul (smul (smul density (vget box (0)%Z)) (vget box (1)%Z)) (sabs (vget lvel (5)%Z)))) in
    B_
    else
    B_) in
  let B_ := (
    if bs then
    let B_ := (vscale (slit (1)%Z (2)%Z) (vadd B_ (mtranspose 6 6 B_))) in
    B_
    else
    B_) in
  B_.

Lemma box_B_model_eq integ bm bi w bd lv rho nu sh0 sh1 :
  TD._deriv_box_fluid integ bm bi w bd lv rho nu sh0 sh1
  = box_B_model (sgtb nu (sofZ 0)) (sgtb rho (sofZ 0)) (Z.eqb integ 3) bm bi w bd lv rho nu sh0 sh1.
Proof. reflexivity. Qed.

Ltac zred :=
  repeat match goal with
    | |- context [Z.ltb ?a ?b] => let v := eval compute in (Z.ltb a b) in change (Z.ltb a b) with v
    | |- context [Z.eqb ?a ?b] => let v := eval compute in (Z.eqb a b) in change (Z.eqb a b) with v
    end; cbv iota.

Lemma is_derive_lin_abs (c1 c2 a : R) : is_derive (fun x => c1 * x + c2 * (x * Rabs x)) a (c1 + c2 * (2 * Rabs a)).
Proof.
  apply (is_derive_plus (fun x => c1 * x) (fun x => c2 * (x * Rabs x))).
  - ad.
  - apply (is_derive_scal (fun x => x * Rabs x) a c2 (2 * Rabs a)). apply is_derive_x_abs.
Qed.

Lemma Rpower_3 (x : R) : 0 < x -> Rpower x 3 = x * x * x.
Proof. intro H. replace 3 with (INR 3) by (rewrite INR_IZR_INZ; reflexivity). rewrite Rpower_pow by exact H. simpl. ring. Qed.
Lemma Rpower_4 (x : R) : 0 < x -> Rpower x 4 = x * x * x * x.
Proof. intro H. replace 4 with (INR 4) by (rewrite INR_IZR_INZ; reflexivity). rewrite Rpower_pow by exact H. simpl. ring. Qed.

Lemma box_dims_pos (mass : R) (inertia : list R) :
  0 < mass ->
  let bx := box_dims mass inertia in 0 < vget bx 0 /\ 0 < vget bx 1 /\ 0 < vget bx 2.
Proof.
  intros Hm bx. unfold bx, box_dims. cbv zeta.
  unfold vget at 1 11 21. simpl nth.
  repeat split; (apply sqrt_lt_R0; apply Rmult_lt_0_compat; [apply smax_MINV_pos | apply Rdiv_lt_0_compat; [change (0 < 6); lra | exact Hm]]).
Qed.

Lemma box_B_entry_0 integ (bm : Z -> Z -> R) (bi : Z -> Z -> list R) w bd a0 a1 a2 a3 a4 a5 rho nu sh0 sh1 :
  let bx := box_dims (bm (Z.rem w sh0) bd) (bi (Z.rem w sh1) bd) in
  mget 6 (TD._deriv_box_fluid integ bm bi w bd [a0; a1; a2; a3; a4; a5] rho nu sh0 sh1) 0 0
  = Bdiag third_lit (- lit3pi) (vget bx 0) (vget bx 1) (vget bx 2) a0 rho nu 0.
Proof.
  intro bx. rewrite box_B_model_eq. unfold Bdiag.
  destruct (sgtb nu (sofZ 0)); destruct (sgtb rho (sofZ 0)); destruct (Z.eqb integ 3).
  - match goal with |- mget 6 ?B 0 0 = _ => assert (E : mget 6 B 0 0 = (1 / 2 * (((0 + - PI * ((vget bx 0 + vget bx 1 + vget bx 2) * third_lit) * ((vget bx 0 + vget bx 1 + vget bx 2) * third_lit) * ((vget bx 0 + vget bx 1 + vget bx 2) * third_lit) * nu) - rho * vget bx 0 * (vget bx 1 * vget bx 1 * vget bx 1 * vget bx 1 + vget bx 2 * vget bx 2 * vget bx 2 * vget bx 2) * Rabs a0 * (1 / 32)) + ((0 + - PI * ((vget bx 0 + vget bx 1 + vget bx 2) * third_lit) * ((vget bx 0 + vget bx 1 + vget bx 2) * third_lit) * ((vget bx 0 + vget bx 1 + vget bx 2) * third_lit) * nu) - rho * vget bx 0 * (vget bx 1 * vget bx 1 * vget bx 1 * vget bx 1 + vget bx 2 * vget bx 2 * vget bx 2 * vget bx 2) * Rabs a0 * (1 / 32))))) by reflexivity; rewrite E end.
    zred; field.
  - match goal with |- mget 6 ?B 0 0 = _ => assert (E : mget 6 B 0 0 = ((0 + - PI * ((vget bx 0 + vget bx 1 + vget bx 2) * third_lit) * ((vget bx 0 + vget bx 1 + vget bx 2) * third_lit) * ((vget bx 0 + vget bx 1 + vget bx 2) * third_lit) * nu) - rho * vget bx 0 * (vget bx 1 * vget bx 1 * vget bx 1 * vget bx 1 + vget bx 2 * vget bx 2 * vget bx 2 * vget bx 2) * Rabs a0 * (1 / 32))) by reflexivity; rewrite E end.
    zred; field.
  - match goal with |- mget 6 ?B 0 0 = _ => assert (E : mget 6 B 0 0 = (1 / 2 * ((0 + - PI * ((vget bx 0 + vget bx 1 + vget bx 2) * third_lit) * ((vget bx 0 + vget bx 1 + vget bx 2) * third_lit) * ((vget bx 0 + vget bx 1 + vget bx 2) * third_lit) * nu) + (0 + - PI * ((vget bx 0 + vget bx 1 + vget bx 2) * third_lit) * ((vget bx 0 + vget bx 1 + vget bx 2) * third_lit) * ((vget bx 0 + vget bx 1 + vget bx 2) * third_lit) * nu)))) by reflexivity; rewrite E end.
    zred; field.
  - match goal with |- mget 6 ?B 0 0 = _ => assert (E : mget 6 B 0 0 = (0 + - PI * ((vget bx 0 + vget bx 1 + vget bx 2) * third_lit) * ((vget bx 0 + vget bx 1 + vget bx 2) * third_lit) * ((vget bx 0 + vget bx 1 + vget bx 2) * third_lit) * nu)) by reflexivity; rewrite E end.
    zred; field.
  - match goal with |- mget 6 ?B 0 0 = _ => assert (E : mget 6 B 0 0 = (1 / 2 * ((0 - rho * vget bx 0 * (vget bx 1 * vget bx 1 * vget bx 1 * vget bx 1 + vget bx 2 * vget bx 2 * vget bx 2 * vget bx 2) * Rabs a0 * (1 / 32)) + (0 - rho * vget bx 0 * (vget bx 1 * vget bx 1 * vget bx 1 * vget bx 1 + vget bx 2 * vget bx 2 * vget bx 2 * vget bx 2) * Rabs a0 * (1 / 32))))) by reflexivity; rewrite E end.
    zred; field.
  - match goal with |- mget 6 ?B 0 0 = _ => assert (E : mget 6 B 0 0 = (0 - rho * vget bx 0 * (vget bx 1 * vget bx 1 * vget bx 1 * vget bx 1 + vget bx 2 * vget bx 2 * vget bx 2 * vget bx 2) * Rabs a0 * (1 / 32))) by reflexivity; rewrite E end.
    zred; field.
  - match goal with |- mget 6 ?B 0 0 = _ => assert (E : mget 6 B 0 0 = (1 / 2 * (0 + 0))) by reflexivity; rewrite E end.
    zred; field.
  - match goal with |- mget 6 ?B 0 0 = _ => assert (E : mget 6 B 0 0 = 0) by reflexivity; rewrite E end.
    zred; field.
Qed.


Lemma box_F_derive_0 (mass : R) (inertia : list R) a0 a1 a2 a3 a4 a5 rho nu :
  0 < mass ->
  let bx := box_dims mass inertia in
  is_derive (fun x => nth 0 (box_fluid_local mass inertia [x; a1; a2] [a3; a4; a5] rho nu) 0) a0
            (Bdiag (1 / 3) (3 * PI) (vget bx 0) (vget bx 1) (vget bx 2) a0 rho nu 0).
Proof.
  intros Hm bx.
  destruct (box_dims_pos mass inertia Hm) as (P0 & P1 & P2). fold bx in P0, P1, P2.
  assert (Pd : 0 < (vget bx 0 + vget bx 1 + vget bx 2) / 3) by lra.
  unfold Bdiag. unfold box_fluid_local.
  destruct (sgtb nu (sofZ 0)); destruct (sgtb rho (sofZ 0)); zred.
  - apply (is_derive_ext (fun x => ((- x * Rpower ((vget bx 0 + vget bx 1 + vget bx 2) / 3) 3 * PI * nu) - vget bx 0 * (Rpower (vget bx 1) 4 + Rpower (vget bx 2) 4) * Rabs x * x * (rho / 64)))); [intro x; reflexivity|].
    apply (is_derive_ext (fun x => (- Rpower ((vget bx 0 + vget bx 1 + vget bx 2) / 3) 3 * PI * nu) * x + (- (vget bx 0 * (Rpower (vget bx 1) 4 + Rpower (vget bx 2) 4) * (rho / 64))) * (x * Rabs x))); [intro x; rring|].
    match goal with |- is_derive _ ?a ?d => replace d with ((- Rpower ((vget bx 0 + vget bx 1 + vget bx 2) / 3) 3 * PI * nu) + (- (vget bx 0 * (Rpower (vget bx 1) 4 + Rpower (vget bx 2) 4) * (rho / 64))) * (2 * Rabs a)); [apply is_derive_lin_abs|] end.
    rewrite ?(Rpower_3 _ Pd), ?(Rpower_4 _ P0), ?(Rpower_4 _ P1), ?(Rpower_4 _ P2); field.
  - apply (is_derive_ext (fun x => (- x * Rpower ((vget bx 0 + vget bx 1 + vget bx 2) / 3) 3 * PI * nu))); [intro x; reflexivity|].
    apply (is_derive_ext (fun x => (- Rpower ((vget bx 0 + vget bx 1 + vget bx 2) / 3) 3 * PI * nu) * x + 0 * (x * Rabs x))); [intro x; rring|].
    match goal with |- is_derive _ ?a ?d => replace d with ((- Rpower ((vget bx 0 + vget bx 1 + vget bx 2) / 3) 3 * PI * nu) + 0 * (2 * Rabs a)); [apply is_derive_lin_abs|] end.
    rewrite ?(Rpower_3 _ Pd), ?(Rpower_4 _ P0), ?(Rpower_4 _ P1), ?(Rpower_4 _ P2); field.
  - apply (is_derive_ext (fun x => (0 - vget bx 0 * (Rpower (vget bx 1) 4 + Rpower (vget bx 2) 4) * Rabs x * x * (rho / 64)))); [intro x; reflexivity|].
    apply (is_derive_ext (fun x => 0 * x + (- (vget bx 0 * (Rpower (vget bx 1) 4 + Rpower (vget bx 2) 4) * (rho / 64))) * (x * Rabs x))); [intro x; rring|].
    match goal with |- is_derive _ ?a ?d => replace d with (0 + (- (vget bx 0 * (Rpower (vget bx 1) 4 + Rpower (vget bx 2) 4) * (rho / 64))) * (2 * Rabs a)); [apply is_derive_lin_abs|] end.
    rewrite ?(Rpower_3 _ Pd), ?(Rpower_4 _ P0), ?(Rpower_4 _ P1), ?(Rpower_4 _ P2); field.
  - apply (is_derive_ext (fun x => 0)); [intro x; reflexivity|].
    apply (is_derive_ext (fun x => 0 * x + 0 * (x * Rabs x))); [intro x; rring|].
    match goal with |- is_derive _ ?a ?d => replace d with (0 + 0 * (2 * Rabs a)); [apply is_derive_lin_abs|] end.
    rewrite ?(Rpower_3 _ Pd), ?(Rpower_4 _ P0), ?(Rpower_4 _ P1), ?(Rpower_4 _ P2); field.
Qed.


Lemma box_B_entry_1 integ (bm : Z -> Z -> R) (bi : Z -> Z -> list R) w bd a0 a1 a2 a3 a4 a5 rho nu sh0 sh1 :
  let bx := box_dims (bm (Z.rem w sh0) bd) (bi (Z.rem w sh1) bd) in
  mget 6 (TD._deriv_box_fluid integ bm bi w bd [a0; a1; a2; a3; a4; a5] rho nu sh0 sh1) 1 1
  = Bdiag third_lit (- lit3pi) (vget bx 0) (vget bx 1) (vget bx 2) a1 rho nu 1.
Proof.
  intro bx. rewrite box_B_model_eq. unfold Bdiag.
  destruct (sgtb nu (sofZ 0)); destruct (sgtb rho (sofZ 0)); destruct (Z.eqb integ 3).
  - match goal with |- mget 6 ?B 1 1 = _ => assert (E : mget 6 B 1 1 = (1 / 2 * (((0 + - PI * ((vget bx 0 + vget bx 1 + vget bx 2) * third_lit) * ((vget bx 0 + vget bx 1 + vget bx 2) * third_lit) * ((vget bx 0 + vget bx 1 + vget bx 2) * third_lit) * nu) - rho * vget bx 1 * (vget bx 0 * vget bx 0 * vget bx 0 * vget bx 0 + vget bx 2 * vget bx 2 * vget bx 2 * vget bx 2) * Rabs a1 * (1 / 32)) + ((0 + - PI * ((vget bx 0 + vget bx 1 + vget bx 2) * third_lit) * ((vget bx 0 + vget bx 1 + vget bx 2) * third_lit) * ((vget bx 0 + vget bx 1 + vget bx 2) * third_lit) * nu) - rho * vget bx 1 * (vget bx 0 * vget bx 0 * vget bx 0 * vget bx 0 + vget bx 2 * vget bx 2 * vget bx 2 * vget bx 2) * Rabs a1 * (1 / 32))))) by reflexivity; rewrite E end.
    zred; field.
  - match goal with |- mget 6 ?B 1 1 = _ => assert (E : mget 6 B 1 1 = ((0 + - PI * ((vget bx 0 + vget bx 1 + vget bx 2) * third_lit) * ((vget bx 0 + vget bx 1 + vget bx 2) * third_lit) * ((vget bx 0 + vget bx 1 + vget bx 2) * third_lit) * nu) - rho * vget bx 1 * (vget bx 0 * vget bx 0 * vget bx 0 * vget bx 0 + vget bx 2 * vget bx 2 * vget bx 2 * vget bx 2) * Rabs a1 * (1 / 32))) by reflexivity; rewrite E end.
    zred; field.
  - match goal with |- mget 6 ?B 1 1 = _ => assert (E : mget 6 B 1 1 = (1 / 2 * ((0 + - PI * ((vget bx 0 + vget bx 1 + vget bx 2) * third_lit) * ((vget bx 0 + vget bx 1 + vget bx 2) * third_lit) * ((vget bx 0 + vget bx 1 + vget bx 2) * third_lit) * nu) + (0 + - PI * ((vget bx 0 + vget bx 1 + vget bx 2) * third_lit) * ((vget bx 0 + vget bx 1 + vget bx 2) * third_lit) * ((vget bx 0 + vget bx 1 + vget bx 2) * third_lit) * nu)))) by reflexivity; rewrite E end.
    zred; field.
  - match goal with |- mget 6 ?B 1 1 = _ => assert (E : mget 6 B 1 1 = (0 + - PI * ((vget bx 0 + vget bx 1 + vget bx 2) * third_lit) * ((vget bx 0 + vget bx 1 + vget bx 2) * third_lit) * ((vget bx 0 + vget bx 1 + vget bx 2) * third_lit) * nu)) by reflexivity; rewrite E end.
    zred; field.
  - match goal with |- mget 6 ?B 1 1 = _ => assert (E : mget 6 B 1 1 = (1 / 2 * ((0 - rho * vget bx 1 * (vget bx 0 * vget bx 0 * vget bx 0 * vget bx 0 + vget bx 2 * vget bx 2 * vget bx 2 * vget bx 2) * Rabs a1 * (1 / 32)) + (0 - rho * vget bx 1 * (vget bx 0 * vget bx 0 * vget bx 0 * vget bx 0 + vget bx 2 * vget bx 2 * vget bx 2 * vget bx 2) * Rabs a1 * (1 / 32))))) by reflexivity; rewrite E end.
    zred; field.
  - match goal with |- mget 6 ?B 1 1 = _ => assert (E : mget 6 B 1 1 = (0 - rho * vget bx 1 * (vget bx 0 * vget bx 0 * vget bx 0 * vget bx 0 + vget bx 2 * vget bx 2 * vget bx 2 * vget bx 2) * Rabs a1 * (1 / 32))) by reflexivity; rewrite E end.
    zred; field.
  - match goal with |- mget 6 ?B 1 1 = _ => assert (E : mget 6 B 1 1 = (1 / 2 * (0 + 0))) by reflexivity; rewrite E end.
    zred; field.
  - match goal with |- mget 6 ?B 1 1 = _ => assert (E : mget 6 B 1 1 = 0) by reflexivity; rewrite E end.
    zred; field.
Qed.


Lemma box_F_derive_1 (mass : R) (inertia : list R) a0 a1 a2 a3 a4 a5 rho nu :
  0 < mass ->
  let bx := box_dims mass inertia in
  is_derive (fun x => nth 1 (box_fluid_local mass inertia [a0; x; a2] [a3; a4; a5] rho nu) 0) a1
            (Bdiag (1 / 3) (3 * PI) (vget bx 0) (vget bx 1) (vget bx 2) a1 rho nu 1).
Proof.
  intros Hm bx.
  destruct (box_dims_pos mass inertia Hm) as (P0 & P1 & P2). fold bx in P0, P1, P2.
  assert (Pd : 0 < (vget bx 0 + vget bx 1 + vget bx 2) / 3) by lra.
  unfold Bdiag. unfold box_fluid_local.
  destruct (sgtb nu (sofZ 0)); destruct (sgtb rho (sofZ 0)); zred.
  - apply (is_derive_ext (fun x => ((- x * Rpower ((vget bx 0 + vget bx 1 + vget bx 2) / 3) 3 * PI * nu) - vget bx 1 * (Rpower (vget bx 0) 4 + Rpower (vget bx 2) 4) * Rabs x * x * (rho / 64)))); [intro x; reflexivity|].
    apply (is_derive_ext (fun x => (- Rpower ((vget bx 0 + vget bx 1 + vget bx 2) / 3) 3 * PI * nu) * x + (- (vget bx 1 * (Rpower (vget bx 0) 4 + Rpower (vget bx 2) 4) * (rho / 64))) * (x * Rabs x))); [intro x; rring|].
    match goal with |- is_derive _ ?a ?d => replace d with ((- Rpower ((vget bx 0 + vget bx 1 + vget bx 2) / 3) 3 * PI * nu) + (- (vget bx 1 * (Rpower (vget bx 0) 4 + Rpower (vget bx 2) 4) * (rho / 64))) * (2 * Rabs a)); [apply is_derive_lin_abs|] end.
    rewrite ?(Rpower_3 _ Pd), ?(Rpower_4 _ P0), ?(Rpower_4 _ P1), ?(Rpower_4 _ P2); field.
  - apply (is_derive_ext (fun x => (- x * Rpower ((vget bx 0 + vget bx 1 + vget bx 2) / 3) 3 * PI * nu))); [intro x; reflexivity|].
    apply (is_derive_ext (fun x => (- Rpower ((vget bx 0 + vget bx 1 + vget bx 2) / 3) 3 * PI * nu) * x + 0 * (x * Rabs x))); [intro x; rring|].
    match goal with |- is_derive _ ?a ?d => replace d with ((- Rpower ((vget bx 0 + vget bx 1 + vget bx 2) / 3) 3 * PI * nu) + 0 * (2 * Rabs a)); [apply is_derive_lin_abs|] end.
    rewrite ?(Rpower_3 _ Pd), ?(Rpower_4 _ P0), ?(Rpower_4 _ P1), ?(Rpower_4 _ P2); field.
  - apply (is_derive_ext (fun x => (0 - vget bx 1 * (Rpower (vget bx 0) 4 + Rpower (vget bx 2) 4) * Rabs x * x * (rho / 64)))); [intro x; reflexivity|].
    apply (is_derive_ext (fun x => 0 * x + (- (vget bx 1 * (Rpower (vget bx 0) 4 + Rpower (vget bx 2) 4) * (rho / 64))) * (x * Rabs x))); [intro x; rring|].
    match goal with |- is_derive _ ?a ?d => replace d with (0 + (- (vget bx 1 * (Rpower (vget bx 0) 4 + Rpower (vget bx 2) 4) * (rho / 64))) * (2 * Rabs a)); [apply is_derive_lin_abs|] end.
    rewrite ?(Rpower_3 _ Pd), ?(Rpower_4 _ P0), ?(Rpower_4 _ P1), ?(Rpower_4 _ P2); field.
  - apply (is_derive_ext (fun x => 0)); [intro x; reflexivity|].
    apply (is_derive_ext (fun x => 0 * x + 0 * (x * Rabs x))); [intro x; rring|].
    match goal with |- is_derive _ ?a ?d => replace d with (0 + 0 * (2 * Rabs a)); [apply is_derive_lin_abs|] end.
    rewrite ?(Rpower_3 _ Pd), ?(Rpower_4 _ P0), ?(Rpower_4 _ P1), ?(Rpower_4 _ P2); field.
Qed.


Lemma box_B_entry_2 integ (bm : Z -> Z -> R) (bi : Z -> Z -> list R) w bd a0 a1 a2 a3 a4 a5 rho nu sh0 sh1 :
  let bx := box_dims (bm (Z.rem w sh0) bd) (bi (Z.rem w sh1) bd) in
  mget 6 (TD._deriv_box_fluid integ bm bi w bd [a0; a1; a2; a3; a4; a5] rho nu sh0 sh1) 2 2
  = Bdiag third_lit (- lit3pi) (vget bx 0) (vget bx 1) (vget bx 2) a2 rho nu 2.
Proof.
  intro bx. rewrite box_B_model_eq. unfold Bdiag.
  destruct (sgtb nu (sofZ 0)); destruct (sgtb rho (sofZ 0)); destruct (Z.eqb integ 3).
  - match goal with |- mget 6 ?B 2 2 = _ => assert (E : mget 6 B 2 2 = (1 / 2 * (((0 + - PI * ((vget bx 0 + vget bx 1 + vget bx 2) * third_lit) * ((vget bx 0 + vget bx 1 + vget bx 2) * third_lit) * ((vget bx 0 + vget bx 1 + vget bx 2) * third_lit) * nu) - rho * vget bx 2 * (vget bx 0 * vget bx 0 * vget bx 0 * vget bx 0 + vget bx 1 * vget bx 1 * vget bx 1 * vget bx 1) * Rabs a2 * (1 / 32)) + ((0 + - PI * ((vget bx 0 + vget bx 1 + vget bx 2) * third_lit) * ((vget bx 0 + vget bx 1 + vget bx 2) * third_lit) * ((vget bx 0 + vget bx 1 + vget bx 2) * third_lit) * nu) - rho * vget bx 2 * (vget bx 0 * vget bx 0 * vget bx 0 * vget bx 0 + vget bx 1 * vget bx 1 * vget bx 1 * vget bx 1) * Rabs a2 * (1 / 32))))) by reflexivity; rewrite E end.
    zred; field.
  - match goal with |- mget 6 ?B 2 2 = _ => assert (E : mget 6 B 2 2 = ((0 + - PI * ((vget bx 0 + vget bx 1 + vget bx 2) * third_lit) * ((vget bx 0 + vget bx 1 + vget bx 2) * third_lit) * ((vget bx 0 + vget bx 1 + vget bx 2) * third_lit) * nu) - rho * vget bx 2 * (vget bx 0 * vget bx 0 * vget bx 0 * vget bx 0 + vget bx 1 * vget bx 1 * vget bx 1 * vget bx 1) * Rabs a2 * (1 / 32))) by reflexivity; rewrite E end.
    zred; field.
  - match goal with |- mget 6 ?B 2 2 = _ => assert (E : mget 6 B 2 2 = (1 / 2 * ((0 + - PI * ((vget bx 0 + vget bx 1 + vget bx 2) * third_lit) * ((vget bx 0 + vget bx 1 + vget bx 2) * third_lit) * ((vget bx 0 + vget bx 1 + vget bx 2) * third_lit) * nu) + (0 + - PI * ((vget bx 0 + vget bx 1 + vget bx 2) * third_lit) * ((vget bx 0 + vget bx 1 + vget bx 2) * third_lit) * ((vget bx 0 + vget bx 1 + vget bx 2) * third_lit) * nu)))) by reflexivity; rewrite E end.
    zred; field.
  - match goal with |- mget 6 ?B 2 2 = _ => assert (E : mget 6 B 2 2 = (0 + - PI * ((vget bx 0 + vget bx 1 + vget bx 2) * third_lit) * ((vget bx 0 + vget bx 1 + vget bx 2) * third_lit) * ((vget bx 0 + vget bx 1 + vget bx 2) * third_lit) * nu)) by reflexivity; rewrite E end.
    zred; field.
  - match goal with |- mget 6 ?B 2 2 = _ => assert (E : mget 6 B 2 2 = (1 / 2 * ((0 - rho * vget bx 2 * (vget bx 0 * vget bx 0 * vget bx 0 * vget bx 0 + vget bx 1 * vget bx 1 * vget bx 1 * vget bx 1) * Rabs a2 * (1 / 32)) + (0 - rho * vget bx 2 * (vget bx 0 * vget bx 0 * vget bx 0 * vget bx 0 + vget bx 1 * vget bx 1 * vget bx 1 * vget bx 1) * Rabs a2 * (1 / 32))))) by reflexivity; rewrite E end.
    zred; field.
  - match goal with |- mget 6 ?B 2 2 = _ => assert (E : mget 6 B 2 2 = (0 - rho * vget bx 2 * (vget bx 0 * vget bx 0 * vget bx 0 * vget bx 0 + vget bx 1 * vget bx 1 * vget bx 1 * vget bx 1) * Rabs a2 * (1 / 32))) by reflexivity; rewrite E end.
    zred; field.
  - match goal with |- mget 6 ?B 2 2 = _ => assert (E : mget 6 B 2 2 = (1 / 2 * (0 + 0))) by reflexivity; rewrite E end.
    zred; field.
  - match goal with |- mget 6 ?B 2 2 = _ => assert (E : mget 6 B 2 2 = 0) by reflexivity; rewrite E end.
    zred; field.
Qed.


Lemma box_F_derive_2 (mass : R) (inertia : list R) a0 a1 a2 a3 a4 a5 rho nu :
  0 < mass ->
  let bx := box_dims mass inertia in
  is_derive (fun x => nth 2 (box_fluid_local mass inertia [a0; a1; x] [a3; a4; a5] rho nu) 0) a2
            (Bdiag (1 / 3) (3 * PI) (vget bx 0) (vget bx 1) (vget bx 2) a2 rho nu 2).
Proof.
  intros Hm bx.
  destruct (box_dims_pos mass inertia Hm) as (P0 & P1 & P2). fold bx in P0, P1, P2.
  assert (Pd : 0 < (vget bx 0 + vget bx 1 + vget bx 2) / 3) by lra.
  unfold Bdiag. unfold box_fluid_local.
  destruct (sgtb nu (sofZ 0)); destruct (sgtb rho (sofZ 0)); zred.
  - apply (is_derive_ext (fun x => ((- x * Rpower ((vget bx 0 + vget bx 1 + vget bx 2) / 3) 3 * PI * nu) - vget bx 2 * (Rpower (vget bx 0) 4 + Rpower (vget bx 1) 4) * Rabs x * x * (rho / 64)))); [intro x; reflexivity|].
    apply (is_derive_ext (fun x => (- Rpower ((vget bx 0 + vget bx 1 + vget bx 2) / 3) 3 * PI * nu) * x + (- (vget bx 2 * (Rpower (vget bx 0) 4 + Rpower (vget bx 1) 4) * (rho / 64))) * (x * Rabs x))); [intro x; rring|].
    match goal with |- is_derive _ ?a ?d => replace d with ((- Rpower ((vget bx 0 + vget bx 1 + vget bx 2) / 3) 3 * PI * nu) + (- (vget bx 2 * (Rpower (vget bx 0) 4 + Rpower (vget bx 1) 4) * (rho / 64))) * (2 * Rabs a)); [apply is_derive_lin_abs|] end.
    rewrite ?(Rpower_3 _ Pd), ?(Rpower_4 _ P0), ?(Rpower_4 _ P1), ?(Rpower_4 _ P2); field.
  - apply (is_derive_ext (fun x => (- x * Rpower ((vget bx 0 + vget bx 1 + vget bx 2) / 3) 3 * PI * nu))); [intro x; reflexivity|].
    apply (is_derive_ext (fun x => (- Rpower ((vget bx 0 + vget bx 1 + vget bx 2) / 3) 3 * PI * nu) * x + 0 * (x * Rabs x))); [intro x; rring|].
    match goal with |- is_derive _ ?a ?d => replace d with ((- Rpower ((vget bx 0 + vget bx 1 + vget bx 2) / 3) 3 * PI * nu) + 0 * (2 * Rabs a)); [apply is_derive_lin_abs|] end.
    rewrite ?(Rpower_3 _ Pd), ?(Rpower_4 _ P0), ?(Rpower_4 _ P1), ?(Rpower_4 _ P2); field.
  - apply (is_derive_ext (fun x => (0 - vget bx 2 * (Rpower (vget bx 0) 4 + Rpower (vget bx 1) 4) * Rabs x * x * (rho / 64)))); [intro x; reflexivity|].
    apply (is_derive_ext (fun x => 0 * x + (- (vget bx 2 * (Rpower (vget bx 0) 4 + Rpower (vget bx 1) 4) * (rho / 64))) * (x * Rabs x))); [intro x; rring|].
    match goal with |- is_derive _ ?a ?d => replace d with (0 + (- (vget bx 2 * (Rpower (vget bx 0) 4 + Rpower (vget bx 1) 4) * (rho / 64))) * (2 * Rabs a)); [apply is_derive_lin_abs|] end.
    rewrite ?(Rpower_3 _ Pd), ?(Rpower_4 _ P0), ?(Rpower_4 _ P1), ?(Rpower_4 _ P2); field.
  - apply (is_derive_ext (fun x => 0)); [intro x; reflexivity|].
    apply (is_derive_ext (fun x => 0 * x + 0 * (x * Rabs x))); [intro x; rring|].
    match goal with |- is_derive _ ?a ?d => replace d with (0 + 0 * (2 * Rabs a)); [apply is_derive_lin_abs|] end.
    rewrite ?(Rpower_3 _ Pd), ?(Rpower_4 _ P0), ?(Rpower_4 _ P1), ?(Rpower_4 _ P2); field.
Qed.


Lemma box_B_entry_3 integ (bm : Z -> Z -> R) (bi : Z -> Z -> list R) w bd a0 a1 a2 a3 a4 a5 rho nu sh0 sh1 :
  let bx := box_dims (bm (Z.rem w sh0) bd) (bi (Z.rem w sh1) bd) in
  mget 6 (TD._deriv_box_fluid integ bm bi w bd [a0; a1; a2; a3; a4; a5] rho nu sh0 sh1) 3 3
  = Bdiag third_lit (- lit3pi) (vget bx 0) (vget bx 1) (vget bx 2) a3 rho nu 3.
Proof.
  intro bx. rewrite box_B_model_eq. unfold Bdiag.
  destruct (sgtb nu (sofZ 0)); destruct (sgtb rho (sofZ 0)); destruct (Z.eqb integ 3).
  - match goal with |- mget 6 ?B 3 3 = _ => assert (E : mget 6 B 3 3 = (1 / 2 * (((0 + lit3pi * ((vget bx 0 + vget bx 1 + vget bx 2) * third_lit) * nu) - rho * vget bx 1 * vget bx 2 * Rabs a3) + ((0 + lit3pi * ((vget bx 0 + vget bx 1 + vget bx 2) * third_lit) * nu) - rho * vget bx 1 * vget bx 2 * Rabs a3)))) by reflexivity; rewrite E end.
    zred; field.
  - match goal with |- mget 6 ?B 3 3 = _ => assert (E : mget 6 B 3 3 = ((0 + lit3pi * ((vget bx 0 + vget bx 1 + vget bx 2) * third_lit) * nu) - rho * vget bx 1 * vget bx 2 * Rabs a3)) by reflexivity; rewrite E end.
    zred; field.
  - match goal with |- mget 6 ?B 3 3 = _ => assert (E : mget 6 B 3 3 = (1 / 2 * ((0 + lit3pi * ((vget bx 0 + vget bx 1 + vget bx 2) * third_lit) * nu) + (0 + lit3pi * ((vget bx 0 + vget bx 1 + vget bx 2) * third_lit) * nu)))) by reflexivity; rewrite E end.
    zred; field.
  - match goal with |- mget 6 ?B 3 3 = _ => assert (E : mget 6 B 3 3 = (0 + lit3pi * ((vget bx 0 + vget bx 1 + vget bx 2) * third_lit) * nu)) by reflexivity; rewrite E end.
    zred; field.
  - match goal with |- mget 6 ?B 3 3 = _ => assert (E : mget 6 B 3 3 = (1 / 2 * ((0 - rho * vget bx 1 * vget bx 2 * Rabs a3) + (0 - rho * vget bx 1 * vget bx 2 * Rabs a3)))) by reflexivity; rewrite E end.
    zred; field.
  - match goal with |- mget 6 ?B 3 3 = _ => assert (E : mget 6 B 3 3 = (0 - rho * vget bx 1 * vget bx 2 * Rabs a3)) by reflexivity; rewrite E end.
    zred; field.
  - match goal with |- mget 6 ?B 3 3 = _ => assert (E : mget 6 B 3 3 = (1 / 2 * (0 + 0))) by reflexivity; rewrite E end.
    zred; field.
  - match goal with |- mget 6 ?B 3 3 = _ => assert (E : mget 6 B 3 3 = 0) by reflexivity; rewrite E end.
    zred; field.
Qed.


Lemma box_F_derive_3 (mass : R) (inertia : list R) a0 a1 a2 a3 a4 a5 rho nu :
  0 < mass ->
  let bx := box_dims mass inertia in
  is_derive (fun x => nth 3 (box_fluid_local mass inertia [a0; a1; a2] [x; a4; a5] rho nu) 0) a3
            (Bdiag (1 / 3) (3 * PI) (vget bx 0) (vget bx 1) (vget bx 2) a3 rho nu 3).
Proof.
  intros Hm bx.
  destruct (box_dims_pos mass inertia Hm) as (P0 & P1 & P2). fold bx in P0, P1, P2.
  assert (Pd : 0 < (vget bx 0 + vget bx 1 + vget bx 2) / 3) by lra.
  unfold Bdiag. unfold box_fluid_local.
  destruct (sgtb nu (sofZ 0)); destruct (sgtb rho (sofZ 0)); zred.
  - apply (is_derive_ext (fun x => ((- 3 * x * ((vget bx 0 + vget bx 1 + vget bx 2) / 3) * PI * nu) - 1 / 2 * rho * vget bx 1 * vget bx 2 * Rabs x * x))); [intro x; reflexivity|].
    apply (is_derive_ext (fun x => (- 3 * ((vget bx 0 + vget bx 1 + vget bx 2) / 3) * PI * nu) * x + (- (1 / 2 * rho * vget bx 1 * vget bx 2)) * (x * Rabs x))); [intro x; rring|].
    match goal with |- is_derive _ ?a ?d => replace d with ((- 3 * ((vget bx 0 + vget bx 1 + vget bx 2) / 3) * PI * nu) + (- (1 / 2 * rho * vget bx 1 * vget bx 2)) * (2 * Rabs a)); [apply is_derive_lin_abs|] end.
    rewrite ?(Rpower_3 _ Pd), ?(Rpower_4 _ P0), ?(Rpower_4 _ P1), ?(Rpower_4 _ P2); field.
  - apply (is_derive_ext (fun x => (- 3 * x * ((vget bx 0 + vget bx 1 + vget bx 2) / 3) * PI * nu))); [intro x; reflexivity|].
    apply (is_derive_ext (fun x => (- 3 * ((vget bx 0 + vget bx 1 + vget bx 2) / 3) * PI * nu) * x + 0 * (x * Rabs x))); [intro x; rring|].
    match goal with |- is_derive _ ?a ?d => replace d with ((- 3 * ((vget bx 0 + vget bx 1 + vget bx 2) / 3) * PI * nu) + 0 * (2 * Rabs a)); [apply is_derive_lin_abs|] end.
    rewrite ?(Rpower_3 _ Pd), ?(Rpower_4 _ P0), ?(Rpower_4 _ P1), ?(Rpower_4 _ P2); field.
  - apply (is_derive_ext (fun x => (0 - 1 / 2 * rho * vget bx 1 * vget bx 2 * Rabs x * x))); [intro x; reflexivity|].
    apply (is_derive_ext (fun x => 0 * x + (- (1 / 2 * rho * vget bx 1 * vget bx 2)) * (x * Rabs x))); [intro x; rring|].
    match goal with |- is_derive _ ?a ?d => replace d with (0 + (- (1 / 2 * rho * vget bx 1 * vget bx 2)) * (2 * Rabs a)); [apply is_derive_lin_abs|] end.
    rewrite ?(Rpower_3 _ Pd), ?(Rpower_4 _ P0), ?(Rpower_4 _ P1), ?(Rpower_4 _ P2); field.
  - apply (is_derive_ext (fun x => 0)); [intro x; reflexivity|].
    apply (is_derive_ext (fun x => 0 * x + 0 * (x * Rabs x))); [intro x; rring|].
    match goal with |- is_derive _ ?a ?d => replace d with (0 + 0 * (2 * Rabs a)); [apply is_derive_lin_abs|] end.
    rewrite ?(Rpower_3 _ Pd), ?(Rpower_4 _ P0), ?(Rpower_4 _ P1), ?(Rpower_4 _ P2); field.
Qed.


Lemma box_B_entry_4 integ (bm : Z -> Z -> R) (bi : Z -> Z -> list R) w bd a0 a1 a2 a3 a4 a5 rho nu sh0 sh1 :
  let bx := box_dims (bm (Z.rem w sh0) bd) (bi (Z.rem w sh1) bd) in
  mget 6 (TD._deriv_box_fluid integ bm bi w bd [a0; a1; a2; a3; a4; a5] rho nu sh0 sh1) 4 4
  = Bdiag third_lit (- lit3pi) (vget bx 0) (vget bx 1) (vget bx 2) a4 rho nu 4.
Proof.
  intro bx. rewrite box_B_model_eq. unfold Bdiag.
  destruct (sgtb nu (sofZ 0)); destruct (sgtb rho (sofZ 0)); destruct (Z.eqb integ 3).
  - match goal with |- mget 6 ?B 4 4 = _ => assert (E : mget 6 B 4 4 = (1 / 2 * (((0 + lit3pi * ((vget bx 0 + vget bx 1 + vget bx 2) * third_lit) * nu) - rho * vget bx 0 * vget bx 2 * Rabs a4) + ((0 + lit3pi * ((vget bx 0 + vget bx 1 + vget bx 2) * third_lit) * nu) - rho * vget bx 0 * vget bx 2 * Rabs a4)))) by reflexivity; rewrite E end.
    zred; field.
  - match goal with |- mget 6 ?B 4 4 = _ => assert (E : mget 6 B 4 4 = ((0 + lit3pi * ((vget bx 0 + vget bx 1 + vget bx 2) * third_lit) * nu) - rho * vget bx 0 * vget bx 2 * Rabs a4)) by reflexivity; rewrite E end.
    zred; field.
  - match goal with |- mget 6 ?B 4 4 = _ => assert (E : mget 6 B 4 4 = (1 / 2 * ((0 + lit3pi * ((vget bx 0 + vget bx 1 + vget bx 2) * third_lit) * nu) + (0 + lit3pi * ((vget bx 0 + vget bx 1 + vget bx 2) * third_lit) * nu)))) by reflexivity; rewrite E end.
    zred; field.
  - match goal with |- mget 6 ?B 4 4 = _ => assert (E : mget 6 B 4 4 = (0 + lit3pi * ((vget bx 0 + vget bx 1 + vget bx 2) * third_lit) * nu)) by reflexivity; rewrite E end.
    zred; field.
  - match goal with |- mget 6 ?B 4 4 = _ => assert (E : mget 6 B 4 4 = (1 / 2 * ((0 - rho * vget bx 0 * vget bx 2 * Rabs a4) + (0 - rho * vget bx 0 * vget bx 2 * Rabs a4)))) by reflexivity; rewrite E end.
    zred; field.
  - match goal with |- mget 6 ?B 4 4 = _ => assert (E : mget 6 B 4 4 = (0 - rho * vget bx 0 * vget bx 2 * Rabs a4)) by reflexivity; rewrite E end.
    zred; field.
  - match goal with |- mget 6 ?B 4 4 = _ => assert (E : mget 6 B 4 4 = (1 / 2 * (0 + 0))) by reflexivity; rewrite E end.
    zred; field.
  - match goal with |- mget 6 ?B 4 4 = _ => assert (E : mget 6 B 4 4 = 0) by reflexivity; rewrite E end.
    zred; field.
Qed.


Lemma box_F_derive_4 (mass : R) (inertia : list R) a0 a1 a2 a3 a4 a5 rho nu :
  0 < mass ->
  let bx := box_dims mass inertia in
  is_derive (fun x => nth 4 (box_fluid_local mass inertia [a0; a1; a2] [a3; x; a5] rho nu) 0) a4
            (Bdiag (1 / 3) (3 * PI) (vget bx 0) (vget bx 1) (vget bx 2) a4 rho nu 4).
Proof.
  intros Hm bx.
  destruct (box_dims_pos mass inertia Hm) as (P0 & P1 & P2). fold bx in P0, P1, P2.
  assert (Pd : 0 < (vget bx 0 + vget bx 1 + vget bx 2) / 3) by lra.
  unfold Bdiag. unfold box_fluid_local.
  destruct (sgtb nu (sofZ 0)); destruct (sgtb rho (sofZ 0)); zred.
  - apply (is_derive_ext (fun x => ((- 3 * x * ((vget bx 0 + vget bx 1 + vget bx 2) / 3) * PI * nu) - 1 / 2 * rho * vget bx 0 * vget bx 2 * Rabs x * x))); [intro x; reflexivity|].
    apply (is_derive_ext (fun x => (- 3 * ((vget bx 0 + vget bx 1 + vget bx 2) / 3) * PI * nu) * x + (- (1 / 2 * rho * vget bx 0 * vget bx 2)) * (x * Rabs x))); [intro x; rring|].
    match goal with |- is_derive _ ?a ?d => replace d with ((- 3 * ((vget bx 0 + vget bx 1 + vget bx 2) / 3) * PI * nu) + (- (1 / 2 * rho * vget bx 0 * vget bx 2)) * (2 * Rabs a)); [apply is_derive_lin_abs|] end.
    rewrite ?(Rpower_3 _ Pd), ?(Rpower_4 _ P0), ?(Rpower_4 _ P1), ?(Rpower_4 _ P2); field.
  - apply (is_derive_ext (fun x => (- 3 * x * ((vget bx 0 + vget bx 1 + vget bx 2) / 3) * PI * nu))); [intro x; reflexivity|].
    apply (is_derive_ext (fun x => (- 3 * ((vget bx 0 + vget bx 1 + vget bx 2) / 3) * PI * nu) * x + 0 * (x * Rabs x))); [intro x; rring|].
    match goal with |- is_derive _ ?a ?d => replace d with ((- 3 * ((vget bx 0 + vget bx 1 + vget bx 2) / 3) * PI * nu) + 0 * (2 * Rabs a)); [apply is_derive_lin_abs|] end.
    rewrite ?(Rpower_3 _ Pd), ?(Rpower_4 _ P0), ?(Rpower_4 _ P1), ?(Rpower_4 _ P2); field.
  - apply (is_derive_ext (fun x => (0 - 1 / 2 * rho * vget bx 0 * vget bx 2 * Rabs x * x))); [intro x; reflexivity|].
    apply (is_derive_ext (fun x => 0 * x + (- (1 / 2 * rho * vget bx 0 * vget bx 2)) * (x * Rabs x))); [intro x; rring|].
    match goal with |- is_derive _ ?a ?d => replace d with (0 + (- (1 / 2 * rho * vget bx 0 * vget bx 2)) * (2 * Rabs a)); [apply is_derive_lin_abs|] end.
    rewrite ?(Rpower_3 _ Pd), ?(Rpower_4 _ P0), ?(Rpower_4 _ P1), ?(Rpower_4 _ P2); field.
  - apply (is_derive_ext (fun x => 0)); [intro x; reflexivity|].
    apply (is_derive_ext (fun x => 0 * x + 0 * (x * Rabs x))); [intro x; rring|].
    match goal with |- is_derive _ ?a ?d => replace d with (0 + 0 * (2 * Rabs a)); [apply is_derive_lin_abs|] end.
    rewrite ?(Rpower_3 _ Pd), ?(Rpower_4 _ P0), ?(Rpower_4 _ P1), ?(Rpower_4 _ P2); field.
Qed.


Lemma box_B_entry_5 integ (bm : Z -> Z -> R) (bi : Z -> Z -> list R) w bd a0 a1 a2 a3 a4 a5 rho nu sh0 sh1 :
  let bx := box_dims (bm (Z.rem w sh0) bd) (bi (Z.rem w sh1) bd) in
  mget 6 (TD._deriv_box_fluid integ bm bi w bd [a0; a1; a2; a3; a4; a5] rho nu sh0 sh1) 5 5
  = Bdiag third_lit (- lit3pi) (vget bx 0) (vget bx 1) (vget bx 2) a5 rho nu 5.
Proof.
  intro bx. rewrite box_B_model_eq. unfold Bdiag.
  destruct (sgtb nu (sofZ 0)); destruct (sgtb rho (sofZ 0)); destruct (Z.eqb integ 3).
  - match goal with |- mget 6 ?B 5 5 = _ => assert (E : mget 6 B 5 5 = (1 / 2 * (((0 + lit3pi * ((vget bx 0 + vget bx 1 + vget bx 2) * third_lit) * nu) - rho * vget bx 0 * vget bx 1 * Rabs a5) + ((0 + lit3pi * ((vget bx 0 + vget bx 1 + vget bx 2) * third_lit) * nu) - rho * vget bx 0 * vget bx 1 * Rabs a5)))) by reflexivity; rewrite E end.
    zred; field.
  - match goal with |- mget 6 ?B 5 5 = _ => assert (E : mget 6 B 5 5 = ((0 + lit3pi * ((vget bx 0 + vget bx 1 + vget bx 2) * third_lit) * nu) - rho * vget bx 0 * vget bx 1 * Rabs a5)) by reflexivity; rewrite E end.
    zred; field.
  - match goal with |- mget 6 ?B 5 5 = _ => assert (E : mget 6 B 5 5 = (1 / 2 * ((0 + lit3pi * ((vget bx 0 + vget bx 1 + vget bx 2) * third_lit) * nu) + (0 + lit3pi * ((vget bx 0 + vget bx 1 + vget bx 2) * third_lit) * nu)))) by reflexivity; rewrite E end.
    zred; field.
  - match goal with |- mget 6 ?B 5 5 = _ => assert (E : mget 6 B 5 5 = (0 + lit3pi * ((vget bx 0 + vget bx 1 + vget bx 2) * third_lit) * nu)) by reflexivity; rewrite E end.
    zred; field.
  - match goal with |- mget 6 ?B 5 5 = _ => assert (E : mget 6 B 5 5 = (1 / 2 * ((0 - rho * vget bx 0 * vget bx 1 * Rabs a5) + (0 - rho * vget bx 0 * vget bx 1 * Rabs a5)))) by reflexivity; rewrite E end.
    zred; field.
  - match goal with |- mget 6 ?B 5 5 = _ => assert (E : mget 6 B 5 5 = (0 - rho * vget bx 0 * vget bx 1 * Rabs a5)) by reflexivity; rewrite E end.
    zred; field.
  - match goal with |- mget 6 ?B 5 5 = _ => assert (E : mget 6 B 5 5 = (1 / 2 * (0 + 0))) by reflexivity; rewrite E end.
    zred; field.
  - match goal with |- mget 6 ?B 5 5 = _ => assert (E : mget 6 B 5 5 = 0) by reflexivity; rewrite E end.
    zred; field.
Qed.


Lemma box_F_derive_5 (mass : R) (inertia : list R) a0 a1 a2 a3 a4 a5 rho nu :
  0 < mass ->
  let bx := box_dims mass inertia in
  is_derive (fun x => nth 5 (box_fluid_local mass inertia [a0; a1; a2] [a3; a4; x] rho nu) 0) a5
            (Bdiag (1 / 3) (3 * PI) (vget bx 0) (vget bx 1) (vget bx 2) a5 rho nu 5).
Proof.
  intros Hm bx.
  destruct (box_dims_pos mass inertia Hm) as (P0 & P1 & P2). fold bx in P0, P1, P2.
  assert (Pd : 0 < (vget bx 0 + vget bx 1 + vget bx 2) / 3) by lra.
  unfold Bdiag. unfold box_fluid_local.
  destruct (sgtb nu (sofZ 0)); destruct (sgtb rho (sofZ 0)); zred.
  - apply (is_derive_ext (fun x => ((- 3 * x * ((vget bx 0 + vget bx 1 + vget bx 2) / 3) * PI * nu) - 1 / 2 * rho * vget bx 0 * vget bx 1 * Rabs x * x))); [intro x; reflexivity|].
    apply (is_derive_ext (fun x => (- 3 * ((vget bx 0 + vget bx 1 + vget bx 2) / 3) * PI * nu) * x + (- (1 / 2 * rho * vget bx 0 * vget bx 1)) * (x * Rabs x))); [intro x; rring|].
    match goal with |- is_derive _ ?a ?d => replace d with ((- 3 * ((vget bx 0 + vget bx 1 + vget bx 2) / 3) * PI * nu) + (- (1 / 2 * rho * vget bx 0 * vget bx 1)) * (2 * Rabs a)); [apply is_derive_lin_abs|] end.
    rewrite ?(Rpower_3 _ Pd), ?(Rpower_4 _ P0), ?(Rpower_4 _ P1), ?(Rpower_4 _ P2); field.
  - apply (is_derive_ext (fun x => (- 3 * x * ((vget bx 0 + vget bx 1 + vget bx 2) / 3) * PI * nu))); [intro x; reflexivity|].
    apply (is_derive_ext (fun x => (- 3 * ((vget bx 0 + vget bx 1 + vget bx 2) / 3) * PI * nu) * x + 0 * (x * Rabs x))); [intro x; rring|].
    match goal with |- is_derive _ ?a ?d => replace d with ((- 3 * ((vget bx 0 + vget bx 1 + vget bx 2) / 3) * PI * nu) + 0 * (2 * Rabs a)); [apply is_derive_lin_abs|] end.
    rewrite ?(Rpower_3 _ Pd), ?(Rpower_4 _ P0), ?(Rpower_4 _ P1), ?(Rpower_4 _ P2); field.
  - apply (is_derive_ext (fun x => (0 - 1 / 2 * rho * vget bx 0 * vget bx 1 * Rabs x * x))); [intro x; reflexivity|].
    apply (is_derive_ext (fun x => 0 * x + (- (1 / 2 * rho * vget bx 0 * vget bx 1)) * (x * Rabs x))); [intro x; rring|].
    match goal with |- is_derive _ ?a ?d => replace d with (0 + (- (1 / 2 * rho * vget bx 0 * vget bx 1)) * (2 * Rabs a)); [apply is_derive_lin_abs|] end.
    rewrite ?(Rpower_3 _ Pd), ?(Rpower_4 _ P0), ?(Rpower_4 _ P1), ?(Rpower_4 _ P2); field.
  - apply (is_derive_ext (fun x => 0)); [intro x; reflexivity|].
    apply (is_derive_ext (fun x => 0 * x + 0 * (x * Rabs x))); [intro x; rring|].
    match goal with |- is_derive _ ?a ?d => replace d with (0 + 0 * (2 * Rabs a)); [apply is_derive_lin_abs|] end.
    rewrite ?(Rpower_3 _ Pd), ?(Rpower_4 _ P0), ?(Rpower_4 _ P1), ?(Rpower_4 _ P2); field.
Qed.

Lemma Bdiag_nu_off k13 k3pi j13 j3pi b0 b1 b2 a rho nu c :
  sgtb nu (sofZ 0) = false -> Bdiag k13 k3pi b0 b1 b2 a rho nu c = Bdiag j13 j3pi b0 b1 b2 a rho nu c.
Proof. intro E. unfold Bdiag. rewrite E. reflexivity. Qed.

(* off-diagonal entries of _deriv_box_fluid vanish for every medium and integrator *)
Lemma box_B_offdiag integ (bm : Z -> Z -> R) (bi : Z -> Z -> list R) w bd a0 a1 a2 a3 a4 a5 rho nu sh0 sh1 (r c : Z) :
  (0 <= r < 6)%Z -> (0 <= c < 6)%Z -> r <> c ->
  mget 6 (TD._deriv_box_fluid integ bm bi w bd [a0; a1; a2; a3; a4; a5] rho nu sh0 sh1) r c = 0.
Proof.
  intros Hr Hc Hne. rewrite box_B_model_eq.
  assert (Er : (r = 0 \/ r = 1 \/ r = 2 \/ r = 3 \/ r = 4 \/ r = 5)%Z) by lia.
  assert (Ec : (c = 0 \/ c = 1 \/ c = 2 \/ c = 3 \/ c = 4 \/ c = 5)%Z) by lia.
  destruct (sgtb nu (sofZ 0)); destruct (sgtb rho (sofZ 0)); destruct (Z.eqb integ 3);
    (destruct Er as [-> | [-> | [-> | [-> | [-> | ->]]]]]; destruct Ec as [-> | [-> | [-> | [-> | [-> | ->]]]]];
     try (exfalso; apply Hne; reflexivity);
     first [ reflexivity | (transitivity (1 / 2 * (0 + 0)); [reflexivity | field]) ]).
Qed.

(* B = _deriv_box_fluid and the local inertia-box force of passive._fluid_force (hand model box_fluid_local):
   (1) every diagonal entry of B has the closed form Bdiag with the source's binary64 constants
       third_lit (for 1/3) and -lit3pi (for 3*PI);
   (2) the derivative of force component c in ITS velocity component is Bdiag with the exact 1/3, 3*PI.
   _partial: the two agree exactly when viscosity <= 0 (box_fluid_deriv_density_exact); with viscosity they
   differ by those two constants; that the force component does not depend on the other velocity
   components is by inspection of box_fluid_local, not stated. *)
Theorem box_fluid_deriv_partial :
  forall integ (bm : Z -> Z -> R) (bi : Z -> Z -> list R) w bd a0 a1 a2 a3 a4 a5 rho nu sh0 sh1,
    let mass := bm (Z.rem w sh0) bd in
    let inertia := bi (Z.rem w sh1) bd in
    let bx := box_dims mass inertia in
    let B := TD._deriv_box_fluid integ bm bi w bd [a0; a1; a2; a3; a4; a5] rho nu sh0 sh1 in
    let F := fun l => box_fluid_local mass inertia (firstn 3 l) (skipn 3 l) rho nu in
    0 < mass ->
    (mget 6 B 0 0 = Bdiag third_lit (- lit3pi) (vget bx 0) (vget bx 1) (vget bx 2) a0 rho nu 0 /\
     is_derive (fun x => nth 0 (F [x; a1; a2; a3; a4; a5]) 0) a0 (Bdiag (1/3) (3*PI) (vget bx 0) (vget bx 1) (vget bx 2) a0 rho nu 0)) /\
    (mget 6 B 1 1 = Bdiag third_lit (- lit3pi) (vget bx 0) (vget bx 1) (vget bx 2) a1 rho nu 1 /\
     is_derive (fun x => nth 1 (F [a0; x; a2; a3; a4; a5]) 0) a1 (Bdiag (1/3) (3*PI) (vget bx 0) (vget bx 1) (vget bx 2) a1 rho nu 1)) /\
    (mget 6 B 2 2 = Bdiag third_lit (- lit3pi) (vget bx 0) (vget bx 1) (vget bx 2) a2 rho nu 2 /\
     is_derive (fun x => nth 2 (F [a0; a1; x; a3; a4; a5]) 0) a2 (Bdiag (1/3) (3*PI) (vget bx 0) (vget bx 1) (vget bx 2) a2 rho nu 2)) /\
    (mget 6 B 3 3 = Bdiag third_lit (- lit3pi) (vget bx 0) (vget bx 1) (vget bx 2) a3 rho nu 3 /\
     is_derive (fun x => nth 3 (F [a0; a1; a2; x; a4; a5]) 0) a3 (Bdiag (1/3) (3*PI) (vget bx 0) (vget bx 1) (vget bx 2) a3 rho nu 3)) /\
    (mget 6 B 4 4 = Bdiag third_lit (- lit3pi) (vget bx 0) (vget bx 1) (vget bx 2) a4 rho nu 4 /\
     is_derive (fun x => nth 4 (F [a0; a1; a2; a3; x; a5]) 0) a4 (Bdiag (1/3) (3*PI) (vget bx 0) (vget bx 1) (vget bx 2) a4 rho nu 4)) /\
    (mget 6 B 5 5 = Bdiag third_lit (- lit3pi) (vget bx 0) (vget bx 1) (vget bx 2) a5 rho nu 5 /\
     is_derive (fun x => nth 5 (F [a0; a1; a2; a3; a4; x]) 0) a5 (Bdiag (1/3) (3*PI) (vget bx 0) (vget bx 1) (vget bx 2) a5 rho nu 5)).
Proof.
  intros integ bm bi w bd a0 a1 a2 a3 a4 a5 rho nu sh0 sh1 mass inertia bx B F Hm.
  split; [split; [apply box_B_entry_0 | apply (box_F_derive_0 mass inertia a0 a1 a2 a3 a4 a5 rho nu Hm)] |].
  split; [split; [apply box_B_entry_1 | apply (box_F_derive_1 mass inertia a0 a1 a2 a3 a4 a5 rho nu Hm)] |].
  split; [split; [apply box_B_entry_2 | apply (box_F_derive_2 mass inertia a0 a1 a2 a3 a4 a5 rho nu Hm)] |].
  split; [split; [apply box_B_entry_3 | apply (box_F_derive_3 mass inertia a0 a1 a2 a3 a4 a5 rho nu Hm)] |].
  split; [split; [apply box_B_entry_4 | apply (box_F_derive_4 mass inertia a0 a1 a2 a3 a4 a5 rho nu Hm)] |].
  split; [apply box_B_entry_5 | apply (box_F_derive_5 mass inertia a0 a1 a2 a3 a4 a5 rho nu Hm)].
Qed.

(* density-only (or no) medium: B's diagonal is EXACTLY the derivative of the local box force *)
Theorem box_fluid_deriv_density_exact :
  forall integ (bm : Z -> Z -> R) (bi : Z -> Z -> list R) w bd a0 a1 a2 a3 a4 a5 rho nu sh0 sh1,
    let mass := bm (Z.rem w sh0) bd in
    let inertia := bi (Z.rem w sh1) bd in
    let B := TD._deriv_box_fluid integ bm bi w bd [a0; a1; a2; a3; a4; a5] rho nu sh0 sh1 in
    let F := fun l => box_fluid_local mass inertia (firstn 3 l) (skipn 3 l) rho nu in
    0 < mass -> nu <= 0 ->
    is_derive (fun x => nth 0 (F [x; a1; a2; a3; a4; a5]) 0) a0 (mget 6 B 0 0) /\
    is_derive (fun x => nth 1 (F [a0; x; a2; a3; a4; a5]) 0) a1 (mget 6 B 1 1) /\
    is_derive (fun x => nth 2 (F [a0; a1; x; a3; a4; a5]) 0) a2 (mget 6 B 2 2) /\
    is_derive (fun x => nth 3 (F [a0; a1; a2; x; a4; a5]) 0) a3 (mget 6 B 3 3) /\
    is_derive (fun x => nth 4 (F [a0; a1; a2; a3; x; a5]) 0) a4 (mget 6 B 4 4) /\
    is_derive (fun x => nth 5 (F [a0; a1; a2; a3; a4; x]) 0) a5 (mget 6 B 5 5).
Proof.
  intros integ bm bi w bd a0 a1 a2 a3 a4 a5 rho nu sh0 sh1 mass inertia B F Hm Hn.
  assert (En : sgtb nu (sofZ 0) = false) by (apply Rltb_false; exact Hn).
  destruct (box_fluid_deriv_partial integ bm bi w bd a0 a1 a2 a3 a4 a5 rho nu sh0 sh1 Hm)
    as ((E0 & D0) & (E1 & D1) & (E2 & D2) & (E3 & D3) & (E4 & D4) & (E5 & D5)).
  fold mass inertia in E0, E1, E2, E3, E4, E5, D0, D1, D2, D3, D4, D5.
  unfold B. rewrite E0, E1, E2, E3, E4, E5.
  rewrite (Bdiag_nu_off third_lit (- lit3pi) (1/3) (3*PI) _ _ _ a0 rho nu 0 En),
          (Bdiag_nu_off third_lit (- lit3pi) (1/3) (3*PI) _ _ _ a1 rho nu 1 En),
          (Bdiag_nu_off third_lit (- lit3pi) (1/3) (3*PI) _ _ _ a2 rho nu 2 En),
          (Bdiag_nu_off third_lit (- lit3pi) (1/3) (3*PI) _ _ _ a3 rho nu 3 En),
          (Bdiag_nu_off third_lit (- lit3pi) (1/3) (3*PI) _ _ _ a4 rho nu 4 En),
          (Bdiag_nu_off third_lit (- lit3pi) (1/3) (3*PI) _ _ _ a5 rho nu 5 En).
  split; [exact D0 | split; [exact D1 | split; [exact D2 | split; [exact D3 | split; [exact D4 | exact D5]]]]].
Qed.
