(* Proof/Pipeline.v -- lemmas about the stage language of Model/Pipeline.v:
   footprints of the abstract semantics, commutation of independent events, soundness of
   the normaliser used by C37 (drop EAssign, split factor_solve_i, float factor_m left),
   decidable event equality, and soundness of the def-before-use analysis used by C12. *)
From Coq Require Import String List Bool Arith Lia.
From VF Require Import Model.Pipeline Gen.Skel_pipeline.
From VF Require Import Model.PipelineFacts.
Import ListNotations.
Local Open Scope string_scope.
Local Open Scope list_scope.

(* ---- nested induction principle for events (lists of events inside events) ---------- *)
Section EventInd.
  Variable P : event -> Prop.
  Variable Q : list event -> Prop.
  Hypothesis Hnil : Q nil.
  Hypothesis Hcons : forall e l, P e -> Q l -> Q (e :: l).
  Hypothesis HLaunch : forall k fa i o, P (ELaunch k fa i o).
  Hypothesis HZero : forall f, P (EZero f).
  Hypothesis HFill : forall f x, P (EFill f x).
  Hypothesis HCopy : forall d s, P (ECopy d s).
  Hypothesis HGroup : forall f a b, Q b -> P (EGroup f a b).
  Hypothesis HExt : forall f a, P (EExt f a).
  Hypothesis HIf : forall c t e, Q t -> Q e -> P (EIf c t e).
  Hypothesis HLoop : forall h b, Q b -> P (ELoop h b).
  Hypothesis HAssign : forall n x, P (EAssign n x).
  Hypothesis HRaise : forall t, P (ERaise t).
  Hypothesis HOther : forall t, P (EOther t).

  Fixpoint event_ind2 (e : event) : P e :=
    let go := (fix go (l : list event) : Q l :=
                 match l with
                 | nil => Hnil
                 | x :: r => Hcons x r (event_ind2 x) (go r)
                 end) in
    match e with
    | ELaunch k fa i o => HLaunch k fa i o
    | EZero f => HZero f
    | EFill f x => HFill f x
    | ECopy d s => HCopy d s
    | EGroup f a b => HGroup f a b (go b)
    | EExt f a => HExt f a
    | EIf c t el => HIf c t el (go t) (go el)
    | ELoop h b => HLoop h b (go b)
    | EAssign n x => HAssign n x
    | ERaise t => HRaise t
    | EOther t => HOther t
    end.

  Fixpoint events_ind2 (l : list event) : Q l :=
    match l with
    | nil => Hnil
    | x :: r => Hcons x r (event_ind2 x) (events_ind2 r)
    end.
End EventInd.

(* ---- boolean equality reflects Leibniz equality ------------------------------------ *)
Lemma strs_eqb_eq : forall a b, strs_eqb a b = true <-> a = b.
Proof.
  unfold strs_eqb. induction a as [|x a IH]; destruct b as [|y b]; simpl; split; intro H;
    try reflexivity; try discriminate.
  - apply andb_true_iff in H. destruct H as [H1 H2]. apply String.eqb_eq in H1.
    apply IH in H2. subst. reflexivity.
  - inversion H; subst. rewrite String.eqb_refl. simpl. apply IH. reflexivity.
Qed.

Lemma leq_events_eqb : forall b b',
  (fix leq (x y : list event) {struct x} : bool :=
     match x, y with
     | nil, nil => true
     | u :: x', v :: y' => event_eqb u v && leq x' y'
     | _, _ => false
     end) b b' = events_eqb b b'.
Proof.
  induction b as [|x b IH]; destruct b' as [|y b']; try reflexivity.
  unfold events_eqb. simpl. f_equal. apply IH.
Qed.

Lemma event_eqb_group : forall f a b f' a' b',
  event_eqb (EGroup f a b) (EGroup f' a' b') = String.eqb f f' && strs_eqb a a' && events_eqb b b'.
Proof. intros. simpl. rewrite leq_events_eqb. reflexivity. Qed.
Lemma event_eqb_if : forall c t e c' t' e',
  event_eqb (EIf c t e) (EIf c' t' e') = String.eqb c c' && events_eqb t t' && events_eqb e e'.
Proof. intros. simpl. rewrite !leq_events_eqb. reflexivity. Qed.
Lemma event_eqb_loop : forall h b h' b',
  event_eqb (ELoop h b) (ELoop h' b') = String.eqb h h' && events_eqb b b'.
Proof. intros. simpl. rewrite leq_events_eqb. reflexivity. Qed.

Ltac split_andb :=
  repeat match goal with
  | H : _ && _ = true |- _ => apply andb_true_iff in H; destruct H
  | H : String.eqb _ _ = true |- _ => apply String.eqb_eq in H
  | H : strs_eqb _ _ = true |- _ => apply strs_eqb_eq in H
  end.

Lemma event_eqb_true_eq :
  forall a b, event_eqb a b = true -> a = b.
Proof.
  apply (event_ind2
    (fun a => forall b, event_eqb a b = true -> a = b)
    (fun l => forall l', events_eqb l l' = true -> l = l')).
  - intros [|y l'] H; [reflexivity | discriminate].
  - intros e l He Hl [|y l'] H; [discriminate|].
    unfold events_eqb in H. simpl in H. apply andb_true_iff in H. destruct H as [H1 H2].
    f_equal; [apply He; exact H1 | apply Hl; exact H2].
  - intros k fa i o [] H; try discriminate. simpl in H. split_andb. subst. reflexivity.
  - intros f [] H; try discriminate. simpl in H. split_andb. subst. reflexivity.
  - intros f x [] H; try discriminate. simpl in H. split_andb. subst. reflexivity.
  - intros d s [] H; try discriminate. simpl in H. split_andb. subst. reflexivity.
  - intros f a b Hb [] H; try discriminate. rewrite event_eqb_group in H. split_andb. subst.
    f_equal. apply Hb. assumption.
  - intros f a [] H; try discriminate. simpl in H. split_andb. subst. reflexivity.
  - intros c t e Ht He [] H; try discriminate. rewrite event_eqb_if in H. split_andb. subst.
    f_equal; [apply Ht | apply He]; assumption.
  - intros h b Hb [] H; try discriminate. rewrite event_eqb_loop in H. split_andb. subst.
    f_equal. apply Hb. assumption.
  - intros n x [] H; try discriminate. simpl in H. split_andb. subst. reflexivity.
  - intros t [] H; try discriminate. simpl in H. split_andb. subst. reflexivity.
  - intros t [] H; try discriminate. simpl in H. split_andb. subst. reflexivity.
Qed.

Lemma strs_eqb_refl : forall a, strs_eqb a a = true.
Proof. intro a. apply strs_eqb_eq. reflexivity. Qed.

Lemma event_eqb_refl : forall a, event_eqb a a = true.
Proof.
  apply (event_ind2 (fun a => event_eqb a a = true) (fun l => events_eqb l l = true));
    intros; try reflexivity;
    try (simpl; rewrite ?String.eqb_refl, ?strs_eqb_refl; reflexivity).
  - unfold events_eqb. simpl. rewrite H. exact H0.
  - rewrite event_eqb_group, String.eqb_refl, strs_eqb_refl, H. reflexivity.
  - rewrite event_eqb_if, String.eqb_refl, H, H0. reflexivity.
  - rewrite event_eqb_loop, String.eqb_refl, H. reflexivity.
Qed.

Theorem event_eqb_eq : forall a b, event_eqb a b = true <-> a = b.
Proof.
  intros a b. split; [apply event_eqb_true_eq | intros ->; apply event_eqb_refl].
Qed.

Theorem events_eqb_eq : forall a b, events_eqb a b = true <-> a = b.
Proof.
  unfold events_eqb. induction a as [|x a IH]; destruct b as [|y b]; simpl; split; intro H;
    try reflexivity; try discriminate.
  - apply andb_true_iff in H. destruct H as [H1 H2]. apply event_eqb_eq in H1. apply IH in H2.
    subst. reflexivity.
  - inversion H; subst. rewrite event_eqb_refl. simpl. apply IH. reflexivity.
Qed.

(* ---- membership helpers ----------------------------------------------------------- *)
Lemma mem_In : forall x l, mem x l = true <-> In x l.
Proof.
  unfold mem. intros x l. rewrite existsb_exists. split.
  - intros [y [Hy He]]. apply String.eqb_eq in He. subst. exact Hy.
  - intro H. exists x. split; [exact H | apply String.eqb_refl].
Qed.

Lemma mem_false_notIn : forall x l, mem x l = false <-> ~ In x l.
Proof.
  intros x l. rewrite <- mem_In. destruct (mem x l); split; intro H; try reflexivity;
    try discriminate; try (intro; discriminate). exfalso. apply H. reflexivity.
Qed.

Lemma inter_nil_spec : forall a b, inter_nil a b = true -> forall x, In x a -> ~ In x b.
Proof.
  unfold inter_nil. intros a b H x Ha Hb. apply negb_true_iff in H.
  assert (E : existsb (fun x => mem x b) a = true).
  { apply existsb_exists. exists x. split; [exact Ha | apply mem_In; exact Hb]. }
  rewrite E in H. discriminate.
Qed.

Definition in_dec_str := in_dec string_dec.

(* ---- semantics: footprints ---------------------------------------------------------- *)
Section Facts.
  Variable V : Type.
  Variable I : event -> store V -> store V.
  Variable v : string -> bool.
  Hypothesis HR : respects V I.

  Notation sem := (sem V I v).
  Notation run := (run V I v).
  Notation store_eq := (store_eq V).

  Lemma sem_if : forall c t el s, sem (EIf c t el) s = if v c then run t s else run el s.
  Proof. reflexivity. Qed.
  Lemma sem_group : forall f a b s, sem (EGroup f a b) s = run b s.
  Proof. reflexivity. Qed.
  Lemma sem_prim : forall e s, structural e = false -> sem e s = I e s.
  Proof. intros [] s H; try reflexivity; discriminate. Qed.

  Lemma run_app : forall a b s, run (a ++ b) s = run b (run a s).
  Proof. induction a as [|x a IH]; intros; simpl; [reflexivity | apply IH]. Qed.

  Lemma store_eq_refl : forall s, store_eq s s.
  Proof. intros s f. reflexivity. Qed.
  Lemma store_eq_sym : forall a b, store_eq a b -> store_eq b a.
  Proof. intros a b H f. symmetry. apply H. Qed.
  Lemma store_eq_trans : forall a b c, store_eq a b -> store_eq b c -> store_eq a c.
  Proof. intros a b c H1 H2 f. rewrite H1. apply H2. Qed.

  (* the two halves of the footprint property *)
  Definition frame_ev (e : event) : Prop :=
    forall s f, ~ In f (ev_writes e) -> sem e s f = s f.
  Definition agree_ev (e : event) : Prop :=
    forall s s', (forall g, In g (ev_reads e) -> s g = s' g) ->
      forall f, s f = s' f -> sem e s f = sem e s' f.
  Definition frame_evs (l : list event) : Prop :=
    forall s f, ~ In f (flat_map ev_writes l) -> run l s f = s f.
  Definition agree_evs (l : list event) : Prop :=
    forall s s', (forall g, In g (flat_map ev_reads l) -> s g = s' g) ->
      forall f, s f = s' f -> run l s f = run l s' f.

  Lemma prim_footprint : forall e, structural e = false -> frame_ev e /\ agree_ev e.
  Proof.
    intros e He. split.
    - intros s f Hf. rewrite (sem_prim e s He).
      destruct (HR e s s He (fun _ _ => eq_refl)) as [_ Hfr]. apply Hfr. exact Hf.
    - intros s s' Hr f Hf. rewrite (sem_prim e s He), (sem_prim e s' He).
      destruct (HR e s s' He Hr) as [Hw _].
      destruct (in_dec_str f (ev_writes e)) as [Hin | Hnin].
      + apply Hw. exact Hin.
      + destruct (HR e s s He (fun _ _ => eq_refl)) as [_ Hfr].
        destruct (HR e s' s' He (fun _ _ => eq_refl)) as [_ Hfr'].
        rewrite (Hfr f Hnin), (Hfr' f Hnin). exact Hf.
  Qed.

  Lemma footprint_all :
    forall e, frame_ev e /\ agree_ev e.
  Proof.
    apply (event_ind2 (fun e => frame_ev e /\ agree_ev e) (fun l => frame_evs l /\ agree_evs l));
      try (intros; apply prim_footprint; reflexivity).
    - split; [intros s f _; reflexivity | intros s s' _ f Hf; exact Hf].
    - intros e l [Fe Ae] [Fl Al]. split.
      + intros s f Hf. simpl in *. rewrite Fl.
        * apply Fe. intro H. apply Hf. apply in_or_app. left. exact H.
        * intro H. apply Hf. apply in_or_app. right. exact H.
      + intros s s' Hr f Hf. simpl. apply Al.
        * intros g Hg. apply Ae.
          -- intros g' Hg'. apply Hr. simpl. apply in_or_app. left. exact Hg'.
          -- apply Hr. simpl. apply in_or_app. right. exact Hg.
        * apply Ae; [| exact Hf].
          intros g' Hg'. apply Hr. simpl. apply in_or_app. left. exact Hg'.
    - intros f a b [Fb Ab]. split.
      + intros s g Hg. rewrite sem_group. apply Fb. exact Hg.
      + intros s s' Hr g Hg. rewrite !sem_group. apply Ab; assumption.
    - intros c t el [Ft At] [Fe Ae]. split.
      + intros s g Hg. rewrite sem_if. simpl in Hg. destruct (v c).
        * apply Ft. intro H. apply Hg. apply in_or_app. left. exact H.
        * apply Fe. intro H. apply Hg. apply in_or_app. right. exact H.
      + intros s s' Hr g Hg. rewrite !sem_if. simpl in Hr. destruct (v c).
        * apply At; [| exact Hg]. intros g' Hg'. apply Hr. apply in_or_app. left. exact Hg'.
        * apply Ae; [| exact Hg]. intros g' Hg'. apply Hr. apply in_or_app. right. exact Hg'.
  Qed.

  Lemma footprint_list_all : forall l, frame_evs l /\ agree_evs l.
  Proof.
    induction l as [|e l [Fl Al]].
    - split; [intros s f _; reflexivity | intros s s' _ f Hf; exact Hf].
    - destruct (footprint_all e) as [Fe Ae]. split.
      + intros s f Hf. simpl in *. rewrite Fl.
        * apply Fe. intro H. apply Hf. apply in_or_app. left. exact H.
        * intro H. apply Hf. apply in_or_app. right. exact H.
      + intros s s' Hr f Hf. simpl. apply Al.
        * intros g Hg. apply Ae.
          -- intros g' Hg'. apply Hr. simpl. apply in_or_app. left. exact Hg'.
          -- apply Hr. simpl. apply in_or_app. right. exact Hg.
        * apply Ae; [| exact Hf].
          intros g' Hg'. apply Hr. simpl. apply in_or_app. left. exact Hg'.
  Qed.

  (* sem_footprint: EVERY event (structural ones included) leaves the fields outside its
     write set unchanged, and on stores that agree on its read set it preserves agreement
     field by field.  (The stronger "agreement on reads gives agreement on all writes"
     holds for the primitive events by [respects] but is false for an undecided EIf whose
     taken branch does not write a field the other branch writes: see
     [sem_footprint_strong_fails_on_if] below.) *)
  Theorem sem_footprint : forall e,
    (forall s f, ~ In f (ev_writes e) -> sem e s f = s f) /\
    (forall s s', (forall g, In g (ev_reads e) -> s g = s' g) ->
        forall f, s f = s' f -> sem e s f = sem e s' f).
  Proof. exact footprint_all. Qed.

  Theorem run_footprint : forall l,
    (forall s f, ~ In f (flat_map ev_writes l) -> run l s f = s f) /\
    (forall s s', (forall g, In g (flat_map ev_reads l) -> s g = s' g) ->
        forall f, s f = s' f -> run l s f = run l s' f).
  Proof. exact footprint_list_all. Qed.

  Lemma sem_ext : forall e s s', store_eq s s' -> store_eq (sem e s) (sem e s').
  Proof.
    intros e s s' H f. destruct (sem_footprint e) as [_ A]. apply A; [| apply H].
    intros g _. apply H.
  Qed.

  Theorem run_ext : forall l s s', store_eq s s' -> store_eq (run l s) (run l s').
  Proof.
    intros l s s' H f. destruct (run_footprint l) as [_ A]. apply A; [| apply H].
    intros g _. apply H.
  Qed.

  (* independent events commute *)
  Theorem commute : forall a b s, independent a b = true ->
    store_eq (sem b (sem a s)) (sem a (sem b s)).
  Proof.
    intros a b s H f. unfold independent in H. apply andb_true_iff in H. destruct H as [H1 H2].
    pose proof (inter_nil_spec _ _ H1) as Wa. pose proof (inter_nil_spec _ _ H2) as Wb.
    destruct (sem_footprint a) as [Fa Aa]. destruct (sem_footprint b) as [Fb Ab].
    destruct (in_dec_str f (ev_writes a)) as [Ia | Na].
    - (* f written by a: not touched by b *)
      assert (Nb : ~ In f (ev_writes b)).
      { intro Hb. apply (Wa f Ia). apply in_or_app. right. exact Hb. }
      rewrite (Fb (sem a s) f Nb). apply Aa.
      + intros g Hg. symmetry. apply Fb. intro Hb. exact (Wb g Hb Hg).
      + symmetry. apply Fb. exact Nb.
    - rewrite (Fa (sem b s) f Na). symmetry. apply Ab.
      + intros g Hg. symmetry. apply Fa. intro Ha. apply (Wa g Ha). apply in_or_app. left. exact Hg.
      + symmetry. apply Fa. exact Na.
  Qed.

  (* ---- normaliser soundness ---------------------------------------------------------- *)
  Lemma run_snoc : forall l x s, run (l ++ [x]) s = sem x (run l s).
  Proof. intros. rewrite run_app. reflexivity. Qed.

  Lemma bubble_left_sound : forall x acc s,
    store_eq (run (rev (bubble_left x acc)) s) (run (rev acc ++ [x]) s).
  Proof.
    intros x acc. induction acc as [|y r IH]; intro s.
    - apply store_eq_refl.
    - simpl bubble_left. destruct (independent y x) eqn:E.
      + simpl rev. rewrite run_snoc. rewrite <- app_assoc. simpl app.
        rewrite run_app. simpl run.
        eapply store_eq_trans.
        * apply sem_ext. apply IH.
        * rewrite run_snoc. apply store_eq_sym. apply commute. exact E.
      + simpl rev. rewrite <- !app_assoc. simpl. apply store_eq_refl.
  Qed.

  Lemma float_left_gen : forall name evs acc s,
    store_eq
      (run (rev (fold_left (fun acc e => if is_group name e then bubble_left e acc else e :: acc) evs acc)) s)
      (run (rev acc ++ evs) s).
  Proof.
    intros name evs. induction evs as [|e evs IH]; intros acc s.
    - simpl. rewrite app_nil_r. apply store_eq_refl.
    - simpl fold_left. eapply store_eq_trans; [apply IH|].
      destruct (is_group name e).
      + replace (rev acc ++ e :: evs) with ((rev acc ++ [e]) ++ evs)
          by (rewrite <- app_assoc; reflexivity).
        rewrite (run_app (rev (bubble_left e acc))), (run_app (rev acc ++ [e])).
        apply run_ext. apply bubble_left_sound.
      + simpl rev. rewrite <- app_assoc. simpl. apply store_eq_refl.
  Qed.

  Theorem float_left_sound : forall name evs s,
    store_eq (run (float_left name evs) s) (run evs s).
  Proof. intros. unfold float_left. apply (float_left_gen name evs nil s). Qed.

  (* replacing events by semantically equal sequences *)
  Lemma expand_sound : forall (g : event -> list event),
    (forall e s, store_eq (run (g e) s) (sem e s)) ->
    forall l s, store_eq (run (flat_map g l) s) (run l s).
  Proof.
    intros g Hg l. induction l as [|e l IH]; intro s.
    - apply store_eq_refl.
    - simpl. rewrite run_app. eapply store_eq_trans; [apply IH|]. apply run_ext. apply Hg.
  Qed.

  (* events with an empty write set are no-ops (EAssign, ERaise, EOther): from [respects] *)
  Lemma no_write_noop : forall e s, ev_writes e = nil -> store_eq (sem e s) s.
  Proof.
    intros e s H f. destruct (sem_footprint e) as [F _]. apply F. rewrite H. intros [].
  Qed.

  Lemma filter_noop_sound : forall (keep : event -> bool),
    (forall e, keep e = false -> ev_writes e = nil) ->
    forall l s, store_eq (run (filter keep l) s) (run l s).
  Proof.
    intros keep Hk l. induction l as [|e l IH]; intro s.
    - apply store_eq_refl.
    - simpl. destruct (keep e) eqn:E.
      + simpl. apply IH.
      + eapply store_eq_trans; [apply IH|]. apply run_ext. apply store_eq_sym.
        apply no_write_noop. apply Hk. exact E.
  Qed.

  (* ---- frame corollary used by forward_state_frame ------------------------------------- *)
  Theorem run_frame_fields : forall l fields,
    inter_nil fields (flat_map ev_writes l) = true ->
    forall s f, In f fields -> run l s f = s f.
  Proof.
    intros l fields H s f Hf. destruct (run_footprint l) as [F _]. apply F.
    exact (inter_nil_spec _ _ H f Hf).
  Qed.

  (* ---- def-before-use analysis (C12) ---------------------------------------------------- *)
  Section LiveSound.
    Variable full : event -> list string.
    (* for f in [full e], the value of f after e does not depend on f's old value: it is
       determined by the OTHER fields e reads *)
    Definition full_ok : Prop :=
      forall e f s s', In f (full e) ->
        (forall g, In g (ev_reads e) -> g <> f -> s g = s' g) ->
        sem e s f = sem e s' f.
    Hypothesis HF : full_ok.

    Lemma live_in_gen : forall evs defined s s',
      (forall f, In f defined -> s f = s' f) ->
      (forall f, In f (live_in full evs defined) -> s f = s' f) ->
      forall f, s f = s' f \/ In f (flat_map full evs) -> run evs s f = run evs s' f.
    Proof.
      induction evs as [|e r IH]; intros defined s s' HD HL f Hf.
      - simpl in *. destruct Hf as [H | []]. exact H.
      - simpl run. simpl live_in in HL.
        assert (Hreads : forall g, In g (ev_reads e) -> s g = s' g).
        { intros g Hg. destruct (mem g defined) eqn:E.
          - apply HD. apply mem_In. exact E.
          - apply HL. apply in_or_app. left. apply filter_In. split; [exact Hg|].
            rewrite E. reflexivity. }
        destruct (sem_footprint e) as [_ Ae].
        assert (Keep : forall g, s g = s' g -> sem e s g = sem e s' g).
        { intros g Hg. apply Ae; assumption. }
        assert (Full : forall g, In g (full e) -> sem e s g = sem e s' g).
        { intros g Hg. apply HF; [exact Hg|]. intros g' Hg' _. apply Hreads. exact Hg'. }
        apply (IH (full e ++ defined)).
        + intros g Hg. apply in_app_or in Hg. destruct Hg as [Hg | Hg].
          * apply Full. exact Hg.
          * apply Keep. apply HD. exact Hg.
        + intros g Hg. apply Keep. apply HL. apply in_or_app. right. exact Hg.
        + destruct Hf as [H | H].
          * left. apply Keep. exact H.
          * simpl in H. apply in_app_or in H. destruct H as [H | H].
            -- left. apply Full. exact H.
            -- right. exact H.
    Qed.

    (* live_in_sound: the fields a run READS BEFORE FULLY DEFINING determine the result:
       two stores that agree on [live_in full evs []] end up agreeing on every field on
       which they agreed initially (in particular on all live-in fields, whatever was
       written to them) and on every field some event fully defines.
       Not claimed: a field that is only written under an undecided EIf (by a nested
       Zero/Fill) and never read keeps a history-dependent value when the branch is not
       taken; such fields are neither live-in nor in [flat_map full evs]. *)
    Theorem live_in_sound : forall evs s s',
      (forall f, In f (live_in full evs nil) -> s f = s' f) ->
      forall f, s f = s' f \/ In f (flat_map full evs) -> run evs s f = run evs s' f.
    Proof.
      intros evs s s' HL. apply (live_in_gen evs nil s s'); [intros f [] | exact HL].
    Qed.

    Corollary live_in_closed : forall evs s s',
      (forall f, In f (live_in full evs nil) -> s f = s' f) ->
      forall f, In f (live_in full evs nil) -> run evs s f = run evs s' f.
    Proof. intros evs s s' HL f Hf. apply live_in_sound; [exact HL | left; apply HL; exact Hf]. Qed.
  End LiveSound.

End Facts.

(* the strong form of the footprint property ("agreement on the reads gives agreement on
   ALL the writes") is false for an undecided EIf; the interpretation below (every write
   stores 0) satisfies [respects], so it also shows that hypothesis is satisfiable *)
Definition I_zero (e : event) (s : store nat) : store nat :=
  fun f => if mem f (ev_writes e) then 0 else s f.

Example respects_I_zero : respects nat I_zero.
Proof.
  intros e s s' _ _. split; intros f Hf; unfold I_zero.
  - apply mem_In in Hf. rewrite Hf. reflexivity.
  - apply mem_false_notIn in Hf. rewrite Hf. reflexivity.
Qed.

Example sem_footprint_strong_fails_on_if :
  exists (e : event) (s s' : store nat) (f : string),
    (forall g, In g (ev_reads e) -> s g = s' g) /\ In f (ev_writes e) /\
    sem nat I_zero (fun _ => false) e s f <> sem nat I_zero (fun _ => false) e s' f.
Proof.
  exists (EIf "c" [EZero "x"] []), (fun _ => 0), (fun _ => 1), "x".
  split; [intros g [] | split; [left; reflexivity | simpl; discriminate]].
Qed.

(* ====================================================================================== *)
(* Facts about the REGENERATED program (Gen/Skel_pipeline.v) and Model/PipelineFacts.v      *)
(* ====================================================================================== *)

Lemma filter_nil_all_false : forall (A : Type) (p : A -> bool) (l : list A),
  filter p l = nil -> forall x, In x l -> p x = false.
Proof.
  intros A p l. induction l as [|a l IH]; intros H x Hx; [destruct Hx|].
  simpl in H. destruct (p a) eqn:E; [discriminate|].
  destruct Hx as [<- | Hx]; [exact E | apply IH; assumption].
Qed.

Section Concrete.
  Variable V : Type.
  Variable I : event -> store V -> store V.
  Variable v : string -> bool.
  Hypothesis HR : respects V I.

  Notation sem := (sem V I v).
  Notation run := (run V I v).
  Notation store_eq := (store_eq V).

  Lemma expand_fs_sound : forall pv, fused_eq_split V I v pv ->
    forall e s, store_eq (run (expand_fs pv e) s) (sem e s).
  Proof.
    intros pv H e s. unfold expand_fs. destruct (event_eqb e (fs_event pv)) eqn:E.
    - apply event_eqb_eq in E. subst e. apply (store_eq_sym V). apply H.
    - apply (store_eq_refl V).
  Qed.

  Lemma drop_assign_sound : forall l s, store_eq (run (drop_assign l) s) (run l s).
  Proof.
    intros l s. unfold drop_assign. apply (filter_noop_sound V I v HR).
    intros e He. destruct e; try reflexivity; discriminate.
  Qed.

  Theorem norm_sound : forall pv, fused_eq_split V I v pv ->
    forall l s, store_eq (run (norm pv l) s) (run l s).
  Proof.
    intros pv H l s. unfold norm.
    eapply (store_eq_trans V); [apply (float_left_sound V I v HR)|].
    eapply (store_eq_trans V); [apply (expand_sound V I v HR (expand_fs pv) (expand_fs_sound pv H))|].
    apply drop_assign_sound.
  Qed.

  Theorem equal_normal_forms : forall pv a b, fused_eq_split V I v pv ->
    events_eqb (norm pv a) (norm pv b) = true ->
    forall s, store_eq (run a s) (run b s).
  Proof.
    intros pv a b H E s. apply events_eqb_eq in E.
    eapply (store_eq_trans V); [apply (store_eq_sym V); apply (norm_sound pv H)|].
    rewrite E. apply (norm_sound pv H).
  Qed.

  (* full_nsc satisfies full_ok: Zero/Fill destinations by [respects] alone (they read
     nothing), Copy destinations by [copy_ok] *)
  Lemma full_nsc_ok : copy_ok V I -> full_ok V I v full_nsc.
  Proof.
    intros HC e f s s' Hin Hr. destruct e; simpl in Hin; try contradiction.
    - destruct Hin as [<- | []].
      destruct (HR (EZero field) s s' eq_refl (fun _ H => match H with end)) as [Hw _].
      apply Hw. left. reflexivity.
    - destruct Hin as [<- | []].
      destruct (HR (EFill field value) s s' eq_refl (fun _ H => match H with end)) as [Hw _].
      apply Hw. left. reflexivity.
    - destruct (String.eqb dst src) eqn:E; [destruct Hin|].
      destruct Hin as [<- | []]. apply String.eqb_neq in E. simpl.
      apply HC; [exact E|]. apply Hr; [left; reflexivity|]. intro. apply E. symmetry. assumption.
  Qed.
End Concrete.

(* ---- C37: vm_compute facts on the regenerated program ------------------------------------ *)
Lemma nf_eq_euler :
  events_eqb (norm pv_euler (step1_events pv_euler ++ step2_events pv_euler))
             (norm pv_euler (step_events pv_euler)) = true.
Proof. vm_compute. reflexivity. Qed.

Lemma nf_eq_implicit :
  events_eqb (norm pv_implicit (step1_events pv_implicit ++ step2_events pv_implicit))
             (norm pv_implicit (step_events pv_implicit)) = true.
Proof. vm_compute. reflexivity. Qed.

Theorem step_split_euler :
  forall (V : Type) (I : event -> store V -> store V) (v : string -> bool),
    respects V I -> fused_eq_split V I v pv_euler ->
    forall s, store_eq V (run V I v (step1_events pv_euler ++ step2_events pv_euler) s)
                         (run V I v (step_events pv_euler) s).
Proof.
  intros V I v HR H s. exact (equal_normal_forms V I v HR pv_euler _ _ H nf_eq_euler s).
Qed.

Theorem step_split_implicit :
  forall (V : Type) (I : event -> store V -> store V) (v : string -> bool),
    respects V I -> fused_eq_split V I v pv_implicit ->
    forall s, store_eq V (run V I v (step1_events pv_implicit ++ step2_events pv_implicit) s)
                         (run V I v (step_events pv_implicit) s).
Proof.
  intros V I v HR H s. exact (equal_normal_forms V I v HR pv_implicit _ _ H nf_eq_implicit s).
Qed.

(* the flattened lists are complete (no out-of-fuel / missing-function marker), the
   configuration is closed (no undecided condition mentions sleep or a callback), and the
   normaliser did what it is described to do: the step contains the fused group exactly
   once, its normal form has one factor_m and one solve_m group and no fused group *)
Definition count_group (name : string) (l : list event) : nat :=
  length (filter (is_group name) l).

Definition split_wellformed (pv : pval) : bool :=
  evs_ok (step_events pv) && evs_ok (step1_events pv) && evs_ok (step2_events pv) &&
  no_cond_mentions ["sleep"; "SLEEP"; "callback"]
     (step_events pv ++ step1_events pv ++ step2_events pv) &&
  Nat.eqb (count_group "smooth.factor_solve_i" (step_events pv)) 1 &&
  Nat.eqb (count_group "smooth.factor_m" (step1_events pv)) 1 &&
  Nat.eqb (count_group "smooth.solve_m" (step2_events pv)) 1 &&
  (let n := norm pv (step_events pv) in
   Nat.eqb (count_group "smooth.factor_solve_i" n) 0 &&
   Nat.eqb (count_group "smooth.factor_m" n) 1 &&
   Nat.eqb (count_group "smooth.solve_m" n) 1 &&
   negb (Nat.eqb (length (crossed n)) 0) &&
   forallb alias_safe (crossed n)).

Lemma split_wellformed_euler : split_wellformed pv_euler = true.
Proof. vm_compute. reflexivity. Qed.
Lemma split_wellformed_implicit : split_wellformed pv_implicit = true.
Proof. vm_compute. reflexivity. Qed.

(* ---- C37: forward() and the integration state ------------------------------------------------ *)
(* well-formedness of the flattened forward(): complete, configuration closed, no external
   callee receives the whole Data struct, and the only launches with an unresolved output
   list are the convex narrowphase kernels (contact_outputs + [d.overflow]) *)
Definition forward_wellformed (pv : pval) : bool :=
  let l := forward_events pv in
  evs_ok l && no_cond_mentions ["sleep"; "SLEEP"; "callback"] l &&
  match flat_map ext_with_d l with nil => true | _ => false end &&
  forallb (String.prefix "collision_convex.") (flat_map unresolved l).

Lemma forward_wellformed_common : forward_wellformed pv_common = true.
Proof. vm_compute. reflexivity. Qed.
Lemma forward_wellformed_nohist : forward_wellformed pv_common_nohist = true.
Proof. vm_compute. reflexivity. Qed.

(* models without history buffers: forward() has no integration-state field among the
   writes of any event, recursively through EIf / EGroup / ELoop *)
Lemma forward_state_disjoint_nohist :
  inter_nil state_fields (flat_map ev_writes (forward_events pv_common_nohist)) = true.
Proof. vm_compute. reflexivity. Qed.

Theorem forward_state_frame_nohist :
  forall (V : Type) (I : event -> store V -> store V) (v : string -> bool),
    respects V I ->
    forall s f, In f state_fields ->
      run V I v (forward_events pv_common_nohist) s f = s f.
Proof.
  intros V I v HR s f Hf.
  exact (run_frame_fields V I v HR _ _ forward_state_disjoint_nohist s f Hf).
Qed.

(* general models: d.history IS written by forward(), by exactly one kernel *)
Definition state_minus_history : list string :=
  filter (fun f => negb (String.eqb f "d.history")) state_fields.

Lemma forward_state_disjoint_except_history :
  inter_nil state_minus_history (flat_map ev_writes (forward_events pv_common)) = true.
Proof. vm_compute. reflexivity. Qed.

Theorem forward_state_frame_except_history :
  forall (V : Type) (I : event -> store V -> store V) (v : string -> bool),
    respects V I ->
    forall s f, In f state_fields -> f <> "d.history" ->
      run V I v (forward_events pv_common) s f = s f.
Proof.
  intros V I v HR s f Hf Hn.
  apply (run_frame_fields V I v HR _ _ forward_state_disjoint_except_history s f).
  unfold state_minus_history. apply filter_In. split; [exact Hf|].
  apply negb_true_iff. apply String.eqb_neq. exact Hn.
Qed.

Theorem forward_state_frame_refuted :
  exists f, In f state_fields /\ In f (flat_map ev_writes (forward_events pv_common)) /\
            dedup (flat_map (writers f) (forward_events pv_common))
            = ["history._insert_sensor_history_stage"].
Proof.
  exists "d.history". split; [| split].
  - apply mem_In. vm_compute. reflexivity.
  - apply mem_In. vm_compute. reflexivity.
  - vm_compute. reflexivity.
Qed.

(* producer-before-consumer: no Data field outside the committed lists is written after
   an event of the same (possibly nested) list has purely read it *)
Lemma writers_precede_readers_all :
  (war_unexplained war_step1 (step1_events pv_euler),
   war_unexplained war_step1 (step1_events pv_implicit),
   war_unexplained war_step2 (step2_events pv_euler),
   war_unexplained war_step2 (step2_events pv_implicit),
   war_unexplained war_forward (forward_events pv_common)) = (nil, nil, nil, nil, nil).
Proof. vm_compute. reflexivity. Qed.

Lemma M_complete_before_factor :
  mem "d.M" (war (step1_events pv_euler)) = false /\
  mem "d.M" (war (step1_events pv_implicit)) = false.
Proof. split; vm_compute; reflexivity. Qed.

(* ---- C12 ------------------------------------------------------------------------------------- *)
Definition step_wellformed (pv : pval) : bool :=
  evs_ok (step_events pv) && no_cond_mentions ["sleep"; "SLEEP"; "callback"] (step_events pv) &&
  match flat_map ext_with_d (step_events pv) with nil => true | _ => false end.

Lemma step_wellformed_all :
  step_wellformed pv_euler && step_wellformed pv_implicit && step_wellformed pv_rk4 = true.
Proof. vm_compute. reflexivity. Qed.

Lemma unexplained_nil_euler : unexplained_of (step_events pv_euler) = nil.
Proof. vm_compute. reflexivity. Qed.
Lemma unexplained_nil_implicit : unexplained_of (step_events pv_implicit) = nil.
Proof. vm_compute. reflexivity. Qed.
Lemma unexplained_nil_rk4 : unexplained_of (step_events pv_rk4) = nil.
Proof. vm_compute. reflexivity. Qed.

Lemma uncovered_nil_all :
  (uncovered_writes pv_euler, uncovered_writes pv_implicit, uncovered_writes pv_rk4) = (nil, nil, nil).
Proof. vm_compute. reflexivity. Qed.

(* the semantic reading: if the def-before-use fact holds for an event list, the fields
   two stores must agree on for the whole run to agree on every field they agreed on
   initially (the next integration state in particular) and on every fully defined field
   are: the integration state, the baseline, and the names outside Data *)
Theorem depends_on_gen :
  forall evs, unexplained_of evs = nil ->
  forall (V : Type) (I : event -> store V -> store V) (v : string -> bool),
    respects V I -> copy_ok V I ->
    forall s s',
      (forall f, In f state_fields -> s f = s' f) ->
      (forall f, In f assumed_region_defined -> s f = s' f) ->
      (forall f, String.prefix "d." f = false -> s f = s' f) ->
      forall f, s f = s' f \/ In f (flat_map full_nsc evs) ->
        run V I v evs s f = run V I v evs s' f.
Proof.
  intros evs HU V I v HR HC s s' Hst Hbl Hnd.
  apply (live_in_sound V I v HR full_nsc (full_nsc_ok V I v HR HC)).
  intros f Hf. unfold unexplained_of in HU.
  pose proof (filter_nil_all_false _ _ _ HU f Hf) as E. cbv beta in E.
  destruct (String.prefix "d." f) eqn:P; [| apply Hnd; exact P].
  destruct (mem f state_fields) eqn:S; [apply Hst; apply mem_In; exact S|].
  destruct (mem f assumed_region_defined) eqn:B; [apply Hbl; apply mem_In; exact B|].
  simpl in E. discriminate.
Qed.

Theorem step_depends_on :
  forall pv, unexplained_of (step_events pv) = nil ->
  forall (V : Type) (I : event -> store V -> store V) (v : string -> bool),
    respects V I -> copy_ok V I ->
    forall s s',
      (forall f, In f state_fields -> s f = s' f) ->
      (forall f, In f assumed_region_defined -> s f = s' f) ->
      (forall f, String.prefix "d." f = false -> s f = s' f) ->
      forall f, s f = s' f \/ In f (flat_map full_nsc (step_events pv)) ->
        run V I v (step_events pv) s f = run V I v (step_events pv) s' f.
Proof. intros pv HU. exact (depends_on_gen (step_events pv) HU). Qed.

Theorem next_state_function_of_state_partial :
  forall pv, In pv [pv_euler; pv_implicit; pv_rk4] ->
  forall (V : Type) (I : event -> store V -> store V) (v : string -> bool),
    respects V I -> copy_ok V I ->
    forall s s',
      (forall f, In f state_fields -> s f = s' f) ->
      (forall f, In f assumed_region_defined -> s f = s' f) ->
      (forall f, String.prefix "d." f = false -> s f = s' f) ->
      forall f, In f state_fields ->
        run V I v (step_events pv) s f = run V I v (step_events pv) s' f.
Proof.
  intros pv Hpv V I v HR HC s s' Hst Hbl Hnd f Hf.
  assert (HU : unexplained_of (step_events pv) = nil).
  { destruct Hpv as [<- | [<- | [<- | []]]];
      [exact unexplained_nil_euler | exact unexplained_nil_implicit | exact unexplained_nil_rk4]. }
  apply (step_depends_on pv HU V I v HR HC s s' Hst Hbl Hnd). left. apply Hst. exact Hf.
Qed.

(* non-vacuity: the hypotheses on the interpretation are satisfiable together *)
Example copy_ok_I_zero : copy_ok nat I_zero.
Proof. intros d s0 s s' _ _. unfold I_zero. simpl. rewrite String.eqb_refl. reflexivity. Qed.

Example fused_eq_split_unit :
  forall v pv, fused_eq_split unit (fun _ s => s) v pv.
Proof. intros v pv s f. destruct (sem unit _ v _ s f), (run unit _ v _ s f). reflexivity. Qed.

Example respects_unit : respects unit (fun _ s => s).
Proof.
  intros e s s' _ _. split; intros f _; [destruct (s f), (s' f)|]; reflexivity.
Qed.
